(** Theorems about the CTAP2 message model [Wire/Serde.v].

    Part G: the struct visitor of [serde_workaround!] / serde derive, for *every* schema
            (unbounded: induction over the field list and the entries).
    Part T: the typed layer: reading back what the serialiser wrote yields the same message.
    Part P: facts about the schemas generated from the Rust sources (gen/CtapSchema.v) against
            the specification tables (CtapSpec.v), by computation.
    Part S: status bytes (finite domain: 256-element sweeps lifted with [forallb_forall]). *)
From Coq Require Import String Lia Sorted.
From PK Require Import Lib.Cbor Lib.CborFacts Lib.Check Wire.Serde Wire.CtapSpec
  Wire.gen.CtapSchema Wire.gen.Status Wire.gen.WebauthnError Wire.CtapCheck.
Open Scope N_scope.

(** * Lists *)

Lemma find_idx_app_hit {A} (p : A -> bool) pre x suf :
  (forall y, In y pre -> p y = false) -> p x = true ->
  find_idx p (pre ++ x :: suf) = Some (length pre).
Proof.
  intros Hpre Hx. induction pre as [|y pre IH]; cbn [app find_idx length].
  - rewrite Hx. reflexivity.
  - rewrite (Hpre y (or_introl eq_refl)). rewrite IH; [reflexivity|].
    intros z Hz. apply Hpre. right. exact Hz.
Qed.

Lemma find_idx_lt {A} (p : A -> bool) l i : find_idx p l = Some i -> (i < length l)%nat.
Proof.
  revert i. induction l as [|x l IH]; intros i; cbn [find_idx length]; [discriminate|].
  destruct (p x); [intros H; inversion H; lia|].
  destruct (find_idx p l) as [j|]; [|discriminate]. intros H. inversion H. specialize (IH j eq_refl). lia.
Qed.

Lemma find_idx_none {A} (p : A -> bool) l :
  (forall y, In y l -> p y = false) -> find_idx p l = None.
Proof.
  induction l as [|x l IH]; intros H; cbn [find_idx]; [reflexivity|].
  rewrite (H x (or_introl eq_refl)). rewrite IH; [reflexivity|]. intros y Hy. apply H. right. exact Hy.
Qed.

Lemma set_nth_length {A} i (x : A) l : length (set_nth i x l) = length l.
Proof. revert i. induction l as [|y l IH]; intros [|i]; cbn [set_nth length]; auto. Qed.

Lemma set_nth_app {A} (a : list A) x y r : set_nth (length a) x (a ++ y :: r) = a ++ x :: r.
Proof. induction a as [|z a IH]; cbn [length app set_nth]; [reflexivity|]. rewrite IH. reflexivity. Qed.

Lemma nth_set_nth_eq {A} i (x d : A) l : (i < length l)%nat -> nth i (set_nth i x l) d = x.
Proof.
  revert i. induction l as [|y l IH]; intros [|i] H; cbn [length] in H; cbn [set_nth nth]; try lia; [reflexivity|].
  apply IH. lia.
Qed.

Lemma nth_set_nth_neq {A} i j (x d : A) l : i <> j -> nth i (set_nth j x l) d = nth i l d.
Proof.
  revert i j. induction l as [|y l IH]; intros [|i] [|j] H; cbn [set_nth nth]; try reflexivity; try congruence.
  apply IH. congruence.
Qed.

Lemma nth_repeat_none {A} i n : nth i (repeat (@None A) n) None = None.
Proof. revert i. induction n as [|n IH]; intros [|i]; cbn [repeat nth]; auto. Qed.

Lemma nth_app_len {A} (a : list A) x r d : nth (length a) (a ++ x :: r) d = x.
Proof. induction a as [|y a IH]; cbn [length app nth]; auto. Qed.

Lemma nodupb_NoDup {A} (e : A -> A -> bool) l :
  (forall x y, e x y = true -> x = y) -> (forall x, e x x = true) -> nodupb e l = true -> NoDup l.
Proof.
  intros He Hr. induction l as [|x l IH]; cbn [nodupb]; intros H; [constructor|].
  apply andb_true_iff in H as [H1 H2]. constructor; [|apply IH; exact H2].
  intros Hin. apply negb_true_iff in H1.
  assert (existsb (e x) l = true) as E by (apply existsb_exists; exists x; split; [exact Hin|apply Hr]).
  congruence.
Qed.

Lemma forallb2_length {A B} (p : A -> B -> bool) a b : forallb2 p a b = true -> length a = length b.
Proof.
  revert b. induction a as [|x a IH]; intros [|y b]; cbn [forallb2 length]; try discriminate; [reflexivity|].
  intros H. apply andb_true_iff in H as [_ H]. f_equal. apply IH. exact H.
Qed.

Lemma forallb2_nth {A B} (p : A -> B -> bool) a b i x y :
  forallb2 p a b = true -> nth_error a i = Some x -> nth_error b i = Some y -> p x y = true.
Proof.
  revert b i. induction a as [|x0 a IH]; intros [|y0 b] [|i]; cbn [forallb2 nth_error]; try discriminate.
  - intros H Hx Hy. inversion Hx. inversion Hy. subst. apply andb_true_iff in H as [H _]. exact H.
  - intros H Hx Hy. apply andb_true_iff in H as [_ H]. eapply IH; eauto.
Qed.

(** * Part G: the struct visitor *)

(** the key a field is found by, as a number or a name *)
Definition key_distinct (m : keymode) (fs : list fattr) : Prop :=
  match m with
  | IntKeys => NoDup (map f_key fs) /\ (forall f, In f fs -> f_key f <= 255)
  | TextKeys => NoDup (map f_name fs) /\ (forall f, In f fs -> N.of_nat (length (f_name f)) <= SCRATCH)
  end.

Lemma keys_ok_distinct m fs : keys_ok m fs = true -> key_distinct m fs.
Proof.
  destruct m; unfold keys_ok, key_distinct; intros H; apply andb_true_iff in H as [H1 H2]; split.
  - apply (nodupb_NoDup N.eqb); [intros x y E; apply N.eqb_eq; exact E|apply N.eqb_refl|exact H1].
  - intros f Hf. rewrite forallb_forall in H2. apply N.leb_le. apply H2. exact Hf.
  - apply (nodupb_NoDup beq); [intros x y E; apply beq_eq; exact E|apply beq_refl|exact H1].
  - intros f Hf. rewrite forallb_forall in H2. apply N.leb_le. apply H2. exact Hf.
Qed.

(** the key the serialiser writes for a field is read back as that field *)
Lemma classify_key_of m pre f suf :
  key_distinct m (pre ++ f :: suf) ->
  classify m (pre ++ f :: suf) (key_of m f) = Some (IdField (length pre)).
Proof.
  intros Hd. destruct m; unfold key_distinct in Hd; destruct Hd as [Hnd Hb]; cbn [classify key_of untag].
  - assert (f_key f <= 255) as Hk by (apply Hb; apply in_or_app; right; left; reflexivity).
    replace (Z.of_N (f_key f) <? 0)%Z with false by lia.
    replace (255 <? Z.of_N (f_key f))%Z with false by lia.
    unfold lookup. rewrite N2Z.id. rewrite find_idx_app_hit; [reflexivity| |apply N.eqb_refl].
    intros y Hy. apply N.eqb_neq. intros E.
    rewrite map_app in Hnd. cbn [map] in Hnd. apply NoDup_remove_2 in Hnd. apply Hnd.
    apply in_or_app. left. rewrite <- E. apply in_map. exact Hy.
  - assert (N.of_nat (length (f_name f)) <= SCRATCH) as Hk by (apply Hb; apply in_or_app; right; left; reflexivity).
    replace (SCRATCH <? N.of_nat (length (f_name f))) with false by lia.
    unfold lookup. rewrite find_idx_app_hit; [reflexivity| |apply beq_refl].
    intros y Hy. destruct (beq (f_name y) (f_name f)) eqn:E; [|reflexivity]. exfalso.
    apply beq_eq in E.
    rewrite map_app in Hnd. cbn [map] in Hnd. apply NoDup_remove_2 in Hnd. apply Hnd.
    apply in_or_app. left. rewrite <- E. apply in_map. exact Hy.
Qed.

(** what a message must satisfy to be written and read back unchanged at this level:
    a member that is [None] is skipped by the serialiser and has a default *)
Definition absent_allowed (f : fattr) (v : option cbor) : Prop :=
  v = None -> f_skip f = true /\ f_dflt f <> DRequired.

Lemma de_loop_ser m fs : key_distinct m fs ->
  forall suf pre vpre vsuf, fs = pre ++ suf -> length vpre = length pre ->
    Forall2 absent_allowed suf vsuf ->
    de_loop m fs (ser_entries m suf vsuf) (vpre ++ repeat None (length suf)) = Some (vpre ++ vsuf).
Proof.
  intros Hd. induction suf as [|f suf IH]; intros pre vpre vsuf Hfs Hlen Hall.
  - inversion Hall. subst. cbn [ser_entries de_loop length repeat]. reflexivity.
  - inversion Hall as [|f0 v suf0 vsuf' Hv Hall']. subst f0 suf0 vsuf.
    cbn [length repeat].
    assert (E : forall w, (vpre ++ [w]) ++ repeat None (length suf) = vpre ++ w :: repeat None (length suf))
      by (intros w; rewrite <- app_assoc; reflexivity).
    destruct v as [c|]; cbn [ser_entries].
    + assert (Hc : classify m fs (key_of m f) = Some (IdField (length pre)))
        by (rewrite Hfs; apply classify_key_of; rewrite <- Hfs; exact Hd).
      cbn [de_loop]. rewrite Hc.
      rewrite <- Hlen. rewrite nth_app_len. rewrite set_nth_app. rewrite <- E.
      rewrite (IH (pre ++ [f]) (vpre ++ [Some c]) vsuf').
      * rewrite <- app_assoc. reflexivity.
      * rewrite <- app_assoc. exact Hfs.
      * rewrite !app_length. cbn [length]. lia.
      * exact Hall'.
    + destruct (Hv eq_refl) as [Hs _]. rewrite Hs. rewrite <- E.
      rewrite (IH (pre ++ [f]) (vpre ++ [None]) vsuf').
      * rewrite <- app_assoc. reflexivity.
      * rewrite <- app_assoc. exact Hfs.
      * rewrite !app_length. cbn [length]. lia.
      * exact Hall'.
Qed.

Lemma present_or_default_all fs vals :
  Forall2 absent_allowed fs vals -> forallb2 present_or_default fs vals = true.
Proof.
  induction 1 as [|f v fs vals Hv _ IH]; cbn [forallb2]; [reflexivity|].
  rewrite IH, andb_true_r. unfold present_or_default. destruct v as [c|]; [reflexivity|].
  destruct (Hv eq_refl) as [_ Hd]. destruct (f_dflt f); congruence.
Qed.

(** G1: reading back what was written *)
Theorem de_ser_struct m fs vals :
  key_distinct m fs -> Forall2 absent_allowed fs vals ->
  de_struct m fs (ser_entries m fs vals) = Some vals.
Proof.
  intros Hd Hall. unfold de_struct.
  pose proof (de_loop_ser m fs Hd fs [] [] vals eq_refl eq_refl Hall) as H. cbn [app] in H. rewrite H.
  rewrite present_or_default_all by exact Hall. reflexivity.
Qed.

(** G2: the keys on the wire are the keys of the written members, in declaration order *)
Definition written (fv : fattr * option cbor) : bool :=
  match snd fv with Some _ => true | None => negb (f_skip (fst fv)) end.

Theorem ser_keys m fs vals :
  map fst (ser_entries m fs vals) = map (fun fv => key_of m (fst fv)) (filter written (combine fs vals)).
Proof.
  revert vals. induction fs as [|f fs IH]; intros [|v vals]; cbn [ser_entries combine filter map]; try reflexivity.
  unfold written at 1. cbn [fst snd]. destruct v as [c|]; cbn [map fst]; [rewrite IH; reflexivity|].
  destruct (f_skip f); cbn [negb map fst]; rewrite IH; reflexivity.
Qed.

(** G3: every entry on the wire is a member that is present, with its value; a [None] member
    under [skip_serializing_if] is left out, not written as null *)
Theorem ser_entries_present m fs vals k v :
  Forall2 absent_allowed fs vals ->
  In (k, v) (ser_entries m fs vals) -> exists f, In (f, Some v) (combine fs vals) /\ k = key_of m f.
Proof.
  induction 1 as [|f x fs vals Hx _ IH]; cbn [ser_entries combine]; [intros []|].
  destruct x as [c|].
  - intros [E|Hin].
    + inversion E. subst. exists f. split; [left; reflexivity|reflexivity].
    + destruct (IH Hin) as [g [Hg Ek]]. exists g. split; [right; exact Hg|exact Ek].
  - destruct (Hx eq_refl) as [Hs _]. rewrite Hs. intros Hin.
    destruct (IH Hin) as [g [Hg Ek]]. exists g. split; [right; exact Hg|exact Ek].
Qed.

(** G4: entries with unknown keys are ignored, wherever they stand *)
Definition is_unknown (m : keymode) (fs : list fattr) (k : cbor) : bool :=
  match classify m fs k with Some IdUnknown => true | _ => false end.

Lemma de_loop_filter m fs es : forall acc,
  de_loop m fs es acc = de_loop m fs (filter (fun kv => negb (is_unknown m fs (fst kv))) es) acc.
Proof.
  induction es as [|[k v] es IH]; intros acc; cbn [filter de_loop fst]; [reflexivity|].
  unfold is_unknown at 1. destruct (classify m fs k) as [[i|]|] eqn:E; cbn [negb].
  - cbn [de_loop]. rewrite E. destruct (nth i acc None); [reflexivity|apply IH].
  - apply IH.
  - cbn [de_loop]. rewrite E. reflexivity.
Qed.

Theorem de_struct_ignores_unknown m fs es :
  de_struct m fs es = de_struct m fs (filter (fun kv => negb (is_unknown m fs (fst kv))) es).
Proof. unfold de_struct. rewrite de_loop_filter. reflexivity. Qed.

Corollary de_struct_insert_unknown m fs es1 es2 k v :
  classify m fs k = Some IdUnknown ->
  de_struct m fs (es1 ++ (k, v) :: es2) = de_struct m fs (es1 ++ es2).
Proof.
  intros E. rewrite (de_struct_ignores_unknown m fs (es1 ++ (k, v) :: es2)).
  rewrite (de_struct_ignores_unknown m fs (es1 ++ es2)).
  rewrite !filter_app. cbn [filter fst]. unfold is_unknown at 2. rewrite E. reflexivity.
Qed.

(** which keys are unknown for an integer-keyed struct: an unsigned integer up to 255 that is
    no member's number, and a text (or byte) string that is no member's camelCase name *)
Theorem unknown_int_key fs z :
  (0 <= z <= 255)%Z -> (forall f, In f fs -> f_key f <> Z.to_N z) ->
  classify IntKeys fs (CInt z) = Some IdUnknown.
Proof.
  intros Hz Hno. cbn [classify]. replace (z <? 0)%Z with false by lia. replace (255 <? z)%Z with false by lia.
  unfold lookup. rewrite find_idx_none; [reflexivity|]. intros f Hf. apply N.eqb_neq. apply Hno. exact Hf.
Qed.

Theorem unknown_text_key fs s :
  (forall f, In f fs -> f_name f <> s) ->
  classify IntKeys fs (CText s) = Some IdUnknown /\ classify IntKeys fs (CBytes s) = Some IdUnknown.
Proof.
  intros Hno. cbn [classify]. unfold lookup. rewrite find_idx_none; [split; reflexivity|].
  intros f Hf. destruct (beq (f_name f) s) eqn:E; [|reflexivity]. apply beq_eq in E. exfalso. exact (Hno f Hf E).
Qed.

(** keys the integer-keyed visitor rejects outright *)
Theorem bad_int_key fs z : (z < 0 \/ 255 < z)%Z -> classify IntKeys fs (CInt z) = None.
Proof.
  intros Hz. cbn [classify]. destruct (Z.ltb_spec z 0); [reflexivity|].
  destruct (Z.ltb_spec 255 z); [reflexivity|lia].
Qed.

Lemma de_loop_bad_key m fs es : forall acc k v,
  In (k, v) es -> classify m fs k = None -> de_loop m fs es acc = None.
Proof.
  induction es as [|[k0 v0] es IH]; intros acc k v Hin Hk; [destruct Hin|].
  cbn [de_loop]. destruct Hin as [E|Hin].
  - inversion E. subst. rewrite Hk. reflexivity.
  - destruct (classify m fs k0) as [[i|]|]; [|eapply IH; eauto|reflexivity].
    destruct (nth i acc None); [reflexivity|eapply IH; eauto].
Qed.

Theorem de_struct_bad_key m fs es k v :
  In (k, v) es -> classify m fs k = None -> de_struct m fs es = None.
Proof. intros Hin Hk. unfold de_struct. rewrite (de_loop_bad_key m fs es _ k v Hin Hk). reflexivity. Qed.

(** G5: a member given twice (under whatever spellings of its key) is an error *)
Lemma classify_field_lt m fs k i : classify m fs k = Some (IdField i) -> (i < length fs)%nat.
Proof.
  assert (L : forall p, lookup p fs = IdField i -> (i < length fs)%nat).
  { intros p. unfold lookup. destruct (find_idx p fs) as [j|] eqn:E; [|discriminate].
    intros H. inversion H. subst. eapply find_idx_lt. exact E. }
  destruct m; cbn [classify].
  - destruct k; try discriminate.
    + destruct (z <? 0)%Z; [discriminate|]. destruct (255 <? z)%Z; [discriminate|]. intros H. inversion H. eapply L; eauto.
    + intros H. inversion H. eapply L; eauto.
    + intros H. inversion H. eapply L; eauto.
  - destruct (untag k); try discriminate.
    + destruct (SCRATCH <? _); [discriminate|]. intros H. inversion H. eapply L; eauto.
    + destruct (SCRATCH <? _); [discriminate|]. intros H. inversion H. eapply L; eauto.
Qed.

Lemma de_loop_dup m fs i : forall es acc k v es' x,
  nth i acc None = Some x -> classify m fs k = Some (IdField i) ->
  de_loop m fs (es ++ (k, v) :: es') acc = None.
Proof.
  induction es as [|[k0 v0] es IH]; intros acc k v es' x Hn Hk; cbn [app de_loop].
  - rewrite Hk, Hn. reflexivity.
  - destruct (classify m fs k0) as [[j|]|]; [|eapply IH; eauto|reflexivity].
    destruct (nth j acc None) eqn:Ej; [reflexivity|].
    eapply IH; [|exact Hk]. rewrite nth_set_nth_neq; [exact Hn|]. intros ->. congruence.
Qed.

Lemma de_loop_duplicate m fs i k1 v1 k2 v2 es2 es3 : forall es1 acc,
  length acc = length fs ->
  classify m fs k1 = Some (IdField i) -> classify m fs k2 = Some (IdField i) ->
  de_loop m fs (es1 ++ (k1, v1) :: es2 ++ (k2, v2) :: es3) acc = None.
Proof.
  induction es1 as [|[k0 v0] es1 IH]; intros acc Hlen H1 H2; cbn [app de_loop].
  - rewrite H1. destruct (nth i acc None); [reflexivity|].
    eapply de_loop_dup; [|exact H2]. apply nth_set_nth_eq. rewrite Hlen. eapply classify_field_lt. exact H1.
  - destruct (classify m fs k0) as [[j|]|]; [|apply IH; assumption|reflexivity].
    destruct (nth j acc None); [reflexivity|]. apply IH; [rewrite set_nth_length; exact Hlen|exact H1|exact H2].
Qed.

Theorem de_struct_duplicate m fs i k1 v1 k2 v2 es1 es2 es3 :
  classify m fs k1 = Some (IdField i) -> classify m fs k2 = Some (IdField i) ->
  de_struct m fs (es1 ++ (k1, v1) :: es2 ++ (k2, v2) :: es3) = None.
Proof.
  intros H1 H2. unfold de_struct.
  rewrite (de_loop_duplicate m fs i k1 v1 k2 v2 es2 es3 es1); [reflexivity|apply repeat_length|exact H1|exact H2].
Qed.

(** G6: a missing member without a default is an error *)
Lemma de_loop_untouched m fs i : forall es acc acc',
  (forall k v, In (k, v) es -> classify m fs k <> Some (IdField i)) ->
  de_loop m fs es acc = Some acc' -> nth i acc' None = nth i acc None.
Proof.
  induction es as [|[k0 v0] es IH]; intros acc acc' Hno; cbn [de_loop].
  - intros H. inversion H. reflexivity.
  - assert (Hno' : forall k v, In (k, v) es -> classify m fs k <> Some (IdField i))
      by (intros k v Hin; apply (Hno k v); right; exact Hin).
    destruct (classify m fs k0) as [[j|]|] eqn:E; [|apply IH; exact Hno'|discriminate].
    destruct (nth j acc None); [discriminate|]. intros H. rewrite (IH _ _ Hno' H).
    apply nth_set_nth_neq. intros ->. apply (Hno k0 v0 (or_introl eq_refl)). exact E.
Qed.

Theorem de_struct_missing_required m fs es i f :
  nth_error fs i = Some f -> f_dflt f = DRequired ->
  (forall k v, In (k, v) es -> classify m fs k <> Some (IdField i)) ->
  de_struct m fs es = None.
Proof.
  intros Hf Hreq Hno. unfold de_struct.
  destruct (de_loop m fs es (repeat None (length fs))) as [acc|] eqn:E; [|reflexivity].
  destruct (forallb2 present_or_default fs acc) eqn:Hall; [|reflexivity]. exfalso.
  pose proof (de_loop_untouched m fs i es _ _ Hno E) as Hn. rewrite nth_repeat_none in Hn.
  pose proof (forallb2_length _ _ _ Hall) as Hlen.
  destruct (nth_error acc i) as [y|] eqn:Ey.
  - pose proof (forallb2_nth _ _ _ _ _ _ Hall Hf Ey) as Hp.
    apply (nth_error_nth _ _ None) in Ey. rewrite Hn in Ey. subst y.
    unfold present_or_default in Hp. rewrite Hreq in Hp. discriminate.
  - apply nth_error_None in Ey. assert (i < length fs)%nat by (apply nth_error_Some; congruence). lia.
Qed.

(** * Part T: the typed layer *)

Section KindInd.
  Variable P : kind -> Prop.
  Hypothesis HBytes : P KBytes.
  Hypothesis HText : P KText.
  Hypothesis HUint : forall mx, P (KUint mx).
  Hypothesis HNz : P KNzU128.
  Hypothesis HBool : P KBool.
  Hypothesis HRaw : P KRaw.
  Hypothesis HAuth : P KAuthData.
  Hypothesis HAaguid : P KAaguid.
  Hypothesis HU8Arr : forall n, P (KU8Arr n).
  Hypothesis HAlg : P KAlg.
  Hypothesis HEnum : forall vs o, P (KEnum vs o).
  Hypothesis HLenient : forall k d, P k -> P (KLenient k d).
  Hypothesis HOpt : forall k, P k -> P (KOpt k).
  Hypothesis HVec : forall k, P k -> P (KVec k).
  Hypothesis HLenientVec : forall k, P k -> P (KLenientVec k).
  Hypothesis HMapBytes : forall k, P k -> P (KMapBytes k).
  Hypothesis HT : forall fs, Forall (fun fk : fattr * kind => P (snd fk)) fs -> P (KTStruct fs).
  Hypothesis HI : forall fs, Forall (fun fk : fattr * kind => P (snd fk)) fs -> P (KIStruct fs).

  Fixpoint kind_ind' (k : kind) : P k :=
    match k with
    | KBytes => HBytes | KText => HText | KUint mx => HUint mx | KNzU128 => HNz | KBool => HBool
    | KRaw => HRaw | KAuthData => HAuth | KAaguid => HAaguid | KU8Arr n => HU8Arr n | KAlg => HAlg
    | KEnum vs o => HEnum vs o
    | KLenient k' d => HLenient k' d (kind_ind' k')
    | KOpt k' => HOpt k' (kind_ind' k')
    | KVec k' => HVec k' (kind_ind' k')
    | KLenientVec k' => HLenientVec k' (kind_ind' k')
    | KMapBytes k' => HMapBytes k' (kind_ind' k')
    | KTStruct fs =>
        HT fs ((fix go (l : list (fattr * kind)) : Forall (fun fk : fattr * kind => P (snd fk)) l :=
                  match l with
                  | [] => Forall_nil _
                  | fk :: r => Forall_cons fk (kind_ind' (snd fk)) (go r)
                  end) fs)
    | KIStruct fs =>
        HI fs ((fix go (l : list (fattr * kind)) : Forall (fun fk : fattr * kind => P (snd fk)) l :=
                  match l with
                  | [] => Forall_nil _
                  | fk :: r => Forall_cons fk (kind_ind' (snd fk)) (go r)
                  end) fs)
    end.
End KindInd.

(** the struct cases of the three fixpoints, with the inner loops as named functions *)
Lemma de_kind_struct_T fs v :
  de_kind (KTStruct fs) v =
  match untag v with
  | CMap es =>
      match de_struct TextKeys (map fst fs) es with
      | None => None
      | Some raws => match de_fields fs raws with
                     | Some vals => Some (ser_struct TextKeys (map fst fs) vals)
                     | None => None
                     end
      end
  | _ => None
  end.
Proof. reflexivity. Qed.

Lemma de_kind_struct_I fs v :
  de_kind (KIStruct fs) v =
  match untag v with
  | CMap es =>
      match de_struct IntKeys (map fst fs) es with
      | None => None
      | Some raws => match de_fields fs raws with
                     | Some vals => Some (ser_struct IntKeys (map fst fs) vals)
                     | None => None
                     end
      end
  | _ => None
  end.
Proof. reflexivity. Qed.

Lemma wt_struct_T fs es : wt (KTStruct fs) (CMap es) = wt_entries TextKeys fs es.
Proof. reflexivity. Qed.
Lemma wt_struct_I fs es : wt (KIStruct fs) (CMap es) = wt_entries IntKeys fs es.
Proof. reflexivity. Qed.

Lemma kind_ok_fields (fs : list (fattr * kind)) :
  (fix go (fs : list (fattr * kind)) : bool :=
     match fs with [] => true | (_, k') :: r => kind_ok k' && go r end) fs
  = forallb (fun fk => kind_ok (snd fk)) fs.
Proof. induction fs as [|[f k] fs IH]; [reflexivity|]. cbn [forallb snd]. rewrite <- IH. reflexivity. Qed.

Lemma kind_ok_struct_T fs :
  kind_ok (KTStruct fs) = keys_ok TextKeys (map fst fs) && forallb (fun fk => kind_ok (snd fk)) fs.
Proof. rewrite <- kind_ok_fields. reflexivity. Qed.
Lemma kind_ok_struct_I fs :
  kind_ok (KIStruct fs) = keys_ok IntKeys (map fst fs) && forallb (fun fk => kind_ok (snd fk)) fs.
Proof. rewrite <- kind_ok_fields. reflexivity. Qed.

(** the round-trip property of one kind *)
Definition rt (k : kind) : Prop := kind_ok k = true -> forall v, wt k v = true -> de_kind k v = Some v.

Lemma wt_fields_absent fs vals : wt_fields fs vals = true -> Forall2 absent_allowed (map fst fs) vals.
Proof.
  revert vals. induction fs as [|[f k] fs IH]; intros [|v vals]; cbn [wt_fields map fst]; try discriminate.
  - constructor.
  - intros H. apply andb_true_iff in H as [H1 H2]. constructor; [|apply IH; exact H2].
    intros ->. unfold absent_ok in H1. apply andb_true_iff in H1 as [Hs Hd]. split; [exact Hs|].
    destruct (f_dflt f); congruence.
Qed.

Lemma de_fields_wt fs vals :
  Forall (fun fk : fattr * kind => rt (snd fk)) fs -> forallb (fun fk => kind_ok (snd fk)) fs = true ->
  wt_fields fs vals = true -> de_fields fs vals = Some vals.
Proof.
  intros Hrt. revert vals. induction Hrt as [|[f k] fs Hk _ IH]; intros [|v vals]; cbn [wt_fields de_fields forallb snd];
    try discriminate; [reflexivity|].
  intros Hok H. apply andb_true_iff in Hok as [Hok1 Hok2]. apply andb_true_iff in H as [H1 H2].
  rewrite (IH vals Hok2 H2). cbn [snd] in Hk.
  destruct v as [c|]; cbn [de_field].
  - apply andb_true_iff in H1 as [Hw Hn]. rewrite (Hk Hok1 c Hw).
    apply negb_true_iff in Hn. rewrite Hn. reflexivity.
  - unfold absent_ok in H1. apply andb_true_iff in H1 as [Hs Hd].
    destruct (f_dflt f); try discriminate. rewrite Hs. reflexivity.
Qed.

(** a message given field by field is read back field by field *)
Lemma struct_fields_round m fs vals :
  key_distinct m (map fst fs) ->
  Forall (fun fk : fattr * kind => rt (snd fk)) fs -> forallb (fun fk => kind_ok (snd fk)) fs = true ->
  wt_fields fs vals = true ->
  de_struct m (map fst fs) (ser_entries m (map fst fs) vals) = Some vals /\ de_fields fs vals = Some vals.
Proof.
  intros Hd Hrt Hok Hw. split.
  - apply de_ser_struct; [exact Hd|apply wt_fields_absent; exact Hw].
  - apply de_fields_wt; assumption.
Qed.

(** a canonical map is the serialisation of some field-by-field message *)
Lemma wt_entries_nil m es : wt_entries m [] es = match es with [] => true | _ => false end.
Proof. reflexivity. Qed.

Lemma wt_entries_cons m f k fs es :
  wt_entries m ((f, k) :: fs) es =
  match es with
  | (key, x) :: es' =>
      if cbor_eqb key (key_of m f)
      then wt k x && negb (is_opt k && f_skip f && is_null x) && wt_entries m fs es'
      else absent_ok f && wt_entries m fs es
  | [] => absent_ok f && wt_entries m fs []
  end.
Proof. reflexivity. Qed.

Lemma wt_entries_ser m : forall fs es, wt_entries m fs es = true ->
  exists vals, es = ser_entries m (map fst fs) vals /\ wt_fields fs vals = true.
Proof.
  induction fs as [|[f k] fs IH]; intros es.
  - rewrite wt_entries_nil. destruct es; [|discriminate]. intros _. exists []. split; reflexivity.
  - rewrite wt_entries_cons. destruct es as [|[key x] es'].
    + intros H. apply andb_true_iff in H as [Ha H]. destruct (IH [] H) as [vals [E Hw]].
      exists (None :: vals). cbn [map fst ser_entries wt_fields]. rewrite Ha, Hw.
      unfold absent_ok in Ha. apply andb_true_iff in Ha as [Hs _]. rewrite Hs. split; [exact E|reflexivity].
    + destruct (cbor_eqb key (key_of m f)) eqn:Ek.
      * intros H. apply andb_true_iff in H as [H H3]. apply cbor_eqb_eq in Ek. subst key.
        destruct (IH es' H3) as [vals [E Hw]]. exists (Some x :: vals).
        cbn [map fst ser_entries wt_fields]. rewrite H, Hw, <- E. split; reflexivity.
      * intros H. apply andb_true_iff in H as [Ha H]. destruct (IH _ H) as [vals [E Hw]].
        exists (None :: vals). cbn [map fst ser_entries wt_fields]. rewrite Ha, Hw.
        unfold absent_ok in Ha. apply andb_true_iff in Ha as [Hs _]. rewrite Hs. split; [exact E|reflexivity].
Qed.

Lemma map_opt_id {A} (f : A -> option A) l : (forall x, In x l -> f x = Some x) -> map_opt f l = Some l.
Proof.
  induction l as [|x l IH]; intros H; cbn [map_opt]; [reflexivity|].
  rewrite (H x (or_introl eq_refl)). rewrite IH; [reflexivity|]. intros y Hy. apply H. right. exact Hy.
Qed.

Lemma filter_map_id {A} (f : A -> option A) l : (forall x, In x l -> f x = Some x) -> filter_map f l = l.
Proof.
  induction l as [|x l IH]; intros H; cbn [filter_map]; [reflexivity|].
  rewrite (H x (or_introl eq_refl)). rewrite IH; [reflexivity|]. intros y Hy. apply H. right. exact Hy.
Qed.

Lemma de_u8_all l : all_u8 l = true -> map_opt de_u8 l = Some l.
Proof.
  intros H. apply map_opt_id. intros x Hx. unfold all_u8 in H. rewrite forallb_forall in H.
  specialize (H x Hx). destruct x; try discriminate. unfold de_u8. cbn [int_value].
  apply andb_true_iff in H as [H1 H2]. rewrite H1. cbn [andb]. rewrite H2. reflexivity.
Qed.

(** T1: deserialising a canonical value of any kind yields that value (and serialising the
    result again yields the same CBOR) *)
Theorem de_kind_wt : forall k, rt k.
Proof.
  induction k using kind_ind'; unfold rt; intros Hok v Hw.
  - destruct v; try discriminate. reflexivity.
  - destruct v; try discriminate. reflexivity.
  - destruct v; try discriminate. cbn [wt] in Hw. cbn [de_kind int_value]. rewrite Hw. reflexivity.
  - cbn [wt] in Hw. cbn [de_kind]. destruct (de_nzu128 v) as [c|]; [|discriminate].
    apply cbor_eqb_eq in Hw. subst. reflexivity.
  - destruct v; try discriminate. reflexivity.
  - reflexivity.
  - cbn [wt] in Hw. destruct v; try discriminate. cbn [de_kind].
    destruct (de_authdata (CBytes b)) as [c|]; [|discriminate]. apply cbor_eqb_eq in Hw. subst. reflexivity.
  - destruct v; try discriminate. cbn [wt] in Hw. cbn [de_kind untag]. rewrite Hw. reflexivity.
  - destruct v; try discriminate. cbn [wt] in Hw. apply andb_true_iff in Hw as [H1 H2].
    cbn [de_kind]. unfold de_u8arr. cbn [untag]. rewrite H1. rewrite de_u8_all by exact H2. reflexivity.
  - destruct v; try discriminate. cbn [wt] in Hw. cbn [de_kind]. rewrite Hw. reflexivity.
  - destruct v; try discriminate. cbn [wt] in Hw. cbn [de_kind untag].
    destruct o.
    + destruct (find_variant vs b) as [n|]; [|reflexivity]. apply beq_eq in Hw. subst. reflexivity.
    + destruct (find_variant vs b) as [n|]; [|discriminate]. apply beq_eq in Hw. subst. reflexivity.
  - cbn [wt] in Hw. cbn [kind_ok] in Hok. cbn [de_kind]. rewrite (IHk Hok v Hw). reflexivity.
  - cbn [kind_ok] in Hok. cbn [wt] in Hw. cbn [de_kind].
    destruct v; try reflexivity; apply (IHk Hok); exact Hw.
  - cbn [kind_ok] in Hok. destruct v; try discriminate. cbn [wt] in Hw. cbn [de_kind untag].
    rewrite map_opt_id; [reflexivity|]. intros x Hx. rewrite forallb_forall in Hw. apply (IHk Hok). apply Hw. exact Hx.
  - cbn [kind_ok] in Hok. destruct v; try discriminate. cbn [wt] in Hw. cbn [de_kind untag].
    rewrite filter_map_id; [reflexivity|]. intros x Hx. rewrite forallb_forall in Hw. apply (IHk Hok). apply Hw. exact Hx.
  - cbn [kind_ok] in Hok. destruct v; try discriminate. cbn [wt] in Hw. cbn [de_kind untag].
    rewrite map_opt_id; [reflexivity|]. intros [a b] Hx. rewrite forallb_forall in Hw. specialize (Hw _ Hx).
    cbn [fst snd] in *. destruct a; try discriminate. cbn [de_bytes]. rewrite (IHk Hok b Hw). reflexivity.
  - destruct v; try discriminate. rewrite wt_struct_T in Hw. rewrite kind_ok_struct_T in Hok.
    apply andb_true_iff in Hok as [Hk Hf]. apply keys_ok_distinct in Hk.
    destruct (wt_entries_ser TextKeys fs l Hw) as [vals [E Hv]].
    destruct (struct_fields_round TextKeys fs vals Hk H Hf Hv) as [R1 R2].
    rewrite de_kind_struct_T. cbn [untag]. rewrite E, R1, R2. reflexivity.
  - destruct v; try discriminate. rewrite wt_struct_I in Hw. rewrite kind_ok_struct_I in Hok.
    apply andb_true_iff in Hok as [Hk Hf]. apply keys_ok_distinct in Hk.
    destruct (wt_entries_ser IntKeys fs l Hw) as [vals [E Hv]].
    destruct (struct_fields_round IntKeys fs vals Hk H Hf Hv) as [R1 R2].
    rewrite de_kind_struct_I. cbn [untag]. rewrite E, R1, R2. reflexivity.
Qed.

(** T2: a message, given member by member in canonical form, survives
    [ciborium::ser::into_writer] followed by [ciborium::de::from_reader]. *)
Theorem de_msg_ser_msg fs vals :
  kind_ok (KIStruct fs) = true -> wt_fields fs vals = true ->
  cbor_wf (ser_struct IntKeys (map fst fs) vals) = true ->
  (depth (ser_struct IntKeys (map fst fs) vals) < cbor_fuel)%nat ->
  de_msg fs (ser_msg fs vals) = Some (ser_struct IntKeys (map fst fs) vals).
Proof.
  intros Hok Hw Hwf Hd. unfold de_msg, ser_msg. rewrite decode_encode_read by assumption.
  rewrite kind_ok_struct_I in Hok. apply andb_true_iff in Hok as [Hk Hf]. apply keys_ok_distinct in Hk.
  assert (Hrt : Forall (fun fk : fattr * kind => rt (snd fk)) fs)
    by (apply Forall_forall; intros fk _; apply de_kind_wt).
  destruct (struct_fields_round IntKeys fs vals Hk Hrt Hf Hw) as [R1 R2].
  rewrite de_kind_struct_I. unfold ser_struct at 1. cbn [untag]. rewrite R1, R2. reflexivity.
Qed.

(** ** the same facts for a whole integer-keyed message (as a parsed CBOR value) *)
Lemma de_kind_I_map fs es :
  de_kind (KIStruct fs) (CMap es) =
  match de_struct IntKeys (map fst fs) es with
  | None => None
  | Some raws => match de_fields fs raws with
                 | Some vals => Some (ser_struct IntKeys (map fst fs) vals)
                 | None => None
                 end
  end.
Proof. reflexivity. Qed.

Theorem msg_insert_unknown fs es1 es2 k v :
  classify IntKeys (map fst fs) k = Some IdUnknown ->
  de_kind (KIStruct fs) (CMap (es1 ++ (k, v) :: es2)) = de_kind (KIStruct fs) (CMap (es1 ++ es2)).
Proof. intros H. rewrite !de_kind_I_map. rewrite (de_struct_insert_unknown _ _ _ _ _ _ H). reflexivity. Qed.

Theorem msg_duplicate fs i k1 v1 k2 v2 es1 es2 es3 :
  classify IntKeys (map fst fs) k1 = Some (IdField i) -> classify IntKeys (map fst fs) k2 = Some (IdField i) ->
  de_kind (KIStruct fs) (CMap (es1 ++ (k1, v1) :: es2 ++ (k2, v2) :: es3)) = None.
Proof. intros H1 H2. rewrite de_kind_I_map. rewrite (de_struct_duplicate _ _ _ _ _ _ _ _ _ _ H1 H2). reflexivity. Qed.

Theorem msg_missing_required fs es i f :
  nth_error (map fst fs) i = Some f -> f_dflt f = DRequired ->
  (forall k v, In (k, v) es -> classify IntKeys (map fst fs) k <> Some (IdField i)) ->
  de_kind (KIStruct fs) (CMap es) = None.
Proof. intros H1 H2 H3. rewrite de_kind_I_map. rewrite (de_struct_missing_required _ _ _ _ _ H1 H2 H3). reflexivity. Qed.

Theorem msg_bad_key fs es k v :
  In (k, v) es -> classify IntKeys (map fst fs) k = None -> de_kind (KIStruct fs) (CMap es) = None.
Proof. intros H1 H2. rewrite de_kind_I_map. rewrite (de_struct_bad_key _ _ _ _ _ H1 H2). reflexivity. Qed.

(** canonical forms exist for the leaf types whose [wt] is stated as a fixed point of the
    normalisation: every 37-byte authenticator data with valid flags and neither AT nor ED *)
Lemma authdata_canonical b :
  length b = 37%nat -> N.land (nth 32 b 0) (255 - FLAG_BITS) = 0 -> N.land (nth 32 b 0) (64 + 128) = 0 ->
  wt KAuthData (CBytes b) = true.
Proof.
  intros Hl H1 H2. cbn [wt]. unfold de_authdata. cbn [untag]. rewrite Hl.
  replace (N.of_nat 37 <=? SCRATCH) with true by reflexivity.
  unfold authdata_norm. rewrite Hl. replace (37 <? 37)%nat with false by reflexivity.
  rewrite H1, H2. cbn [N.eqb negb option_map]. rewrite <- Hl, firstn_all. apply cbor_eqb_refl.
Qed.

(** ... and every [u128] the serialiser can be given: below 2^64 an integer, from 2^64 on a
    bignum (tag 2) with the shortest big-endian byte string *)
Lemma be_bytes_hd k : forall n, hd 0 (be_bytes (S k) n) = (n / 256 ^ N.of_nat k) mod 256.
Proof.
  induction k as [|k IH]; intros n.
  - cbn. rewrite N.div_1_r. reflexivity.
  - rewrite be_bytes_S. specialize (IH (n / 256)).
    destruct (be_bytes (S k) (n / 256)) as [|x l] eqn:E.
    + pose proof (be_bytes_length (S k) (n / 256)) as L. rewrite E in L. discriminate.
    + cbn [app hd] in *. rewrite IH. rewrite N.div_div by lia.
      replace (256 * 256 ^ N.of_nat k) with (256 ^ N.of_nat (S k)); [reflexivity|].
      rewrite Nat2N.inj_succ, N.pow_succ_r'. reflexivity.
Qed.

Lemma pow256 x : 256 ^ x = 2 ^ (8 * x).
Proof. rewrite N.pow_mul_r. reflexivity. Qed.

Lemma min_be_props n : 0 < n ->
  be_val 0 (min_be n) = n /\ (hd 0 (min_be n) =? 0) = false
  /\ length (min_be n) = N.to_nat (N.log2 n / 8 + 1).
Proof.
  intros Hn. unfold min_be. set (q := N.log2 n / 8).
  assert (Hq : 8 * q <= N.log2 n < 8 * q + 8).
  { unfold q. pose proof (N.div_mod (N.log2 n) 8 ltac:(lia)). pose proof (N.mod_lt (N.log2 n) 8 ltac:(lia)). lia. }
  destruct (N.log2_spec n Hn) as [Hlo Hhi].
  assert (Hlow : 256 ^ q <= n).
  { rewrite pow256. eapply N.le_trans; [|exact Hlo]. apply N.pow_le_mono_r; lia. }
  assert (Hup : n < 256 ^ (q + 1)).
  { rewrite pow256. eapply N.lt_le_trans; [exact Hhi|]. apply N.pow_le_mono_r; lia. }
  replace (N.to_nat (q + 1)) with (S (N.to_nat q)) by lia.
  split; [|split].
  - apply be_round. replace (N.of_nat (S (N.to_nat q))) with (q + 1) by lia. exact Hup.
  - rewrite be_bytes_hd. rewrite N2Nat.id.
    assert (Hp : 0 < 256 ^ q) by (apply N.neq_0_lt_0; apply N.pow_nonzero; lia).
    assert (1 <= n / 256 ^ q) by (apply N.div_le_lower_bound; lia).
    assert (n / 256 ^ q < 256).
    { apply N.div_lt_upper_bound; [lia|]. rewrite N.add_1_r, N.pow_succ_r' in Hup. lia. }
    rewrite N.mod_small by assumption. apply N.eqb_neq. lia.
  - apply be_bytes_length.
Qed.

Theorem ser_u128_canonical z : (0 < z < TWO128)%Z -> de_nzu128 (ser_u128 z) = Some (ser_u128 z).
Proof.
  intros Hz. unfold ser_u128 at 1. destruct (Z.ltb_spec z (Z.of_N TWO64)) as [Hlt|Hge].
  - unfold de_nzu128. cbn [int_value].
    replace (0 <? z)%Z with true by lia. replace (z <? TWO128)%Z with true by lia. reflexivity.
  - set (n := Z.to_N z). assert (Hn : 0 < n) by lia.
    destruct (min_be_props n Hn) as [Hv [Hh Hl]].
    unfold de_nzu128. cbn [int_value]. cbn [N.eqb Pos.eqb orb].
    rewrite (strip_zeros_id _ Hh).
    assert (Hlen : (length (min_be n) <=? 16)%nat = true).
    { apply Nat.leb_le. rewrite Hl.
      assert (N.log2 n < 128).
      { apply N.log2_lt_pow2; [exact Hn|]. unfold TWO128 in Hz. lia. }
      assert (N.log2 n / 8 < 16) by (apply N.div_lt_upper_bound; lia). lia. }
    rewrite Hlen, Hv. unfold n. rewrite Z2N.id by lia.
    replace (0 <? z)%Z with true by lia. replace (z <? TWO128)%Z with true by lia. reflexivity.
Qed.

Corollary u128_wt z : (0 < z < TWO128)%Z -> wt KNzU128 (ser_u128 z) = true.
Proof. intros Hz. cbn [wt]. rewrite ser_u128_canonical by exact Hz. apply cbor_eqb_refl. Qed.

(** ** on the bytes: an entry with an unknown key anywhere in an encoded message is ignored *)
Theorem msg_bytes_insert_unknown fs es1 es2 k v :
  classify IntKeys (map fst fs) k = Some IdUnknown ->
  cbor_wf (CMap (es1 ++ (k, v) :: es2)) = true -> (depth (CMap (es1 ++ (k, v) :: es2)) < cbor_fuel)%nat ->
  cbor_wf (CMap (es1 ++ es2)) = true -> (depth (CMap (es1 ++ es2)) < cbor_fuel)%nat ->
  de_msg fs (cbor_encode (CMap (es1 ++ (k, v) :: es2))) = de_msg fs (cbor_encode (CMap (es1 ++ es2))).
Proof.
  intros Hk W1 D1 W2 D2. unfold de_msg. rewrite !decode_encode_read by assumption.
  apply msg_insert_unknown. exact Hk.
Qed.

(** * Part P: the generated schemas against the specification *)
Import String.
Local Open Scope string_scope.
Local Open Scope list_scope.
Local Open Scope N_scope.

Definition is_required (d : dflt) : bool := match d with DRequired => true | _ => false end.
Definition dflt_none (d : dflt) : bool := match d with DNone => true | _ => false end.

(** the number and requiredness the specification gives to the member a field stands for *)
Definition field_matches_spec (msg : string) (fk : fattr * kind) : bool :=
  match spec_of_field msg (f_rust (fst fk)) with
  | Some (num, req) => (f_key (fst fk) =? num) && Bool.eqb (is_required (f_dflt (fst fk))) req
  | None => false
  end.

Fixpoint asc (l : list N) : bool :=
  match l with
  | x :: ((y :: _) as r) => (x <? y) && asc r
  | _ => true
  end.

Definition schema_ok (mf : string * list (fattr * kind)) : bool :=
  let (msg, fs) := mf in
  forallb (field_matches_spec msg) fs                        (* numbers and requiredness as specified *)
  && asc (map (fun fk : fattr * kind => f_key (fst fk)) fs)   (* declared in strictly ascending order *)
  && forallb (fun fk : fattr * kind => Bool.eqb (f_skip (fst fk)) (dflt_none (f_dflt (fst fk)))) fs
                                                             (* a member that may be [None] is skipped when [None] *)
  && kind_ok (KIStruct fs).                                  (* keys distinct and at most 255, recursively *)

Theorem schemas_match_spec :
  forallb schema_ok ALL_MESSAGES = true /\ map fst ALL_MESSAGES = map fst SPEC.
Proof. split; vm_compute; reflexivity. Qed.

Lemma schema_ok_of msg fs : In (msg, fs) ALL_MESSAGES -> schema_ok (msg, fs) = true.
Proof. intros H. destruct schemas_match_spec as [S _]. rewrite forallb_forall in S. apply S. exact H. Qed.

(** P1: every member of every message carries the number the specification assigns to it and
    is required exactly when the specification says so *)
Theorem schema_field_spec msg fs f k :
  In (msg, fs) ALL_MESSAGES -> In (f, k) fs ->
  spec_of_field msg (f_rust f) = Some (f_key f, is_required (f_dflt f)).
Proof.
  intros Hm Hf. pose proof (schema_ok_of msg fs Hm) as S. cbn [schema_ok] in S.
  apply andb_true_iff in S as [S _]. apply andb_true_iff in S as [S _]. apply andb_true_iff in S as [S _].
  rewrite forallb_forall in S. specialize (S (f, k) Hf). unfold field_matches_spec in S. cbn [fst] in S.
  destruct (spec_of_field msg (f_rust f)) as [[num req]|]; [|discriminate].
  apply andb_true_iff in S as [S1 S2]. apply N.eqb_eq in S1. apply Bool.eqb_prop in S2. subst. reflexivity.
Qed.

Lemma asc_sorted l : asc l = true -> StronglySorted N.lt l.
Proof.
  intros H. apply Sorted_StronglySorted; [intros x y z; apply N.lt_trans|].
  induction l as [|x l IH]; [constructor|]. destruct l as [|y l].
  - constructor; constructor.
  - cbn [asc] in H. apply andb_true_iff in H as [H1 H2]. constructor; [apply IH; exact H2|].
    constructor. apply N.ltb_lt. exact H1.
Qed.

Lemma written_sub (fs : list fattr) : forall vals f,
  In f (map fst (filter written (combine fs vals))) -> In f fs.
Proof.
  induction fs as [|g fs IH]; intros [|v vals] f; cbn [combine filter map]; try (intros []).
  destruct (written (g, v)); cbn [map fst].
  - intros [E|H]; [left; exact E|right; eapply IH; exact H].
  - intros H. right. eapply IH; exact H.
Qed.

Lemma written_sorted (fs : list fattr) : forall vals,
  StronglySorted N.lt (map f_key fs) ->
  StronglySorted N.lt (map f_key (map fst (filter written (combine fs vals)))).
Proof.
  induction fs as [|g fs IH]; intros [|v vals] H; cbn [combine filter map]; try constructor.
  inversion H as [|x l Hs Hall]. subst.
  destruct (written (g, v)); cbn [map fst]; [|apply IH; exact Hs].
  constructor; [apply IH; exact Hs|].
  apply Forall_forall. intros n Hn. apply in_map_iff in Hn as [f [E Hf]]. subst n.
  rewrite Forall_forall in Hall. apply Hall. apply in_map. eapply written_sub. exact Hf.
Qed.

(** P2: for every value of every message the integer keys on the wire are strictly ascending
    (declaration order, G2, is ascending order) *)
Theorem wire_keys_ascending msg fs vals :
  In (msg, fs) ALL_MESSAGES ->
  exists keys, map fst (ser_entries IntKeys (map fst fs) vals) = map (fun n => CInt (Z.of_N n)) keys
               /\ StronglySorted N.lt keys.
Proof.
  intros Hm. exists (map f_key (map fst (filter written (combine (map fst fs) vals)))). split.
  - rewrite ser_keys. rewrite !map_map. reflexivity.
  - apply written_sorted. apply asc_sorted.
    pose proof (schema_ok_of msg fs Hm) as S. cbn [schema_ok] in S.
    apply andb_true_iff in S as [S _]. apply andb_true_iff in S as [S _]. apply andb_true_iff in S as [_ S].
    rewrite map_map. exact S.
Qed.

(** P2': every message of the crate round-trips (T2 instantiated with the generated schemas) *)
Theorem message_round_trip msg fs vals :
  In (msg, fs) ALL_MESSAGES -> wt_fields fs vals = true ->
  cbor_wf (ser_struct IntKeys (map fst fs) vals) = true ->
  (depth (ser_struct IntKeys (map fst fs) vals) < cbor_fuel)%nat ->
  de_msg fs (ser_msg fs vals) = Some (ser_struct IntKeys (map fst fs) vals).
Proof.
  intros Hm. apply de_msg_ser_msg.
  pose proof (schema_ok_of msg fs Hm) as S. cbn [schema_ok] in S. apply andb_true_iff in S as [_ S]. exact S.
Qed.

(** P3: the [options] member: absent altogether it is [up = true, rk = uv = false]; present with
    any subset of the three options, the missing ones take these defaults.  (27 = 3^3 cases:
    each option absent, false or true.) *)
Definition opt_states : list (option bool) := [None; Some false; Some true].

Definition option_entries (given : list (string * option bool)) : list (cbor * cbor) :=
  flat_map (fun g : string * option bool =>
              match snd g with Some b => [(CText (bytes_of_string (fst g)), CBool b)] | None => [] end) given.

Definition option_expected (given : list (string * option bool)) : list (cbor * cbor) :=
  map (fun g : string * option bool =>
         (CText (bytes_of_string (fst g)),
          CBool (match snd g with
                 | Some b => b
                 | None => match assoc (fst g) OPTION_DEFAULTS with Some d => d | None => false end
                 end))) given.

Definition options_field (fs : list (fattr * kind)) : option (fattr * kind) :=
  find (fun fk : fattr * kind => String.eqb (f_rust (fst fk)) "options") fs.

Definition options_defaults_ok (fs : list (fattr * kind)) : bool :=
  match options_field fs with
  | Some (f, k) =>
      (* the member left out: Default::default() *)
      match de_field (de_kind k) f (is_opt k) None with
      | Some (Some c) => cbor_eqb c (CMap (option_expected [("rk", None); ("up", None); ("uv", None)]))
      | _ => false
      end
      (* the member given with any subset of its options *)
      && forallb (fun rk => forallb (fun up => forallb (fun uv =>
           let given := [("rk", rk); ("up", up); ("uv", uv)] in
           match de_kind k (CMap (option_entries given)) with
           | Some c => cbor_eqb c (CMap (option_expected given))
           | None => false
           end) opt_states) opt_states) opt_states
  | None => false
  end.

Theorem options_defaults : options_defaults_ok MC_REQUEST = true /\ options_defaults_ok GA_REQUEST = true.
Proof. split; vm_compute; reflexivity. Qed.

(** * Part S: status bytes *)

Definition bytes256 : list N := map N.of_nat (seq 0 256).

Lemma in_bytes256 b : b < 256 -> In b bytes256.
Proof.
  intros H. unfold bytes256. apply in_map_iff. exists (N.to_nat b). split; [apply N2Nat.id|].
  apply in_seq. lia.
Qed.

Lemma sweep (p : N -> bool) : forallb p bytes256 = true -> forall b, b < 256 -> p b = true.
Proof. intros H b Hb. rewrite forallb_forall in H. apply H. apply in_bytes256. exact Hb. Qed.

(** S1: every byte converts to a status (the [.unwrap()] in [From<u8> for StatusCode] never
    fires) and the status converts back to the same byte *)
Theorem status_round_trip b : b < 256 ->
  exists s, status_of_byte b = Some s /\ byte_of_status s = b.
Proof.
  intros Hb.
  pose proof (sweep (fun b => match status_of_byte b with Some s => byte_of_status s =? b | None => false end)
                    ltac:(vm_compute; reflexivity) b Hb) as H. cbn beta in H.
  destruct (status_of_byte b) as [s|]; [|discriminate]. exists s. split; [reflexivity|]. apply N.eqb_eq. exact H.
Qed.

(** S2: the five classes partition the byte range, except that 0x00 is both [U2FError::Success]
    and [Ctap2Error::Ok]; the conversion resolves it to [Ctap2Error::Ok] *)
Definition in_table (t : list (string * N)) (b : N) : bool := existsb (fun e : string * N => snd e =? b) t.

Definition class_count (b : N) : nat :=
  (if in_table U2F_TABLE b then 1 else 0) + (if in_table CTAP2_TABLE b then 1 else 0)
  + (if in_ranges EXTENSION_RANGES b then 1 else 0) + (if in_ranges VENDOR_RANGES b then 1 else 0)
  + (if in_ranges UNKNOWN_SPEC_RANGES b then 1 else 0).

Theorem status_classes_partition b : b < 256 -> class_count b = (if b =? 0 then 2%nat else 1%nat).
Proof.
  intros Hb. apply Nat.eqb_eq.
  exact (sweep (fun b => Nat.eqb (class_count b) (if b =? 0 then 2%nat else 1%nat)) ltac:(vm_compute; reflexivity) b Hb).
Qed.

Theorem status_zero_is_ctap2_ok :
  exists i, status_of_byte 0 = Some (S_Known i) /\ name_at CTAP2_TABLE i = "Ok"%string.
Proof. eexists. split; vm_compute; reflexivity. Qed.

(** no value is listed twice within a table (each status value has one name) *)
Theorem status_tables_nodup :
  nodupb N.eqb (map snd U2F_TABLE) = true /\ nodupb N.eqb (map snd CTAP2_TABLE) = true.
Proof. split; vm_compute; reflexivity. Qed.

(** which class a byte lands in *)
Theorem status_class_of_byte b s : b < 256 -> status_of_byte b = Some s ->
  match s with
  | S_Known i => nth_error CTAP2_TABLE i = Some (name_at CTAP2_TABLE i, b)
  | S_Ctap1 i => nth_error U2F_TABLE i = Some (name_at U2F_TABLE i, b) /\ in_table CTAP2_TABLE b = false
  | S_Extension c => c = b /\ in_ranges EXTENSION_RANGES b = true
  | S_Vendor c => c = b /\ in_ranges VENDOR_RANGES b = true
  | S_Other c => c = b /\ in_ranges UNKNOWN_SPEC_RANGES b = true
  end.
Proof.
  intros Hb Hs.
  pose proof (sweep (fun b =>
    match status_of_byte b with
    | Some (S_Known i) =>
        match nth_error CTAP2_TABLE i with Some (n, c) => String.eqb n (name_at CTAP2_TABLE i) && (c =? b) | None => false end
    | Some (S_Ctap1 i) =>
        match nth_error U2F_TABLE i with Some (n, c) => String.eqb n (name_at U2F_TABLE i) && (c =? b) | None => false end
        && negb (in_table CTAP2_TABLE b)
    | Some (S_Extension c) => (c =? b) && in_ranges EXTENSION_RANGES b
    | Some (S_Vendor c) => (c =? b) && in_ranges VENDOR_RANGES b
    | Some (S_Other c) => (c =? b) && in_ranges UNKNOWN_SPEC_RANGES b
    | None => false
    end) ltac:(vm_compute; reflexivity) b Hb) as H. cbn beta in H. rewrite Hs in H.
  destruct s as [i|i|c|c|c].
  - apply andb_true_iff in H as [H1 H2]. destruct (nth_error U2F_TABLE i) as [[n c]|]; [|discriminate].
    apply andb_true_iff in H1 as [Hn Hc]. apply String.eqb_eq in Hn. apply N.eqb_eq in Hc. subst.
    split; [reflexivity|]. apply negb_true_iff. exact H2.
  - destruct (nth_error CTAP2_TABLE i) as [[n c]|]; [|discriminate].
    apply andb_true_iff in H as [Hn Hc]. apply String.eqb_eq in Hn. apply N.eqb_eq in Hc. subst. reflexivity.
  - apply andb_true_iff in H as [H1 H2]. apply N.eqb_eq in H1. split; assumption.
  - apply andb_true_iff in H as [H1 H2]. apply N.eqb_eq in H1. split; assumption.
  - apply andb_true_iff in H as [H1 H2]. apply N.eqb_eq in H1. split; assumption.
Qed.

(** S3: what the client reports.  [authenticate]: "no credentials" becomes
    [CredentialNotFound], every other byte is passed through; [register]: every byte is passed
    through, 0x2E included *)
Lemma werr_eqb_eq a b : werr_eqb a b = true -> a = b.
Proof.
  destruct a, b; cbn [werr_eqb]; try discriminate; intros H.
  - apply N.eqb_eq in H. subst. reflexivity.
  - apply String.eqb_eq in H. subst. reflexivity.
Qed.

Theorem client_status_mapping b s : b < 256 -> status_of_byte b = Some s ->
  authenticate_error s = (if b =? CTAP2_ERR_NO_CREDENTIALS then WNamed "CredentialNotFound" else WAuthenticatorError b)
  /\ webauthn_error_of_status s = authenticate_error s
  /\ register_error s = WAuthenticatorError b.
Proof.
  intros Hb Hs.
  pose proof (sweep (fun b =>
    match status_of_byte b with
    | Some s =>
        werr_eqb (authenticate_error s)
                 (if b =? CTAP2_ERR_NO_CREDENTIALS then WNamed "CredentialNotFound" else WAuthenticatorError b)
        && werr_eqb (webauthn_error_of_status s) (authenticate_error s)
        && werr_eqb (register_error s) (WAuthenticatorError b)
    | None => false
    end) ltac:(vm_compute; reflexivity) b Hb) as H. cbn beta in H. rewrite Hs in H.
  apply andb_true_iff in H as [H H3]. apply andb_true_iff in H as [H1 H2].
  repeat split; apply werr_eqb_eq; assumption.
Qed.

(** * Part O: the model satisfies the oracle of [CtapCheck]

    The oracle states C13 on one observation of the implementation using the specification
    tables only.  These theorems say that the model's own observations always pass it: what the
    check demands of the code is what is proved of the model. *)

Fixpoint present_names (fs : list (fattr * kind)) (vals : list (option cbor)) : list string :=
  match fs, vals with
  | (f, _) :: fs', Some _ :: vals' => f_rust f :: present_names fs' vals'
  | _ :: fs', None :: vals' => present_names fs' vals'
  | _, _ => []
  end.

Fixpoint present_keys (fs : list (fattr * kind)) (vals : list (option cbor)) : list N :=
  match fs, vals with
  | (f, _) :: fs', Some _ :: vals' => f_key f :: present_keys fs' vals'
  | _ :: fs', None :: vals' => present_keys fs' vals'
  | _, _ => []
  end.

Lemma ser_keys_present fs : forall vals, wt_fields fs vals = true ->
  map fst (ser_entries IntKeys (map fst fs) vals) = map (fun n => CInt (Z.of_N n)) (present_keys fs vals).
Proof.
  induction fs as [|[f k] fs IH]; intros [|v vals]; cbn [wt_fields map fst ser_entries present_keys]; try discriminate; [reflexivity|].
  intros H. apply andb_true_iff in H as [H1 H2]. destruct v as [c|]; cbn [map fst key_of].
  - rewrite (IH vals H2). reflexivity.
  - unfold absent_ok in H1. apply andb_true_iff in H1 as [Hs _]. rewrite Hs. apply IH. exact H2.
Qed.

Lemma int_keys_back l : map_opt int_key (map (fun n => CInt (Z.of_N n)) l) = Some l.
Proof.
  induction l as [|n l IH]; cbn [map map_opt]; [reflexivity|]. rewrite IH. unfold int_key.
  replace (0 <=? Z.of_N n)%Z with true by lia. rewrite N2Z.id. reflexivity.
Qed.

Lemma spec_numbers_present msg fs : In (msg, fs) ALL_MESSAGES ->
  forall fs' vals, (forall fk, In fk fs' -> In fk fs) ->
  map_opt (fun f => option_map fst (spec_of_field msg f)) (present_names fs' vals) = Some (present_keys fs' vals).
Proof.
  intros Hm. induction fs' as [|[f k] fs' IH]; intros [|v vals] Hsub; cbn [present_names present_keys map_opt]; try reflexivity.
  assert (Hsub' : forall fk, In fk fs' -> In fk fs) by (intros fk H; apply Hsub; right; exact H).
  destruct v as [c|]; [|apply IH; exact Hsub'].
  cbn [map_opt]. rewrite (schema_field_spec msg fs f k Hm (Hsub _ (or_introl eq_refl))). cbn [option_map fst].
  rewrite (IH vals Hsub'). reflexivity.
Qed.

Lemma present_keys_sub fs : forall vals n, In n (present_keys fs vals) -> In n (map (fun fk : fattr * kind => f_key (fst fk)) fs).
Proof.
  induction fs as [|[f k] fs IH]; intros [|v vals] n; cbn [present_keys map fst]; try (intros []).
  destruct v as [c|].
  - intros [E|H]; [left; exact E|right; eapply IH; exact H].
  - intros H. right. eapply IH; exact H.
Qed.

Lemma present_keys_sorted fs : forall vals,
  StronglySorted N.lt (map (fun fk : fattr * kind => f_key (fst fk)) fs) -> StronglySorted N.lt (present_keys fs vals).
Proof.
  induction fs as [|[f k] fs IH]; intros [|v vals] H; cbn [present_keys]; try constructor.
  cbn [map fst] in H. inversion H as [|x l Hs Hall]. subst.
  destruct v as [c|]; [|apply IH; exact Hs].
  constructor; [apply IH; exact Hs|].
  apply Forall_forall. intros n Hn. rewrite Forall_forall in Hall. apply Hall. eapply present_keys_sub. exact Hn.
Qed.

Lemma sorted_ascending l : StronglySorted N.lt l -> ascending l = true.
Proof.
  induction 1 as [|x l Hs IH Hall]; [reflexivity|]. destruct l as [|y l]; [reflexivity|].
  change (ascending (x :: y :: l)) with ((x <? y) && ascending (y :: l)).
  rewrite IH, andb_true_r. apply N.ltb_lt. inversion Hall. assumption.
Qed.

Lemma sorted_sort l : StronglySorted N.lt l -> sort_n l = l.
Proof.
  induction 1 as [|x l Hs IH Hall]; [reflexivity|]. unfold sort_n in *. cbn [fold_right]. rewrite IH.
  destruct l as [|y l]; [reflexivity|]. cbn [insert_sorted].
  inversion Hall as [|y0 l0 Hxy _]. subst. replace (x <=? y) with true by lia. reflexivity.
Qed.

Lemma list_eqb_refl l : list_eqb N.eqb l l = true.
Proof. induction l as [|x l IH]; [reflexivity|]. cbn [list_eqb]. rewrite N.eqb_refl, IH. reflexivity. Qed.

(** a member whose canonical value may be null (a raw CBOR value) is required, in every message *)
Definition null_member_ok (msg : string) (fk : fattr * kind) : bool :=
  negb (wt (snd fk) CNull && negb (is_opt (snd fk) && f_skip (fst fk)))
  || required_number msg (CInt (Z.of_N (f_key (fst fk)))).

Lemma null_members_required :
  forallb (fun mf : string * list (fattr * kind) => forallb (null_member_ok (fst mf)) (snd mf)) ALL_MESSAGES = true.
Proof. vm_compute. reflexivity. Qed.

Lemma no_optional_null msg fs : In (msg, fs) ALL_MESSAGES ->
  forall fs' vals, (forall fk, In fk fs' -> In fk fs) -> wt_fields fs' vals = true ->
  forallb (fun kv : cbor * cbor => negb (is_null (snd kv)) || required_number msg (fst kv))
          (ser_entries IntKeys (map fst fs') vals) = true.
Proof.
  intros Hm.
  assert (Hn : forall fk, In fk fs -> null_member_ok msg fk = true).
  { pose proof null_members_required as H. rewrite forallb_forall in H. specialize (H _ Hm). cbn [fst snd] in H.
    rewrite forallb_forall in H. exact H. }
  induction fs' as [|[f k] fs' IH]; intros [|v vals] Hsub; cbn [wt_fields map fst ser_entries forallb]; try discriminate; try reflexivity.
  assert (Hsub' : forall fk, In fk fs' -> In fk fs) by (intros fk H; apply Hsub; right; exact H).
  intros H. apply andb_true_iff in H as [H1 H2]. destruct v as [c|].
  - cbn [forallb fst snd key_of]. rewrite (IH vals Hsub' H2), andb_true_r.
    destruct c; try reflexivity. cbn [is_null negb orb].
    specialize (Hn _ (Hsub _ (or_introl eq_refl))). unfold null_member_ok in Hn. cbn [fst snd] in Hn.
    apply andb_true_iff in H1 as [Hw Hno]. rewrite Hw in Hn. cbn [is_null] in Hno. rewrite andb_true_r in Hno.
    rewrite Hno in Hn. exact Hn.
  - unfold absent_ok in H1. apply andb_true_iff in H1 as [Hs _]. rewrite Hs. apply IH; assumption.
Qed.

(** O1: whatever message value is serialised by the model, the observation passes the oracle *)
Theorem model_passes_oracle_ser msg fs vals :
  In (msg, fs) ALL_MESSAGES -> wt_fields fs vals = true ->
  cbor_wf (ser_struct IntKeys (map fst fs) vals) = true ->
  (depth (ser_struct IntKeys (map fst fs) vals) < cbor_fuel)%nat ->
  oracle (CSer msg vals (present_names fs vals) (ser_msg fs vals)
               (enc_opt (de_msg fs (ser_msg fs vals)))) = true.
Proof.
  intros Hm Hw Hwf Hd. cbn [oracle].
  rewrite (message_round_trip msg fs vals Hm Hw Hwf Hd). cbn [enc_opt option_map].
  fold (ser_msg fs vals). cbn [opt_eqb]. rewrite beq_refl, andb_true_r.
  unfold wire_ok. unfold ser_msg at 1. rewrite decode_encode_read by assumption. unfold ser_struct at 1.
  fold (ser_struct IntKeys (map fst fs) vals). fold (ser_msg fs vals). rewrite beq_refl. cbn [andb].
  rewrite (ser_keys_present fs vals Hw), int_keys_back.
  rewrite (spec_numbers_present msg fs Hm fs vals (fun fk H => H)).
  assert (Hs : StronglySorted N.lt (present_keys fs vals)).
  { apply present_keys_sorted. apply asc_sorted.
    pose proof (schema_ok_of msg fs Hm) as S. cbn [schema_ok] in S.
    apply andb_true_iff in S as [S _]. apply andb_true_iff in S as [S _]. apply andb_true_iff in S as [_ S]. exact S. }
  rewrite (sorted_ascending _ Hs), (sorted_sort _ Hs), list_eqb_refl. cbn [andb].
  apply (no_optional_null msg fs Hm fs vals (fun fk H => H) Hw).
Qed.

(** O2: every status byte, as the model converts it, passes the oracle *)
Theorem model_passes_oracle_status b s : b < 256 -> status_of_byte b = Some s ->
  oracle (CStatus b (class_name s) (variant_name s) (byte_of_status s)
                  (webauthn_error_of_status s) (authenticate_error s) (register_error s)) = true.
Proof.
  intros Hb Hs. cbn [oracle].
  destruct (status_round_trip b Hb) as [s' [E1 E2]]. rewrite Hs in E1. inversion E1. subst s'.
  rewrite E2, N.eqb_refl. cbn [andb].
  destruct (client_status_mapping b s Hb Hs) as [Ha _]. rewrite Ha.
  destruct (b =? CTAP2_ERR_NO_CREDENTIALS); cbn [werr_eqb]; [apply String.eqb_refl|apply N.eqb_refl].
Qed.
