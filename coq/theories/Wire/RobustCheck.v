(** Correspondence checks and the property oracle for the robustness domain (C15).
    Everything here is executable and is evaluated by generated case files
    (cases by driver/c15.py, observations by harness/src/bin/robust.rs). *)
From PK Require Import Lib.Bytes Lib.Check Lib.Cbor Wire.Robust Wire.AuthData.
From Coq Require Import ZArith.
Open Scope N_scope.

(** what the isolated worker saw: value / error / panic *)
Inductive obs_class := OValue | OError | OPanic.

Definition class_eqb (a b : obs_class) : bool :=
  match a, b with
  | OValue, OValue | OError, OError | OPanic, OPanic => true
  | _, _ => false
  end.

Definition class_of {E A} (r : result E A) : obs_class :=
  match r with Done _ => OValue | Fail _ => OError | Crash => OPanic end.

Inductive rcase :=
| CBytesCbor (input : bytes) (cls : obs_class) (val : bytes) (amax : N)
    (* ciborium::de::from_reader::<Bytes>(input); val = the decoded bytes when cls = OValue *)
| CBytesSeq (src : seq_src N) (inlen : N) (cls : obs_class) (val : bytes) (amax : N)
    (* a JSON array rendered from [src] by the driver, serde_json::from_slice::<Bytes> *)
| CTransports (prefix arr : bytes) (cls : obs_class) (val : option (list N)) (amax : N)
    (* from_reader::<PublicKeyCredentialDescriptor>(prefix ++ arr) where [prefix] is a map head, the
       members type and id and the key "transports"; val = variant indices when a list was returned *)
| CBytesStr (s : bytes) (cls : obs_class) (val : bytes) (amax : N)
    (* Bytes::try_from(&str) *)
| CFingerprint (s : bytes) (cls : obs_class) (err : N) (val : bytes) (amax : N)
    (* valid_fingerprint; err: 0 ParseFailed, 1 InvalidLength *)
| CCose (key : cose_key) (cls : obs_class) (err : N) (der : bytes)
    (* public_key_der_from_cose_key on the key as the harness saw it;
       err: 0 UnsupportedAlgorithm 1 InvalidCredential 2 InvalidCbor 3 CborUnexpectedType *)
| CCborValue (input : bytes) (cls : obs_class)
    (* from_reader::<ciborium::Value>: the generic layer the contract is taken from *)
| CAuthData (input : bytes) (cls : obs_class).
    (* AuthenticatorData::from_slice *)

(** the transports elements sit two containers deep (descriptor map, list) *)
Definition TRANSPORT_ELEM_FUEL : nat := cbor_fuel - 2.
(** the elements of a top-level Bytes array sit one container deep *)
Definition BYTES_ELEM_FUEL : nat := cbor_fuel - 1.

(** Observed largest request against the model's input-dependent requests [m]: the requests of the model
    were really made ([max m <= amax]); anything larger than them is third-party bookkeeping (error
    messages quoting the input, ciborium's segment buffers, data-encoding's constant tables), which
    stays below [2 * inlen + 1280] on the unchanged tree. *)
Definition alloc_agree (m : cost) (inlen amax : N) : bool :=
  (max_alloc m <=? amax) && (amax <=? N.max (max_alloc m) (2 * inlen + 1280)).

Definition res_bytes_eqb {E} (r : result E bytes) (cls : obs_class) (val : bytes) : bool :=
  match r with
  | Done v => class_eqb cls OValue && beq v val
  | Fail _ => class_eqb cls OError
  | Crash => class_eqb cls OPanic
  end.

Fixpoint list_N_eqb (a b : list N) : bool :=
  match a, b with
  | [], [] => true
  | x :: a', y :: b' => (x =? y) && list_N_eqb a' b'
  | _, _ => false
  end.

Definition cose_err_code (e : ctap2_error) : N :=
  match e with UnsupportedAlgorithm => 0 | InvalidCredential => 1 | InvalidCbor => 2 | CborUnexpectedType => 3 end.

Definition agree (c : rcase) : bool :=
  match c with
  | CBytesCbor input cls val amax =>
      let '(r, m) := bytes_deserialize_cbor BYTES_ELEM_FUEL input in
      res_bytes_eqb r cls val && alloc_agree m (N.of_nat (length input)) amax
  | CBytesSeq src inlen cls val amax =>
      let '(r, m) := bytes_visit_seq src in
      res_bytes_eqb r cls val && alloc_agree m inlen amax
  | CTransports prefix arr cls val amax =>
      let '(r, m) := transports_deserialize_cbor TRANSPORT_ELEM_FUEL arr in
      match r with
      | Done l => class_eqb cls OValue && opt_eqb list_N_eqb l val
      | Fail _ => class_eqb cls OError
      | Crash => class_eqb cls OPanic
      end
      && alloc_agree m (N.of_nat (length prefix + length arr)) amax
  | CBytesStr s cls val amax =>
      let '(r, m) := bytes_try_from_str_cost s in
      res_bytes_eqb r cls val && alloc_agree m (N.of_nat (length s)) amax
  | CFingerprint s cls err val amax =>
      let '(r, m) := valid_fingerprint s in
      match r with
      | Done v => class_eqb cls OValue && beq v val
      | Fail ParseFailed => class_eqb cls OError && (err =? 0)
      | Fail InvalidLength => class_eqb cls OError && (err =? 1)
      | Crash => class_eqb cls OPanic
      end
      && alloc_agree m (N.of_nat (length s)) amax
  | CCose key cls err der =>
      match fst (public_key_der_from_cose_key key) with
      | Done v => class_eqb cls OValue && beq v der
      | Fail e => class_eqb cls OError && (cose_err_code e =? err)
      | Crash => class_eqb cls OPanic
      end
  | CCborValue input cls =>
      match cbor_decode cbor_fuel input with
      | Some _ => class_eqb cls OValue
      | None => class_eqb cls OError
      end
  | CAuthData input cls =>
      match from_slice input with
      | AuthData.Val _ => class_eqb cls OValue
      | AuthData.Err => class_eqb cls OError
      | AuthData.Panic => class_eqb cls OPanic
      end
  end.

(** the property on the implementation's observation alone: no panic, and the largest allocation
    request within [64 * |input| + 1 MiB] (the generous bound of the driver, see evidence) *)
Definition within (inlen amax : N) : bool := amax <=? 64 * inlen + 1048576.

Definition not_panic (c : obs_class) : bool := negb (class_eqb c OPanic).

Definition oracle (c : rcase) : bool :=
  match c with
  | CBytesCbor input cls _ amax => not_panic cls && within (N.of_nat (length input)) amax
  | CBytesSeq _ inlen cls _ amax => not_panic cls && within inlen amax
  | CTransports prefix arr cls _ amax => not_panic cls && within (N.of_nat (length prefix + length arr)) amax
  | CBytesStr s cls _ amax => not_panic cls && within (N.of_nat (length s)) amax
  | CFingerprint s cls _ v amax =>
      not_panic cls && within (N.of_nat (length s)) amax
      && (if class_eqb cls OValue then (length v =? 32)%nat && (length s =? 95)%nat else true)
  | CCose key cls _ der =>
      not_panic cls
      (* a DER encoding is only ever produced from two 32-byte coordinates *)
      && (if class_eqb cls OValue then (length der =? 91)%nat else true)
  | CCborValue _ cls => not_panic cls
  | CAuthData _ cls => not_panic cls
  end.
