(** Correspondence checks and the property oracle for the CTAP2 message domain (C13).
    Everything here is executable and is evaluated by generated case files. *)
From Coq Require Import String Ascii.
From PK Require Import Lib.Cbor Lib.Check Wire.Serde Wire.CtapSpec Wire.gen.CtapSchema Wire.gen.Status.
Open Scope N_scope.

(** how a [de] input was made from a valid encoding (the oracle's expectation depends on it) *)
Inductive mclass :=
| MBase                                   (* the implementation's own encoding of a message *)
| MUnknown                                (* entries with unknown keys (unsigned 0..255 not assigned, or text) inserted *)
| MDup                                    (* a known member repeated (as integer or as its text spelling) *)
| MMissing                                (* a required member removed *)
| MDefaults (opts : list (string * bool)) (* [options] removed or thinned out; the options the result must show *)
| MOther.                                 (* anything else: the statement does not say; agreement pins it *)

Inductive ccase :=
| CSer (msg : string) (vals : list (option cbor)) (present : list string)
       (impl : bytes) (reser : option bytes)
    (* a message value: impl = ciborium::ser::into_writer; reser = those bytes read back by the
       implementation and written again (None = it could not read them) *)
| CDe (msg : string) (cls : mclass) (input : bytes) (impl : option bytes) (base : option bytes)
    (* impl = from_reader::<T>(input) written again (None = Err); base = the same for the encoding
       the input was derived from *)
| CStatus (b : N) (cls name : string) (back : N) (w auth reg : werr).
    (* StatusCode::from(b): class, variant name, u8::from, WebauthnError::from, and what
       Client::authenticate / Client::register return when the authenticator fails with b *)

Definition schema_of (msg : string) : list (fattr * kind) :=
  match assoc msg ALL_MESSAGES with Some fs => fs | None => [] end.

Definition enc_opt (o : option cbor) : option bytes := option_map cbor_encode o.

Definition werr_eqb (a b : werr) : bool :=
  match a, b with
  | WAuthenticatorError x, WAuthenticatorError y => x =? y
  | WNamed x, WNamed y => String.eqb x y
  | _, _ => false
  end.

Definition class_name (s : status) : string :=
  match s with
  | S_Ctap1 _ => "ctap1" | S_Known _ => "known" | S_Other _ => "other"
  | S_Extension _ => "extension" | S_Vendor _ => "vendor"
  end.

Definition variant_name (s : status) : string :=
  match s with
  | S_Ctap1 i => name_at U2F_TABLE i
  | S_Known i => name_at CTAP2_TABLE i
  | _ => ""
  end.

(** model = implementation *)
Definition agree (c : ccase) : bool :=
  match c with
  | CSer msg vals _ impl reser =>
      let fs := schema_of msg in
      wt_fields fs vals
      && beq (ser_msg fs vals) impl
      && opt_eqb beq (enc_opt (de_msg fs impl)) reser
  | CDe msg _ input impl _ => opt_eqb beq (enc_opt (de_msg (schema_of msg) input)) impl
  | CStatus b cls name back w auth reg =>
      match status_of_byte b with
      | None => false
      | Some s =>
          String.eqb (class_name s) cls && String.eqb (variant_name s) name
          && (byte_of_status s =? back)
          && werr_eqb (webauthn_error_of_status s) w
          && werr_eqb (authenticate_error s) auth
          && werr_eqb (register_error s) reg
      end
  end.

(** *** the oracle: the statement of C13 read off the implementation's observation, using the
    specification tables of [CtapSpec] only (neither the generated schema nor the model) *)

Fixpoint insert_sorted (x : N) (l : list N) : list N :=
  match l with
  | [] => [x]
  | y :: r => if x <=? y then x :: l else y :: insert_sorted x r
  end.
Definition sort_n (l : list N) : list N := fold_right insert_sorted [] l.

Fixpoint ascending (l : list N) : bool :=
  match l with
  | x :: ((y :: _) as r) => (x <? y) && ascending r
  | _ => true
  end.

Definition int_key (k : cbor) : option N :=
  match k with CInt z => if (0 <=? z)%Z then Some (Z.to_N z) else None | _ => None end.

Definition bytes_of_string (s : string) : bytes := map N_of_ascii (list_ascii_of_string s).

(** is the member with this number a required one (a required member of type "any CBOR value",
    e.g. attStmt, may be null; an optional member never is: when absent it is left out) *)
Definition required_number (msg : string) (k : cbor) : bool :=
  match assoc msg SPEC, int_key k with
  | Some (members, _), Some n => existsb (fun m : member => let '(_, num, req) := m in (num =? n) && req) members
  | _, _ => false
  end.

(** top level of a serialised message: a definite-length map in shortest form whose keys are
    exactly the numbers the specification assigns to the members present, strictly ascending,
    and no optional member is null *)
Definition wire_ok (msg : string) (present : list string) (b : bytes) : bool :=
  match cbor_read b with
  | Some (CMap es) =>
      beq (cbor_encode (CMap es)) b
      && match map_opt int_key (map fst es), map_opt (fun f => option_map fst (spec_of_field msg f)) present with
         | Some keys, Some nums => ascending keys && list_eqb N.eqb keys (sort_n nums)
         | _, _ => false
         end
      && forallb (fun kv : cbor * cbor => negb (is_null (snd kv)) || required_number msg (fst kv)) es
  | _ => false
  end.

(** the [options] member of a decoded-and-rewritten request shows exactly the given options *)
Definition options_number (msg : string) : option N := option_map fst (spec_of_field msg "options").

Definition options_are (msg : string) (opts : list (string * bool)) (b : bytes) : bool :=
  match cbor_read b, options_number msg with
  | Some (CMap es), Some n =>
      match map_get_int (Z.of_N n) es with
      | Some (CMap os) =>
          (length os =? length opts)%nat
          && forallb (fun o : string * bool =>
                        match map_get_text (bytes_of_string (fst o)) os with
                        | Some (CBool x) => Bool.eqb x (snd o)
                        | _ => false
                        end) opts
      | _ => false
      end
  | _, _ => false
  end.

Definition is_some {A} (o : option A) : bool := match o with Some _ => true | None => false end.

Definition oracle (c : ccase) : bool :=
  match c with
  | CSer msg _ present impl reser =>
      wire_ok msg present impl
      && opt_eqb beq reser (Some impl)                   (* reads back to an equal message *)
  | CDe msg cls input impl base =>
      match cls with
      | MBase => opt_eqb beq impl (Some input)
      | MUnknown => is_some base && opt_eqb beq impl base   (* ignored *)
      | MDup | MMissing => negb (is_some impl)              (* an error *)
      | MDefaults opts => match impl with Some b => options_are msg opts b | None => false end
      | MOther => true
      end
  | CStatus b _ _ back w auth _ =>
      (back =? b)
      && werr_eqb auth (if b =? CTAP2_ERR_NO_CREDENTIALS then WNamed "CredentialNotFound" else WAuthenticatorError b)
  end.
