(** Proofs about the WebAuthn JSON model (C14).  All statements are for ALL inputs (byte strings,
    numbers, documents, schemas); the schema-specific ones are instantiated in Props/C14.v on the
    generated gen/JsonSchema.v. *)
From Coq Require Import ZArith ZifyBool ZifyNat ZifyN Lia.
From PK Require Import Lib.Bytes Lib.Base64 Lib.Base64Facts Wire.Json.
Ltac Zify.zify_post_hook ::= Z.div_mod_to_equations.
Open Scope N_scope.

(** * (a) every presentation of a byte string is read back by the [Bytes] visitor *)

Lemma seq_all_ok {A B} fl (f : A -> res B) (l : list A) (l' : list B) :
  Forall2 (fun x y => f x = Ok y) l l' -> seq_all fl f l = Ok l'.
Proof.
  induction 1 as [|x y l l' Hxy _ IH]; cbn [seq_all]; [reflexivity|].
  rewrite Hxy, IH. reflexivity.
Qed.

Definition json_of_bytes (b : bytes) : json := JArr (map (fun n => JInt (Z.of_N n)) b).

Lemma de_u8_byte n : n < 256 -> de_u8 (JInt (Z.of_N n)) = Some n.
Proof.
  intros H. unfold de_u8.
  replace ((0 <=? Z.of_N n)%Z && (Z.of_N n <=? 255)%Z) with true by lia.
  rewrite N2Z.id. reflexivity.
Qed.

Theorem bytes_array_parses fl b : bytes_ok b -> de_bytes fl (json_of_bytes b) = Ok b.
Proof.
  intros H. unfold json_of_bytes, de_bytes. apply seq_all_ok.
  induction H as [|n b Hn _ IH]; cbn [map]; constructor; [|exact IH].
  rewrite (de_u8_byte n Hn). reflexivity.
Qed.

Theorem bytes_b64url_parses fl b k : bytes_ok b -> de_bytes fl (JStr (b64url_encode b ++ repeat 61 k)) = Ok b.
Proof. intros H. unfold de_bytes. rewrite (bytes_try_from_url b k H). reflexivity. Qed.

Theorem bytes_b64_parses fl b k : bytes_ok b -> de_bytes fl (JStr (b64_encode b ++ repeat 61 k)) = Ok b.
Proof. intros H. unfold de_bytes. rewrite (bytes_try_from_std b k H). reflexivity. Qed.

(** the five presentations the property names, in both deserialiser flavours *)
Theorem bytes_presentations fl b : bytes_ok b ->
  de fl TBytes (json_of_bytes b) = Ok (RBytes b)
  /\ de fl TBytes (JStr (b64url_encode b)) = Ok (RBytes b)
  /\ de fl TBytes (JStr (b64url_encode b ++ b64_padding b)) = Ok (RBytes b)
  /\ de fl TBytes (JStr (b64_encode b)) = Ok (RBytes b)
  /\ de fl TBytes (JStr (b64_encode b ++ b64_padding b)) = Ok (RBytes b).
Proof.
  intros H. cbn [de]. destruct (b64_padding_repeat b) as [k ->].
  rewrite (bytes_array_parses fl b H), (bytes_b64url_parses fl b k H), (bytes_b64_parses fl b k H).
  pose proof (bytes_b64url_parses fl b 0 H) as E1. pose proof (bytes_b64_parses fl b 0 H) as E2.
  cbn [repeat] in E1, E2. rewrite app_nil_r in E1, E2. rewrite E1, E2. repeat split; reflexivity.
Qed.

(** * (b) numbers: number, decimal string and integral float agree *)

Lemma digits_fuel_lt f : forall n, Forall (fun d => d < 10) (digits_fuel f n).
Proof.
  induction f as [|f IH]; intros n; cbn [digits_fuel]; [constructor|].
  destruct (N.ltb_spec n 10) as [Hn|Hn]; [repeat constructor; exact Hn|].
  apply Forall_app. split; [apply IH|]. repeat constructor. apply N.mod_lt. lia.
Qed.

Definition dfold (acc : N) (ds : list N) : N := fold_left (fun a d => a * 10 + d) ds acc.

Lemma dfold_digits f : forall n, n < 10 ^ N.of_nat f -> dfold 0 (digits_fuel f n) = n.
Proof.
  unfold dfold. induction f as [|f IH]; intros n Hn; cbn [digits_fuel].
  - cbn in Hn. cbn. lia.
  - destruct (N.ltb_spec n 10) as [H10|H10]; [cbn; lia|].
    rewrite fold_left_app. cbn [fold_left]. rewrite IH.
    + lia.
    + rewrite Nat2N.inj_succ, N.pow_succ_r' in Hn. lia.
Qed.

Lemma digits_fuel_nonempty f n : digits_fuel (S f) n <> [].
Proof.
  cbn [digits_fuel]. destruct (n <? 10); [discriminate|]. intros H. apply app_eq_nil in H. destruct H; discriminate.
Qed.

Lemma dval_acc_digits ds : forall acc, Forall (fun d => d < 10) ds ->
  dval_acc acc (map (N.add 48) ds) = Some (dfold acc ds).
Proof.
  unfold dfold. induction ds as [|d ds IH]; intros acc H; cbn [map dval_acc fold_left]; [reflexivity|].
  inversion_clear H as [|? ? Hd Hds]. unfold is_digit.
  replace ((48 <=? 48 + d) && (48 + d <=? 57)) with true by lia.
  replace (48 + d - 48) with d by lia. apply IH, Hds.
Qed.

Lemma dec_of_N_head n : exists c r, dec_of_N n = c :: r /\ 48 <= c.
Proof.
  unfold dec_of_N. pose proof (digits_fuel_nonempty 19 n) as Hne.
  change (S 19) with 20%nat in Hne.
  destruct (digits_fuel 20 n) as [|d ds]; [contradiction|]. cbn [map]. exists (48 + d), (map (N.add 48) ds). split; [reflexivity|lia].
Qed.

Lemma parse_unsigned_dec n : n < 10 ^ 20 -> parse_unsigned (dec_of_N n) = Some n.
Proof.
  intros Hn. destruct (dec_of_N_head n) as (c & r & E & _). unfold parse_unsigned. rewrite E, <- E.
  unfold dec_of_N. rewrite (dval_acc_digits _ 0 (digits_fuel_lt 20 n)). f_equal. apply dfold_digits. exact Hn.
Qed.

(** [T::from_str(&n.to_string())] *)
Lemma parse_int_str_dec t z : fits t z = true -> parse_int_str t (dec_of_Z z) = Some z.
Proof.
  intros Hfit. unfold dec_of_Z.
  assert (Hb : (- 10 ^ 19 < z < 10 ^ 19)%Z) by (unfold fits, I64_MIN, I64_MAX, U32_MAX in Hfit; destruct t; lia).
  destruct (Z.ltb_spec z 0) as [Hneg|Hpos].
  - destruct t; [unfold fits in Hfit; lia|].
    unfold parse_int_str. cbn [is_ni64]. rewrite N.eqb_refl. cbn [andb].
    rewrite parse_unsigned_dec by lia. rewrite Z2N.id by lia. rewrite Z.opp_involutive.
    unfold visit_int. rewrite Hfit. reflexivity.
  - destruct (dec_of_N_head (Z.to_N z)) as (c & r & E & Hc). unfold parse_int_str. rewrite E.
    replace (c =? 45) with false by lia. replace (c =? 43) with false by lia. cbn [andb]. rewrite <- E.
    rewrite parse_unsigned_dec by lia. rewrite Z2N.id by lia.
    unfold visit_int. rewrite Hfit. reflexivity.
Qed.

(** the decimal m * 10^e denotes the integer n exactly *)
Definition dec_is (m e n : Z) : Prop :=
  if (0 <=? e)%Z then n = (m * 10 ^ e)%Z else m = (n * 10 ^ (- e))%Z.

Lemma pow10_ge_pow8 k : (0 <= k -> 2 ^ (3 * k) <= 10 ^ k)%Z.
Proof.
  intros Hk. rewrite Z.pow_mul_r by lia. change (2 ^ 3)%Z with 8%Z.
  apply Z.pow_le_mono_l. lia.
Qed.

Lemma dec_trunc_exact m e n : dec_is m e n -> dec_trunc m e = n.
Proof.
  unfold dec_is, dec_trunc. destruct (Z.leb_spec 0 e) as [He|He]; [intros ->; reflexivity|].
  intros ->. set (k := (- e)%Z). assert (Hk : (0 < k)%Z) by lia.
  assert (Hp : (0 < 10 ^ k)%Z) by (apply Z.pow_pos_nonneg; lia).
  destruct (Z.leb_spec (Z.log2 (Z.abs (n * 10 ^ k)) + 1) (3 * k)) as [Hs|Hs].
  - (* the magnitude test says |m| < 8^k <= 10^k, so n = 0 *)
    destruct (Z.eq_dec n 0) as [->|Hn]; [reflexivity|exfalso].
    assert (Ha : (0 < Z.abs (n * 10 ^ k))%Z) by nia.
    pose proof (Z.log2_spec _ Ha) as [_ Hlt].
    assert (Hle : (2 ^ Z.succ (Z.log2 (Z.abs (n * 10 ^ k))) <= 2 ^ (3 * k))%Z) by (apply Z.pow_le_mono_r; lia).
    pose proof (pow10_ge_pow8 k ltac:(lia)) as H8.
    rewrite Z.abs_mul, (Z.abs_eq (10 ^ k)) in * by lia.
    assert (H1 : (1 <= Z.abs n)%Z) by lia.
    assert (Hm : (1 * 10 ^ k <= Z.abs n * 10 ^ k)%Z) by (apply Z.mul_le_mono_nonneg_r; lia).
    lia.
  - apply Z.quot_mul. lia.
Qed.

Lemma f64_as_i64_exact m e n : dec_is m e n -> (I64_MIN <= n <= I64_MAX)%Z -> f64_as_i64 m e = n.
Proof.
  intros Hd Hn. unfold f64_as_i64.
  destruct (Z.eqb_spec m 0) as [->|Hm].
  - unfold dec_is in Hd. destruct (Z.leb_spec 0 e) as [He|He]; [lia|]. symmetry in Hd. apply Z.mul_eq_0 in Hd. destruct Hd as [Hd|Hd]; [lia|].
    exfalso. assert (0 < 10 ^ (- e))%Z by (apply Z.pow_pos_nonneg; lia). lia.
  - destruct (Z.ltb_spec 400 e) as [He|He].
    + (* |n| >= 10^400 does not fit i64 *)
      exfalso. unfold dec_is in Hd. replace (0 <=? e)%Z with true in Hd by lia.
      assert (10 ^ 20 <= 10 ^ e)%Z by (apply Z.pow_le_mono_r; lia).
      unfold I64_MIN, I64_MAX in Hn. nia.
    + rewrite (dec_trunc_exact m e n Hd).
      replace (F64_INF <=? Z.abs n)%Z with false; [unfold I64_MIN, I64_MAX in *; lia|].
      symmetry. apply Z.leb_gt. unfold F64_INF, I64_MIN, I64_MAX in *.
      assert (2 ^ 64 < 2 ^ 1024 - 2 ^ 970)%Z by (vm_compute; reflexivity). lia.
Qed.

(** [StringOrNum<T>]: the three presentations of an integer in range *)
Theorem string_or_num_presentations t n : fits t n = true ->
  string_or_num t (JInt n) = Some n
  /\ string_or_num t (JStr (dec_of_Z n)) = Some n
  /\ (forall m e, dec_is m e n -> string_or_num t (JDec m e) = Some n).
Proof.
  intros Hfit. repeat split.
  - cbn [string_or_num]. unfold visit_int. rewrite Hfit. reflexivity.
  - cbn [string_or_num]. rewrite (parse_int_str_dec t n Hfit). reflexivity.
  - intros m e Hd. cbn [string_or_num]. rewrite (f64_as_i64_exact m e n Hd).
    + unfold visit_int. rewrite Hfit. reflexivity.
    + unfold fits, I64_MIN, I64_MAX, U32_MAX in *. destruct t; lia.
Qed.

Lemma dec_is_n0 n : dec_is n 0 n.
Proof. unfold dec_is. cbn. lia. Qed.

Lemma dec_is_point_zero n : dec_is (n * 10) (-1) n.     (* the literal "n.0" *)
Proof. unfold dec_is. cbn. lia. Qed.
