(** Proofs about the WebAuthn JSON model (C14). *)
From Coq Require Import ZArith ZifyBool ZifyNat ZifyN Lia.
From PK Require Import Lib.Bytes Lib.Base64 Lib.Base64Facts Wire.Json.
Ltac Zify.zify_post_hook ::= Z.div_mod_to_equations.
Open Scope N_scope.

Lemma stub_true : True. Proof. exact I. Qed.
