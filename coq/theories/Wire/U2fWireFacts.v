(** Theorems about the U2F raw-message wire model (the codec half of C17 and the U2F part of
    C15): request round trip, response layouts, totality (no panic) and cost of the parsers. *)
From PK Require Import Lib.Bytes Wire.U2fWire.
From Coq Require Import ZArith ZifyBool ZifyNat ZifyN Lia.
Ltac Zify.zify_post_hook ::= Z.div_mod_to_equations.
Open Scope N_scope.

Lemma Val_inj {E A} (a b : A) : @Val E A a = Val b -> a = b.
Proof. intros H. injection H as H. exact H. Qed.

(** *** list helpers *)
Lemma skipn_exact {A} (pre r : list A) a : length pre = a -> skipn a (pre ++ r) = r.
Proof.
  intros <-. rewrite skipn_app, skipn_all, Nat.sub_diag. reflexivity.
Qed.

Lemma firstn_exact {A} (mid post : list A) n : length mid = n -> firstn n (mid ++ post) = mid.
Proof.
  intros <-. rewrite firstn_app, firstn_all, Nat.sub_diag. cbn [firstn]. apply app_nil_r.
Qed.

Lemma skipn_add {A} a b (l : list A) : skipn (a + b) l = skipn b (skipn a l).
Proof.
  revert l; induction a as [|a IH]; intros l; [reflexivity|].
  destruct l as [|x l]; [cbn [Nat.add skipn]; rewrite skipn_nil; reflexivity|].
  cbn [Nat.add skipn]. apply IH.
Qed.

Lemma skipn_nth_cons {A} n (l : list A) d :
  (n < length l)%nat -> skipn n l = nth n l d :: skipn (S n) l.
Proof.
  revert l; induction n as [|n IH]; intros [|x l] H; cbn [length] in H; try lia; [reflexivity|].
  change (skipn (S n) (x :: l)) with (skipn n l). change (nth (S n) (x :: l) d) with (nth n l d).
  change (skipn (S (S n)) (x :: l)) with (skipn (S n) l). apply IH. lia.
Qed.

Lemma nth_skipn {A} n (l : list A) d : nth n l d = nth 0 (skipn n l) d.
Proof.
  revert l; induction n as [|n IH]; intros [|x l]; try reflexivity.
  change (skipn (S n) (x :: l)) with (skipn n l). change (nth (S n) (x :: l) d) with (nth n l d). apply IH.
Qed.

(** *** slices *)
Lemma slice_range_some a b l s :
  slice_range a b l = Some s ->
  N.of_nat a <= b /\ b <= N.of_nat (length l) /\ s = firstn (N.to_nat b - a) (skipn a l).
Proof.
  unfold slice_range.
  destruct ((N.of_nat a <=? b) && (b <=? N.of_nat (length l))) eqn:E; [|discriminate].
  intros H. injection H as <-. repeat split; lia.
Qed.

Lemma slice_range_none a b l :
  slice_range a b l = None -> b < N.of_nat a \/ N.of_nat (length l) < b.
Proof.
  unfold slice_range.
  destruct ((N.of_nat a <=? b) && (b <=? N.of_nat (length l))) eqn:E; [discriminate|].
  intros _. lia.
Qed.

Lemma slice_range_length a b l s :
  slice_range a b l = Some s -> N.of_nat (length s) = b - N.of_nat a.
Proof.
  intros H. apply slice_range_some in H as (H1 & H2 & ->).
  rewrite firstn_length, skipn_length. lia.
Qed.

Lemma slice_range_mid pre mid post a b :
  length pre = a -> b = N.of_nat (a + length mid) ->
  slice_range a b (pre ++ mid ++ post) = Some mid.
Proof.
  intros Ha ->. unfold slice_range.
  replace ((N.of_nat a <=? N.of_nat (a + length mid)) &&
           (N.of_nat (a + length mid) <=? N.of_nat (length (pre ++ mid ++ post)))) with true
    by (rewrite !app_length; lia).
  rewrite (skipn_exact pre _ a Ha).
  rewrite firstn_exact; [reflexivity|lia].
Qed.

Lemma slice_to_app mid post b :
  b = N.of_nat (length mid) -> slice_to b (mid ++ post) = Some mid.
Proof. intros ->. apply (slice_range_mid [] mid post 0); reflexivity. Qed.

Lemma slice_to_eq b l :
  slice_to b l = if b <=? N.of_nat (length l) then Some (firstn (N.to_nat b) l) else None.
Proof.
  unfold slice_to, slice_range. change (N.of_nat 0) with 0.
  replace (0 <=? b) with true by lia. cbn [andb]. rewrite Nat.sub_0_r. reflexivity.
Qed.

Lemma to_array_some n s a : to_array n s = Some a -> a = s /\ length s = n.
Proof.
  unfold to_array. destruct (Nat.eqb_spec (length s) n) as [E|E]; [|discriminate].
  intros H. injection H as <-. auto.
Qed.

Lemma to_array_ok n s : length s = n -> to_array n s = Some s.
Proof. intros H. unfold to_array. rewrite (proj2 (Nat.eqb_eq _ _) H). reflexivity. Qed.

(** *** control bytes *)
Lemma control_byte_cases p1 : is_control_byte p1 = true <-> p1 = 3 \/ p1 = 7 \/ p1 = 8.
Proof. unfold is_control_byte. lia. Qed.

Lemma control_byte_param p1 :
  is_control_byte p1 = true -> exists p, auth_param_from_u8 p1 = Some p /\ auth_param_to_u8 p = p1.
Proof.
  intros H. apply control_byte_cases in H as [-> | [-> | ->]]; eexists; split; reflexivity.
Qed.

Lemma auth_param_round p : auth_param_from_u8 (auth_param_to_u8 p) = Some p.
Proof. destruct p; reflexivity. Qed.

Lemma auth_param_is_control p : is_control_byte (auth_param_to_u8 p) = true.
Proof. destruct p; reflexivity. Qed.

Lemma auth_param_none p1 : auth_param_from_u8 p1 = None <-> is_control_byte p1 = false.
Proof.
  unfold auth_param_from_u8, is_control_byte.
  destruct (p1 =? 7) eqn:E7; destruct (p1 =? 3) eqn:E3; destruct (p1 =? 8) eqn:E8;
    cbn [orb]; split; intros H; try discriminate; reflexivity.
Qed.

Lemma command_round c : (forall b, c = CmdUnsupported b -> b <> 1 /\ b <> 2 /\ b <> 3) ->
  command_from_u8 (command_to_u8 c) = c.
Proof.
  destruct c as [ | | |b]; intros H; try reflexivity.
  destruct (H b eq_refl) as (H1 & H2 & H3). unfold command_from_u8, command_to_u8.
  destruct (N.eqb_spec b 1); [contradiction|].
  destruct (N.eqb_spec b 2); [contradiction|].
  destruct (N.eqb_spec b 3); [contradiction|]. reflexivity.
Qed.

(** *** RegisterRequest::try_from: accepts exactly the 64-byte payloads *)
Lemma register_request_try_from_spec data :
  register_request_try_from data =
  if (length data =? 64)%nat then Val (RegReq (firstn 32 data) (skipn 32 data)) else Err tt.
Proof.
  unfold register_request_try_from. rewrite slice_to_eq. unfold slice_from.
  change (N.to_nat 32) with 32%nat.
  destruct (32 <=? N.of_nat (length data)) eqn:E1.
  - cbn [unwrap_or_default]. rewrite to_array_ok by (rewrite firstn_length; lia).
    replace (32 <=? length data)%nat with true by lia. cbn [unwrap_or_default].
    unfold to_array. rewrite skipn_length.
    destruct (Nat.eqb_spec (length data) 64) as [E|E].
    + replace (length data - 32 =? 32)%nat with true by lia. reflexivity.
    + replace (length data - 32 =? 32)%nat with false by lia. reflexivity.
  - cbn [unwrap_or_default]. change (to_array 32 []) with (@None bytes).
    replace (length data =? 64)%nat with false by lia. reflexivity.
Qed.

Lemma register_request_no_panic data : register_request_try_from data <> Panic.
Proof. rewrite register_request_try_from_spec. destruct (length data =? 64)%nat; discriminate. Qed.

Lemma register_request_val data r :
  register_request_try_from data = Val r ->
  length data = 64%nat /\ data = rr_challenge r ++ rr_application r /\ wf_register_request r.
Proof.
  rewrite register_request_try_from_spec.
  destruct (Nat.eqb_spec (length data) 64) as [E|E]; [|discriminate].
  intros H. apply Val_inj in H. subst r. cbn [rr_challenge rr_application]. unfold wf_register_request.
  cbn [rr_challenge rr_application]. rewrite firstn_skipn, firstn_length, skipn_length.
  repeat split; lia.
Qed.

(** *** AuthenticationRequest::try_from *)
Lemma firstn_fields (c a t : bytes) h k :
  length c = 32%nat -> length a = 32%nat ->
  firstn (65 + k) (c ++ a ++ h :: t) = c ++ a ++ [h] ++ firstn k t.
Proof.
  intros Hc Ha. replace (65 + k)%nat with (length c + (length a + (1 + k)))%nat by lia.
  rewrite firstn_app_2. f_equal. rewrite firstn_app_2. f_equal.
Qed.

(** the checks that precede the parameter conversion, as one decision *)
Definition auth_layout_ok (data : bytes) : bool :=
  (65 <=? N.of_nat (length data)) && (65 + nth 64 data 0 <=? N.of_nat (length data)).

Lemma to_array1_slice data :
  to_array1 (unwrap_or_default (slice_range 64 65 data)) =
  if 65 <=? N.of_nat (length data) then Some (nth 64 data 0) else None.
Proof.
  unfold slice_range. change (N.of_nat 64 <=? 65) with true. cbn [andb].
  change (N.to_nat 65 - 64)%nat with 1%nat.
  destruct (65 <=? N.of_nat (length data)) eqn:E; [|reflexivity].
  cbn [unwrap_or_default].
  rewrite (skipn_nth_cons 64 data 0) by lia. reflexivity.
Qed.

Lemma slice_32_64 data :
  slice_range 32 64 data =
  if 64 <=? N.of_nat (length data) then Some (firstn 32 (skipn 32 data)) else None.
Proof.
  unfold slice_range. change (N.of_nat 32 <=? 64) with true. cbn [andb].
  change (N.to_nat 64 - 32)%nat with 32%nat. reflexivity.
Qed.

Lemma authentication_request_try_from_spec data p1 :
  authentication_request_try_from data p1 =
  if auth_layout_ok data then
    match auth_param_from_u8 p1 with
    | None => Panic
    | Some p => Val (AuthReq p (firstn 32 data) (firstn 32 (skipn 32 data))
                             (firstn (N.to_nat (nth 64 data 0)) (skipn 65 data)))
    end
  else Err tt.
Proof.
  unfold authentication_request_try_from, auth_layout_ok.
  rewrite to_array1_slice, slice_to_eq, slice_32_64. change (N.to_nat 32) with 32%nat.
  destruct (65 <=? N.of_nat (length data)) eqn:E65; cbn [andb].
  - (* at least 65 bytes: the three fixed fields are there *)
    replace (32 <=? N.of_nat (length data)) with true by lia.
    replace (64 <=? N.of_nat (length data)) with true by lia.
    cbn [unwrap_or_default].
    rewrite (to_array_ok 32 (firstn 32 data)) by (rewrite firstn_length; lia).
    rewrite (to_array_ok 32 (firstn 32 (skipn 32 data)))
      by (rewrite firstn_length, skipn_length; lia).
    unfold slice_range.
    replace (N.of_nat 65 <=? 65 + nth 64 data 0) with true by lia. cbn [andb].
    destruct (65 + nth 64 data 0 <=? N.of_nat (length data)) eqn:Ek; [|reflexivity].
    replace (N.to_nat (65 + nth 64 data 0%N) - 65)%nat with (N.to_nat (nth 64 data 0)) by lia.
    reflexivity.
  - (* shorter: one of the three conversions fails, in source order *)
    destruct (32 <=? N.of_nat (length data)) eqn:E32; cbn [unwrap_or_default].
    + rewrite (to_array_ok 32 (firstn 32 data)) by (rewrite firstn_length; lia).
      destruct (64 <=? N.of_nat (length data)) eqn:E64; cbn [unwrap_or_default].
      * rewrite (to_array_ok 32 (firstn 32 (skipn 32 data)))
          by (rewrite firstn_length, skipn_length; lia).
        reflexivity.
      * reflexivity.
    + reflexivity.
Qed.

Lemma authentication_request_no_panic data p1 :
  is_control_byte p1 = true -> authentication_request_try_from data p1 <> Panic.
Proof.
  intros H. rewrite authentication_request_try_from_spec.
  destruct (control_byte_param p1 H) as (p & -> & _).
  destruct (auth_layout_ok data); discriminate.
Qed.

Lemma authentication_request_no_panic_378 data p1 :
  p1 = 3 \/ p1 = 7 \/ p1 = 8 -> authentication_request_try_from data p1 <> Panic.
Proof. intros H. apply authentication_request_no_panic. apply control_byte_cases. exact H. Qed.

(** the known finding, exactly: the public entry point panics iff the payload is laid out
    correctly and the parameter byte is none of 3, 7, 8 *)
Lemma authentication_request_panic_iff data p1 :
  authentication_request_try_from data p1 = Panic <->
  auth_layout_ok data = true /\ is_control_byte p1 = false.
Proof.
  rewrite authentication_request_try_from_spec. rewrite <- auth_param_none.
  destruct (auth_layout_ok data); destruct (auth_param_from_u8 p1);
    split; try discriminate; try (intros [? ?]; discriminate); auto.
Qed.

Lemma authentication_request_panic_witness :
  authentication_request_try_from (repeat 0 65) 0 = Panic.
Proof. vm_compute. reflexivity. Qed.

Lemma authentication_request_val data p1 a :
  authentication_request_try_from data p1 = Val a ->
  auth_param_to_u8 (ar_parameter a) = p1 /\
  length (ar_challenge a) = 32%nat /\ length (ar_application a) = 32%nat /\
  N.of_nat (length (ar_key_handle a)) = nth 64 data 0 /\
  65 + N.of_nat (length (ar_key_handle a)) <= N.of_nat (length data) /\
  firstn (65 + length (ar_key_handle a)) data = authentication_request_bytes a.
Proof.
  rewrite authentication_request_try_from_spec. unfold auth_layout_ok.
  destruct (65 <=? N.of_nat (length data)) eqn:E65; [|discriminate]. cbn [andb].
  destruct (65 + nth 64 data 0 <=? N.of_nat (length data)) eqn:Ek; [|discriminate].
  destruct (auth_param_from_u8 p1) as [p|] eqn:Ep; [|discriminate].
  intros H. apply Val_inj in H. subst a.
  unfold authentication_request_bytes. cbn [ar_parameter ar_challenge ar_application ar_key_handle].
  assert (Hk : length (firstn (N.to_nat (nth 64 data 0)) (skipn 65 data)) = N.to_nat (nth 64 data 0))
    by (rewrite firstn_length, skipn_length; lia).
  rewrite Hk.
  split.
  { revert Ep. unfold auth_param_from_u8.
    destruct (N.eqb_spec p1 7) as [->|_]; [intros H; injection H as <-; reflexivity|].
    destruct (N.eqb_spec p1 3) as [->|_]; [intros H; injection H as <-; reflexivity|].
    destruct (N.eqb_spec p1 8) as [->|_]; [intros H; injection H as <-; reflexivity|discriminate]. }
  split; [rewrite firstn_length; lia|].
  split; [rewrite firstn_length, skipn_length; lia|].
  split; [lia|]. split; [lia|].
  (* the consumed prefix is the concatenation of the four fields *)
  rewrite N2Nat.id.
  set (k := N.to_nat (nth 64 data 0)).
  assert (H64 : (64 < length data)%nat) by lia.
  assert (E1 : skipn 64 data = nth 64 data 0 :: skipn 65 data)
    by (apply skipn_nth_cons; lia).
  assert (Hd : data = firstn 32 data ++ firstn 32 (skipn 32 data) ++ nth 64 data 0 :: skipn 65 data).
  { rewrite <- E1. change (skipn 64 data) with (skipn (32 + 32) data).
    rewrite (skipn_add 32 32 data). rewrite !firstn_skipn. reflexivity. }
  transitivity (firstn (65 + k) (firstn 32 data ++ firstn 32 (skipn 32 data) ++ nth 64 data 0 :: skipn 65 data)).
  { rewrite <- Hd. reflexivity. }
  apply firstn_fields; [rewrite firstn_length; lia|rewrite firstn_length, skipn_length; lia].
Qed.

(** *** Request::try_from on a frame of at least seven bytes *)
Lemma request_try_from_short value :
  (length value <= 6)%nat -> request_try_from value = Err WrongLength.
Proof.
  intros H. unfold request_try_from, REQUEST_HEADER_LEN.
  replace (length value <=? 6)%nat with true by lia. reflexivity.
Qed.

Lemma request_try_from_cons7 b0 b1 b2 b3 b4 b5 b6 rest :
  request_try_from (b0 :: b1 :: b2 :: b3 :: b4 :: b5 :: b6 :: rest) =
  if negb (b0 =? 0) then Err WrongData else
  if (7 + be32_dec b3 b4 b5 b6 <? USIZE_MODULUS) && (be32_dec b3 b4 b5 b6 <=? N.of_nat (length rest))
  then request_dispatch b0 (command_from_u8 b1) b2 (be32_dec b3 b4 b5 b6)
                        (firstn (N.to_nat (be32_dec b3 b4 b5 b6)) rest)
  else Err WrongLength.
Proof.
  unfold request_try_from, REQUEST_HEADER_LEN.
  replace (length (b0 :: b1 :: b2 :: b3 :: b4 :: b5 :: b6 :: rest) <=? 6)%nat with false
    by (cbn [length]; lia).
  cbn [index nth_error].
  destruct (negb (b0 =? 0)); [reflexivity|].
  change (N.of_nat 7) with 7.
  unfold slice_range at 1.
  replace ((N.of_nat 3 <=? 7) && (7 <=? N.of_nat (length (b0 :: b1 :: b2 :: b3 :: b4 :: b5 :: b6 :: rest))))
    with true by (cbn [length]; lia).
  change (N.to_nat 7 - 3)%nat with 4%nat. cbn [skipn firstn u32_from_be_slice].
  set (dl := be32_dec b3 b4 b5 b6).
  unfold checked_add_usize.
  destruct (7 + dl <? USIZE_MODULUS) eqn:Eo; cbn [andb]; [|reflexivity].
  unfold slice_range.
  replace (N.of_nat 7 <=? 7 + dl) with true by lia. cbn [andb].
  replace (7 + dl <=? N.of_nat (length (b0 :: b1 :: b2 :: b3 :: b4 :: b5 :: b6 :: rest)))
    with (dl <=? N.of_nat (length rest)) by (cbn [length]; lia).
  destruct (dl <=? N.of_nat (length rest)) eqn:El; [|reflexivity].
  replace (N.to_nat (7 + dl) - 7)%nat with (N.to_nat dl) by lia.
  cbn [skipn]. reflexivity.
Qed.

Lemma request_dispatch_no_panic cla ins p1 dl payload :
  request_dispatch cla ins p1 dl payload <> Panic.
Proof.
  unfold request_dispatch. destruct ins as [ | | |b]; try discriminate.
  - pose proof (register_request_no_panic payload) as H.
    destruct (register_request_try_from payload); [discriminate|discriminate|contradiction].
  - destruct (is_control_byte p1) eqn:Ec; cbn [negb]; [|discriminate].
    pose proof (authentication_request_no_panic payload p1 Ec) as H.
    destruct (authentication_request_try_from payload p1); [discriminate|discriminate|contradiction].
Qed.

(** **** Totality: no byte string (indeed no list of numbers) makes the frame parser panic *)
Theorem request_try_from_no_panic value : request_try_from value <> Panic.
Proof.
  destruct value as [|b0 [|b1 [|b2 [|b3 [|b4 [|b5 [|b6 rest]]]]]]];
    try (rewrite request_try_from_short by (cbn [length]; lia); discriminate).
  rewrite request_try_from_cons7.
  destruct (negb (b0 =? 0)); [discriminate|].
  destruct ((7 + be32_dec b3 b4 b5 b6 <? USIZE_MODULUS) &&
            (be32_dec b3 b4 b5 b6 <=? N.of_nat (length rest))); [|discriminate].
  apply request_dispatch_no_panic.
Qed.

Theorem request_try_from_total value :
  (exists r, request_try_from value = Val r) \/ (exists sw, request_try_from value = Err sw).
Proof.
  pose proof (request_try_from_no_panic value) as H.
  destruct (request_try_from value) as [r|sw|]; [left; eauto|right; eauto|contradiction].
Qed.

(** **** What a successful parse consumed and produced (the cost statement) *)
Definition payload_fields_len (p : request_payload) : N :=
  match p with
  | PRegister r => N.of_nat (length (rr_challenge r) + length (rr_application r))
  | PAuthenticate a =>
      N.of_nat (length (ar_challenge a) + length (ar_application a) + 1 + length (ar_key_handle a))
  | PVersion => 0
  end.

(** the fixed-width fields have their width *)
Definition payload_shape (p : request_payload) : Prop :=
  match p with
  | PRegister r => wf_register_request r
  | PAuthenticate a => length (ar_challenge a) = 32%nat /\ length (ar_application a) = 32%nat
  | PVersion => True
  end.

Lemma request_dispatch_val cla ins p1 dl payload r :
  request_dispatch cla ins p1 dl payload = Val r ->
  r_cla r = cla /\ r_ins r = ins /\ r_p1 r = p1 /\ r_data_len r = dl /\
  payload_fields_len (r_data r) <= N.of_nat (length payload) /\
  firstn (N.to_nat (payload_fields_len (r_data r))) payload = payload_bytes (r_data r) /\
  payload_shape (r_data r).
Proof.
  unfold request_dispatch. destruct ins as [ | | |b].
  - destruct (register_request_try_from payload) as [rr|e|] eqn:E; try discriminate.
    intros H. injection H as <-. cbn [r_cla r_ins r_p1 r_data_len r_data].
    apply register_request_val in E as (E1 & E2 & E3 & E4).
    cbn [payload_fields_len payload_bytes payload_shape]. unfold register_request_bytes, wf_register_request.
    repeat split; try lia.
    rewrite Nat2N.id. rewrite E2 at 1. rewrite <- app_length. apply firstn_all.
  - destruct (is_control_byte p1) eqn:Ec; cbn [negb]; [|discriminate].
    destruct (authentication_request_try_from payload p1) as [a|e|] eqn:E; try discriminate.
    intros H. injection H as <-. cbn [r_cla r_ins r_p1 r_data_len r_data].
    apply authentication_request_val in E as (E1 & E2 & E3 & E4 & E5 & E6).
    cbn [payload_fields_len payload_bytes payload_shape].
    repeat split; try lia.
    rewrite Nat2N.id. rewrite <- E6. f_equal. lia.
  - intros H. injection H as <-.
    cbn [r_cla r_ins r_p1 r_data_len r_data payload_fields_len payload_bytes payload_shape].
    repeat split; try lia.
  - discriminate.
Qed.

(** Everything a successful parse produced was read from the frame: the declared length fits in
    the frame after the 7-byte header and the produced fields fit in the declared length. *)
Theorem request_try_from_val value r :
  request_try_from value = Val r ->
  r_cla r = 0 /\
  7 + r_data_len r <= N.of_nat (length value) /\
  payload_fields_len (r_data r) <= r_data_len r /\
  firstn (N.to_nat (payload_fields_len (r_data r))) (skipn 7 value) = payload_bytes (r_data r) /\
  firstn 3 value = [0; command_to_u8 (r_ins r); r_p1 r] /\
  payload_shape (r_data r).
Proof.
  destruct value as [|b0 [|b1 [|b2 [|b3 [|b4 [|b5 [|b6 rest]]]]]]];
    try (rewrite request_try_from_short by (cbn [length]; lia); discriminate).
  rewrite request_try_from_cons7.
  destruct (N.eqb_spec b0 0) as [->|Hb]; cbn [negb]; [|discriminate].
  set (dl := be32_dec b3 b4 b5 b6).
  destruct (7 + dl <? USIZE_MODULUS) eqn:Eo; cbn [andb]; [|discriminate].
  destruct (dl <=? N.of_nat (length rest)) eqn:El; [|discriminate].
  intros H. apply request_dispatch_val in H as (H1 & H2 & H3 & H4 & H5 & H6 & H7).
  rewrite firstn_length in H5.
  split; [auto|]. split; [cbn [length]; lia|]. split; [lia|]. split; [|split; [|exact H7]].
  - cbn [skipn]. rewrite <- H6. rewrite firstn_firstn. f_equal. lia.
  - cbn [firstn]. rewrite H2, H3.
    assert (Hc : command_to_u8 (command_from_u8 b1) = b1).
    { unfold command_from_u8.
      destruct (N.eqb_spec b1 1) as [->|]; [reflexivity|].
      destruct (N.eqb_spec b1 2) as [->|]; [reflexivity|].
      destruct (N.eqb_spec b1 3) as [->|]; reflexivity. }
    rewrite Hc. reflexivity.
Qed.

(** Allocation requests never exceed the input length (the only request is the key-handle copy) *)
Theorem request_allocs_bounded value :
  Forall (fun n => (n + 72 <= length value)%nat) (request_allocs value).
Proof.
  unfold request_allocs.
  destruct (request_try_from value) as [r| |] eqn:E; try constructor.
  apply request_try_from_val in E as (_ & H1 & H2 & _ & _ & H3).
  destruct (r_data r) as [rr|a|]; try constructor; [|constructor].
  cbn [payload_fields_len payload_shape] in H2, H3. lia.
Qed.

Corollary request_allocs_le_input value :
  Forall (fun n => (n <= length value)%nat) (request_allocs value).
Proof.
  eapply Forall_impl; [|apply request_allocs_bounded]. cbn beta. intros n H. lia.
Qed.

Lemma request_allocs_at_most_one value : (length (request_allocs value) <= 1)%nat.
Proof.
  unfold request_allocs. destruct (request_try_from value) as [r| |]; cbn [length]; try lia.
  destruct (r_data r); cbn [length]; lia.
Qed.

Theorem request_try_from_cost value :
  Forall (fun n => (n + 72 <= length value)%nat) (request_allocs value) /\
  (length (request_allocs value) <= 1)%nat.
Proof. split; [apply request_allocs_bounded|apply request_allocs_at_most_one]. Qed.

Theorem authentication_request_allocs_bounded data :
  Forall (fun n => (n + 65 <= length data)%nat /\ (n <= 255 \/ ~ bytes_ok data)%nat)
         (authentication_request_allocs data).
Proof.
  unfold authentication_request_allocs.
  destruct (authentication_request_try_from data 3) as [a| |] eqn:E; try constructor; [|constructor].
  apply authentication_request_val in E as (_ & _ & _ & E4 & E5 & _).
  split; [lia|].
  destruct (Nat.le_gt_cases (length (ar_key_handle a)) 255) as [Hle|Hgt]; [left; exact Hle|right].
  intros Hok. unfold bytes_ok in Hok. rewrite Forall_forall in Hok.
  assert (Hin : In (nth 64 data 0) data) by (apply nth_In; lia).
  apply Hok in Hin. unfold byte_ok in Hin. lia.
Qed.

(** *** Round trip: parsing the raw encoding of a well-formed request returns that request,
    whatever follows the request-data (no Le, a two-byte Le, anything) *)
Lemma register_request_roundtrip rr :
  wf_register_request rr -> register_request_try_from (register_request_bytes rr) = Val rr.
Proof.
  intros [H1 H2]. rewrite register_request_try_from_spec. unfold register_request_bytes.
  rewrite app_length, H1, H2. change (32 + 32 =? 64)%nat with true. cbn match.
  rewrite (firstn_exact _ _ 32 H1), (skipn_exact _ _ 32 H1). destruct rr; reflexivity.
Qed.

Lemma authentication_request_roundtrip a extra :
  wf_authentication_request a ->
  authentication_request_try_from (authentication_request_bytes a ++ extra)
                                  (auth_param_to_u8 (ar_parameter a)) = Val a.
Proof.
  intros (H1 & H2 & H3). unfold authentication_request_try_from, authentication_request_bytes.
  destruct a as [p chal app kh]. cbn [ar_parameter ar_challenge ar_application ar_key_handle] in *.
  rewrite <- !app_assoc.
  rewrite (slice_to_app chal _ 32) by (rewrite H1; reflexivity).
  cbn [unwrap_or_default]. rewrite (to_array_ok 32 chal H1).
  rewrite (slice_range_mid chal app _ 32 64) by (auto; rewrite H2; reflexivity).
  cbn [unwrap_or_default]. rewrite (to_array_ok 32 app H2).
  replace (chal ++ app ++ [N.of_nat (length kh)] ++ kh ++ extra)
    with ((chal ++ app) ++ [N.of_nat (length kh)] ++ (kh ++ extra)) by (rewrite <- !app_assoc; reflexivity).
  rewrite (slice_range_mid (chal ++ app) [N.of_nat (length kh)] _ 64 65)
    by (try (rewrite app_length, H1, H2; reflexivity); reflexivity).
  cbn [unwrap_or_default to_array1].
  replace ((chal ++ app) ++ [N.of_nat (length kh)] ++ kh ++ extra)
    with ((chal ++ app ++ [N.of_nat (length kh)]) ++ kh ++ extra) by (rewrite <- !app_assoc; reflexivity).
  rewrite (slice_range_mid (chal ++ app ++ [N.of_nat (length kh)]) kh extra 65 (65 + N.of_nat (length kh)))
    by (try (rewrite !app_length, H1, H2; reflexivity); lia).
  rewrite auth_param_round. reflexivity.
Qed.

Lemma wf_payload_len r : wf_request r -> N.of_nat (length (payload_bytes (r_data r))) = r_data_len r.
Proof.
  intros [_ H]. destruct (r_data r) as [rr|a|]; cbn [payload_bytes].
  - destruct H as (_ & [H1 H2] & ->). unfold register_request_bytes. rewrite app_length, H1, H2. reflexivity.
  - destruct H as (_ & _ & (H1 & H2 & H3) & ->). unfold authentication_request_bytes.
    rewrite !app_length, H1, H2. cbn [length]. lia.
  - destruct H as (_ & ->). reflexivity.
Qed.

Lemma wf_data_len_small r : wf_request r -> r_data_len r <= 320.
Proof.
  intros [_ H]. destruct (r_data r) as [rr|a|].
  - destruct H as (_ & _ & ->). lia.
  - destruct H as (_ & _ & (_ & _ & H3) & ->). lia.
  - destruct H as (_ & ->). lia.
Qed.

Theorem request_roundtrip r le :
  wf_request r -> request_try_from (encode_request r ++ le) = Val r.
Proof.
  intros Hwf. pose proof (wf_payload_len r Hwf) as Hlen. pose proof (wf_data_len_small r Hwf) as Hsmall.
  unfold encode_request. cbn [app]. rewrite request_try_from_cons7.
  destruct Hwf as [Hcla Hwf]. rewrite Hcla. change (negb (0 =? 0)) with false. cbn match.
  assert (Hdl : be32_dec 0 0 (r_data_len r / 256 mod 256) (r_data_len r mod 256) = r_data_len r)
    by (unfold be32_dec; lia).
  rewrite Hdl.
  replace ((7 + r_data_len r <? USIZE_MODULUS) &&
           (r_data_len r <=? N.of_nat (length (payload_bytes (r_data r) ++ le)))) with true
    by (unfold USIZE_MODULUS; rewrite app_length; lia).
  rewrite firstn_exact by lia.
  destruct r as [cla ins p1 dl data]. cbn [r_cla r_ins r_p1 r_data_len r_data] in *. subst cla.
  destruct data as [rr|a|].
  - destruct Hwf as (-> & Hrr & ->). cbn [command_to_u8 payload_bytes].
    change (command_from_u8 1) with CmdRegister. unfold request_dispatch.
    rewrite register_request_roundtrip by exact Hrr. reflexivity.
  - destruct Hwf as (-> & -> & Ha & ->). cbn [command_to_u8 payload_bytes].
    change (command_from_u8 2) with CmdAuthenticate. unfold request_dispatch.
    rewrite auth_param_is_control. cbn [negb].
    rewrite <- (app_nil_r (authentication_request_bytes a)).
    rewrite authentication_request_roundtrip by exact Ha. reflexivity.
  - destruct Hwf as (-> & ->). cbn [command_to_u8 payload_bytes].
    change (command_from_u8 3) with CmdVersion. reflexivity.
Qed.

(** the encoding of a well-formed request made of bytes is a byte string of the stated length *)
Lemma encode_request_length r :
  wf_request r -> N.of_nat (length (encode_request r)) = 7 + r_data_len r.
Proof.
  intros Hwf. unfold encode_request. rewrite !app_length, <- (wf_payload_len r Hwf). cbn [length]. lia.
Qed.

Lemma encode_request_bytes_ok r :
  wf_request r -> r_p1 r < 256 -> bytes_ok (payload_bytes (r_data r)) -> bytes_ok (encode_request r).
Proof.
  intros [Hcla Hwf] Hp1 Hpl. unfold encode_request. rewrite !bytes_ok_app. repeat split; [| |exact Hpl].
  - repeat constructor; unfold byte_ok; try lia.
    destruct (r_ins r) as [ | | |b]; cbn [command_to_u8]; try lia.
    destruct (r_data r); destruct Hwf as [Hins _]; discriminate Hins.
  - repeat constructor; unfold byte_ok; lia.
Qed.

(** *** ISO 7816-4 strict encoding (Lc omitted for empty request-data).
    Register and authenticate frames are the same bytes as [encode_request] followed by Le, so
    they parse for every Le.  A version frame is CLA INS P1 P2 followed by nothing or by the
    three-byte Le; the parser reads those three bytes as the length of the request-data, so the
    frame parses exactly when Le is 00 00 00 (Ne = 65536, what FIDO clients send). *)
Lemma encode_request_iso_nonempty r ne :
  wf_request r -> r_data_len r <> 0 ->
  encode_request_iso r ne = encode_request r ++ match ne with Some n => be16 (n mod 65536) | None => [] end.
Proof.
  intros _ Hnz. unfold encode_request_iso, encode_request.
  destruct (N.eqb_spec (r_data_len r) 0) as [E|_]; [contradiction|]. cbn [negb].
  unfold le_bytes. rewrite <- !app_assoc. reflexivity.
Qed.

Theorem request_roundtrip_iso_nonempty r ne :
  wf_request r -> r_data_len r <> 0 -> request_try_from (encode_request_iso r ne) = Val r.
Proof.
  intros Hwf Hnz. rewrite encode_request_iso_nonempty by assumption. apply request_roundtrip. exact Hwf.
Qed.

Definition version_request (p1 : N) : request := Req 0 CmdVersion p1 0 PVersion.

Lemma version_request_wf p1 : wf_request (version_request p1).
Proof. unfold wf_request, version_request. cbn. auto. Qed.

Theorem version_iso_le65536 p1 :
  request_try_from (encode_request_iso (version_request p1) (Some 65536)) = Val (version_request p1).
Proof. reflexivity. Qed.

(** A behaviour of the code worth knowing (reported, not hidden): an ISO-strict U2F_VERSION frame
    whose Le announces 1..65535 expected bytes (e.g. 00 03 00 00 00 00 06), or that has no Le at
    all, is answered with SW_WRONG_LENGTH. *)
Theorem version_iso_short_le_rejected p1 ne :
  1 <= ne <= 65535 ->
  request_try_from (encode_request_iso (version_request p1) (Some ne)) = Err WrongLength.
Proof.
  intros H. unfold encode_request_iso, version_request, le_bytes, be16.
  cbn [r_cla r_ins r_p1 r_data_len r_data payload_bytes command_to_u8].
  change (negb (0 =? 0)) with false. cbn match. cbn [app].
  rewrite request_try_from_cons7. change (negb (0 =? 0)) with false. cbn match.
  cbn [length]. change (N.of_nat 0) with 0.
  replace (be32_dec 0 0 (ne mod 65536 / 256 mod 256) (ne mod 65536 mod 256)) with ne
    by (unfold be32_dec; lia).
  replace ((7 + ne <? USIZE_MODULUS) && (ne <=? 0)) with false by lia. reflexivity.
Qed.

Theorem version_iso_no_le_rejected p1 :
  request_try_from (encode_request_iso (version_request p1) None) = Err WrongLength.
Proof. reflexivity. Qed.

(** *** Response layouts *)
Lemma sw_no_error_bytes : sw_bytes NoError = [144; 0].
Proof. reflexivity. Qed.

Theorem register_response_layout x y kh cert sig :
  (length kh <= 255)%nat ->
  register_response_encode (RegResp (PubKey x y) kh cert sig) =
  [5] ++ ([4] ++ x ++ y) ++ [N.of_nat (length kh)] ++ kh ++ cert ++ sig ++ [144; 0].
Proof.
  intros H. unfold register_response_encode, public_key_encode.
  cbn [rs_public_key rs_key_handle rs_attestation_certificate rs_signature pk_x pk_y].
  rewrite sw_no_error_bytes. rewrite N.mod_small by lia. reflexivity.
Qed.

(** the same layout read by offsets, with the coordinates at their fixed width *)
Theorem register_response_offsets x y kh cert sig :
  length x = 32%nat -> length y = 32%nat -> (length kh <= 255)%nat ->
  let e := register_response_encode (RegResp (PubKey x y) kh cert sig) in
  nth 0 e 0 = 5 /\ nth 1 e 0 = 4 /\
  firstn 32 (skipn 2 e) = x /\ firstn 32 (skipn 34 e) = y /\
  nth 66 e 0 = N.of_nat (length kh) /\
  firstn (length kh) (skipn 67 e) = kh /\
  firstn (length cert) (skipn (67 + length kh) e) = cert /\
  skipn (67 + length kh + length cert) e = sig ++ [144; 0] /\
  length e = (67 + length kh + length cert + length sig + 2)%nat.
Proof.
  intros Hx Hy Hk e. subst e. rewrite register_response_layout by exact Hk.
  set (klen := N.of_nat (length kh)).
  set (t67 := kh ++ cert ++ sig ++ [144; 0]).
  set (t2 := x ++ y ++ [klen] ++ t67).
  assert (E : [5] ++ ([4] ++ x ++ y) ++ [klen] ++ t67 = 5 :: 4 :: t2).
  { subst t2. cbn [app]. rewrite <- !app_assoc. reflexivity. }
  rewrite E. clear E. set (e := 5 :: 4 :: t2).
  assert (S2 : skipn 2 e = t2) by reflexivity.
  assert (S34 : skipn 34 e = y ++ [klen] ++ t67).
  { change (skipn 34 e) with (skipn (2 + 32) e). rewrite (skipn_add 2 32 e), S2. subst t2. apply skipn_exact; exact Hx. }
  assert (S66 : skipn 66 e = [klen] ++ t67).
  { change (skipn 66 e) with (skipn (34 + 32) e). rewrite (skipn_add 34 32 e), S34. apply skipn_exact; exact Hy. }
  assert (S67 : skipn 67 e = t67).
  { change (skipn 67 e) with (skipn (66 + 1) e). rewrite (skipn_add 66 1 e), S66. reflexivity. }
  split; [reflexivity|]. split; [reflexivity|].
  split; [rewrite S2; subst t2; apply firstn_exact; exact Hx|].
  split; [rewrite S34; apply firstn_exact; exact Hy|].
  split; [rewrite (nth_skipn 66 e), S66; reflexivity|].
  split; [rewrite S67; subst t67; apply firstn_exact; reflexivity|].
  split.
  { rewrite skipn_add, S67. subst t67. rewrite skipn_exact by reflexivity. apply firstn_exact; reflexivity. }
  split.
  { rewrite !skipn_add, S67. subst t67. rewrite skipn_exact by reflexivity. apply skipn_exact; reflexivity. }
  subst e t2 t67. cbn [length]. rewrite !app_length. cbn [length]. lia.
Qed.

(** the source truncates the key-handle length with [as u8]: beyond 255 bytes (outside the
    property's range) the length byte is the length modulo 256 *)
Lemma register_response_long_key_handle x y kh cert sig :
  nth (2 + length x + length y) (register_response_encode (RegResp (PubKey x y) kh cert sig)) 0
  = N.of_nat (length kh) mod 256.
Proof.
  unfold register_response_encode, public_key_encode.
  cbn [rs_public_key rs_key_handle rs_attestation_certificate rs_signature pk_x pk_y].
  cbn [app]. cbn [Nat.add nth]. rewrite <- app_assoc.
  rewrite app_nth2 by lia. rewrite app_nth2 by lia.
  replace (length x + length y - length x - length y)%nat with 0%nat by lia. reflexivity.
Qed.

Theorem authentication_response_layout presence counter sig :
  authentication_response_encode (AuthResp presence counter sig) =
  [presence] ++ be32 counter ++ sig ++ [144; 0].
Proof. reflexivity. Qed.

Theorem authentication_response_offsets presence counter sig :
  counter < 4294967296 ->
  let e := authentication_response_encode (AuthResp presence counter sig) in
  nth 0 e 0 = presence /\
  be32_dec (nth 1 e 0) (nth 2 e 0) (nth 3 e 0) (nth 4 e 0) = counter /\
  skipn 5 e = sig ++ [144; 0] /\
  length e = (5 + length sig + 2)%nat.
Proof.
  intros Hc e. subst e. rewrite authentication_response_layout. unfold be32. cbn [app nth skipn].
  split; [reflexivity|]. split; [apply be32_round; exact Hc|]. split; [reflexivity|].
  cbn [length]. rewrite app_length. cbn [length]. lia.
Qed.

Theorem version_response_layout : version_encode = [85; 50; 70; 95; 86; 50; 144; 0].
Proof. reflexivity. Qed.

(** every successful response ends with the status word SW_NO_ERROR = 0x9000 *)
Theorem responses_end_with_no_error :
  (forall r, exists body, register_response_encode r = body ++ [144; 0]) /\
  (forall r, exists body, authentication_response_encode r = body ++ [144; 0]) /\
  (exists body, version_encode = body ++ [144; 0]).
Proof.
  split; [|split].
  - intros r. unfold register_response_encode. rewrite sw_no_error_bytes.
    eexists. rewrite !app_assoc. reflexivity.
  - intros r. unfold authentication_response_encode. rewrite sw_no_error_bytes.
    eexists. rewrite !app_assoc. reflexivity.
  - exists U2F_V2. reflexivity.
Qed.

Theorem status_word_values :
  map sw_value all_status_words = [36864; 27013; 27264; 26368; 28160; 27904].
Proof. reflexivity. Qed.
