(** Differential correspondence of [Lib/Base64.v] against passkey-types' encoding functions
    (data-encoding), cases from [driver/libcheck.py]. *)
From PK Require Import Lib.Bytes Lib.Check Lib.Base64.
Open Scope N_scope.

Inductive bcase :=
| BEnc (b : bytes) (url std via_string : bytes)
    (* encoding::base64url, encoding::base64, String::from(Bytes) *)
| BDec (s : bytes) (url any : option bytes).
    (* encoding::try_from_base64url(s), Bytes::try_from(s) *)

Definition agree (c : bcase) : bool :=
  match c with
  | BEnc b url std via =>
      beq (b64url_encode b) url && beq (b64_encode b) std && beq (b64url_encode b) via
      && opt_eqb beq (try_from_base64url url) (Some b)
      && opt_eqb beq (try_from_base64 std) (Some b)
      && opt_eqb beq (bytes_try_from_str (std ++ b64_padding b)) (Some b)
  | BDec s url any =>
      opt_eqb beq (try_from_base64url s) url && opt_eqb beq (bytes_try_from_str s) any
  end.
