(** Laws of the base64 model [Lib/Base64.v]. *)
From Coq Require Import ZArith ZifyBool ZifyNat ZifyN Lia.
From PK Require Import Lib.Bytes Lib.Base64.
Open Scope N_scope.
Ltac Zify.zify_post_hook ::= Z.div_mod_to_equations.

(** induction over a list three elements at a time *)
Lemma list_ind3 {A} (P : list A -> Prop) :
  P [] -> (forall x, P [x]) -> (forall x y, P [x; y]) -> (forall x y z r, P r -> P (x :: y :: z :: r)) ->
  forall l, P l.
Proof.
  intros H0 H1 H2 H3. fix IH 1. intros [|x [|y [|z r]]]; [exact H0|apply H1|apply H2|apply H3, IH].
Qed.

Lemma list_ind4 {A} (P : list A -> Prop) :
  P [] -> (forall x, P [x]) -> (forall x y, P [x; y]) -> (forall x y z, P [x; y; z]) ->
  (forall x y z w r, P r -> P (x :: y :: z :: w :: r)) -> forall l, P l.
Proof.
  intros H0 H1 H2 H3 H4. fix IH 1. intros [|x [|y [|z [|w r]]]]; [exact H0|apply H1|apply H2|apply H3|apply H4, IH].
Qed.

Ltac decide_ifs :=
  repeat match goal with
         | |- context [if ?c then _ else _] =>
             first [replace c with true by lia | replace c with false by lia]
         end.

(** * Characters *)
Lemma b64_val_char url v : v < 64 -> b64_val url (b64_char url v) = Some v.
Proof.
  intros Hv. unfold b64_char.
  destruct (N.ltb_spec v 26); [unfold b64_val; decide_ifs; f_equal; lia|].
  destruct (N.ltb_spec v 52); [unfold b64_val; decide_ifs; f_equal; lia|].
  destruct (N.ltb_spec v 62); [unfold b64_val; decide_ifs; f_equal; lia|].
  destruct (N.eqb_spec v 62); destruct url; unfold b64_val; decide_ifs; f_equal; lia.
Qed.

Lemma b64_val_lt url c v : b64_val url c = Some v -> v < 64.
Proof.
  unfold b64_val.
  destruct ((65 <=? c) && (c <=? 90)) eqn:E1; [intros H; injection H as <-; lia|].
  destruct ((97 <=? c) && (c <=? 122)) eqn:E2; [intros H; injection H as <-; lia|].
  destruct ((48 <=? c) && (c <=? 57)) eqn:E3; [intros H; injection H as <-; lia|].
  destruct (c =? _); [intros H; injection H as <-; lia|].
  destruct (c =? _); [intros H; injection H as <-; lia|discriminate].
Qed.

(** the alphabets: 'A'-'Z' 'a'-'z' '0'-'9' and '-' '_' (url) / '+' '/' (standard) *)
Definition b64_alpha (url : bool) (c : N) : bool :=
  ((65 <=? c) && (c <=? 90)) || ((97 <=? c) && (c <=? 122)) || ((48 <=? c) && (c <=? 57))
  || (c =? (if url then 45 else 43)) || (c =? (if url then 95 else 47)).

Lemma b64_char_alpha url v : v < 64 -> b64_alpha url (b64_char url v) = true.
Proof.
  intros Hv. unfold b64_char, b64_alpha.
  destruct (N.ltb_spec v 26); [lia|]. destruct (N.ltb_spec v 52); [lia|]. destruct (N.ltb_spec v 62); [lia|].
  destruct (N.eqb_spec v 62); destruct url; lia.
Qed.

Lemma b64_alpha_not_pad url c : b64_alpha url c = true -> c <> 61.
Proof. intros H ->. destruct url; discriminate. Qed.

(** the standard alphabet read with the url table: same value or not a symbol *)
Lemma b64_val_cross v : v < 64 ->
  b64_val true (b64_char false v) = Some v \/ b64_val true (b64_char false v) = None.
Proof.
  intros Hv. unfold b64_char.
  destruct (N.ltb_spec v 26); [left; unfold b64_val; decide_ifs; f_equal; lia|].
  destruct (N.ltb_spec v 52); [left; unfold b64_val; decide_ifs; f_equal; lia|].
  destruct (N.ltb_spec v 62); [left; unfold b64_val; decide_ifs; f_equal; lia|].
  right. destruct (N.eqb_spec v 62); reflexivity.
Qed.

(** * Sextets *)
Lemma sextets_lt b : bytes_ok b -> Forall (fun v => v < 64) (b64_sextets b).
Proof.
  unfold bytes_ok, byte_ok. induction b as [|x|x y|x y z r IH] using list_ind3; intros H; cbn [b64_sextets].
  - constructor.
  - inversion_clear H as [|? ? Hx _]. repeat constructor; lia.
  - inversion_clear H as [|? ? Hx H']. inversion_clear H' as [|? ? Hy _]. repeat constructor; lia.
  - inversion_clear H as [|? ? Hx H']. inversion_clear H' as [|? ? Hy H'']. inversion_clear H'' as [|? ? Hz Hr].
    repeat (constructor; [lia|]). apply IH, Hr.
Qed.

Lemma unsextets_sextets check b : bytes_ok b -> b64_unsextets check (b64_sextets b) = Some b.
Proof.
  unfold bytes_ok, byte_ok. induction b as [|x|x y|x y z r IH] using list_ind3; intros H; cbn [b64_sextets b64_unsextets].
  - reflexivity.
  - inversion_clear H as [|? ? Hx _].
    replace (check && negb (x mod 4 * 16 mod 16 =? 0)) with false by (destruct check; lia).
    do 2 f_equal. lia.
  - inversion_clear H as [|? ? Hx H']. inversion_clear H' as [|? ? Hy _].
    replace (check && negb (y mod 16 * 4 mod 4 =? 0)) with false by (destruct check; lia).
    f_equal. f_equal; [lia|]. f_equal. lia.
  - inversion_clear H as [|? ? Hx H']. inversion_clear H' as [|? ? Hy H'']. inversion_clear H'' as [|? ? Hz Hr].
    rewrite (IH Hr). f_equal. f_equal; [lia|]. f_equal; [lia|]. f_equal. lia.
Qed.

Lemma sextets_length b : length (b64_sextets b) = ((4 * length b + 2) / 3)%nat.
Proof.
  induction b as [|x|x y|x y z r IH] using list_ind3; cbn [b64_sextets length]; try reflexivity.
  rewrite IH. lia.
Qed.

Lemma values_chars url v : Forall (fun x => x < 64) v -> b64_values url (map (b64_char url) v) = Some v.
Proof.
  induction 1 as [|x v Hx _ IH]; cbn [map b64_values]; [reflexivity|].
  rewrite (b64_val_char url x Hx), IH. reflexivity.
Qed.

Lemma values_cross v : Forall (fun x => x < 64) v ->
  b64_values true (map (b64_char false) v) = Some v \/ b64_values true (map (b64_char false) v) = None.
Proof.
  induction 1 as [|x v Hx _ IH]; cbn [map b64_values]; [left; reflexivity|].
  destruct (b64_val_cross x Hx) as [-> | ->]; [|right; reflexivity].
  destruct IH as [-> | ->]; [left|right]; reflexivity.
Qed.

Lemma values_lt url : forall s v, b64_values url s = Some v -> Forall (fun x => x < 64) v.
Proof.
  induction s as [|c s IH]; intros v H; cbn [b64_values] in H.
  - injection H as <-. constructor.
  - destruct (b64_val url c) as [x|] eqn:E; [|discriminate].
    destruct (b64_values url s) as [t|]; [|discriminate]. injection H as <-.
    constructor; [apply (b64_val_lt _ _ _ E)|apply IH; reflexivity].
Qed.

Lemma unsextets_ok check : forall v b, Forall (fun x => x < 64) v -> b64_unsextets check v = Some b -> bytes_ok b.
Proof.
  unfold bytes_ok, byte_ok.
  induction v as [|a|a b0|a b0 c|a b0 c d r IH] using list_ind4; intros b Hv H; cbn [b64_unsextets] in H.
  - injection H as <-. constructor.
  - discriminate.
  - inversion_clear Hv as [|? ? Ha H']. inversion_clear H' as [|? ? Hb _].
    destruct (check && _); [discriminate|]. injection H as <-. repeat constructor; lia.
  - inversion_clear Hv as [|? ? Ha H']. inversion_clear H' as [|? ? Hb H'']. inversion_clear H'' as [|? ? Hc _].
    destruct (check && _); [discriminate|]. injection H as <-. repeat constructor; lia.
  - inversion_clear Hv as [|? ? Ha H']. inversion_clear H' as [|? ? Hb H''].
    inversion_clear H'' as [|? ? Hc H3]. inversion_clear H3 as [|? ? Hd Hr].
    destruct (b64_unsextets check r) as [t|] eqn:E; [|discriminate]. injection H as <-.
    repeat (constructor; [lia|]). apply (IH t Hr eq_refl).
Qed.

(** strict decoding implies lenient decoding *)
Lemma unsextets_check_lenient : forall v b, b64_unsextets true v = Some b -> b64_unsextets false v = Some b.
Proof.
  induction v as [|a|a b0|a b0 c|a b0 c d r IH] using list_ind4; intros b H; cbn [b64_unsextets andb] in *; try exact H.
  - destruct (negb _); [discriminate|exact H].
  - destruct (negb _); [discriminate|exact H].
  - destruct (b64_unsextets true r) as [t|]; [|discriminate]. rewrite (IH t eq_refl). exact H.
Qed.

(** * Padding *)
Lemma strip_pad_repeat k : strip_pad (repeat 61 k) = [].
Proof. induction k as [|k IH]; cbn [repeat strip_pad]; [reflexivity|]. rewrite IH. reflexivity. Qed.

Lemma strip_pad_app_pad s k : strip_pad (s ++ repeat 61 k) = strip_pad s.
Proof.
  induction s as [|c s IH]; cbn [app strip_pad]; [apply strip_pad_repeat|]. rewrite IH. reflexivity.
Qed.

Lemma strip_pad_id s : Forall (fun c => c <> 61) s -> strip_pad s = s.
Proof.
  induction 1 as [|c s Hc _ IH]; cbn [strip_pad]; [reflexivity|]. rewrite IH.
  destruct s; [|reflexivity]. destruct (N.eqb_spec c 61); [contradiction|reflexivity].
Qed.

Lemma encode_alpha url b : bytes_ok b -> Forall (fun c => b64_alpha url c = true) (b64_encode_gen url b).
Proof.
  intros H. unfold b64_encode_gen. apply Forall_map. eapply Forall_impl; [|apply (sextets_lt b H)].
  intros v Hv. apply b64_char_alpha, Hv.
Qed.

Lemma encode_no_pad url b : bytes_ok b -> Forall (fun c => c <> 61) (b64_encode_gen url b).
Proof. intros H. eapply Forall_impl; [|apply (encode_alpha url b H)]. intros c. apply b64_alpha_not_pad. Qed.

Lemma encode_length url b : length (b64_encode_gen url b) = ((4 * length b + 2) / 3)%nat.
Proof. unfold b64_encode_gen. rewrite map_length. apply sextets_length. Qed.

Lemma strip_encode url b k : bytes_ok b -> strip_pad (b64_encode_gen url b ++ repeat 61 k) = b64_encode_gen url b.
Proof. intros H. rewrite strip_pad_app_pad. apply strip_pad_id, encode_no_pad, H. Qed.

(** * Round trips (with any number of trailing '=', in particular none and the canonical padding) *)
Theorem b64_gen_round url check b k : bytes_ok b ->
  b64_decode_gen url check (b64_encode_gen url b ++ repeat 61 k) = Some b.
Proof.
  intros H. unfold b64_decode_gen. rewrite (strip_encode url b k H). unfold b64_encode_gen.
  rewrite (values_chars url _ (sextets_lt b H)). apply unsextets_sextets, H.
Qed.

Theorem b64url_round b : bytes_ok b -> b64url_decode (b64url_encode b) = Some b.
Proof. intros H. rewrite <- (app_nil_r (b64url_encode b)). apply (b64_gen_round true false b 0 H). Qed.

Theorem b64_round b : bytes_ok b -> b64_decode (b64_encode b) = Some b.
Proof. intros H. rewrite <- (app_nil_r (b64_encode b)). apply (b64_gen_round false true b 0 H). Qed.

Theorem b64url_round_padded b k : bytes_ok b -> try_from_base64url (b64url_encode b ++ repeat 61 k) = Some b.
Proof. apply (b64_gen_round true false). Qed.

Theorem b64_round_padded b k : bytes_ok b -> try_from_base64 (b64_encode b ++ repeat 61 k) = Some b.
Proof. apply (b64_gen_round false true). Qed.

(** output alphabet, no padding character, length *)
Theorem b64url_encode_alphabet b : bytes_ok b -> Forall (fun c => b64_alpha true c = true) (b64url_encode b).
Proof. apply encode_alpha. Qed.
Theorem b64_encode_alphabet b : bytes_ok b -> Forall (fun c => b64_alpha false c = true) (b64_encode b).
Proof. apply encode_alpha. Qed.
Theorem b64url_encode_no_pad b : bytes_ok b -> ~ In 61 (b64url_encode b).
Proof. intros H Hin. pose proof (encode_no_pad true b H) as F. rewrite Forall_forall in F. apply (F 61 Hin). reflexivity. Qed.
Theorem b64_encode_no_pad b : bytes_ok b -> ~ In 61 (b64_encode b).
Proof. intros H Hin. pose proof (encode_no_pad false b H) as F. rewrite Forall_forall in F. apply (F 61 Hin). reflexivity. Qed.
Theorem b64url_encode_length b : length (b64url_encode b) = ((4 * length b + 2) / 3)%nat.
Proof. apply encode_length. Qed.
Theorem b64_encode_length b : length (b64_encode b) = ((4 * length b + 2) / 3)%nat.
Proof. apply encode_length. Qed.
Theorem b64_encode_bytes_ok url b : bytes_ok b -> bytes_ok (b64_encode_gen url b).
Proof.
  intros H. eapply Forall_impl; [|apply (encode_alpha url b H)]. intros c Hc. unfold byte_ok, b64_alpha in *.
  destruct url; lia.
Qed.

(** decoders return bytes *)
Theorem b64_decode_gen_ok url check s b : b64_decode_gen url check s = Some b -> bytes_ok b.
Proof.
  unfold b64_decode_gen. destruct (b64_values url (strip_pad s)) as [v|] eqn:E; [|discriminate].
  apply unsextets_ok, (values_lt _ _ _ E).
Qed.

(** * [Bytes::try_from(&str)]: url first, then standard.  Every presentation of [b] the repo or a
    relying party may produce parses back to [b]: base64url or standard base64, unpadded, padded
    canonically, or followed by any number of '='.  (A standard-alphabet string without '+' and '/'
    is taken by the url decoder, one with '+' or '/' falls through to the standard decoder: same bytes.) *)
Theorem bytes_try_from_url b k : bytes_ok b -> bytes_try_from_str (b64url_encode b ++ repeat 61 k) = Some b.
Proof. intros H. unfold bytes_try_from_str. rewrite (b64url_round_padded b k H). reflexivity. Qed.

Theorem bytes_try_from_std b k : bytes_ok b -> bytes_try_from_str (b64_encode b ++ repeat 61 k) = Some b.
Proof.
  intros H. unfold bytes_try_from_str. rewrite (b64_round_padded b k H).
  unfold try_from_base64url, b64_decode_gen, b64_encode. rewrite (strip_encode false b k H). unfold b64_encode_gen.
  destruct (values_cross _ (sextets_lt b H)) as [-> | ->]; [|reflexivity].
  rewrite (unsextets_sextets false b H). reflexivity.
Qed.

Corollary bytes_try_from_url_unpadded b : bytes_ok b -> bytes_try_from_str (b64url_encode b) = Some b.
Proof. intros H. rewrite <- (app_nil_r (b64url_encode b)). apply (bytes_try_from_url b 0 H). Qed.

Corollary bytes_try_from_std_unpadded b : bytes_ok b -> bytes_try_from_str (b64_encode b) = Some b.
Proof. intros H. rewrite <- (app_nil_r (b64_encode b)). apply (bytes_try_from_std b 0 H). Qed.

Lemma b64_padding_repeat b : exists k, b64_padding b = repeat 61 k.
Proof.
  unfold b64_padding. destruct (length b mod 3)%nat as [|[|[|n]]];
    [exists 0%nat|exists 2%nat|exists 1%nat|exists 0%nat]; reflexivity.
Qed.

Corollary bytes_try_from_std_padded b : bytes_ok b -> bytes_try_from_str (b64_encode b ++ b64_padding b) = Some b.
Proof. intros H. destruct (b64_padding_repeat b) as [k ->]. apply (bytes_try_from_std b k H). Qed.

Corollary bytes_try_from_url_padded b : bytes_ok b -> bytes_try_from_str (b64url_encode b ++ b64_padding b) = Some b.
Proof. intros H. destruct (b64_padding_repeat b) as [k ->]. apply (bytes_try_from_url b k H). Qed.

Theorem bytes_try_from_ok s b : bytes_try_from_str s = Some b -> bytes_ok b.
Proof.
  unfold bytes_try_from_str. destruct (try_from_base64url s) as [b'|] eqn:E.
  - intros H. injection H as <-. apply (b64_decode_gen_ok _ _ _ _ E).
  - apply b64_decode_gen_ok.
Qed.

(** whatever the standard decoder accepts over the shared characters, the url decoder accepts with the same result *)
Theorem std_then_url_same s b b' : try_from_base64 s = Some b -> try_from_base64url s = Some b' -> b = b'.
Proof.
  unfold try_from_base64, try_from_base64url, b64_decode_gen.
  destruct (b64_values false (strip_pad s)) as [v|] eqn:E1; [|discriminate].
  destruct (b64_values true (strip_pad s)) as [v'|] eqn:E2; [|discriminate].
  assert (v = v').
  { revert v v' E1 E2. generalize (strip_pad s) as t. induction t as [|c t IH]; intros v v' E1 E2; cbn [b64_values] in *.
    - congruence.
    - destruct (b64_val false c) as [x|] eqn:X1; [|discriminate]. destruct (b64_values false t) as [w|]; [|discriminate].
      destruct (b64_val true c) as [x'|] eqn:X2; [|discriminate]. destruct (b64_values true t) as [w'|]; [|discriminate].
      injection E1 as <-. injection E2 as <-. f_equal; [|apply IH; reflexivity].
      unfold b64_val in X1, X2.
      destruct ((65 <=? c) && (c <=? 90)); [congruence|]. destruct ((97 <=? c) && (c <=? 122)); [congruence|].
      destruct ((48 <=? c) && (c <=? 57)); [congruence|].
      destruct (N.eqb_spec c 43); destruct (N.eqb_spec c 45); destruct (N.eqb_spec c 47); destruct (N.eqb_spec c 95);
        try lia; try discriminate; congruence. }
  subst v'. intros H1 H2. apply unsextets_check_lenient in H1. congruence.
Qed.

(** * Leniency (the decoders are not injective): examples, evaluated *)
Example lenient_trailing_bits : try_from_base64url [81; 82] (* "QR" *) = Some [65] /\ try_from_base64url [81; 81] (* "QQ" *) = Some [65].
Proof. split; reflexivity. Qed.
Example strict_trailing_bits : try_from_base64 [81; 82] = None /\ try_from_base64 [81; 81] = Some [65].
Proof. split; reflexivity. Qed.
Example bytes_takes_url_first : bytes_try_from_str [81; 82] = Some [65].
Proof. reflexivity. Qed.
Example any_number_of_pads : try_from_base64url [81; 81; 61; 61; 61; 61; 61] = Some [65].
Proof. reflexivity. Qed.
Example mixed_alphabets_rejected : bytes_try_from_str [43; 45; 65; 65] (* "+-AA" *) = None.
Proof. reflexivity. Qed.
Example length_1_mod_4_rejected : bytes_try_from_str [65] = None /\ bytes_try_from_str [65; 65; 65; 65; 65] = None.
Proof. split; reflexivity. Qed.
