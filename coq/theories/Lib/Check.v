(** Helpers for generated case files: indices of the cases on which a boolean check fails. *)
From Coq Require Import List NArith Bool.
Import ListNotations.
Open Scope N_scope.

Fixpoint failing_from {A} (i : N) (f : A -> bool) (l : list A) : list N :=
  match l with
  | [] => []
  | x :: r => if f x then failing_from (i + 1) f r else i :: failing_from (i + 1) f r
  end.
Definition failing {A} (f : A -> bool) (l : list A) : list N := failing_from 0 f l.

Definition count_true {A} (f : A -> bool) (l : list A) : N :=
  fold_left (fun acc x => if f x then acc + 1 else acc) l 0.

Lemma failing_from_nil {A} (f : A -> bool) l i :
  failing_from i f l = [] <-> forallb f l = true.
Proof.
  revert i; induction l as [|x r IH]; intros i; cbn [failing_from forallb]; [tauto|].
  destruct (f x); cbn [andb]; [apply IH|split; discriminate].
Qed.

Definition opt_eqb {A} (e : A -> A -> bool) (a b : option A) : bool :=
  match a, b with
  | None, None => true
  | Some x, Some y => e x y
  | _, _ => false
  end.

Fixpoint list_eqb {A} (e : A -> A -> bool) (a b : list A) : bool :=
  match a, b with
  | [], [] => true
  | x :: a', y :: b' => e x y && list_eqb e a' b'
  | _, _ => false
  end.
