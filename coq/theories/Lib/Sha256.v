(** SHA-256 (FIPS 180-4, sections 4.1.2, 4.2.2, 5.1.1, 5.3.3, 6.2) over byte lists, executable under
    [vm_compute].  Words are [N] below 2^32; every addition is reduced with [N.land _ (2^32-1)]
    (= mod 2^32), rotations and shifts are [N.shiftr]/[N.shiftl] + mask.
    This file is the *meaning* of "SHA-256" in the property statements; it is validated by the
    NIST example vectors below (evaluated by the kernel) and, on every run, against the crate
    [sha2] (driver/libcheck.py [check_hash], plus every hashed value of the property checks). *)
From Coq Require Import ZArith ZifyBool ZifyNat ZifyN Lia.
From PK Require Export Lib.Bytes.
Open Scope N_scope.
Local Ltac Zify.zify_post_hook ::= Z.div_mod_to_equations.   (* local: importers keep their own lia set-up *)

Definition M32 : N := 0xffffffff.
Definition add32 (a b : N) : N := N.land (a + b) M32.
Definition rotr (n x : N) : N := N.lor (N.shiftr x n) (N.land (N.shiftl x (32 - n)) M32).
Definition shr (n x : N) : N := N.shiftr x n.
Definition not32 (x : N) : N := N.lxor x M32.

(** 4.1.2 *)
Definition Ch (x y z : N) : N := N.lxor (N.land x y) (N.land (not32 x) z).
Definition Maj (x y z : N) : N := N.lxor (N.lxor (N.land x y) (N.land x z)) (N.land y z).
Definition BSig0 (x : N) : N := N.lxor (N.lxor (rotr 2 x) (rotr 13 x)) (rotr 22 x).
Definition BSig1 (x : N) : N := N.lxor (N.lxor (rotr 6 x) (rotr 11 x)) (rotr 25 x).
Definition SSig0 (x : N) : N := N.lxor (N.lxor (rotr 7 x) (rotr 18 x)) (shr 3 x).
Definition SSig1 (x : N) : N := N.lxor (N.lxor (rotr 17 x) (rotr 19 x)) (shr 10 x).

(** 4.2.2: first 32 bits of the fractional parts of the cube roots of the first 64 primes *)
Definition K256 : list N := [
  0x428a2f98; 0x71374491; 0xb5c0fbcf; 0xe9b5dba5; 0x3956c25b; 0x59f111f1; 0x923f82a4; 0xab1c5ed5;
  0xd807aa98; 0x12835b01; 0x243185be; 0x550c7dc3; 0x72be5d74; 0x80deb1fe; 0x9bdc06a7; 0xc19bf174;
  0xe49b69c1; 0xefbe4786; 0x0fc19dc6; 0x240ca1cc; 0x2de92c6f; 0x4a7484aa; 0x5cb0a9dc; 0x76f988da;
  0x983e5152; 0xa831c66d; 0xb00327c8; 0xbf597fc7; 0xc6e00bf3; 0xd5a79147; 0x06ca6351; 0x14292967;
  0x27b70a85; 0x2e1b2138; 0x4d2c6dfc; 0x53380d13; 0x650a7354; 0x766a0abb; 0x81c2c92e; 0x92722c85;
  0xa2bfe8a1; 0xa81a664b; 0xc24b8b70; 0xc76c51a3; 0xd192e819; 0xd6990624; 0xf40e3585; 0x106aa070;
  0x19a4c116; 0x1e376c08; 0x2748774c; 0x34b0bcb5; 0x391c0cb3; 0x4ed8aa4a; 0x5b9cca4f; 0x682e6ff3;
  0x748f82ee; 0x78a5636f; 0x84c87814; 0x8cc70208; 0x90befffa; 0xa4506ceb; 0xbef9a3f7; 0xc67178f2].

(** 5.3.3: first 32 bits of the fractional parts of the square roots of the first 8 primes *)
Definition state : Type := (N * N * N * N * N * N * N * N)%type.
Definition H0 : state :=
  (0x6a09e667, 0xbb67ae85, 0x3c6ef372, 0xa54ff53a, 0x510e527f, 0x9b05688c, 0x1f83d9ab, 0x5be0cd19).

(** 5.1.1 padding: 0x80, zeros up to 56 mod 64, the bit length as 64-bit big-endian *)
Definition be64 (n : N) : bytes :=
  [n / 72057594037927936 mod 256; n / 281474976710656 mod 256; n / 1099511627776 mod 256; n / 4294967296 mod 256;
   n / 16777216 mod 256; n / 65536 mod 256; n / 256 mod 256; n mod 256].

Definition pad_zeros (len : N) : nat :=
  let l := len mod 64 in N.to_nat (if l <? 56 then 55 - l else 119 - l).

Definition sha_pad (m : bytes) : bytes :=
  let len := N.of_nat (length m) in
  m ++ 128 :: repeat 0 (pad_zeros len) ++ be64 (8 * len).

(** 5.2.1: big-endian 32-bit words *)
Fixpoint words_of (b : bytes) : list N :=
  match b with
  | x :: y :: z :: w :: r => (x * 16777216 + y * 65536 + z * 256 + w) :: words_of r
  | _ => []
  end.

(** 6.2.2 steps 1-3 fused: the message schedule is kept as a sliding window of 16 words
    (oldest first); round t uses the head as W_t and appends W_{t+16}. *)
Fixpoint rounds (ks : list N) (w : list N) (st : state) : state :=
  match ks with
  | [] => st
  | k :: ks' =>
      match w with
      | [w0; w1; w2; w3; w4; w5; w6; w7; w8; w9; w10; w11; w12; w13; w14; w15] =>
          let '(a, b, c, d, e, f, g, h) := st in
          let t1 := add32 (add32 (add32 (add32 h (BSig1 e)) (Ch e f g)) k) w0 in
          let t2 := add32 (BSig0 a) (Maj a b c) in
          let wn := add32 (add32 (add32 (SSig1 w14) w9) (SSig0 w1)) w0 in
          rounds ks' [w1; w2; w3; w4; w5; w6; w7; w8; w9; w10; w11; w12; w13; w14; w15; wn]
                 (add32 t1 t2, a, b, c, add32 d t1, e, f, g)
      | _ => st       (* not a 16-word block: unreachable from [sha256] *)
      end
  end.

(** 6.2.2 step 4 *)
Definition compress (st : state) (block : bytes) : state :=
  let '(a, b, c, d, e, f, g, h) := st in
  let '(a', b', c', d', e', f', g', h') := rounds K256 (words_of block) st in
  (add32 a a', add32 b b', add32 c c', add32 d d', add32 e e', add32 f f', add32 g g', add32 h h').

Fixpoint blocks (n : nat) (m : bytes) (st : state) : state :=
  match n with
  | O => st
  | S n' => blocks n' (skipn 64 m) (compress st (firstn 64 m))
  end.

Definition digest_of (st : state) : bytes :=
  let '(a, b, c, d, e, f, g, h) := st in
  be32 a ++ be32 b ++ be32 c ++ be32 d ++ be32 e ++ be32 f ++ be32 g ++ be32 h.

Definition sha256 (m : bytes) : bytes :=
  let p := sha_pad m in
  digest_of (blocks (length p / 64) p H0).

(** * Facts *)
Lemma digest_length st : length (digest_of st) = 32%nat.
Proof. destruct st as [[[[[[[a b] c] d] e] f] g] h]. reflexivity. Qed.

Lemma be32_ok n : bytes_ok (be32 n).
Proof. unfold be32. repeat (constructor; [apply mod256_ok|]). constructor. Qed.

Lemma digest_ok st : bytes_ok (digest_of st).
Proof.
  destruct st as [[[[[[[a b] c] d] e] f] g] h]. unfold digest_of.
  repeat (apply bytes_ok_app; split; [apply be32_ok|]). apply be32_ok.
Qed.

Lemma sha256_length m : length (sha256 m) = 32%nat.
Proof. apply digest_length. Qed.

Lemma sha256_ok m : bytes_ok (sha256 m).
Proof. apply digest_ok. Qed.

(** the padded message is a whole number of 64-byte blocks, so [blocks] sees all of it *)
Lemma sha_pad_length m : N.of_nat (length (sha_pad m)) mod 64 = 0.
Proof.
  unfold sha_pad, pad_zeros. rewrite app_length. cbn [length]. rewrite app_length, repeat_length.
  change (length (be64 _)) with 8%nat.
  destruct (N.ltb_spec (N.of_nat (length m) mod 64) 56); lia.
Qed.

(** * NIST example vectors (FIPS 180-2 appendix B / the SHA examples document), checked by the kernel *)
Example sha_abc : sha256 [97; 98; 99]
  = [186; 120; 22; 191; 143; 1; 207; 234; 65; 65; 64; 222; 93; 174; 34; 35; 176; 3; 97; 163; 150; 23; 122; 156; 180; 16; 255; 97; 242; 0; 21; 173].
Proof. vm_compute. reflexivity. Qed.

Example sha_empty : sha256 []
  = [227; 176; 196; 66; 152; 252; 28; 20; 154; 251; 244; 200; 153; 111; 185; 36; 39; 174; 65; 228; 100; 155; 147; 76; 164; 149; 153; 27; 120; 82; 184; 85].
Proof. vm_compute. reflexivity. Qed.

Example sha_448 : sha256 [97; 98; 99; 100; 98; 99; 100; 101; 99; 100; 101; 102; 100; 101; 102; 103; 101; 102; 103; 104; 102; 103; 104; 105; 103; 104; 105; 106; 104; 105; 106; 107; 105; 106; 107; 108; 106; 107; 108; 109; 107; 108; 109; 110; 108; 109; 110; 111; 109; 110; 111; 112; 110; 111; 112; 113]
  = [36; 141; 106; 97; 210; 6; 56; 184; 229; 192; 38; 147; 12; 62; 96; 57; 163; 60; 228; 89; 100; 255; 33; 103; 246; 236; 237; 212; 25; 219; 6; 193].
Proof. vm_compute. reflexivity. Qed.

Example sha_896 : sha256 [97; 98; 99; 100; 101; 102; 103; 104; 98; 99; 100; 101; 102; 103; 104; 105; 99; 100; 101; 102; 103; 104; 105; 106; 100; 101; 102; 103; 104; 105; 106; 107; 101; 102; 103; 104; 105; 106; 107; 108; 102; 103; 104; 105; 106; 107; 108; 109; 103; 104; 105; 106; 107; 108; 109; 110; 104; 105; 106; 107; 108; 109; 110; 111; 105; 106; 107; 108; 109; 110; 111; 112; 106; 107; 108; 109; 110; 111; 112; 113; 107; 108; 109; 110; 111; 112; 113; 114; 108; 109; 110; 111; 112; 113; 114; 115; 109; 110; 111; 112; 113; 114; 115; 116; 110; 111; 112; 113; 114; 115; 116; 117]
  = [207; 91; 22; 167; 120; 175; 131; 128; 3; 108; 229; 158; 123; 4; 146; 55; 11; 36; 155; 17; 232; 240; 122; 81; 175; 172; 69; 3; 122; 254; 233; 209].
Proof. vm_compute. reflexivity. Qed.

