(** Bytes: [list N] with every element < 256; big/little-endian integers;
    a compact literal form ([hexN]) used by generated case files. *)
From Coq Require Export List NArith Bool Arith Lia.
Export ListNotations.
Open Scope N_scope.

Definition byte := N.
Definition bytes := list N.

Definition byte_ok (b : N) : Prop := b < 256.
Definition bytes_ok (l : bytes) : Prop := Forall byte_ok l.
Definition byte_okb (b : N) : bool := b <? 256.
Definition bytes_okb (l : bytes) : bool := forallb byte_okb l.

Lemma bytes_okb_spec l : bytes_okb l = true <-> bytes_ok l.
Proof.
  unfold bytes_okb, bytes_ok. rewrite forallb_forall, Forall_forall.
  split; intros H x Hx; specialize (H x Hx); unfold byte_okb, byte_ok in *;
    [apply N.ltb_lt|apply N.ltb_lt]; exact H.
Qed.

Lemma bytes_ok_app a b : bytes_ok (a ++ b) <-> bytes_ok a /\ bytes_ok b.
Proof. unfold bytes_ok. apply Forall_app. Qed.

Lemma bytes_ok_firstn n l : bytes_ok l -> bytes_ok (firstn n l).
Proof.
  unfold bytes_ok. rewrite !Forall_forall. intros H x Hx. apply H.
  eapply In_nth_error in Hx as [k Hk]. rewrite <- (firstn_skipn n l).
  apply in_or_app. left. eapply nth_error_In; eauto.
Qed.

Lemma bytes_ok_skipn n l : bytes_ok l -> bytes_ok (skipn n l).
Proof.
  unfold bytes_ok. rewrite !Forall_forall. intros H x Hx. apply H.
  rewrite <- (firstn_skipn n l). apply in_or_app. right. exact Hx.
Qed.

Lemma bytes_ok_repeat0 n : bytes_ok (repeat 0 n).
Proof. unfold bytes_ok. apply Forall_forall. intros x Hx. apply repeat_spec in Hx. subst. reflexivity. Qed.

(** byte-list equality as a boolean *)
Fixpoint beq (a b : bytes) : bool :=
  match a, b with
  | [], [] => true
  | x :: a', y :: b' => (x =? y) && beq a' b'
  | _, _ => false
  end.

Lemma beq_eq a b : beq a b = true <-> a = b.
Proof.
  revert b; induction a as [|x a IH]; intros [|y b]; cbn [beq]; try (split; congruence).
  rewrite andb_true_iff, N.eqb_eq, IH. split; [intros [-> ->]; reflexivity|intros H; inversion H; auto].
Qed.

Lemma beq_refl a : beq a a = true.
Proof. apply beq_eq; reflexivity. Qed.

(** integers *)
Definition be16 (n : N) : bytes := [n / 256 mod 256; n mod 256].
Definition be16_dec (hi lo : N) : N := hi * 256 + lo.
Definition be32 (n : N) : bytes := [n / 16777216 mod 256; n / 65536 mod 256; n / 256 mod 256; n mod 256].
Definition le32 (n : N) : bytes := [n mod 256; n / 256 mod 256; n / 65536 mod 256; n / 16777216 mod 256].
Definition be32_dec (a b c d : N) : N := a * 16777216 + b * 65536 + c * 256 + d.
Definition le32_dec (a b c d : N) : N := be32_dec d c b a.

Lemma be16_round n : n < 65536 -> be16_dec (n / 256 mod 256) (n mod 256) = n.
Proof. intros H. unfold be16_dec. rewrite N.mod_small by (apply N.div_lt_upper_bound; lia).
  pose proof (N.div_mod n 256). lia. Qed.

Lemma le32_round n : n < 4294967296 ->
  le32_dec (n mod 256) (n / 256 mod 256) (n / 65536 mod 256) (n / 16777216 mod 256) = n.
Proof.
  intros H. unfold le32_dec, be32_dec.
  pose proof (N.div_mod n 256 ltac:(lia)) as E0.
  pose proof (N.div_mod (n / 256) 256 ltac:(lia)) as E1.
  pose proof (N.div_mod (n / 256 / 256) 256 ltac:(lia)) as E2.
  rewrite N.div_div in E1, E2 by lia. rewrite N.div_div in E2 by lia.
  change (256 * 256) with 65536 in *. change (65536 * 256) with 16777216 in *.
  assert (n / 16777216 < 256) by (apply N.div_lt_upper_bound; lia).
  rewrite (N.mod_small (n / 16777216)) by assumption. lia.
Qed.

Lemma be32_round n : n < 4294967296 ->
  be32_dec (n / 16777216 mod 256) (n / 65536 mod 256) (n / 256 mod 256) (n mod 256) = n.
Proof. intros H. apply le32_round in H. exact H. Qed.

Lemma mod256_ok n : byte_ok (n mod 256).
Proof. unfold byte_ok. apply N.mod_lt. lia. Qed.

(** Compact byte-string literal for generated case files: the hex digits of the
    bytes prefixed by the nibble 1, read as one number ([0x1aabbcc] = [aa;bb;cc]).
    Parsing one big numeral is far cheaper for coqc than a long list literal. *)
Fixpoint hexN_pos (fuel : nat) (p : N) (acc : bytes) : bytes :=
  match fuel with
  | O => acc
  | S f => if p <=? 1 then acc else hexN_pos f (p / 256) ((p mod 256) :: acc)
  end.
Definition hexN (n : N) : bytes := hexN_pos (S (N.to_nat (N.log2 n) / 8)) n [].

Example hexN_ex : hexN 0x100ff0a = [0; 255; 10].
Proof. reflexivity. Qed.
Example hexN_empty : hexN 0x1 = [].
Proof. reflexivity. Qed.
