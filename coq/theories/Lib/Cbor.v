(** CBOR (RFC 8949 subset) as spoken by the crate [ciborium] 0.2.2 / [ciborium-ll] 0.2.2.

    This file is the executable model only (no proofs; they are in [CborFacts.v]).
    It is a *specification* of the third-party crate, tied to it by the differential
    correspondence in [CborCheck.v] / [driver/libcheck.py].

    - [cbor_encode v]  = the bytes [ciborium::ser::into_writer(&Value, ..)] emits for the
      [ciborium::Value] that [v] denotes: shortest-form heads, definite lengths only, map
      entries in the given order, integers in -2^64 .. 2^64-1 as major type 0/1.
    - [cbor_decode fuel b] = what [ciborium::de::from_reader::<Value>(b)] returns, as
      [Some (value, unread rest)], or [None] where ciborium returns any [Err].  [fuel] plays the
      role of ciborium's recursion limit: [cbor_fuel] (= 257) is exactly the limit 256 of
      [from_reader]; every array, map and (non-bignum) tag uses up one level.

    What ciborium accepts beyond what it emits, all of it modelled here (read from
    ciborium-ll/src/{hdr,dec,seg}.rs and ciborium/src/de/mod.rs, value/de.rs, value/mod.rs):
    - non-shortest heads (additional info 24..27 carrying small numbers), for every major type,
      *including simple values*: [f8 14] is accepted as [false], [f8 16]/[f8 17] as null;
    - additional info 28..30 is rejected; 31 is rejected on major types 0, 1, 6;
    - indefinite-length arrays and maps (terminated by the byte [ff]);
    - indefinite-length byte/text strings, the chunks concatenated.  Chunks must be of the same
      major type; each text chunk must be valid UTF-8 on its own.  ciborium additionally accepts
      *nested* indefinite strings ([5f 5f 41 00 ff ff], which RFC 8949 forbids) by keeping a
      nesting counter; the model does the same ([dec_chunks]);
    - text must be valid UTF-8 in the sense of Rust's [core::str::from_utf8] ([utf8_valid]:
      no overlong forms, no surrogates, nothing above U+10FFFF);
    - [f6] (null) and [f7] (undefined) both decode to [Value::Null]; every other simple value
      (0..19, 24..255) is an error; a break outside an indefinite container is an error;
    - tag 2 / tag 3 followed by a *definite* byte string of at most 16 bytes is a bignum and is
      normalised: leading zero bytes are dropped; if at most 8 bytes remain the result is an
      *integer* ([c2 41 05] decodes to 5, [c3 41 05] to -6); otherwise the result is the tag with
      the stripped bytes, except that tag 3 with a 16-byte magnitude >= 2^127 is an error
      ("integer too large").  This path does not use a recursion level.  All other tags
      (including 2/3 over longer or indefinite byte strings) are kept as [CTag];
    - floats: all three widths accepted.  The model keeps the width and the raw bits
      ([CFloat width bits], width in bytes: 2, 4 or 8) whereas [ciborium::Value::Float] holds an
      [f64]; [CborCheck.float_to_f64_bits] converts for the comparison.  For floats
      [cbor_encode] emits the width it is given; ciborium emits the shortest width that
      represents the [f64] exactly.  (The repository under verification uses no floats.)
    - trailing bytes after the first item are ignored by [from_reader]; [cbor_decode] returns them.

    Constructors [CUndef] and [CSimple] exist so that clients can talk about those wire forms,
    but [ciborium::Value] cannot represent them: the decoder never produces them and
    [cbor_wf] is [false] on them.

    Outside the model: I/O errors other than end of input; the *kind* of error (every [Err] is
    [None]); byte offsets in errors; inputs with elements >= 256 (not bytes: [None] or garbage);
    32-bit targets (lengths are taken as 64-bit [usize]). *)
From Coq Require Export ZArith.
From PK Require Export Lib.Bytes.
Open Scope N_scope.

Inductive cbor :=
| CInt (z : Z)                       (* major 0 / 1 *)
| CBytes (b : bytes)                 (* major 2 *)
| CText (b : bytes)                  (* major 3; the UTF-8 bytes *)
| CArr (l : list cbor)               (* major 4 *)
| CMap (l : list (cbor * cbor))      (* major 5; entries in wire order, duplicates kept *)
| CTag (t : N) (v : cbor)            (* major 6 *)
| CBool (b : bool)                   (* f4 / f5 *)
| CNull                              (* f6 *)
| CUndef                             (* f7; never produced by [cbor_decode] (ciborium reads it as null) *)
| CSimple (n : N)                    (* other simple values; rejected by ciborium *)
| CFloat (width : N) (bits : N).     (* width in bytes (2, 4, 8) and the raw IEEE 754 bits *)

(** ** Big-endian numbers *)
Fixpoint be_val (acc : N) (b : bytes) : N :=
  match b with
  | [] => acc
  | x :: r => be_val (acc * 256 + x) r
  end.

Fixpoint be_bytes_acc (k : nat) (n : N) (acc : bytes) : bytes :=
  match k with
  | O => acc
  | S k' => be_bytes_acc k' (n / 256) (n mod 256 :: acc)
  end.
(** the [k] low-order bytes of [n], most significant first *)
Definition be_bytes (k : nat) (n : N) : bytes := be_bytes_acc k n [].

(** ** Heads *)
Definition TWO16 : N := 65536.
Definition TWO32 : N := 4294967296.
Definition TWO64 : N := 18446744073709551616.

(** [ciborium_ll::Encoder::push] of a header with major type [mt] and argument [n] (< 2^64) *)
Definition head_encode (mt n : N) : bytes :=
  if n <? 24 then [mt * 32 + n]
  else if n <? 256 then [mt * 32 + 24; n]
  else if n <? TWO16 then (mt * 32 + 25) :: be_bytes 2 n
  else if n <? TWO32 then (mt * 32 + 26) :: be_bytes 4 n
  else (mt * 32 + 27) :: be_bytes 8 n.

(** [take n b]: split off exactly [n] bytes (no [nat] of size [n] is ever built: [n] may be 2^64-1) *)
Fixpoint take (n : N) (b : bytes) {struct b} : option (bytes * bytes) :=
  match n with
  | N0 => Some ([], b)
  | Npos _ =>
      match b with
      | [] => None
      | x :: r =>
          match take (N.pred n) r with
          | Some (a, r') => Some (x :: a, r')
          | None => None
          end
      end
  end.

Inductive harg := ArgN (n : N) | ArgIndef.

(** [Decoder::pull_title]: (major type, additional info, argument, rest). *)
Definition arg_len (ai : N) : N :=
  if ai =? 24 then 1 else if ai =? 25 then 2 else if ai =? 26 then 4 else 8.

Definition head_decode (b : bytes) : option (N * N * harg * bytes) :=
  match b with
  | [] => None
  | x :: r =>
      let mt := x / 32 in
      let ai := x mod 32 in
      if 8 <=? mt then None
      else if ai <? 24 then Some (mt, ai, ArgN ai, r)
      else if ai =? 31 then Some (mt, ai, ArgIndef, r)
      else if 28 <=? ai then None
      else
        match take (arg_len ai) r with
        | Some (a, r') => Some (mt, ai, ArgN (be_val 0 a), r')
        | None => None
        end
  end.

(** ** UTF-8 as accepted by [core::str::from_utf8] (Unicode table 3-7) *)
Definition in_range (lo hi x : N) : bool := (lo <=? x) && (x <=? hi).
Definition utf8_cont (x : N) : bool := in_range 128 191 x.

Fixpoint utf8_valid (b : bytes) : bool :=
  match b with
  | [] => true
  | x :: r =>
      if x <? 128 then utf8_valid r
      else if x <? 194 then false
      else if x <? 224 then
        match r with
        | y :: r1 => utf8_cont y && utf8_valid r1
        | _ => false
        end
      else if x <? 240 then
        match r with
        | y :: z :: r2 =>
            (if x =? 224 then in_range 160 191 y else if x =? 237 then in_range 128 159 y else utf8_cont y)
            && utf8_cont z && utf8_valid r2
        | _ => false
        end
      else if x <? 245 then
        match r with
        | y :: z :: w :: r3 =>
            (if x =? 240 then in_range 144 191 y else if x =? 244 then in_range 128 143 y else utf8_cont y)
            && utf8_cont z && utf8_cont w && utf8_valid r3
        | _ => false
        end
      else false
  end.

(** ** Encoder *)
Definition float_ai (w : N) : N := match w with 2 => 25 | 4 => 26 | _ => 27 end.
Definition float_len (w : N) : nat := match w with 2 => 2%nat | 4 => 4%nat | _ => 8%nat end.

Fixpoint cbor_encode (v : cbor) : bytes :=
  match v with
  | CInt z =>
      match z with
      | Zneg _ => head_encode 1 (Z.to_N (-1 - z)%Z)
      | _ => head_encode 0 (Z.to_N z)
      end
  | CBytes b => head_encode 2 (N.of_nat (length b)) ++ b
  | CText b => head_encode 3 (N.of_nat (length b)) ++ b
  | CArr l => head_encode 4 (N.of_nat (length l)) ++ flat_map cbor_encode l
  | CMap l => head_encode 5 (N.of_nat (length l))
              ++ flat_map (fun kv : cbor * cbor => let (k, x) := kv in cbor_encode k ++ cbor_encode x) l
  | CTag t x => head_encode 6 t ++ cbor_encode x
  | CBool false => [244]
  | CBool true => [245]
  | CNull => [246]
  | CUndef => [247]
  | CSimple n => head_encode 7 n
  | CFloat w bits => (224 + float_ai w) :: be_bytes (float_len w) bits
  end.

(** ** Decoder *)
Definition cbor_fuel : nat := 257.    (* ciborium's [from_reader]: recursion limit 256 *)

(** the break byte [ff] *)
Definition is_break (b : bytes) : option bytes :=
  match b with
  | x :: r => if x =? 255 then Some r else None
  | [] => None
  end.

Section Items.
  Variable d : bytes -> option (cbor * bytes).

  (** [cnt] items of a definite-length array *)
  Fixpoint dec_items (cnt : nat) (b : bytes) : option (list cbor * bytes) :=
    match cnt with
    | O => Some ([], b)
    | S c =>
        match d b with
        | None => None
        | Some (v, r) =>
            match dec_items c r with
            | None => None
            | Some (l, r') => Some (v :: l, r')
            end
        end
    end.

  Fixpoint dec_pairs (cnt : nat) (b : bytes) : option (list (cbor * cbor) * bytes) :=
    match cnt with
    | O => Some ([], b)
    | S c =>
        match d b with
        | None => None
        | Some (k, r) =>
            match d r with
            | None => None
            | Some (v, r1) =>
                match dec_pairs c r1 with
                | None => None
                | Some (l, r') => Some ((k, v) :: l, r')
                end
            end
        end
    end.

  (** items up to the break byte; [k] only bounds the loop ([S (length b)] is always enough,
      every item consumes at least one byte) *)
  Fixpoint dec_items_indef (k : nat) (b : bytes) : option (list cbor * bytes) :=
    match k with
    | O => None
    | S k' =>
        match is_break b with
        | Some r => Some ([], r)
        | None =>
            match d b with
            | None => None
            | Some (v, r) =>
                match dec_items_indef k' r with
                | None => None
                | Some (l, r') => Some (v :: l, r')
                end
            end
        end
    end.

  Fixpoint dec_pairs_indef (k : nat) (b : bytes) : option (list (cbor * cbor) * bytes) :=
    match k with
    | O => None
    | S k' =>
        match is_break b with
        | Some r => Some ([], r)
        | None =>
            match d b with
            | None => None
            | Some (key, r) =>
                match d r with
                | None => None
                | Some (v, r1) =>
                    match dec_pairs_indef k' r1 with
                    | None => None
                    | Some (l, r') => Some ((key, v) :: l, r')
                    end
                end
            end
        end
    end.
End Items.

(** [ciborium_ll::Segments::pull] after the opening indefinite-length header of major type
    [mt] (2 or 3): [nested] starts at 1; a nested opening header increments it, a break
    decrements it and ends the string when it was 1.  Any other header is an error. *)
Fixpoint dec_chunks (mt : N) (k : nat) (nested : nat) (b : bytes) : option (bytes * bytes) :=
  match k with
  | O => None
  | S k' =>
      match head_decode b with
      | Some (m, _, arg, r) =>
          if (m =? 7) && (match arg with ArgIndef => true | _ => false end) then
            match nested with
            | S (S n) => dec_chunks mt k' (S n) r
            | _ => Some ([], r)
            end
          else if m =? mt then
            match arg with
            | ArgIndef => dec_chunks mt k' (S nested) r
            | ArgN len =>
                match take len r with
                | None => None
                | Some (c, r1) =>
                    if (mt =? 3) && negb (utf8_valid c) then None
                    else
                      match dec_chunks mt k' nested r1 with
                      | None => None
                      | Some (s, r') => Some (c ++ s, r')
                      end
                end
            end
          else None
      | None => None
      end
  end.

Fixpoint strip_zeros (b : bytes) : bytes :=
  match b with
  | 0 :: r => strip_zeros r
  | _ => b
  end.

(** the peek in [deserialize_any] on a tag: is the next item a definite byte string of at most
    16 bytes?  Returns its length and the input after its head. *)
Definition bignum_shape (t : N) (b : bytes) : option (N * bytes) :=
  if (t =? 2) || (t =? 3) then
    match head_decode b with
    | Some (mt, _, ArgN len, r) => if (mt =? 2) && (len <=? 16) then Some (len, r) else None
    | _ => None
    end
  else None.

Definition simple_value (n : N) (r : bytes) : option (cbor * bytes) :=
  if n =? 20 then Some (CBool false, r)
  else if n =? 21 then Some (CBool true, r)
  else if (n =? 22) || (n =? 23) then Some (CNull, r)
  else None.

Fixpoint cbor_decode (fuel : nat) (b : bytes) : option (cbor * bytes) :=
  match fuel with
  | O => None
  | S f =>
      match head_decode b with
      | None => None
      | Some (mt, ai, arg, r) =>
          match mt with
          | 0 => match arg with ArgN n => Some (CInt (Z.of_N n), r) | ArgIndef => None end
          | 1 => match arg with ArgN n => Some (CInt (-1 - Z.of_N n)%Z, r) | ArgIndef => None end
          | 2 =>
              match arg with
              | ArgN n => match take n r with Some (s, r') => Some (CBytes s, r') | None => None end
              | ArgIndef =>
                  match dec_chunks 2 (S (length r)) 1 r with
                  | Some (s, r') => Some (CBytes s, r')
                  | None => None
                  end
              end
          | 3 =>
              match arg with
              | ArgN n =>
                  match take n r with
                  | Some (s, r') => if utf8_valid s then Some (CText s, r') else None
                  | None => None
                  end
              | ArgIndef =>
                  match dec_chunks 3 (S (length r)) 1 r with
                  | Some (s, r') => Some (CText s, r')
                  | None => None
                  end
              end
          | 4 =>
              match f with
              | O => None
              | S _ =>
                  match arg with
                  | ArgN n =>
                      if N.of_nat (length r) <? n then None
                      else
                        match dec_items (cbor_decode f) (N.to_nat n) r with
                        | Some (l, r') => Some (CArr l, r')
                        | None => None
                        end
                  | ArgIndef =>
                      match dec_items_indef (cbor_decode f) (S (length r)) r with
                      | Some (l, r') => Some (CArr l, r')
                      | None => None
                      end
                  end
              end
          | 5 =>
              match f with
              | O => None
              | S _ =>
                  match arg with
                  | ArgN n =>
                      if N.of_nat (length r) <? n then None
                      else
                        match dec_pairs (cbor_decode f) (N.to_nat n) r with
                        | Some (l, r') => Some (CMap l, r')
                        | None => None
                        end
                  | ArgIndef =>
                      match dec_pairs_indef (cbor_decode f) (S (length r)) r with
                      | Some (l, r') => Some (CMap l, r')
                      | None => None
                      end
                  end
              end
          | 6 =>
              match arg with
              | ArgIndef => None
              | ArgN t =>
                  match bignum_shape t r with
                  | Some (len, r1) =>
                      match take len r1 with
                      | None => None
                      | Some (s, r') =>
                          let s' := strip_zeros s in
                          if (length s' <=? 8)%nat then
                            Some (CInt (if t =? 2 then Z.of_N (be_val 0 s') else (-1 - Z.of_N (be_val 0 s'))%Z), r')
                          else if (t =? 3) && (16 <=? length s')%nat && (128 <=? hd 0 s') then None
                          else Some (CTag t (CBytes s'), r')
                      end
                  | None =>
                      match f with
                      | O => None
                      | S _ =>
                          match cbor_decode f r with
                          | Some (v, r') => Some (CTag t v, r')
                          | None => None
                          end
                      end
                  end
              end
          | 7 =>
              match arg with
              | ArgIndef => None            (* break where an item is expected *)
              | ArgN n =>
                  if ai =? 25 then Some (CFloat 2 n, r)
                  else if ai =? 26 then Some (CFloat 4 n, r)
                  else if ai =? 27 then Some (CFloat 8 n, r)
                  else simple_value n r
              end
          | _ => None
          end
      end
  end.

(** [ciborium::de::from_reader::<Value>(b).ok()] (trailing bytes are ignored by ciborium) *)
Definition cbor_read (b : bytes) : option cbor :=
  match cbor_decode cbor_fuel b with
  | Some (v, _) => Some v
  | None => None
  end.

(** ** Well-formed values: the ones [ciborium::Value] can hold and the decoder returns *)
Definition len_ok {A} (l : list A) : bool := N.of_nat (length l) <? TWO64.

(** a [CTag 2/3 (CBytes s)] with at most 16 bytes must be a normalised bignum outside the
    64-bit integer range, else ciborium reads it back as something else *)
Definition tag_ok (t : N) (v : cbor) : bool :=
  match v with
  | CBytes s =>
      if ((t =? 2) || (t =? 3)) && (length s <=? 16)%nat then
        (9 <=? length s)%nat && negb (hd 0 s =? 0)
        && negb ((t =? 3) && (16 <=? length s)%nat && (128 <=? hd 0 s))
      else true
  | _ => true
  end.

Definition float_ok (w bits : N) : bool :=
  match w with
  | 2 => bits <? TWO16
  | 4 => bits <? TWO32
  | 8 => bits <? TWO64
  | _ => false
  end.

Fixpoint cbor_wf (v : cbor) : bool :=
  match v with
  | CInt z => (-18446744073709551616 <=? z)%Z && (z <? 18446744073709551616)%Z
  | CBytes b => bytes_okb b && len_ok b
  | CText b => utf8_valid b && len_ok b
  | CArr l => forallb cbor_wf l && len_ok l
  | CMap l => forallb (fun kv : cbor * cbor => let (k, x) := kv in cbor_wf k && cbor_wf x) l && len_ok l
  | CTag t x => (t <? TWO64) && cbor_wf x && tag_ok t x
  | CBool _ => true
  | CNull => true
  | CUndef => false
  | CSimple _ => false
  | CFloat w bits => float_ok w bits
  end.

(** nesting depth: arrays, maps and tags count one level each *)
Fixpoint depth (v : cbor) : nat :=
  match v with
  | CArr l => S (fold_right (fun x m => Nat.max (depth x) m) O l)
  | CMap l => S (fold_right (fun (kv : cbor * cbor) m => let (k, x) := kv in Nat.max (Nat.max (depth k) (depth x)) m) O l)
  | CTag _ x => S (depth x)
  | _ => O
  end.

(** ** Decidable equality (for checks) *)
Fixpoint cbor_eqb (a b : cbor) : bool :=
  match a, b with
  | CInt x, CInt y => (x =? y)%Z
  | CBytes x, CBytes y => beq x y
  | CText x, CText y => beq x y
  | CArr x, CArr y =>
      (fix go (x y : list cbor) : bool :=
         match x, y with
         | [], [] => true
         | p :: x', q :: y' => cbor_eqb p q && go x' y'
         | _, _ => false
         end) x y
  | CMap x, CMap y =>
      (fix go (x y : list (cbor * cbor)) : bool :=
         match x, y with
         | [], [] => true
         | (k, v) :: x', (k', v') :: y' => cbor_eqb k k' && cbor_eqb v v' && go x' y'
         | _, _ => false
         end) x y
  | CTag t x, CTag u y => (t =? u) && cbor_eqb x y
  | CBool x, CBool y => Bool.eqb x y
  | CNull, CNull => true
  | CUndef, CUndef => true
  | CSimple x, CSimple y => x =? y
  | CFloat w x, CFloat u y => (w =? u) && (x =? y)
  | _, _ => false
  end.

(** association in a map by an integer / a text key (first match), as serde visitors see it *)
Fixpoint map_get_int (k : Z) (l : list (cbor * cbor)) : option cbor :=
  match l with
  | [] => None
  | (CInt z, v) :: r => if (z =? k)%Z then Some v else map_get_int k r
  | _ :: r => map_get_int k r
  end.

Fixpoint map_get_text (k : bytes) (l : list (cbor * cbor)) : option cbor :=
  match l with
  | [] => None
  | (CText s, v) :: r => if beq s k then Some v else map_get_text k r
  | _ :: r => map_get_text k r
  end.
