(** Laws of the CBOR model [Lib/Cbor.v]: head round trip, [decode (encode v ++ r) = Some (v, r)],
    prefix freeness, the decoder consumes a non-empty prefix of its input, fuel monotonicity,
    encoder output is bytes, decidable equality. *)
From Coq Require Import ZArith ZifyBool ZifyNat ZifyN Lia.
From PK Require Import Lib.Bytes Lib.Cbor.
Open Scope N_scope.
Ltac Zify.zify_post_hook ::= Z.div_mod_to_equations.

(** * Big-endian numbers *)
Lemma be_val_app a x y : be_val a (x ++ y) = be_val (be_val a x) y.
Proof. revert a; induction x as [|b x IH]; intros a; cbn [be_val app]; [reflexivity|apply IH]. Qed.

Lemma be_bytes_acc_app k : forall n acc, be_bytes_acc k n acc = be_bytes k n ++ acc.
Proof.
  unfold be_bytes. induction k as [|k IH]; intros n acc; cbn [be_bytes_acc]; [reflexivity|].
  rewrite IH, (IH (n / 256) [n mod 256]), <- app_assoc. reflexivity.
Qed.

Lemma be_bytes_S k n : be_bytes (S k) n = be_bytes k (n / 256) ++ [n mod 256].
Proof. unfold be_bytes at 1. cbn [be_bytes_acc]. apply be_bytes_acc_app. Qed.

Lemma be_bytes_length k : forall n, length (be_bytes k n) = k.
Proof.
  induction k as [|k IH]; intros n; [reflexivity|].
  rewrite be_bytes_S, app_length, IH. cbn [length]. lia.
Qed.

Lemma be_bytes_ok k : forall n, bytes_ok (be_bytes k n).
Proof.
  induction k as [|k IH]; intros n; [constructor|].
  rewrite be_bytes_S. apply bytes_ok_app. split; [apply IH|]. constructor; [apply mod256_ok|constructor].
Qed.

Lemma be_val_be_bytes k : forall n, be_val 0 (be_bytes k n) = n mod 256 ^ N.of_nat k.
Proof.
  induction k as [|k IH]; intros n.
  - cbn. rewrite N.mod_1_r. reflexivity.
  - rewrite be_bytes_S, be_val_app, IH. cbn [be_val].
    rewrite Nat2N.inj_succ, N.pow_succ_r by lia.
    rewrite (N.mod_mul_r n 256 (256 ^ N.of_nat k)) by (try apply N.pow_nonzero; lia). lia.
Qed.

Lemma be_round k n : n < 256 ^ N.of_nat k -> be_val 0 (be_bytes k n) = n.
Proof. intros H. rewrite be_val_be_bytes. apply N.mod_small, H. Qed.

(** * [take] *)
Lemma take_0 b : take 0 b = Some ([], b).
Proof. destruct b; reflexivity. Qed.

Lemma take_succ n x b :
  take (N.succ n) (x :: b) = match take n b with Some (a, r) => Some (x :: a, r) | None => None end.
Proof.
  destruct (N.succ n) as [|p] eqn:E; [lia|]. cbn [take]. rewrite <- E, N.pred_succ. reflexivity.
Qed.

Lemma take_app a : forall r, take (N.of_nat (length a)) (a ++ r) = Some (a, r).
Proof.
  induction a as [|x a IH]; intros r.
  - cbn [length N.of_nat app]. apply take_0.
  - cbn [length app]. rewrite Nat2N.inj_succ, take_succ, IH. reflexivity.
Qed.

Lemma take_app_n a n r : n = N.of_nat (length a) -> take n (a ++ r) = Some (a, r).
Proof. intros ->. apply take_app. Qed.

Lemma take_spec : forall b n a r, take n b = Some (a, r) -> b = a ++ r /\ N.of_nat (length a) = n.
Proof.
  induction b as [|x b IH]; intros n a r H.
  - destruct n; cbn [take] in H; [|discriminate]. injection H as <- <-. split; reflexivity.
  - destruct n as [|p].
    + cbn [take] in H. injection H as <- <-. split; reflexivity.
    + cbn [take] in H. destruct (take (N.pred (N.pos p)) b) as [[a' r']|] eqn:E; [|discriminate].
      injection H as <- <-. apply IH in E as [-> E]. split; [reflexivity|].
      cbn [length]. rewrite Nat2N.inj_succ, E. lia.
Qed.

(** * Heads *)
Definition ai_of (n : N) : N :=
  if n <? 24 then n else if n <? 256 then 24 else if n <? TWO16 then 25 else if n <? TWO32 then 26 else 27.

Lemma head_decode_inline mt ai r : mt < 8 -> ai < 24 ->
  head_decode ((mt * 32 + ai) :: r) = Some (mt, ai, ArgN ai, r).
Proof.
  intros Hm Ha. unfold head_decode.
  replace ((mt * 32 + ai) / 32) with mt by lia. replace ((mt * 32 + ai) mod 32) with ai by lia.
  replace (8 <=? mt) with false by lia. replace (ai <? 24) with true by lia. reflexivity.
Qed.

(** a head with [k] = 1, 2, 4, 8 argument bytes (additional info 24..27) *)
Lemma head_decode_ext mt ai k n r : mt < 8 ->
  (ai = 24 /\ k = 1 \/ ai = 25 /\ k = 2 \/ ai = 26 /\ k = 4 \/ ai = 27 /\ k = 8)%nat ->
  head_decode ((mt * 32 + N.of_nat ai) :: be_bytes k n ++ r)
  = Some (mt, N.of_nat ai, ArgN (n mod 256 ^ N.of_nat k), r).
Proof.
  intros Hm Hk. unfold head_decode.
  assert (Ha : 24 <= N.of_nat ai < 28) by lia.
  replace ((mt * 32 + N.of_nat ai) / 32) with mt by lia.
  replace ((mt * 32 + N.of_nat ai) mod 32) with (N.of_nat ai) by lia.
  replace (8 <=? mt) with false by lia. replace (N.of_nat ai <? 24) with false by lia.
  replace (N.of_nat ai =? 31) with false by lia. replace (28 <=? N.of_nat ai) with false by lia.
  assert (Hal : arg_len (N.of_nat ai) = N.of_nat (length (be_bytes k n))).
  { rewrite be_bytes_length. unfold arg_len.
    destruct Hk as [[-> ->]|[[-> ->]|[[-> ->]|[-> ->]]]]; reflexivity. }
  rewrite Hal, take_app, be_val_be_bytes. reflexivity.
Qed.

Lemma head_round mt n r : mt < 8 -> n < TWO64 ->
  head_decode (head_encode mt n ++ r) = Some (mt, ai_of n, ArgN n, r).
Proof.
  intros Hm Hn. unfold head_encode, ai_of, TWO16, TWO32, TWO64 in *.
  destruct (N.ltb_spec n 24) as [H1|H1]; [cbn [app]; apply head_decode_inline; assumption|].
  destruct (N.ltb_spec n 256) as [H2|H2].
  { change [mt * 32 + 24; n] with ((mt * 32 + N.of_nat 24) :: [n]).
    cbn [app]. replace [n] with (be_bytes 1 n).
    2:{ unfold be_bytes. cbn [be_bytes_acc]. f_equal. lia. }
    change (n :: r) with ([n] ++ r). replace [n] with (be_bytes 1 n).
    2:{ unfold be_bytes. cbn [be_bytes_acc]. f_equal. lia. }
    rewrite (head_decode_ext mt 24 1 n r) by (auto; lia). cbn [N.of_nat Pos.of_succ_nat Pos.succ].
    repeat f_equal. change (N.of_nat 1) with 1. rewrite N.pow_1_r. lia. }
  destruct (N.ltb_spec n 65536) as [H3|H3].
  { cbn [app]. change 25 with (N.of_nat 25) at 1. rewrite (head_decode_ext mt 25 2 n r) by (auto; lia).
    change (256 ^ N.of_nat 2) with 65536. change (N.of_nat 25) with 25. repeat f_equal. lia. }
  destruct (N.ltb_spec n 4294967296) as [H4|H4].
  { cbn [app]. change 26 with (N.of_nat 26) at 1. rewrite (head_decode_ext mt 26 4 n r) by (auto; lia).
    change (256 ^ N.of_nat 4) with 4294967296. change (N.of_nat 26) with 26. repeat f_equal. lia. }
  cbn [app]. change 27 with (N.of_nat 27) at 1. rewrite (head_decode_ext mt 27 8 n r) by (auto; lia).
  change (256 ^ N.of_nat 8) with 18446744073709551616. change (N.of_nat 27) with 27. repeat f_equal. lia.
Qed.

(** * Nested induction principle *)
Section CborInd.
  Variable P : cbor -> Prop.
  Hypothesis HInt : forall z, P (CInt z).
  Hypothesis HBytes : forall b, P (CBytes b).
  Hypothesis HText : forall b, P (CText b).
  Hypothesis HArr : forall l, Forall P l -> P (CArr l).
  Hypothesis HMap : forall l, Forall (fun kv : cbor * cbor => P (fst kv) /\ P (snd kv)) l -> P (CMap l).
  Hypothesis HTag : forall t v, P v -> P (CTag t v).
  Hypothesis HBool : forall b, P (CBool b).
  Hypothesis HNull : P CNull.
  Hypothesis HUndef : P CUndef.
  Hypothesis HSimple : forall n, P (CSimple n).
  Hypothesis HFloat : forall w b, P (CFloat w b).

  Fixpoint cbor_ind' (v : cbor) : P v :=
    match v with
    | CInt z => HInt z
    | CBytes b => HBytes b
    | CText b => HText b
    | CArr l =>
        HArr l ((fix go (l : list cbor) : Forall P l :=
                   match l with
                   | [] => Forall_nil _
                   | x :: r => Forall_cons x (cbor_ind' x) (go r)
                   end) l)
    | CMap l =>
        HMap l ((fix go (l : list (cbor * cbor)) : Forall (fun kv => P (fst kv) /\ P (snd kv)) l :=
                   match l with
                   | [] => Forall_nil _
                   | kv :: r => Forall_cons kv (conj (cbor_ind' (fst kv)) (cbor_ind' (snd kv))) (go r)
                   end) l)
    | CTag t x => HTag t x (cbor_ind' x)
    | CBool b => HBool b
    | CNull => HNull
    | CUndef => HUndef
    | CSimple n => HSimple n
    | CFloat w b => HFloat w b
    end.
End CborInd.

(** * Encoder: first byte, non-emptiness, output is bytes *)
Definition major_of (v : cbor) : N :=
  match v with
  | CInt (Zneg _) => 1
  | CInt _ => 0
  | CBytes _ => 2
  | CText _ => 3
  | CArr _ => 4
  | CMap _ => 5
  | CTag _ _ => 6
  | _ => 7
  end.

Lemma head_encode_first mt n : mt < 8 -> exists x t, head_encode mt n = x :: t /\ x / 32 = mt.
Proof.
  intros Hm. unfold head_encode.
  destruct (n <? 24) eqn:E1; [eexists; eexists; split; [reflexivity|lia]|].
  destruct (n <? 256); [eexists; eexists; split; [reflexivity|lia]|].
  destruct (n <? TWO16); [eexists; eexists; split; [reflexivity|lia]|].
  destruct (n <? TWO32); eexists; eexists; (split; [reflexivity|lia]).
Qed.

Lemma encode_first v : exists x t, cbor_encode v = x :: t /\ x / 32 = major_of v.
Proof.
  assert (A : forall mt n (rest : bytes), mt < 8 -> exists x t, head_encode mt n ++ rest = x :: t /\ x / 32 = mt).
  { intros mt n rest Hm. destruct (head_encode_first mt n Hm) as (x & t & -> & Hx).
    exists x, (t ++ rest). split; [reflexivity|exact Hx]. }
  destruct v as [z|b|b|l|l|t x|b| | |n|w bits]; cbn [cbor_encode major_of].
  - destruct z; [rewrite <- (app_nil_r (head_encode 0 _))|rewrite <- (app_nil_r (head_encode 0 _))
                 |rewrite <- (app_nil_r (head_encode 1 _))]; apply A; lia.
  - apply A; lia.
  - apply A; lia.
  - apply A; lia.
  - apply A; lia.
  - apply A; lia.
  - destruct b; eexists; eexists; (split; [reflexivity|reflexivity]).
  - eexists; eexists; (split; [reflexivity|reflexivity]).
  - eexists; eexists; (split; [reflexivity|reflexivity]).
  - rewrite <- (app_nil_r (head_encode 7 n)). apply A; lia.
  - eexists; eexists; split; [reflexivity|].
    unfold float_ai. destruct w as [|[[[]|[]|]|[[]|[]|]|]]; reflexivity.
Qed.

Lemma encode_nonempty v : cbor_encode v <> [].
Proof. destruct (encode_first v) as (x & t & -> & _). discriminate. Qed.

Lemma encode_length_pos v : (1 <= length (cbor_encode v))%nat.
Proof. destruct (encode_first v) as (x & t & -> & _). cbn [length]. lia. Qed.

Lemma flat_map_encode_length l : (length l <= length (flat_map cbor_encode l))%nat.
Proof.
  induction l as [|x l IH]; cbn [flat_map length]; [lia|].
  rewrite app_length. pose proof (encode_length_pos x). lia.
Qed.

Lemma flat_map_pairs_length (l : list (cbor * cbor)) :
  (length l <= length (flat_map (fun kv : cbor * cbor => let (k, x) := kv in cbor_encode k ++ cbor_encode x) l))%nat.
Proof.
  induction l as [|[k x] l IH]; cbn [flat_map length]; [lia|].
  rewrite !app_length. pose proof (encode_length_pos k). lia.
Qed.

Lemma head_encode_ok mt n : mt < 8 -> bytes_ok (head_encode mt n).
Proof.
  intros Hm. unfold head_encode, bytes_ok.
  destruct (N.ltb_spec n 24); [constructor; [unfold byte_ok; lia|constructor]|].
  destruct (N.ltb_spec n 256); [constructor; [unfold byte_ok; lia|constructor; [unfold byte_ok; lia|constructor]]|].
  destruct (n <? TWO16); [constructor; [unfold byte_ok; lia|apply be_bytes_ok]|].
  destruct (n <? TWO32); (constructor; [unfold byte_ok; lia|apply be_bytes_ok]).
Qed.

(** UTF-8 validity implies every element is a byte *)
Lemma utf8_valid_ok : forall n b, (length b <= n)%nat -> utf8_valid b = true -> bytes_ok b.
Proof.
  unfold bytes_ok, byte_ok.
  induction n as [|n IH]; intros b Hl Hv.
  - destruct b; [constructor|cbn [length] in Hl; lia].
  - destruct b as [|x r]; [constructor|]. cbn [length] in Hl. cbn [utf8_valid] in Hv.
    destruct (N.ltb_spec x 128) as [H1|H1]; [constructor; [lia|apply IH; [lia|exact Hv]]|].
    destruct (N.ltb_spec x 194) as [H2|H2]; [discriminate|].
    destruct (N.ltb_spec x 224) as [H3|H3].
    { destruct r as [|y r1]; [discriminate|]. cbn [length] in Hl.
      apply andb_true_iff in Hv as [Hy Hv]. unfold utf8_cont, in_range in Hy.
      constructor; [lia|]. constructor; [lia|]. apply IH; [lia|exact Hv]. }
    destruct (N.ltb_spec x 240) as [H4|H4].
    { destruct r as [|y [|z r2]]; try discriminate. cbn [length] in Hl.
      apply andb_true_iff in Hv as [Hv Hr]. apply andb_true_iff in Hv as [Hy Hz].
      unfold utf8_cont, in_range in *.
      assert (y < 256) by (destruct (x =? 224); [lia|destruct (x =? 237); lia]).
      repeat (constructor; [lia|]). apply IH; [lia|exact Hr]. }
    destruct (N.ltb_spec x 245) as [H5|H5]; [|discriminate].
    destruct r as [|y [|z [|w r3]]]; try discriminate. cbn [length] in Hl.
    apply andb_true_iff in Hv as [Hv Hr]. apply andb_true_iff in Hv as [Hv Hw]. apply andb_true_iff in Hv as [Hy Hz].
    unfold utf8_cont, in_range in *.
    assert (y < 256) by (destruct (x =? 240); [lia|destruct (x =? 244); lia]).
    repeat (constructor; [lia|]). apply IH; [lia|exact Hr].
Qed.

Lemma utf8_bytes_ok b : utf8_valid b = true -> bytes_ok b.
Proof. apply (utf8_valid_ok (length b)). lia. Qed.

Lemma encode_ok : forall v, cbor_wf v = true -> bytes_ok (cbor_encode v).
Proof.
  induction v as [z|b|b|l IH|l IH|t x IH|b| | |n|w bits] using cbor_ind'; intros Hwf; cbn [cbor_encode cbor_wf] in *.
  - destruct z; apply head_encode_ok; lia.
  - apply andb_true_iff in Hwf as [Hb _]. apply bytes_ok_app. split; [apply head_encode_ok; lia|].
    apply bytes_okb_spec, Hb.
  - apply andb_true_iff in Hwf as [Hb _]. apply bytes_ok_app. split; [apply head_encode_ok; lia|].
    apply utf8_bytes_ok, Hb.
  - apply andb_true_iff in Hwf as [Hl _]. apply bytes_ok_app. split; [apply head_encode_ok; lia|].
    induction IH as [|x l Hx _ IHl]; cbn [flat_map forallb] in *; [constructor|].
    apply andb_true_iff in Hl as [H1 H2]. apply bytes_ok_app. split; [apply Hx, H1|apply IHl, H2].
  - apply andb_true_iff in Hwf as [Hl _]. apply bytes_ok_app. split; [apply head_encode_ok; lia|].
    induction IH as [|[k x] l [Hk Hx] _ IHl]; cbn [flat_map forallb fst snd] in *; [constructor|].
    apply andb_true_iff in Hl as [H1 H2]. apply andb_true_iff in H1 as [H1 H1'].
    rewrite !bytes_ok_app. split; [split; [apply Hk, H1|apply Hx, H1']|apply IHl, H2].
  - apply andb_true_iff in Hwf as [Hwf _]. apply andb_true_iff in Hwf as [_ Hx].
    apply bytes_ok_app. split; [apply head_encode_ok; lia|apply IH, Hx].
  - destruct b; (constructor; [unfold byte_ok; lia|constructor]).
  - constructor; [unfold byte_ok; lia|constructor].
  - discriminate.
  - discriminate.
  - constructor; [|apply be_bytes_ok]. unfold byte_ok, float_ai.
    destruct w as [|[[[]|[]|]|[[]|[]|]|]]; lia.
Qed.

(** * Round trip *)
Definition pair_enc (kv : cbor * cbor) : bytes := let (k, x) := kv in cbor_encode k ++ cbor_encode x.

Lemma dec_items_encode d l :
  Forall (fun v => forall r, d (cbor_encode v ++ r) = Some (v, r)) l ->
  forall r, dec_items d (length l) (flat_map cbor_encode l ++ r) = Some (l, r).
Proof.
  induction 1 as [|x l Hx _ IH]; intros r; cbn [length flat_map dec_items app]; [reflexivity|].
  rewrite <- app_assoc, Hx, IH. reflexivity.
Qed.

Lemma dec_pairs_encode d (l : list (cbor * cbor)) :
  Forall (fun kv => (forall r, d (cbor_encode (fst kv) ++ r) = Some (fst kv, r))
                    /\ (forall r, d (cbor_encode (snd kv) ++ r) = Some (snd kv, r))) l ->
  forall r, dec_pairs d (length l) (flat_map pair_enc l ++ r) = Some (l, r).
Proof.
  induction 1 as [|[k x] l [Hk Hx] _ IH]; intros r; cbn [length flat_map dec_pairs app pair_enc fst snd] in *; [reflexivity|].
  rewrite <- !app_assoc, Hk, Hx, IH. reflexivity.
Qed.

Lemma depth_arr_bound l f :
  (fold_right (fun x m => Nat.max (depth x) m) O l < f)%nat -> Forall (fun x => (depth x < f)%nat) l.
Proof.
  induction l as [|x l IH]; cbn [fold_right]; intros H; constructor; [lia|apply IH; lia].
Qed.

Lemma depth_map_bound (l : list (cbor * cbor)) f :
  (fold_right (fun (kv : cbor * cbor) m => let (k, x) := kv in Nat.max (Nat.max (depth k) (depth x)) m) O l < f)%nat ->
  Forall (fun kv => (depth (fst kv) < f)%nat /\ (depth (snd kv) < f)%nat) l.
Proof.
  induction l as [|[k x] l IH]; cbn [fold_right fst snd]; intros H; constructor; [cbn [fst snd]; lia|apply IH; lia].
Qed.

Lemma bignum_shape_first t b p : bignum_shape t b = Some p -> exists x r0, b = x :: r0 /\ x / 32 = 2.
Proof.
  unfold bignum_shape. destruct ((t =? 2) || (t =? 3)); [|discriminate].
  destruct b as [|x r0]; [discriminate|]. intros H. exists x, r0. split; [reflexivity|].
  unfold head_decode in H.
  destruct (8 <=? x / 32); [discriminate|].
  destruct (x mod 32 <? 24).
  { destruct (N.eqb_spec (x / 32) 2) as [E|E]; [exact E|discriminate]. }
  destruct (x mod 32 =? 31); [discriminate|].
  destruct (28 <=? x mod 32); [discriminate|].
  destruct (take (arg_len (x mod 32)) r0) as [[a r']|]; [|discriminate].
  destruct (N.eqb_spec (x / 32) 2) as [E|E]; [exact E|discriminate].
Qed.

Lemma strip_zeros_id s : hd 0 s =? 0 = false -> strip_zeros s = s.
Proof. destruct s as [|x s]; [reflexivity|]. cbn [hd strip_zeros]. intros H. destruct x; [discriminate|reflexivity]. Qed.

Theorem decode_encode : forall v r fuel, cbor_wf v = true -> (depth v < fuel)%nat ->
  cbor_decode fuel (cbor_encode v ++ r) = Some (v, r).
Proof.
  induction v as [z|b|b|l IH|l IH|t x IH|b| | |n|w bits] using cbor_ind'; intros r fuel Hwf Hd;
    (destruct fuel as [|f]; [lia|]); cbn [cbor_encode cbor_wf depth] in *.
  - (* CInt *)
    destruct z as [|p|p]; cbn [cbor_decode]; rewrite head_round by (unfold TWO64; lia); cbv beta iota;
      repeat f_equal; lia.
  - (* CBytes *)
    apply andb_true_iff in Hwf as [_ Hl]. unfold len_ok in Hl.
    rewrite <- app_assoc. cbn [cbor_decode]. rewrite head_round by lia. cbv beta iota.
    rewrite take_app. reflexivity.
  - (* CText *)
    apply andb_true_iff in Hwf as [Hu Hl]. unfold len_ok in Hl.
    rewrite <- app_assoc. cbn [cbor_decode]. rewrite head_round by lia. cbv beta iota.
    rewrite take_app, Hu. reflexivity.
  - (* CArr *)
    apply andb_true_iff in Hwf as [Hall Hl]. unfold len_ok in Hl.
    rewrite <- app_assoc. cbn [cbor_decode]. rewrite head_round by lia. cbv beta iota.
    destruct f as [|f']; [lia|]. cbv beta iota.
    pose proof (flat_map_encode_length l) as Hlen.
    replace (N.of_nat (length (flat_map cbor_encode l ++ r)) <? N.of_nat (length l)) with false
      by (rewrite app_length; lia).
    rewrite Nat2N.id, dec_items_encode; [reflexivity|].
    apply Nat.succ_lt_mono in Hd. apply depth_arr_bound in Hd. rewrite forallb_forall in Hall. rewrite Forall_forall in *.
    intros v Hv r0. apply IH; [exact Hv|apply Hall, Hv|apply Hd, Hv].
  - (* CMap *)
    apply andb_true_iff in Hwf as [Hall Hl]. unfold len_ok in Hl.
    rewrite <- app_assoc. cbn [cbor_decode]. rewrite head_round by lia. cbv beta iota.
    destruct f as [|f']; [lia|]. cbv beta iota.
    pose proof (flat_map_pairs_length l) as Hlen.
    match goal with |- context [flat_map ?g l] => change g with pair_enc in * end.
    replace (N.of_nat (length (flat_map pair_enc l ++ r)) <? N.of_nat (length l)) with false
      by (rewrite app_length; lia).
    rewrite Nat2N.id, dec_pairs_encode; [reflexivity|].
    apply Nat.succ_lt_mono in Hd. apply depth_map_bound in Hd. rewrite forallb_forall in Hall. rewrite Forall_forall in *.
    intros [k v] Hv. specialize (Hall _ Hv). cbn beta iota in Hall. apply andb_true_iff in Hall as [Hk Hx].
    destruct (IH _ Hv) as [IHk IHx]. destruct (Hd _ Hv) as [Dk Dx]. cbn [fst snd] in *.
    split; intros r0; [apply IHk|apply IHx]; assumption.
  - (* CTag *)
    apply andb_true_iff in Hwf as [Hwf Htag]. apply andb_true_iff in Hwf as [Ht Hx].
    rewrite <- app_assoc. cbn [cbor_decode]. rewrite head_round by lia. cbv beta iota.
    destruct (bignum_shape t (cbor_encode x ++ r)) as [[len r1]|] eqn:Eb.
    + (* the bignum path: only a normalised bignum gets here *)
      pose proof Eb as Efirst. apply bignum_shape_first in Efirst as (y & r0 & Ey & Hy).
      destruct (encode_first x) as (y' & t' & Ey' & Hy'). rewrite Ey' in Ey. cbn [app] in Ey.
      injection Ey as <- _. rewrite Hy in Hy'.
      destruct x as [z|s|s|l|l|t2 x2|b| | |n|w bits]; try (cbn [major_of] in Hy'; discriminate).
      { destruct z; cbn [major_of] in Hy'; discriminate. }
      cbn [cbor_encode cbor_wf tag_ok] in *. apply andb_true_iff in Hx as [_ Hl]. unfold len_ok in Hl.
      unfold bignum_shape in Eb. destruct ((t =? 2) || (t =? 3)) eqn:Et; [|discriminate].
      rewrite <- app_assoc, head_round in Eb by lia.
      destruct (N.of_nat (length s) <=? 16) eqn:E16; [|discriminate]. injection Eb as <- <-.
      rewrite take_app. cbn [andb] in Htag.
      replace (length s <=? 16)%nat with true in Htag by lia.
      apply andb_true_iff in Htag as [Htag H3]. apply andb_true_iff in Htag as [H9 H0].
      apply negb_true_iff in H0. rewrite (strip_zeros_id s H0).
      replace (length s <=? 8)%nat with false by lia.
      apply negb_true_iff in H3. rewrite H3. reflexivity.
    + destruct f as [|f']; [lia|]. rewrite IH by (assumption || lia). reflexivity.
  - destruct b; reflexivity.
  - reflexivity.
  - discriminate.
  - discriminate.
  - (* CFloat *)
    unfold float_ok, TWO16, TWO32, TWO64 in Hwf.
    destruct w as [|[[[[]|[]|]|[[]|[]|]|]|[[[]|[]|]|[[]|[]|]|]|]]; try discriminate;
      cbn [float_ai float_len app]; cbn [cbor_decode].
    + change (224 + 27) with (7 * 32 + N.of_nat 27). rewrite (head_decode_ext 7 27 8 bits r) by (auto; lia). cbv beta iota.
      change (256 ^ N.of_nat 8) with 18446744073709551616. rewrite N.mod_small by lia. reflexivity.
    + change (224 + 26) with (7 * 32 + N.of_nat 26). rewrite (head_decode_ext 7 26 4 bits r) by (auto; lia). cbv beta iota.
      change (256 ^ N.of_nat 4) with 4294967296. rewrite N.mod_small by lia. reflexivity.
    + change (224 + 25) with (7 * 32 + N.of_nat 25). rewrite (head_decode_ext 7 25 2 bits r) by (auto; lia). cbv beta iota.
      change (256 ^ N.of_nat 2) with 65536. rewrite N.mod_small by lia. reflexivity.
Qed.

Corollary decode_encode_read v : cbor_wf v = true -> (depth v < cbor_fuel)%nat -> cbor_read (cbor_encode v) = Some v.
Proof.
  intros Hw Hd. unfold cbor_read. rewrite <- (app_nil_r (cbor_encode v)), decode_encode by assumption. reflexivity.
Qed.

Corollary encode_prefix_free v w r s : cbor_wf v = true -> cbor_wf w = true ->
  cbor_encode v ++ r = cbor_encode w ++ s -> v = w /\ r = s.
Proof.
  intros Hv Hw E.
  pose proof (decode_encode v r (S (Nat.max (depth v) (depth w))) Hv ltac:(lia)) as D1.
  pose proof (decode_encode w s (S (Nat.max (depth v) (depth w))) Hw ltac:(lia)) as D2.
  rewrite E, D2 in D1. injection D1 as -> ->. split; reflexivity.
Qed.

Corollary encode_inj v w : cbor_wf v = true -> cbor_wf w = true -> cbor_encode v = cbor_encode w -> v = w.
Proof.
  intros Hv Hw E. apply (encode_prefix_free v w [] [] Hv Hw). rewrite !app_nil_r. exact E.
Qed.

(** * The decoder consumes a non-empty prefix of its input *)
Definition consumes (b r : bytes) : Prop := exists u, b = u ++ r /\ u <> [].
Definition suffix (b r : bytes) : Prop := exists u, b = u ++ r.

Lemma consumes_suffix b r : consumes b r -> suffix b r.
Proof. intros (u & -> & _). exists u. reflexivity. Qed.
Lemma suffix_refl b : suffix b b.
Proof. exists []. reflexivity. Qed.
Lemma suffix_trans a b c : suffix a b -> suffix b c -> suffix a c.
Proof. intros (u & ->) (w & ->). exists (u ++ w). rewrite app_assoc. reflexivity. Qed.
Lemma consumes_suffix_trans a b c : consumes a b -> suffix b c -> consumes a c.
Proof.
  intros (u & -> & Hu) (w & ->). exists (u ++ w). rewrite app_assoc. split; [reflexivity|].
  destruct u; [congruence|discriminate].
Qed.
Lemma suffix_consumes_trans a b c : suffix a b -> consumes b c -> consumes a c.
Proof.
  intros (u & ->) (w & -> & Hw). exists (u ++ w). rewrite app_assoc. split; [reflexivity|].
  destruct u; [exact Hw|discriminate].
Qed.
Lemma consumes_trans a b c : consumes a b -> consumes b c -> consumes a c.
Proof. intros H1 H2. eapply consumes_suffix_trans; [exact H1|apply consumes_suffix, H2]. Qed.
Lemma consumes_cons x r : consumes (x :: r) r.
Proof. exists [x]. split; [reflexivity|discriminate]. Qed.
Lemma consumes_length b r : consumes b r -> (length r < length b)%nat.
Proof. intros (u & -> & Hu). rewrite app_length. destruct u; [congruence|cbn [length]; lia]. Qed.
Lemma take_suffix n b a r : take n b = Some (a, r) -> suffix b r.
Proof. intros H. apply take_spec in H as [-> _]. exists a. reflexivity. Qed.

Lemma head_decode_spec b mt ai arg r : head_decode b = Some (mt, ai, arg, r) ->
  mt < 8 /\ ai < 32 /\ consumes b r.
Proof.
  unfold head_decode. destruct b as [|x r0]; [discriminate|].
  destruct (N.leb_spec 8 (x / 32)) as [H8|H8]; [discriminate|].
  assert (Hai : x mod 32 < 32) by lia.
  destruct (x mod 32 <? 24). { intros H. injection H as <- <- <- <-. auto using consumes_cons. }
  destruct (x mod 32 =? 31). { intros H. injection H as <- <- <- <-. auto using consumes_cons. }
  destruct (28 <=? x mod 32); [discriminate|].
  destruct (take (arg_len (x mod 32)) r0) as [[a r']|] eqn:Et; [|discriminate].
  intros H. injection H as <- <- <- <-. split; [exact H8|]. split; [exact Hai|].
  eapply consumes_suffix_trans; [apply consumes_cons|eapply take_suffix, Et].
Qed.

Lemma is_break_spec b r : is_break b = Some r -> b = 255 :: r.
Proof.
  unfold is_break. destruct b as [|x r0]; [discriminate|].
  destruct (N.eqb_spec x 255) as [->|]; [|discriminate]. intros H. injection H as <-. reflexivity.
Qed.

Section ItemsConsume.
  Variable d : bytes -> option (cbor * bytes).
  Hypothesis Hd : forall b v r, d b = Some (v, r) -> consumes b r.

  Lemma dec_items_suffix cnt : forall b l r, dec_items d cnt b = Some (l, r) -> suffix b r.
  Proof.
    induction cnt as [|c IH]; intros b l r H; cbn [dec_items] in H.
    - injection H as <- <-. apply suffix_refl.
    - destruct (d b) as [[v r0]|] eqn:E; [|discriminate].
      destruct (dec_items d c r0) as [[l' r']|] eqn:E2; [|discriminate]. injection H as <- <-.
      eapply suffix_trans; [apply consumes_suffix, (Hd _ _ _ E)|apply (IH _ _ _ E2)].
  Qed.

  Lemma dec_pairs_suffix cnt : forall b l r, dec_pairs d cnt b = Some (l, r) -> suffix b r.
  Proof.
    induction cnt as [|c IH]; intros b l r H; cbn [dec_pairs] in H.
    - injection H as <- <-. apply suffix_refl.
    - destruct (d b) as [[k r0]|] eqn:E; [|discriminate].
      destruct (d r0) as [[v r1]|] eqn:E1; [|discriminate].
      destruct (dec_pairs d c r1) as [[l' r']|] eqn:E2; [|discriminate]. injection H as <- <-.
      eapply suffix_trans; [apply consumes_suffix, (Hd _ _ _ E)|].
      eapply suffix_trans; [apply consumes_suffix, (Hd _ _ _ E1)|apply (IH _ _ _ E2)].
  Qed.

  Lemma dec_items_indef_consumes k : forall b l r, dec_items_indef d k b = Some (l, r) -> consumes b r.
  Proof.
    induction k as [|k IH]; intros b l r H; cbn [dec_items_indef] in H; [discriminate|].
    destruct (is_break b) as [r0|] eqn:Eb.
    - injection H as <- <-. apply is_break_spec in Eb as ->. apply consumes_cons.
    - destruct (d b) as [[v r0]|] eqn:E; [|discriminate].
      destruct (dec_items_indef d k r0) as [[l' r']|] eqn:E2; [|discriminate]. injection H as <- <-.
      eapply consumes_trans; [apply (Hd _ _ _ E)|apply (IH _ _ _ E2)].
  Qed.

  Lemma dec_pairs_indef_consumes k : forall b l r, dec_pairs_indef d k b = Some (l, r) -> consumes b r.
  Proof.
    induction k as [|k IH]; intros b l r H; cbn [dec_pairs_indef] in H; [discriminate|].
    destruct (is_break b) as [r0|] eqn:Eb.
    - injection H as <- <-. apply is_break_spec in Eb as ->. apply consumes_cons.
    - destruct (d b) as [[key r0]|] eqn:E; [|discriminate].
      destruct (d r0) as [[v r1]|] eqn:E1; [|discriminate].
      destruct (dec_pairs_indef d k r1) as [[l' r']|] eqn:E2; [|discriminate]. injection H as <- <-.
      eapply consumes_trans; [apply (Hd _ _ _ E)|].
      eapply consumes_trans; [apply (Hd _ _ _ E1)|apply (IH _ _ _ E2)].
  Qed.
End ItemsConsume.

Lemma dec_chunks_consumes mt k : forall nested b s r, dec_chunks mt k nested b = Some (s, r) -> consumes b r.
Proof.
  induction k as [|k IH]; intros nested b s r H; cbn [dec_chunks] in H; [discriminate|].
  destruct (head_decode b) as [[[[m ai] arg] r0]|] eqn:Eh; [|discriminate].
  apply head_decode_spec in Eh as (_ & _ & Hc).
  destruct ((m =? 7) && match arg with ArgIndef => true | ArgN _ => false end).
  { destruct nested as [|[|n]].
    - injection H as <- <-. exact Hc.
    - injection H as <- <-. exact Hc.
    - eapply consumes_trans; [exact Hc|apply (IH _ _ _ _ H)]. }
  destruct (m =? mt); [|discriminate].
  destruct arg as [len|].
  - destruct (take len r0) as [[c r1]|] eqn:Et; [|discriminate].
    destruct ((mt =? 3) && negb (utf8_valid c)); [discriminate|].
    destruct (dec_chunks mt k nested r1) as [[s' r']|] eqn:E2; [|discriminate]. injection H as <- <-.
    eapply consumes_trans; [exact Hc|]. eapply suffix_consumes_trans; [apply (take_suffix _ _ _ _ Et)|apply (IH _ _ _ _ E2)].
  - eapply consumes_trans; [exact Hc|apply (IH _ _ _ _ H)].
Qed.

Lemma simple_value_rest n r v r' : simple_value n r = Some (v, r') -> r' = r.
Proof.
  unfold simple_value. destruct (n =? 20); [intros H; injection H as _ <-; reflexivity|].
  destruct (n =? 21); [intros H; injection H as _ <-; reflexivity|].
  destruct ((n =? 22) || (n =? 23)); [intros H; injection H as _ <-; reflexivity|discriminate].
Qed.

Lemma mt_cases mt : mt < 8 -> mt = 0 \/ mt = 1 \/ mt = 2 \/ mt = 3 \/ mt = 4 \/ mt = 5 \/ mt = 6 \/ mt = 7.
Proof. lia. Qed.

Theorem decode_consumes_gen : forall fuel b v r, cbor_decode fuel b = Some (v, r) -> consumes b r.
Proof.
  induction fuel as [|f IH]; intros b v r H; [discriminate|]. cbn [cbor_decode] in H.
  destruct (head_decode b) as [[[[mt ai] arg] r0]|] eqn:Eh; [|discriminate].
  apply head_decode_spec in Eh as (Hmt & _ & Hc).
  destruct (mt_cases mt Hmt) as [->|[->|[->|[->|[->|[->|[->| ->]]]]]]]; cbv beta iota in H.
  - destruct arg; [|discriminate]. injection H as <- <-. exact Hc.
  - destruct arg; [|discriminate]. injection H as <- <-. exact Hc.
  - destruct arg as [n|].
    + destruct (take n r0) as [[s r']|] eqn:Et; [|discriminate]. injection H as <- <-.
      eapply consumes_suffix_trans; [exact Hc|apply (take_suffix _ _ _ _ Et)].
    + destruct (dec_chunks 2 (S (length r0)) 1 r0) as [[s r']|] eqn:Ec; [|discriminate]. injection H as <- <-.
      eapply consumes_trans; [exact Hc|apply (dec_chunks_consumes _ _ _ _ _ _ Ec)].
  - destruct arg as [n|].
    + destruct (take n r0) as [[s r']|] eqn:Et; [|discriminate].
      destruct (utf8_valid s); [|discriminate]. injection H as <- <-.
      eapply consumes_suffix_trans; [exact Hc|apply (take_suffix _ _ _ _ Et)].
    + destruct (dec_chunks 3 (S (length r0)) 1 r0) as [[s r']|] eqn:Ec; [|discriminate]. injection H as <- <-.
      eapply consumes_trans; [exact Hc|apply (dec_chunks_consumes _ _ _ _ _ _ Ec)].
  - destruct f as [|f']; [discriminate|]. destruct arg as [n|].
    + destruct (N.of_nat (length r0) <? n); [discriminate|].
      destruct (dec_items (cbor_decode (S f')) (N.to_nat n) r0) as [[l r']|] eqn:Ed; [|discriminate].
      injection H as <- <-. eapply consumes_suffix_trans; [exact Hc|apply (dec_items_suffix _ IH _ _ _ _ Ed)].
    + destruct (dec_items_indef (cbor_decode (S f')) (S (length r0)) r0) as [[l r']|] eqn:Ed; [|discriminate].
      injection H as <- <-. eapply consumes_trans; [exact Hc|apply (dec_items_indef_consumes _ IH _ _ _ _ Ed)].
  - destruct f as [|f']; [discriminate|]. destruct arg as [n|].
    + destruct (N.of_nat (length r0) <? n); [discriminate|].
      destruct (dec_pairs (cbor_decode (S f')) (N.to_nat n) r0) as [[l r']|] eqn:Ed; [|discriminate].
      injection H as <- <-. eapply consumes_suffix_trans; [exact Hc|apply (dec_pairs_suffix _ IH _ _ _ _ Ed)].
    + destruct (dec_pairs_indef (cbor_decode (S f')) (S (length r0)) r0) as [[l r']|] eqn:Ed; [|discriminate].
      injection H as <- <-. eapply consumes_trans; [exact Hc|apply (dec_pairs_indef_consumes _ IH _ _ _ _ Ed)].
  - destruct arg as [t|]; [|discriminate].
    destruct (bignum_shape t r0) as [[len r1]|] eqn:Eb.
    + assert (Hs : consumes r0 r1).
      { unfold bignum_shape in Eb. destruct ((t =? 2) || (t =? 3)); [|discriminate].
        destruct (head_decode r0) as [[[[m2 ai2] [len2|]] r2]|] eqn:Eh2; try discriminate.
        destruct ((m2 =? 2) && (len2 <=? 16)); [|discriminate]. injection Eb as <- <-.
        apply head_decode_spec in Eh2 as (_ & _ & Hc2). exact Hc2. }
      destruct (take len r1) as [[s r']|] eqn:Et; [|discriminate].
      assert (Hr : consumes b r').
      { eapply consumes_trans; [exact Hc|]. eapply consumes_suffix_trans; [exact Hs|apply (take_suffix _ _ _ _ Et)]. }
      destruct (length (strip_zeros s) <=? 8)%nat; [injection H as <- <-; exact Hr|].
      destruct ((t =? 3) && (16 <=? length (strip_zeros s))%nat && (128 <=? hd 0 (strip_zeros s))); [discriminate|].
      injection H as <- <-. exact Hr.
    + destruct f as [|f']; [discriminate|].
      destruct (cbor_decode (S f') r0) as [[x r']|] eqn:Ed; [|discriminate]. injection H as <- <-.
      eapply consumes_trans; [exact Hc|apply (IH _ _ _ Ed)].
  - destruct arg as [n|]; [|discriminate].
    destruct (ai =? 25); [injection H as <- <-; exact Hc|].
    destruct (ai =? 26); [injection H as <- <-; exact Hc|].
    destruct (ai =? 27); [injection H as <- <-; exact Hc|].
    apply simple_value_rest in H as ->. exact Hc.
Qed.

Theorem decode_consumes fuel b v r : cbor_decode fuel b = Some (v, r) -> exists used, b = used ++ r /\ used <> [].
Proof. apply decode_consumes_gen. Qed.

Corollary decode_progress fuel b v r : cbor_decode fuel b = Some (v, r) -> (length r < length b)%nat.
Proof. intros H. apply consumes_length, (decode_consumes_gen _ _ _ _ H). Qed.

Corollary decode_nil fuel : cbor_decode fuel [] = None.
Proof.
  destruct (cbor_decode fuel []) as [[v r]|] eqn:E; [|reflexivity].
  apply decode_progress in E. cbn [length] in E. lia.
Qed.

(** * More fuel and a longer input never change an accepted result *)
Lemma take_ext n b a r s : take n b = Some (a, r) -> take n (b ++ s) = Some (a, r ++ s).
Proof. intros H. apply take_spec in H as [-> <-]. rewrite <- app_assoc. apply take_app. Qed.

Lemma head_decode_app b s mt ai arg r : head_decode b = Some (mt, ai, arg, r) ->
  head_decode (b ++ s) = Some (mt, ai, arg, r ++ s).
Proof.
  unfold head_decode. destruct b as [|x r0]; [discriminate|]. cbn [app].
  destruct (8 <=? x / 32); [discriminate|].
  destruct (x mod 32 <? 24). { intros H. injection H as <- <- <- <-. reflexivity. }
  destruct (x mod 32 =? 31). { intros H. injection H as <- <- <- <-. reflexivity. }
  destruct (28 <=? x mod 32); [discriminate|].
  destruct (take (arg_len (x mod 32)) r0) as [[a r']|] eqn:Et; [|discriminate].
  intros H. injection H as <- <- <- <-. rewrite (take_ext _ _ _ _ s Et). reflexivity.
Qed.

Lemma is_break_app b s r : is_break b = Some r -> is_break (b ++ s) = Some (r ++ s).
Proof. intros H. apply is_break_spec in H as ->. reflexivity. Qed.

Lemma is_break_app_none b s : b <> [] -> is_break b = None -> is_break (b ++ s) = None.
Proof. destruct b as [|x r]; [congruence|]. intros _. unfold is_break. cbn [app]. destruct (x =? 255); [discriminate|reflexivity]. Qed.

Section ItemsExt.
  Variables d d' : bytes -> option (cbor * bytes).
  Variable s : bytes.
  Hypothesis Hdd : forall b v r, d b = Some (v, r) -> d' (b ++ s) = Some (v, r ++ s).
  Hypothesis Hne : d [] = None.

  Lemma dec_items_ext cnt : forall b l r, dec_items d cnt b = Some (l, r) -> dec_items d' cnt (b ++ s) = Some (l, r ++ s).
  Proof.
    induction cnt as [|c IH]; intros b l r H; cbn [dec_items] in *.
    - injection H as <- <-. reflexivity.
    - destruct (d b) as [[v r0]|] eqn:E; [|discriminate].
      destruct (dec_items d c r0) as [[l' r']|] eqn:E2; [|discriminate]. injection H as <- <-.
      rewrite (Hdd _ _ _ E), (IH _ _ _ E2). reflexivity.
  Qed.

  Lemma dec_pairs_ext cnt : forall b l r, dec_pairs d cnt b = Some (l, r) -> dec_pairs d' cnt (b ++ s) = Some (l, r ++ s).
  Proof.
    induction cnt as [|c IH]; intros b l r H; cbn [dec_pairs] in *.
    - injection H as <- <-. reflexivity.
    - destruct (d b) as [[k r0]|] eqn:E; [|discriminate].
      destruct (d r0) as [[v r1]|] eqn:E1; [|discriminate].
      destruct (dec_pairs d c r1) as [[l' r']|] eqn:E2; [|discriminate]. injection H as <- <-.
      rewrite (Hdd _ _ _ E), (Hdd _ _ _ E1), (IH _ _ _ E2). reflexivity.
  Qed.

  Lemma dec_items_indef_ext k : forall k' b l r, (k <= k')%nat ->
    dec_items_indef d k b = Some (l, r) -> dec_items_indef d' k' (b ++ s) = Some (l, r ++ s).
  Proof.
    induction k as [|k IH]; intros k' b l r Hk H; cbn [dec_items_indef] in H; [discriminate|].
    destruct k' as [|k']; [lia|]. cbn [dec_items_indef].
    destruct (is_break b) as [r0|] eqn:Eb.
    - injection H as <- <-. rewrite (is_break_app _ s _ Eb). reflexivity.
    - destruct (d b) as [[v r0]|] eqn:E; [|discriminate].
      assert (Hb : b <> []) by (intros ->; congruence).
      rewrite (is_break_app_none _ s Hb Eb), (Hdd _ _ _ E).
      destruct (dec_items_indef d k r0) as [[l' r']|] eqn:E2; [|discriminate]. injection H as <- <-.
      rewrite (IH k' _ _ _ ltac:(lia) E2). reflexivity.
  Qed.

  Lemma dec_pairs_indef_ext k : forall k' b l r, (k <= k')%nat ->
    dec_pairs_indef d k b = Some (l, r) -> dec_pairs_indef d' k' (b ++ s) = Some (l, r ++ s).
  Proof.
    induction k as [|k IH]; intros k' b l r Hk H; cbn [dec_pairs_indef] in H; [discriminate|].
    destruct k' as [|k']; [lia|]. cbn [dec_pairs_indef].
    destruct (is_break b) as [r0|] eqn:Eb.
    - injection H as <- <-. rewrite (is_break_app _ s _ Eb). reflexivity.
    - destruct (d b) as [[key r0]|] eqn:E; [|discriminate].
      assert (Hb : b <> []) by (intros ->; congruence).
      rewrite (is_break_app_none _ s Hb Eb), (Hdd _ _ _ E).
      destruct (d r0) as [[v r1]|] eqn:E1; [|discriminate]. rewrite (Hdd _ _ _ E1).
      destruct (dec_pairs_indef d k r1) as [[l' r']|] eqn:E2; [|discriminate]. injection H as <- <-.
      rewrite (IH k' _ _ _ ltac:(lia) E2). reflexivity.
  Qed.
End ItemsExt.

Lemma dec_chunks_ext mt s k : forall k' nested b c r, (k <= k')%nat ->
  dec_chunks mt k nested b = Some (c, r) -> dec_chunks mt k' nested (b ++ s) = Some (c, r ++ s).
Proof.
  induction k as [|k IH]; intros k' nested b c r Hk H; cbn [dec_chunks] in H; [discriminate|].
  destruct k' as [|k']; [lia|]. cbn [dec_chunks].
  destruct (head_decode b) as [[[[m ai] arg] r0]|] eqn:Eh; [|discriminate].
  rewrite (head_decode_app _ s _ _ _ _ Eh).
  destruct ((m =? 7) && match arg with ArgIndef => true | ArgN _ => false end).
  { destruct nested as [|[|n]].
    - injection H as <- <-. reflexivity.
    - injection H as <- <-. reflexivity.
    - apply IH; [lia|exact H]. }
  destruct (m =? mt); [|discriminate].
  destruct arg as [len|].
  - destruct (take len r0) as [[c0 r1]|] eqn:Et; [|discriminate]. rewrite (take_ext _ _ _ _ s Et).
    destruct ((mt =? 3) && negb (utf8_valid c0)); [discriminate|].
    destruct (dec_chunks mt k nested r1) as [[s' r']|] eqn:E2; [|discriminate]. injection H as <- <-.
    rewrite (IH k' _ _ _ _ ltac:(lia) E2). reflexivity.
  - apply IH; [lia|exact H].
Qed.

Lemma bignum_shape_app t b s len r : bignum_shape t b = Some (len, r) ->
  bignum_shape t (b ++ s) = Some (len, r ++ s).
Proof.
  unfold bignum_shape. destruct ((t =? 2) || (t =? 3)); [|discriminate].
  destruct (head_decode b) as [[[[m ai] [n|]] r0]|] eqn:Eh; try discriminate.
  rewrite (head_decode_app _ s _ _ _ _ Eh).
  destruct ((m =? 2) && (n <=? 16)); [|discriminate]. intros H. injection H as <- <-. reflexivity.
Qed.

Lemma bignum_shape_app_none t b s h : head_decode b = Some h -> bignum_shape t b = None ->
  bignum_shape t (b ++ s) = None.
Proof.
  unfold bignum_shape. destruct ((t =? 2) || (t =? 3)); [|reflexivity].
  destruct h as [[[m ai] arg] r0]. intros Eh. rewrite Eh, (head_decode_app _ s _ _ _ _ Eh).
  destruct arg as [n|]; [|reflexivity]. destruct ((m =? 2) && (n <=? 16)); [discriminate|reflexivity].
Qed.

Lemma decode_head_some fuel b v r : cbor_decode fuel b = Some (v, r) -> exists h, head_decode b = Some h.
Proof.
  destruct fuel as [|f]; [discriminate|]. cbn [cbor_decode].
  destruct (head_decode b) as [h|]; [eauto|discriminate].
Qed.

Theorem decode_mono : forall f f' b v r s, (f <= f')%nat ->
  cbor_decode f b = Some (v, r) -> cbor_decode f' (b ++ s) = Some (v, r ++ s).
Proof.
  induction f as [|f IH]; intros g b v r s Hfg H; [discriminate|].
  destruct g as [|g]; [lia|]. apply Nat.succ_le_mono in Hfg.
  cbn [cbor_decode] in H |- *.
  destruct (head_decode b) as [[[[mt ai] arg] r0]|] eqn:Eh; [|discriminate].
  rewrite (head_decode_app _ s _ _ _ _ Eh).
  apply head_decode_spec in Eh as (Hmt & _ & Hc).
  assert (Hlen : (length r0 <= length (r0 ++ s))%nat) by (rewrite app_length; lia).
  destruct (mt_cases mt Hmt) as [->|[->|[->|[->|[->|[->|[->| ->]]]]]]]; cbv beta iota in H |- *.
  - destruct arg; [|discriminate]. injection H as <- <-. reflexivity.
  - destruct arg; [|discriminate]. injection H as <- <-. reflexivity.
  - destruct arg as [n|].
    + destruct (take n r0) as [[c r']|] eqn:Et; [|discriminate]. injection H as <- <-.
      rewrite (take_ext _ _ _ _ s Et). reflexivity.
    + destruct (dec_chunks 2 (S (length r0)) 1 r0) as [[c r']|] eqn:Ec; [|discriminate]. injection H as <- <-.
      rewrite (dec_chunks_ext 2 s (S (length r0)) (S (length (r0 ++ s))) _ _ _ _ ltac:(lia) Ec). reflexivity.
  - destruct arg as [n|].
    + destruct (take n r0) as [[c r']|] eqn:Et; [|discriminate]. rewrite (take_ext _ _ _ _ s Et).
      destruct (utf8_valid c); [|discriminate]. injection H as <- <-. reflexivity.
    + destruct (dec_chunks 3 (S (length r0)) 1 r0) as [[c r']|] eqn:Ec; [|discriminate]. injection H as <- <-.
      rewrite (dec_chunks_ext 3 s (S (length r0)) (S (length (r0 ++ s))) _ _ _ _ ltac:(lia) Ec). reflexivity.
  - destruct f as [|f0]; [discriminate|]. destruct g as [|g0]; [lia|]. cbv beta iota.
    assert (Hdd : forall b v r, cbor_decode (S f0) b = Some (v, r) -> cbor_decode (S g0) (b ++ s) = Some (v, r ++ s))
      by (intros; apply (IH (S g0)); assumption).
    destruct arg as [n|].
    + destruct (N.ltb_spec (N.of_nat (length r0)) n) as [Hn|Hn]; [discriminate|].
      replace (N.of_nat (length (r0 ++ s)) <? n) with false by lia.
      destruct (dec_items (cbor_decode (S f0)) (N.to_nat n) r0) as [[l r']|] eqn:Ed; [|discriminate].
      injection H as <- <-. rewrite (dec_items_ext _ _ s Hdd _ _ _ _ Ed). reflexivity.
    + destruct (dec_items_indef (cbor_decode (S f0)) (S (length r0)) r0) as [[l r']|] eqn:Ed; [|discriminate].
      injection H as <- <-.
      rewrite (dec_items_indef_ext _ _ s Hdd (decode_nil _) (S (length r0)) (S (length (r0 ++ s))) _ _ _ ltac:(lia) Ed). reflexivity.
  - destruct f as [|f0]; [discriminate|]. destruct g as [|g0]; [lia|]. cbv beta iota.
    assert (Hdd : forall b v r, cbor_decode (S f0) b = Some (v, r) -> cbor_decode (S g0) (b ++ s) = Some (v, r ++ s))
      by (intros; apply (IH (S g0)); assumption).
    destruct arg as [n|].
    + destruct (N.ltb_spec (N.of_nat (length r0)) n) as [Hn|Hn]; [discriminate|].
      replace (N.of_nat (length (r0 ++ s)) <? n) with false by lia.
      destruct (dec_pairs (cbor_decode (S f0)) (N.to_nat n) r0) as [[l r']|] eqn:Ed; [|discriminate].
      injection H as <- <-. rewrite (dec_pairs_ext _ _ s Hdd _ _ _ _ Ed). reflexivity.
    + destruct (dec_pairs_indef (cbor_decode (S f0)) (S (length r0)) r0) as [[l r']|] eqn:Ed; [|discriminate].
      injection H as <- <-.
      rewrite (dec_pairs_indef_ext _ _ s Hdd (decode_nil _) (S (length r0)) (S (length (r0 ++ s))) _ _ _ ltac:(lia) Ed). reflexivity.
  - destruct arg as [t|]; [|discriminate].
    destruct (bignum_shape t r0) as [[len r1]|] eqn:Eb.
    + rewrite (bignum_shape_app _ _ s _ _ Eb).
      destruct (take len r1) as [[c r']|] eqn:Et; [|discriminate]. rewrite (take_ext _ _ _ _ s Et).
      destruct (length (strip_zeros c) <=? 8)%nat; [injection H as <- <-; reflexivity|].
      destruct ((t =? 3) && (16 <=? length (strip_zeros c))%nat && (128 <=? hd 0 (strip_zeros c))); [discriminate|].
      injection H as <- <-. reflexivity.
    + destruct f as [|f0]; [discriminate|]. destruct g as [|g0]; [lia|].
      destruct (cbor_decode (S f0) r0) as [[x r']|] eqn:Ed; [|discriminate]. injection H as <- <-.
      destruct (decode_head_some _ _ _ _ Ed) as [h Hh].
      rewrite (bignum_shape_app_none _ _ s _ Hh Eb), (IH (S g0) _ _ _ s Hfg Ed). reflexivity.
  - destruct arg as [n|]; [|discriminate].
    destruct (ai =? 25); [injection H as <- <-; reflexivity|].
    destruct (ai =? 26); [injection H as <- <-; reflexivity|].
    destruct (ai =? 27); [injection H as <- <-; reflexivity|].
    unfold simple_value in *.
    destruct (n =? 20); [injection H as <- <-; reflexivity|].
    destruct (n =? 21); [injection H as <- <-; reflexivity|].
    destruct ((n =? 22) || (n =? 23)); [injection H as <- <-; reflexivity|discriminate].
Qed.

Corollary decode_fuel_mono f f' b v r : (f <= f')%nat -> cbor_decode f b = Some (v, r) -> cbor_decode f' b = Some (v, r).
Proof. intros Hf H. pose proof (decode_mono f f' b v r [] Hf H) as M. rewrite !app_nil_r in M. exact M. Qed.

Corollary decode_app fuel b v r s : cbor_decode fuel b = Some (v, r) -> cbor_decode fuel (b ++ s) = Some (v, r ++ s).
Proof. apply decode_mono. lia. Qed.

(** every strict prefix of an encoding is rejected (truncation is always an error) *)
Corollary decode_strict_prefix_none fuel v p s : cbor_wf v = true -> (depth v < fuel)%nat ->
  cbor_encode v = p ++ s -> s <> [] -> cbor_decode fuel p = None.
Proof.
  intros Hw Hd E Hs. destruct (cbor_decode fuel p) as [[w r]|] eqn:D; [|reflexivity]. exfalso.
  pose proof (decode_app _ _ _ _ s D) as D'. rewrite <- E in D'.
  pose proof (decode_encode v [] fuel Hw Hd) as D2. rewrite app_nil_r in D2. rewrite D2 in D'.
  injection D' as _ E2. destruct r; destruct s; try discriminate. congruence.
Qed.

(** * Decidable equality *)
Lemma cbor_eqb_true : forall a b, cbor_eqb a b = true -> a = b.
Proof.
  induction a as [z|s|s|l IH|l IH|t x IH|c| | |n|w bits] using cbor_ind';
    intros [z'|s'|s'|l'|l'|t' x'|c'| | |n'|w' bits']; try discriminate; cbn [cbor_eqb]; intros H.
  - apply Z.eqb_eq in H. congruence.
  - apply beq_eq in H. congruence.
  - apply beq_eq in H. congruence.
  - f_equal. revert l' H. induction IH as [|x l Hx _ IHl]; intros [|y l'] H; try discriminate; [reflexivity|].
    apply andb_true_iff in H as [H1 H2]. f_equal; [apply Hx, H1|apply IHl, H2].
  - f_equal. revert l' H. induction IH as [|[k x] l [Hk Hx] _ IHl]; intros [|[k' y] l'] H; try discriminate; [reflexivity|].
    cbn [fst snd] in *.
    apply andb_true_iff in H as [H1 H2]. apply andb_true_iff in H1 as [H0 H1].
    f_equal; [f_equal; [apply Hk, H0|apply Hx, H1]|apply IHl, H2].
  - apply andb_true_iff in H as [H1 H2]. apply N.eqb_eq in H1. apply IH in H2. congruence.
  - apply Bool.eqb_prop in H. congruence.
  - reflexivity.
  - reflexivity.
  - apply N.eqb_eq in H. congruence.
  - apply andb_true_iff in H as [H1 H2]. apply N.eqb_eq in H1, H2. congruence.
Qed.

Lemma cbor_eqb_refl : forall a, cbor_eqb a a = true.
Proof.
  induction a as [z|s|s|l IH|l IH|t x IH|c| | |n|w bits] using cbor_ind'; cbn [cbor_eqb].
  - apply Z.eqb_refl.
  - apply beq_refl.
  - apply beq_refl.
  - induction IH as [|x l Hx _ IHl]; [reflexivity|]. rewrite Hx, IHl. reflexivity.
  - induction IH as [|[k x] l [Hk Hx] _ IHl]; [reflexivity|]. cbn [fst snd] in *. rewrite Hk, Hx, IHl. reflexivity.
  - rewrite N.eqb_refl, IH. reflexivity.
  - destruct c; reflexivity.
  - reflexivity.
  - reflexivity.
  - apply N.eqb_refl.
  - rewrite !N.eqb_refl. reflexivity.
Qed.

Theorem cbor_eqb_eq a b : cbor_eqb a b = true <-> a = b.
Proof. split; [apply cbor_eqb_true|intros ->; apply cbor_eqb_refl]. Qed.

(** * What a decoded value can look like: bounded nesting, no amplification *)
Lemma depth_arr_le l f : Forall (fun x => (depth x <= f)%nat) l ->
  (fold_right (fun x m => Nat.max (depth x) m) O l <= f)%nat.
Proof. induction 1 as [|x l Hx _ IH]; cbn [fold_right]; lia. Qed.

Lemma depth_map_le (l : list (cbor * cbor)) f :
  Forall (fun kv => (depth (fst kv) <= f)%nat /\ (depth (snd kv) <= f)%nat) l ->
  (fold_right (fun (kv : cbor * cbor) m => let (k, x) := kv in Nat.max (Nat.max (depth k) (depth x)) m) O l <= f)%nat.
Proof. induction 1 as [|[k x] l [Hk Hx] _ IH]; cbn [fold_right fst snd] in *; lia. Qed.

(** number of nodes plus payload bytes of a value *)
Fixpoint size (v : cbor) : nat :=
  match v with
  | CBytes s | CText s => S (length s)
  | CArr l => S (fold_right (fun x m => size x + m)%nat O l)
  | CMap l => S (fold_right (fun (kv : cbor * cbor) m => let (k, x) := kv in size k + size x + m)%nat O l)
  | CTag _ x => S (size x)
  | _ => 1%nat
  end.

Section ItemsBounds.
  Variable d : bytes -> option (cbor * bytes).
  Variable f : nat.
  Hypothesis Hdepth : forall b v r, d b = Some (v, r) -> (depth v <= f)%nat.
  Hypothesis Hsize : forall b v r, d b = Some (v, r) -> (size v + length r <= length b)%nat.

  Lemma dec_items_bounds cnt : forall b l r, dec_items d cnt b = Some (l, r) ->
    Forall (fun x => (depth x <= f)%nat) l /\ (fold_right (fun x m => size x + m)%nat O l + length r <= length b)%nat.
  Proof.
    induction cnt as [|c IH]; intros b l r H; cbn [dec_items] in H.
    - injection H as <- <-. split; [constructor|cbn [fold_right]; lia].
    - destruct (d b) as [[v r0]|] eqn:E; [|discriminate].
      destruct (dec_items d c r0) as [[l' r']|] eqn:E2; [|discriminate]. injection H as <- <-.
      destruct (IH _ _ _ E2) as [F S2]. pose proof (Hdepth _ _ _ E). pose proof (Hsize _ _ _ E).
      split; [constructor; assumption|cbn [fold_right]; lia].
  Qed.

  Lemma dec_pairs_bounds cnt : forall b l r, dec_pairs d cnt b = Some (l, r) ->
    Forall (fun kv => (depth (fst kv) <= f)%nat /\ (depth (snd kv) <= f)%nat) l
    /\ (fold_right (fun (kv : cbor * cbor) m => let (k, x) := kv in size k + size x + m)%nat O l + length r <= length b)%nat.
  Proof.
    induction cnt as [|c IH]; intros b l r H; cbn [dec_pairs] in H.
    - injection H as <- <-. split; [constructor|cbn [fold_right]; lia].
    - destruct (d b) as [[k r0]|] eqn:E; [|discriminate].
      destruct (d r0) as [[v r1]|] eqn:E1; [|discriminate].
      destruct (dec_pairs d c r1) as [[l' r']|] eqn:E2; [|discriminate]. injection H as <- <-.
      destruct (IH _ _ _ E2) as [F S2].
      pose proof (Hdepth _ _ _ E). pose proof (Hsize _ _ _ E). pose proof (Hdepth _ _ _ E1). pose proof (Hsize _ _ _ E1).
      split; [constructor; [cbn [fst snd]; split; assumption|assumption]|cbn [fold_right]; lia].
  Qed.

  Lemma dec_items_indef_bounds k : forall b l r, dec_items_indef d k b = Some (l, r) ->
    Forall (fun x => (depth x <= f)%nat) l /\ (fold_right (fun x m => size x + m)%nat O l + length r <= length b)%nat.
  Proof.
    induction k as [|k IH]; intros b l r H; cbn [dec_items_indef] in H; [discriminate|].
    destruct (is_break b) as [r0|] eqn:Eb.
    - injection H as <- <-. apply is_break_spec in Eb as ->. split; [constructor|cbn [fold_right length]; lia].
    - destruct (d b) as [[v r0]|] eqn:E; [|discriminate].
      destruct (dec_items_indef d k r0) as [[l' r']|] eqn:E2; [|discriminate]. injection H as <- <-.
      destruct (IH _ _ _ E2) as [F S2]. pose proof (Hdepth _ _ _ E). pose proof (Hsize _ _ _ E).
      split; [constructor; assumption|cbn [fold_right]; lia].
  Qed.

  Lemma dec_pairs_indef_bounds k : forall b l r, dec_pairs_indef d k b = Some (l, r) ->
    Forall (fun kv => (depth (fst kv) <= f)%nat /\ (depth (snd kv) <= f)%nat) l
    /\ (fold_right (fun (kv : cbor * cbor) m => let (k, x) := kv in size k + size x + m)%nat O l + length r <= length b)%nat.
  Proof.
    induction k as [|k IH]; intros b l r H; cbn [dec_pairs_indef] in H; [discriminate|].
    destruct (is_break b) as [r0|] eqn:Eb.
    - injection H as <- <-. apply is_break_spec in Eb as ->. split; [constructor|cbn [fold_right length]; lia].
    - destruct (d b) as [[key r0]|] eqn:E; [|discriminate].
      destruct (d r0) as [[v r1]|] eqn:E1; [|discriminate].
      destruct (dec_pairs_indef d k r1) as [[l' r']|] eqn:E2; [|discriminate]. injection H as <- <-.
      destruct (IH _ _ _ E2) as [F S2].
      pose proof (Hdepth _ _ _ E). pose proof (Hsize _ _ _ E). pose proof (Hdepth _ _ _ E1). pose proof (Hsize _ _ _ E1).
      split; [constructor; [cbn [fst snd]; split; assumption|assumption]|cbn [fold_right]; lia].
  Qed.
End ItemsBounds.

Lemma take_length n b a r : take n b = Some (a, r) -> length b = (length a + length r)%nat.
Proof. intros H. apply take_spec in H as [-> _]. apply app_length. Qed.

Lemma dec_chunks_size mt k : forall nested b s r, dec_chunks mt k nested b = Some (s, r) ->
  (S (length s) + length r <= length b)%nat.
Proof.
  induction k as [|k IH]; intros nested b s r H; cbn [dec_chunks] in H; [discriminate|].
  destruct (head_decode b) as [[[[m ai] arg] r0]|] eqn:Eh; [|discriminate].
  apply head_decode_spec in Eh as (_ & _ & Hc). apply consumes_length in Hc.
  destruct ((m =? 7) && match arg with ArgIndef => true | ArgN _ => false end).
  { destruct nested as [|[|n]].
    - injection H as <- <-. cbn [length]. lia.
    - injection H as <- <-. cbn [length]. lia.
    - specialize (IH _ _ _ _ H). lia. }
  destruct (m =? mt); [|discriminate].
  destruct arg as [len|].
  - destruct (take len r0) as [[c r1]|] eqn:Et; [|discriminate]. apply take_length in Et.
    destruct ((mt =? 3) && negb (utf8_valid c)); [discriminate|].
    destruct (dec_chunks mt k nested r1) as [[s' r']|] eqn:E2; [|discriminate]. injection H as <- <-.
    specialize (IH _ _ _ _ E2). rewrite app_length. lia.
  - specialize (IH _ _ _ _ H). lia.
Qed.

Lemma strip_zeros_length s : (length (strip_zeros s) <= length s)%nat.
Proof. induction s as [|x s IH]; cbn [strip_zeros length]; [lia|]. destruct x; cbn [length]; lia. Qed.

(** a decoded value nests at most [fuel] deep and is never larger than the input consumed for it *)
Theorem decode_bounds : forall fuel b v r, cbor_decode fuel b = Some (v, r) ->
  (depth v <= fuel)%nat /\ (size v + length r <= length b)%nat.
Proof.
  induction fuel as [|f IH]; intros b v r H; [discriminate|]. cbn [cbor_decode] in H.
  destruct (head_decode b) as [[[[mt ai] arg] r0]|] eqn:Eh; [|discriminate].
  apply head_decode_spec in Eh as (Hmt & _ & Hc). apply consumes_length in Hc.
  destruct (mt_cases mt Hmt) as [->|[->|[->|[->|[->|[->|[->| ->]]]]]]]; cbv beta iota in H.
  - destruct arg; [|discriminate]. injection H as <- <-. cbn [depth size]. lia.
  - destruct arg; [|discriminate]. injection H as <- <-. cbn [depth size]. lia.
  - destruct arg as [n|].
    + destruct (take n r0) as [[s r']|] eqn:Et; [|discriminate]. injection H as <- <-.
      apply take_length in Et. cbn [depth size]. lia.
    + destruct (dec_chunks 2 (S (length r0)) 1 r0) as [[s r']|] eqn:Ec; [|discriminate]. injection H as <- <-.
      apply dec_chunks_size in Ec. cbn [depth size]. lia.
  - destruct arg as [n|].
    + destruct (take n r0) as [[s r']|] eqn:Et; [|discriminate].
      destruct (utf8_valid s); [|discriminate]. injection H as <- <-.
      apply take_length in Et. cbn [depth size]. lia.
    + destruct (dec_chunks 3 (S (length r0)) 1 r0) as [[s r']|] eqn:Ec; [|discriminate]. injection H as <- <-.
      apply dec_chunks_size in Ec. cbn [depth size]. lia.
  - destruct f as [|f']; [discriminate|].
    assert (Hd : forall b v r, cbor_decode (S f') b = Some (v, r) -> (depth v <= S f')%nat) by (intros; eapply IH; eauto).
    assert (Hs : forall b v r, cbor_decode (S f') b = Some (v, r) -> (size v + length r <= length b)%nat) by (intros; eapply IH; eauto).
    destruct arg as [n|].
    + destruct (N.of_nat (length r0) <? n); [discriminate|].
      destruct (dec_items (cbor_decode (S f')) (N.to_nat n) r0) as [[l r']|] eqn:Ed; [|discriminate].
      injection H as <- <-. destruct (dec_items_bounds _ _ Hd Hs _ _ _ _ Ed) as [F S2].
      apply depth_arr_le in F. cbn [depth size]. lia.
    + destruct (dec_items_indef (cbor_decode (S f')) (S (length r0)) r0) as [[l r']|] eqn:Ed; [|discriminate].
      injection H as <- <-. destruct (dec_items_indef_bounds _ _ Hd Hs _ _ _ _ Ed) as [F S2].
      apply depth_arr_le in F. cbn [depth size]. lia.
  - destruct f as [|f']; [discriminate|].
    assert (Hd : forall b v r, cbor_decode (S f') b = Some (v, r) -> (depth v <= S f')%nat) by (intros; eapply IH; eauto).
    assert (Hs : forall b v r, cbor_decode (S f') b = Some (v, r) -> (size v + length r <= length b)%nat) by (intros; eapply IH; eauto).
    destruct arg as [n|].
    + destruct (N.of_nat (length r0) <? n); [discriminate|].
      destruct (dec_pairs (cbor_decode (S f')) (N.to_nat n) r0) as [[l r']|] eqn:Ed; [|discriminate].
      injection H as <- <-. destruct (dec_pairs_bounds _ _ Hd Hs _ _ _ _ Ed) as [F S2].
      apply depth_map_le in F. cbn [depth size]. lia.
    + destruct (dec_pairs_indef (cbor_decode (S f')) (S (length r0)) r0) as [[l r']|] eqn:Ed; [|discriminate].
      injection H as <- <-. destruct (dec_pairs_indef_bounds _ _ Hd Hs _ _ _ _ Ed) as [F S2].
      apply depth_map_le in F. cbn [depth size]. lia.
  - destruct arg as [t|]; [|discriminate].
    destruct (bignum_shape t r0) as [[len r1]|] eqn:Eb.
    + assert (Hs : (length r1 < length r0)%nat).
      { unfold bignum_shape in Eb. destruct ((t =? 2) || (t =? 3)); [|discriminate].
        destruct (head_decode r0) as [[[[m2 ai2] [len2|]] r2]|] eqn:Eh2; try discriminate.
        destruct ((m2 =? 2) && (len2 <=? 16)); [|discriminate]. injection Eb as <- <-.
        apply head_decode_spec in Eh2 as (_ & _ & Hc2). apply consumes_length, Hc2. }
      destruct (take len r1) as [[s r']|] eqn:Et; [|discriminate]. apply take_length in Et.
      pose proof (strip_zeros_length s) as Hz.
      destruct (length (strip_zeros s) <=? 8)%nat; [injection H as <- <-; cbn [depth size]; lia|].
      destruct ((t =? 3) && (16 <=? length (strip_zeros s))%nat && (128 <=? hd 0 (strip_zeros s))); [discriminate|].
      injection H as <- <-. cbn [depth size]. lia.
    + destruct f as [|f']; [discriminate|].
      destruct (cbor_decode (S f') r0) as [[x r']|] eqn:Ed; [|discriminate]. injection H as <- <-.
      destruct (IH _ _ _ Ed) as [D S2]. cbn [depth size]. lia.
  - destruct arg as [n|]; [|discriminate].
    destruct (ai =? 25); [injection H as <- <-; cbn [depth size]; lia|].
    destruct (ai =? 26); [injection H as <- <-; cbn [depth size]; lia|].
    destruct (ai =? 27); [injection H as <- <-; cbn [depth size]; lia|].
    pose proof (simple_value_rest _ _ _ _ H) as ->.
    unfold simple_value in H.
    destruct (n =? 20); [injection H as <-; cbn [depth size]; lia|].
    destruct (n =? 21); [injection H as <-; cbn [depth size]; lia|].
    destruct ((n =? 22) || (n =? 23)); [injection H as <-; cbn [depth size]; lia|discriminate].
Qed.

Corollary decode_depth fuel b v r : cbor_decode fuel b = Some (v, r) -> (depth v <= fuel)%nat.
Proof. intros H. apply (decode_bounds _ _ _ _ H). Qed.

Corollary decode_size fuel b v r : cbor_decode fuel b = Some (v, r) -> (size v + length r <= length b)%nat.
Proof. intros H. apply (decode_bounds _ _ _ _ H). Qed.
