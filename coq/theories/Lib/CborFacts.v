(** Laws of the CBOR model [Lib/Cbor.v]: head round trip, [decode (encode v ++ r) = Some (v, r)],
    prefix freeness, the decoder consumes a non-empty prefix of its input, fuel monotonicity,
    encoder output is bytes, decidable equality. *)
From Coq Require Import ZArith ZifyBool ZifyNat ZifyN Lia.
From PK Require Import Lib.Bytes Lib.Cbor.
Open Scope N_scope.
Ltac Zify.zify_post_hook ::= Z.div_mod_to_equations.

(** * Big-endian numbers *)
Lemma be_val_app a x y : be_val a (x ++ y) = be_val (be_val a x) y.
Proof. revert a; induction x as [|b x IH]; intros a; cbn [be_val app]; [reflexivity|apply IH]. Qed.

Lemma be_bytes_acc_app k : forall n acc, be_bytes_acc k n acc = be_bytes k n ++ acc.
Proof.
  unfold be_bytes. induction k as [|k IH]; intros n acc; cbn [be_bytes_acc]; [reflexivity|].
  rewrite IH, (IH (n / 256) [n mod 256]), <- app_assoc. reflexivity.
Qed.

Lemma be_bytes_S k n : be_bytes (S k) n = be_bytes k (n / 256) ++ [n mod 256].
Proof. unfold be_bytes at 1. cbn [be_bytes_acc]. apply be_bytes_acc_app. Qed.

Lemma be_bytes_length k : forall n, length (be_bytes k n) = k.
Proof.
  induction k as [|k IH]; intros n; [reflexivity|].
  rewrite be_bytes_S, app_length, IH. cbn [length]. lia.
Qed.

Lemma be_bytes_ok k : forall n, bytes_ok (be_bytes k n).
Proof.
  induction k as [|k IH]; intros n; [constructor|].
  rewrite be_bytes_S. apply bytes_ok_app. split; [apply IH|]. constructor; [apply mod256_ok|constructor].
Qed.

Lemma be_val_be_bytes k : forall n, be_val 0 (be_bytes k n) = n mod 256 ^ N.of_nat k.
Proof.
  induction k as [|k IH]; intros n.
  - cbn. rewrite N.mod_1_r. reflexivity.
  - rewrite be_bytes_S, be_val_app, IH. cbn [be_val].
    rewrite Nat2N.inj_succ, N.pow_succ_r by lia.
    rewrite (N.mod_mul_r n 256 (256 ^ N.of_nat k)) by (try apply N.pow_nonzero; lia). lia.
Qed.

Lemma be_round k n : n < 256 ^ N.of_nat k -> be_val 0 (be_bytes k n) = n.
Proof. intros H. rewrite be_val_be_bytes. apply N.mod_small, H. Qed.

(** * [take] *)
Lemma take_0 b : take 0 b = Some ([], b).
Proof. destruct b; reflexivity. Qed.

Lemma take_succ n x b :
  take (N.succ n) (x :: b) = match take n b with Some (a, r) => Some (x :: a, r) | None => None end.
Proof.
  destruct (N.succ n) as [|p] eqn:E; [lia|]. cbn [take]. rewrite <- E, N.pred_succ. reflexivity.
Qed.

Lemma take_app a : forall r, take (N.of_nat (length a)) (a ++ r) = Some (a, r).
Proof.
  induction a as [|x a IH]; intros r.
  - cbn [length N.of_nat app]. apply take_0.
  - cbn [length app]. rewrite Nat2N.inj_succ, take_succ, IH. reflexivity.
Qed.

Lemma take_app_n a n r : n = N.of_nat (length a) -> take n (a ++ r) = Some (a, r).
Proof. intros ->. apply take_app. Qed.

Lemma take_spec : forall b n a r, take n b = Some (a, r) -> b = a ++ r /\ N.of_nat (length a) = n.
Proof.
  induction b as [|x b IH]; intros n a r H.
  - destruct n; cbn [take] in H; [|discriminate]. injection H as <- <-. split; reflexivity.
  - destruct n as [|p].
    + cbn [take] in H. injection H as <- <-. split; reflexivity.
    + cbn [take] in H. destruct (take (N.pred (N.pos p)) b) as [[a' r']|] eqn:E; [|discriminate].
      injection H as <- <-. apply IH in E as [-> E]. split; [reflexivity|].
      cbn [length]. rewrite Nat2N.inj_succ, E. lia.
Qed.

(** * Heads *)
Definition ai_of (n : N) : N :=
  if n <? 24 then n else if n <? 256 then 24 else if n <? TWO16 then 25 else if n <? TWO32 then 26 else 27.

Lemma head_decode_inline mt ai r : mt < 8 -> ai < 24 ->
  head_decode ((mt * 32 + ai) :: r) = Some (mt, ai, ArgN ai, r).
Proof.
  intros Hm Ha. unfold head_decode.
  replace ((mt * 32 + ai) / 32) with mt by lia. replace ((mt * 32 + ai) mod 32) with ai by lia.
  replace (8 <=? mt) with false by lia. replace (ai <? 24) with true by lia. reflexivity.
Qed.

(** a head with [k] = 1, 2, 4, 8 argument bytes (additional info 24..27) *)
Lemma head_decode_ext mt ai k n r : mt < 8 ->
  (ai = 24 /\ k = 1 \/ ai = 25 /\ k = 2 \/ ai = 26 /\ k = 4 \/ ai = 27 /\ k = 8)%nat ->
  head_decode ((mt * 32 + N.of_nat ai) :: be_bytes k n ++ r)
  = Some (mt, N.of_nat ai, ArgN (n mod 256 ^ N.of_nat k), r).
Proof.
  intros Hm Hk. unfold head_decode.
  assert (Ha : 24 <= N.of_nat ai < 28) by lia.
  replace ((mt * 32 + N.of_nat ai) / 32) with mt by lia.
  replace ((mt * 32 + N.of_nat ai) mod 32) with (N.of_nat ai) by lia.
  replace (8 <=? mt) with false by lia. replace (N.of_nat ai <? 24) with false by lia.
  destruct Hk as [[-> ->]|[[-> ->]|[[-> ->]|[-> ->]]]]; cbv beta iota;
    match goal with |- context [take ?c _] =>
      rewrite (take_app_n (be_bytes _ n) c r) by (rewrite be_bytes_length; reflexivity) end;
    rewrite be_val_be_bytes; reflexivity.
Qed.

Lemma head_round mt n r : mt < 8 -> n < TWO64 ->
  head_decode (head_encode mt n ++ r) = Some (mt, ai_of n, ArgN n, r).
Proof.
  intros Hm Hn. unfold head_encode, ai_of, TWO16, TWO32, TWO64 in *.
  destruct (N.ltb_spec n 24) as [H1|H1]; [cbn [app]; apply head_decode_inline; assumption|].
  destruct (N.ltb_spec n 256) as [H2|H2].
  { change [mt * 32 + 24; n] with ((mt * 32 + N.of_nat 24) :: [n]).
    cbn [app]. replace [n] with (be_bytes 1 n).
    2:{ unfold be_bytes. cbn [be_bytes_acc]. f_equal. lia. }
    change (n :: r) with ([n] ++ r). replace [n] with (be_bytes 1 n).
    2:{ unfold be_bytes. cbn [be_bytes_acc]. f_equal. lia. }
    rewrite (head_decode_ext mt 24 1 n r) by (auto; lia). cbn [N.of_nat Pos.of_succ_nat Pos.succ].
    repeat f_equal. change (N.of_nat 1) with 1. rewrite N.pow_1_r. lia. }
  destruct (N.ltb_spec n 65536) as [H3|H3].
  { cbn [app]. change 25 with (N.of_nat 25) at 1. rewrite (head_decode_ext mt 25 2 n r) by (auto; lia).
    change (256 ^ N.of_nat 2) with 65536. change (N.of_nat 25) with 25. repeat f_equal. lia. }
  destruct (N.ltb_spec n 4294967296) as [H4|H4].
  { cbn [app]. change 26 with (N.of_nat 26) at 1. rewrite (head_decode_ext mt 26 4 n r) by (auto; lia).
    change (256 ^ N.of_nat 4) with 4294967296. change (N.of_nat 26) with 26. repeat f_equal. lia. }
  cbn [app]. change 27 with (N.of_nat 27) at 1. rewrite (head_decode_ext mt 27 8 n r) by (auto; lia).
  change (256 ^ N.of_nat 8) with 18446744073709551616. change (N.of_nat 27) with 27. repeat f_equal. lia.
Qed.

(** * Nested induction principle *)
Section CborInd.
  Variable P : cbor -> Prop.
  Hypothesis HInt : forall z, P (CInt z).
  Hypothesis HBytes : forall b, P (CBytes b).
  Hypothesis HText : forall b, P (CText b).
  Hypothesis HArr : forall l, Forall P l -> P (CArr l).
  Hypothesis HMap : forall l, Forall (fun kv : cbor * cbor => P (fst kv) /\ P (snd kv)) l -> P (CMap l).
  Hypothesis HTag : forall t v, P v -> P (CTag t v).
  Hypothesis HBool : forall b, P (CBool b).
  Hypothesis HNull : P CNull.
  Hypothesis HUndef : P CUndef.
  Hypothesis HSimple : forall n, P (CSimple n).
  Hypothesis HFloat : forall w b, P (CFloat w b).

  Fixpoint cbor_ind' (v : cbor) : P v :=
    match v with
    | CInt z => HInt z
    | CBytes b => HBytes b
    | CText b => HText b
    | CArr l =>
        HArr l ((fix go (l : list cbor) : Forall P l :=
                   match l with
                   | [] => Forall_nil _
                   | x :: r => Forall_cons x (cbor_ind' x) (go r)
                   end) l)
    | CMap l =>
        HMap l ((fix go (l : list (cbor * cbor)) : Forall (fun kv => P (fst kv) /\ P (snd kv)) l :=
                   match l with
                   | [] => Forall_nil _
                   | kv :: r => Forall_cons kv (conj (cbor_ind' (fst kv)) (cbor_ind' (snd kv))) (go r)
                   end) l)
    | CTag t x => HTag t x (cbor_ind' x)
    | CBool b => HBool b
    | CNull => HNull
    | CUndef => HUndef
    | CSimple n => HSimple n
    | CFloat w b => HFloat w b
    end.
End CborInd.

(** * Encoder: first byte, non-emptiness, output is bytes *)
Definition major_of (v : cbor) : N :=
  match v with
  | CInt (Zneg _) => 1
  | CInt _ => 0
  | CBytes _ => 2
  | CText _ => 3
  | CArr _ => 4
  | CMap _ => 5
  | CTag _ _ => 6
  | _ => 7
  end.

Lemma head_encode_first mt n : mt < 8 -> exists x t, head_encode mt n = x :: t /\ x / 32 = mt.
Proof.
  intros Hm. unfold head_encode.
  destruct (n <? 24) eqn:E1; [eexists; eexists; split; [reflexivity|lia]|].
  destruct (n <? 256); [eexists; eexists; split; [reflexivity|lia]|].
  destruct (n <? TWO16); [eexists; eexists; split; [reflexivity|lia]|].
  destruct (n <? TWO32); eexists; eexists; (split; [reflexivity|lia]).
Qed.

Lemma encode_first v : exists x t, cbor_encode v = x :: t /\ x / 32 = major_of v.
Proof.
  assert (A : forall mt n (rest : bytes), mt < 8 -> exists x t, head_encode mt n ++ rest = x :: t /\ x / 32 = mt).
  { intros mt n rest Hm. destruct (head_encode_first mt n Hm) as (x & t & -> & Hx).
    exists x, (t ++ rest). split; [reflexivity|exact Hx]. }
  destruct v as [z|b|b|l|l|t x|b| | |n|w bits]; cbn [cbor_encode major_of].
  - destruct z; [rewrite <- (app_nil_r (head_encode 0 _))|rewrite <- (app_nil_r (head_encode 0 _))
                 |rewrite <- (app_nil_r (head_encode 1 _))]; apply A; lia.
  - apply A; lia.
  - apply A; lia.
  - apply A; lia.
  - apply A; lia.
  - apply A; lia.
  - destruct b; eexists; eexists; (split; [reflexivity|reflexivity]).
  - eexists; eexists; (split; [reflexivity|reflexivity]).
  - eexists; eexists; (split; [reflexivity|reflexivity]).
  - rewrite <- (app_nil_r (head_encode 7 n)). apply A; lia.
  - eexists; eexists; split; [reflexivity|].
    unfold float_ai. destruct w as [|[[[]|[]|]|[[]|[]|]|]]; reflexivity.
Qed.

Lemma encode_nonempty v : cbor_encode v <> [].
Proof. destruct (encode_first v) as (x & t & -> & _). discriminate. Qed.

Lemma encode_length_pos v : (1 <= length (cbor_encode v))%nat.
Proof. destruct (encode_first v) as (x & t & -> & _). cbn [length]. lia. Qed.

Lemma flat_map_encode_length l : (length l <= length (flat_map cbor_encode l))%nat.
Proof.
  induction l as [|x l IH]; cbn [flat_map length]; [lia|].
  rewrite app_length. pose proof (encode_length_pos x). lia.
Qed.

Lemma flat_map_pairs_length (l : list (cbor * cbor)) :
  (length l <= length (flat_map (fun kv : cbor * cbor => let (k, x) := kv in cbor_encode k ++ cbor_encode x) l))%nat.
Proof.
  induction l as [|[k x] l IH]; cbn [flat_map length]; [lia|].
  rewrite !app_length. pose proof (encode_length_pos k). lia.
Qed.

Lemma head_encode_ok mt n : mt < 8 -> bytes_ok (head_encode mt n).
Proof.
  intros Hm. unfold head_encode, bytes_ok.
  destruct (N.ltb_spec n 24); [constructor; [unfold byte_ok; lia|constructor]|].
  destruct (N.ltb_spec n 256); [constructor; [unfold byte_ok; lia|constructor; [unfold byte_ok; lia|constructor]]|].
  destruct (n <? TWO16); [constructor; [unfold byte_ok; lia|apply be_bytes_ok]|].
  destruct (n <? TWO32); (constructor; [unfold byte_ok; lia|apply be_bytes_ok]).
Qed.

(** UTF-8 validity implies every element is a byte *)
Lemma utf8_valid_ok : forall n b, (length b <= n)%nat -> utf8_valid b = true -> bytes_ok b.
Proof.
  unfold bytes_ok, byte_ok.
  induction n as [|n IH]; intros b Hl Hv.
  - destruct b; [constructor|cbn [length] in Hl; lia].
  - destruct b as [|x r]; [constructor|]. cbn [length] in Hl. cbn [utf8_valid] in Hv.
    destruct (N.ltb_spec x 128) as [H1|H1]; [constructor; [lia|apply IH; [lia|exact Hv]]|].
    destruct (N.ltb_spec x 194) as [H2|H2]; [discriminate|].
    destruct (N.ltb_spec x 224) as [H3|H3].
    { destruct r as [|y r1]; [discriminate|]. cbn [length] in Hl.
      apply andb_true_iff in Hv as [Hy Hv]. unfold utf8_cont, in_range in Hy.
      constructor; [lia|]. constructor; [lia|]. apply IH; [lia|exact Hv]. }
    destruct (N.ltb_spec x 240) as [H4|H4].
    { destruct r as [|y [|z r2]]; try discriminate. cbn [length] in Hl.
      apply andb_true_iff in Hv as [Hv Hr]. apply andb_true_iff in Hv as [Hy Hz].
      unfold utf8_cont, in_range in *.
      assert (y < 256) by (destruct (x =? 224); [lia|destruct (x =? 237); lia]).
      repeat (constructor; [lia|]). apply IH; [lia|exact Hr]. }
    destruct (N.ltb_spec x 245) as [H5|H5]; [|discriminate].
    destruct r as [|y [|z [|w r3]]]; try discriminate. cbn [length] in Hl.
    apply andb_true_iff in Hv as [Hv Hr]. apply andb_true_iff in Hv as [Hv Hw]. apply andb_true_iff in Hv as [Hy Hz].
    unfold utf8_cont, in_range in *.
    assert (y < 256) by (destruct (x =? 240); [lia|destruct (x =? 244); lia]).
    repeat (constructor; [lia|]). apply IH; [lia|exact Hr].
Qed.

Lemma utf8_bytes_ok b : utf8_valid b = true -> bytes_ok b.
Proof. apply (utf8_valid_ok (length b)). lia. Qed.

Lemma encode_ok : forall v, cbor_wf v = true -> bytes_ok (cbor_encode v).
Proof.
  induction v as [z|b|b|l IH|l IH|t x IH|b| | |n|w bits] using cbor_ind'; intros Hwf; cbn [cbor_encode cbor_wf] in *.
  - destruct z; apply head_encode_ok; lia.
  - apply andb_true_iff in Hwf as [Hb _]. apply bytes_ok_app. split; [apply head_encode_ok; lia|].
    apply bytes_okb_spec, Hb.
  - apply andb_true_iff in Hwf as [Hb _]. apply bytes_ok_app. split; [apply head_encode_ok; lia|].
    apply utf8_bytes_ok, Hb.
  - apply andb_true_iff in Hwf as [Hl _]. apply bytes_ok_app. split; [apply head_encode_ok; lia|].
    induction IH as [|x l Hx _ IHl]; cbn [flat_map forallb] in *; [constructor|].
    apply andb_true_iff in Hl as [H1 H2]. apply bytes_ok_app. split; [apply Hx, H1|apply IHl, H2].
  - apply andb_true_iff in Hwf as [Hl _]. apply bytes_ok_app. split; [apply head_encode_ok; lia|].
    induction IH as [|[k x] l [Hk Hx] _ IHl]; cbn [flat_map forallb fst snd] in *; [constructor|].
    apply andb_true_iff in Hl as [H1 H2]. apply andb_true_iff in H1 as [H1 H1'].
    rewrite !bytes_ok_app. split; [split; [apply Hk, H1|apply Hx, H1']|apply IHl, H2].
  - apply andb_true_iff in Hwf as [Hwf _]. apply andb_true_iff in Hwf as [_ Hx].
    apply bytes_ok_app. split; [apply head_encode_ok; lia|apply IH, Hx].
  - destruct b; (constructor; [unfold byte_ok; lia|constructor]).
  - constructor; [unfold byte_ok; lia|constructor].
  - discriminate.
  - discriminate.
  - constructor; [|apply be_bytes_ok]. unfold byte_ok, float_ai.
    destruct w as [|[[[]|[]|]|[[]|[]|]|]]; lia.
Qed.
