(** Differential correspondence of [Lib/Sha256.v] and [Lib/Hmac.v] against the crates sha2 / hmac
    (cases from [driver/libcheck.py]). *)
From PK Require Import Lib.Bytes Lib.Check Lib.Sha256 Lib.Hmac.
Open Scope N_scope.

Inductive hashcase :=
| HSha (m impl : bytes)             (* sha2::Sha256::digest(m) *)
| HHmac (key m impl : bytes).       (* hmac::Hmac<Sha256> keyed with [key] over [m] *)

Definition agree (c : hashcase) : bool :=
  match c with
  | HSha m impl => beq (sha256 m) impl
  | HHmac k m impl => beq (hmac_sha256 k m) impl
  end.
