(** Base64 / base64url as used by passkey-types/src/utils/encoding.rs and utils/bytes.rs
    (crate data-encoding 2.x: BASE64_NOPAD, BASE64URL_NOPAD and the lenient decoders built
    from BASE64 / BASE64URL).  Executable model only; the laws are in [Base64Facts.v].
    Strings are byte lists (the UTF-8 bytes of the Rust [&str]).

    - [b64url_encode]   = [encoding::base64url]  (BASE64URL_NOPAD.encode): RFC 4648 section 5 alphabet, no padding
    - [b64_encode]      = [encoding::base64]     (BASE64_NOPAD.encode): RFC 4648 section 4 alphabet, no padding
    - [try_from_base64url] = [encoding::try_from_base64url]: strips *every* trailing '=' (any number of
      them, [trim_end_matches]), then decodes with the url alphabet, no padding, and
      [check_trailing_bits = false]: non-zero unused bits in the last character are ignored
      (["QR"] and ["QQ"] both decode to ["A"]).
    - [try_from_base64]    = [encoding::try_from_base64] (pub(crate)): strips every trailing '=', then decodes
      with BASE64_NOPAD: standard alphabet and non-zero trailing bits are an error.
    - both reject: a length of 1 mod 4 (after stripping), any character outside the alphabet (including
      '=' that is not at the end, whitespace, and the other variant's two special characters).
    - [bytes_try_from_str] = [impl TryFrom<&str> for Bytes]: url first, then standard.

    Outside the model: nothing for these functions (they are total on [&str]); the model takes any
    byte list, the Rust functions only valid UTF-8 (bytes >= 128 are outside both alphabets anyway). *)
From PK Require Export Lib.Bytes.
Open Scope N_scope.

(** the character of a 6-bit value *)
Definition b64_char (url : bool) (v : N) : N :=
  if v <? 26 then 65 + v                      (* A-Z *)
  else if v <? 52 then 71 + v                 (* a-z : 97 + (v - 26) *)
  else if v <? 62 then v - 4                  (* 0-9 : 48 + (v - 52) *)
  else if v =? 62 then (if url then 45 else 43)    (* '-' | '+' *)
  else (if url then 95 else 47).                   (* '_' | '/' *)

(** the 6-bit value of a character *)
Definition b64_val (url : bool) (c : N) : option N :=
  if (65 <=? c) && (c <=? 90) then Some (c - 65)
  else if (97 <=? c) && (c <=? 122) then Some (c - 71)
  else if (48 <=? c) && (c <=? 57) then Some (c + 4)
  else if c =? (if url then 45 else 43) then Some 62
  else if c =? (if url then 95 else 47) then Some 63
  else None.

(** bytes -> 6-bit values, most significant bits first, last value zero-filled *)
Fixpoint b64_sextets (b : bytes) : list N :=
  match b with
  | x :: y :: z :: r =>
      x / 4 :: (x mod 4) * 16 + y / 16 :: (y mod 16) * 4 + z / 64 :: z mod 64 :: b64_sextets r
  | [x; y] => [x / 4; (x mod 4) * 16 + y / 16; (y mod 16) * 4]
  | [x] => [x / 4; (x mod 4) * 16]
  | [] => []
  end.

(** 6-bit values -> bytes; [check]: the unused low bits of the last value must be zero *)
Fixpoint b64_unsextets (check : bool) (v : list N) : option bytes :=
  match v with
  | a :: b :: c :: d :: r =>
      match b64_unsextets check r with
      | Some t => Some (a * 4 + b / 16 :: (b mod 16) * 16 + c / 4 :: (c mod 4) * 64 + d :: t)
      | None => None
      end
  | [a; b; c] => if check && negb (c mod 4 =? 0) then None else Some [a * 4 + b / 16; (b mod 16) * 16 + c / 4]
  | [a; b] => if check && negb (b mod 16 =? 0) then None else Some [a * 4 + b / 16]
  | [_] => None                                 (* invalid length *)
  | [] => Some []
  end.

Fixpoint b64_values (url : bool) (s : bytes) : option (list N) :=
  match s with
  | [] => Some []
  | c :: r =>
      match b64_val url c, b64_values url r with
      | Some v, Some t => Some (v :: t)
      | _, _ => None
      end
  end.

(** [str::trim_end_matches('=')] *)
Fixpoint strip_pad (s : bytes) : bytes :=
  match s with
  | [] => []
  | c :: r =>
      match strip_pad r with
      | [] => if c =? 61 then [] else [c]
      | r' => c :: r'
      end
  end.

Definition b64_encode_gen (url : bool) (b : bytes) : bytes := map (b64_char url) (b64_sextets b).
Definition b64_decode_gen (url check : bool) (s : bytes) : option bytes :=
  match b64_values url (strip_pad s) with
  | Some v => b64_unsextets check v
  | None => None
  end.

Definition b64url_encode : bytes -> bytes := b64_encode_gen true.
Definition b64_encode : bytes -> bytes := b64_encode_gen false.
Definition try_from_base64url : bytes -> option bytes := b64_decode_gen true false.
Definition try_from_base64 : bytes -> option bytes := b64_decode_gen false true.
Definition b64url_decode := try_from_base64url.
Definition b64_decode := try_from_base64.

(** [impl TryFrom<&str> for Bytes] *)
Definition bytes_try_from_str (s : bytes) : option bytes :=
  match try_from_base64url s with
  | Some b => Some b
  | None => try_from_base64 s
  end.

(** '=' padding to a multiple of four characters (what a padding encoder would append) *)
Definition b64_padding (b : bytes) : bytes :=
  match (length b mod 3)%nat with
  | 1%nat => [61; 61]
  | 2%nat => [61]
  | _ => []
  end.
