(** Executable model of passkey-transports/src/hid.rs (CTAPHID framing).
    Transcribed function by function; every Rust slice/index/arithmetic operation that
    can panic is written as an explicit [None] (= panic) in the [option]-returning
    functions so that "never panics" is a theorem and not an artefact of totalisation.
    Numeric constants come from the generated file [HidConsts] (translator over hid.rs). *)
From PK Require Export Lib.Bytes.
From PK Require Export Hid.gen.HidConsts.
Open Scope N_scope.

(** Sizes as [nat] for list operations (small numerals only). *)
Definition PKT : nat := N.to_nat MAX_PACKET_SIZE.
Definition INIT_H : nat := N.to_nat INIT_HEADER_SIZE.
Definition CONT_H : nat := N.to_nat CONT_HEADER_SIZE.
Definition INIT_MAX : nat := PKT - INIT_H.
Definition CONT_MAX : nat := PKT - CONT_H.

(** [Command::try_from(u8)]: the table is generated from the source. *)
Definition valid_cmd (c : N) : bool := existsb (N.eqb c) COMMANDS.

Record message := Msg {
  m_ch : N;            (* u32 *)
  m_cmd : N;           (* Command discriminant *)
  m_seq : N;           (* u8: number of continuation packets consumed *)
  m_plen : nat;        (* payload_len: usize *)
  m_payload : bytes }.

(** [Message::new] *)
Definition message_new (ch cmd : N) (data : bytes) : option message :=
  let len := N.of_nat (length data) in
  if U16_MAX <? len then None else
  let rest := len - N.of_nat INIT_MAX in               (* saturating_sub: N.sub truncates *)
  if (0 <? rest) && (MAX_CONT_PACKETS <? rest / N.of_nat CONT_MAX + 1) then None else
  Some (Msg ch cmd 0 (length data) data).

Inductive header :=
| HInit (ch cmd : N) (plen : nat)
| HCont (ch seq : N).

Definition header_len (h : header) : nat :=
  match h with HInit _ _ _ => INIT_H | HCont _ _ => CONT_H end.

(** slice.chunks(n) *)
Fixpoint chunks_fuel (fuel n : nat) (l : bytes) : list bytes :=
  match fuel with
  | O => []
  | S f => match l with
           | [] => []
           | _ => firstn n l :: chunks_fuel f n (skipn n l)
           end
  end.
Definition chunks (n : nat) (l : bytes) : list bytes := chunks_fuel (length l) n l.

Fixpoint number_from {A} (i : N) (l : list A) : list (N * A) :=
  match l with [] => [] | x :: r => (i, x) :: number_from (i + 1) r end.

(** [Message::to_packets] *)
Definition to_packets (m : message) : list (header * bytes) :=
  let ih := HInit (m_ch m) (m_cmd m) (m_plen m) in
  if (m_plen m <=? INIT_MAX)%nat then [(ih, m_payload m)]
  else (ih, firstn INIT_MAX (m_payload m))
       :: map (fun ic => (HCont (m_ch m) (fst ic), snd ic))
              (number_from 0 (chunks CONT_MAX (skipn INIT_MAX (m_payload m)))).

(** channel bytes: [u32::to_ne_bytes]; [NATIVE_LITTLE_ENDIAN] is reported by the translator
    for the platform the check runs on and validated by the correspondence run. *)
Definition chan_bytes (ch : N) : bytes := if NATIVE_LITTLE_ENDIAN then le32 ch else be32 ch.
Definition chan_dec (a b c d : N) : N := if NATIVE_LITTLE_ENDIAN then le32_dec a b c d else be32_dec a b c d.

Definition header_bytes (h : header) : bytes :=
  match h with
  | HInit ch cmd plen => chan_bytes ch ++ [N.lor DESCRIPTOR_BIT cmd] ++ be16 (N.of_nat plen)
  | HCont ch seq => chan_bytes ch ++ [seq]
  end.

(** [PacketHeader::encode] into the re-used buffer: the header bytes and the data overwrite the
    front of [buf]; whatever the buffer held beyond them stays.  [copy_from_slice] panics when
    the data is longer than the room: [None]. *)
Definition encode_into (h : header) (data buf : bytes) : option bytes :=
  let hb := header_bytes h in
  let maxp := (PKT - header_len h)%nat in
  if (maxp <? length data)%nat then None
  else Some (hb ++ data ++ skipn (length hb + length data) buf).

Definition zero_from (k : nat) (buf : bytes) : bytes :=
  firstn k buf ++ repeat 0 (length buf - k).

(** the loop of [Message::send]; [i] counts up to [last] *)
Fixpoint send_loop (i last : nat) (buf : bytes) (pk : list (header * bytes)) : option (list bytes) :=
  match pk with
  | [] => Some []
  | (h, data) :: rest =>
      let buf1 := if (i =? last)%nat then zero_from (header_len h + length data) buf else buf in
      match encode_into h data buf1 with
      | None => None
      | Some buf2 =>
          match send_loop (S i) last buf2 rest with
          | None => None
          | Some out => Some (buf2 :: out)
          end
      end
  end.

(** [Message::send]: the packets written, one [write] each. *)
Definition send (m : message) : option (list bytes) :=
  let pk := to_packets m in
  send_loop 0 (length pk - 1) (repeat 0 PKT) pk.

(** *** Receiving *)

(** [InitHeader::try_from(channel, data)], [data] starts at the command byte *)
Definition parse_init (ch : N) (data : bytes) : option (header * bytes) :=
  if (length data <? INIT_H - 4)%nat then None else
  match data with
  | cb :: hi :: lo :: rest =>
      let cmdb := N.land cb (255 - DESCRIPTOR_BIT) in
      if negb (valid_cmd cmdb) then None else
      let plen := N.to_nat (be16_dec hi lo) in
      if (INIT_MAX <? plen)%nat
      then Some (HInit ch cmdb plen, firstn INIT_MAX rest)
      else if (length rest <? plen)%nat then None
           else Some (HInit ch cmdb plen, firstn plen rest)
  | _ => None
  end.

(** [PacketHeader::try_from] *)
Definition parse_packet (p : bytes) : option (header * bytes) :=
  if (length p <? CONT_H)%nat then None else
  match p with
  | a :: b :: c :: d :: rest =>
      let ch := chan_dec a b c d in
      match rest with
      | x :: rest' =>
          if N.land x DESCRIPTOR_BIT =? DESCRIPTOR_BIT
          then parse_init ch rest
          else Some (HCont ch x, rest')
      | [] => None
      end
  | _ => None
  end.

Inductive ext_result :=
| ExtDone (m : message) (complete : bool)
| ExtErr (m : message)            (* error returned, message possibly mutated *)
| ExtPanic.

(** [Message::extend]; the arithmetic [payload_len - payload.len()] can underflow (panic)
    and [sequence += 1] can overflow u8 (panic in debug): both explicit. *)
Definition extend (m : message) (ch seq : N) (data : bytes) : ext_result :=
  if negb (m_ch m =? ch) then ExtErr m else
  if seq =? m_seq m then
    if 255 <=? m_seq m then ExtPanic else
    let m1 := Msg (m_ch m) (m_cmd m) (m_seq m + 1) (m_plen m) (m_payload m) in
    if (m_plen m <? length (m_payload m))%nat then ExtPanic else
    let remaining := (m_plen m - length (m_payload m))%nat in
    if (remaining <=? CONT_MAX)%nat then
      if (length data <? remaining)%nat then ExtErr m1
      else ExtDone (Msg (m_ch m1) (m_cmd m1) (m_seq m1) (m_plen m1) (m_payload m1 ++ firstn remaining data)) true
    else
      if (length data <? CONT_MAX)%nat then ExtErr m1
      else ExtDone (Msg (m_ch m1) (m_cmd m1) (m_seq m1) (m_plen m1) (m_payload m1 ++ firstn CONT_MAX data)) false
  else ExtErr m.

(** [HashMap<u32, Message>] as an association list with unique keys *)
Definition table := list (N * message).
Fixpoint t_get (t : table) (c : N) : option message :=
  match t with [] => None | (k, v) :: r => if k =? c then Some v else t_get r c end.
Fixpoint t_remove (t : table) (c : N) : table :=
  match t with [] => [] | (k, v) :: r => if k =? c then t_remove r c else (k, v) :: t_remove r c end.
Definition t_insert (t : table) (c : N) (m : message) : table := (c, m) :: t_remove t c.

Inductive hp_result :=
| HP (t : table) (out : option message)
| HPPanic.

(** [ChannelHandler::handle_packet] *)
Definition handle_packet (t : table) (p : bytes) : hp_result :=
  match parse_packet p with
  | None => HP t None
  | Some (HInit ch cmd plen, payload) =>
      let m := Msg ch cmd 0 plen payload in
      if (plen =? length payload)%nat then HP t (Some m)
      else HP (t_insert t ch m) None
  | Some (HCont ch seq, payload) =>
      match t_get t ch with
      | None => HP t None
      | Some m =>
          match extend m ch seq payload with
          | ExtPanic => HPPanic
          | ExtErr m' => HP (t_insert t ch m') None
          | ExtDone m' true => HP (t_remove t ch) (Some m')
          | ExtDone m' false => HP (t_insert t ch m') None
          end
      end
  end.

(** feeding a sequence of packets; [None] = a panic occurred *)
Fixpoint run (t : table) (ps : list bytes) : option (table * list (option message)) :=
  match ps with
  | [] => Some (t, [])
  | p :: r =>
      match handle_packet t p with
      | HPPanic => None
      | HP t' o =>
          match run t' r with
          | None => None
          | Some (t'', os) => Some (t'', o :: os)
          end
      end
  end.
