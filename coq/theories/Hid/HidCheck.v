(** Correspondence checks and the property oracle for the CTAPHID domain.
    Everything here is executable and is evaluated by generated case files. *)
From PK Require Import Lib.Bytes Lib.Check Hid.HidModel.
Open Scope N_scope.

(** *** An independent reading of the CTAPHID wire format (the oracle).
    Written from the CTAP specification (11.2.4), not from the sender model. *)
Fixpoint split_packets (fuel : nat) (wire : bytes) : list bytes :=
  match fuel with
  | O => []
  | S f => match wire with [] => [] | _ => firstn 64 wire :: split_packets f (skipn 64 wire) end
  end.

Definition all_zero (l : bytes) : bool := forallb (N.eqb 0) l.

(** continuation packets [seq], [seq+1], ... carrying [rest] *)
Fixpoint spec_conts (ch4 : bytes) (seq : N) (rest : bytes) (pks : list bytes) : bool :=
  match pks with
  | [] => match rest with [] => true | _ => false end
  | p :: pks' =>
      match rest with
      | [] => false                                (* a packet with nothing left to carry *)
      | _ =>
        (length p =? 64)%nat && beq (firstn 4 p) ch4 && (nth 4 p 0 =? seq) && (seq <? 128)
        && beq (firstn 59 rest) (firstn (length (firstn 59 rest)) (skipn 5 p))
        && all_zero (skipn (5 + length (firstn 59 rest)) p)
        && spec_conts ch4 (seq + 1) (skipn 59 rest) pks'
      end
  end.

(** [wire] is a correct CTAPHID transmission of (ch, cmd, payload) *)
Definition spec_wire_ok (ch4 : bytes) (cmd : N) (payload wire : bytes) : bool :=
  match split_packets (S (length wire)) wire with
  | [] => false
  | p0 :: conts =>
      (length p0 =? 64)%nat && beq (firstn 4 p0) ch4
      && (nth 4 p0 0 =? 128 + cmd)
      && (nth 5 p0 0 * 256 + nth 6 p0 0 =? N.of_nat (length payload))
      && beq (firstn 57 payload) (firstn (length (firstn 57 payload)) (skipn 7 p0))
      && all_zero (skipn (7 + length (firstn 57 payload)) p0)
      && spec_conts ch4 0 (skipn 57 payload) conts
  end.

(** *** Cases *)
Inductive hcase :=
| CSend (ch cmd : N) (payload : bytes) (impl : option bytes)
    (* Message::new + send; impl = None when refused, Some wire otherwise *)
| CRecv (packets : list bytes) (impl : list (option (N * N * bytes)))
    (* handle_packet over a packet sequence from a fresh handler *)
| CStreams (msgs : list (N * N * bytes)) (sched : list nat) (packets : list bytes) (impl : list (option (N * N * bytes))).
    (* packets = the implementation's own packets of [msgs] merged by [sched] *)

Definition out_eqb (a : option message) (b : option (N * N * bytes)) : bool :=
  match a, b with
  | None, None => true
  | Some m, Some (ch, cmd, pl) => (m_ch m =? ch) && (m_cmd m =? cmd) && beq (m_payload m) pl
  | _, _ => false
  end.

Fixpoint outs_eqb (a : list (option message)) (b : list (option (N * N * bytes))) : bool :=
  match a, b with
  | [], [] => true
  | x :: a', y :: b' => out_eqb x y && outs_eqb a' b'
  | _, _ => false
  end.

(** model = implementation *)
Definition agree (c : hcase) : bool :=
  match c with
  | CSend ch cmd payload impl =>
      match message_new ch cmd payload, impl with
      | None, None => true
      | Some m, Some w =>
          match send m with
          | Some pk => beq (concat pk) w
          | None => false
          end
      | _, _ => false
      end
  | CRecv packets impl | CStreams _ _ packets impl =>
      match run [] packets with
      | Some (_, outs) => outs_eqb outs impl
      | None => false
      end
  end.

(** position [j] of the merged stream is the last packet of its stream *)
Fixpoint expected_outs (msgs : list (N * N * bytes)) (remaining : list nat) (sched : list nat)
  : list (option (N * N * bytes)) :=
  match sched with
  | [] => []
  | i :: r =>
      let k := nth i remaining O in
      let remaining' := firstn i remaining ++ [pred k] ++ skipn (S i) remaining in
      (if (k =? 1)%nat then nth_error msgs i else None) :: expected_outs msgs remaining' r
  end.

Definition npackets (payload : bytes) : nat :=
  if (length payload <=? 57)%nat then 1 else 1 + (length payload - 57 + 58) / 59.

Definition triple_eqb (a b : N * N * bytes) : bool :=
  let '(x, y, z) := a in let '(x', y', z') := b in (x =? x') && (y =? y') && beq z z'.

(** the property, stated on the implementation's observation alone *)
Definition oracle (c : hcase) : bool :=
  match c with
  | CSend ch cmd payload impl =>
      match impl with
      | None => true   (* refusing is always allowed by the statement; agreement pins the limit *)
      | Some w => (N.of_nat (length payload) <=? 7609)
                  && spec_wire_ok (firstn 4 w) cmd payload w
      end
  | CRecv _ _ => true
  | CStreams msgs sched _ impl =>
      list_eqb (opt_eqb triple_eqb)
        (expected_outs msgs (map (fun m => npackets (snd m)) msgs) sched) impl
  end.
