(** Theorems about the CTAPHID model (C16, and the no-panic half of C15 for hid.rs). *)
From PK Require Import Lib.Bytes Hid.HidModel.
From Coq Require Import ZArith ZifyBool ZifyNat ZifyN Lia.
Ltac Zify.zify_post_hook ::= Z.div_mod_to_equations.
Open Scope N_scope.

(** constants, by computation on the generated file *)
Lemma PKT_val : PKT = 64%nat. Proof. reflexivity. Qed.
Lemma INIT_H_val : INIT_H = 7%nat. Proof. reflexivity. Qed.
Lemma CONT_H_val : CONT_H = 5%nat. Proof. reflexivity. Qed.
Lemma INIT_MAX_val : INIT_MAX = 57%nat. Proof. reflexivity. Qed.
Lemma CONT_MAX_val : CONT_MAX = 59%nat. Proof. reflexivity. Qed.

(** the largest payload [Message::new] accepts: 57 + 127*59 + 58 *)
Definition MAX_ACCEPTED : N := 7608.

Lemma message_new_accepts ch cmd p :
  N.of_nat (length p) <= MAX_ACCEPTED ->
  message_new ch cmd p = Some (Msg ch cmd 0 (length p) p).
Proof.
  intros H. unfold message_new, MAX_ACCEPTED in *.
  rewrite INIT_MAX_val, CONT_MAX_val. unfold U16_MAX, MAX_CONT_PACKETS.
  destruct (65535 <? N.of_nat (length p)) eqn:E1; [lia|].
  destruct ((0 <? N.of_nat (length p) - N.of_nat 57) &&
            (128 <? (N.of_nat (length p) - N.of_nat 57) / N.of_nat 59 + 1)) eqn:E2; [|reflexivity].
  exfalso. lia.
Qed.

Lemma message_new_refuses ch cmd p :
  MAX_ACCEPTED < N.of_nat (length p) -> message_new ch cmd p = None.
Proof.
  intros H. unfold message_new, MAX_ACCEPTED in *.
  rewrite INIT_MAX_val, CONT_MAX_val. unfold U16_MAX, MAX_CONT_PACKETS.
  destruct (65535 <? N.of_nat (length p)) eqn:E1; [reflexivity|].
  destruct ((0 <? N.of_nat (length p) - N.of_nat 57) &&
            (128 <? (N.of_nat (length p) - N.of_nat 57) / N.of_nat 59 + 1)) eqn:E2; [reflexivity|].
  exfalso. lia.
Qed.

Lemma message_new_some ch cmd p m :
  message_new ch cmd p = Some m ->
  m = Msg ch cmd 0 (length p) p /\ N.of_nat (length p) <= MAX_ACCEPTED.
Proof.
  intros H. destruct (N.leb_spec (N.of_nat (length p)) MAX_ACCEPTED) as [L|L].
  - rewrite message_new_accepts in H by exact L. inversion H. auto.
  - rewrite message_new_refuses in H by exact L. discriminate.
Qed.

(** *** The sender: what goes on the wire *)

Definition pad (n : nat) (l : bytes) : bytes := l ++ repeat 0 (n - length l).

Definition spec_init (ch cmd : N) (p : bytes) : bytes :=
  chan_bytes ch ++ [N.lor DESCRIPTOR_BIT cmd] ++ be16 (N.of_nat (length p)) ++ pad 57 (firstn 57 p).
Definition spec_cont (ch : N) (ic : N * bytes) : bytes :=
  chan_bytes ch ++ [fst ic] ++ pad 59 (snd ic).
Definition spec_packets (ch cmd : N) (p : bytes) : list bytes :=
  spec_init ch cmd p :: map (spec_cont ch) (number_from 0 (chunks 59 (skipn 57 p))).

Lemma chan_bytes_len ch : length (chan_bytes ch) = 4%nat.
Proof. unfold chan_bytes. destruct NATIVE_LITTLE_ENDIAN; reflexivity. Qed.

Lemma chunks_fuel_nil fuel n l : chunks_fuel fuel n l = [] -> (length l <= fuel)%nat -> l = [].
Proof. destruct fuel, l; cbn; intros H L; try reflexivity; try discriminate. lia. Qed.

Lemma skipn_nil_len {A} n (l : list A) : skipn n l = [] <-> (length l <= n)%nat.
Proof.
  split; intros H.
  - pose proof (skipn_length n l) as E. rewrite H in E. cbn in E. lia.
  - apply length_zero_iff_nil. rewrite skipn_length. lia.
Qed.

Lemma zero_from_len k buf : (k <= length buf)%nat -> length (zero_from k buf) = length buf.
Proof. intros H. unfold zero_from. rewrite app_length, firstn_length, repeat_length. lia. Qed.

Lemma skipn_zero_from k buf : (k <= length buf)%nat -> skipn k (zero_from k buf) = repeat 0 (length buf - k).
Proof.
  intros H. unfold zero_from. rewrite skipn_app, firstn_length.
  replace (k - Nat.min k (length buf))%nat with 0%nat by lia.
  rewrite (proj2 (skipn_nil_len k (firstn k buf))) by (rewrite firstn_length; lia). reflexivity.
Qed.

Definition mkcont (ch : N) (ic : N * bytes) : header * bytes := (HCont ch (fst ic), snd ic).

Lemma send_loop_conts ch : forall fuel l i last buf k,
  length buf = 64%nat -> (length l <= fuel)%nat ->
  (i + length (chunks_fuel fuel 59 l) = S last)%nat ->
  send_loop i last buf (map (mkcont ch) (number_from k (chunks_fuel fuel 59 l)))
  = Some (map (spec_cont ch) (number_from k (chunks_fuel fuel 59 l))).
Proof.
  induction fuel as [|f IH]; intros l i last buf k Hb Hf Hi; [reflexivity|].
  destruct l as [|x l']; [reflexivity|].
  cbn [chunks_fuel number_from map send_loop mkcont fst snd] in *.
  set (l := x :: l') in *.
  assert (Hc : (length (firstn 59 l) <= 59)%nat) by (rewrite firstn_length; lia).
  unfold encode_into. cbn [header_len header_bytes]. rewrite CONT_H_val, PKT_val.
  replace ((64 - 5 <? length (firstn 59 l))%nat) with false by lia.
  destruct (Nat.eqb_spec i last) as [E|E].
  - (* last packet: the rest must be empty *)
    assert (Hr : skipn 59 l = []).
    { apply (chunks_fuel_nil f 59); [|rewrite skipn_length; subst l; cbn [length] in *; lia].
      apply length_zero_iff_nil. cbn [length] in Hi. lia. }
    rewrite Hr. destruct f; cbn [chunks_fuel number_from map send_loop].
    all: rewrite app_length, chan_bytes_len; cbn [length].
    all: rewrite <- Nat.add_assoc; cbn [Nat.add].
    all: rewrite skipn_zero_from by (rewrite Hb; lia).
    all: unfold spec_cont, pad; cbn [fst snd]; rewrite Hb.
    all: rewrite <- !app_assoc; reflexivity.
  - (* full packet *)
    assert (Hne : skipn 59 l <> []).
    { intros Hr. rewrite Hr in Hi. destruct f; cbn [chunks_fuel length] in Hi; lia. }
    assert (Hl : (59 < length l)%nat) by (rewrite skipn_nil_len in Hne; lia).
    assert (Hfl : length (firstn 59 l) = 59%nat) by (rewrite firstn_length; lia).
    rewrite app_length, chan_bytes_len. cbn [length]. rewrite Hfl.
    rewrite (proj2 (skipn_nil_len _ buf)) by lia. rewrite app_nil_r.
    rewrite IH.
    + unfold spec_cont, pad. cbn [fst snd]. rewrite Hfl. cbn [Nat.sub repeat].
      rewrite app_nil_r, <- app_assoc. reflexivity.
    + rewrite !app_length, chan_bytes_len. cbn [length]. lia.
    + rewrite skipn_length. subst l. cbn [length] in *. lia.
    + cbn [length] in Hi. lia.
Qed.

Lemma number_from_length {A} (l : list A) k : length (number_from k l) = length l.
Proof. revert k; induction l; intros; cbn; auto. Qed.

Theorem send_spec ch cmd p :
  send (Msg ch cmd 0 (length p) p) = Some (spec_packets ch cmd p).
Proof.
  unfold send, to_packets, spec_packets. cbn [m_plen m_payload m_ch m_cmd].
  rewrite INIT_MAX_val, CONT_MAX_val, PKT_val.
  destruct (Nat.leb_spec (length p) 57) as [L|L].
  - (* single packet *)
    cbn [length Nat.sub send_loop Nat.eqb].
    unfold encode_into. cbn [header_len header_bytes]. rewrite INIT_H_val, PKT_val.
    replace ((64 - 7 <? length p)%nat) with false by lia.
    rewrite !app_length, chan_bytes_len. cbn [length be16].
    rewrite skipn_zero_from by (rewrite repeat_length; lia). rewrite repeat_length.
    rewrite (proj2 (skipn_nil_len 57 p)) by lia. unfold chunks. cbn [length chunks_fuel number_from map].
    unfold spec_init, pad. rewrite firstn_all2 by lia. cbn [be16].
    rewrite <- !app_assoc. cbn [app].
    replace (64 - (4 + 3 + length p))%nat with (57 - length p)%nat by lia. reflexivity.
  - (* init + continuations *)
    cbn [length send_loop]. rewrite map_length, number_from_length.
    set (cs := chunks 59 (skipn 57 p)).
    assert (Hcs : cs <> []).
    { unfold cs, chunks. intros E. apply chunks_fuel_nil in E; [|lia].
      apply skipn_nil_len in E. lia. }
    destruct (Nat.eqb_spec 0 (S (length cs) - 1)) as [E|E].
    { destruct cs; [congruence|cbn [length] in E; lia]. }
    unfold encode_into. cbn [header_len header_bytes]. rewrite INIT_H_val, PKT_val.
    assert (Hfl : length (firstn 57 p) = 57%nat) by (rewrite firstn_length; lia).
    rewrite Hfl. cbn [Nat.sub Nat.ltb Nat.leb].
    rewrite !app_length, chan_bytes_len. cbn [length be16].
    rewrite (proj2 (skipn_nil_len _ (repeat 0 64%nat))) by (rewrite repeat_length; lia).
    rewrite app_nil_r.
    change (map (fun ic : N * bytes => (HCont ch (fst ic), snd ic))) with (map (mkcont ch)).
    unfold cs, chunks. rewrite send_loop_conts.
    + unfold spec_init, pad. rewrite Hfl. cbn [Nat.sub repeat be16]. rewrite app_nil_r.
      rewrite <- !app_assoc. reflexivity.
    + rewrite !app_length, chan_bytes_len, Hfl. unfold be16. cbn [length]. lia.
    + lia.
    + lia.
Qed.

(** *** Shape of the packets *)

Lemma chunks_fuel_len fuel n l : Forall (fun c => (length c <= n)%nat) (chunks_fuel fuel n l).
Proof.
  revert l; induction fuel as [|f IH]; intros l; cbn; [constructor|].
  destruct l; [constructor|]. constructor; [rewrite firstn_length; lia|apply IH].
Qed.

Lemma chunks_fuel_concat fuel n l : (0 < n)%nat -> (length l <= fuel)%nat -> concat (chunks_fuel fuel n l) = l.
Proof.
  intros Hn. revert l; induction fuel as [|f IH]; intros l Hf.
  - destruct l; [reflexivity|cbn in Hf; lia].
  - destruct l as [|x l']; [reflexivity|]. cbn [chunks_fuel concat].
    rewrite IH; [apply firstn_skipn|]. rewrite skipn_length. cbn [length] in *. lia.
Qed.

Lemma chunks_fuel_count fuel n l : (0 < n)%nat -> (length l <= fuel)%nat ->
  length (chunks_fuel fuel n l) = ((length l + n - 1) / n)%nat.
Proof.
  intros Hn. revert l; induction fuel as [|f IH]; intros l Hf.
  - destruct l; [|cbn in Hf; lia]. cbn. symmetry. apply Nat.div_small. lia.
  - destruct l as [|x l']; [cbn; symmetry; apply Nat.div_small; lia|].
    cbn [chunks_fuel length]. rewrite IH by (rewrite skipn_length; cbn [length] in *; lia).
    rewrite skipn_length. cbn [length].
    destruct (Nat.leb_spec (S (length l')) n) as [L|L].
    + replace (S (length l') - n)%nat with 0%nat by lia.
      rewrite (Nat.div_small (0 + n - 1) n) by lia.
      assert (1 <= (S (length l') + n - 1) / n < 2)%nat; [|lia].
      split; [apply Nat.div_le_lower_bound; lia|apply Nat.div_lt_upper_bound; lia].
    + replace (S (length l') + n - 1)%nat with ((S (length l') - n + n - 1) + 1 * n)%nat by lia.
      rewrite Nat.div_add by lia. lia.
Qed.

(** the payload is carried unchanged: stripping headers and padding gives it back *)
Theorem spec_packets_payload p :
  firstn 57 p ++ concat (chunks 59 (skipn 57 p)) = p.
Proof.
  unfold chunks. rewrite chunks_fuel_concat by lia. apply firstn_skipn.
Qed.

Lemma pad_len n l : (length l <= n)%nat -> length (pad n l) = n.
Proof. intros H. unfold pad. rewrite app_length, repeat_length. lia. Qed.

Theorem spec_packets_len ch cmd p : Forall (fun pk => length pk = 64%nat) (spec_packets ch cmd p).
Proof.
  unfold spec_packets. constructor.
  - unfold spec_init. rewrite !app_length, chan_bytes_len, pad_len by (rewrite firstn_length; lia).
    reflexivity.
  - apply Forall_forall. intros pk Hin. apply in_map_iff in Hin as [[i c] [<- Hin]].
    unfold spec_cont. cbn [fst snd]. rewrite !app_length, chan_bytes_len, pad_len; [reflexivity|].
    assert (In c (chunks 59 (skipn 57 p))).
    { clear -Hin. revert Hin. generalize 0. generalize (chunks 59 (skipn 57 p)).
      induction l; cbn; intros n H; [tauto|]. destruct H as [H|H]; [inversion H; auto|eauto]. }
    pose proof (chunks_fuel_len (length (skipn 57 p)) 59 (skipn 57 p)) as F.
    rewrite Forall_forall in F. apply F. exact H.
Qed.

(** number of continuation packets of an accepted message *)
Lemma accepted_conts p : N.of_nat (length p) <= MAX_ACCEPTED ->
  (length (chunks 59 (skipn 57 p)) <= 128)%nat.
Proof.
  intros H. unfold chunks. rewrite chunks_fuel_count by lia. rewrite skipn_length.
  unfold MAX_ACCEPTED in H. apply Nat.lt_succ_r. apply Nat.div_lt_upper_bound; lia.
Qed.

(** *** The receiver is a product of independent per-channel machines *)

Definition pchan (p : bytes) : N :=
  match parse_packet p with
  | Some (HInit ch _ _, _) | Some (HCont ch _, _) => ch
  | None => 0
  end.

(** one channel's state machine: state = the partial message, if any *)
Definition step1 (s : option message) (p : bytes) : option (option message * option message) :=
  match parse_packet p with
  | None => Some (s, None)
  | Some (HInit ch cmd plen, payload) =>
      let m := Msg ch cmd 0 plen payload in
      if (plen =? length payload)%nat then Some (s, Some m) else Some (Some m, None)
  | Some (HCont ch seq, payload) =>
      match s with
      | None => Some (None, None)
      | Some m =>
          match extend m ch seq payload with
          | ExtPanic => None
          | ExtErr m' => Some (Some m', None)
          | ExtDone m' true => Some (None, Some m')
          | ExtDone m' false => Some (Some m', None)
          end
      end
  end.

Lemma t_get_remove t c c' : t_get (t_remove t c) c' = if c =? c' then None else t_get t c'.
Proof.
  induction t as [|[k v] r IH]; cbn [t_remove t_get].
  - destruct (c =? c'); reflexivity.
  - destruct (N.eqb_spec k c) as [->|Hk].
    + rewrite IH. destruct (N.eqb_spec c c'); reflexivity.
    + cbn [t_get]. rewrite IH. destruct (N.eqb_spec k c') as [->|Hk'].
      * destruct (N.eqb_spec c c'); [congruence|reflexivity].
      * reflexivity.
Qed.

Lemma t_get_insert t c m c' : t_get (t_insert t c m) c' = if c =? c' then Some m else t_get t c'.
Proof.
  unfold t_insert. cbn [t_get]. destruct (N.eqb_spec c c') as [->|H]; [reflexivity|].
  rewrite t_get_remove. destruct (N.eqb_spec c c'); [congruence|reflexivity].
Qed.

(** [handle_packet] touches only the entry of the packet's own channel and its result depends on
    the table only through that entry. *)
Lemma handle_packet_factor t p :
  match step1 (t_get t (pchan p)) p with
  | None => handle_packet t p = HPPanic
  | Some (s', o) => exists t', handle_packet t p = HP t' o
                     /\ t_get t' (pchan p) = s'
                     /\ forall c, c <> pchan p -> t_get t' c = t_get t c
  end.
Proof.
  unfold step1, handle_packet, pchan.
  destruct (parse_packet p) as [[[ch cmd plen|ch seq] payload]|].
  - destruct (plen =? length payload)%nat.
    + exists t. auto.
    + eexists. split; [reflexivity|]. split.
      * rewrite t_get_insert, N.eqb_refl. reflexivity.
      * intros c Hc. rewrite t_get_insert. destruct (N.eqb_spec ch c); [congruence|reflexivity].
  - destruct (t_get t ch) as [m|] eqn:G.
    + destruct (extend m ch seq payload) as [m' [|]|m'|].
      * eexists. split; [reflexivity|]. split.
        -- rewrite t_get_remove, N.eqb_refl. reflexivity.
        -- intros c Hc. rewrite t_get_remove. destruct (N.eqb_spec ch c); [congruence|reflexivity].
      * eexists. split; [reflexivity|]. split.
        -- rewrite t_get_insert, N.eqb_refl. reflexivity.
        -- intros c Hc. rewrite t_get_insert. destruct (N.eqb_spec ch c); [congruence|reflexivity].
      * eexists. split; [reflexivity|]. split.
        -- rewrite t_get_insert, N.eqb_refl. reflexivity.
        -- intros c Hc. rewrite t_get_insert. destruct (N.eqb_spec ch c); [congruence|reflexivity].
      * reflexivity.
    + exists t. auto.
  - exists t. auto.
Qed.

(** a single channel fed with a list of packets *)
Fixpoint run1 (s : option message) (ps : list bytes) : option (option message * list (option message)) :=
  match ps with
  | [] => Some (s, [])
  | p :: r =>
      match step1 s p with
      | None => None
      | Some (s', o) =>
          match run1 s' r with
          | None => None
          | Some (s'', os) => Some (s'', o :: os)
          end
      end
  end.

(** [Merge ls r]: [r] is an interleaving of the lists [ls], each keeping its own order *)
Inductive Merge {A} : list (list A) -> list A -> Prop :=
| Merge_done ls : (forall l, In l ls -> l = []) -> Merge ls []
| Merge_step ls1 x l ls2 r : Merge (ls1 ++ l :: ls2) r -> Merge (ls1 ++ (x :: l) :: ls2) (x :: r).

(** stream [l] (packets labelled with the outputs they must produce) is what channel [c] in state
    [s] will consume, ending idle *)
Definition Good (c : N) (s : option message) (l : list (bytes * option message)) : Prop :=
  Forall (fun x => pchan (fst x) = c) l /\ run1 s (map fst l) = Some (None, map snd l).

Lemma Forall2_app_inv_r' {A B} (R : A -> B -> Prop) l l1 l2 :
  Forall2 R l (l1 ++ l2) -> exists k1 k2, l = k1 ++ k2 /\ Forall2 R k1 l1 /\ Forall2 R k2 l2.
Proof. intros H. apply Forall2_app_inv_r in H as (k1 & k2 & H1 & H2 & ->). eauto. Qed.

Lemma Forall2_nth_l {A B} (R : A -> B -> Prop) l1 l2 i a :
  Forall2 R l1 l2 -> nth_error l1 i = Some a -> exists b, nth_error l2 i = Some b /\ R a b.
Proof.
  intros F. revert i. induction F as [|x y l1 l2 Rxy F IH]; intros i Hi.
  - destruct i; discriminate.
  - destruct i; cbn in *; [inversion Hi; subst; eauto|eauto].
Qed.

Theorem interleave_general {ls r} (M : Merge ls r) :
  forall t chs, NoDup chs -> Forall2 (fun c l => Good c (t_get t c) l) chs ls ->
  exists t', run t (map fst r) = Some (t', map snd r)
        /\ (forall c, In c chs -> t_get t' c = None)
        /\ (forall c, ~ In c chs -> t_get t' c = t_get t c).
Proof.
  induction M as [ls Hnil|ls1 x l ls2 r M IH]; intros t chs ND F.
  - exists t. split; [reflexivity|]. split; [|auto].
    intros c Hc. apply In_nth_error in Hc as [i Hi].
    destruct (Forall2_nth_l _ _ _ _ _ F Hi) as (l & El & G).
    rewrite (Hnil l (nth_error_In _ _ El)) in G. destruct G as [_ G]. cbn in G. congruence.
  - apply Forall2_app_inv_r' in F as (k1 & k2' & -> & F1 & F2).
    inversion F2 as [|c xl k2 ls2' G F2']; subst.
    destruct G as [Gc Gr]. destruct x as [p o]. cbn [map fst snd] in *.
    inversion Gc as [|? ? Hp Gc']; subst. cbn [fst] in *.
    cbn [run1] in Gr.
    pose proof (handle_packet_factor t p) as HF.
    destruct (step1 (t_get t (pchan p)) p) as [[s' o']|]; [|discriminate].
    destruct (run1 s' (map fst l)) as [[s'' os]|] eqn:R1; [|discriminate].
    inversion Gr; subst s'' o' os. clear Gr.
    destruct HF as (t1 & H1 & H2 & H3).
    assert (NDc : ~ In (pchan p) k1 /\ ~ In (pchan p) k2).
    { apply NoDup_remove_2 in ND. split; intros H; apply ND; apply in_or_app; auto. }
    destruct (IH t1 (k1 ++ pchan p :: k2)) as (t' & R & Z & U).
    + exact ND.
    + apply Forall2_app.
      * clear -F1 H3 NDc. destruct NDc as [N1 _]. induction F1 as [|c l1 k ls G F IHF]; [constructor|].
        constructor.
        -- rewrite H3; [exact G|]. intros ->. apply N1. left. reflexivity.
        -- apply IHF. intros H. apply N1. right. exact H.
      * constructor.
        -- split; [exact Gc'|]. rewrite H2. exact R1.
        -- clear -F2' H3 NDc. destruct NDc as [_ N2]. induction F2' as [|c l1 k ls G F IHF]; [constructor|].
           constructor.
           ++ rewrite H3; [exact G|]. intros ->. apply N2. left. reflexivity.
           ++ apply IHF. intros H. apply N2. right. exact H.
    + exists t'. split; [|split].
      * cbn [run]. rewrite H1, R. reflexivity.
      * exact Z.
      * intros c Hc. rewrite U by exact Hc. apply H3. intros ->. apply Hc. apply in_or_app. right. left. reflexivity.
Qed.

(** *** One stream through one channel *)

Lemma valid_cmd_bits cmd : valid_cmd cmd = true ->
  N.land (N.lor DESCRIPTOR_BIT cmd) DESCRIPTOR_BIT = DESCRIPTOR_BIT
  /\ N.land (N.lor DESCRIPTOR_BIT cmd) (255 - DESCRIPTOR_BIT) = cmd.
Proof.
  unfold valid_cmd, COMMANDS. cbn [existsb].
  repeat match goal with
  | |- (cmd =? ?k) || _ = true -> _ => destruct (N.eqb_spec cmd k) as [->|_]; [split; reflexivity|cbn [orb]]
  end. discriminate.
Qed.

Lemma seq_bit i : i < 128 -> N.land i DESCRIPTOR_BIT =? DESCRIPTOR_BIT = false.
Proof.
  intros H. unfold DESCRIPTOR_BIT. destruct i as [|q]; [reflexivity|].
  do 7 (destruct q as [q|q|]; try reflexivity); exfalso; lia.
Qed.

Lemma chan_round ch : ch < 4294967296 ->
  exists a b c d, chan_bytes ch = [a; b; c; d] /\ chan_dec a b c d = ch.
Proof.
  intros H. unfold chan_bytes, chan_dec. destruct NATIVE_LITTLE_ENDIAN.
  - do 4 eexists. split; [reflexivity|]. apply le32_round. exact H.
  - do 4 eexists. split; [reflexivity|]. apply be32_round. exact H.
Qed.

Lemma firstn_pad n l : (length l <= n)%nat -> firstn (length l) (pad n l) = l.
Proof. intros H. unfold pad. rewrite firstn_app, Nat.sub_diag, firstn_all, firstn_O, app_nil_r. reflexivity. Qed.

Lemma parse_init_packet ch cmd p :
  ch < 4294967296 -> valid_cmd cmd = true -> N.of_nat (length p) <= 65535 ->
  parse_packet (spec_init ch cmd p) = Some (HInit ch cmd (length p), firstn 57 p).
Proof.
  intros Hch Hcmd Hlen. destruct (chan_round ch Hch) as (a & b & c & d & E & D).
  destruct (valid_cmd_bits cmd Hcmd) as [B1 B2].
  unfold spec_init. rewrite E. unfold be16. cbn [app].
  unfold parse_packet. cbn [length]. rewrite CONT_H_val.
  match goal with |- context [if (?x <? ?y)%nat then None else _] => replace (x <? y)%nat with false by lia end.
  rewrite B1, N.eqb_refl, D.
  unfold parse_init. cbn [length]. rewrite INIT_H_val.
  match goal with |- context [if (?x <? ?y)%nat then None else _] => replace (x <? y)%nat with false by lia end.
  rewrite B2, Hcmd. cbn [negb].
  rewrite be16_round by lia. rewrite Nat2N.id, INIT_MAX_val.
  destruct (Nat.ltb_spec 57 (length p)) as [L|L].
  - f_equal. f_equal. unfold pad. rewrite firstn_app.
    assert (Hfl : length (firstn 57 p) = 57%nat) by (rewrite firstn_length; lia).
    rewrite Hfl, Nat.sub_diag, firstn_O, app_nil_r.
    rewrite <- Hfl at 1. apply firstn_all.
  - rewrite pad_len by (rewrite firstn_length; lia).
    replace (57 <? length p)%nat with false by lia.
    rewrite (firstn_all2 p) by lia. f_equal. f_equal. apply firstn_pad. lia.
Qed.

Lemma parse_cont_packet ch i c :
  ch < 4294967296 -> i < 128 ->
  parse_packet (spec_cont ch (i, c)) = Some (HCont ch i, pad 59 c).
Proof.
  intros Hch Hi. destruct (chan_round ch Hch) as (a & b & c' & d & E & D).
  unfold spec_cont. rewrite E. cbn [fst snd app].
  unfold parse_packet. cbn [length]. rewrite CONT_H_val.
  match goal with |- context [if (?x <? ?y)%nat then None else _] => replace (x <? y)%nat with false by lia end.
  rewrite seq_bit by exact Hi. rewrite D. reflexivity.
Qed.

Definition delivered (ch cmd : N) (p : bytes) (k : N) : message := Msg ch cmd k (length p) p.

(** continuation packets [k], [k+1], ... completing a partial message *)
Lemma run1_conts ch cmd (Hch : ch < 4294967296) : forall fuel l k acc plen,
  (length l <= fuel)%nat -> l <> [] -> plen = (length acc + length l)%nat ->
  k + N.of_nat (length (chunks_fuel fuel 59 l)) <= 128 ->
  let cs := chunks_fuel fuel 59 l in
  run1 (Some (Msg ch cmd k plen acc)) (map (spec_cont ch) (number_from k cs))
  = Some (None, repeat None (length cs - 1)
                ++ [Some (Msg ch cmd (k + N.of_nat (length cs)) plen (acc ++ l))]).
Proof.
  induction fuel as [|f IH]; intros l k acc plen Hf Hne Hp Hk cs.
  { destruct l; [congruence|cbn in Hf; lia]. }
  destruct l as [|x l']; [congruence|]. subst cs. cbn [chunks_fuel] in *.
  set (l := x :: l') in *. cbn [number_from map run1 length] in *.
  unfold step1. rewrite parse_cont_packet by (try assumption; lia).
  unfold extend. cbn [m_ch m_seq m_plen m_payload m_cmd].
  rewrite !N.eqb_refl. cbn [negb].
  replace (255 <=? k) with false by lia.
  replace (plen <? length acc)%nat with false by lia.
  rewrite CONT_MAX_val.
  assert (Hc : (length (firstn 59 l) <= 59)%nat) by (rewrite firstn_length; lia).
  rewrite pad_len by exact Hc.
  replace (plen - length acc)%nat with (length l) by lia.
  destruct (Nat.leb_spec (length l) 59) as [L|L].
  - (* last packet *)
    replace (59 <? length l)%nat with false by lia.
    assert (Hr : skipn 59 l = []) by (apply skipn_nil_len; lia).
    rewrite Hr. replace (chunks_fuel f 59 []) with (@nil bytes) by (destruct f; reflexivity).
    cbn [number_from map run1 length Nat.sub repeat app].
    rewrite (firstn_all2 (n:=59) l) by lia.
    replace (firstn (length l) (pad 59 l)) with l by (symmetry; apply firstn_pad; lia).
    replace (k + N.of_nat 1) with (k + 1) by lia. reflexivity.
  - (* full packet *)
    replace (59 <? 59)%nat with false by reflexivity.
    assert (Hfl : length (firstn 59 l) = 59%nat) by (rewrite firstn_length; lia).
    assert (Hpd : pad 59 (firstn 59 l) = firstn 59 l).
    { unfold pad. rewrite Hfl, Nat.sub_diag. cbn [repeat]. apply app_nil_r. }
    rewrite Hpd. rewrite (firstn_all2 (n:=59) (firstn 59 l)) by lia.
    assert (Hne' : skipn 59 l <> []) by (rewrite skipn_nil_len; lia).
    rewrite (IH (skipn 59 l) (k + 1) (acc ++ firstn 59 l) plen).
    + assert (Hcs : chunks_fuel f 59 (skipn 59 l) <> []).
      { intros E. apply chunks_fuel_nil in E; [congruence|]. rewrite skipn_length. subst l. cbn [length] in *. lia. }
      destruct (chunks_fuel f 59 (skipn 59 l)) as [|c0 cs0] eqn:Ecs; [congruence|].
      cbn [length Nat.sub]. rewrite Nat.sub_0_r. cbn [repeat app].
      rewrite <- app_assoc, firstn_skipn.
      replace (k + 1 + N.of_nat (S (length cs0))) with (k + N.of_nat (S (S (length cs0)))) by lia.
      reflexivity.
    + rewrite skipn_length. subst l. cbn [length] in *. lia.
    + exact Hne'.
    + rewrite app_length, Hfl, skipn_length. lia.
    + lia.
Qed.

(** the packets of one message, each labelled with what the receiver must answer:
    nothing until the last packet, the whole message on the last *)
Definition labelled (ch cmd : N) (p : bytes) : list (bytes * option message) :=
  let pk := spec_packets ch cmd p in
  let n := length (chunks 59 (skipn 57 p)) in
  combine pk (repeat None (length pk - 1) ++ [Some (delivered ch cmd p (N.of_nat n))]).

Lemma combine_fst {A B} (l1 : list A) (l2 : list B) : length l1 = length l2 -> map fst (combine l1 l2) = l1.
Proof. revert l2; induction l1; intros [|b l2] H; cbn in *; try congruence; try lia. f_equal. apply IHl1. lia. Qed.
Lemma combine_snd {A B} (l1 : list A) (l2 : list B) : length l1 = length l2 -> map snd (combine l1 l2) = l2.
Proof. revert l2; induction l1; intros [|b l2] H; cbn in *; try congruence; try lia. f_equal. apply IHl1. lia. Qed.

Lemma labelled_lens ch cmd p :
  length (spec_packets ch cmd p) =
  length (repeat (@None message) (length (spec_packets ch cmd p) - 1)
          ++ [Some (delivered ch cmd p (N.of_nat (length (chunks 59 (skipn 57 p)))))]).
Proof. rewrite app_length, repeat_length. unfold spec_packets. cbn [length]. lia. Qed.

Lemma labelled_fst ch cmd p : map fst (labelled ch cmd p) = spec_packets ch cmd p.
Proof. unfold labelled. apply combine_fst. apply labelled_lens. Qed.

Lemma labelled_snd ch cmd p : map snd (labelled ch cmd p) =
  repeat None (length (spec_packets ch cmd p) - 1)
  ++ [Some (delivered ch cmd p (N.of_nat (length (chunks 59 (skipn 57 p)))))].
Proof. unfold labelled. apply combine_snd. apply labelled_lens. Qed.

(** the conditions under which the sender accepts and the wire format can carry the message *)
Definition sendable (ch cmd : N) (p : bytes) : Prop :=
  ch < 4294967296 /\ valid_cmd cmd = true /\ N.of_nat (length p) <= MAX_ACCEPTED.

Lemma number_from_In {A} (l : list A) k i x : In (i, x) (number_from k l) -> k <= i < k + N.of_nat (length l) /\ In x l.
Proof.
  revert k; induction l as [|y l IH]; intros k H; cbn in *; [tauto|].
  destruct H as [H|H]; [inversion H; subst; split; [lia|auto]|].
  apply IH in H as [H1 H2]. split; [lia|auto].
Qed.

Theorem single_stream ch cmd p : sendable ch cmd p -> Good ch None (labelled ch cmd p).
Proof.
  intros (Hch & Hcmd & Hlen). unfold MAX_ACCEPTED in Hlen.
  pose proof (accepted_conts p Hlen) as Hn.
  split.
  - (* every packet of the stream carries the channel id *)
    apply Forall_forall. intros [pk o] Hin. cbn [fst].
    apply (in_map fst) in Hin. rewrite labelled_fst in Hin. cbn [fst] in Hin.
    unfold spec_packets in Hin. destruct Hin as [<-|Hin].
    + unfold pchan. rewrite parse_init_packet by (try assumption; lia). reflexivity.
    + apply in_map_iff in Hin as [[i c] [<- Hin]]. apply number_from_In in Hin as [Hi _].
      unfold pchan. rewrite parse_cont_packet by (try assumption; lia). reflexivity.
  - rewrite labelled_fst, labelled_snd. unfold spec_packets at 1. cbn [run1].
    unfold step1 at 1. rewrite parse_init_packet by (try assumption; lia).
    destruct (Nat.leb_spec (length p) 57) as [L|L].
    + (* the whole message fits the initialisation packet *)
      rewrite (firstn_all2 (n:=57) p) by lia. rewrite Nat.eqb_refl.
      assert (E : skipn 57 p = []) by (apply skipn_nil_len; lia).
      unfold spec_packets. rewrite E. unfold chunks. cbn. reflexivity.
    + assert (Hfl : length (firstn 57 p) = 57%nat) by (rewrite firstn_length; lia).
      rewrite Hfl. replace (length p =? 57)%nat with false by lia.
      unfold chunks. rewrite (run1_conts ch cmd Hch (length (skipn 57 p)) (skipn 57 p) 0 (firstn 57 p) (length p)).
      * rewrite firstn_skipn. unfold spec_packets, chunks. cbn [length]. rewrite map_length, number_from_length.
        rewrite N.add_0_l.
        assert (Hcs : chunks_fuel (length (skipn 57 p)) 59 (skipn 57 p) <> []).
        { intros E. apply chunks_fuel_nil in E; [|lia]. apply skipn_nil_len in E. lia. }
        destruct (chunks_fuel (length (skipn 57 p)) 59 (skipn 57 p)) as [|c0 cs0]; [congruence|].
        cbn [length Nat.sub]. rewrite !Nat.sub_0_r. reflexivity.
      * lia.
      * rewrite skipn_nil_len. lia.
      * rewrite Hfl, skipn_length. lia.
      * fold (chunks 59 (skipn 57 p)). lia.
Qed.

(** a channel that still holds an unfinished (abandoned) message [s]: a new multi-packet message on that channel
    replaces it - the receiver answers nothing until the last packet, the whole new message on the last packet, and
    ends idle; a new single-packet message is delivered at once and leaves the unfinished one where it was
    (source: "in the unlikely event this channel was reused and there was an unfinished message, just drop it") *)
Theorem restart_stream ch cmd p s : sendable ch cmd p -> (57 < length p)%nat ->
  run1 s (map fst (labelled ch cmd p)) = Some (None, map snd (labelled ch cmd p)).
Proof.
  intros (Hch & Hcmd & Hlen) L. unfold MAX_ACCEPTED in Hlen.
  pose proof (accepted_conts p Hlen) as Hn.
  rewrite labelled_fst, labelled_snd. unfold spec_packets at 1. cbn [run1].
  unfold step1 at 1. rewrite parse_init_packet by (try assumption; lia).
  assert (Hfl : length (firstn 57 p) = 57%nat) by (rewrite firstn_length; lia).
  rewrite Hfl. replace (length p =? 57)%nat with false by lia.
  unfold chunks. rewrite (run1_conts ch cmd Hch (length (skipn 57 p)) (skipn 57 p) 0 (firstn 57 p) (length p)).
  - rewrite firstn_skipn. unfold spec_packets, chunks. cbn [length]. rewrite map_length, number_from_length.
    rewrite N.add_0_l.
    assert (Hcs : chunks_fuel (length (skipn 57 p)) 59 (skipn 57 p) <> []).
    { intros E. apply chunks_fuel_nil in E; [|lia]. apply skipn_nil_len in E. lia. }
    destruct (chunks_fuel (length (skipn 57 p)) 59 (skipn 57 p)) as [|c0 cs0]; [congruence|].
    cbn [length Nat.sub]. rewrite !Nat.sub_0_r. reflexivity.
  - lia.
  - rewrite skipn_nil_len. lia.
  - rewrite Hfl, skipn_length. lia.
  - fold (chunks 59 (skipn 57 p)). lia.
Qed.

Theorem single_packet_keeps_state ch cmd p s : sendable ch cmd p -> (length p <= 57)%nat ->
  run1 s (map fst (labelled ch cmd p)) = Some (s, [Some (Msg ch cmd 0 (length p) p)]).
Proof.
  intros (Hch & Hcmd & Hlen) L. unfold MAX_ACCEPTED in Hlen.
  rewrite labelled_fst. unfold spec_packets.
  assert (E : skipn 57 p = []) by (apply skipn_nil_len; lia).
  rewrite E. unfold chunks. cbn [chunks_fuel length number_from map run1].
  unfold step1. rewrite parse_init_packet by (try assumption; lia).
  rewrite (firstn_all2 (n:=57) p) by lia. rewrite Nat.eqb_refl. reflexivity.
Qed.

(** *** Any number of channels, any interleaving *)

Definition stream := (N * N * bytes)%type.
Definition s_ch (s : stream) : N := fst (fst s).
Definition s_labelled (s : stream) := labelled (fst (fst s)) (snd (fst s)) (snd s).
Definition s_sendable (s : stream) := sendable (fst (fst s)) (snd (fst s)) (snd s).

Theorem interleaving streams r t :
  NoDup (map s_ch streams) ->
  Forall s_sendable streams ->
  (forall s, In s streams -> t_get t (s_ch s) = None) ->
  Merge (map s_labelled streams) r ->
  exists t', run t (map fst r) = Some (t', map snd r)
        /\ (forall c, t_get t' c = t_get t c).
Proof.
  intros ND OK Idle M.
  destruct (interleave_general M t (map s_ch streams) ND) as (t' & R & Z & U).
  - clear -OK Idle. induction streams as [|s ss IH]; cbn [map]; constructor.
    + rewrite Idle by (left; reflexivity). inversion OK; subst. apply single_stream. assumption.
    + inversion OK; subst. apply IH; [assumption|]. intros s' H. apply Idle. right. exact H.
  - exists t'. split; [exact R|]. intros c.
    destruct (in_dec N.eq_dec c (map s_ch streams)) as [I|I].
    + rewrite Z by exact I. apply in_map_iff in I as (s & <- & Hs). symmetry. apply Idle. exact Hs.
    + apply U. exact I.
Qed.

(** a continuation packet for a channel with no message in progress yields nothing *)
Theorem orphan_continuation t p ch seq payload :
  parse_packet p = Some (HCont ch seq, payload) -> t_get t ch = None ->
  handle_packet t p = HP t None.
Proof. intros P G. unfold handle_packet. rewrite P, G. reflexivity. Qed.

(** *** The receiver never panics, on packets of any length in any order (C15 for hid.rs) *)

Definition msg_inv (m : message) : Prop := (length (m_payload m) <= m_plen m)%nat /\ m_seq m <= 128.
Definition table_inv (t : table) : Prop := forall c m, t_get t c = Some m -> msg_inv m.

Lemma cont_seq_small x : x < 256 -> (N.land x DESCRIPTOR_BIT =? DESCRIPTOR_BIT) = false -> x < 128.
Proof.
  unfold DESCRIPTOR_BIT. intros H. destruct x as [|q]; [lia|].
  do 8 (destruct q as [q|q|]; try (cbn; intros; (lia || discriminate))).
Qed.

Lemma parse_cont_seq p ch seq payload : bytes_ok p ->
  parse_packet p = Some (HCont ch seq, payload) -> seq < 128.
Proof.
  intros OK. unfold parse_packet.
  destruct (length p <? CONT_H)%nat; [discriminate|].
  destruct p as [|a [|b [|c [|d [|x rest]]]]]; try discriminate.
  destruct (N.land x DESCRIPTOR_BIT =? DESCRIPTOR_BIT) eqn:E.
  - unfold parse_init. destruct (_ <? _)%nat; [discriminate|].
    destruct rest as [|hi [|lo rest']]; try discriminate.
    destruct (negb _); [discriminate|]. destruct (_ <? _)%nat; [intros H; inversion H|].
    destruct (_ <? _)%nat; intros H; inversion H.
  - intros H. inversion H; subst. apply cont_seq_small; [|exact E].
    unfold bytes_ok in OK. rewrite Forall_forall in OK. apply OK. cbn. tauto.
Qed.

Lemma parse_init_inv p ch cmd plen payload :
  parse_packet p = Some (HInit ch cmd plen, payload) ->
  plen = length payload \/ (length payload <= plen)%nat.
Proof.
  unfold parse_packet.
  destruct (length p <? CONT_H)%nat; [discriminate|].
  destruct p as [|a [|b [|c [|d [|x rest]]]]]; try discriminate.
  destruct (N.land x DESCRIPTOR_BIT =? DESCRIPTOR_BIT); [|intros H; inversion H].
  unfold parse_init. destruct (_ <? _)%nat; [discriminate|].
  destruct rest as [|hi [|lo rest']]; try discriminate.
  destruct (negb _); [discriminate|]. rewrite INIT_MAX_val.
  destruct (Nat.ltb_spec 57 (N.to_nat (be16_dec hi lo))) as [L|L].
  - assert (Hl : (length (firstn 57 rest') <= 57)%nat) by (rewrite firstn_length; lia).
    revert Hl. generalize (firstn 57 rest'). intros f Hl [= <- <- <- <-]. right. lia.
  - destruct (Nat.ltb_spec (length rest') (N.to_nat (be16_dec hi lo))) as [L2|L2]; [discriminate|].
    assert (Hl : length (firstn (N.to_nat (be16_dec hi lo)) rest') = N.to_nat (be16_dec hi lo)) by (rewrite firstn_length; lia).
    revert Hl. generalize (firstn (N.to_nat (be16_dec hi lo)) rest'). intros f Hl [= <- <- <- <-]. left. lia.
Qed.

Lemma insert_inv t ch m : table_inv t -> msg_inv m -> table_inv (t_insert t ch m).
Proof.
  intros TI MI c m'. rewrite t_get_insert. destruct (ch =? c); [|apply TI].
  intros H. replace m' with m by congruence. exact MI.
Qed.

Lemma remove_inv t ch : table_inv t -> table_inv (t_remove t ch).
Proof. intros TI c m'. rewrite t_get_remove. destruct (ch =? c); [discriminate|apply TI]. Qed.

Theorem handle_packet_no_panic t p :
  table_inv t -> bytes_ok p ->
  exists t' o, handle_packet t p = HP t' o /\ table_inv t'.
Proof.
  intros TI OK. unfold handle_packet.
  destruct (parse_packet p) as [[[ch cmd plen|ch seq] payload]|] eqn:P.
  - destruct (Nat.eqb_spec plen (length payload)) as [E|E].
    + eauto.
    + do 2 eexists. split; [reflexivity|]. apply insert_inv; [exact TI|].
      split; cbn [m_payload m_plen m_seq]; [|lia]. apply parse_init_inv in P. lia.
  - destruct (t_get t ch) as [m|] eqn:G; [|eauto].
    pose proof (parse_cont_seq _ _ _ _ OK P) as Hseq.
    destruct (TI _ _ G) as [I1 I2].
    unfold extend. destruct (negb (m_ch m =? ch)).
    { do 2 eexists. split; [reflexivity|]. apply insert_inv; [exact TI|split; assumption]. }
    destruct (N.eqb_spec seq (m_seq m)) as [Es|Es].
    2:{ do 2 eexists. split; [reflexivity|]. apply insert_inv; [exact TI|split; assumption]. }
    replace (255 <=? m_seq m) with false by lia.
    replace (m_plen m <? length (m_payload m))%nat with false by lia.
    rewrite CONT_MAX_val. cbn [m_ch m_cmd m_seq m_plen m_payload].
    destruct (Nat.leb_spec (m_plen m - length (m_payload m)) 59) as [R|R].
    + destruct (_ <? _)%nat.
      * do 2 eexists. split; [reflexivity|]. apply insert_inv; [exact TI|].
        split; cbn [m_payload m_plen m_seq]; lia.
      * do 2 eexists. split; [reflexivity|]. apply remove_inv. exact TI.
    + destruct (Nat.ltb_spec (length payload) 59) as [L|L].
      * do 2 eexists. split; [reflexivity|]. apply insert_inv; [exact TI|].
        split; cbn [m_payload m_plen m_seq]; lia.
      * do 2 eexists. split; [reflexivity|]. apply insert_inv; [exact TI|].
        split; cbn [m_payload m_plen m_seq]; [|lia].
        rewrite app_length, firstn_length. lia.
  - eauto.
Qed.

Theorem run_no_panic ps : forall t, table_inv t -> Forall bytes_ok ps ->
  exists t' outs, run t ps = Some (t', outs) /\ table_inv t' /\ length outs = length ps.
Proof.
  induction ps as [|p r IH]; intros t TI OK.
  - exists t, []. auto.
  - inversion OK as [|? ? OKp OKr]; subst.
    destruct (handle_packet_no_panic t p TI) as (t1 & o & Hp1 & TI1); [assumption|].
    destruct (IH t1 TI1) as (t' & outs & R & TI' & L); [assumption|].
    exists t', (o :: outs). cbn [run]. rewrite Hp1, R. cbn [length]. auto.
Qed.

Lemma table_inv_empty : table_inv [].
Proof. intros c m H. discriminate. Qed.
