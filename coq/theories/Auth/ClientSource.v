(** Source order of the WebAuthn client ceremonies and of the RP ID verifier (regenerated from
    passkey-client/src/lib.rs on every run by translators/client_skeleton.py into Auth/gen/ClientSkeleton.v):
    (1) the generated lists equal the order the client model (Auth/Client.v) and the RP ID model (RpId/) were
        transcribed from ([src_*_order], by [reflexivity]: a reordering, a dropped or added check, a changed string
        constant or a changed options literal in the source changes the generated file and breaks this file);
    (2) order facts of the source text itself: the RP ID check comes before anything is serialised or sent to the
        authenticator, the options literal demands presence, no PIN is sent.
    This file depends on the client's source only (not on the authenticator's skeleton). *)
From PK Require Import Auth.OrderList Auth.gen.ClientSkeleton.
Open Scope string_scope.
Open Scope list_scope.

Definition EXP_CLIENT_REGISTER :=
  ["AuthGetInfo"; "AssertDomain"; "TypeCreate"; "ExtraData"; "ClientDataJson"; "ClientDataHash"; "Sha256"; "ZipContents";
   "RegExtIn"; "MapRk"; "MakeCredential"; "OptionsUpTrue"; "PinAuthNone"; "Err AuthenticatorError";
   "Str fmt"; "Str none"; "Str attStmt"; "Str authData"; "PubKeyDer"; "Err AuthenticatorError"; "StoreInfo"; "RegExtOut"].
Definition EXP_CLIENT_AUTHENTICATE :=
  ["AuthGetInfo"; "AssertDomain"; "TypeGet"; "ExtraData"; "ClientDataJson"; "ClientDataHash"; "Sha256"; "AuthExtIn";
   "GetAssertion"; "OptionsUpTrue"; "PinAuthNone"; "IntoWebauthnError"; "AuthExtOut"].
Definition EXP_ASSERT_DOMAIN := ["AssertWeb"; "Str android-asset-validation"; "AssertAndroid"].
Definition EXP_ASSERT_WEB_RP_ID :=
  ["OriginDomain"; "Err OriginMissingDomain"; "SuffixAtLabel"; "Err OriginRpMissmatch"; "Str localhost"; "Str localhost";
   "Err InvalidRpId"; "AssertValid"; "Scheme"; "Str https"; "Err UnprotectedOrigin"].
Definition EXP_ASSERT_VALID_RP_ID :=
  ["Str localhost"; "AllowsLocalhost"; "Err InsecureLocalhostNotAllowed"; "IsRegistrable"; "Err InvalidRpId"].
Definition EXP_IS_REGISTRABLE := ["DecodeHost"; "ToAscii"; "Etld1"].
Definition EXP_IS_VALID_RP_ID := ["AssertValid"].
Definition EXP_ASSERT_ANDROID_RP_ID := ["SuffixAtLabel"; "Err OriginRpMissmatch"; "IsRegistrable"; "Err InvalidRpId"].

Theorem src_client_register_order : SRC_CLIENT_REGISTER = EXP_CLIENT_REGISTER. Proof. reflexivity. Qed.
Theorem src_client_authenticate_order : SRC_CLIENT_AUTHENTICATE = EXP_CLIENT_AUTHENTICATE. Proof. reflexivity. Qed.
Theorem src_assert_domain_order : SRC_ASSERT_DOMAIN = EXP_ASSERT_DOMAIN. Proof. reflexivity. Qed.
Theorem src_assert_web_rp_id_order : SRC_ASSERT_WEB_RP_ID = EXP_ASSERT_WEB_RP_ID. Proof. reflexivity. Qed.
Theorem src_assert_valid_rp_id_order : SRC_ASSERT_VALID_RP_ID = EXP_ASSERT_VALID_RP_ID. Proof. reflexivity. Qed.
Theorem src_is_registrable_order : SRC_IS_REGISTRABLE = EXP_IS_REGISTRABLE. Proof. reflexivity. Qed.
Theorem src_is_valid_rp_id_order : SRC_IS_VALID_RP_ID = EXP_IS_VALID_RP_ID. Proof. reflexivity. Qed.
Theorem src_assert_android_rp_id_order : SRC_ASSERT_ANDROID_RP_ID = EXP_ASSERT_ANDROID_RP_ID. Proof. reflexivity. Qed.

(** *** order facts of the client's source text (recomputed from the generated lists on every run) *)
Theorem client_source_order_facts :
  (* the RP ID check precedes the serialisation of the client data and everything sent to the authenticator *)
  before "AssertDomain" "ClientDataJson" SRC_CLIENT_REGISTER = true
  /\ before "AssertDomain" "MakeCredential" SRC_CLIENT_REGISTER = true
  /\ before "AssertDomain" "ClientDataJson" SRC_CLIENT_AUTHENTICATE = true
  /\ before "AssertDomain" "GetAssertion" SRC_CLIENT_AUTHENTICATE = true
  (* the client data is typed and hashed before the authenticator is asked *)
  /\ before "TypeCreate" "MakeCredential" SRC_CLIENT_REGISTER = true
  /\ first_pos "TypeGet" SRC_CLIENT_REGISTER = None
  /\ before "TypeGet" "GetAssertion" SRC_CLIENT_AUTHENTICATE = true
  /\ first_pos "TypeCreate" SRC_CLIENT_AUTHENTICATE = None
  /\ before "ClientDataHash" "MakeCredential" SRC_CLIENT_REGISTER = true
  /\ before "ClientDataHash" "GetAssertion" SRC_CLIENT_AUTHENTICATE = true
  (* the only options literal is the one that demands presence, no PIN is sent, and each ceremony calls its own
     authenticator ceremony only *)
  /\ before "MakeCredential" "OptionsUpTrue" SRC_CLIENT_REGISTER = true
  /\ first_pos "OptionsOther" SRC_CLIENT_REGISTER = None
  /\ before "GetAssertion" "OptionsUpTrue" SRC_CLIENT_AUTHENTICATE = true
  /\ first_pos "OptionsOther" SRC_CLIENT_AUTHENTICATE = None
  /\ first_pos "GetAssertion" SRC_CLIENT_REGISTER = None
  /\ first_pos "MakeCredential" SRC_CLIENT_AUTHENTICATE = None
  (* the store's discoverability answer is read after the credential was made *)
  /\ before "MakeCredential" "StoreInfo" SRC_CLIENT_REGISTER = true.
Proof. vm_compute. repeat split. Qed.

Theorem rp_id_verifier_source_order_facts :
  (* web origins: host, then suffix-at-label-boundary, then the localhost guard, then the public-suffix check, then
     the scheme; android: suffix then registrable *)
  before "OriginDomain" "SuffixAtLabel" SRC_ASSERT_WEB_RP_ID = true
  /\ before "SuffixAtLabel" "AssertValid" SRC_ASSERT_WEB_RP_ID = true
  /\ before "Err OriginRpMissmatch" "Err InvalidRpId" SRC_ASSERT_WEB_RP_ID = true
  /\ before "AssertValid" "Scheme" SRC_ASSERT_WEB_RP_ID = true
  /\ before "Str https" "Err UnprotectedOrigin" SRC_ASSERT_WEB_RP_ID = true
  /\ before "Str localhost" "AllowsLocalhost" SRC_ASSERT_VALID_RP_ID = true
  /\ before "AllowsLocalhost" "IsRegistrable" SRC_ASSERT_VALID_RP_ID = true
  /\ before "DecodeHost" "ToAscii" SRC_IS_REGISTRABLE = true
  /\ before "ToAscii" "Etld1" SRC_IS_REGISTRABLE = true
  /\ before "SuffixAtLabel" "IsRegistrable" SRC_ASSERT_ANDROID_RP_ID = true.
Proof. vm_compute. repeat split. Qed.
