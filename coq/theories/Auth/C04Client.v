(** C04 at the WebAuthn entry points: [Client::register] and [Client::authenticate] hand the authenticator a
    request with up = true and uv = "the relying party did not discourage verification", and the consent
    judgement of the authenticator ceremony ([c04_judge_mc] / [c04_judge_ga], proved for every request in
    C04Facts) therefore holds for the ceremony inside every client run - in particular a request that REQUIRES
    verification reaches the authenticator with uv = true, so it can only succeed when the verification
    capability answered [Some true] and the validation step reported verification. *)
From PK Require Import Auth.C04Facts Auth.C11Facts.
Open Scope N_scope.

Definition client_options (rk : bool) (uv : option uv_req) : options :=
  {| o_rk := rk; o_up := true; o_uv := uv_option uv |}.

Lemma uv_option_required : uv_option (Some UvRequired) = true. Proof. reflexivity. Qed.
Lemma uv_option_preferred : uv_option (Some UvPreferred) = true. Proof. reflexivity. Qed.
Lemma uv_option_discouraged : uv_option (Some UvDiscouraged) = false. Proof. reflexivity. Qed.
Lemma uv_option_absent : uv_option None = true. Proof. reflexivity. Qed.

(** every successful registration through the client contains an authenticator ceremony whose request has
    up = true and uv as mapped, on whose own trace the consent judgement holds; what precedes it are the three
    capability queries, what follows it saves nothing *)
Theorem register_consent c domain origin q cd script tr cr :
  interp (register c domain origin q cd) script = (tr, Some (Ok cr)) ->
  exists d0 uv up rk tr_mc resp tr_fin,
    tr = info_events d0 uv up ++ tr_mc ++ tr_fin
    /\ no_save tr_fin
    /\ let o := client_options rk (option_map sel_uv (rq_selection q)) in
       c04_judge_mc o (run_monitor (c04_step o) c04_init tr_mc) (Some (Ok resp)) = true.
Proof.
  intros E.
  destruct (register_run _ _ _ _ _ _ _ _ E) as [(_ & H & _)|(d0 & uv & up & rp & ext & s_mc & tr_mc & r_mc & tr_fin & -> & _ & Emc & Hfin)];
    [destruct H|].
  destruct r_mc as [[resp|s]|].
  - destruct Hfin as (s_fin & Efin).
    exists d0, uv, up, (reg_rk q (info_of c d0 uv up)), tr_mc, resp, tr_fin.
    split; [reflexivity|]. split; [apply (reg_finish_run _ _ _ _ _ _ _ _ Efin)|].
    pose proof (c04_make_credential c (reg_ctap_request rp origin q cd (info_of c d0 uv up) ext) s_mc) as J.
    rewrite Emc in J. cbn [fst snd] in J. exact J.
  - destruct Hfin as (Hres & _). discriminate Hres.
  - destruct Hfin as (Hres & _). discriminate Hres.
Qed.

Theorem authenticate_consent c domain origin q cd script tr au :
  interp (authenticate c domain origin q cd) script = (tr, Some (Ok au)) ->
  exists d0 uv up tr_ga resp,
    tr = info_events d0 uv up ++ tr_ga
    /\ let o := client_options false (Some (aq_uv q)) in
       c04_judge_ga o (run_monitor (c04_step o) c04_init tr_ga) (Some (Ok resp)) = true.
Proof.
  intros E.
  destruct (authenticate_run _ _ _ _ _ _ _ _ E) as [(_ & H)|(d0 & uv & up & rp & ext & s_ga & tr_ga & r_ga & -> & _ & Ega & Hres)];
    [destruct H|].
  destruct r_ga as [[resp|s]|]; try discriminate Hres.
  exists d0, uv, up, tr_ga, resp. split; [reflexivity|].
  pose proof (c04_get_assertion (ad_bytes Sha256.sha256) c (auth_ctap_request rp origin q cd ext) s_ga) as J.
  rewrite Ega in J. cbn [fst snd] in J. exact J.
Qed.

(** what the judgement says when verification is required: the capability answered [Some true] *)
Lemma judge_mc_required o s resp : o_uv o = true ->
  c04_judge_mc o s (Some (Ok resp)) = true -> s_cap s = Some (Some true).
Proof.
  unfold c04_judge_mc, capability_ok. intros Huv H. rewrite Huv in H.
  destruct (s_cap s) as [[[|]|]|]; cbn in H; try reflexivity;
    repeat (apply Bool.andb_true_iff in H; destruct H as [H ?]); try discriminate;
    rewrite ?Bool.andb_false_r, ?Bool.andb_false_l in *; try discriminate.
Qed.
