(** Case type and correspondence checks for the ceremony domain (CTAP2-level operations). *)
From PK Require Import Lib.Check Lib.Sha256 Lib.Hmac.
From PK Require Export Auth.Replay.
Open Scope N_scope.

(** SHA-256 of the RP IDs occurring in a case as computed by the driver (hashlib): cross-checked against
    the Gallina SHA-256, which is what the model uses. *)
Definition hash_table := list (bytes * bytes).
Fixpoint lookup_hash (t : hash_table) (d : bytes) : bytes :=
  match t with [] => [] | (k, v) :: r => if beq k d then v else lookup_hash r d end.

Definition prf_values_eqb (a b : prf_values) : bool :=
  beq (pv_first a) (pv_first b) && opt_eqb beq (pv_second a) (pv_second b).

Definition acd_eqb (a b : acd) : bool :=
  beq (acd_aaguid a) (acd_aaguid b) && beq (acd_cred_id a) (acd_cred_id b) && beq (acd_x a) (acd_x b)
  && beq (acd_y a) (acd_y b) && Z.eqb (acd_alg a) (acd_alg b).

Definition auth_data_eqb (a b : auth_data) : bool :=
  beq (ad_rp_id a) (ad_rp_id b) && (ad_flags a =? ad_flags b) && opt_eqb N.eqb (ad_counter a) (ad_counter b)
  && opt_eqb acd_eqb (ad_acd a) (ad_acd b).

Definition prf_make_eqb (a b : prf_make_out) : bool :=
  Bool.eqb (pm_enabled a) (pm_enabled b) && opt_eqb prf_values_eqb (pm_results a) (pm_results b).

(** what the harness observed of a make_credential result: the structured fields and the raw
    authenticator data bytes *)
Record mc_obs := { mo_fields : mc_response; mo_ad_bytes : bytes }.
Record ga_obs := { go_fields : ga_response; go_ad_bytes : bytes }.

Definition info_eqb (a b : info_response) : bool :=
  Bool.eqb (i_prf_ext a) (i_prf_ext b) && beq (i_aaguid a) (i_aaguid b) && Bool.eqb (i_rk a) (i_rk b)
  && opt_eqb Bool.eqb (i_uv a) (i_uv b) && Bool.eqb (i_up a) (i_up b).

Inductive outcome (A : Type) :=
| Finished (r : result A N)
| Cancelled.
Arguments Finished {A}. Arguments Cancelled {A}.

Inductive ccase :=
| CMake (c : config) (q : mc_request) (log : list (eff * answer)) (qs : queues) (ht : hash_table)
        (impl : outcome mc_obs)
| CGet (c : config) (q : ga_request) (log : list (eff * answer)) (qs : queues) (ht : hash_table)
       (impl : outcome ga_obs)
| CInfo (c : config) (log : list (eff * answer)) (impl : info_response).

Definition agree (cs : ccase) : bool :=
  match cs with
  | CMake c q log qs ht impl =>
      match replay (make_credential c q) log qs 0, impl with
      | RDone (Ok r) _, Finished (Ok o) =>
          auth_data_eqb (mr_auth_data r) (mr_auth_data (mo_fields o))
          && opt_eqb prf_make_eqb (mr_prf r) (mr_prf (mo_fields o))
          && beq (ad_bytes sha256 (mr_auth_data r)) (mo_ad_bytes o) && forallb (fun kv => beq (sha256 (fst kv)) (snd kv)) ht
      | RDone (Err e) _, Finished (Err e') => e =? e'
      | RLogShort _ _, Cancelled => true
      | _, _ => false
      end
  | CGet c q log qs ht impl =>
      match replay (get_assertion (ad_bytes sha256) c q) log qs 0, impl with
      | RDone (Ok r) _, Finished (Ok o) =>
          let f := go_fields o in
          beq (gr_cred_id r) (gr_cred_id f) && auth_data_eqb (gr_auth_data r) (gr_auth_data f)
          && beq (gr_signature r) (gr_signature f) && opt_eqb beq (gr_user_handle r) (gr_user_handle f)
          && opt_eqb prf_values_eqb (gr_prf r) (gr_prf f)
          && beq (ad_bytes sha256 (gr_auth_data r)) (go_ad_bytes o) && forallb (fun kv => beq (sha256 (fst kv)) (snd kv)) ht
      | RDone (Err e) _, Finished (Err e') => e =? e'
      | RLogShort _ _, Cancelled => true
      | _, _ => false
      end
  | CInfo c log impl =>
      match replay (get_info c) log {| q_rand := []; q_key := []; q_sig := []; q_hmac := [] |} 0 with
      | RDone r _ => info_eqb r impl
      | _ => false
      end
  end.

(** *** Property oracles: the monitors of the theorems, evaluated on the implementation's call log
    and result (no model involved) *)
From PK Require Import Auth.C04Facts.

Definition outcome_result {A B} (f : A -> B) (o : outcome A) : option (result B N) :=
  match o with
  | Finished (Ok a) => Some (Ok (f a))
  | Finished (Err e) => Some (Err e)
  | Cancelled => None
  end.

Definition c04_ok (cs : ccase) : bool :=
  match cs with
  | CMake c q log _ _ impl =>
      c04_judge_mc (mc_opts q) (run_monitor (c04_step (mc_opts q)) c04_init log) (outcome_result mo_fields impl)
  | CGet c q log _ _ impl =>
      c04_judge_ga (ga_opts q) (run_monitor (c04_step (ga_opts q)) c04_init log) (outcome_result go_fields impl)
  | CInfo _ _ _ => true
  end.

(** every HMAC the model ceremony asks for (with the secret and salt the model selects) was answered
    by the implementation with the HMAC-SHA-256 of exactly that secret and salt *)
Definition hmac_events_ok (events : list (eff * answer)) : bool :=
  forallb (fun ev => match ev with
                     | (EHmac k s, ABytes o) => beq (hmac_sha256 k s) o
                     | _ => true
                     end) events.

Definition prf_ok (cs : ccase) : bool :=
  match cs with
  | CMake c q log qs _ (Finished (Ok _)) =>
      match replay (make_credential c q) log qs 0 with RDone _ ev => hmac_events_ok ev | _ => true end
  | CGet c q log qs _ (Finished (Ok _)) =>
      match replay (get_assertion (ad_bytes sha256) c q) log qs 0 with RDone _ ev => hmac_events_ok ev | _ => true end
  | _ => true
  end.

(** *** store discipline (C02 save clauses, C05, C07, C08, C11) on the implementation's log.
    The implementation's log has no signature event (signing is not a trait call): for an Ok assertion
    one is synthesised from the observation - the key of the credential the lookup returned first, the
    raw authenticator data bytes the implementation returned followed by the client data hash - so
    that the same judgement applies; the signature itself is verified by the driver's independent
    ECDSA verifier. *)
From PK Require Import Auth.StoreFacts.

Definition first_found (log : trace) : option passkey :=
  match log with
  | (EFind _ _, AFind r) :: _ => match first_credential r with Ok p => Some p | Err _ => None end
  | _ => None
  end.

Definition store_ok (cs : ccase) : bool :=
  match cs with
  | CMake c q log _ _ impl =>
      j_make c q (filter (fun ea => storeI (fst ea)) log) (outcome_result mo_fields impl)
  | CGet c q log _ _ impl =>
      let evs := filter (fun ea => storeI (fst ea)) log in
      let synth :=
        match impl, first_found log with
        | Finished (Ok o), Some p =>
            match private_key (pk_key p) with
            | Ok d => [(ESign d (go_ad_bytes o ++ ga_cdh q), ABytes (gr_signature (go_fields o)))]
            | Err _ => []
            end
        | _, _ => []
        end in
      j_get (ad_bytes sha256) q (evs ++ synth) (outcome_result go_fields impl)
  | CInfo _ _ _ => true
  end.
