(** Theorems about the U2F ceremonies (ceremony half of C17): what is signed, with which key, what is
    stored, for every application/challenge/key handle and every answer script; and the
    register-then-authenticate round trip on a store that honours saves (the reference store). *)
From PK Require Import Lib.Base64.
From PK Require Export Auth.U2f Auth.History.
Open Scope N_scope.

(** *** registration, against any answers *)

(** a run that returns a response made exactly these calls, in this order, and nothing else: the key
    pair is generated, the registration target is signed with ITS private half, and a credential
    holding that private half is saved for this application and key handle; the response carries the
    public half, the key handle, an empty certificate and that signature *)
Theorem u2f_register_ok app chal h script tr resp :
  interp (u2f_register app chal h) script = (tr, Some (Ok resp)) ->
  exists d x y sg u,
    tr = [ (EKeyGen, AKey d x y);
           (ESign d (u2f_register_target app chal h x y), ABytes sg);
           (ESave (u2f_passkey app h d x y) {| u_id := h; u_name := None; u_display := None |}
                  {| rp_id := u2f_rp_id app; rp_name := None |} U2F_OPTIONS, AUnit (Ok u)) ]
    /\ resp = RegResp (PubKey x y) h [] sg.
Proof.
  unfold u2f_register, keygen, sign, save. cbn [bind interp].
  destruct script as [|a1 script]; [discriminate|]. destruct a1; try discriminate. cbn [bind interp].
  destruct script as [|a2 script]; [discriminate|]. destruct a2; try discriminate. cbn [bind interp].
  destruct script as [|a3 script]; [discriminate|]. destruct a3 as [| r | | | | | |]; try discriminate. cbn [bind interp].
  destruct r as [u|e]; cbn [interp]; intros H; [|discriminate].
  injection H as <- <-. exists d, x, y, b, u. split; reflexivity.
Qed.

(** an error from the store while saving is reported to the caller, never turned into success *)
Theorem u2f_register_save_error app chal h script tr res e p u rp o :
  interp (u2f_register app chal h) script = (tr, Some res) ->
  In (ESave p u rp o, AUnit (Err e)) tr -> res = Err U2F_Other.
Proof.
  unfold u2f_register, keygen, sign, save. cbn [bind interp].
  destruct script as [|a1 script]; [discriminate|]. destruct a1; try discriminate. cbn [bind interp].
  destruct script as [|a2 script]; [discriminate|]. destruct a2; try discriminate. cbn [bind interp].
  destruct script as [|a3 script]; [discriminate|]. destruct a3 as [| r | | | | | |]; try discriminate. cbn [bind interp].
  destruct r as [u0|e0]; cbn [interp]; intros H; injection H as <- <-; intros Hin.
  - cbn [In] in Hin. destruct Hin as [Hin|[Hin|[Hin|[]]]]; discriminate Hin.
  - reflexivity.
Qed.

(** whatever the outcome, registration makes at most one mutating call and it is that save *)
Theorem u2f_register_mutations app chal h script :
  forall ea : eff * answer, In ea (fst (interp (u2f_register app chal h) script)) -> mutates (fst ea) = true ->
  exists d x y a, ea = (ESave (u2f_passkey app h d x y) {| u_id := h; u_name := None; u_display := None |}
                              {| rp_id := u2f_rp_id app; rp_name := None |} U2F_OPTIONS, a).
Proof.
  unfold u2f_register, keygen, sign, save. cbn [bind interp].
  destruct script as [|a1 script]; [intros ea []|]. destruct a1; try (cbn [interp fst In]; intros ea [<-|[]]; discriminate).
  cbn [bind interp]. destruct script as [|a2 script]; [cbn [fst In]; intros ea [<-|[]]; discriminate|].
  destruct a2; try (cbn [interp fst In]; intros ea [<-|[<-|[]]]; discriminate).
  cbn [bind interp]. destruct script as [|a3 script]; [cbn [fst In]; intros ea [<-|[<-|[]]]; discriminate|].
  assert (G : forall tl r, (forall ea, In ea tl -> False) ->
            forall ea, In ea (fst ((EKeyGen, AKey d x y) :: (ESign d (u2f_register_target app chal h x y), ABytes b)
                          :: (ESave (u2f_passkey app h d x y) {| u_id := h; u_name := None; u_display := None |}
                                {| rp_id := u2f_rp_id app; rp_name := None |} U2F_OPTIONS, a3) :: tl, r : option (result register_response N))) ->
            mutates (fst ea) = true -> exists d0 x0 y0 a, ea = (ESave (u2f_passkey app h d0 x0 y0) {| u_id := h; u_name := None; u_display := None |}
                              {| rp_id := u2f_rp_id app; rp_name := None |} U2F_OPTIONS, a)).
  { intros tl r Htl ea. cbn [fst In]. intros [<-|[<-|[<-|Hin]]]; try discriminate.
    - intros _. exists d, x, y, a3. reflexivity.
    - destruct (Htl _ Hin). }
  destruct a3 as [| r | | | | | |]; try (apply (G [] None); intros ? []).
  destruct r; cbn [interp]; apply G; intros ? [].
Qed.

(** *** authentication, against any answers *)

(** a run that returns a response looked the key handle up under this application's RP ID, took the
    FIRST credential answered, and signed the authentication target with that credential's private key;
    presence byte and counter in the response are the caller's *)
Theorem u2f_authenticate_ok app chal kh ctr pres script tr resp :
  interp (u2f_authenticate app chal kh ctr pres) script = (tr, Some (Ok resp)) ->
  exists cred rest d sg,
    tr = [ (EFind (Some [kh]) (u2f_rp_id app), AFind (Ok (cred :: rest)));
           (ESign d (u2f_authenticate_target app pres ctr chal), ABytes sg) ]
    /\ private_key (pk_key cred) = Ok d
    /\ resp = AuthResp pres ctr sg.
Proof.
  unfold u2f_authenticate, find_creds, sign. cbn [bind interp].
  destruct script as [|a1 script]; [discriminate|]. destruct a1 as [r| | | | | | |]; try discriminate. cbn [bind interp].
  destruct r as [[|cred rest]|e]; cbn [interp]; try discriminate.
  destruct (private_key (pk_key cred)) as [d|e] eqn:Ek; cbn [bind interp]; [|discriminate].
  destruct script as [|a2 script]; [discriminate|]. destruct a2; try discriminate. cbn [interp].
  intros H. injection H as <- <-. exists cred, rest, d, b. repeat split. exact Ek.
Qed.

(** no credential answered (empty list or any store error): failure, and nothing is signed *)
Theorem u2f_authenticate_unknown app chal kh ctr pres script r :
  (r = Ok [] \/ exists e, r = Err e) ->
  interp (u2f_authenticate app chal kh ctr pres) (AFind r :: script)
  = ([(EFind (Some [kh]) (u2f_rp_id app), AFind r)], Some (Err U2F_Other)).
Proof. intros [->|[e ->]]; reflexivity. Qed.

(** authentication never mutates the store and never consults the user *)
Theorem u2f_authenticate_effects app chal kh ctr pres script :
  forall ea : eff * answer, In ea (fst (interp (u2f_authenticate app chal kh ctr pres) script)) ->
  mutates (fst ea) = false /\ (forall c up uv, fst ea <> ECheckUser c up uv).
Proof.
  unfold u2f_authenticate, find_creds, sign. cbn [bind interp].
  destruct script as [|a1 script]; [intros ea []|].
  set (P := fun ea : eff * answer => mutates (fst ea) = false /\ (forall c up uv, fst ea <> ECheckUser c up uv)).
  assert (G1 : forall a tl (r : option (result authentication_response N)), (forall ea, In ea tl -> P ea) ->
     forall ea, In ea (fst ((EFind (Some [kh]) (u2f_rp_id app), a) :: tl, r)) -> P ea).
  { intros a tl r Htl ea. cbn [fst In]. intros [<-|Hin]; [split; [reflexivity|intros; discriminate]|auto]. }
  destruct a1 as [r| | | | | | |]; try (apply (G1 _ [] None); intros ? []).
  cbn [bind]. destruct r as [[|cred rest]|e]; cbn [interp]; try (apply G1; intros ? []).
  destruct (private_key (pk_key cred)) as [d|e]; cbn [bind interp]; [|apply G1; intros ? []].
  destruct script as [|a2 script]; [apply G1; intros ? []|].
  destruct a2; cbn [interp]; apply G1; cbn [In]; intros ea [<-|[]]; (split; [reflexivity|intros; discriminate]).
Qed.

(** *** on a store that honours saves: what registration leaves behind, and the round trip *)

Lemma filter_put_single st p rp :
  unique_ids st -> pk_rp_id p = rp ->
  filter (matches (Some [pk_cred_id p]) rp) (put st p) = [p].
Proof.
  intros Hu Hrp. unfold unique_ids in Hu.
  assert (Hp : matches (Some [pk_cred_id p]) rp p = true).
  { unfold matches, id_listed. cbn [existsb]. rewrite Hrp, !beq_refl. reflexivity. }
  induction st as [|x r IH]; cbn [put filter].
  - rewrite Hp. reflexivity.
  - cbn [map] in Hu. apply NoDup_cons_iff in Hu. destruct Hu as [Hx Hr].
    destruct (beq (pk_cred_id x) (pk_cred_id p)) eqn:E.
    + cbn [filter]. rewrite Hp. f_equal.
      (* no other element has this id *)
      apply beq_eq in E. clear IH. induction r as [|z r IHr]; [reflexivity|].
      cbn [filter]. cbn [map] in Hx, Hr. apply NoDup_cons_iff in Hr. destruct Hr as [Hz Hr'].
      assert (Hne : matches (Some [pk_cred_id p]) rp z = false).
      { unfold matches, id_listed. cbn [existsb]. destruct (beq (pk_cred_id z) (pk_cred_id p)) eqn:Ez.
        - apply beq_eq in Ez. exfalso. apply Hx. left. congruence.
        - rewrite Bool.orb_false_r. apply Bool.andb_false_r. }
      rewrite Hne. apply IHr; [intros Hin; apply Hx; right; exact Hin|exact Hr'].
    + cbn [filter].
      assert (Hne : matches (Some [pk_cred_id p]) rp x = false).
      { unfold matches, id_listed. cbn [existsb]. rewrite E. rewrite Bool.orb_false_r. apply Bool.andb_false_r. }
      rewrite Hne. apply IH. exact Hr.
Qed.

(** a successful registration on the reference store leaves exactly the new credential under this
    key handle, with the private half of the returned public key, and the store keeps unique ids *)
Theorem u2f_register_stores app chal h st dsc script st' tr resp :
  unique_ids st ->
  exec (u2f_register app chal h) st dsc script = (st', tr, Some (Ok resp)) ->
  exists d sg,
    st' = put st (u2f_passkey app h d (pk_x (rs_public_key resp)) (pk_y (rs_public_key resp)))
    /\ resp = RegResp (rs_public_key resp) h [] sg
    /\ In (ESign d (u2f_register_target app chal h (pk_x (rs_public_key resp)) (pk_y (rs_public_key resp))), ABytes sg) tr
    /\ ref_find st' (Some [h]) (u2f_rp_id app)
       = Ok [u2f_passkey app h d (pk_x (rs_public_key resp)) (pk_y (rs_public_key resp))]
    /\ unique_ids st'.
Proof.
  intros Hu He. pose proof (exec_spec (u2f_register app chal h) st dsc script) as S. rewrite He in S.
  destruct S as (Hi & Hst & _).
  apply u2f_register_ok in Hi. destruct Hi as (d & x & y & sg & u & Htr & ->).
  exists d, sg. cbn [rs_public_key pk_x pk_y]. rewrite Htr in Hst. cbn [fold_left apply_mut fst] in Hst.
  repeat split.
  - exact Hst.
  - rewrite Htr. right. left. reflexivity.
  - subst st'. unfold ref_find. f_equal.
    change h with (pk_cred_id (u2f_passkey app h d x y)) at 1. apply filter_put_single; [exact Hu|reflexivity].
  - subst st'. apply put_unique. exact Hu.
Qed.

(** the round trip: after a successful registration, an authentication with the same key handle and
    application on the resulting store succeeds (given answers for its one signature) and signs the
    authentication target with the private key generated at registration *)
Theorem u2f_round_trip app chal h st dsc script st1 tr1 resp chal2 ctr pres sg2 rest :
  unique_ids st ->
  exec (u2f_register app chal h) st dsc script = (st1, tr1, Some (Ok resp)) ->
  exists d,
    In (EKeyGen, AKey d (pk_x (rs_public_key resp)) (pk_y (rs_public_key resp))) tr1
    /\ exec (u2f_authenticate app chal2 h ctr pres) st1 dsc (ABytes sg2 :: rest)
       = (st1,
          [ (EFind (Some [h]) (u2f_rp_id app),
             AFind (Ok [u2f_passkey app h d (pk_x (rs_public_key resp)) (pk_y (rs_public_key resp))]));
            (ESign d (u2f_authenticate_target app pres ctr chal2), ABytes sg2) ],
          Some (Ok (AuthResp pres ctr sg2))).
Proof.
  intros Hu He.
  pose proof (exec_spec (u2f_register app chal h) st dsc script) as S. rewrite He in S. destruct S as (Hi & _ & _).
  destruct (u2f_register_stores _ _ _ _ _ _ _ _ _ Hu He) as (d & sg & Hst & Hresp & Hsign & Hfind & Hu').
  apply u2f_register_ok in Hi. destruct Hi as (d0 & x & y & sg0 & u & Htr & Hr).
  assert (d0 = d).
  { rewrite Hr in Hsign. cbn [rs_public_key pk_x pk_y] in Hsign. rewrite Htr in Hsign.
    cbn [In] in Hsign. destruct Hsign as [H|[H|[H|[]]]]; try discriminate H. injection H as -> _. reflexivity. }
  subst d0. exists d. split.
  - rewrite Htr, Hr. left. reflexivity.
  - unfold u2f_authenticate, find_creds, sign. cbn [bind exec]. rewrite Hfind. cbn [bind exec].
    unfold private_key, u2f_passkey. cbn [pk_key k_es256 k_ec2 k_d negb bind exec]. reflexivity.
Qed.

(** a key handle under which the store holds nothing for this application fails, and nothing is signed *)
Theorem u2f_unknown_handle app chal kh ctr pres st dsc script :
  (forall p, In p st -> pk_cred_id p = kh -> pk_rp_id p <> u2f_rp_id app) ->
  exec (u2f_authenticate app chal kh ctr pres) st dsc script
  = (st, [(EFind (Some [kh]) (u2f_rp_id app), AFind (Ok []))], Some (Err U2F_Other)).
Proof.
  intros Hno. unfold u2f_authenticate, find_creds. cbn [bind exec]. unfold ref_find.
  assert (filter (matches (Some [kh]) (u2f_rp_id app)) st = []) as ->.
  { induction st as [|x r IH]; [reflexivity|]. cbn [filter].
    assert (matches (Some [kh]) (u2f_rp_id app) x = false) as ->.
    { unfold matches, id_listed. cbn [existsb]. rewrite Bool.orb_false_r.
      destruct (beq (pk_cred_id x) kh) eqn:E; [|apply Bool.andb_false_r].
      apply beq_eq in E. rewrite Bool.andb_true_r. destruct (beq (pk_rp_id x) (u2f_rp_id app)) eqn:E2; [|reflexivity].
      apply beq_eq in E2. exfalso. apply (Hno x); [left; reflexivity|exact E|exact E2]. }
    apply IH. intros p Hp. apply Hno. right. exact Hp. }
  reflexivity.
Qed.

(** *** "a signature that verifies": for any signature scheme in which signatures made with a
    private key verify under the matching public key, and answers that come from that scheme *)
Section Scheme.
Variable pub_of : bytes -> bytes * bytes.                 (* private scalar -> affine coordinates *)
Variable sign_with : bytes -> bytes -> bytes.
Variable verify : bytes * bytes -> bytes -> bytes -> bool.
Hypothesis verify_sign : forall d m, verify (pub_of d) m (sign_with d m) = true.

Definition honest (tr : trace) : Prop :=
  forall ea, In ea tr ->
    match ea with
    | (EKeyGen, AKey d x y) => pub_of d = (x, y)
    | (ESign d m, ABytes s) => s = sign_with d m
    | _ => True
    end.

Theorem u2f_register_signature_verifies app chal h script tr resp :
  interp (u2f_register app chal h) script = (tr, Some (Ok resp)) -> honest tr ->
  verify (pk_x (rs_public_key resp), pk_y (rs_public_key resp))
         ([0] ++ app ++ chal ++ h ++ [4] ++ pk_x (rs_public_key resp) ++ pk_y (rs_public_key resp))
         (rs_signature resp) = true.
Proof.
  intros Hi Hh. apply u2f_register_ok in Hi. destruct Hi as (d & x & y & sg & u & -> & ->).
  pose proof (Hh _ (or_introl eq_refl)) as Hk. cbn in Hk.
  pose proof (Hh _ (or_intror (or_introl eq_refl))) as Hs. cbn in Hs.
  cbn [rs_public_key rs_signature pk_x pk_y]. rewrite <- Hk, Hs. apply verify_sign.
Qed.

Theorem u2f_round_trip_signature_verifies app chal h st dsc script st1 tr1 resp chal2 ctr pres script2 st2 tr2 resp2 :
  unique_ids st ->
  exec (u2f_register app chal h) st dsc script = (st1, tr1, Some (Ok resp)) -> honest tr1 ->
  exec (u2f_authenticate app chal2 h ctr pres) st1 dsc script2 = (st2, tr2, Some (Ok resp2)) -> honest tr2 ->
  st2 = st1
  /\ as_user_presence resp2 = pres /\ as_counter resp2 = ctr
  /\ verify (pk_x (rs_public_key resp), pk_y (rs_public_key resp))
            (app ++ [pres] ++ be32 ctr ++ chal2) (as_signature resp2) = true.
Proof.
  intros Hu He1 Hh1 He2 Hh2.
  assert (Hsig : exists sg2 rest, script2 = ABytes sg2 :: rest).
  { destruct (u2f_register_stores _ _ _ _ _ _ _ _ _ Hu He1) as (d0 & sg0 & _ & _ & _ & Hfind & _).
    revert He2. unfold u2f_authenticate, find_creds, sign. cbn [bind exec]. rewrite Hfind. cbn [bind exec].
    unfold private_key, u2f_passkey. cbn [pk_key k_es256 k_ec2 k_d negb bind exec].
    destruct script2 as [|a2 rest]; [discriminate|].
    destruct a2; cbn [exec]; try discriminate. intros _. eauto. }
  destruct Hsig as (sg2 & rest & ->).
  destruct (u2f_round_trip app chal h st dsc script st1 tr1 resp chal2 ctr pres sg2 rest Hu He1) as (d & Hkg & Hex).
  rewrite Hex in He2. injection He2 as <- <- <-.
  pose proof (Hh1 _ Hkg) as Hk. cbn in Hk.
  pose proof (Hh2 _ (or_intror (or_introl eq_refl))) as Hs. cbn in Hs.
  cbn [as_user_presence as_counter as_signature]. repeat split.
  rewrite <- Hk, Hs. apply verify_sign.
Qed.
End Scheme.
