(** Trace monitors: a property of all executions of a program, for all answer scripts (including
    scripts that end early = cancellation, and wrong-shaped answers), stated as a small state machine
    over the call trace plus a final judgement on (monitor state, result), and proved by walking the
    program once (a weakest-precondition over [prog]). *)
From PK Require Export Auth.Prog.

Section Monitor.
Context {S R : Type}.
Variable step : S -> eff -> answer -> S.
Variable Q : S -> option R -> Prop.   (* result None = cut short or stuck *)

Fixpoint holdsK {A} (p : prog A) (s : S) (K : S -> A -> Prop) : Prop :=
  match p with
  | Ret a => K s a
  | Stuck => Q s None
  | Call e k => Q s None /\ forall a, holdsK (k a) (step s e a) K
  end.

Definition holds (p : prog R) (s : S) : Prop := holdsK p s (fun s r => Q s (Some r)).

Lemma holdsK_bind {A B} (p : prog A) (f : A -> prog B) s K :
  holdsK p s (fun s' a => holdsK (f a) s' K) -> holdsK (bind p f) s K.
Proof.
  revert s. induction p as [a|e k IH|]; intros s H; cbn [bind holdsK] in *.
  - exact H.
  - destruct H as [H0 H]. split; [exact H0|]. intros a. apply IH. apply H.
  - exact H.
Qed.

Lemma holdsK_weaken {A} (p : prog A) s (K K' : S -> A -> Prop) :
  (forall s a, K s a -> K' s a) -> holdsK p s K -> holdsK p s K'.
Proof.
  intros HK. revert s. induction p as [a|e k IH|]; intros s H; cbn [holdsK] in *.
  - apply HK. exact H.
  - destruct H as [H0 H]. split; [exact H0|]. intros a. apply IH. apply H.
  - exact H.
Qed.

Definition run_monitor (s : S) (tr : trace) : S :=
  fold_left (fun s ea => step s (fst ea) (snd ea)) tr s.

Theorem holds_sound (p : prog R) : forall s script,
  holds p s -> Q (run_monitor s (fst (interp p script))) (snd (interp p script)).
Proof.
  unfold holds. induction p as [r|e k IH|]; intros s script H; cbn [holdsK interp] in *.
  - exact H.
  - destruct H as [H0 H]. destruct script as [|a script]; [exact H0|].
    specialize (IH a (step s e a) script (H a)).
    destruct (interp (k a) script) as [tr res]. exact IH.
  - exact H.
Qed.
End Monitor.

(** *** Programs that perform only effects of a given class, and the frame rule they give:
    a monitor invariant preserved by every step on such effects survives the whole sub-program,
    whatever it is answered. *)
Fixpoint only {A} (allowed : eff -> bool) (p : prog A) : Prop :=
  match p with
  | Ret _ | Stuck => True
  | Call e k => allowed e = true /\ forall a, only allowed (k a)
  end.

Lemma only_bind {A B} allowed (p : prog A) (f : A -> prog B) :
  only allowed p -> (forall a, only allowed (f a)) -> only allowed (bind p f).
Proof.
  intros Hp Hf. induction p as [a|e k IH|]; cbn [bind only] in *.
  - apply Hf.
  - destruct Hp as [He Hk]. split; [exact He|]. intros a. apply IH. apply Hk.
  - exact I.
Qed.

Lemma only_weaken {A} (al al' : eff -> bool) (p : prog A) :
  (forall e, al e = true -> al' e = true) -> only al p -> only al' p.
Proof.
  intros H. induction p as [a|e k IH|]; cbn [only]; auto.
  intros [He Hk]. split; [apply H; exact He|]. intros a. apply IH. apply Hk.
Qed.

Section Frame.
Context {S R : Type}.
Variable step : S -> eff -> answer -> S.
Variable Q : S -> option R -> Prop.
Variable Inv : S -> Prop.
Variable allowed : eff -> bool.
Hypothesis Inv_step : forall s e a, Inv s -> allowed e = true -> Inv (step s e a).
Hypothesis Inv_cut : forall s, Inv s -> Q s None.

Lemma holdsK_frame {A} (p : prog A) : forall s (K : S -> A -> Prop),
  only allowed p -> Inv s -> (forall s' a, Inv s' -> K s' a) -> holdsK step Q p s K.
Proof.
  induction p as [a|e k IH|]; intros s K Ho Hi HK; cbn [holdsK only] in *.
  - apply HK. exact Hi.
  - destruct Ho as [He Hk]. split; [apply Inv_cut; exact Hi|].
    intros a. apply IH; [apply Hk|apply Inv_step; assumption|exact HK].
  - apply Inv_cut. exact Hi.
Qed.
End Frame.

(** stuttering: a sub-program whose effects the monitor ignores leaves the monitor state as it is *)
Section Stutter.
Context {S R : Type}.
Variable step : S -> eff -> answer -> S.
Variable Q : S -> option R -> Prop.
Variable boring : eff -> bool.
Hypothesis boring_step : forall s e a, boring e = true -> step s e a = s.

Lemma holdsK_stutter {A} (p : prog A) s (K : S -> A -> Prop) :
  only boring p -> Q s None -> (forall a, K s a) -> holdsK step Q p s K.
Proof.
  intros Ho Hq HK.
  apply (holdsK_frame step Q (fun s' => s' = s) boring); auto.
  - intros s' e a -> He. apply boring_step. exact He.
  - intros s' ->. exact Hq.
  - intros s' a ->. apply HK.
Qed.
End Stutter.

(** *** Filter monitors: the monitor state is the list of "interesting" events seen so far, so a
    theorem [judge (filter interesting trace) result = true] speaks about the trace directly. *)
Section Filter.
Variable interesting : eff -> bool.

Definition fstep (s : trace) (e : eff) (a : answer) : trace :=
  if interesting e then s ++ [(e, a)] else s.

Lemma run_fstep tr : forall s,
  run_monitor fstep s tr = s ++ filter (fun ea => interesting (fst ea)) tr.
Proof.
  induction tr as [|[e a] tr IH]; intros s; cbn [run_monitor fold_left filter fst snd].
  - symmetry. apply app_nil_r.
  - fold (run_monitor fstep (fstep s e a) tr). rewrite IH. unfold fstep.
    destruct (interesting e); [rewrite <- app_assoc; reflexivity|reflexivity].
Qed.

Lemma fstep_boring s e a : negb (interesting e) = true -> fstep s e a = s.
Proof. unfold fstep. destruct (interesting e); [discriminate|reflexivity]. Qed.

Context {R : Type}.
Variable Q : trace -> option R -> Prop.

(** a segment with no interesting effect *)
Lemma holdsK_skip {A} (p : prog A) s (K : trace -> A -> Prop) :
  only (fun e => negb (interesting e)) p -> Q s None -> (forall a, K s a) -> holdsK fstep Q p s K.
Proof.
  intros Ho Hq HK.
  apply (holdsK_stutter fstep Q (fun e => negb (interesting e))); auto.
  intros s' e a. apply fstep_boring.
Qed.

Theorem filter_sound (p : prog R) script :
  holds fstep Q p [] ->
  Q (filter (fun ea => interesting (fst ea)) (fst (interp p script))) (snd (interp p script)).
Proof.
  intros H. pose proof (holds_sound fstep Q p [] script H) as G.
  rewrite run_fstep in G. exact G.
Qed.
End Filter.

(** *** Derivative form of a filter monitor: the state is the judgement still to be applied to the
    remaining interesting events.  Equivalent to the filter monitor ([run_dstep]) and convenient for
    compositional proofs: a lemma about a program suffix is stated for any remaining judgement. *)
Section Derivative.
Variable interesting : eff -> bool.
Context {R : Type}.
Definition judgement := trace -> option R -> bool.

Definition dstep (jk : judgement) (e : eff) (a : answer) : judgement :=
  if interesting e then (fun evs res => jk ((e, a) :: evs) res) else jk.

Definition dQ (jk : judgement) (res : option R) : Prop := jk [] res = true.

Lemma run_dstep tr : forall (jk : judgement) evs res,
  run_monitor dstep jk tr evs res = jk (filter (fun ea => interesting (fst ea)) tr ++ evs) res.
Proof.
  induction tr as [|[e a] tr IH]; intros jk evs res; cbn [run_monitor fold_left filter fst snd app].
  - reflexivity.
  - fold (run_monitor dstep (dstep jk e a) tr). rewrite IH. unfold dstep.
    destruct (interesting e); reflexivity.
Qed.

Lemma dstep_boring jk e a : negb (interesting e) = true -> dstep jk e a = jk.
Proof. unfold dstep. destruct (interesting e); [discriminate|reflexivity]. Qed.

Lemma holdsK_dskip {A} (p : prog A) jk (K : judgement -> A -> Prop) :
  only (fun e => negb (interesting e)) p -> dQ jk None -> (forall a, K jk a) -> holdsK dstep dQ p jk K.
Proof.
  intros Ho Hq HK.
  apply (holdsK_stutter dstep dQ (fun e => negb (interesting e))); auto.
  intros s' e a. apply dstep_boring.
Qed.

Theorem derivative_sound (J : judgement) (p : prog R) script :
  holds dstep dQ p J ->
  J (filter (fun ea => interesting (fst ea)) (fst (interp p script))) (snd (interp p script)) = true.
Proof.
  intros H. pose proof (holds_sound dstep dQ p J script H) as G. unfold dQ in G.
  rewrite run_dstep, app_nil_r in G. exact G.
Qed.
End Derivative.
