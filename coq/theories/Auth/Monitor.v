(** Trace monitors: a property of all executions of a program, for all answer scripts (including
    scripts that end early = cancellation, and wrong-shaped answers), stated as a small state machine
    over the call trace plus a final judgement on (monitor state, result), and proved by walking the
    program once (a weakest-precondition over [prog]). *)
From PK Require Export Auth.Prog.

Section Monitor.
Context {S R : Type}.
Variable step : S -> eff -> answer -> S.
Variable Q : S -> option R -> Prop.   (* result None = cut short or stuck *)

Fixpoint holdsK {A} (p : prog A) (s : S) (K : S -> A -> Prop) : Prop :=
  match p with
  | Ret a => K s a
  | Stuck => Q s None
  | Call e k => Q s None /\ forall a, holdsK (k a) (step s e a) K
  end.

Definition holds (p : prog R) (s : S) : Prop := holdsK p s (fun s r => Q s (Some r)).

Lemma holdsK_bind {A B} (p : prog A) (f : A -> prog B) s K :
  holdsK p s (fun s' a => holdsK (f a) s' K) -> holdsK (bind p f) s K.
Proof.
  revert s. induction p as [a|e k IH|]; intros s H; cbn [bind holdsK] in *.
  - exact H.
  - destruct H as [H0 H]. split; [exact H0|]. intros a. apply IH. apply H.
  - exact H.
Qed.

Lemma holdsK_weaken {A} (p : prog A) s (K K' : S -> A -> Prop) :
  (forall s a, K s a -> K' s a) -> holdsK p s K -> holdsK p s K'.
Proof.
  intros HK. revert s. induction p as [a|e k IH|]; intros s H; cbn [holdsK] in *.
  - apply HK. exact H.
  - destruct H as [H0 H]. split; [exact H0|]. intros a. apply IH. apply H.
  - exact H.
Qed.

Definition run_monitor (s : S) (tr : trace) : S :=
  fold_left (fun s ea => step s (fst ea) (snd ea)) tr s.

Theorem holds_sound (p : prog R) : forall s script,
  holds p s -> Q (run_monitor s (fst (interp p script))) (snd (interp p script)).
Proof.
  unfold holds. induction p as [r|e k IH|]; intros s script H; cbn [holdsK interp] in *.
  - exact H.
  - destruct H as [H0 H]. destruct script as [|a script]; [exact H0|].
    specialize (IH a (step s e a) script (H a)).
    destruct (interp (k a) script) as [tr res]. exact IH.
  - exact H.
Qed.
End Monitor.

(** *** Programs that perform only effects of a given class, and the frame rule they give:
    a monitor invariant preserved by every step on such effects survives the whole sub-program,
    whatever it is answered. *)
Fixpoint only {A} (allowed : eff -> bool) (p : prog A) : Prop :=
  match p with
  | Ret _ | Stuck => True
  | Call e k => allowed e = true /\ forall a, only allowed (k a)
  end.

Lemma only_bind {A B} allowed (p : prog A) (f : A -> prog B) :
  only allowed p -> (forall a, only allowed (f a)) -> only allowed (bind p f).
Proof.
  intros Hp Hf. induction p as [a|e k IH|]; cbn [bind only] in *.
  - apply Hf.
  - destruct Hp as [He Hk]. split; [exact He|]. intros a. apply IH. apply Hk.
  - exact I.
Qed.

Lemma only_weaken {A} (al al' : eff -> bool) (p : prog A) :
  (forall e, al e = true -> al' e = true) -> only al p -> only al' p.
Proof.
  intros H. induction p as [a|e k IH|]; cbn [only]; auto.
  intros [He Hk]. split; [apply H; exact He|]. intros a. apply IH. apply Hk.
Qed.

Section Frame.
Context {S R : Type}.
Variable step : S -> eff -> answer -> S.
Variable Q : S -> option R -> Prop.
Variable Inv : S -> Prop.
Variable allowed : eff -> bool.
Hypothesis Inv_step : forall s e a, Inv s -> allowed e = true -> Inv (step s e a).
Hypothesis Inv_cut : forall s, Inv s -> Q s None.

Lemma holdsK_frame {A} (p : prog A) : forall s (K : S -> A -> Prop),
  only allowed p -> Inv s -> (forall s' a, Inv s' -> K s' a) -> holdsK step Q p s K.
Proof.
  induction p as [a|e k IH|]; intros s K Ho Hi HK; cbn [holdsK only] in *.
  - apply HK. exact Hi.
  - destruct Ho as [He Hk]. split; [apply Inv_cut; exact Hi|].
    intros a. apply IH; [apply Hk|apply Inv_step; assumption|exact HK].
  - apply Inv_cut. exact Hi.
Qed.
End Frame.
