(** Store discipline of the ceremonies (C02 save clauses, C05, C07, C08, C11): which store calls a
    ceremony makes, with which arguments, in which order, and how its result depends on their answers.
    Stated as a judgement over the list of interesting events of the trace (lookups, capability
    queries of the store, saves, updates, signatures) and proved for every request, configuration and
    answer script (incl. faults, wrong-shaped answers and scripts that end early = cancellation). *)
From PK Require Import Lib.Check.
From PK Require Export Auth.Monitor Auth.Authenticator Auth.Effects Auth.Replay.
Open Scope N_scope.

Definition storeI (e : eff) : bool :=
  match e with
  | EFind _ _ | EStoreInfo | ESave _ _ _ _ | EUpdate _ | ESign _ _ => true
  | _ => false
  end.

Definition not_ok {A} (res : option (result A N)) : bool :=
  match res with Some (Ok _) => false | _ => true end.
Definition err_or_cut {A} (e : N) (res : option (result A N)) : bool :=
  match res with Some (Err e') => e =? e' | None => true | Some (Ok _) => false end.
Definition is_cut {A} (res : option A) : bool := match res with None => true | Some _ => false end.
Definition is_nil {A} (l : list A) : bool := match l with [] => true | _ => false end.

(** *** Registration *)
Section Make.
Variables (c : config) (q : mc_request).

(** the passkey handed to the store: RP ID of the request, user handle exactly when discoverable
    under the store's capability, counter zero or absent as configured, a private EC2 key *)
Definition saved_passkey_ok (d : discoverability) (p : passkey) : bool :=
  beq (pk_rp_id p) (rp_id (mc_rp q))
  && ob_eqb (pk_user_handle p) (if is_discoverable d (o_rk (mc_opts q)) then Some (u_id (mc_user q)) else None)
  && opt_eqb N.eqb (pk_counter p) (if c_counter c then Some 0 else None)
  && k_ec2 (pk_key p) && match k_d (pk_key p) with Some _ => true | None => false end.

(** the response describes exactly the saved passkey: same credential id, the public half of the
    saved key, the request's RP ID, counter zero/absent, AT data present *)
Definition response_matches (p : passkey) (r : mc_response) : bool :=
  match ad_acd (mr_auth_data r) with
  | Some a => beq (acd_cred_id a) (pk_cred_id p) && beq (acd_x a) (k_x (pk_key p)) && beq (acd_y a) (k_y (pk_key p))
              && beq (acd_aaguid a) (c_aaguid c) && Bool.eqb (Z.eqb (acd_alg a) ES256) (k_es256 (pk_key p))
  | None => false
  end
  && beq (ad_rp_id (mr_auth_data r)) (rp_id (mc_rp q))
  && opt_eqb N.eqb (ad_counter (mr_auth_data r)) (pk_counter p).

(** the save: last event; its answer decides the result *)
Definition j_save (d : discoverability) (evs : trace) (res : option (result mc_response N)) : bool :=
  match evs with
  | [] => not_ok res
  | [(ESave p u rp o, a)] =>
      saved_passkey_ok d p && user_eqb u (mc_user q) && rp_eqb rp (mc_rp q) && options_eqb o (mc_opts q)
      && match a with
         | AUnit (Ok _) => match res with Some (Ok r) => response_matches p r | _ => false end
         | AUnit (Err e) => match res with Some (Err e') => e =? e' | _ => false end
         | _ => is_cut res
         end
  | _ => false
  end.

(** the store-capability query right before the save *)
Definition j_info (evs : trace) (res : option (result mc_response N)) : bool :=
  match evs with
  | [] => not_ok res
  | (EStoreInfo, AInfo d) :: rest => j_save d rest res
  | [(EStoreInfo, _)] => is_cut res
  | _ => false
  end.

(** the rk check: a required resident key on a store that cannot hold discoverable credentials is
    refused with UnsupportedOption and nothing further happens *)
Definition j_rk (evs : trace) (res : option (result mc_response N)) : bool :=
  if o_rk (mc_opts q) then
    match evs with
    | [] => not_ok res
    | (EStoreInfo, AInfo d) :: rest =>
        if disc_eqb d OnlyNonDiscoverable then is_nil rest && err_or_cut CTAP2_UnsupportedOption res
        else j_info rest res
    | [(EStoreInfo, _)] => is_cut res
    | _ => false
    end
  else j_info evs res.

(** the exclude list: consulted iff non-empty, with exactly the listed ids and the request's RP ID;
    a non-empty answer ends the ceremony with CredentialExcluded and nothing is saved *)
Definition j_make (evs : trace) (res : option (result mc_response N)) : bool :=
  match mc_exclude q with
  | Some ((_ :: _) as l) =>
      match evs with
      | [] => not_ok res
      | (EFind ids rp, a) :: rest =>
          opt_eqb (list_eqb beq) ids (Some l) && beq rp (rp_id (mc_rp q))
          && match a with
             | AFind (Ok (_ :: _)) => is_nil rest && err_or_cut CTAP2_CredentialExcluded res
             | AFind _ => j_rk rest res
             | _ => is_nil rest && is_cut res
             end
      | _ => false
      end
  | _ => j_rk evs res
  end.
End Make.

(** reflexivity of the comparison functions *)
Lemma ob_eqb_refl o : ob_eqb o o = true.
Proof. destruct o; cbn; [apply beq_refl|reflexivity]. Qed.
Lemma list_beq_refl l : list_eqb beq l l = true.
Proof. induction l; cbn; [reflexivity|rewrite beq_refl; exact IHl]. Qed.
Lemma user_eqb_refl u : user_eqb u u = true.
Proof. unfold user_eqb. rewrite beq_refl, !ob_eqb_refl. reflexivity. Qed.
Lemma rp_eqb_refl r : rp_eqb r r = true.
Proof. unfold rp_eqb. rewrite beq_refl, ob_eqb_refl. reflexivity. Qed.
Lemma options_eqb_refl o : options_eqb o o = true.
Proof. unfold options_eqb, bool_eqb. rewrite !Bool.eqb_reflx. reflexivity. Qed.
Lemma optN_eqb_refl o : opt_eqb N.eqb o o = true.
Proof. destruct o; cbn; [apply N.eqb_refl|reflexivity]. Qed.

Ltac refl_eqbs :=
  rewrite ?beq_refl, ?ob_eqb_refl, ?list_beq_refl, ?user_eqb_refl, ?rp_eqb_refl, ?options_eqb_refl,
          ?optN_eqb_refl, ?N.eqb_refl, ?Bool.eqb_reflx.

Section MakeProof.
Variables (c : config) (q : mc_request).
Notation J := (@judgement (result mc_response N)).
Notation stp := (@dstep storeI (result mc_response N)).
Notation Qd := (@dQ (result mc_response N)).
Notation Kfin := (fun (jk : J) r => Qd jk (Some r)).

(** skip a segment without interesting effects *)
Ltac skip := apply holdsK_bind; apply (holdsK_dskip storeI); [only_seg | | ].

Definition jeq (jk jk' : J) : Prop := forall evs res, jk evs res = jk' evs res.

Lemma mc_after_rk_store flags alg (jk : J) :
  jeq jk (j_info c q) ->
  holdsK stp Qd (mc_after_rk c q flags alg) jk Kfin.
Proof.
  intros E. unfold mc_after_rk.
  assert (Q0 : Qd jk None) by (unfold dQ; rewrite E; reflexivity).
  assert (QE : forall e, Qd jk (Some (Err e))) by (intros e; unfold dQ; rewrite E; reflexivity).
  destruct (mc_pin_auth q); [cbn [holdsK]; apply QE|].
  skip; [exact Q0|]. intros cred_id.
  skip; [exact Q0|]. intros [[d x] y].
  skip; [exact Q0|]. intros [[cred_ext unsigned]|e]; [|cbn [holdsK]; apply QE].
  apply holdsK_bind. unfold store_info. cbn [holdsK]. split; [exact Q0|].
  intros a.
  change (stp jk EStoreInfo a) with (fun evs res => jk ((EStoreInfo, a) :: evs) res).
  destruct a; cbn [holdsK]; try (unfold dQ; rewrite E; reflexivity).
  apply holdsK_bind. unfold save. cbn [holdsK]. split; [unfold dQ; rewrite E; reflexivity|].
  intros a.
  match goal with |- holdsK _ _ _ (stp ?j ?e a) _ => change (stp j e a) with (fun evs res => j ((e, a) :: evs) res) end.
  assert (PK : forall rest res, jk ((EStoreInfo, AInfo d0) :: rest) res = j_save c q d0 rest res)
    by (intros; rewrite E; reflexivity).
  destruct a; cbn [holdsK]; try (unfold dQ; rewrite PK; cbn [j_save]; unfold saved_passkey_ok;
      cbn [pk_rp_id pk_user_handle pk_counter pk_key k_ec2 k_d]; refl_eqbs; reflexivity).
  destruct r as [[]|e]; cbn [holdsK]; unfold dQ; rewrite PK; cbn [j_save]; unfold saved_passkey_ok, response_matches;
    cbn [pk_rp_id pk_user_handle pk_counter pk_key k_ec2 k_d k_x k_y k_es256 pk_cred_id mr_auth_data ad_acd
         acd_cred_id acd_x acd_y acd_aaguid acd_alg ad_rp_id ad_counter]; refl_eqbs; reflexivity.
Qed.

Lemma mc_after_exclude_store flags (jk : J) :
  jeq jk (j_rk c q) ->
  holdsK stp Qd (mc_after_exclude c q flags) jk Kfin.
Proof.
  intros E. unfold mc_after_exclude.
  assert (Q0 : Qd jk None) by (unfold dQ; rewrite E; unfold j_rk; destruct (o_rk (mc_opts q)); reflexivity).
  assert (QE : forall e, Qd jk (Some (Err e))) by (intros e; unfold dQ; rewrite E; unfold j_rk; destruct (o_rk (mc_opts q)); reflexivity).
  destruct (choose_algorithm c (mc_params q)) as [alg|]; [|cbn [holdsK]; apply QE].
  destruct (o_rk (mc_opts q)) eqn:Hrk.
  2:{ apply mc_after_rk_store. intros evs res. rewrite E. unfold j_rk. rewrite Hrk. reflexivity. }
  apply holdsK_bind. unfold get_info.
  apply holdsK_bind. unfold store_info. cbn [holdsK]. split; [exact Q0|].
  intros a.
  change (stp jk EStoreInfo a) with (fun evs res => jk ((EStoreInfo, a) :: evs) res).
  assert (PK : forall rest res, jk ((EStoreInfo, a) :: rest) res = j_rk c q ((EStoreInfo, a) :: rest) res)
    by (intros; apply E).
  unfold j_rk in PK. rewrite Hrk in PK.
  destruct a; cbn [holdsK]; try (unfold dQ; rewrite PK; reflexivity).
  set (jk1 := fun evs res => jk ((EStoreInfo, AInfo d) :: evs) res).
  assert (Q1 : Qd jk1 None) by (unfold dQ, jk1; rewrite PK; destruct (disc_eqb d OnlyNonDiscoverable); reflexivity).
  skip; [exact Q1|]. intros uv.
  skip; [exact Q1|]. intros up. cbn [holdsK i_rk].
  destruct (disc_eqb d OnlyNonDiscoverable) eqn:Hd; cbn [negb holdsK].
  - unfold dQ, jk1. rewrite PK. reflexivity.
  - apply mc_after_rk_store. intros evs res. unfold jk1. rewrite PK. reflexivity.
Qed.

Theorem make_credential_store :
  holds stp Qd (make_credential c q) (j_make c q).
Proof.
  unfold holds, make_credential.
  assert (Q0 : Qd (j_make c q) None).
  { unfold dQ, j_make, j_rk. destruct (mc_exclude q) as [[|]|]; destruct (o_rk (mc_opts q)); reflexivity. }
  assert (QE : forall e, Qd (j_make c q) (Some (Err e))).
  { intros e. unfold dQ, j_make, j_rk. destruct (mc_exclude q) as [[|]|]; destruct (o_rk (mc_opts q)); reflexivity. }
  destruct (o_up (mc_opts q)); cbn [negb]; [|apply QE].
  skip; [exact Q0|]. intros [flags|e]; [|cbn [holdsK]; apply QE].
  unfold mc_after_consent.
  destruct (mc_exclude q) as [[|id ids]|] eqn:Hex;
    try (apply mc_after_exclude_store; intros evs res; unfold j_make; rewrite Hex; reflexivity).
  apply holdsK_bind. unfold find_creds. cbn [holdsK]. split; [exact Q0|].
  intros a.
  match goal with |- holdsK _ _ _ (stp ?j ?e a) _ => change (stp j e a) with (fun evs res => j ((e, a) :: evs) res) end.
  assert (PK : forall rest res, j_make c q ((EFind (Some (id :: ids)) (rp_id (mc_rp q)), a) :: rest) res =
     match a with
     | AFind (Ok (_ :: _)) => is_nil rest && err_or_cut CTAP2_CredentialExcluded res
     | AFind _ => j_rk c q rest res
     | _ => is_nil rest && is_cut res
     end).
  { intros. unfold j_make. rewrite Hex. cbn [opt_eqb]. refl_eqbs. reflexivity. }
  destruct a; cbn [holdsK]; try (unfold dQ; rewrite PK; reflexivity).
  destruct r as [[|pk pks]|e]; cbn [holdsK];
    try (apply mc_after_exclude_store; intros evs res; rewrite PK; reflexivity).
  unfold dQ. rewrite PK. reflexivity.
Qed.

Theorem make_credential_store_all script :
  j_make c q (filter (fun ea => storeI (fst ea)) (fst (interp (make_credential c q) script)))
             (snd (interp (make_credential c q) script)) = true.
Proof. apply derivative_sound. apply make_credential_store. Qed.
End MakeProof.

(** *** Assertion *)
Section Get.
Variable ad_bytes : auth_data -> bytes.
Variables (c : config) (q : ga_request).

(** the signature: made with the selected credential's own private key over the returned
    authenticator data followed by the client data hash; the response names that credential,
    returns its stored user handle and reports the counter value just stored *)
Definition j_sign (cred cred0 : passkey) (evs : trace) (res : option (result ga_response N)) : bool :=
  match evs with
  | [] => not_ok res
  | [(ESign key msg, a)] =>
      match private_key (pk_key cred0) with Ok d => beq d key | Err _ => false end
      && match a with
         | ABytes sg =>
             match res with
             | Some (Ok r) =>
                 beq msg (ad_bytes (gr_auth_data r) ++ ga_cdh q) && beq (gr_signature r) sg
                 && beq (gr_cred_id r) (pk_cred_id cred0) && ob_eqb (gr_user_handle r) (pk_user_handle cred0)
                 && opt_eqb N.eqb (ad_counter (gr_auth_data r)) (pk_counter cred)
                 && beq (ad_rp_id (gr_auth_data r)) (ga_rp_id q)
                 && match ad_acd (gr_auth_data r) with None => true | Some _ => false end
             | _ => false
             end
         | _ => is_cut res
         end
  | _ => false
  end.

(** the counter: a credential with a counter is rewritten exactly once, before the signature, with
    only the counter changed (saturating +1), and an error of that update is the result; a
    credential without a counter is never rewritten *)
Definition j_selected (cred0 : passkey) (evs : trace) (res : option (result ga_response N)) : bool :=
  match pk_counter cred0 with
  | Some n =>
      match evs with
      | [] => not_ok res
      | (EUpdate p', a) :: rest =>
          passkey_eqb p' (bump_counter cred0 n)
          && match a with
             | AUnit (Ok _) => j_sign (bump_counter cred0 n) cred0 rest res
             | AUnit (Err e) => is_nil rest && match res with Some (Err e') => e =? e' | _ => false end
             | _ => is_nil rest && is_cut res
             end
      | _ => false
      end
  | None => j_sign cred0 cred0 evs res
  end.

(** the lookup: first call, with the request's RP ID and the allow list when non-empty (else no id
    list); the first credential of the answer is the one used *)
Definition j_get (evs : trace) (res : option (result ga_response N)) : bool :=
  let ids := match ga_allow q with Some ((_ :: _) as l) => Some l | _ => None end in
  match evs with
  | [] => is_cut res
  | (EFind ids' rp, a) :: rest =>
      opt_eqb (list_eqb beq) ids' ids && beq rp (ga_rp_id q)
      && match a with
         | AFind r =>
             match first_credential r with
             | Err _ => is_nil rest && not_ok res
             | Ok cred0 => j_selected cred0 rest res
             end
         | _ => is_nil rest && is_cut res
         end
  | _ => false
  end.

Notation J := (@judgement (result ga_response N)).
Notation stp := (@dstep storeI (result ga_response N)).
Notation Qd := (@dQ (result ga_response N)).
Notation Kfin := (fun (jk : J) r => Qd jk (Some r)).
Ltac skip := apply holdsK_bind; apply (holdsK_dskip storeI); [only_seg | | ].

Lemma oids_eqb_refl o : opt_eqb (list_eqb beq) o o = true.
Proof. destruct o; cbn; [apply list_beq_refl|reflexivity]. Qed.

Lemma passkey_eqb_refl p : passkey_eqb p p = true.
Proof.
  unfold passkey_eqb, keymat_eqb, hmac_eqb, bool_eqb. refl_eqbs.
  destruct (pk_hmac p) as [[w wo]|]; cbn; refl_eqbs; reflexivity.
Qed.

Lemma ga_finish_store flags cred cred0 (jk : J) :
  pk_key cred = pk_key cred0 -> pk_cred_id cred = pk_cred_id cred0 -> pk_user_handle cred = pk_user_handle cred0 ->
  (forall evs res, jk evs res = j_sign cred cred0 evs res) ->
  holdsK stp Qd (ga_finish ad_bytes c q flags cred) jk Kfin.
Proof.
  intros Hk Hid Huh E. unfold ga_finish.
  assert (Q0 : Qd jk None) by (unfold dQ; rewrite E; reflexivity).
  assert (QE : forall e, Qd jk (Some (Err e))) by (intros e; unfold dQ; rewrite E; reflexivity).
  skip; [exact Q0|]. intros [prf|e]; [|cbn [holdsK]; apply QE].
  rewrite Hk. destruct (private_key (pk_key cred0)) as [d|e] eqn:Hpk; [|cbn [holdsK]; apply QE].
  apply holdsK_bind. unfold sign. cbn [holdsK]. split; [exact Q0|].
  intros a.
  match goal with |- holdsK _ _ _ (stp ?j ?e a) _ => change (stp j e a) with (fun evs res => j ((e, a) :: evs) res) end.
  destruct a; cbn [holdsK]; unfold dQ; rewrite E; cbn [j_sign]; rewrite Hpk; refl_eqbs; try reflexivity.
  cbn [gr_auth_data gr_signature gr_cred_id gr_user_handle ad_counter ad_rp_id ad_acd].
  rewrite Hid, Huh. refl_eqbs. reflexivity.
Qed.

Theorem get_assertion_store : holds stp Qd (get_assertion ad_bytes c q) j_get.
Proof.
  unfold holds, get_assertion.
  apply holdsK_bind. unfold find_creds. cbn [holdsK]. split; [reflexivity|].
  intros a.
  match goal with |- holdsK _ _ _ (stp ?j ?e a) _ => change (stp j e a) with (fun evs res => j ((e, a) :: evs) res) end.
  assert (PK : forall rest res,
     j_get ((EFind match ga_allow q with Some ((_ :: _) as l) => Some l | _ => None end (ga_rp_id q), a) :: rest) res =
     match a with
     | AFind r => match first_credential r with
                  | Err _ => is_nil rest && not_ok res
                  | Ok cred0 => j_selected cred0 rest res
                  end
     | _ => is_nil rest && is_cut res
     end).
  { intros. unfold j_get. rewrite oids_eqb_refl. refl_eqbs. reflexivity. }
  destruct a; cbn [holdsK]; try (unfold dQ; rewrite PK; reflexivity).
  set (jk := fun evs res => j_get ((EFind _ _, AFind r) :: evs) res).
  assert (Q0 : Qd jk None).
  { unfold dQ, jk. rewrite PK. destruct (first_credential r) as [p|]; [|reflexivity].
    unfold j_selected. destruct (pk_counter p); reflexivity. }
  assert (QE : forall e, Qd jk (Some (Err e))).
  { intros e. unfold dQ, jk. rewrite PK. destruct (first_credential r) as [p|]; [|reflexivity].
    unfold j_selected. destruct (pk_counter p); reflexivity. }
  destruct (ga_pin_auth q); [cbn [holdsK]; apply QE|].
  destruct (o_rk (ga_opts q)); [cbn [holdsK]; apply QE|].
  skip; [exact Q0|]. intros [flags|e]; [|cbn [holdsK]; apply QE].
  unfold ga_after_consent.
  destruct (first_credential r) as [cred0|e] eqn:Hfc; [|cbn [holdsK]; apply QE].
  destruct (pk_counter cred0) as [n|] eqn:Hctr.
  2:{ apply (ga_finish_store flags cred0 cred0); try reflexivity. intros evs res. unfold jk. rewrite PK. unfold j_selected. rewrite Hctr. reflexivity. }
  apply holdsK_bind. unfold update. cbn [holdsK]. split; [exact Q0|].
  intros a.
  match goal with |- holdsK _ _ _ (stp ?j ?e a) _ => change (stp j e a) with (fun evs res => j ((e, a) :: evs) res) end.
  assert (PK2 : forall rest res, jk ((EUpdate (bump_counter cred0 n), a) :: rest) res =
     match a with
     | AUnit (Ok _) => j_sign (bump_counter cred0 n) cred0 rest res
     | AUnit (Err e) => is_nil rest && match res with Some (Err e') => e =? e' | _ => false end
     | _ => is_nil rest && is_cut res
     end).
  { intros. unfold jk. rewrite PK. unfold j_selected. rewrite Hctr, passkey_eqb_refl. reflexivity. }
  destruct a; cbn [holdsK]; try (unfold dQ; rewrite PK2; reflexivity).
  destruct r0 as [[]|e]; cbn [holdsK].
  - apply (ga_finish_store flags (bump_counter cred0 n) cred0); try reflexivity. intros evs res. rewrite PK2. reflexivity.
  - unfold dQ. rewrite PK2. cbn. apply N.eqb_refl.
Qed.

Theorem get_assertion_store_all script :
  j_get (filter (fun ea => storeI (fst ea)) (fst (interp (get_assertion ad_bytes c q) script)))
        (snd (interp (get_assertion ad_bytes c q) script)) = true.
Proof. apply derivative_sound. apply get_assertion_store. Qed.
End Get.

(** *** Reading the judgements: what an Ok result implies, in plain terms *)

Lemma andb_split a b : a && b = true -> a = true /\ b = true.
Proof. apply andb_true_iff. Qed.

Ltac bsplit :=
  repeat match goal with
  | H : _ && _ = true |- _ => apply andb_split in H; destruct H
  end.

Lemma ob_eqb_eq a b : ob_eqb a b = true -> a = b.
Proof. unfold ob_eqb. destruct a, b; cbn; try discriminate; auto. intros E. apply beq_eq in E. congruence. Qed.
Lemma optN_eqb_eq a b : opt_eqb N.eqb a b = true -> a = b.
Proof. destruct a, b; cbn; try discriminate; auto. intros E. apply N.eqb_eq in E. congruence. Qed.
Lemma list_beq_eq l l' : list_eqb beq l l' = true -> l = l'.
Proof.
  revert l'. induction l as [|x l IH]; intros [|y l']; cbn; try discriminate; auto.
  intros E. apply andb_true_iff in E as [E1 E2]. f_equal; [apply beq_eq; assumption|apply IH; assumption].
Qed.
Lemma oids_eqb_eq a b : opt_eqb (list_eqb beq) a b = true -> a = b.
Proof. destruct a, b; cbn; try discriminate; auto. intros E. f_equal. apply list_beq_eq. exact E. Qed.
Lemma hmac_eqb_eq a b : hmac_eqb a b = true -> a = b.
Proof.
  unfold hmac_eqb. destruct a as [[w wo]|], b as [[w' wo']|]; cbn; try discriminate; auto.
  intros E. apply andb_true_iff in E as [E1 E2]. apply beq_eq in E1. apply ob_eqb_eq in E2. congruence.
Qed.
Lemma passkey_eqb_eq p p' : passkey_eqb p p' = true -> p = p'.
Proof.
  unfold passkey_eqb, keymat_eqb, bool_eqb.
  destruct p as [[e c d x y] id rp uh ctr hm], p' as [[e' c' d' x' y'] id' rp' uh' ctr' hm']. cbn.
  intros H. repeat match goal with H : _ && _ = true |- _ => apply andb_true_iff in H; destruct H end.
  repeat match goal with H : beq _ _ = true |- _ => apply beq_eq in H end.
  repeat match goal with H : Bool.eqb _ _ = true |- _ => apply Bool.eqb_prop in H end.
  repeat match goal with H : ob_eqb _ _ = true |- _ => apply ob_eqb_eq in H end.
  match goal with H : opt_eqb N.eqb _ _ = true |- _ => apply optN_eqb_eq in H end.
  match goal with H : hmac_eqb _ _ = true |- _ => apply hmac_eqb_eq in H end.
  subst. reflexivity.
Qed.

Section Readings.
Variable ad_bytes : auth_data -> bytes.

(** a successful assertion: the first interesting event is the lookup with the request's RP ID and
    (non-empty) allow list; the credential used is the first one of its answer; if that credential
    has a counter [n] the next event is the update with counter [counter_next n], answered Ok, and the
    reported counter is that value; the last event is the signature with that credential's key over
    the returned authenticator data followed by the client data hash. *)
Lemma j_get_ok_inv q evs r :
  j_get ad_bytes q evs (Some (Ok r)) = true ->
  exists r0 cred0 rest,
    evs = (EFind (match ga_allow q with Some ((_ :: _) as l) => Some l | _ => None end) (ga_rp_id q), AFind r0) :: rest
    /\ first_credential r0 = Ok cred0
    /\ gr_cred_id r = pk_cred_id cred0
    /\ gr_user_handle r = pk_user_handle cred0
    /\ ad_rp_id (gr_auth_data r) = ga_rp_id q
    /\ ad_acd (gr_auth_data r) = None
    /\ exists d sg, private_key (pk_key cred0) = Ok d /\ gr_signature r = sg /\
       match pk_counter cred0 with
       | Some n => rest = [(EUpdate (bump_counter cred0 n), AUnit (Ok tt));
                           (ESign d (ad_bytes (gr_auth_data r) ++ ga_cdh q), ABytes sg)]
                   /\ ad_counter (gr_auth_data r) = Some (counter_next n)
       | None => rest = [(ESign d (ad_bytes (gr_auth_data r) ++ ga_cdh q), ABytes sg)]
                 /\ ad_counter (gr_auth_data r) = None
       end.
Proof.
  unfold j_get. destruct evs as [|[e a] rest]; [discriminate|].
  destruct e; try discriminate. intros H. bsplit.
  destruct a; try (bsplit; discriminate).
  destruct (first_credential r0) as [cred0|e] eqn:Hfc; [|bsplit; discriminate].
  match goal with H : opt_eqb _ _ _ = true |- _ => apply oids_eqb_eq in H; subst ids end.
  match goal with H : beq rp _ = true |- _ => apply beq_eq in H; subst rp end.
  exists r0, cred0, rest. split; [reflexivity|]. split; [exact Hfc|].
  assert (SIGN : forall cred evs', j_sign ad_bytes q cred cred0 evs' (Some (Ok r)) = true ->
     gr_cred_id r = pk_cred_id cred0 /\ gr_user_handle r = pk_user_handle cred0 /\
     ad_rp_id (gr_auth_data r) = ga_rp_id q /\ ad_acd (gr_auth_data r) = None /\
     exists d sg, private_key (pk_key cred0) = Ok d /\ gr_signature r = sg /\
       evs' = [(ESign d (ad_bytes (gr_auth_data r) ++ ga_cdh q), ABytes sg)] /\
       ad_counter (gr_auth_data r) = pk_counter cred).
  { intros cred evs'. unfold j_sign. destruct evs' as [|[e a] [|p l]]; [discriminate| |destruct e; discriminate].
    destruct e; try discriminate. intros G. bsplit.
    destruct (private_key (pk_key cred0)) as [d|] eqn:Hpk; [|discriminate].
    destruct a; try discriminate. bsplit.
    repeat match goal with H : beq _ _ = true |- _ => apply beq_eq in H end.
    match goal with H : ob_eqb _ _ = true |- _ => apply ob_eqb_eq in H end.
    match goal with H : opt_eqb N.eqb _ _ = true |- _ => apply optN_eqb_eq in H end.
    destruct (ad_acd (gr_auth_data r)) eqn:Hacd; [discriminate|].
    subst. repeat split; auto. exists key, (gr_signature r). repeat split; auto. }
  match goal with H : j_selected _ _ _ _ _ = true |- _ => rename H into Hsel end.
  unfold j_selected in Hsel. destruct (pk_counter cred0) as [n|] eqn:Hctr.
  - destruct rest as [|[e a] rest']; [discriminate|]. destruct e; try discriminate. bsplit.
    destruct a; try (bsplit; discriminate). destruct r1 as [[]|]; [|bsplit; discriminate].
    match goal with H : j_sign _ _ _ _ _ _ = true |- _ => apply SIGN in H; destruct H as (A & B & C & D & d & sg & E & F & G & Hc) end.
    match goal with H : passkey_eqb p _ = true |- _ => apply passkey_eqb_eq in H; subst p end.
    repeat split; auto. exists d, sg. repeat split; auto; try (subst rest'; reflexivity); try (rewrite Hc; reflexivity).
  - apply SIGN in Hsel. destruct Hsel as (A & B & C & D & d & sg & E & F & G & Hc).
    repeat split; auto. exists d, sg. repeat split; auto. congruence.
Qed.
End Readings.

Lemma user_eqb_eq a b : user_eqb a b = true -> a = b.
Proof.
  unfold user_eqb. destruct a, b. cbn. intros H. bsplit.
  repeat match goal with H : beq _ _ = true |- _ => apply beq_eq in H end.
  repeat match goal with H : ob_eqb _ _ = true |- _ => apply ob_eqb_eq in H end. subst. reflexivity.
Qed.
Lemma rp_eqb_eq a b : rp_eqb a b = true -> a = b.
Proof.
  unfold rp_eqb. destruct a, b. cbn. intros H. bsplit.
  repeat match goal with H : beq _ _ = true |- _ => apply beq_eq in H end.
  repeat match goal with H : ob_eqb _ _ = true |- _ => apply ob_eqb_eq in H end. subst. reflexivity.
Qed.
Lemma options_eqb_eq a b : options_eqb a b = true -> a = b.
Proof.
  unfold options_eqb, bool_eqb. destruct a, b. cbn. intros H. bsplit.
  repeat match goal with H : Bool.eqb _ _ = true |- _ => apply Bool.eqb_prop in H end. subst. reflexivity.
Qed.

(** a successful registration: the interesting events are an optional exclude lookup (answered
    empty or with an error), the store-capability queries, and then exactly one save - the last
    event - of a passkey with the request's user, RP and options, answered Ok; the passkey is the one
    the response describes. *)
Lemma j_make_ok_inv c q evs r :
  j_make c q evs (Some (Ok r)) = true ->
  exists pre d p,
    evs = pre ++ [(EStoreInfo, AInfo d); (ESave p (mc_user q) (mc_rp q) (mc_opts q), AUnit (Ok tt))]
    /\ Forall (fun ev => match fst ev with EFind _ _ | EStoreInfo => True | _ => False end) pre
    /\ saved_passkey_ok c q d p = true
    /\ response_matches c q p r = true.
Proof.
  assert (SAVE : forall d evs', j_save c q d evs' (Some (Ok r)) = true ->
     exists p, evs' = [(ESave p (mc_user q) (mc_rp q) (mc_opts q), AUnit (Ok tt))]
               /\ saved_passkey_ok c q d p = true /\ response_matches c q p r = true).
  { intros d evs'. unfold j_save. destruct evs' as [|[e a] [|x l]]; [discriminate| |destruct e; discriminate].
    destruct e; try discriminate. intros H. bsplit.
    destruct a; try discriminate. destruct r0 as [[]|]; [|discriminate].
    match goal with H : user_eqb _ _ = true |- _ => apply user_eqb_eq in H; subst u end.
    match goal with H : rp_eqb _ _ = true |- _ => apply rp_eqb_eq in H; subst rp end.
    match goal with H : options_eqb _ _ = true |- _ => apply options_eqb_eq in H; subst o end.
    exists p. auto. }
  assert (INFO : forall evs', j_info c q evs' (Some (Ok r)) = true ->
     exists d p, evs' = [(EStoreInfo, AInfo d); (ESave p (mc_user q) (mc_rp q) (mc_opts q), AUnit (Ok tt))]
               /\ saved_passkey_ok c q d p = true /\ response_matches c q p r = true).
  { intros evs'. unfold j_info. destruct evs' as [|[e a] rest]; [discriminate|].
    destruct e; try discriminate. destruct a; try (destruct rest; discriminate).
    intros H. apply SAVE in H as (p & -> & H1 & H2). eauto. }
  assert (RK : forall evs', j_rk c q evs' (Some (Ok r)) = true ->
     exists pre d p, evs' = pre ++ [(EStoreInfo, AInfo d); (ESave p (mc_user q) (mc_rp q) (mc_opts q), AUnit (Ok tt))]
               /\ Forall (fun ev => match fst ev with EFind _ _ | EStoreInfo => True | _ => False end) pre
               /\ saved_passkey_ok c q d p = true /\ response_matches c q p r = true).
  { intros evs'. unfold j_rk. destruct (o_rk (mc_opts q)).
    - destruct evs' as [|[e a] rest]; [discriminate|]. destruct e; try discriminate.
      destruct a; try (destruct rest; discriminate).
      destruct (disc_eqb d OnlyNonDiscoverable); [intros H; bsplit; discriminate|].
      intros H. apply INFO in H as (d' & p & -> & H1 & H2).
      exists [(EStoreInfo, AInfo d)], d', p. repeat split; auto. constructor; [exact I|constructor].
    - intros H. apply INFO in H as (d' & p & -> & H1 & H2). exists [], d', p. repeat split; auto. }
  unfold j_make. destruct (mc_exclude q) as [[|id ids]|]; try exact (RK evs).
  destruct evs as [|[e a] rest]; [discriminate|]. destruct e; try discriminate. intros H. bsplit.
  destruct a; try (bsplit; discriminate). destruct r0 as [[|x l]|e]; cbv beta iota in *.
  - match goal with H : j_rk _ _ _ _ = true |- _ => apply RK in H as (pre & d & p & -> & F & G1 & G2) end.
    eexists (_ :: pre), d, p. repeat split; auto. constructor; [exact I|exact F].
  - bsplit. discriminate.
  - match goal with H : j_rk _ _ _ _ = true |- _ => apply RK in H as (pre & d & p & -> & F & G1 & G2) end.
    eexists (_ :: pre), d, p. repeat split; auto. constructor; [exact I|exact F].
Qed.
