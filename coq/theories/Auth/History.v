(** Ceremonies run against a store that honours saves and updates (the reference store), with the
    user, the capabilities and the internal randomness/crypto answered by an arbitrary script.
    Per-step theorems about the store content before/after, and their lift to every reachable
    state by the invariant "credential ids are unique". *)
From PK Require Export Auth.C05Facts.
Open Scope N_scope.

(** run a program: store effects are answered by the store, everything else by the script *)
Fixpoint exec {R} (p : prog R) (st : content) (d : discoverability) (script : list answer)
  : content * trace * option R :=
  match p with
  | Ret r => (st, [], Some r)
  | Stuck => (st, [], None)
  | Call e k =>
      let continue st' a script' :=
        let '(st'', tr, r) := exec (k a) st' d script' in (st'', (e, a) :: tr, r) in
      match e with
      | EFind ids rp => continue st (AFind (ref_find st ids rp)) script
      | ESave p _ _ _ => continue (put st p) (AUnit (Ok tt)) script
      | EUpdate p => continue (put st p) (AUnit (Ok tt)) script
      | EStoreInfo => continue st (AInfo d) script
      | _ => match script with
             | [] => (st, [], None)
             | a :: script' => continue st a script'
             end
      end
  end.

(** the store after a run is the store before with the mutations of the trace applied in order *)
Definition apply_mut (st : content) (ea : eff * answer) : content :=
  match fst ea with
  | ESave p _ _ _ | EUpdate p => put st p
  | _ => st
  end.

Lemma exec_spec {R} (p : prog R) : forall st d script,
  let '(st', tr, res) := exec p st d script in
  interp p (map snd tr) = (tr, res)
  /\ st' = fold_left apply_mut tr st
  /\ (forall ids rp r0 pre post, tr = pre ++ (EFind ids rp, AFind r0) :: post ->
        r0 = ref_find (fold_left apply_mut pre st) ids rp).
Proof.
  induction p as [r|e k IH|]; intros st d script; cbn [exec].
  - repeat split. intros ids rp r0 pre post H. destruct pre; discriminate.
  - assert (STEP : forall st1 a script1,
      apply_mut st (e, a) = st1 ->
      (forall ids rp r0, (e, a) = (EFind ids rp, AFind r0) -> r0 = ref_find st ids rp) ->
      let '(st', tr, res) := (let '(st'', tr, r) := exec (k a) st1 d script1 in (st'', (e, a) :: tr, r)) in
      interp (Call e k) (map snd tr) = (tr, res)
      /\ st' = fold_left apply_mut tr st
      /\ (forall ids rp r0 pre post, tr = pre ++ (EFind ids rp, AFind r0) :: post ->
            r0 = ref_find (fold_left apply_mut pre st) ids rp)).
    { intros st1 a script1 Hm Hf. subst st1. specialize (IH a (apply_mut st (e, a)) d script1).
      destruct (exec (k a) (apply_mut st (e, a)) d script1) as [[st'' tr] r]. destruct IH as (I1 & I2 & I3).
      cbn [map snd interp]. rewrite I1. split; [reflexivity|]. split.
      - cbn [fold_left]. exact I2.
      - intros ids rp r0 pre post H. destruct pre as [|x pre]; cbn [app] in H.
        + cbn [fold_left]. apply Hf. congruence.
        + injection H as Hx H. subst x. cbn [fold_left]. eapply I3. exact H. }
    destruct e; try (destruct script as [|a script']; [repeat split; intros ids rp r0 pre post H; destruct pre; discriminate|];
                     apply STEP; [reflexivity|intros ids rp r0 H; discriminate H]).
    + apply STEP; [reflexivity|]. intros ids0 rp0 r0 H. injection H as -> -> ->. reflexivity.
    + apply STEP; [reflexivity|intros ids rp0 r0 H; discriminate H].
    + apply STEP; [reflexivity|intros ids rp0 r0 H; discriminate H].
    + apply STEP; [reflexivity|intros ids rp0 r0 H; discriminate H].
  - repeat split. intros ids rp r0 pre post H. destruct pre; discriminate.
Qed.

Definition store_answer_ok (d : discoverability) (ea : eff * answer) : Prop :=
  match fst ea with
  | ESave _ _ _ _ | EUpdate _ => snd ea = AUnit (Ok tt)
  | EStoreInfo => snd ea = AInfo d
  | _ => True
  end.

Lemma exec_answers {R} (p : prog R) : forall st d script,
  Forall (store_answer_ok d) (snd (fst (exec p st d script))).
Proof.
  induction p as [r|e k IH|]; intros st d script; cbn [exec]; try constructor.
  assert (STEP : forall st1 a script1, store_answer_ok d (e, a) ->
     Forall (store_answer_ok d)
       (snd (fst (let '(st'', tr, r) := exec (k a) st1 d script1 in (st'', (e, a) :: tr, r))))).
  { intros st1 a script1 Ha. specialize (IH a st1 d script1).
    destruct (exec (k a) st1 d script1) as [[st'' tr] r]. cbn [fst snd] in *. constructor; assumption. }
  destruct e; try (destruct script as [|a script']; [constructor|apply STEP; exact I]); apply STEP; reflexivity.
Qed.

(** [put] keeps credential ids unique and touches only the slot of its own id *)
Lemma put_ids st p : map pk_cred_id (put st p) =
  if existsb (beq (pk_cred_id p)) (map pk_cred_id st) then map pk_cred_id st else map pk_cred_id st ++ [pk_cred_id p].
Proof.
  induction st as [|x r IH]; cbn; [reflexivity|].
  destruct (beq (pk_cred_id x) (pk_cred_id p)) eqn:E.
  - apply beq_eq in E. rewrite <- E, beq_refl. cbn [orb map]. rewrite E. reflexivity.
  - cbn. rewrite IH. replace (beq (pk_cred_id p) (pk_cred_id x)) with false.
    + cbn. destruct (existsb _ _); reflexivity.
    + symmetry. destruct (beq (pk_cred_id p) (pk_cred_id x)) eqn:E'; [|reflexivity].
      apply beq_eq in E'. rewrite E', beq_refl in E. discriminate.
Qed.

Lemma NoDup_snoc {A} (l : list A) x : NoDup l -> ~ In x l -> NoDup (l ++ [x]).
Proof.
  induction l as [|y l IH]; cbn; intros ND Hn; [constructor; [tauto|constructor]|].
  inversion ND as [|? ? Hy ND']; subst. constructor.
  - intros Hin. apply in_app_or in Hin as [Hin|[<-|[]]]; [tauto|]. apply Hn. left. reflexivity.
  - apply IH; [exact ND'|]. intros Hin. apply Hn. right. exact Hin.
Qed.

Lemma put_unique st p : unique_ids st -> unique_ids (put st p).
Proof.
  unfold unique_ids. rewrite put_ids. intros U.
  destruct (existsb (beq (pk_cred_id p)) (map pk_cred_id st)) eqn:E; [exact U|].
  apply NoDup_snoc; [exact U|].
  intros Hin. apply existsb_beq_In in Hin. congruence.
Qed.

Lemma fold_apply_filter tr : forall st,
  fold_left apply_mut tr st = fold_left apply_mut (filter (fun ea => storeI (fst ea)) tr) st.
Proof.
  induction tr as [|[e a] tr IH]; intros st; cbn [fold_left filter fst]; [reflexivity|].
  destruct e; cbn [storeI fold_left]; rewrite IH; reflexivity.
Qed.

(** events before the first interesting event change nothing *)
Lemma filter_head_split tr (ev : eff * answer) rest :
  filter (fun ea => storeI (fst ea)) tr = ev :: rest ->
  exists pre post, tr = pre ++ ev :: post
    /\ filter (fun ea => storeI (fst ea)) pre = []
    /\ filter (fun ea => storeI (fst ea)) post = rest.
Proof.
  induction tr as [|x tr IH]; cbn [filter]; [discriminate|].
  destruct (storeI (fst x)) eqn:E.
  - intros [= -> <-]. exists [], tr. repeat split.
  - intros H. destruct (IH H) as (pre & post & -> & H1 & H2). exists (x :: pre), post.
    repeat split; auto. cbn [filter]. rewrite E. exact H1.
Qed.

Section Steps.
Variable ad_bytes : auth_data -> bytes.

(** one successful assertion against the store *)
Theorem assert_step c q st d script st' tr r :
  exec (get_assertion ad_bytes c q) st d script = (st', tr, Some (Ok r)) ->
  exists cred0,
    In cred0 st /\ pk_rp_id cred0 = ga_rp_id q /\ pk_cred_id cred0 = gr_cred_id r
    /\ gr_user_handle r = pk_user_handle cred0
    /\ (forall l, ga_allow q = Some l -> l <> [] -> In (gr_cred_id r) l)
    /\ match pk_counter cred0 with
       | Some n => st' = put st (bump_counter cred0 n) /\ ad_counter (gr_auth_data r) = Some (counter_next n)
       | None => st' = st /\ ad_counter (gr_auth_data r) = None
       end.
Proof.
  intros E. pose proof (exec_spec (get_assertion ad_bytes c q) st d script) as S. rewrite E in S.
  destruct S as (SI & SS & SF).
  pose proof (get_assertion_store_all ad_bytes c q (map snd tr)) as J. rewrite SI in J. cbn [fst snd] in J.
  apply j_get_ok_inv in J as (r0 & cred0 & rest & Hevs & Hfc & Hid & Huh & Hrp & Hacd & dd & sg & Hpk & Hsg & Hctr).
  destruct (filter_head_split _ _ _ Hevs) as (pre & post & Htr & Hpre & Hpost).
  assert (Hst0 : fold_left apply_mut pre st = st).
  { rewrite fold_apply_filter, Hpre. reflexivity. }
  pose proof (SF _ _ _ _ _ Htr) as Hr0. rewrite Hst0 in Hr0.
  assert (C : contract_answer st (match ga_allow q with Some ((_ :: _) as l) => Some l | _ => None end) (ga_rp_id q) r0)
    by (rewrite Hr0; apply ref_store_contract).
  destruct (contract_first _ _ _ _ _ C Hfc) as (Hin & Hrp0 & Hl).
  exists cred0. repeat split; auto.
  - intros l Hal Hne. rewrite Hal in Hl. destruct l as [|x l]; [congruence|].
    cbn [id_listed] in Hl. rewrite Hid. apply existsb_beq_In. exact Hl.
  - rewrite SS, fold_apply_filter, Hevs. cbn [fold_left apply_mut fst].
    destruct (pk_counter cred0) as [n|]; destruct Hctr as [-> Hc]; cbn [fold_left apply_mut fst]; auto.
Qed.

(** the mutations of any (failing, cancelled or successful) assertion: none, or the one counter
    update of the selected credential *)
Lemma j_get_mutations q evs res :
  j_get ad_bytes q evs res = true ->
  filter (fun ea => mutates (fst ea)) evs = []
  \/ exists ids rp r0 rest cred0 n a rest',
       evs = (EFind ids rp, AFind r0) :: rest /\ first_credential r0 = Ok cred0 /\ pk_counter cred0 = Some n
       /\ rest = (EUpdate (bump_counter cred0 n), a) :: rest'
       /\ filter (fun ea => mutates (fst ea)) rest' = [].
Proof.
  assert (SIGN : forall cred cred0 evs', j_sign ad_bytes q cred cred0 evs' res = true ->
                 filter (fun ea => mutates (fst ea)) evs' = []).
  { intros cred cred0 evs'. unfold j_sign. destruct evs' as [|[e a] [|x l]]; try reflexivity.
    - destruct e; try discriminate. reflexivity.
    - destruct e; discriminate. }
  unfold j_get. destruct evs as [|[e a] rest]; [left; reflexivity|].
  destruct e; try discriminate. intros H. bsplit.
  destruct a; try (bsplit; destruct rest; [left; reflexivity|discriminate]).
  destruct (first_credential r) as [cred0|e] eqn:Hfc; [|bsplit; destruct rest; [left; reflexivity|discriminate]].
  match goal with H : j_selected _ _ _ _ _ = true |- _ => rename H into Hsel end.
  unfold j_selected in Hsel. destruct (pk_counter cred0) as [n|] eqn:Hctr.
  - destruct rest as [|[e a] rest']; [left; reflexivity|]. destruct e; try discriminate. bsplit.
    match goal with H : passkey_eqb p _ = true |- _ => apply passkey_eqb_eq in H; subst p end.
    right. exists ids, rp, r, ((EUpdate (bump_counter cred0 n), a) :: rest'), cred0, n, a, rest'.
    repeat split; auto.
    destruct a; try (bsplit; destruct rest'; [reflexivity|discriminate]).
    destruct r0 as [[]|]; [eapply SIGN; eassumption|bsplit; destruct rest'; [reflexivity|discriminate]].
  - left. cbn [filter fst mutates]. eapply SIGN. exact Hsel.
Qed.

Theorem assert_step_any c q st d script st' tr res :
  exec (get_assertion ad_bytes c q) st d script = (st', tr, res) ->
  st' = st \/ exists cred0 n, In cred0 st /\ pk_rp_id cred0 = ga_rp_id q /\ pk_counter cred0 = Some n
                              /\ st' = put st (bump_counter cred0 n).
Proof.
  intros E. pose proof (exec_spec (get_assertion ad_bytes c q) st d script) as S. rewrite E in S.
  destruct S as (SI & SS & SF).
  pose proof (get_assertion_store_all ad_bytes c q (map snd tr)) as J. rewrite SI in J. cbn [fst snd] in J.
  assert (MUT : forall t : trace, fold_left apply_mut t st =
            fold_left apply_mut (filter (fun ea : eff * answer => mutates (fst ea)) t) st).
  { intros t. generalize st. induction t as [|[e a] t IH]; intros s; cbn [fold_left filter fst]; [reflexivity|].
    destruct e; cbn [mutates fold_left]; rewrite IH; reflexivity. }
  assert (MF : forall t : trace, filter (fun ea : eff * answer => mutates (fst ea)) t =
            filter (fun ea : eff * answer => mutates (fst ea)) (filter (fun ea : eff * answer => storeI (fst ea)) t)).
  { induction t as [|[e x] t IH]; cbn; [reflexivity|]. destruct e; cbn; rewrite IH; reflexivity. }
  destruct (j_get_mutations _ _ _ J) as [Hnone|(ids & rp & r0 & rest & cred0 & n & a & rest' & Hevs & Hfc & Hctr & Hrest & Hnomut)].
  - left. rewrite SS, MUT, MF, Hnone. reflexivity.
  - right. exists cred0, n.
    destruct (filter_head_split _ _ _ Hevs) as (pre & post & Htr & Hpre & Hpost).
    assert (Hst0 : fold_left apply_mut pre st = st) by (rewrite fold_apply_filter, Hpre; reflexivity).
    pose proof (SF _ _ _ _ _ Htr) as Hr0. rewrite Hst0 in Hr0.
    pose proof (get_assertion_store_all ad_bytes c q (map snd tr)) as J'. rewrite SI in J'. cbn [fst snd] in J'.
    rewrite Hevs in J'. unfold j_get in J'. apply andb_true_iff in J' as [J1 _]. apply andb_true_iff in J1 as [_ J1].
    apply beq_eq in J1. subst rp.
    assert (C : contract_answer st ids (ga_rp_id q) r0) by (rewrite Hr0; apply ref_store_contract).
    destruct (contract_first _ _ _ _ _ C Hfc) as (Hin & Hrp0 & _).
    repeat split; auto.
    rewrite SS, MUT, MF, Hevs, Hrest. cbn [filter fst mutates]. rewrite Hnomut. reflexivity.
Qed.
End Steps.

(** *** Registration against the store *)
Lemma j_make_mutations c q evs res :
  j_make c q evs res = true ->
  filter (fun ea => mutates (fst ea)) evs = []
  \/ exists pre p u rp o a,
       evs = pre ++ [(ESave p u rp o, a)] /\ filter (fun ea => mutates (fst ea)) pre = []
       /\ (a = AUnit (Ok tt) -> exists r, res = Some (Ok r)).
Proof.
  assert (SAVE : forall d evs', j_save c q d evs' res = true ->
     filter (fun ea => mutates (fst ea)) evs' = []
     \/ exists p u rp o a, evs' = [(ESave p u rp o, a)] /\ (a = AUnit (Ok tt) -> exists r, res = Some (Ok r))).
  { intros d evs'. unfold j_save. destruct evs' as [|[e a] [|x l]]; [left; reflexivity| |destruct e; discriminate].
    destruct e; try discriminate. intros H. bsplit. right. exists p, u, rp, o, a. split; [reflexivity|].
    intros ->. destruct res as [[r|]|]; try discriminate. eauto. }
  assert (INFO : forall evs', j_info c q evs' res = true ->
     filter (fun ea => mutates (fst ea)) evs' = []
     \/ exists pre p u rp o a, evs' = pre ++ [(ESave p u rp o, a)] /\ filter (fun ea => mutates (fst ea)) pre = []
                               /\ (a = AUnit (Ok tt) -> exists r, res = Some (Ok r))).
  { intros evs'. unfold j_info. destruct evs' as [|[e a] rest]; [left; reflexivity|].
    destruct e; try discriminate. destruct a; try (destruct rest; [left; reflexivity|discriminate]).
    intros H. apply SAVE in H as [H|(p & u & rp & o & a & -> & H)].
    - left. cbn [filter fst mutates]. exact H.
    - right. exists [(EStoreInfo, AInfo d)], p, u, rp, o, a. repeat split; auto. }
  assert (RK : forall evs', j_rk c q evs' res = true ->
     filter (fun ea => mutates (fst ea)) evs' = []
     \/ exists pre p u rp o a, evs' = pre ++ [(ESave p u rp o, a)] /\ filter (fun ea => mutates (fst ea)) pre = []
                               /\ (a = AUnit (Ok tt) -> exists r, res = Some (Ok r))).
  { intros evs'. unfold j_rk. destruct (o_rk (mc_opts q)); [|apply INFO].
    destruct evs' as [|[e a] rest]; [left; reflexivity|]. destruct e; try discriminate.
    destruct a; try (destruct rest; [left; reflexivity|discriminate]).
    destruct (disc_eqb d OnlyNonDiscoverable).
    - intros H. bsplit. destruct rest; [left; reflexivity|discriminate].
    - intros H. apply INFO in H as [H|(pre & p & u & rp & o & a & -> & H1 & H2)].
      + left. cbn [filter fst mutates]. exact H.
      + right. exists ((EStoreInfo, AInfo d) :: pre), p, u, rp, o, a. repeat split; auto. }
  unfold j_make. destruct (mc_exclude q) as [[|id ids]|]; try apply RK.
  destruct evs as [|[e a] rest]; [left; reflexivity|]. destruct e; try discriminate. intros H. bsplit.
  assert (REST : j_rk c q rest res = true ->
     filter (fun ea => mutates (fst ea)) ((EFind ids0 rp, a) :: rest) = []
     \/ exists pre p u rp' o a', (EFind ids0 rp, a) :: rest = pre ++ [(ESave p u rp' o, a')]
          /\ filter (fun ea => mutates (fst ea)) pre = [] /\ (a' = AUnit (Ok tt) -> exists r, res = Some (Ok r))).
  { intros G. apply RK in G as [G|(pre & p & u & rp' & o & a' & -> & G1 & G2)].
    - left. cbn [filter fst mutates]. exact G.
    - right. exists ((EFind ids0 rp, a) :: pre), p, u, rp', o, a'. repeat split; auto. }
  destruct a; try (bsplit; destruct rest; [left; reflexivity|discriminate]).
  destruct r as [[|x l]|e]; cbv beta iota in *; try (apply REST; assumption).
  bsplit. destruct rest; [left; reflexivity|discriminate].
Qed.

Theorem make_step c q st d script st' tr res :
  exec (make_credential c q) st d script = (st', tr, res) ->
  match res with
  | Some (Ok r) => exists p, st' = put st p /\ saved_passkey_ok c q d p = true /\ response_matches c q p r = true
  | _ => st' = st
  end.
Proof.
  intros E. pose proof (exec_spec (make_credential c q) st d script) as S. rewrite E in S.
  destruct S as (SI & SS & SF). subst st'.
  pose proof (exec_answers (make_credential c q) st d script) as A. rewrite E in A. cbn [fst snd] in A.
  pose proof (make_credential_store_all c q (map snd tr)) as J. rewrite SI in J. cbn [fst snd] in J.
  assert (AF : Forall (store_answer_ok d) (filter (fun ea => storeI (fst ea)) tr)).
  { rewrite Forall_forall in *. intros x Hx. apply filter_In in Hx as [Hx _]. apply A. exact Hx. }
  assert (MUT : forall t : trace, forall s, fold_left apply_mut t s =
            fold_left apply_mut (filter (fun ea : eff * answer => mutates (fst ea)) t) s).
  { induction t as [|[e a] t IH]; intros s; cbn [fold_left filter fst]; [reflexivity|].
    destruct e; cbn [mutates fold_left]; rewrite IH; reflexivity. }
  destruct res as [[r|e]|].
  - apply j_make_ok_inv in J as (pre & d' & p & Hevs & Hpre & Hp & Hr).
    rewrite Hevs in AF. apply Forall_app in AF as [_ AF]. inversion AF as [|? ? Hd _]; subst.
    unfold store_answer_ok in Hd. cbn in Hd. injection Hd as ->.
    exists p. repeat split; auto.
    rewrite fold_apply_filter, Hevs, fold_left_app.
    assert (Hpre' : forall s, fold_left apply_mut pre s = s).
    { clear -Hpre. induction pre as [|[e a] pre IH]; intros s; [reflexivity|].
      inversion Hpre as [|? ? He Hp]; subst. cbn [fold_left]. rewrite IH by assumption.
      cbn [fst] in He. destruct e; try tauto; reflexivity. }
    rewrite Hpre'. reflexivity.
  - destruct (j_make_mutations _ _ _ _ J) as [Hn|(pre & p & u & rp & o & a & Hevs & Hpre & Hok)].
    + rewrite fold_apply_filter, MUT, Hn. reflexivity.
    + exfalso. rewrite Hevs in AF. apply Forall_app in AF as [_ AF]. inversion AF as [|? ? Ha _]; subst.
      unfold store_answer_ok in Ha. cbn in Ha. destruct (Hok Ha) as [r Hr]. discriminate.
  - destruct (j_make_mutations _ _ _ _ J) as [Hn|(pre & p & u & rp & o & a & Hevs & Hpre & Hok)].
    + rewrite fold_apply_filter, MUT, Hn. reflexivity.
    + exfalso. rewrite Hevs in AF. apply Forall_app in AF as [_ AF]. inversion AF as [|? ? Ha _]; subst.
      unfold store_answer_ok in Ha. cbn in Ha. destruct (Hok Ha) as [r Hr]. discriminate.
Qed.

(** *** Histories *)
Lemma get_by_id_put st p id :
  get_by_id (put st p) id = if beq (pk_cred_id p) id then Some p else get_by_id st id.
Proof.
  induction st as [|x r IH]; cbn [put get_by_id]; [reflexivity|].
  destruct (beq (pk_cred_id x) (pk_cred_id p)) eqn:E; cbn [get_by_id].
  - apply beq_eq in E. rewrite E. destruct (beq (pk_cred_id p) id); reflexivity.
  - rewrite IH. destruct (beq (pk_cred_id x) id) eqn:E2; [|reflexivity].
    apply beq_eq in E2. subst id. replace (beq (pk_cred_id p) (pk_cred_id x)) with false; [reflexivity|].
    symmetry. destruct (beq (pk_cred_id p) (pk_cred_id x)) eqn:E3; [|reflexivity].
    apply beq_eq in E3. rewrite E3, beq_refl in E. discriminate.
Qed.

Definition stored_counter (st : content) (id : bytes) : option N :=
  match get_by_id st id with Some p => pk_counter p | None => None end.

Lemma In_unique_get st p : unique_ids st -> In p st -> get_by_id st (pk_cred_id p) = Some p.
Proof. apply In_get_by_id. Qed.

Section HistoryFacts.
Variable ad_bytes : auth_data -> bytes.

(** C08, one step: a successful assertion reports exactly the value the store then holds for that
    credential: one more than before (saturating at 2^32-1), or nothing for a credential without a
    counter, which is not rewritten; every other credential is untouched *)
Theorem assert_step_counter c q st d script st' tr r :
  unique_ids st ->
  exec (get_assertion ad_bytes c q) st d script = (st', tr, Some (Ok r)) ->
  ad_counter (gr_auth_data r) = stored_counter st' (gr_cred_id r)
  /\ match stored_counter st (gr_cred_id r) with
     | Some n => ad_counter (gr_auth_data r) = Some (counter_next n)
     | None => ad_counter (gr_auth_data r) = None /\ st' = st
     end
  /\ (forall id, id <> gr_cred_id r -> get_by_id st' id = get_by_id st id)
  /\ unique_ids st'.
Proof.
  intros U E. destruct (assert_step ad_bytes c q st d script st' tr r E) as (cred0 & Hin & Hrp & Hid & _ & _ & Hc).
  pose proof (In_unique_get _ _ U Hin) as G. rewrite Hid in G.
  unfold stored_counter. rewrite G.
  destruct (pk_counter cred0) as [n|] eqn:Hn; destruct Hc as [-> Hc].
  - rewrite get_by_id_put. cbn [bump_counter pk_cred_id]. rewrite Hid, beq_refl. cbn [pk_counter].
    repeat split; auto.
    + intros id Hne. rewrite get_by_id_put. cbn [bump_counter pk_cred_id]. rewrite Hid.
      destruct (beq (gr_cred_id r) id) eqn:E2; [apply beq_eq in E2; congruence|reflexivity].
    + apply put_unique. exact U.
  - rewrite G, Hn. repeat split; auto.
Qed.

Lemma counter_next_ge n : n <= counter_next n.
Proof. unfold counter_next. destruct (n <? 4294967295) eqn:E; [apply N.ltb_lt in E|apply N.ltb_ge in E]; lia. Qed.

Lemma counter_next_lt n : n < 4294967295 -> counter_next n = n + 1.
Proof. intros H. unfold counter_next. destruct (n <? 4294967295) eqn:E; [reflexivity|apply N.ltb_ge in E; lia]. Qed.

(** any assertion, whatever its outcome, never lowers a stored counter and keeps ids unique *)
Theorem assert_any_monotone c q st d script st' tr res id n :
  unique_ids st ->
  exec (get_assertion ad_bytes c q) st d script = (st', tr, res) ->
  stored_counter st id = Some n ->
  unique_ids st' /\ exists n', stored_counter st' id = Some n' /\ n <= n' <= n + 1.
Proof.
  intros U E Hs. destruct (assert_step_any ad_bytes c q st d script st' tr res E) as [->|(cred0 & m & Hin & _ & Hm & ->)].
  - split; [exact U|]. exists n. split; [exact Hs|lia].
  - split; [apply put_unique; exact U|].
    unfold stored_counter in *. rewrite get_by_id_put. cbn [bump_counter pk_cred_id].
    destruct (beq (pk_cred_id cred0) id) eqn:E2.
    + apply beq_eq in E2. subst id. rewrite (In_unique_get _ _ U Hin), Hm in Hs. injection Hs as ->.
      cbn [pk_counter]. exists (counter_next n). split; [reflexivity|].
      unfold counter_next. destruct (n <? 4294967295) eqn:E3; [apply N.ltb_lt in E3|apply N.ltb_ge in E3]; lia.
    + exists n. split; [exact Hs|lia].
Qed.
End HistoryFacts.

(** a history: a list of operations, each with the script answering its non-store effects *)
Inductive operation :=
| OpRegister (c : config) (q : mc_request)
| OpAssert (c : config) (q : ga_request).

Section Histories.
Variable ad_bytes : auth_data -> bytes.

Definition run_op (o : operation) (st : content) (d : discoverability) (script : list answer) : content :=
  match o with
  | OpRegister c q => fst (fst (exec (make_credential c q) st d script))
  | OpAssert c q => fst (fst (exec (get_assertion ad_bytes c q) st d script))
  end.

Fixpoint run_history (h : list (operation * list answer)) (st : content) (d : discoverability) : content :=
  match h with
  | [] => st
  | (o, script) :: r => run_history r (run_op o st d script) d
  end.

(** credential ids stay unique in every reachable store *)
Theorem history_unique h d : forall st, unique_ids st -> unique_ids (run_history h st d).
Proof.
  induction h as [|[o script] h IH]; intros st U; cbn [run_history]; [exact U|].
  apply IH. destruct o as [c q|c q]; cbn [run_op].
  - destruct (exec (make_credential c q) st d script) as [[st' tr] res] eqn:E. cbn [fst].
    pose proof (make_step c q st d script st' tr res E) as M. destruct res as [[r|e]|]; try (subst; exact U).
    destruct M as (p & -> & _). apply put_unique. exact U.
  - destruct (exec (get_assertion ad_bytes c q) st d script) as [[st' tr] res] eqn:E. cbn [fst].
    destruct (assert_step_any ad_bytes c q st d script st' tr res E) as [->|(cred0 & m & _ & _ & _ & ->)]; [exact U|].
    apply put_unique. exact U.
Qed.

(** over any history made of assertions (interleaved over any credentials, with any outcomes), the
    counter stored for a credential never decreases *)
Definition only_assertions (h : list (operation * list answer)) : Prop :=
  Forall (fun os => match fst os with OpAssert _ _ => True | OpRegister _ _ => False end) h.

Theorem history_counters_monotone h d : forall st id n,
  only_assertions h -> unique_ids st -> stored_counter st id = Some n ->
  exists n', stored_counter (run_history h st d) id = Some n' /\ n <= n'.
Proof.
  induction h as [|[o script] h IH]; intros st id n OA U Hs; cbn [run_history].
  - exists n. split; [exact Hs|lia].
  - inversion OA as [|? ? Ho OA']; subst. destruct o as [c q|c q]; [destruct Ho|]. cbn [run_op].
    destruct (exec (get_assertion ad_bytes c q) st d script) as [[st' tr] res] eqn:E. cbn [fst].
    destruct (assert_any_monotone ad_bytes c q st d script st' tr res id n U E Hs) as (U' & n1 & Hs1 & Hle).
    destruct (IH st' id n1 OA' U' Hs1) as (n' & Hs' & Hle'). exists n'. split; [exact Hs'|lia].
Qed.
End Histories.
