(** The private scalar of a stored COSE key as [private_key_from_cose_key] reads it: the value of the D parameter goes
    through [SecretKey::from_slice] (elliptic-curve 0.13, P-256), which accepts 24 to 32 octets, reads them as a
    big-endian integer (an input shorter than the field size is padded with zero octets ON THE LEFT), and refuses zero
    and everything from the group order upwards.  [keymat.k_d] (Auth/Prog.v) is "the scalar when present and well
    formed": this file says what well formed means, and in which form the ceremonies see the scalar. *)
From PK Require Export Lib.Bytes.
From Coq Require Import Lia.
Open Scope N_scope.

(** the order of the P-256 group *)
Definition p256_order : N := 0xffffffff00000000ffffffffffffffffbce6faada7179e84f3b9cac2fc632551.

(** big-endian value of an octet string *)
Fixpoint scalar_be (acc : N) (b : bytes) : N :=
  match b with
  | [] => acc
  | x :: r => scalar_be (acc * 256 + x) r
  end.

Definition scalar_pad32 (d : bytes) : bytes := repeat 0 (32 - length d) ++ d.

Definition scalar_well_formed (d : bytes) : option bytes :=
  if (Nat.leb 24 (length d) && Nat.leb (length d) 32 && (0 <? scalar_be 0 d) && (scalar_be 0 d <? p256_order))%bool
  then Some (scalar_pad32 d) else None.

(** the D parameter as stored (absent, or any octet string) -> the scalar the ceremonies sign with *)
Definition scalar_of_stored (d : option bytes) : option bytes :=
  match d with Some b => scalar_well_formed b | None => None end.

Lemma scalar_be_zeros k : forall acc b, scalar_be acc (repeat 0 k ++ b) = scalar_be (acc * 256 ^ N.of_nat k) b.
Proof.
  induction k as [|k IH]; intros acc b.
  - cbn [repeat app]. change (N.of_nat 0) with 0. rewrite N.pow_0_r, N.mul_1_r. reflexivity.
  - cbn [repeat app scalar_be]. rewrite IH. f_equal.
    rewrite Nat2N.inj_succ, N.pow_succ_r'. lia.
Qed.

(** padding on the left does not change the value: the scalar that signs is the integer the stored octets denote *)
Theorem scalar_pad32_value d : scalar_be 0 (scalar_pad32 d) = scalar_be 0 d.
Proof. unfold scalar_pad32. rewrite scalar_be_zeros. reflexivity. Qed.

Theorem scalar_well_formed_spec d s : scalar_well_formed d = Some s ->
  length s = 32%nat /\ scalar_be 0 s = scalar_be 0 d /\ 0 < scalar_be 0 s < p256_order /\ (24 <= length d <= 32)%nat.
Proof.
  unfold scalar_well_formed.
  destruct (Nat.leb 24 (length d)) eqn:E1; [|discriminate].
  destruct (Nat.leb (length d) 32) eqn:E2; [|discriminate].
  destruct (0 <? scalar_be 0 d) eqn:E3; [|discriminate].
  destruct (scalar_be 0 d <? p256_order) eqn:E4; [|discriminate].
  cbn [andb]. intros [= <-].
  apply Nat.leb_le in E1, E2. apply N.ltb_lt in E3, E4.
  rewrite scalar_pad32_value. repeat split; try assumption.
  unfold scalar_pad32. rewrite app_length, repeat_length. lia.
Qed.

(** a scalar the ceremonies see is in normal form: reading it again gives itself *)
Theorem scalar_well_formed_idempotent d s : scalar_well_formed d = Some s -> scalar_well_formed s = Some s.
Proof.
  intros H. destruct (scalar_well_formed_spec _ _ H) as (Hl & Hv & (H0 & H1) & _).
  unfold scalar_well_formed. rewrite Hl. cbn [Nat.leb andb].
  apply N.ltb_lt in H0, H1. rewrite H0, H1. cbn [andb].
  unfold scalar_pad32. rewrite Hl. reflexivity.
Qed.

(** what is refused: too short, too long, zero, the order and above *)
Theorem scalar_refused d :
  ((length d < 24)%nat \/ (32 < length d)%nat \/ scalar_be 0 d = 0 \/ p256_order <= scalar_be 0 d) <-> scalar_well_formed d = None.
Proof.
  unfold scalar_well_formed.
  destruct (Nat.leb_spec 24 (length d)) as [E1|E1]; destruct (Nat.leb_spec (length d) 32) as [E2|E2];
    destruct (N.ltb_spec 0 (scalar_be 0 d)) as [E3|E3]; destruct (N.ltb_spec (scalar_be 0 d) p256_order) as [E4|E4];
    cbn [andb]; split; intros H; try reflexivity; try discriminate; try lia; auto.
  all: try (destruct H as [H|[H|[H|H]]]; lia).
Qed.

Example scalar_short_is_left_padded :
  scalar_well_formed (repeat 7 24) = Some (repeat 0 8 ++ repeat 7 24)
  /\ scalar_well_formed (repeat 7 23) = None /\ scalar_well_formed (0 :: repeat 7 32) = None
  /\ scalar_well_formed (repeat 0 32) = None /\ scalar_well_formed (repeat 255 32) = None.
Proof. vm_compute. repeat split. Qed.
