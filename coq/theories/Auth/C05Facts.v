(** C05: composing the ceremonies' store discipline with the lookup contract. *)
From PK Require Export Auth.StoreFacts Auth.Store.
Open Scope N_scope.

Section Isolation.
Variable ad_bytes : auth_data -> bytes.

(** every lookup answer in the trace satisfies the documented contract w.r.t. the content [st] *)
Definition lookups_follow_contract (st : content) (tr : trace) : Prop :=
  forall ids rp r0, In (EFind ids rp, AFind r0) tr -> contract_answer st ids rp r0.

Theorem assertion_isolation c q script st r :
  lookups_follow_contract st (fst (interp (get_assertion ad_bytes c q) script)) ->
  snd (interp (get_assertion ad_bytes c q) script) = Some (Ok r) ->
  exists cred0,
    In cred0 st /\ pk_rp_id cred0 = ga_rp_id q /\ pk_cred_id cred0 = gr_cred_id r
    /\ gr_user_handle r = pk_user_handle cred0
    /\ (forall l, ga_allow q = Some l -> l <> [] -> In (gr_cred_id r) l).
Proof.
  intros C Hres. pose proof (get_assertion_store_all ad_bytes c q script) as J. rewrite Hres in J.
  apply j_get_ok_inv in J as (r0 & cred0 & rest & Hevs & Hfc & Hid & Huh & _).
  assert (Hin : In (EFind (match ga_allow q with Some ((_ :: _) as l) => Some l | _ => None end) (ga_rp_id q), AFind r0)
                   (fst (interp (get_assertion ad_bytes c q) script))).
  { eapply proj1. apply filter_In. rewrite Hevs. left. reflexivity. }
  apply C in Hin. destruct (contract_first _ _ _ _ _ Hin Hfc) as (Hst & Hrp & Hl).
  exists cred0. repeat split; auto.
  intros l Hal Hne. rewrite Hal in Hl. destruct l as [|x l]; [congruence|].
  cbn [id_listed] in Hl. rewrite Hid. apply existsb_beq_In. exact Hl.
Qed.

(** a non-empty exclude list that names a credential held for the same RP: once the lookup has been
    made (i.e. after consent) the ceremony ends with CredentialExcluded (or is cut) and nothing is
    saved or updated *)
Theorem registration_excluded c q script st l :
  lookups_follow_contract st (fst (interp (make_credential c q) script)) ->
  mc_exclude q = Some l -> l <> [] ->
  (exists p, In p st /\ pk_rp_id p = rp_id (mc_rp q) /\ In (pk_cred_id p) l) ->
  forall ids rp a, In (EFind ids rp, a) (fst (interp (make_credential c q) script)) ->
  err_or_cut CTAP2_CredentialExcluded (snd (interp (make_credential c q) script)) = true
  /\ filter (fun ea => mutates (fst ea)) (fst (interp (make_credential c q) script)) = [].
Proof.
  intros C Hex Hne Hheld ids rp a Hfind.
  pose proof (make_credential_store_all c q script) as J.
  set (tr := fst (interp (make_credential c q) script)) in *.
  set (res := snd (interp (make_credential c q) script)) in *.
  assert (MUT : forall t : trace, filter (fun ea : eff * answer => mutates (fst ea)) t =
                          filter (fun ea : eff * answer => mutates (fst ea)) (filter (fun ea : eff * answer => storeI (fst ea)) t)).
  { induction t as [|[e x] t IH]; cbn; [reflexivity|]. destruct e; cbn; rewrite IH; reflexivity. }
  rewrite MUT.
  assert (Hf : In (EFind ids rp, a) (filter (fun ea => storeI (fst ea)) tr)) by (apply filter_In; split; [exact Hfind|reflexivity]).
  unfold j_make in J. rewrite Hex in J. destruct l as [|id0 l0]; [congruence|].
  destruct (filter (fun ea => storeI (fst ea)) tr) as [|[e x] rest] eqn:Hevs; [destruct Hf|].
  destruct e; try discriminate. apply andb_true_iff in J as [J1 J2]. apply andb_true_iff in J1 as [J0 J1].
  apply oids_eqb_eq in J0. apply beq_eq in J1. subst.
  assert (Hin : In (EFind (Some (id0 :: l0)) (rp_id (mc_rp q)), x) tr).
  { eapply proj1. apply filter_In. rewrite Hevs. left. reflexivity. }
  destruct x; try (apply andb_true_iff in J2 as [J2 J3]; destruct rest; [|discriminate];
                   split; [destruct res as [[|]|]; cbn in *; try discriminate; reflexivity|reflexivity]).
  apply C in Hin. apply (contract_excluded st (id0 :: l0)) in Hin.
  pose proof (proj2 Hin Hheld) as Hnz. destruct r as [[|p ps]|e]; try (exfalso; exact Hnz).
  apply andb_true_iff in J2 as [J2 J3]. destruct rest; [|discriminate]. split; [exact J3|reflexivity].
Qed.
End Isolation.
