(** C11: discoverability follows the request and the store's capability and is reported truthfully.

    Contents:
    1. the specification tables, transcribed by hand: [webauthn_rk_mapping] (WebAuthn L3 5.1.3 /
       5.4.4, effective resident-key requirement) and [store_discoverability] (the three store
       capabilities of the property statement);
    2. sequencing lemmas for [interp] ([interp_bind]) and the shape of every run of [get_info],
       [register] and [authenticate] (for every answer script, incl. cut and wrong-shaped answers);
    3. the theorems: option sent = table; stored user handle = table; refusal; credProps; the user
       handle of an assertion; and the same end to end against the reference store;
    4. boolean judgements over a call log and a result ([c11_reg_judge], [c11_auth_judge],
       [c11_mc_judge], [c11_ga_judge]) - proved to hold on every run of the model and evaluated by the
       check on the implementation's logs (the Coq-side oracle). *)
From PK Require Import Lib.Check Lib.Base64 Lib.Sha256.
From PK Require Export Auth.History Auth.Client.
Open Scope N_scope.

(** *** 1. Specification tables (hand transcriptions) *)

(** WebAuthn Level 3, 5.1.3 [[Create]], "Let requireResidentKey be the effective resident key
    requirement for credential creation, a Boolean value, as follows.
      If pkOptions.authenticatorSelection.residentKey
        is present and set to required     -> Let requireResidentKey be true.
        is present and set to preferred    -> If the authenticator is capable of client-side credential
                                              storage modality: true; is not capable [...], or if the
                                              client cannot determine authenticator capability: false.
        is present and set to discouraged  -> Let requireResidentKey be false.
        is not present                     -> Let requireResidentKey be the value of
                                              pkOptions.authenticatorSelection.requireResidentKey."
    5.4.4: requireResidentKey defaults to false; an absent authenticatorSelection is the empty
    dictionary (residentKey not present, requireResidentKey false).
    Row = (residentKey, requireResidentKey, authenticator capable of storing discoverable
    credentials, effective requirement = the rk option sent to the authenticator). *)
Definition webauthn_rk_mapping : list (option rk_req * bool * bool * bool) :=
  [ (Some RkRequired,    false, false, true);
    (Some RkRequired,    false, true,  true);
    (Some RkRequired,    true,  false, true);
    (Some RkRequired,    true,  true,  true);
    (Some RkPreferred,   false, false, false);
    (Some RkPreferred,   false, true,  true);
    (Some RkPreferred,   true,  false, false);
    (Some RkPreferred,   true,  true,  true);
    (Some RkDiscouraged, false, false, false);
    (Some RkDiscouraged, false, true,  false);
    (Some RkDiscouraged, true,  false, false);
    (Some RkDiscouraged, true,  true,  false);
    (None,               false, false, false);
    (None,               false, true,  false);
    (None,               true,  false, true);
    (None,               true,  true,  true) ].

Definition rk_req_eqb (a b : rk_req) : bool :=
  match a, b with
  | RkDiscouraged, RkDiscouraged | RkPreferred, RkPreferred | RkRequired, RkRequired => true
  | _, _ => false
  end.

Fixpoint rk_lookup (t : list (option rk_req * bool * bool * bool)) (rk : option rk_req) (require capable : bool) : option bool :=
  match t with
  | [] => None
  | (rk', require', capable', out) :: r =>
      if opt_eqb rk_req_eqb rk rk' && Bool.eqb require require' && Bool.eqb capable capable' then Some out
      else rk_lookup r rk require capable
  end.

(** the members of an (optional) authenticatorSelection as the table sees them *)
Definition sel_members (sel : option selection) : option rk_req * bool :=
  match sel with Some s => (sel_rk s, sel_require_rk s) | None => (None, false) end.

Definition rk_spec (sel : option selection) (capable : bool) : option bool :=
  rk_lookup webauthn_rk_mapping (fst (sel_members sel)) (snd (sel_members sel)) capable.

(** the capability the client reads from getInfo: options.rk *)
Definition rk_capable (d : discoverability) : bool := negb (disc_eqb d OnlyNonDiscoverable).

(** the property statement: "full: as requested; non-discoverable only: never; forced: always".
    Row = (store capability, rk option received, credential is discoverable). *)
Definition store_discoverability : list (discoverability * bool * bool) :=
  [ (Full, false, false); (Full, true, true);
    (OnlyNonDiscoverable, false, false); (OnlyNonDiscoverable, true, false);
    (ForcedDiscoverable, false, true); (ForcedDiscoverable, true, true) ].

Fixpoint disc_lookup (t : list (discoverability * bool * bool)) (d : discoverability) (rk : bool) : option bool :=
  match t with
  | [] => None
  | (d', rk', out) :: r => if disc_eqb d d' && Bool.eqb rk rk' then Some out else disc_lookup r d rk
  end.
Definition disc_spec (d : discoverability) (rk : bool) : option bool := disc_lookup store_discoverability d rk.

(** the tables are functions (no key twice) and total over their finite domains *)
Definition all_rk : list (option rk_req) := [None; Some RkDiscouraged; Some RkPreferred; Some RkRequired].
Definition all_disc : list discoverability := [Full; OnlyNonDiscoverable; ForcedDiscoverable].

Lemma all_rk_complete r : In r all_rk.
Proof. destruct r as [[]|]; cbn; tauto. Qed.
Lemma all_disc_complete d : In d all_disc.
Proof. destruct d; cbn; tauto. Qed.
Lemma all_bool_complete (b : bool) : In b [false; true].
Proof. destruct b; cbn; tauto. Qed.

Lemma rk_table_keys_unique :
  NoDup (map (fun row => match row with (a, b, c, _) => (a, b, c) end) webauthn_rk_mapping).
Proof.
  repeat (constructor; [cbn; intros H; repeat (destruct H as [H|H]; [discriminate H|]); exact H|]). constructor.
Qed.

(** [map_rk] (the code) is the table, on the whole product *)
Theorem map_rk_is_spec sel capable : rk_spec sel capable = Some (map_rk sel capable).
Proof.
  destruct sel as [[rk rr uv]|]; [|destruct capable; reflexivity].
  destruct rk as [[]|], rr, capable; reflexivity.
Qed.

(** the same as a computed sweep over the enumerated product (the brief's "finite product" form) *)
Lemma map_rk_sweep :
  forallb (fun rk => forallb (fun rr => forallb (fun cap => forallb (fun uv =>
     opt_eqb Bool.eqb (rk_spec (Some {| sel_rk := rk; sel_require_rk := rr; sel_uv := uv |}) cap)
                      (Some (map_rk (Some {| sel_rk := rk; sel_require_rk := rr; sel_uv := uv |}) cap)))
     [UvRequired; UvPreferred; UvDiscouraged]) [false; true]) [false; true]) all_rk = true.
Proof. vm_compute. reflexivity. Qed.

(** [is_discoverable] (the code: [DiscoverabilitySupport::is_passkey_discoverable]) is the table *)
Theorem is_discoverable_is_spec d rk : disc_spec d rk = Some (is_discoverable d rk).
Proof. destruct d, rk; reflexivity. Qed.

(** what the tables say in words *)
Lemma rk_spec_required sel capable :
  fst (sel_members sel) = Some RkRequired -> rk_spec sel capable = Some true.
Proof. unfold rk_spec. intros ->. destruct (snd (sel_members sel)), capable; reflexivity. Qed.
Lemma rk_spec_discouraged sel capable :
  fst (sel_members sel) = Some RkDiscouraged -> rk_spec sel capable = Some false.
Proof. unfold rk_spec. intros ->. destruct (snd (sel_members sel)), capable; reflexivity. Qed.
Lemma rk_spec_preferred sel capable :
  fst (sel_members sel) = Some RkPreferred -> rk_spec sel capable = Some capable.
Proof. unfold rk_spec. intros ->. destruct (snd (sel_members sel)), capable; reflexivity. Qed.
Lemma rk_spec_absent sel capable :
  fst (sel_members sel) = None -> rk_spec sel capable = Some (snd (sel_members sel)).
Proof. unfold rk_spec. intros ->. destruct (snd (sel_members sel)), capable; reflexivity. Qed.

(** *** 2. Sequencing *)

Lemma interp_bind {A B} (p : prog A) (f : A -> prog B) : forall script,
  interp (bind p f) script =
  match interp p script with
  | (tr1, Some a) => let '(tr2, r) := interp (f a) (skipn (length tr1) script) in (tr1 ++ tr2, r)
  | (tr1, None) => (tr1, None)
  end.
Proof.
  induction p as [a|e k IH|]; intros script; cbn [bind interp].
  - cbn [length skipn app]. destruct (interp (f a) script); reflexivity.
  - destruct script as [|x s]; [reflexivity|]. rewrite IH.
    destruct (interp (k x) s) as [tr1 [a|]]; cbn [length skipn]; [|reflexivity].
    destruct (interp (f a) (skipn (length tr1) s)); reflexivity.
  - reflexivity.
Qed.

Lemma interp_bind_inv {A B} (p : prog A) (f : A -> prog B) script tr res :
  interp (bind p f) script = (tr, res) ->
  (exists tr1, interp p script = (tr1, None) /\ tr = tr1 /\ res = None)
  \/ (exists tr1 a tr2 script2,
        interp p script = (tr1, Some a) /\ interp (f a) script2 = (tr2, res) /\ tr = tr1 ++ tr2).
Proof.
  rewrite interp_bind. destruct (interp p script) as [tr1 [a|]].
  - destruct (interp (f a) (skipn (length tr1) script)) as [tr2 r] eqn:E. intros [= <- <-].
    right. exists tr1, a, tr2, (skipn (length tr1) script). auto.
  - intros [= <- <-]. left. exists tr1. auto.
Qed.

(** the events of a program that performs only effects of a class are of that class *)
Lemma only_trace {A} allowed (p : prog A) : forall script,
  only allowed p -> Forall (fun ea => allowed (fst ea) = true) (fst (interp p script)).
Proof.
  induction p as [a|e k IH|]; intros script Ho; cbn [interp]; try constructor.
  destruct script as [|x s]; [constructor|]. destruct Ho as [He Hk].
  specialize (IH x s (Hk x)). destruct (interp (k x) s) as [tr r]. cbn [fst] in *. constructor; assumption.
Qed.

Definition no_save (tr : trace) : Prop := Forall (fun ea => is_save (fst ea) = false) tr.

Lemma info_no_save tr : Forall (fun ea => is_info (fst ea) = true) tr -> no_save tr.
Proof. apply Forall_impl. intros [e a]. destruct e; cbn; congruence. Qed.

(** every run of [get_info]: when it finishes it made exactly the three capability queries, the
    first to the store, and reports rk = (the store's capability is not OnlyNonDiscoverable) *)
Lemma get_info_run c script tr res :
  interp (get_info c) script = (tr, res) ->
  Forall (fun ea => is_info (fst ea) = true) tr
  /\ (length (filter (fun ea => is_store_info (fst ea)) tr) <= 1)%nat
  /\ match res with
     | Some info => exists d uv up,
         tr = [(EStoreInfo, AInfo d); (EVerifEnabled, AOptBool uv); (EPresenceEnabled, ABool up)]
         /\ info = {| i_prf_ext := match c_hmac c with Some _ => true | None => false end;
                      i_aaguid := c_aaguid c; i_rk := rk_capable d; i_uv := uv; i_up := up |}
     | None => True
     end.
Proof.
  intros E. split.
  - pose proof (only_trace is_info (get_info c) script (get_info_only c)) as H. rewrite E in H. exact H.
  - unfold get_info, store_info, verif_enabled, presence_enabled in E. cbn [bind interp] in E.
    destruct script as [|a1 s]; [injection E as <- <-; split; [cbn; lia|exact I]|].
    destruct a1; cbn [bind interp] in E; try (injection E as <- <-; split; [cbn; lia|exact I]).
    destruct s as [|a2 s]; [injection E as <- <-; split; [cbn; lia|exact I]|].
    destruct a2; cbn [bind interp] in E; try (injection E as <- <-; split; [cbn; lia|exact I]).
    destruct s as [|a3 s]; [injection E as <- <-; split; [cbn; lia|exact I]|].
    destruct a3; cbn [bind interp] in E; try (injection E as <- <-; split; [cbn; lia|exact I]).
    injection E as <- <-. split; [cbn; lia|]. exists d, o, b. split; reflexivity.
Qed.

(** *** the shape of [register] and [authenticate] *)
Definition reg_json (origin : bytes) (q : reg_request) (cd : cd_mode) : bytes :=
  client_data_json T_CREATE (rq_challenge q) origin cd.
Definition reg_ext_request (q : reg_request) : option wext := opt_bind (rq_ext q) wext_zip.
Definition reg_rk (q : reg_request) (info : info_response) : bool := map_rk (rq_selection q) (i_rk info).

(** the CTAP2 request [register] hands to [make_credential] *)
Definition reg_ctap_request (rp origin : bytes) (q : reg_request) (cd : cd_mode) (info : info_response)
  (ctap_ext : option mc_ext_in) : mc_request :=
  {| mc_cdh := client_data_hash (reg_json origin q cd) cd;
     mc_rp := {| rp_id := rp; rp_name := Some (rq_rp_name q) |};
     mc_user := rq_user q;
     mc_params := match rq_params q with [] => [ES256; (-257)%Z] | l => l end;
     mc_exclude := rq_exclude q; mc_ext := ctap_ext;
     mc_opts := {| o_rk := reg_rk q info; o_up := true; o_uv := uv_option (option_map sel_uv (rq_selection q)) |};
     mc_pin_auth := false |}.

Definition reg_cred_props (q : reg_request) (d : discoverability) (rk : bool) : option (option bool) :=
  match opt_bind (reg_ext_request q) we_cred_props with
  | Some true => Some (Some (is_discoverable d rk))
  | _ => None
  end.

(** what [register] does with a successful CTAP2 response *)
Definition reg_finish (origin : bytes) (q : reg_request) (cd : cd_mode) (rk : bool) (resp : mc_response)
  : prog (result created werr) :=
  let adb := ad_bytes sha256 (mr_auth_data resp) in
  match ad_acd (mr_auth_data resp) with
  | None => Stuck
  | Some a =>
      if negb (Z.eqb (acd_alg a) ES256) then Ret (Err (WAuthenticatorError CTAP2_UnsupportedAlgorithm))
      else if negb (Nat.eqb (length (acd_x a)) 32 && Nat.eqb (length (acd_y a)) 32)
           then Ret (Err (WAuthenticatorError CTAP2_InvalidCredential)) else
      d <- store_info ;;
      Ret (Ok {| cr_id := b64url_encode (acd_cred_id a); cr_raw_id := acd_cred_id a;
                 cr_client_data_json := reg_json origin q cd; cr_auth_data := adb;
                 cr_public_key := Some (spki_der (acd_x a) (acd_y a)); cr_alg := acd_alg a;
                 cr_att_obj := attestation_object adb;
                 cr_cred_props := reg_cred_props q d rk;
                 cr_prf := option_map (fun p => {| po_enabled := Some (pm_enabled p);
                                                   po_results := option_map values_out (pm_results p) |})
                                      (mr_prf resp) |})
  end.

Definition reg_after_info (c : config) (domain : result bytes werr) (origin : bytes) (q : reg_request) (cd : cd_mode)
  (info : info_response) : prog (result created werr) :=
  match domain with
  | Err e => Ret (Err e)
  | Ok rp =>
      match registration_ext (reg_ext_request q) (i_prf_ext info) with
      | Err e => Ret (Err e)
      | Ok ctap_ext =>
          r <- make_credential c (reg_ctap_request rp origin q cd info ctap_ext) ;;
          match r with
          | Err s => Ret (Err (WAuthenticatorError s))
          | Ok resp => reg_finish origin q cd (reg_rk q info) resp
          end
      end
  end.

(** definitional: this is [register], cut at its two sequencing points *)
Lemma register_unfold c domain origin q cd :
  register c domain origin q cd = (info <- get_info c ;; reg_after_info c domain origin q cd info).
Proof. reflexivity. Qed.

Definition auth_ctap_request (rp origin : bytes) (q : auth_request) (cd : cd_mode) (ctap_ext : option ga_ext_in) : ga_request :=
  {| ga_rp_id := rp; ga_cdh := client_data_hash (client_data_json T_GET (aq_challenge q) origin cd) cd;
     ga_allow := aq_allow q; ga_ext := ctap_ext;
     ga_opts := {| o_rk := false; o_up := true; o_uv := uv_option (Some (aq_uv q)) |}; ga_pin_auth := false |}.

Definition auth_result (origin : bytes) (q : auth_request) (cd : cd_mode) (resp : ga_response) : authenticated :=
  {| au_id := b64url_encode (gr_cred_id resp); au_raw_id := gr_cred_id resp;
     au_client_data_json := client_data_json T_GET (aq_challenge q) origin cd;
     au_auth_data := ad_bytes sha256 (gr_auth_data resp);
     au_signature := gr_signature resp; au_user_handle := gr_user_handle resp;
     au_prf := option_map (fun v => {| po_enabled := None; po_results := Some (values_out v) |}) (gr_prf resp) |}.

Definition auth_after_info (c : config) (domain : result bytes werr) (origin : bytes) (q : auth_request) (cd : cd_mode)
  (info : info_response) : prog (result authenticated werr) :=
  match domain with
  | Err e => Ret (Err e)
  | Ok rp =>
      match authentication_ext (aq_allow q) (aq_ext q) (i_prf_ext info) with
      | Err e => Ret (Err e)
      | Ok ctap_ext =>
          r <- get_assertion (ad_bytes sha256) c (auth_ctap_request rp origin q cd ctap_ext) ;;
          match r with
          | Err s => Ret (Err (werr_of_status s))
          | Ok resp => Ret (Ok (auth_result origin q cd resp))
          end
      end
  end.

Lemma authenticate_unfold c domain origin q cd :
  authenticate c domain origin q cd = (info <- get_info c ;; auth_after_info c domain origin q cd info).
Proof. reflexivity. Qed.

Definition wnot_ok {A} (res : option (result A werr)) : Prop :=
  match res with Some (Ok _) => False | _ => True end.

Definition info_of (c : config) (d : discoverability) (uv : option bool) (up : bool) : info_response :=
  {| i_prf_ext := match c_hmac c with Some _ => true | None => false end;
     i_aaguid := c_aaguid c; i_rk := rk_capable d; i_uv := uv; i_up := up |}.

Definition info_events (d : discoverability) (uv : option bool) (up : bool) : trace :=
  [(EStoreInfo, AInfo d); (EVerifEnabled, AOptBool uv); (EPresenceEnabled, ABool up)].

(** every run of the tail of [register] after a successful CTAP2 response *)
Lemma reg_finish_run origin q cd rk resp script tr res :
  interp (reg_finish origin q cd rk resp) script = (tr, res) ->
  no_save tr
  /\ match res with
     | Some (Ok cr) => exists d a, tr = [(EStoreInfo, AInfo d)] /\ ad_acd (mr_auth_data resp) = Some a
                                   /\ cr_raw_id cr = acd_cred_id a /\ cr_cred_props cr = reg_cred_props q d rk
     | _ => True
     end.
Proof.
  unfold reg_finish. destruct (ad_acd (mr_auth_data resp)) as [a|]; [|cbn [interp]; intros [= <- <-]; split; [constructor|exact I]].
  destruct (negb (Z.eqb (acd_alg a) ES256)); [cbn [interp]; intros [= <- <-]; split; [constructor|exact I]|].
  destruct (negb (Nat.eqb (length (acd_x a)) 32 && Nat.eqb (length (acd_y a)) 32));
    [cbn [interp]; intros [= <- <-]; split; [constructor|exact I]|].
  unfold store_info. cbn [bind interp].
  destruct script as [|x s]; [intros [= <- <-]; split; [constructor|exact I]|].
  destruct x; cbn [bind interp]; intros [= <- <-]; (split; [repeat constructor|]); try exact I.
  exists d, a. repeat split.
Qed.

(** every run of [register], for every script: either it ends before the CTAP2 ceremony (only the
    capability queries were made), or its trace is the three capability queries, then a run of
    [make_credential] on [reg_ctap_request] built from the answers, then the run of [reg_finish] *)
Lemma register_run c domain origin q cd script tr res :
  interp (register c domain origin q cd) script = (tr, res) ->
  (Forall (fun ea => is_info (fst ea) = true) tr /\ wnot_ok res
   /\ (length (filter (fun ea => is_store_info (fst ea)) tr) <= 1)%nat)
  \/ exists d0 uv up rp ctap_ext script_mc tr_mc r_mc tr_fin,
       tr = info_events d0 uv up ++ tr_mc ++ tr_fin
       /\ domain = Ok rp
       /\ interp (make_credential c (reg_ctap_request rp origin q cd (info_of c d0 uv up) ctap_ext)) script_mc = (tr_mc, r_mc)
       /\ match r_mc with
          | None => res = None /\ tr_fin = []
          | Some (Err s) => res = Some (Err (WAuthenticatorError s)) /\ tr_fin = []
          | Some (Ok resp) => exists script_fin,
              interp (reg_finish origin q cd (reg_rk q (info_of c d0 uv up)) resp) script_fin = (tr_fin, res)
          end.
Proof.
  rewrite register_unfold. intros E.
  apply interp_bind_inv in E as [(tr1 & E1 & -> & ->)|(tr1 & info & tr2 & s2 & E1 & E2 & ->)].
  { left. destruct (get_info_run _ _ _ _ E1) as (H1 & H2 & _). repeat split; auto. }
  destruct (get_info_run _ _ _ _ E1) as (Hinfo & Hcnt & d0 & uv & up & -> & ->).
  unfold reg_after_info in E2.
  destruct domain as [rp|e].
  2:{ cbn [interp] in E2. injection E2 as <- <-. left. rewrite app_nil_r. repeat split; auto. }
  fold (info_of c d0 uv up) in E2.
  destruct (registration_ext (reg_ext_request q) (i_prf_ext (info_of c d0 uv up))) as [ctap_ext|e].
  2:{ cbn [interp] in E2. injection E2 as <- <-. left. rewrite app_nil_r. repeat split; auto. }
  right. exists d0, uv, up, rp, ctap_ext.
  apply interp_bind_inv in E2 as [(tr_mc & Emc & -> & ->)|(tr_mc & r & tr_fin & s3 & Emc & Efin & ->)].
  { exists s2, tr_mc, None, []. rewrite app_nil_r. repeat split; auto. }
  exists s2, tr_mc, (Some r), tr_fin. repeat split; auto.
  destruct r as [resp|s].
  - exists s3. exact Efin.
  - cbn [interp] in Efin. injection Efin as <- <-. split; reflexivity.
Qed.

Lemma authenticate_run c domain origin q cd script tr res :
  interp (authenticate c domain origin q cd) script = (tr, res) ->
  (Forall (fun ea => is_info (fst ea) = true) tr /\ wnot_ok res)
  \/ exists d0 uv up rp ctap_ext script_ga tr_ga r_ga,
       tr = info_events d0 uv up ++ tr_ga
       /\ domain = Ok rp
       /\ interp (get_assertion (ad_bytes sha256) c (auth_ctap_request rp origin q cd ctap_ext)) script_ga = (tr_ga, r_ga)
       /\ res = match r_ga with
                | None => None
                | Some (Err s) => Some (Err (werr_of_status s))
                | Some (Ok resp) => Some (Ok (auth_result origin q cd resp))
                end.
Proof.
  rewrite authenticate_unfold. intros E.
  apply interp_bind_inv in E as [(tr1 & E1 & -> & ->)|(tr1 & info & tr2 & s2 & E1 & E2 & ->)].
  { left. split; [apply (get_info_run _ _ _ _ E1)|exact I]. }
  destruct (get_info_run _ _ _ _ E1) as (Hinfo & _ & d0 & uv & up & -> & ->).
  unfold auth_after_info in E2.
  destruct domain as [rp|e].
  2:{ cbn [interp] in E2. injection E2 as <- <-. left. rewrite app_nil_r. split; [exact Hinfo|exact I]. }
  fold (info_of c d0 uv up) in E2.
  destruct (authentication_ext (aq_allow q) (aq_ext q) (i_prf_ext (info_of c d0 uv up))) as [ctap_ext|e].
  2:{ cbn [interp] in E2. injection E2 as <- <-. left. rewrite app_nil_r. split; [exact Hinfo|exact I]. }
  right. exists d0, uv, up, rp, ctap_ext.
  apply interp_bind_inv in E2 as [(tr_ga & Ega & -> & ->)|(tr_ga & r & tr_fin & s3 & Ega & Efin & ->)].
  { exists s2, tr_ga, None. repeat split; auto. }
  exists s2, tr_ga, (Some r).
  destruct r as [resp|s]; cbn [interp] in Efin; injection Efin as <- <-; rewrite app_nil_r; repeat split; auto.
Qed.

(** *** 3. Reading the store judgement of [make_credential] for any outcome *)
Definition find_or_info (ev : eff * answer) : Prop :=
  match fst ev with EFind _ _ | EStoreInfo => True | _ => False end.

(** any save among the store events of a registration (whatever its answer and whatever the
    result): it is the last store event, directly preceded by a capability query answered [d]; the
    passkey follows [saved_passkey_ok] for that [d]; the arguments are the request's; and when rk was
    requested an earlier capability query was answered with something else than
    OnlyNonDiscoverable *)
Lemma j_make_save_inv c q evs res p u rp o a :
  j_make c q evs res = true -> In (ESave p u rp o, a) evs ->
  exists pre d, evs = pre ++ [(EStoreInfo, AInfo d); (ESave p u rp o, a)]
    /\ Forall find_or_info pre
    /\ saved_passkey_ok c q d p = true /\ u = mc_user q /\ rp = mc_rp q /\ o = mc_opts q
    /\ (o_rk (mc_opts q) = true ->
        exists pre' d1, pre = pre' ++ [(EStoreInfo, AInfo d1)] /\ disc_eqb d1 OnlyNonDiscoverable = false).
Proof.
  assert (SAVE : forall d evs', j_save c q d evs' res = true -> In (ESave p u rp o, a) evs' ->
     evs' = [(ESave p u rp o, a)] /\ saved_passkey_ok c q d p = true /\ u = mc_user q /\ rp = mc_rp q /\ o = mc_opts q).
  { intros d evs'. unfold j_save. destruct evs' as [|[e a'] [|x l]]; [intros _ []| |destruct e; discriminate].
    destruct e; try discriminate. intros H [Hin|[]]. injection Hin as -> -> -> -> ->. bsplit.
    match goal with H : user_eqb _ _ = true |- _ => apply user_eqb_eq in H end.
    match goal with H : rp_eqb _ _ = true |- _ => apply rp_eqb_eq in H end.
    match goal with H : options_eqb _ _ = true |- _ => apply options_eqb_eq in H end.
    auto. }
  assert (INFO : forall evs', j_info c q evs' res = true -> In (ESave p u rp o, a) evs' ->
     exists d, evs' = [(EStoreInfo, AInfo d); (ESave p u rp o, a)]
               /\ saved_passkey_ok c q d p = true /\ u = mc_user q /\ rp = mc_rp q /\ o = mc_opts q).
  { intros evs'. unfold j_info. destruct evs' as [|[e a'] rest]; [intros _ []|].
    destruct e; try discriminate.
    destruct a'; try (destruct rest; [intros _ [Hin|[]]; discriminate Hin|discriminate]).
    intros H [Hin|Hin]; [discriminate Hin|]. destruct (SAVE _ _ H Hin) as (-> & H1). exists d. auto. }
  assert (RK : forall evs', j_rk c q evs' res = true -> In (ESave p u rp o, a) evs' ->
     exists pre d, evs' = pre ++ [(EStoreInfo, AInfo d); (ESave p u rp o, a)]
       /\ Forall find_or_info pre
       /\ saved_passkey_ok c q d p = true /\ u = mc_user q /\ rp = mc_rp q /\ o = mc_opts q
       /\ (o_rk (mc_opts q) = true ->
           exists pre' d1, pre = pre' ++ [(EStoreInfo, AInfo d1)] /\ disc_eqb d1 OnlyNonDiscoverable = false)).
  { intros evs'. unfold j_rk. destruct (o_rk (mc_opts q)) eqn:Hrk.
    - destruct evs' as [|[e a'] rest]; [intros _ []|]. destruct e; try discriminate.
      destruct a'; try (destruct rest; [intros _ [Hin|[]]; discriminate Hin|discriminate]).
      destruct (disc_eqb d OnlyNonDiscoverable) eqn:Hd.
      + intros H. bsplit. destruct rest; [intros [Hin|[]]; discriminate Hin|discriminate].
      + intros H [Hin|Hin]; [discriminate Hin|]. destruct (INFO _ H Hin) as (d' & -> & H1).
        exists [(EStoreInfo, AInfo d)], d'. repeat split; try tauto.
        * constructor; [exact I|constructor].
        * intros _. exists [], d. split; [reflexivity|exact Hd].
    - intros H Hin. destruct (INFO _ H Hin) as (d' & -> & H1). exists [], d'. repeat split; try tauto.
      + constructor.
      + intros Habs. discriminate Habs. }
  unfold j_make. destruct (mc_exclude q) as [[|id ids]|]; try exact (RK evs).
  destruct evs as [|[e a'] rest]; [intros _ []|]. destruct e; try discriminate. intros H [Hin|Hin]; [discriminate Hin|].
  bsplit.
  assert (REST : j_rk c q rest res = true ->
     exists pre d, (EFind ids0 rp0, a') :: rest = pre ++ [(EStoreInfo, AInfo d); (ESave p u rp o, a)]
       /\ Forall find_or_info pre
       /\ saved_passkey_ok c q d p = true /\ u = mc_user q /\ rp = mc_rp q /\ o = mc_opts q
       /\ (o_rk (mc_opts q) = true ->
           exists pre' d1, pre = pre' ++ [(EStoreInfo, AInfo d1)] /\ disc_eqb d1 OnlyNonDiscoverable = false)).
  { intros G. destruct (RK _ G Hin) as (pre & d & -> & F & G1 & G2 & G3 & G4 & G5).
    exists ((EFind ids0 rp0, a') :: pre), d. repeat split; auto.
    - constructor; [exact I|exact F].
    - intros Hrk. destruct (G5 Hrk) as (pre' & d1 & -> & Hd). exists ((EFind ids0 rp0, a') :: pre'), d1. auto. }
  destruct a'; try (bsplit; destruct rest; [destruct Hin|discriminate]).
  destruct r as [[|x l]|e]; cbv beta iota in *; try (apply REST; assumption).
  bsplit. destruct rest; [destruct Hin|discriminate].
Qed.

(** the refusal: rk requested and every capability answer of the run is OnlyNonDiscoverable *)
Lemma j_make_refusal c q evs res :
  j_make c q evs res = true -> o_rk (mc_opts q) = true ->
  (forall a, In (EStoreInfo, a) evs -> a = AInfo OnlyNonDiscoverable) ->
  Forall (fun ea => is_save (fst ea) = false) evs
  /\ not_ok res = true
  /\ (In (EStoreInfo, AInfo OnlyNonDiscoverable) evs -> err_or_cut CTAP2_UnsupportedOption res = true).
Proof.
  intros J Hrk Hcap.
  assert (NS : Forall (fun ea => is_save (fst ea) = false) evs).
  { apply Forall_forall. intros [e a] Hin. destruct e; try reflexivity. exfalso.
    destruct (j_make_save_inv _ _ _ _ _ _ _ _ _ J Hin) as (pre & d & -> & _ & _ & _ & _ & _ & G).
    destruct (G Hrk) as (pre' & d1 & -> & Hd).
    assert (AInfo d1 = AInfo OnlyNonDiscoverable) as [= ->].
    { apply Hcap. apply in_or_app. left. apply in_or_app. right. left. reflexivity. }
    discriminate Hd. }
  split; [exact NS|].
  assert (RK : forall evs', j_rk c q evs' res = true ->
     (forall a, In (EStoreInfo, a) evs' -> a = AInfo OnlyNonDiscoverable) ->
     not_ok res = true /\ (In (EStoreInfo, AInfo OnlyNonDiscoverable) evs' -> err_or_cut CTAP2_UnsupportedOption res = true)).
  { intros evs'. unfold j_rk. rewrite Hrk. destruct evs' as [|[e a] rest]; [intros H _; split; [exact H|intros []]|].
    destruct e; try discriminate. intros H Hc.
    assert (a = AInfo OnlyNonDiscoverable) as -> by (apply Hc; left; reflexivity).
    cbn [disc_eqb] in H. bsplit. split; [|intros _; assumption].
    destruct res as [[r|e]|]; try reflexivity. discriminate. }
  revert J. unfold j_make. destruct (mc_exclude q) as [[|id ids]|]; try (intros J; apply RK; assumption).
  destruct evs as [|[e a] rest]; [intros H; split; [exact H|intros []]|]. destruct e; try discriminate. intros H. bsplit.
  assert (Hc' : forall a0, In (EStoreInfo, a0) rest -> a0 = AInfo OnlyNonDiscoverable) by (intros a0 Hin; apply Hcap; right; exact Hin).
  assert (REST : j_rk c q rest res = true ->
     not_ok res = true /\ (In (EStoreInfo, AInfo OnlyNonDiscoverable) ((EFind ids0 rp, a) :: rest) -> err_or_cut CTAP2_UnsupportedOption res = true)).
  { intros G. destruct (RK _ G Hc') as [G1 G2]. split; [exact G1|]. intros [Hin|Hin]; [discriminate Hin|auto]. }
  assert (NOK : forall e, err_or_cut e res = true -> not_ok res = true) by (intros e0; destruct res as [[|]|]; cbn; auto).
  assert (CUT : is_cut res = true -> not_ok res = true) by (destruct res as [[|]|]; cbn; auto).
  destruct a; try (bsplit; destruct rest; [|discriminate]; split; [auto|intros [Hin|[]]; discriminate Hin]).
  destruct r as [[|x l]|e]; cbv beta iota in *; try (apply REST; assumption).
  bsplit. destruct rest; [|discriminate]. split; [eauto|intros [Hin|[]]; discriminate Hin].
Qed.

(** *** the store events of a [register] run *)
Notation store_events tr := (filter (fun ea : eff * answer => storeI (fst ea)) tr).

Lemma store_events_info d uv up : store_events (info_events d uv up) = [(EStoreInfo, AInfo d)].
Proof. reflexivity. Qed.

Lemma no_save_not_in tr p u rp o a : no_save tr -> ~ In (ESave p u rp o, a) tr.
Proof. intros H Hin. unfold no_save in H. rewrite Forall_forall in H. specialize (H _ Hin). discriminate H. Qed.

Lemma store_events_fin origin q cd rk resp script tr res :
  interp (reg_finish origin q cd rk resp) script = (tr, res) -> Forall find_or_info (store_events tr).
Proof.
  unfold reg_finish. destruct (ad_acd (mr_auth_data resp)) as [a|]; [|cbn [interp]; intros [= <- <-]; constructor].
  destruct (negb (Z.eqb (acd_alg a) ES256)); [cbn [interp]; intros [= <- <-]; constructor|].
  destruct (negb (Nat.eqb (length (acd_x a)) 32 && Nat.eqb (length (acd_y a)) 32)); [cbn [interp]; intros [= <- <-]; constructor|].
  unfold store_info. cbn [bind interp].
  destruct script as [|x s]; [intros [= <- <-]; constructor|].
  destruct x; cbn [bind interp]; intros [= <- <-]; repeat constructor.
Qed.

Definition reg_options (q : reg_request) (d0 : discoverability) : options :=
  {| o_rk := map_rk (rq_selection q) (rk_capable d0); o_up := true;
     o_uv := uv_option (option_map sel_uv (rq_selection q)) |}.

(** any save made during any run of [register] (whatever its answer, whatever the result) *)
Lemma register_save_inv c domain origin q cd script tr res p u rp o a :
  interp (register c domain origin q cd) script = (tr, res) -> In (ESave p u rp o, a) tr ->
  exists d0 mid d2 fin rpid,
    store_events tr = (EStoreInfo, AInfo d0) :: mid ++ [(EStoreInfo, AInfo d2); (ESave p u rp o, a)] ++ fin
    /\ Forall find_or_info mid /\ Forall find_or_info fin
    /\ domain = Ok rpid
    /\ o = reg_options q d0 /\ u = rq_user q /\ rp = {| rp_id := rpid; rp_name := Some (rq_rp_name q) |}
    /\ pk_user_handle p = (if is_discoverable d2 (o_rk o) then Some (u_id (rq_user q)) else None)
    /\ pk_rp_id p = rpid
    /\ (o_rk o = true -> exists d1, In (EStoreInfo, AInfo d1) mid /\ disc_eqb d1 OnlyNonDiscoverable = false).
Proof.
  intros E Hin.
  destruct (register_run _ _ _ _ _ _ _ _ E) as [(Hinfo & _ & _)|(d0 & uv & up & rpid & ctap_ext & s_mc & tr_mc & r_mc & tr_fin & -> & -> & Emc & Hfin)].
  { exfalso. apply info_no_save in Hinfo. exact (no_save_not_in _ _ _ _ _ _ Hinfo Hin). }
  assert (FIN : no_save tr_fin /\ Forall find_or_info (store_events tr_fin)).
  { destruct r_mc as [[resp|s]|].
    - destruct Hfin as [s_fin Efin]. split; [apply (reg_finish_run _ _ _ _ _ _ _ _ Efin)|apply (store_events_fin _ _ _ _ _ _ _ _ Efin)].
    - destruct Hfin as [_ ->]. split; constructor.
    - destruct Hfin as [_ ->]. split; constructor. }
  destruct FIN as [NSfin FOIfin].
  assert (Hmc : In (ESave p u rp o, a) tr_mc).
  { apply in_app_or in Hin as [Hin|Hin].
    - exfalso. cbn in Hin. repeat (destruct Hin as [Hin|Hin]; [discriminate Hin|]). exact Hin.
    - apply in_app_or in Hin as [Hin|Hin]; [exact Hin|]. exfalso. exact (no_save_not_in _ _ _ _ _ _ NSfin Hin). }
  pose proof (make_credential_store_all c (reg_ctap_request rpid origin q cd (info_of c d0 uv up) ctap_ext) s_mc) as J.
  rewrite Emc in J. cbn [fst snd] in J.
  assert (Hmc' : In (ESave p u rp o, a) (store_events tr_mc)) by (apply filter_In; split; [exact Hmc|reflexivity]).
  destruct (j_make_save_inv _ _ _ _ _ _ _ _ _ J Hmc') as (pre & d2 & Hevs & Fpre & Hp & Hu & Hrp & Ho & Hrk).
  exists d0, pre, d2, (store_events tr_fin), rpid.
  rewrite !filter_app, store_events_info, Hevs.
  cbn [mc_user mc_rp mc_opts reg_ctap_request] in Hu, Hrp, Ho.
  assert (Ho' : o = reg_options q d0) by (rewrite Ho; reflexivity).
  split; [cbn [app]; rewrite <- app_assoc; reflexivity|].
  repeat split; auto.
  - unfold saved_passkey_ok in Hp. bsplit.
    match goal with H : ob_eqb (pk_user_handle p) _ = true |- _ => apply ob_eqb_eq in H; rewrite H end.
    cbn [mc_opts mc_user reg_ctap_request o_rk]. rewrite Ho'. reflexivity.
  - unfold saved_passkey_ok in Hp. bsplit.
    match goal with H : beq (pk_rp_id p) _ = true |- _ => apply beq_eq in H; rewrite H end. reflexivity.
  - intros Hrk1. rewrite Ho' in Hrk1. destruct (Hrk Hrk1) as (pre' & d1 & -> & Hd).
    exists d1. split; [apply in_or_app; right; left; reflexivity|exact Hd].
Qed.

(** a successful [register]: its store events are the client's capability query, the CTAP2
    ceremony's queries, the capability query right before the one save (answered Ok), and the
    client's second capability query *)
Lemma register_ok_inv c domain origin q cd script tr cr :
  interp (register c domain origin q cd) script = (tr, Some (Ok cr)) ->
  exists d0 mid d2 p d3 rpid,
    store_events tr = (EStoreInfo, AInfo d0) :: mid ++
       [(EStoreInfo, AInfo d2);
        (ESave p (rq_user q) {| rp_id := rpid; rp_name := Some (rq_rp_name q) |} (reg_options q d0), AUnit (Ok tt));
        (EStoreInfo, AInfo d3)]
    /\ Forall find_or_info mid
    /\ domain = Ok rpid
    /\ pk_user_handle p = (if is_discoverable d2 (o_rk (reg_options q d0)) then Some (u_id (rq_user q)) else None)
    /\ pk_rp_id p = rpid
    /\ pk_cred_id p = cr_raw_id cr
    /\ cr_cred_props cr = reg_cred_props q d3 (o_rk (reg_options q d0)).
Proof.
  intros E.
  destruct (register_run _ _ _ _ _ _ _ _ E) as [(_ & [] & _)|(d0 & uv & up & rpid & ctap_ext & s_mc & tr_mc & r_mc & tr_fin & -> & -> & Emc & Hfin)].
  destruct r_mc as [[resp|s]|]; [|destruct Hfin as [Hres _]; discriminate Hres|destruct Hfin as [Hres _]; discriminate Hres].
  destruct Hfin as [s_fin Efin].
  destruct (reg_finish_run _ _ _ _ _ _ _ _ Efin) as [_ (d3 & acd0 & -> & Hacd & Hid & Hcp)].
  pose proof (make_credential_store_all c (reg_ctap_request rpid origin q cd (info_of c d0 uv up) ctap_ext) s_mc) as J.
  rewrite Emc in J. cbn [fst snd] in J.
  apply j_make_ok_inv in J as (pre & d2 & p & Hevs & Fpre & Hp & Hr).
  exists d0, pre, d2, p, d3, rpid.
  rewrite !filter_app, store_events_info, Hevs.
  split; [cbn [app filter fst storeI]; rewrite <- app_assoc; reflexivity|].
  unfold saved_passkey_ok in Hp. unfold response_matches in Hr. rewrite Hacd in Hr. bsplit.
  repeat match goal with H : beq _ _ = true |- _ => apply beq_eq in H end.
  match goal with H : ob_eqb (pk_user_handle p) _ = true |- _ => apply ob_eqb_eq in H; rename H into Huh end.
  cbn [mc_opts mc_user mc_rp reg_ctap_request o_rk rp_id] in *.
  repeat split; auto; try congruence.
Qed.

(** *** 4. The theorems *)
Definition is_some {A} (o : option A) : bool := match o with Some _ => true | None => false end.

(** all capability answers of a trace are [d]: the store's [get_info] is a pure function of the
    store (true of every store shipped with the library: MemoryStore and Option<Passkey> answer the
    constant ForcedDiscoverable, the lock wrappers delegate) *)
Definition constant_capability (d : discoverability) (tr : trace) : Prop :=
  forall a, In (EStoreInfo, a) tr -> a = AInfo d.

Lemma cred_props_zip ext : opt_bind (opt_bind ext wext_zip) we_cred_props = opt_bind ext we_cred_props.
Proof. destruct ext as [[cp prf prfh]|]; [|reflexivity]. destruct cp, prf, prfh; reflexivity. Qed.

Lemma in_store_events (x : eff * answer) tr : In x (store_events tr) -> In x tr.
Proof. intros H. apply filter_In in H. tauto. Qed.

(** (a) the rk capability the authenticator reports *)
Theorem get_info_rk c script info :
  snd (interp (get_info c) script) = Some info ->
  exists d rest, fst (interp (get_info c) script) = (EStoreInfo, AInfo d) :: rest /\ i_rk info = rk_capable d.
Proof.
  destruct (interp (get_info c) script) as [tr res] eqn:E. cbn [fst snd]. intros ->.
  destruct (get_info_run _ _ _ _ E) as (_ & _ & d & uv & up & -> & ->). exists d. eexists. split; reflexivity.
Qed.

(** (a) the CTAP2 request itself: every run of [register] either ends before the CTAP2 ceremony (only
    capability queries were made, the result is not Ok) or consists of the three capability queries, a
    run of [make_credential] on a request for the same user whose rk option is the WebAuthn table
    applied to the selection criteria and the capability just answered (up = true), and a tail that
    saves nothing *)
Theorem register_request_issued c domain origin q cd script tr res :
  interp (register c domain origin q cd) script = (tr, res) ->
  (Forall (fun ea => is_info (fst ea) = true) tr /\ wnot_ok res)
  \/ exists d0 uv up q_ctap script_mc tr_mc r_mc tr_fin,
       tr = info_events d0 uv up ++ tr_mc ++ tr_fin
       /\ interp (make_credential c q_ctap) script_mc = (tr_mc, r_mc)
       /\ mc_user q_ctap = rq_user q
       /\ rk_spec (rq_selection q) (rk_capable d0) = Some (o_rk (mc_opts q_ctap))
       /\ o_up (mc_opts q_ctap) = true
       /\ no_save tr_fin
       /\ (forall cr, res = Some (Ok cr) -> exists resp, r_mc = Some (Ok resp)).
Proof.
  intros E.
  destruct (register_run _ _ _ _ _ _ _ _ E) as [(H1 & H2 & _)|(d0 & uv & up & rpid & ctap_ext & s_mc & tr_mc & r_mc & tr_fin & -> & _ & Emc & Hfin)];
    [left; split; assumption|right].
  exists d0, uv, up, (reg_ctap_request rpid origin q cd (info_of c d0 uv up) ctap_ext), s_mc, tr_mc, r_mc, tr_fin.
  repeat split; auto.
  - cbn [mc_opts reg_ctap_request o_rk]. unfold reg_rk. cbn [i_rk info_of]. apply map_rk_is_spec.
  - destruct r_mc as [[resp|s]|].
    + destruct Hfin as [s_fin Efin]. apply (reg_finish_run _ _ _ _ _ _ _ _ Efin).
    + destruct Hfin as [_ ->]. constructor.
    + destruct Hfin as [_ ->]. constructor.
  - intros cr ->. destruct r_mc as [[resp|s]|]; [eauto|destruct Hfin as [Hres _]; discriminate Hres|destruct Hfin as [Hres _]; discriminate Hres].
Qed.

(** (a) the rk option of the CTAP2 request that reaches the store is the WebAuthn table applied to the
    request's selection criteria and the capability answered to the client's first query *)
Theorem register_option_sent c domain origin q cd script p u rp o a :
  In (ESave p u rp o, a) (fst (interp (register c domain origin q cd) script)) ->
  exists d0 rest,
    store_events (fst (interp (register c domain origin q cd) script)) = (EStoreInfo, AInfo d0) :: rest
    /\ rk_spec (rq_selection q) (rk_capable d0) = Some (o_rk o)
    /\ o_up o = true /\ u = rq_user q.
Proof.
  destruct (interp (register c domain origin q cd) script) as [tr res] eqn:E. cbn [fst]. intros Hin.
  destruct (register_save_inv _ _ _ _ _ _ _ _ _ _ _ _ _ E Hin) as (d0 & mid & d2 & fin & rpid & Hevs & _ & _ & _ & -> & -> & _).
  exists d0. eexists. split; [exact Hevs|]. cbn [reg_options o_rk o_up]. rewrite map_rk_is_spec. auto.
Qed.

(** (b) the user handle is stored exactly when the credential is discoverable by the table, for the
    capability answered right before the save; any save, any answer, any outcome *)
Theorem make_credential_user_handle c q script p u rp o a :
  In (ESave p u rp o, a) (fst (interp (make_credential c q) script)) ->
  exists pre d b,
    store_events (fst (interp (make_credential c q) script)) = pre ++ [(EStoreInfo, AInfo d); (ESave p u rp o, a)]
    /\ o = mc_opts q /\ u = mc_user q
    /\ disc_spec d (o_rk (mc_opts q)) = Some b
    /\ pk_user_handle p = (if b then Some (u_id (mc_user q)) else None).
Proof.
  intros Hin. pose proof (make_credential_store_all c q script) as J.
  assert (Hin' : In (ESave p u rp o, a) (store_events (fst (interp (make_credential c q) script))))
    by (apply filter_In; split; [exact Hin|reflexivity]).
  destruct (j_make_save_inv _ _ _ _ _ _ _ _ _ J Hin') as (pre & d & Hevs & _ & Hp & -> & _ & -> & _).
  exists pre, d, (is_discoverable d (o_rk (mc_opts q))). repeat split; auto.
  - apply is_discoverable_is_spec.
  - unfold saved_passkey_ok in Hp. bsplit.
    match goal with H : ob_eqb (pk_user_handle p) _ = true |- _ => apply ob_eqb_eq in H; exact H end.
Qed.

Lemma mutates_store_events tr :
  filter (fun ea : eff * answer => mutates (fst ea)) tr
  = filter (fun ea : eff * answer => mutates (fst ea)) (store_events tr).
Proof. induction tr as [|[e x] t IH]; cbn; [reflexivity|]. destruct e; cbn; rewrite IH; reflexivity. Qed.

(** (b) the refusal: rk requested of a store that only holds non-discoverable credentials - nothing
    is saved or updated, the result is never Ok, and once the capability has been queried the
    ceremony ends with UnsupportedOption (or is cut there) *)
Theorem make_credential_refusal c q script :
  o_rk (mc_opts q) = true ->
  constant_capability OnlyNonDiscoverable (fst (interp (make_credential c q) script)) ->
  filter (fun ea => mutates (fst ea)) (fst (interp (make_credential c q) script)) = []
  /\ not_ok (snd (interp (make_credential c q) script)) = true
  /\ (In (EStoreInfo, AInfo OnlyNonDiscoverable) (fst (interp (make_credential c q) script)) ->
      snd (interp (make_credential c q) script) = None
      \/ snd (interp (make_credential c q) script) = Some (Err CTAP2_UnsupportedOption)).
Proof.
  intros Hrk Hcap. pose proof (make_credential_store_all c q script) as J.
  set (tr := fst (interp (make_credential c q) script)) in *.
  set (res := snd (interp (make_credential c q) script)) in *.
  destruct (j_make_refusal c q _ _ J Hrk) as (NS & NOK & REF).
  { intros a Hin. apply Hcap. apply in_store_events. exact Hin. }
  split; [|split; [exact NOK|]].
  - rewrite mutates_store_events.
    destruct (j_make_mutations _ _ _ _ J) as [Hn|(pre & p & u & rp & o & a & Hevs & _)]; [exact Hn|].
    exfalso. rewrite Hevs in NS. apply Forall_app in NS as [_ NS]. inversion NS as [|? ? Hs _]. discriminate Hs.
  - intros Hin.
    assert (Hin' : In (EStoreInfo, AInfo OnlyNonDiscoverable) (store_events tr)) by (apply filter_In; split; [exact Hin|reflexivity]).
    specialize (REF Hin'). destruct res as [[r|e]|]; cbn [err_or_cut] in REF; try discriminate; [|left; reflexivity].
    apply N.eqb_eq in REF. subst e. right. reflexivity.
Qed.

Notation store_queries tr := (length (filter (fun ea : eff * answer => is_store_info (fst ea)) tr)).

Lemma store_query_exists (tr : trace) :
  (1 <= store_queries tr)%nat -> exists a, In (EStoreInfo, a) tr.
Proof.
  induction tr as [|[e a] t IH]; cbn [filter fst length]; [lia|].
  destruct e; cbn [is_store_info]; try (intros H; destruct (IH H) as [a' Ha]; exists a'; right; exact Ha).
  intros _. exists a. left. reflexivity.
Qed.

(** (b) at the client: a selection whose effective requirement is true even for an authenticator that
    reports rk = false (residentKey = required, or absent with requireResidentKey) against a store
    that only holds non-discoverable credentials: nothing is saved or updated, the result is never Ok,
    and once the authenticator has made its own capability query (the second of the run) the result is
    AuthenticatorError(UnsupportedOption), or the run was cut *)
Theorem register_refusal c domain origin q cd script :
  rk_spec (rq_selection q) false = Some true ->
  constant_capability OnlyNonDiscoverable (fst (interp (register c domain origin q cd) script)) ->
  filter (fun ea => mutates (fst ea)) (fst (interp (register c domain origin q cd) script)) = []
  /\ wnot_ok (snd (interp (register c domain origin q cd) script))
  /\ ((2 <= store_queries (fst (interp (register c domain origin q cd) script)))%nat ->
      snd (interp (register c domain origin q cd) script) = None
      \/ snd (interp (register c domain origin q cd) script) = Some (Err (WAuthenticatorError CTAP2_UnsupportedOption))).
Proof.
  intros Hspec Hcap. destruct (interp (register c domain origin q cd) script) as [tr res] eqn:E. cbn [fst snd] in *.
  assert (INFO_MUT : forall t : trace, Forall (fun ea => is_info (fst ea) = true) t -> filter (fun ea => mutates (fst ea)) t = []).
  { induction t as [|[e a] t IH]; intros F; [reflexivity|]. inversion F as [|? ? He Ft]; subst.
    cbn [filter fst]. destruct e; try discriminate He; cbn [mutates]; apply IH; exact Ft. }
  destruct (register_run _ _ _ _ _ _ _ _ E) as [(Hinfo & Hnok & Hcnt)|(d0 & uv & up & rpid & ctap_ext & s_mc & tr_mc & r_mc & tr_fin & -> & -> & Emc & Hfin)].
  { split; [apply INFO_MUT; exact Hinfo|]. split; [exact Hnok|]. intros H. lia. }
  assert (AInfo d0 = AInfo OnlyNonDiscoverable) as [= ->] by (apply Hcap; left; reflexivity).
  assert (Hrk : o_rk (mc_opts (reg_ctap_request rpid origin q cd (info_of c OnlyNonDiscoverable uv up) ctap_ext)) = true).
  { cbn [mc_opts reg_ctap_request o_rk]. unfold reg_rk. cbn [i_rk info_of rk_capable disc_eqb negb].
    rewrite map_rk_is_spec in Hspec. injection Hspec as ->. reflexivity. }
  pose proof (make_credential_refusal c _ s_mc Hrk) as R. rewrite Emc in R. cbn [fst snd] in R.
  destruct R as (Rmut & Rnok & Rref).
  { intros a Hin. apply Hcap. apply in_or_app. right. apply in_or_app. left. exact Hin. }
  assert (FIN : tr_fin = [] /\ (res = None \/ exists s, r_mc = Some (Err s) /\ res = Some (Err (WAuthenticatorError s))) /\ (r_mc = None -> res = None)).
  { destruct r_mc as [[resp|s]|]; [discriminate Rnok| |]; destruct Hfin as [-> ->]; split; auto. split; [right; eauto|discriminate]. }
  destruct FIN as (-> & Hres & Hnone). rewrite app_nil_r.
  split; [|split].
  - rewrite filter_app, Rmut. reflexivity.
  - destruct Hres as [->|(s & _ & ->)]; exact I.
  - intros Hcnt. rewrite filter_app, app_length in Hcnt. cbn [info_events filter fst is_store_info length] in Hcnt.
    destruct (store_query_exists tr_mc) as [a Ha]; [lia|].
    assert (a = AInfo OnlyNonDiscoverable) as -> by (apply Hcap; apply in_or_app; right; rewrite app_nil_r; exact Ha).
    destruct (Rref Ha) as [Hr|Hr]; [left; apply Hnone; exact Hr|].
    destruct Hres as [->|(s & Hs & ->)]; [left; reflexivity|]. right. congruence.
Qed.

(** (c) credProps.  A successful registration, in full generality: the option sent follows the first
    capability answer [d0], the user handle the answer [d2] right before the save, the credProps
    output the answer [d3] to the client's query after the ceremony *)
Theorem register_cred_props_general c domain origin q cd script cr :
  snd (interp (register c domain origin q cd) script) = Some (Ok cr) ->
  exists d0 mid d2 p u rp o d3 rk,
    store_events (fst (interp (register c domain origin q cd) script))
      = (EStoreInfo, AInfo d0) :: mid ++ [(EStoreInfo, AInfo d2); (ESave p u rp o, AUnit (Ok tt)); (EStoreInfo, AInfo d3)]
    /\ Forall find_or_info mid
    /\ rk_spec (rq_selection q) (rk_capable d0) = Some rk /\ o_rk o = rk
    /\ pk_user_handle p = (if is_discoverable d2 rk then Some (u_id (rq_user q)) else None)
    /\ pk_cred_id p = cr_raw_id cr
    /\ cr_cred_props cr = match opt_bind (rq_ext q) we_cred_props with
                          | Some true => Some (Some (is_discoverable d3 rk))
                          | _ => None
                          end.
Proof.
  destruct (interp (register c domain origin q cd) script) as [tr res] eqn:E. cbn [fst snd]. intros ->.
  destruct (register_ok_inv _ _ _ _ _ _ _ _ E) as (d0 & mid & d2 & p & d3 & rpid & Hevs & Fmid & _ & Huh & _ & Hid & Hcp).
  exists d0, mid, d2, p. do 3 eexists. exists d3, (o_rk (reg_options q d0)).
  split; [exact Hevs|]. repeat split; auto.
  - cbn [reg_options o_rk]. apply map_rk_is_spec.
  - rewrite Hcp. unfold reg_cred_props, reg_ext_request. rewrite cred_props_zip. reflexivity.
Qed.

(** (c) with a store whose capability answer does not change during the run: credProps, when
    requested, is exactly "the stored credential carries a user handle", which is the table's
    discoverability for the rk option the table prescribes *)
Theorem register_cred_props c domain origin q cd script cr d :
  constant_capability d (fst (interp (register c domain origin q cd) script)) ->
  snd (interp (register c domain origin q cd) script) = Some (Ok cr) ->
  exists p u rp o rk b,
    In (ESave p u rp o, AUnit (Ok tt)) (fst (interp (register c domain origin q cd) script))
    /\ pk_cred_id p = cr_raw_id cr
    /\ rk_spec (rq_selection q) (rk_capable d) = Some rk /\ o_rk o = rk
    /\ disc_spec d rk = Some b
    /\ is_some (pk_user_handle p) = b
    /\ (forall h, pk_user_handle p = Some h -> h = u_id (rq_user q))
    /\ cr_cred_props cr = match opt_bind (rq_ext q) we_cred_props with
                          | Some true => Some (Some (is_some (pk_user_handle p)))
                          | _ => None
                          end.
Proof.
  intros Hcap Hres.
  destruct (register_cred_props_general _ _ _ _ _ _ _ Hres) as (d0 & mid & d2 & p & u & rp & o & d3 & rk & Hevs & _ & Hrk & Ho & Huh & Hid & Hcp).
  set (tr := fst (interp (register c domain origin q cd) script)) in *.
  assert (IN : forall x, In x ((EStoreInfo, AInfo d0) :: mid ++ [(EStoreInfo, AInfo d2); (ESave p u rp o, AUnit (Ok tt)); (EStoreInfo, AInfo d3)]) -> In x tr).
  { intros x Hx. apply in_store_events. rewrite Hevs. exact Hx. }
  assert (AInfo d0 = AInfo d) as [= ->] by (apply Hcap, IN; left; reflexivity).
  assert (AInfo d2 = AInfo d) as [= ->] by (apply Hcap, IN; right; apply in_or_app; right; left; reflexivity).
  assert (AInfo d3 = AInfo d) as [= ->] by (apply Hcap, IN; right; apply in_or_app; right; right; right; left; reflexivity).
  exists p, u, rp, o, rk, (is_discoverable d rk).
  split; [apply IN; right; apply in_or_app; right; right; left; reflexivity|].
  repeat split; auto.
  - apply is_discoverable_is_spec.
  - rewrite Huh. destruct (is_discoverable d rk); reflexivity.
  - intros h. rewrite Huh. destruct (is_discoverable d rk); congruence.
  - rewrite Hcp, Huh. destruct (is_discoverable d rk); reflexivity.
Qed.

(** (d) a successful assertion returns exactly the user handle of the credential selected: the first
    credential of the lookup's answer *)
Theorem assertion_user_handle ad_bytes c q script r :
  snd (interp (get_assertion ad_bytes c q) script) = Some (Ok r) ->
  exists ids rp r0 cred0 rest,
    store_events (fst (interp (get_assertion ad_bytes c q) script)) = (EFind ids rp, AFind r0) :: rest
    /\ first_credential r0 = Ok cred0
    /\ gr_cred_id r = pk_cred_id cred0
    /\ gr_user_handle r = pk_user_handle cred0.
Proof.
  intros Hres. pose proof (get_assertion_store_all ad_bytes c q script) as J. rewrite Hres in J.
  apply j_get_ok_inv in J as (r0 & cred0 & rest & Hevs & Hfc & Hid & Huh & _).
  do 2 eexists. exists r0, cred0, rest. split; [exact Hevs|]. auto.
Qed.

Theorem authenticate_user_handle c domain origin q cd script au :
  snd (interp (authenticate c domain origin q cd) script) = Some (Ok au) ->
  exists d0 ids rp r0 cred0 rest,
    store_events (fst (interp (authenticate c domain origin q cd) script))
      = (EStoreInfo, AInfo d0) :: (EFind ids rp, AFind r0) :: rest
    /\ first_credential r0 = Ok cred0
    /\ au_raw_id au = pk_cred_id cred0
    /\ au_user_handle au = pk_user_handle cred0.
Proof.
  destruct (interp (authenticate c domain origin q cd) script) as [tr res] eqn:E. cbn [fst snd]. intros ->.
  destruct (authenticate_run _ _ _ _ _ _ _ _ E) as [(_ & [])|(d0 & uv & up & rpid & ctap_ext & s_ga & tr_ga & r_ga & -> & -> & Ega & Hres)].
  destruct r_ga as [[resp|s]|]; try discriminate Hres. injection Hres as ->.
  pose proof (assertion_user_handle (ad_bytes sha256) c (auth_ctap_request rpid origin q cd ctap_ext) s_ga resp) as A.
  rewrite Ega in A. cbn [fst snd] in A. destruct (A eq_refl) as (ids & rp & r0 & cred0 & rest & Hevs & Hfc & Hid & Huh).
  exists d0, ids, rp, r0, cred0, rest. rewrite filter_app, store_events_info, Hevs. auto.
Qed.

(** *** the same against the reference store ([exec]: the store answers its own calls - finds by the
    lookup contract, saves and updates are honoured, the capability is the constant [d]) *)
Lemma fold_find_or_info (l : trace) : Forall find_or_info l -> forall s, fold_left apply_mut l s = s.
Proof.
  induction l as [|[e a] l IH]; intros F s; [reflexivity|].
  inversion F as [|? ? He Fl]; subst. cbn [fold_left]. rewrite IH by assumption.
  unfold find_or_info in He. cbn [fst] in He. destruct e; try tauto; reflexivity.
Qed.

Lemma exec_trace {R} (p : prog R) st d script st' tr res :
  exec p st d script = (st', tr, res) ->
  interp p (map snd tr) = (tr, res)
  /\ st' = fold_left apply_mut (store_events tr) st
  /\ constant_capability d tr
  /\ (forall ids rp r0 pre post, tr = pre ++ (EFind ids rp, AFind r0) :: post ->
        r0 = ref_find (fold_left apply_mut pre st) ids rp).
Proof.
  intros E. pose proof (exec_spec p st d script) as S. rewrite E in S. destruct S as (SI & SS & SF).
  pose proof (exec_answers p st d script) as A. rewrite E in A. cbn [fst snd] in A.
  repeat split; auto.
  - rewrite SS. apply fold_apply_filter.
  - intros a Hin. rewrite Forall_forall in A. apply (A _ Hin).
Qed.

Theorem register_step c domain origin q cd st d script st' tr cr :
  exec (register c domain origin q cd) st d script = (st', tr, Some (Ok cr)) ->
  exists p rk b,
    st' = put st p /\ pk_cred_id p = cr_raw_id cr
    /\ rk_spec (rq_selection q) (rk_capable d) = Some rk
    /\ disc_spec d rk = Some b
    /\ pk_user_handle p = (if b then Some (u_id (rq_user q)) else None)
    /\ cr_cred_props cr = match opt_bind (rq_ext q) we_cred_props with
                          | Some true => Some (Some b)
                          | _ => None
                          end.
Proof.
  intros E. destruct (exec_trace _ _ _ _ _ _ _ E) as (SI & SS & Hcap & _).
  pose proof (register_cred_props_general c domain origin q cd (map snd tr) cr) as G. rewrite SI in G. cbn [fst snd] in G.
  destruct (G eq_refl) as (d0 & mid & d2 & p & u & rp & o & d3 & rk & Hevs & Fmid & Hrk & Ho & Huh & Hid & Hcp).
  assert (IN : forall x, In x ((EStoreInfo, AInfo d0) :: mid ++ [(EStoreInfo, AInfo d2); (ESave p u rp o, AUnit (Ok tt)); (EStoreInfo, AInfo d3)]) -> In x tr).
  { intros x Hx. apply in_store_events. rewrite Hevs. exact Hx. }
  assert (AInfo d0 = AInfo d) as [= ->] by (apply Hcap, IN; left; reflexivity).
  assert (AInfo d2 = AInfo d) as [= ->] by (apply Hcap, IN; right; apply in_or_app; right; left; reflexivity).
  assert (AInfo d3 = AInfo d) as [= ->] by (apply Hcap, IN; right; apply in_or_app; right; right; right; left; reflexivity).
  exists p, rk, (is_discoverable d rk). repeat split; auto.
  - rewrite SS, Hevs. cbn [fold_left apply_mut fst]. rewrite fold_left_app, (fold_find_or_info mid Fmid). reflexivity.
  - apply is_discoverable_is_spec.
Qed.

Theorem authenticate_step c domain origin q cd st d script st' tr au :
  exec (authenticate c domain origin q cd) st d script = (st', tr, Some (Ok au)) ->
  exists cred0, In cred0 st /\ pk_cred_id cred0 = au_raw_id au /\ au_user_handle au = pk_user_handle cred0.
Proof.
  intros E. destruct (exec_trace _ _ _ _ _ _ _ E) as (SI & _ & _ & SF).
  pose proof (authenticate_user_handle c domain origin q cd (map snd tr) au) as G. rewrite SI in G. cbn [fst snd] in G.
  destruct (G eq_refl) as (d0 & ids & rp & r0 & cred0 & rest & Hevs & Hfc & Hid & Huh).
  destruct (filter_head_split _ _ _ Hevs) as (pre1 & post1 & -> & Hpre1 & Hpost1).
  destruct (filter_head_split _ _ _ Hpost1) as (pre2 & post2 & -> & Hpre2 & _).
  assert (Hr0 : r0 = ref_find st ids rp).
  { rewrite (SF ids rp r0 (pre1 ++ (EStoreInfo, AInfo d0) :: pre2) post2) by (rewrite <- app_assoc; reflexivity).
    rewrite fold_apply_filter, filter_app, Hpre1. cbn [app filter fst storeI]. rewrite Hpre2. reflexivity. }
  assert (C : contract_answer st ids rp r0) by (rewrite Hr0; apply ref_store_contract).
  destruct (contract_first _ _ _ _ _ C Hfc) as (Hin & _ & _).
  exists cred0. auto.
Qed.

Lemma In_put st p : In p (put st p).
Proof.
  induction st as [|x r IH]; cbn [put]; [left; reflexivity|].
  destruct (beq (pk_cred_id x) (pk_cred_id p)); [left; reflexivity|right; exact IH].
Qed.

(** end to end: a registration followed - after any number of other operations that leave the
    credential in place, here none - by an assertion with the credential just created *)
Theorem register_then_authenticate c domain origin q cd st d script st1 tr1 cr
                                   c' domain' origin' q' cd' d' script' st2 tr2 au :
  unique_ids st ->
  exec (register c domain origin q cd) st d script = (st1, tr1, Some (Ok cr)) ->
  exec (authenticate c' domain' origin' q' cd') st1 d' script' = (st2, tr2, Some (Ok au)) ->
  au_raw_id au = cr_raw_id cr ->
  exists rk b,
    rk_spec (rq_selection q) (rk_capable d) = Some rk
    /\ disc_spec d rk = Some b
    /\ au_user_handle au = (if b then Some (u_id (rq_user q)) else None)
    /\ (opt_bind (rq_ext q) we_cred_props = Some true -> cr_cred_props cr = Some (Some (is_some (au_user_handle au)))).
Proof.
  intros U E1 E2 Hsame.
  destruct (register_step _ _ _ _ _ _ _ _ _ _ _ E1) as (p & rk & b & -> & Hid & Hrk & Hb & Huh & Hcp).
  destruct (authenticate_step _ _ _ _ _ _ _ _ _ _ _ E2) as (cred0 & Hin & Hid0 & Huh0).
  assert (U1 : unique_ids (put st p)) by (apply put_unique; exact U).
  assert (cred0 = p).
  { pose proof (In_get_by_id _ _ U1 Hin) as G0. pose proof (In_get_by_id _ _ U1 (In_put st p)) as G1.
    rewrite Hid0, Hsame, <- Hid, G1 in G0. congruence. }
  subst cred0. exists rk, b. repeat split; auto.
  - congruence.
  - intros Hreq. rewrite Hcp, Hreq, Huh0, Huh. destruct b; reflexivity.
Qed.

(** the capability hypothesis of [register_cred_props] cannot be dropped: against a store whose
    answer changes between the save and the client's second query the output is wrong *)
Definition c11_demo_config : config :=
  {| c_aaguid := []; c_algs := [ES256]; c_counter := false; c_id_len := 16; c_hmac := None |}.
Definition c11_demo_request (sel : option selection) (cp : option bool) : reg_request :=
  {| rq_rp_id := None; rq_rp_name := [82]; rq_user := {| u_id := [7]; u_name := None; u_display := None |};
     rq_challenge := [1]; rq_params := []; rq_exclude := None; rq_selection := sel;
     rq_ext := Some {| we_cred_props := cp; we_prf := None; we_prf_hashed := None |} |}.
Definition c11_demo_script (d0 d2 d3 : discoverability) : list answer :=
  [AInfo d0; AOptBool (Some true); ABool true;                              (* client get_info *)
   AOptBool (Some true); ACheck (Ok (true, true));                          (* consent *)
   AInfo d0; AOptBool (Some true); ABool true;                              (* the authenticator's rk check *)
   ABytes [9]; AKey [1] (repeat 2 32) (repeat 3 32); AInfo d2; AUnit (Ok tt);  (* id, key, capability, save *)
   AInfo d3].                                                                (* client, for credProps *)

(** *** 5. The property as boolean judgements over (store events of a call log, result).
    Proved below for every run of the model; evaluated by the check on the implementation's logs. *)

(** every save follows the tables for the most recent capability answer before it *)
Fixpoint saves_follow (rk : bool) (uid : bytes) (last : option discoverability) (evs : trace) : bool :=
  match evs with
  | [] => true
  | (EStoreInfo, AInfo d) :: r => saves_follow rk uid (Some d) r
  | (ESave p u rp o, _) :: r =>
      match last with
      | Some d => Bool.eqb (o_rk o) rk && beq (u_id u) uid
                  && match disc_spec d rk with
                     | Some b => ob_eqb (pk_user_handle p) (if b then Some uid else None)
                     | None => false
                     end
      | None => false
      end && saves_follow rk uid last r
  | _ :: r => saves_follow rk uid last r
  end.

Definition ev_is_save (ea : eff * answer) : bool := is_save (fst ea).
Definition ev_is_query (ea : eff * answer) : bool := is_store_info (fst ea).
Definition ev_only_non (ea : eff * answer) : bool :=
  match ea with
  | (EStoreInfo, AInfo OnlyNonDiscoverable) => true
  | (EStoreInfo, _) => false
  | _ => true
  end.

Definition all_infos_equal (evs : trace) : bool :=
  match filter ev_is_query evs with
  | [] => true
  | (_, a) :: r => forallb (fun ea => match snd ea, a with AInfo x, AInfo y => disc_eqb x y | _, _ => false end) r
  end.

Definition c11_mc_judge (q : mc_request) (evs : trace) (res : option (result mc_response N)) : bool :=
  saves_follow (o_rk (mc_opts q)) (u_id (mc_user q)) None evs
  && (if o_rk (mc_opts q) && forallb ev_only_non evs
      then negb (existsb ev_is_save evs) && not_ok res
           && (if existsb ev_is_query evs then err_or_cut CTAP2_UnsupportedOption res else true)
      else true).

Definition c11_ga_judge (evs : trace) (res : option (result ga_response N)) : bool :=
  match res with
  | Some (Ok r) =>
      match evs with
      | (EFind _ _, AFind r0) :: _ =>
          match first_credential r0 with
          | Ok cred0 => ob_eqb (gr_user_handle r) (pk_user_handle cred0) && beq (gr_cred_id r) (pk_cred_id cred0)
          | Err _ => false
          end
      | _ => false
      end
  | _ => true
  end.

Definition wres_not_ok {A} (res : option (result A werr)) : bool :=
  match res with Some (Ok _) => false | _ => true end.

Definition refused_or_cut (res : option (result created werr)) : bool :=
  match res with
  | None => true
  | Some (Err (WAuthenticatorError s)) => s =? CTAP2_UnsupportedOption
  | _ => false
  end.

(** the successful save and the most recent capability answer of a log, wherever they are (the order
    of the client's own capability query relative to the ceremony is not part of the property) *)
Definition upd_ok_save (acc : option passkey) (ea : eff * answer) : option passkey :=
  match ea with (ESave p _ _ _, AUnit (Ok _)) => Some p | _ => acc end.
Definition upd_info (acc : option discoverability) (ea : eff * answer) : option discoverability :=
  match ea with (EStoreInfo, AInfo d) => Some d | _ => acc end.
Definition last_ok_save (evs : trace) : option passkey := fold_left upd_ok_save evs None.
Definition last_info (evs : trace) : option discoverability := fold_left upd_info evs None.

Definition c11_reg_ok_check (q : reg_request) (rk : bool) (evs : trace) (cr : created) : bool :=
  match last_ok_save evs, last_info evs with
  | Some p, Some d3 =>
      beq (pk_cred_id p) (cr_raw_id cr)
      && match opt_bind (rq_ext q) we_cred_props with
         | Some true =>
             opt_eqb (opt_eqb Bool.eqb) (cr_cred_props cr) (Some (disc_spec d3 rk))
             && (if all_infos_equal evs
                 then opt_eqb (opt_eqb Bool.eqb) (cr_cred_props cr) (Some (Some (is_some (pk_user_handle p))))
                 else true)
         | _ => match cr_cred_props cr with None => true | Some _ => false end
         end
  | _, _ => false
  end.

Definition c11_reg_judge (q : reg_request) (evs : trace) (res : option (result created werr)) : bool :=
  match evs with
  | (EStoreInfo, AInfo d0) :: rest =>
      match rk_spec (rq_selection q) (rk_capable d0) with
      | None => false
      | Some rk =>
          saves_follow rk (u_id (rq_user q)) (Some d0) rest
          && (if rk && forallb ev_only_non evs
              then negb (existsb ev_is_save evs) && wres_not_ok res
                   && (if (2 <=? length (filter ev_is_query evs))%nat then refused_or_cut res else true)
              else true)
          && match res with Some (Ok cr) => c11_reg_ok_check q rk evs cr | _ => true end
      end
  | _ => negb (existsb ev_is_save evs) && wres_not_ok res
  end.

Definition c11_auth_judge (evs : trace) (res : option (result authenticated werr)) : bool :=
  match res with
  | Some (Ok au) =>
      match evs with
      | (EStoreInfo, _) :: (EFind _ _, AFind r0) :: _ =>
          match first_credential r0 with
          | Ok cred0 => ob_eqb (au_user_handle au) (pk_user_handle cred0) && beq (au_raw_id au) (pk_cred_id cred0)
          | Err _ => false
          end
      | _ => false
      end
  | _ => true
  end.

(** **** the model satisfies the judgements on every run *)
Lemma saves_follow_no_save rk uid evs : forall last,
  existsb ev_is_save evs = false -> saves_follow rk uid last evs = true.
Proof.
  induction evs as [|[e a] r IH]; intros last H; [reflexivity|]. cbn [existsb] in H. apply orb_false_iff in H as [H1 H2].
  destruct e; try discriminate H1; cbn [saves_follow]; try (apply IH; exact H2).
  destruct a; apply IH; exact H2.
Qed.

Lemma saves_follow_app rk uid l2 : existsb ev_is_save l2 = false -> forall l1 last,
  saves_follow rk uid last (l1 ++ l2) = saves_follow rk uid last l1.
Proof.
  intros H2. induction l1 as [|[e a] r IH]; intros last; cbn [app].
  - cbn [saves_follow]. apply saves_follow_no_save. exact H2.
  - destruct e; cbn [saves_follow]; try apply IH.
    + rewrite IH. reflexivity.
    + destruct a; apply IH.
Qed.

Lemma saves_follow_skip rk uid pre : Forall find_or_info pre -> forall d l last,
  saves_follow rk uid last (pre ++ (EStoreInfo, AInfo d) :: l) = saves_follow rk uid (Some d) l.
Proof.
  induction pre as [|[e a] r IH]; intros F d l last; cbn [app]; [reflexivity|].
  inversion F as [|? ? He Fr]; subst. unfold find_or_info in He. cbn [fst] in He.
  destruct e; try tauto; cbn [saves_follow]; [apply IH; exact Fr|].
  destruct a; apply IH; exact Fr.
Qed.

Lemma existsb_save_false evs : Forall (fun ea => is_save (fst ea) = false) evs -> existsb ev_is_save evs = false.
Proof. induction 1 as [|x l Hx _ IH]; [reflexivity|]. cbn [existsb]. unfold ev_is_save at 1. rewrite Hx, IH. reflexivity. Qed.

Lemma existsb_save_true evs : existsb ev_is_save evs = true -> exists p u rp o a, In (ESave p u rp o, a) evs.
Proof.
  intros H. apply existsb_exists in H as ([e a] & Hin & He). unfold ev_is_save in He. cbn [fst] in He.
  destruct e; try discriminate He. eauto 6.
Qed.

Lemma j_make_saves_follow c q evs res last :
  j_make c q evs res = true -> saves_follow (o_rk (mc_opts q)) (u_id (mc_user q)) last evs = true.
Proof.
  intros J. destruct (existsb ev_is_save evs) eqn:Hs; [|apply saves_follow_no_save; exact Hs].
  apply existsb_save_true in Hs as (p & u & rp & o & a & Hin).
  destruct (j_make_save_inv _ _ _ _ _ _ _ _ _ J Hin) as (pre & d & -> & Fpre & Hp & -> & _ & -> & _).
  rewrite saves_follow_skip by exact Fpre. cbn [saves_follow].
  rewrite Bool.eqb_reflx, beq_refl, is_discoverable_is_spec.
  unfold saved_passkey_ok in Hp. bsplit.
  match goal with H : ob_eqb (pk_user_handle p) _ = true |- _ => rewrite H end. reflexivity.
Qed.

Lemma only_non_constant evs : forallb ev_only_non evs = true -> forall a, In (EStoreInfo, a) evs -> a = AInfo OnlyNonDiscoverable.
Proof.
  intros H a Hin. rewrite forallb_forall in H. specialize (H _ Hin). cbn in H.
  destruct a; try discriminate H. destruct d; try discriminate H. reflexivity.
Qed.

Lemma existsb_query_in evs : existsb ev_is_query evs = true -> exists a, In (EStoreInfo, a) evs.
Proof.
  intros H. apply existsb_exists in H as ([e a] & Hin & He). unfold ev_is_query in He. cbn [fst] in He.
  destruct e; try discriminate He. eauto.
Qed.

Theorem c11_mc_judge_model c q script :
  c11_mc_judge q (store_events (fst (interp (make_credential c q) script))) (snd (interp (make_credential c q) script)) = true.
Proof.
  pose proof (make_credential_store_all c q script) as J.
  set (evs := store_events (fst (interp (make_credential c q) script))) in *.
  set (res := snd (interp (make_credential c q) script)) in *.
  unfold c11_mc_judge. rewrite (j_make_saves_follow _ _ _ _ None J). cbn [andb].
  destruct (o_rk (mc_opts q)) eqn:Hrk; [|reflexivity]. destruct (forallb ev_only_non evs) eqn:Hon; [|reflexivity]. cbn [andb].
  destruct (j_make_refusal c q evs res J Hrk (only_non_constant _ Hon)) as (NS & NOK & REF).
  rewrite (existsb_save_false _ NS), NOK. cbn [negb andb].
  destruct (existsb ev_is_query evs) eqn:Hq; [|reflexivity].
  apply existsb_query_in in Hq as [a Ha]. apply REF.
  rewrite (only_non_constant _ Hon a Ha) in Ha. exact Ha.
Qed.

Theorem c11_ga_judge_model ad_bytes c q script :
  c11_ga_judge (store_events (fst (interp (get_assertion ad_bytes c q) script))) (snd (interp (get_assertion ad_bytes c q) script)) = true.
Proof.
  destruct (snd (interp (get_assertion ad_bytes c q) script)) as [[r|e]|] eqn:Hres; try reflexivity.
  destruct (assertion_user_handle _ _ _ _ _ Hres) as (ids & rp & r0 & cred0 & rest & -> & Hfc & Hid & Huh).
  unfold c11_ga_judge. rewrite Hfc, Hid, Huh, ob_eqb_refl, beq_refl. reflexivity.
Qed.

Theorem c11_auth_judge_model c domain origin q cd script :
  c11_auth_judge (store_events (fst (interp (authenticate c domain origin q cd) script)))
                 (snd (interp (authenticate c domain origin q cd) script)) = true.
Proof.
  destruct (snd (interp (authenticate c domain origin q cd) script)) as [[au|e]|] eqn:Hres; try reflexivity.
  destruct (authenticate_user_handle _ _ _ _ _ _ _ Hres) as (d0 & ids & rp & r0 & cred0 & rest & -> & Hfc & Hid & Huh).
  unfold c11_auth_judge. rewrite Hfc, Hid, Huh, ob_eqb_refl, beq_refl. reflexivity.
Qed.

Lemma wnot_ok_b {A} (res : option (result A werr)) : wnot_ok res -> wres_not_ok res = true.
Proof. destruct res as [[|]|]; cbn; tauto. Qed.

Lemma info_store_events tr :
  Forall (fun ea => is_info (fst ea) = true) tr -> (store_queries tr <= 1)%nat ->
  store_events tr = [] \/ exists a, store_events tr = [(EStoreInfo, a)].
Proof.
  intros F. assert (EQ : store_events tr = filter (fun ea => is_store_info (fst ea)) tr).
  { induction F as [|[e a] l He _ IH]; [reflexivity|]. cbn [filter fst]. destruct e; try discriminate He; cbn [storeI is_store_info]; rewrite IH; reflexivity. }
  rewrite EQ. intros Hc. destruct (filter (fun ea => is_store_info (fst ea)) tr) as [|[e a] [|y l]] eqn:Hf; [left; reflexivity| |cbn in Hc; lia].
  right. assert (Hin : In (e, a) (filter (fun ea => is_store_info (fst ea)) tr)) by (rewrite Hf; left; reflexivity).
  apply filter_In in Hin as [_ He]. cbn [fst] in He. destruct e; try discriminate He. eauto.
Qed.

Lemma foi_no_save l : Forall find_or_info l -> existsb ev_is_save l = false.
Proof.
  induction 1 as [|[e a] l He _ IH]; [reflexivity|]. cbn [existsb]. rewrite IH. unfold find_or_info in He. cbn [fst] in He.
  destruct e; try tauto; reflexivity.
Qed.

Lemma no_mutation_no_save tr :
  filter (fun ea : eff * answer => mutates (fst ea)) tr = [] -> existsb ev_is_save (store_events tr) = false.
Proof.
  induction tr as [|[e a] t IH]; [reflexivity|]. cbn [filter fst].
  destruct e; cbn [mutates storeI]; try discriminate; intros H; cbn [existsb ev_is_save fst is_save orb]; apply IH; exact H.
Qed.

Lemma queries_store_events tr : filter ev_is_query (store_events tr) = filter (fun ea => is_store_info (fst ea)) tr.
Proof. induction tr as [|[e a] t IH]; [reflexivity|]. cbn [filter fst]. destruct e; cbn [storeI filter ev_is_query fst is_store_info]; rewrite IH; reflexivity. Qed.

Lemma upd_ok_save_foi mid : Forall find_or_info mid -> forall acc, fold_left upd_ok_save mid acc = acc.
Proof.
  induction 1 as [|[e a] l He _ IH]; intros acc; [reflexivity|]. cbn [fold_left]. rewrite IH.
  unfold find_or_info in He. cbn [fst] in He. destruct e; try tauto; reflexivity.
Qed.

Lemma reg_ok_check_shape q rk d0 mid d2 p u rp o d3 cr :
  Forall find_or_info mid ->
  pk_user_handle p = (if is_discoverable d2 rk then Some (u_id (rq_user q)) else None) ->
  pk_cred_id p = cr_raw_id cr ->
  cr_cred_props cr = match opt_bind (rq_ext q) we_cred_props with
                     | Some true => Some (Some (is_discoverable d3 rk))
                     | _ => None
                     end ->
  c11_reg_ok_check q rk ((EStoreInfo, AInfo d0) :: mid ++ [(EStoreInfo, AInfo d2); (ESave p u rp o, AUnit (Ok tt)); (EStoreInfo, AInfo d3)]) cr = true.
Proof.
  intros Fmid Huh Hid Hcp. unfold c11_reg_ok_check, last_ok_save, last_info.
  cbn [fold_left]. rewrite !fold_left_app. rewrite (upd_ok_save_foi mid Fmid). cbn [fold_left upd_ok_save upd_info].
  rewrite Hid, beq_refl, Hcp. cbn [andb].
  destruct (opt_bind (rq_ext q) we_cred_props) as [[|]|]; try reflexivity.
  rewrite is_discoverable_is_spec. cbn [opt_eqb]. rewrite Bool.eqb_reflx. cbn [andb].
  destruct (all_infos_equal _) eqn:Heq; [|reflexivity].
  unfold all_infos_equal in Heq. cbn [filter ev_is_query fst is_store_info] in Heq.
  rewrite forallb_forall in Heq.
  assert (H2 : disc_eqb d2 d0 = true).
  { apply (Heq (EStoreInfo, AInfo d2)). apply filter_In. split; [|reflexivity]. apply in_or_app. right. left. reflexivity. }
  assert (H3 : disc_eqb d3 d0 = true).
  { apply (Heq (EStoreInfo, AInfo d3)). apply filter_In. split; [|reflexivity]. apply in_or_app. right. right. right. left. reflexivity. }
  assert (d2 = d3) as -> by (destruct d0, d2, d3; try discriminate; reflexivity).
  rewrite Huh. destruct (is_discoverable d3 rk); reflexivity.
Qed.

Theorem c11_reg_judge_model c domain origin q cd script :
  c11_reg_judge q (store_events (fst (interp (register c domain origin q cd) script)))
                  (snd (interp (register c domain origin q cd) script)) = true.
Proof.
  pose proof (register_refusal c domain origin q cd script) as REF.
  pose proof (register_cred_props_general c domain origin q cd script) as OKG.
  destruct (interp (register c domain origin q cd) script) as [tr res] eqn:E. cbn [fst snd] in *.
  destruct (register_run _ _ _ _ _ _ _ _ E) as [(Hinfo & Hnok & Hcnt)|(d0 & uv & up & rpid & ctap_ext & s_mc & tr_mc & r_mc & tr_fin & Htr & _ & Emc & Hfin)].
  { apply wnot_ok_b in Hnok. destruct (info_store_events _ Hinfo Hcnt) as [->|[a ->]]; unfold c11_reg_judge.
    - exact Hnok.
    - destruct a; try exact Hnok. rewrite map_rk_is_spec. cbn [saves_follow andb].
      destruct res as [[cr|e]|]; [discriminate Hnok| |]; destruct (map_rk _ _ && _); reflexivity. }
  assert (Hevs : store_events tr = (EStoreInfo, AInfo d0) :: store_events tr_mc ++ store_events tr_fin).
  { rewrite Htr, !filter_app, store_events_info. reflexivity. }
  assert (FINNS : existsb ev_is_save (store_events tr_fin) = false).
  { apply foi_no_save. destruct r_mc as [[resp|s]|].
    - destruct Hfin as [s_fin Efin]. apply (store_events_fin _ _ _ _ _ _ _ _ Efin).
    - destruct Hfin as [_ ->]. constructor.
    - destruct Hfin as [_ ->]. constructor. }
  pose proof (make_credential_store_all c (reg_ctap_request rpid origin q cd (info_of c d0 uv up) ctap_ext) s_mc) as J.
  rewrite Emc in J. cbn [fst snd] in J.
  unfold c11_reg_judge. rewrite Hevs, map_rk_is_spec. rewrite <- Hevs.
  set (rk := map_rk (rq_selection q) (rk_capable d0)) in *.
  apply andb_true_iff. split; [apply andb_true_iff; split|].
  - rewrite (saves_follow_app _ _ _ FINNS). exact (j_make_saves_follow _ _ _ _ (Some d0) J).
  - destruct rk eqn:Hrk; [|reflexivity]. destruct (forallb ev_only_non (store_events tr)) eqn:Hon; [|reflexivity]. cbn [andb].
    assert (Hd0 : d0 = OnlyNonDiscoverable).
    { assert (H : AInfo d0 = AInfo OnlyNonDiscoverable) by (apply (only_non_constant _ Hon); rewrite Hevs; left; reflexivity). congruence. }
    destruct REF as (Rmut & Rnok & Rref).
    { rewrite map_rk_is_spec. f_equal. subst d0. exact Hrk. }
    { intros a Hin. apply (only_non_constant _ Hon). apply filter_In. split; [exact Hin|reflexivity]. }
    rewrite (no_mutation_no_save _ Rmut), (wnot_ok_b _ Rnok). cbn [negb andb].
    rewrite queries_store_events.
    destruct (2 <=? store_queries tr)%nat eqn:Hc; [|reflexivity]. apply Nat.leb_le in Hc.
    destruct (Rref Hc) as [->| ->]; reflexivity.
  - destruct res as [[cr|e]|]; try reflexivity.
    destruct (OKG cr eq_refl) as (d0' & mid & d2 & p & u & rp & o & d3 & rk' & Hshape & Fmid & Hrk' & _ & Huh & Hid & Hcp).
    rewrite Hshape. rewrite Hshape in Hevs. injection Hevs as -> _.
    rewrite map_rk_is_spec in Hrk'. injection Hrk' as <-. fold rk.
    apply reg_ok_check_shape; assumption.
Qed.

(** *** 6. The judgements as oracles on the implementation's observations (case types of
    Auth/CeremonyCheck.v and Auth/ClientCheck.v): call log and result of the real run, no model *)
From PK Require Import Auth.ClientCheck.

Definition c11_ok (cs : ccase) : bool :=
  match cs with
  | CMake c q log _ _ impl => c11_mc_judge q (store_events log) (outcome_result mo_fields impl)
  | CGet c q log _ _ impl => c11_ga_judge (store_events log) (outcome_result go_fields impl)
  | CInfo c log impl =>
      match log with
      | (EStoreInfo, AInfo d) :: _ => Bool.eqb (i_rk impl) (rk_capable d)
      | _ => false
      end
  end.

Definition c11_wok (cs : wcase) : bool :=
  match cs with
  | CRegister c domain origin q cd log _ impl => c11_reg_judge q (store_events log) (Some impl)
  | CAuthenticate c domain origin q cd log _ impl => c11_auth_judge (store_events log) (Some impl)
  end.
