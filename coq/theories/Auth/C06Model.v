(** C06, executable part (no proofs):
    - the model of [impl Debug for Passkey] (passkey-types/src/passkey.rs): what [{:?}] and [{:#?}]
      print, as a function of the two PUBLIC fields it reads (the COSE key type label and the counter);
    - the case type and the correspondence check that tie this model to the implementation
      (harness/src/bin/leak.rs).  (The U2F programs are those of Auth/U2f.v, tied by Auth/U2fCheck.v.) *)
From Coq Require Import String Ascii.
From PK Require Import Lib.Check.
From PK Require Export Auth.Replay.
Open Scope N_scope.

Definition asc (s : string) : bytes := map N_of_ascii (list_ascii_of_string s).

(** decimal rendering of an unsigned integer ([u32] needs 10 digits) *)
Fixpoint dec_digits (fuel : nat) (n : N) (acc : bytes) : bytes :=
  match fuel with
  | O => acc
  | S f => let acc' := (48 + n mod 10) :: acc in
           if n <? 10 then acc' else dec_digits f (n / 10) acc'
  end.
Definition dec (n : N) : bytes := dec_digits 20 n [].

(** [Debug for RegisteredLabel<iana::KeyType>] for the two key types the harness builds: the model's
    [k_ec2] flag is "the kty label is EC2"; stored keys of another type are built as OKP *)
Definition kty_name (ec2 : bool) : bytes := if ec2 then asc "EC2" else asc "OKP".

(** [format!("{:?}", passkey)]:
    [f.debug_struct("Passkey").field("key_type", &self.key.kty).field("counter", &self.counter).finish()] *)
Definition debug_plain (ec2 : bool) (counter : option N) : bytes :=
  asc "Passkey { key_type: Assigned(" ++ kty_name ec2 ++ asc "), counter: "
  ++ match counter with
     | None => asc "None"
     | Some n => asc "Some(" ++ dec n ++ asc ")"
     end
  ++ asc " }".

Definition NL : bytes := [10].
Definition IND : bytes := asc "    ".

(** [format!("{:#?}", passkey)] *)
Definition debug_pretty (ec2 : bool) (counter : option N) : bytes :=
  asc "Passkey {" ++ NL
  ++ IND ++ asc "key_type: Assigned(" ++ NL
  ++ IND ++ IND ++ kty_name ec2 ++ asc "," ++ NL
  ++ IND ++ asc ")," ++ NL
  ++ match counter with
     | None => IND ++ asc "counter: None," ++ NL
     | Some n => IND ++ asc "counter: Some(" ++ NL ++ IND ++ IND ++ dec n ++ asc "," ++ NL ++ IND ++ asc ")," ++ NL
     end
  ++ asc "}".

(** the rendering of a stored passkey: reads the key-type flag and the counter, nothing else *)
Definition debug_passkey (p : passkey) : bytes := debug_plain (k_ec2 (pk_key p)) (pk_counter p).
Definition debug_passkey_pretty (p : passkey) : bytes := debug_pretty (k_ec2 (pk_key p)) (pk_counter p).

(** *** cases *)
Inductive c06case :=
| CDebug (p : passkey) (plain pretty : bytes).

Definition c06_agree (cs : c06case) : bool :=
  match cs with
  | CDebug p plain pretty => beq (debug_passkey p) plain && beq (debug_passkey_pretty p) pretty
  end.
