(** Executable model of passkey-authenticator/src/u2f.rs: [<Authenticator as U2fApi>::register] and
    [::authenticate], in source order, as programs over the effect signature of Auth/Prog.v, and
    [Passkey::wrap_u2f_registration_request] / [from_u2f_register_response] (passkey-types/src/passkey.rs).
    The response records and their byte encodings are those of Wire/U2fWire.v. *)
From PK Require Import Lib.Base64.
From PK Require Export Wire.U2fWire.
From PK Require Export Auth.Authenticator.     (* after U2fWire: [Ok]/[Err] are those of [result] *)
Open Scope N_scope.

(** [String::from(Bytes::from(application.to_vec()))]: unpadded base64url text of the application
    parameter - the RP ID under which a U2F credential is stored and looked up *)
Definition u2f_rp_id (application : bytes) : bytes := b64url_encode application.

(** the byte strings that are signed *)
Definition u2f_register_target (application challenge handle x y : bytes) : bytes :=
  [0] ++ application ++ challenge ++ handle ++ public_key_encode (PubKey x y).
Definition u2f_authenticate_target (application : bytes) (presence counter : N) (challenge : bytes) : bytes :=
  application ++ [presence] ++ be32 counter ++ challenge.

(** [Passkey::from_u2f_register_response] with the private COSE key of [CoseKeyPair::from_secret_key(.., ES256)] *)
Definition u2f_passkey (application handle d x y : bytes) : passkey :=
  {| pk_key := {| k_es256 := true; k_ec2 := true; k_d := Some d; k_x := x; k_y := y |};
     pk_cred_id := handle;
     pk_rp_id := u2f_rp_id application;
     pk_user_handle := None;
     pk_counter := Some 0;
     pk_hmac := None |}.

Definition U2F_OPTIONS : options := {| o_rk := false; o_up := false; o_uv := false |}.

(** [U2fApi::register]: key pair, signature over the registration target, then the only store call *)
Definition u2f_register (application challenge handle : bytes) : prog (result register_response N) :=
  kp <- keygen ;;
  let '(d, x, y) := kp in
  sg <- sign d (u2f_register_target application challenge handle x y) ;;
  let response := RegResp (PubKey x y) handle [] sg in
  s <- save (u2f_passkey application handle d x y)
            {| u_id := handle; u_name := None; u_display := None |}
            {| rp_id := u2f_rp_id application; rp_name := None |}
            U2F_OPTIONS ;;
  match s with
  | Ok _ => Ret (Ok response)
  | Err _ => Ret (Err U2F_Other)
  end.

(** [U2fApi::authenticate]: lookup by key handle and application, first result, its private key, signature;
    no user check and no counter update (presence flags and counter are the caller's arguments) *)
Definition u2f_authenticate (application challenge key_handle : bytes) (counter presence : N)
  : prog (result authentication_response N) :=
  r <- find_creds (Some [key_handle]) (u2f_rp_id application) ;;
  match r with
  | Err _ => Ret (Err U2F_Other)
  | Ok [] => Ret (Err U2F_Other)
  | Ok (cred :: _) =>
      match private_key (pk_key cred) with
      | Err _ => Ret (Err U2F_Other)
      | Ok d =>
          sg <- sign d (u2f_authenticate_target application presence counter challenge) ;;
          Ret (Ok (AuthResp presence counter sg))
      end
  end.
