(** Programs over the effect signature of passkey-authenticator / passkey-client.

    External effects are the calls into the two user-supplied traits ([CredentialStore],
    [UserValidationMethod]); each [.await] on a trait object in the Rust code is exactly one of them
    ([EVerifEnabled]/[EPresenceEnabled] are synchronous trait calls).  Internal events ([ERand],
    [EKeyGen], [ESign], [EHmac]) are not awaits: they make randomness and the two cryptographic
    primitives explicit inputs, so that the model never computes with a secret - it only moves
    secrets into the arguments of [ESave]/[EUpdate]/[ESign]/[EHmac]. *)
From PK Require Export Lib.Bytes Auth.Scalar.
From Coq Require Export ZArith.
Open Scope N_scope.

Inductive result (A E : Type) := Ok (a : A) | Err (e : E).
Arguments Ok {A E} a.
Arguments Err {A E} e.

(** a stored private key as the ceremonies see it ([private_key_from_cose_key]): the algorithm and
    key-type labels of the COSE key and the scalar [d] when present and well formed *)
Record keymat := { k_es256 : bool; k_ec2 : bool; k_d : option bytes; k_x : bytes; k_y : bytes }.

Record passkey := {
  pk_key : keymat;
  pk_cred_id : bytes;
  pk_rp_id : bytes;                       (* UTF-8 bytes of the RP ID string *)
  pk_user_handle : option bytes;
  pk_counter : option N;
  pk_hmac : option (bytes * option bytes) (* cred_with_uv, cred_without_uv *)
}.

Record user_entity := { u_id : bytes; u_name : option bytes; u_display : option bytes }.
Record rp_entity := { rp_id : bytes; rp_name : option bytes }.
Record options := { o_rk : bool; o_up : bool; o_uv : bool }.

Inductive discoverability := Full | OnlyNonDiscoverable | ForcedDiscoverable.

Inductive eff :=
| EFind (ids : option (list bytes)) (rp : bytes)
| ESave (p : passkey) (u : user_entity) (rp : rp_entity) (o : options)
| EUpdate (p : passkey)
| EStoreInfo
| EVerifEnabled
| EPresenceEnabled
| ECheckUser (cred : option passkey) (up uv : bool)
| ERand (n : N)
| EKeyGen
| ESign (key : bytes) (msg : bytes)
| EHmac (key : bytes) (salt : bytes).

Inductive answer :=
| AFind (r : result (list passkey) N)
| AUnit (r : result unit N)
| AInfo (d : discoverability)
| AOptBool (o : option bool)
| ABool (b : bool)
| ACheck (r : result (bool * bool) N)     (* presence, verification *)
| ABytes (b : bytes)
| AKey (d x y : bytes).

Inductive prog (R : Type) :=
| Ret (r : R)
| Call (e : eff) (k : answer -> prog R)
| Stuck.
Arguments Ret {R} r.
Arguments Call {R} e k.
Arguments Stuck {R}.

Fixpoint bind {A B} (p : prog A) (f : A -> prog B) : prog B :=
  match p with
  | Ret a => f a
  | Call e k => Call e (fun x => bind (k x) f)
  | Stuck => Stuck
  end.

Notation "x <- p ;; q" := (bind p (fun x => q)) (at level 61, p at next level, right associativity).

(** typed calls: an answer of the wrong shape is [Stuck] *)
Definition find_creds (ids : option (list bytes)) (rp : bytes) : prog (result (list passkey) N) :=
  Call (EFind ids rp) (fun a => match a with AFind r => Ret r | _ => Stuck end).
Definition save p u rp o : prog (result unit N) :=
  Call (ESave p u rp o) (fun a => match a with AUnit r => Ret r | _ => Stuck end).
Definition update p : prog (result unit N) :=
  Call (EUpdate p) (fun a => match a with AUnit r => Ret r | _ => Stuck end).
Definition store_info : prog discoverability :=
  Call EStoreInfo (fun a => match a with AInfo d => Ret d | _ => Stuck end).
Definition verif_enabled : prog (option bool) :=
  Call EVerifEnabled (fun a => match a with AOptBool o => Ret o | _ => Stuck end).
Definition presence_enabled : prog bool :=
  Call EPresenceEnabled (fun a => match a with ABool b => Ret b | _ => Stuck end).
Definition ask_user cred up uv : prog (result (bool * bool) N) :=
  Call (ECheckUser cred up uv) (fun a => match a with ACheck r => Ret r | _ => Stuck end).
Definition rand (n : N) : prog bytes :=
  Call (ERand n) (fun a => match a with ABytes b => Ret b | _ => Stuck end).
Definition keygen : prog (bytes * bytes * bytes) :=
  Call EKeyGen (fun a => match a with AKey d x y => Ret (d, x, y) | _ => Stuck end).
Definition sign key msg : prog bytes :=
  Call (ESign key msg) (fun a => match a with ABytes b => Ret b | _ => Stuck end).
Definition hmac key salt : prog bytes :=
  Call (EHmac key salt) (fun a => match a with ABytes b => Ret b | _ => Stuck end).

(** does this effect suspend the ceremony (an [.await] on a trait object)? *)
Definition suspends (e : eff) : bool :=
  match e with
  | EFind _ _ | ESave _ _ _ _ | EUpdate _ | EStoreInfo | ECheckUser _ _ _ => true
  | _ => false
  end.

Definition mutates (e : eff) : bool :=
  match e with ESave _ _ _ _ | EUpdate _ => true | _ => false end.

(** *** Running a program against a script of answers.
    The trace is the list of calls made with the answers received.  [None] as result means the
    script ran out (the ceremony was cut there: cancellation) or an answer had the wrong shape. *)
Definition trace := list (eff * answer).

Fixpoint interp {R} (p : prog R) (script : list answer) : trace * option R :=
  match p with
  | Ret r => ([], Some r)
  | Stuck => ([], None)
  | Call e k =>
      match script with
      | [] => ([], None)
      | a :: script' =>
          let '(tr, r) := interp (k a) script' in ((e, a) :: tr, r)
      end
  end.
