(** Several ceremonies on one shared store (the lock wrappers hold the lock for exactly one store
    call, so a store call is one atomic step; the user check touches no shared state), interleaved by
    an arbitrary schedule. *)
From PK Require Export Auth.History.
Open Scope N_scope.

(** one ceremony in flight: what is left of its program and of the script answering its own
    (non-store) effects *)
Record task (R : Type) := { t_prog : prog R; t_script : list answer }.
Arguments t_prog {R}. Arguments t_script {R}.

(** the task performs its next call (atomically) *)
Definition task_step {R} (t : task R) (st : content) (d : discoverability) : task R * content :=
  match t_prog t with
  | Ret _ | Stuck => (t, st)
  | Call e k =>
      match e with
      | EFind ids rp => ({| t_prog := k (AFind (ref_find st ids rp)); t_script := t_script t |}, st)
      | ESave p _ _ _ | EUpdate p => ({| t_prog := k (AUnit (Ok tt)); t_script := t_script t |}, put st p)
      | EStoreInfo => ({| t_prog := k (AInfo d); t_script := t_script t |}, st)
      | _ => match t_script t with
             | [] => ({| t_prog := Stuck; t_script := [] |}, st)       (* script exhausted: cancelled *)
             | a :: s' => ({| t_prog := k a; t_script := s' |}, st)
             end
      end
  end.

Definition finished {R} (t : task R) : bool := match t_prog t with Call _ _ => false | _ => true end.

Fixpoint set_nth {A} (i : nat) (x : A) (l : list A) : list A :=
  match l, i with
  | [], _ => []
  | _ :: r, O => x :: r
  | y :: r, S j => y :: set_nth j x r
  end.

(** run a schedule: entry i = which task performs its next call *)
Fixpoint run_sched {R} (sched : list nat) (ts : list (task R)) (st : content) (d : discoverability)
  : list (task R) * content :=
  match sched with
  | [] => (ts, st)
  | i :: rest =>
      match nth_error ts i with
      | None => run_sched rest ts st d
      | Some t => let '(t', st') := task_step t st d in run_sched rest (set_nth i t' ts) st' d
      end
  end.

(** *** progress: an unfinished task can always take its step (there is nothing to wait for in the
    ceremony logic: no step is ever blocked on another ceremony) *)
(** whatever the shared store holds and whatever the other ceremonies did, an unfinished ceremony's
    next step is defined and consumes its pending call *)
Lemma task_step_advances {R} (t : task R) st d e k :
  t_prog t = Call e k ->
  exists a, t_prog (fst (task_step t st d)) = k a \/ t_prog (fst (task_step t st d)) = Stuck.
Proof.
  intros H. unfold task_step. rewrite H.
  destruct e; try (destruct (t_script t) as [|a s']; [exists (ABool true); right; reflexivity|exists a; left; reflexivity]);
    eexists; left; reflexivity.
Qed.

(** *** no credential is lost: the set of credential ids in the store only grows, whatever the
    schedule, and a save puts its id there *)
Definition ids (st : content) : list bytes := map pk_cred_id st.

Lemma put_keeps_ids st p id : In id (ids st) -> In id (ids (put st p)).
Proof.
  unfold ids. rewrite put_ids. destruct (existsb _ _); [auto|]. intros H. apply in_or_app. left. exact H.
Qed.

Lemma put_has_id st p : In (pk_cred_id p) (ids (put st p)).
Proof.
  unfold ids. rewrite put_ids. destruct (existsb (beq (pk_cred_id p)) (map pk_cred_id st)) eqn:E.
  - apply existsb_beq_In. exact E.
  - apply in_or_app. right. left. reflexivity.
Qed.

Lemma task_step_ids {R} (t : task R) st d id : In id (ids st) -> In id (ids (snd (task_step t st d))).
Proof.
  unfold task_step. destruct (t_prog t) as [r|e k|]; cbn [snd]; auto.
  destruct e; cbn [snd]; auto; try (apply put_keeps_ids); try (destruct (t_script t); cbn [snd]; auto).
Qed.

Theorem sched_ids_monotone {R} sched : forall (ts : list (task R)) st d id,
  In id (ids st) -> In id (ids (snd (run_sched sched ts st d))).
Proof.
  induction sched as [|i rest IH]; intros ts st d id H; cbn [run_sched]; [exact H|].
  destruct (nth_error ts i) as [t|]; [|apply IH; exact H].
  destruct (task_step t st d) as [t' st'] eqn:E. apply IH.
  change st' with (snd (t', st')). rewrite <- E. apply task_step_ids. exact H.
Qed.

(** the step at which a task saves passkey [p] leaves [p]'s id in the store; by monotonicity it is
    still there after any continuation of the schedule *)
Theorem save_is_never_lost {R} (t : task R) st d p u rp o k rest (ts : list (task R)) :
  t_prog t = Call (ESave p u rp o) k ->
  In (pk_cred_id p) (ids (snd (run_sched rest ts (snd (task_step t st d)) d))).
Proof.
  intros H. apply sched_ids_monotone. unfold task_step. rewrite H. cbn [snd]. apply put_has_id.
Qed.

(** *** a schedule that runs the ceremonies one after the other is a history (C08's theorems apply) *)
Fixpoint run_task {R} (fuel : nat) (t : task R) (st : content) (d : discoverability) : task R * content :=
  match fuel with
  | O => (t, st)
  | S n => if finished t then (t, st) else let '(t', st') := task_step t st d in run_task n t' st' d
  end.

(** *** the known class: two assertions on one credential whose lookup-to-update windows overlap
    both report the same counter (the lookup and the counter update are separate store calls with the
    user check between them) *)
Section Overlap.
Variable ad_bytes : auth_data -> bytes.

Definition cfg0 : config := {| c_aaguid := []; c_algs := [ES256]; c_counter := true; c_id_len := 16; c_hmac := None |}.
Definition cred7 : passkey :=
  {| pk_key := {| k_es256 := true; k_ec2 := true; k_d := Some [1]; k_x := [2]; k_y := [3] |};
     pk_cred_id := [9]; pk_rp_id := [97]; pk_user_handle := None; pk_counter := Some 7; pk_hmac := None |}.
Definition req0 : ga_request :=
  {| ga_rp_id := [97]; ga_cdh := []; ga_allow := Some [[9]]; ga_ext := None;
     ga_opts := {| o_rk := false; o_up := true; o_uv := false |}; ga_pin_auth := false |}.
Definition assert_task : task (result ga_response N) :=
  {| t_prog := get_assertion ad_bytes cfg0 req0; t_script := [ACheck (Ok (true, false)); ABytes [5]] |}.

Definition reported (t : task (result ga_response N)) : option (option N) :=
  match t_prog t with Ret (Ok r) => Some (ad_counter (gr_auth_data r)) | _ => None end.

(** lookup A, lookup B, then both run to the end: both report 8 and the store holds 8 *)
Theorem overlap_reuses_counter :
  let '(ts, st) := run_sched [0; 1; 0; 1; 0; 1; 0; 1]%nat [assert_task; assert_task] [cred7] Full in
  map reported ts = [Some (Some 8); Some (Some 8)] /\ stored_counter st [9] = Some 8.
Proof. vm_compute. split; reflexivity. Qed.

(** one after the other they report 8 and 9 *)
Theorem serial_is_distinct :
  let '(ts, st) := run_sched [0; 0; 0; 0; 1; 1; 1; 1]%nat [assert_task; assert_task] [cred7] Full in
  map reported ts = [Some (Some 8); Some (Some 9)] /\ stored_counter st [9] = Some 9.
Proof. vm_compute. split; reflexivity. Qed.
End Overlap.
