(** Which effects each sub-program of the authenticator model can perform (for any answers). *)
From PK Require Export Auth.Monitor Auth.Authenticator.
Open Scope N_scope.

Definition is_rand_or_hmac (e : eff) : bool := match e with ERand _ | EHmac _ _ => true | _ => false end.
Definition is_hmac (e : eff) : bool := match e with EHmac _ _ => true | _ => false end.
Definition is_info (e : eff) : bool :=
  match e with EStoreInfo | EVerifEnabled | EPresenceEnabled => true | _ => false end.

Ltac typed_calls :=
  unfold find_creds, save, update, store_info, verif_enabled, presence_enabled, ask_user, rand, keygen, sign, hmac.

(** walk a program for an [only] goal: state free, so sequencing adds instead of multiplying *)
Ltac only_walk :=
  repeat first
  [ progress cbn [only bind]
  | match goal with
    | |- True => exact I
    | |- _ /\ _ => split
    | |- _ = true => reflexivity
    | |- forall _, _ => intro
    | |- only _ (bind _ _) => apply only_bind
    | |- only _ (match ?x with _ => _ end) => destruct x
    | |- only _ (if ?b then _ else _) => destruct b
    | |- only _ (let '(_, _) := ?x in _) => destruct x
    end ].

Lemma calculate_hmac_only creds salts hc uv : only is_hmac (calculate_hmac_secret creds salts hc uv).
Proof. unfold calculate_hmac_secret. typed_calls. only_walk. Qed.

Lemma make_hmac_secret_only c r : only is_rand_or_hmac (make_hmac_secret c r).
Proof. unfold make_hmac_secret. typed_calls. only_walk. Qed.

Lemma is_hmac_rand e : is_hmac e = true -> is_rand_or_hmac e = true.
Proof. destruct e; cbn; auto. Qed.

Lemma make_prf_only c ext rq uv : only is_rand_or_hmac (make_prf c ext rq uv).
Proof.
  unfold make_prf. destruct (c_hmac c); [|exact I]. destruct ext; [|exact I].
  destruct (if h_on_mc h then pi_eval rq else None); [|exact I].
  apply only_bind; [eapply only_weaken; [apply is_hmac_rand|apply calculate_hmac_only]|].
  intros [v|e]; exact I.
Qed.

Lemma make_extensions_only c rq uv : only is_rand_or_hmac (make_extensions c rq uv).
Proof.
  unfold make_extensions. apply only_bind; [apply make_hmac_secret_only|].
  intros hs. destruct (opt_bind (opt_bind rq mc_ext_zip) me_prf); [|exact I].
  apply only_bind; [apply make_prf_only|]. intros [o|e]; exact I.
Qed.

Lemma get_prf_only c cid ext salts uv : only is_rand_or_hmac (get_prf c cid ext salts uv).
Proof.
  unfold get_prf. destruct (c_hmac c); [|exact I]. destruct ext; [|exact I].
  destruct (select_salts cid salts); [|exact I].
  apply only_bind; [eapply only_weaken; [apply is_hmac_rand|apply calculate_hmac_only]|].
  intros [v|e]; exact I.
Qed.

Lemma get_extensions_only c pk rq uv : only is_rand_or_hmac (get_extensions c pk rq uv).
Proof.
  unfold get_extensions. destruct (opt_bind rq ga_ext_zip); [|exact I].
  destruct (ge_prf g); [|exact I]. apply get_prf_only.
Qed.

Lemma get_info_only c : only is_info (get_info c).
Proof. unfold get_info. typed_calls. only_walk. Qed.

(** *** the same facts for any class of allowed effects that contains the sub-program's own *)
Definition incl_class (small big : eff -> bool) : Prop := forall e, small e = true -> big e = true.

Definition is_rand (e : eff) : bool := match e with ERand _ => true | _ => false end.
Definition is_keygen (e : eff) : bool := match e with EKeyGen => true | _ => false end.
Definition is_sign (e : eff) : bool := match e with ESign _ _ => true | _ => false end.
Definition is_find (e : eff) : bool := match e with EFind _ _ => true | _ => false end.
Definition is_save (e : eff) : bool := match e with ESave _ _ _ _ => true | _ => false end.
Definition is_update (e : eff) : bool := match e with EUpdate _ => true | _ => false end.
Definition is_store_info (e : eff) : bool := match e with EStoreInfo => true | _ => false end.
Definition is_user (e : eff) : bool := match e with EVerifEnabled | ECheckUser _ _ _ => true | _ => false end.

Definition is_verif (e : eff) : bool := match e with EVerifEnabled => true | _ => false end.
Definition is_presence (e : eff) : bool := match e with EPresenceEnabled => true | _ => false end.
Definition is_hmac_ev (e : eff) : bool := match e with EHmac _ _ => true | _ => false end.

Section Classes.
Variable allowed : eff -> bool.

Lemma only_verif : incl_class is_verif allowed -> only allowed verif_enabled.
Proof. intros H. unfold verif_enabled. cbn [only]. split; [apply H; reflexivity|intros []; exact I]. Qed.
Lemma only_presence : incl_class is_presence allowed -> only allowed presence_enabled.
Proof. intros H. unfold presence_enabled. cbn [only]. split; [apply H; reflexivity|intros []; exact I]. Qed.
Lemma only_hmac k m : incl_class is_hmac_ev allowed -> only allowed (hmac k m).
Proof. intros H. unfold hmac. cbn [only]. split; [apply H; reflexivity|intros []; exact I]. Qed.

Lemma only_rand n : incl_class is_rand allowed -> only allowed (rand n).
Proof. intros H. unfold rand. cbn [only]. split; [apply H; reflexivity|intros []; exact I]. Qed.
Lemma only_keygen : incl_class is_keygen allowed -> only allowed keygen.
Proof. intros H. unfold keygen. cbn [only]. split; [apply H; reflexivity|intros []; exact I]. Qed.
Lemma only_sign k m : incl_class is_sign allowed -> only allowed (sign k m).
Proof. intros H. unfold sign. cbn [only]. split; [apply H; reflexivity|intros []; exact I]. Qed.
Lemma only_find ids rp : incl_class is_find allowed -> only allowed (find_creds ids rp).
Proof. intros H. unfold find_creds. cbn [only]. split; [apply H; reflexivity|intros []; exact I]. Qed.
Lemma only_save p u rp o : incl_class is_save allowed -> only allowed (save p u rp o).
Proof. intros H. unfold save. cbn [only]. split; [apply H; reflexivity|intros []; exact I]. Qed.
Lemma only_update p : incl_class is_update allowed -> only allowed (update p).
Proof. intros H. unfold update. cbn [only]. split; [apply H; reflexivity|intros []; exact I]. Qed.
Lemma only_store_info : incl_class is_store_info allowed -> only allowed store_info.
Proof. intros H. unfold store_info. cbn [only]. split; [apply H; reflexivity|intros []; exact I]. Qed.
Lemma only_get_info c : incl_class is_info allowed -> only allowed (get_info c).
Proof. intros H. eapply only_weaken; [exact H|apply get_info_only]. Qed.
Lemma only_make_extensions c rq uv : incl_class is_rand_or_hmac allowed -> only allowed (make_extensions c rq uv).
Proof. intros H. eapply only_weaken; [exact H|apply make_extensions_only]. Qed.
Lemma only_get_extensions c pk rq uv : incl_class is_rand_or_hmac allowed -> only allowed (get_extensions c pk rq uv).
Proof. intros H. eapply only_weaken; [exact H|apply get_extensions_only]. Qed.
Lemma only_check_user o cred : incl_class is_user allowed -> only allowed (check_user o cred).
Proof.
  intros H. assert (only is_user (check_user o cred)).
  { unfold check_user. typed_calls. only_walk. }
  eapply only_weaken; [exact H|assumption].
Qed.
End Classes.

(** decide a class inclusion between two boolean classes defined by pattern matching *)
Ltac incl := let e := fresh "e" in intros e; destruct e; cbn; (reflexivity || discriminate || auto).

(** prove [only allowed seg] for the standard segments *)
Ltac only_seg :=
  first [ apply only_rand; incl | apply only_keygen; incl | apply only_sign; incl | apply only_find; incl
        | apply only_save; incl | apply only_update; incl | apply only_store_info; incl
        | apply only_get_info; incl | apply only_make_extensions; incl | apply only_get_extensions; incl
        | apply only_check_user; incl | apply only_verif; incl | apply only_presence; incl | apply only_hmac; incl ].
