(** Which effects each sub-program of the authenticator model can perform (for any answers). *)
From PK Require Export Auth.Monitor Auth.Authenticator.
Open Scope N_scope.

Definition is_rand_or_hmac (e : eff) : bool := match e with ERand _ | EHmac _ _ => true | _ => false end.
Definition is_hmac (e : eff) : bool := match e with EHmac _ _ => true | _ => false end.
Definition is_info (e : eff) : bool :=
  match e with EStoreInfo | EVerifEnabled | EPresenceEnabled => true | _ => false end.

Ltac typed_calls :=
  unfold find_creds, save, update, store_info, verif_enabled, presence_enabled, ask_user, rand, keygen, sign, hmac.

(** walk a program for an [only] goal: state free, so sequencing adds instead of multiplying *)
Ltac only_walk :=
  repeat first
  [ progress cbn [only bind]
  | match goal with
    | |- True => exact I
    | |- _ /\ _ => split
    | |- _ = true => reflexivity
    | |- forall _, _ => intro
    | |- only _ (bind _ _) => apply only_bind
    | |- only _ (match ?x with _ => _ end) => destruct x
    | |- only _ (if ?b then _ else _) => destruct b
    | |- only _ (let '(_, _) := ?x in _) => destruct x
    end ].

Lemma calculate_hmac_only creds salts hc uv : only is_hmac (calculate_hmac_secret creds salts hc uv).
Proof. unfold calculate_hmac_secret. typed_calls. only_walk. Qed.

Lemma make_hmac_secret_only c r : only is_rand_or_hmac (make_hmac_secret c r).
Proof. unfold make_hmac_secret. typed_calls. only_walk. Qed.

Lemma is_hmac_rand e : is_hmac e = true -> is_rand_or_hmac e = true.
Proof. destruct e; cbn; auto. Qed.

Lemma make_prf_only c ext rq uv : only is_rand_or_hmac (make_prf c ext rq uv).
Proof.
  unfold make_prf. destruct (c_hmac c); [|exact I]. destruct ext; [|exact I].
  destruct (if h_on_mc h then pi_eval rq else None); [|exact I].
  apply only_bind; [eapply only_weaken; [apply is_hmac_rand|apply calculate_hmac_only]|].
  intros [v|e]; exact I.
Qed.

Lemma make_extensions_only c rq uv : only is_rand_or_hmac (make_extensions c rq uv).
Proof.
  unfold make_extensions. apply only_bind; [apply make_hmac_secret_only|].
  intros hs. destruct (opt_bind (opt_bind rq mc_ext_zip) me_prf); [|exact I].
  apply only_bind; [apply make_prf_only|]. intros [o|e]; exact I.
Qed.

Lemma get_prf_only c cid ext salts uv : only is_rand_or_hmac (get_prf c cid ext salts uv).
Proof.
  unfold get_prf. destruct (c_hmac c); [|exact I]. destruct ext; [|exact I].
  destruct (select_salts cid salts); [|exact I].
  apply only_bind; [eapply only_weaken; [apply is_hmac_rand|apply calculate_hmac_only]|].
  intros [v|e]; exact I.
Qed.

Lemma get_extensions_only c pk rq uv : only is_rand_or_hmac (get_extensions c pk rq uv).
Proof.
  unfold get_extensions. destruct (opt_bind rq ga_ext_zip); [|exact I].
  destruct (ge_prf g); [|exact I]. apply get_prf_only.
Qed.

Lemma get_info_only c : only is_info (get_info c).
Proof. unfold get_info. typed_calls. only_walk. Qed.
