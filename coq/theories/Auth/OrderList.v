(** Order questions about a list of marks (the source skeletons the translators generate). *)
From Coq Require Export String List Arith.
Export ListNotations.
Open Scope string_scope.
Open Scope list_scope.

Fixpoint first_pos (s : string) (l : list string) : option nat :=
  match l with
  | [] => None
  | x :: r => if x =? s then Some 0%nat else option_map S (first_pos s r)
  end.
(** the first mention of [a] comes before the first mention of [b] *)
Definition before (a b : string) (l : list string) : bool :=
  match first_pos a l, first_pos b l with
  | Some i, Some j => Nat.ltb i j
  | _, _ => false
  end.

