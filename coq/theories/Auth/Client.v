(** Executable model of passkey-client: [Client::register] and [Client::authenticate]
    (passkey-client/src/lib.rs), the extension mapping of extensions.rs / extensions/prf.rs and
    [map_rk], in source order, as programs over the same effect signature as the authenticator.
    The outcome of [RpIdVerifier::assert_domain] (modelled and proved in RpId/) and the display form of
    the origin (the [url] crate) are inputs. *)
From PK Require Import Lib.Base64 Lib.Sha256 Lib.Cbor.
From PK Require Export Auth.Replay.
Open Scope N_scope.

Inductive werr :=
| WCredentialIdTooLong | WOriginMissingDomain | WOriginRpMissmatch | WUnprotectedOrigin
| WInsecureLocalhostNotAllowed | WCredentialNotFound | WInvalidRpId | WAuthenticatorError (b : N)
| WNotSupportedError | WSyntaxError | WValidationError.

Inductive rk_req := RkDiscouraged | RkPreferred | RkRequired.
Inductive uv_req := UvRequired | UvPreferred | UvDiscouraged.
Record selection := { sel_rk : option rk_req; sel_require_rk : bool; sel_uv : uv_req }.

(** WebAuthn-level PRF inputs: values of any length; per-credential keys are the strings of the
    request (base64url text) *)
Record wprf_values := { wv_first : bytes; wv_second : option bytes }.
Record wprf_inputs := { wp_eval : option wprf_values; wp_by_cred : option (list (bytes * wprf_values)) }.
Record wext := { we_cred_props : option bool; we_prf : option wprf_inputs; we_prf_hashed : option wprf_inputs }.

Record reg_request := {
  rq_rp_id : option bytes; rq_rp_name : bytes; rq_user : user_entity; rq_challenge : bytes;
  rq_params : list Z; rq_exclude : option (list bytes); rq_selection : option selection;
  rq_ext : option wext }.

Record auth_request := {
  aq_rp_id : option bytes; aq_challenge : bytes; aq_allow : option (list bytes);
  aq_uv : uv_req; aq_ext : option wext }.

(** how the caller supplies client data: default, extra members (already serialised as the JSON
    text that follows the fixed members), or a caller-supplied hash *)
Inductive cd_mode := CdDefault | CdExtra (tail : bytes) | CdHash (h : bytes).

Record prf_client_out := { po_enabled : option bool; po_results : option wprf_values }.

Record created := {
  cr_id : bytes;                 (* base64url text *)
  cr_raw_id : bytes;
  cr_client_data_json : bytes;
  cr_auth_data : bytes;
  cr_public_key : option bytes;  (* SubjectPublicKeyInfo DER *)
  cr_alg : Z;
  cr_att_obj : bytes;
  cr_cred_props : option (option bool);
  cr_prf : option prf_client_out }.

Record authenticated := {
  au_id : bytes; au_raw_id : bytes; au_client_data_json : bytes; au_auth_data : bytes;
  au_signature : bytes; au_user_handle : option bytes; au_prf : option prf_client_out }.

(** *** pure helpers *)
Definition ascii (s : list N) : bytes := s.

(* brace quote type quote colon quote *)
Definition J_TYPE : bytes := [123;34;116;121;112;101;34;58;34].
(* quote comma quote challenge quote colon quote *)
Definition J_CHALLENGE : bytes := [34;44;34;99;104;97;108;108;101;110;103;101;34;58;34].
(* quote comma quote origin quote colon quote *)
Definition J_ORIGIN : bytes := [34;44;34;111;114;105;103;105;110;34;58;34].
(* comma quote crossOrigin quote colon false *)
Definition J_CROSS : bytes := [44;34;99;114;111;115;115;79;114;105;103;105;110;34;58;102;97;108;115;101].
Definition T_CREATE : bytes := [119;101;98;97;117;116;104;110;46;99;114;101;97;116;101].  (* webauthn.create *)
Definition T_GET : bytes := [119;101;98;97;117;116;104;110;46;103;101;116].               (* webauthn.get *)

Definition hexdig (n : N) : N := if n <? 10 then 48 + n else 87 + n.

(** serde_json's string escaping *)
Fixpoint json_escape (s : bytes) : bytes :=
  match s with
  | [] => []
  | c :: r =>
      (if c =? 34 then [92; 34] else if c =? 92 then [92; 92]
       else if c =? 8 then [92; 98] else if c =? 9 then [92; 116] else if c =? 10 then [92; 110]
       else if c =? 12 then [92; 102] else if c =? 13 then [92; 114]
       else if c <? 32 then [92; 117; 48; 48; hexdig (c / 16); hexdig (c mod 16)]
       else [c]) ++ json_escape r
  end.

(** [serde_json::to_string(&CollectedClientData{..})] with cross_origin = None (emitted as false) *)
Definition client_data_json (ty challenge origin : bytes) (cd : cd_mode) : bytes :=
  J_TYPE ++ ty ++ J_CHALLENGE ++ b64url_encode challenge ++ J_ORIGIN ++ json_escape origin ++ [34] ++ J_CROSS
  ++ (match cd with CdExtra tail => tail | _ => [] end) ++ [125].

Definition client_data_hash (json : bytes) (cd : cd_mode) : bytes :=
  match cd with CdHash h => h | _ => sha256 json end.

(** [make_salt] *)
Definition PRF_PREFIX : bytes := [87;101;98;65;117;116;104;110;32;80;82;70;0].  (* WebAuthn PRF followed by a zero byte *)
Definition make_salt (v : bytes) : bytes := sha256 (PRF_PREFIX ++ v).

(** [convert_eval_to_ctap] *)
Definition convert_eval (e : wprf_values) (should_hash : bool) : result prf_values werr :=
  if should_hash then
    Ok {| pv_first := make_salt (wv_first e); pv_second := option_map make_salt (wv_second e) |}
  else
    if negb (Nat.eqb (length (wv_first e)) 32) then Err WValidationError
    else match wv_second e with
         | Some s => if negb (Nat.eqb (length s) 32) then Err WValidationError
                     else Ok {| pv_first := wv_first e; pv_second := Some s |}
         | None => Ok {| pv_first := wv_first e; pv_second := None |}
         end.

(** [make_ctap_extension] (registration); [supports_prf] = the authenticator lists the prf extension
    (it never lists hmac-secret) *)
Definition make_ctap_extension (prf : option wprf_inputs) (supports_prf should_hash : bool)
  : result (option mc_ext_in) werr :=
  match prf with
  | Some p =>
      match wp_by_cred p with
      | Some _ => Err WNotSupportedError
      | None =>
          if supports_prf then
            match wp_eval p with
            | Some v => match convert_eval v should_hash with
                        | Err e => Err e
                        | Ok cv => Ok (mc_ext_zip {| me_hmac_secret := None; me_hmac_secret_mc := false;
                                                     me_prf := Some {| pi_eval := Some cv; pi_by_cred := None |} |})
                        end
            | None => Ok (mc_ext_zip {| me_hmac_secret := None; me_hmac_secret_mc := false;
                                        me_prf := Some {| pi_eval := None; pi_by_cred := None |} |})
            end
          else Ok None
      end
  | None => Ok None
  end.

(** [registration_prf_to_ctap2_input] *)
Definition registration_ext (ext : option wext) (supports_prf : bool) : result (option mc_ext_in) werr :=
  match make_ctap_extension (opt_bind ext we_prf) supports_prf true with
  | Err e => Err e
  | Ok (Some x) => Ok (Some x)
  | Ok None => make_ctap_extension (opt_bind ext we_prf_hashed) supports_prf false
  end.

(** [get_ctap_extension] (authentication) *)
Fixpoint decode_keys (l : list (bytes * wprf_values)) : option (list (bytes * wprf_values)) :=
  match l with
  | [] => Some []
  | (k, v) :: r =>
      match bytes_try_from_str k, decode_keys r with
      | Some kb, Some r' => Some ((kb, v) :: r')
      | _, _ => None
      end
  end.

Fixpoint convert_all (l : list (bytes * wprf_values)) (should_hash : bool) : result (list (bytes * prf_values)) werr :=
  match l with
  | [] => Ok []
  | (k, v) :: r =>
      match convert_eval v should_hash with
      | Err e => Err e
      | Ok cv => match convert_all r should_hash with
                 | Err e => Err e
                 | Ok r' => Ok ((k, cv) :: r')
                 end
      end
  end.

Definition get_ctap_extension (allow : option (list bytes)) (prf : option wprf_inputs) (supports_prf should_hash : bool)
  : result (option ga_ext_in) werr :=
  if negb supports_prf then Ok None else
  let byc := opt_bind prf wp_by_cred in
  let allow_empty := match allow with None | Some [] => true | _ => false end in
  if (match byc with Some (_ :: _) => true | _ => false end) && allow_empty then Err WNotSupportedError else
  match (match byc with Some l => option_map Some (decode_keys l) | None => Some None end) with
  | None => Err WSyntaxError
  | Some decoded =>
      if (match decoded with
          | Some rcd =>
              existsb (fun kv => match fst kv with [] => true | _ => false end
                                 || match allow with
                                    | Some al => negb (existsb (beq (fst kv)) al)
                                    | None => false
                                    end) rcd
          | None => false
          end) then Err WSyntaxError else
      match (match decoded with
             | Some rcd => match convert_all rcd should_hash with Err e => Err e | Ok l => Ok (Some l) end
             | None => Ok None
             end) with
      | Err e => Err e
      | Ok new_by =>
          match (match opt_bind prf wp_eval with
                 | Some v => match convert_eval v should_hash with Err e => Err e | Ok cv => Ok (Some cv) end
                 | None => Ok None
                 end) with
          | Err e => Err e
          | Ok eval =>
              Ok (ga_ext_zip {| ge_hmac_secret := false;
                                ge_prf := match prf with
                                          | Some _ => Some {| pi_eval := eval; pi_by_cred := new_by |}
                                          | None => None
                                          end |})
          end
      end
  end.

(** [auth_prf_to_ctap2_input] *)
Definition authentication_ext (allow : option (list bytes)) (ext : option wext) (supports_prf : bool)
  : result (option ga_ext_in) werr :=
  match get_ctap_extension allow (opt_bind ext we_prf) supports_prf true with
  | Err e => Err e
  | Ok (Some x) => Ok (Some x)
  | Ok None => get_ctap_extension allow (opt_bind ext we_prf_hashed) supports_prf false
  end.

(** [map_rk]: WebAuthn L3 5.1.3 requireResidentKey *)
Definition map_rk (sel : option selection) (supports_rk : bool) : bool :=
  match sel with
  | None => false
  | Some s =>
      match sel_rk s with
      | Some RkRequired => true
      | Some RkPreferred => supports_rk
      | Some RkDiscouraged => false
      | None => sel_require_rk s
      end
  end.

Definition uv_option (u : option uv_req) : bool :=
  match u with Some UvDiscouraged => false | _ => true end.

(** [AuthenticationExtensionsClientInputs::zip_contents] *)
Definition wext_zip (e : wext) : option wext :=
  match we_cred_props e, we_prf e, we_prf_hashed e with
  | None, None, None => None
  | _, _, _ => Some e
  end.

Definition values_out (v : prf_values) : wprf_values := {| wv_first := pv_first v; wv_second := pv_second v |}.

(** DER SubjectPublicKeyInfo of an uncompressed P-256 point *)
Definition SPKI_PREFIX : bytes :=
  [48;89;48;19;6;7;42;134;72;206;61;2;1;6;8;42;134;72;206;61;3;1;7;3;66;0;4].
Definition spki_der (x y : bytes) : bytes := SPKI_PREFIX ++ x ++ y.

(** the none-format attestation object *)
Definition T_FMT : bytes := [102;109;116].                       (* fmt *)
Definition T_NONE : bytes := [110;111;110;101].                  (* none *)
Definition T_ATTSTMT : bytes := [97;116;116;83;116;109;116].     (* attStmt *)
Definition T_AUTHDATA : bytes := [97;117;116;104;68;97;116;97].  (* authData *)
Definition attestation_object (ad : bytes) : bytes :=
  cbor_encode (CMap [(CText T_FMT, CText T_NONE); (CText T_ATTSTMT, CMap []); (CText T_AUTHDATA, CBytes ad)]).

(** [From<StatusCode> for WebauthnError] as used by [authenticate] *)
Definition werr_of_status (b : N) : werr :=
  if b =? CTAP2_NoCredentials then WCredentialNotFound else WAuthenticatorError b.

Section Client.
Variable c : config.

(** [Client::register] *)
Definition register (domain : result bytes werr) (origin : bytes) (q : reg_request) (cd : cd_mode)
  : prog (result created werr) :=
  info <- get_info c ;;
  let params := match rq_params q with [] => [ES256; (-257)%Z] | l => l end in
  match domain with
  | Err e => Ret (Err e)
  | Ok rp =>
    let json := client_data_json T_CREATE (rq_challenge q) origin cd in
    let cdh := client_data_hash json cd in
    let ext_request := opt_bind (rq_ext q) wext_zip in
    match registration_ext ext_request (i_prf_ext info) with
    | Err e => Ret (Err e)
    | Ok ctap_ext =>
      let rk := map_rk (rq_selection q) (i_rk info) in
      let uv := uv_option (option_map sel_uv (rq_selection q)) in
      r <- make_credential c {| mc_cdh := cdh;
                                mc_rp := {| rp_id := rp; rp_name := Some (rq_rp_name q) |};
                                mc_user := rq_user q; mc_params := params; mc_exclude := rq_exclude q;
                                mc_ext := ctap_ext; mc_opts := {| o_rk := rk; o_up := true; o_uv := uv |};
                                mc_pin_auth := false |} ;;
      match r with
      | Err s => Ret (Err (WAuthenticatorError s))
      | Ok resp =>
        let adb := ad_bytes sha256 (mr_auth_data resp) in
        match ad_acd (mr_auth_data resp) with
        | None => Stuck       (* unwrap: make_credential always attests *)
        | Some a =>
          (* public_key_der_from_cose_key *)
          if negb (Z.eqb (acd_alg a) ES256) then Ret (Err (WAuthenticatorError CTAP2_UnsupportedAlgorithm))
          else if negb (Nat.eqb (length (acd_x a)) 32 && Nat.eqb (length (acd_y a)) 32)
               then Ret (Err (WAuthenticatorError CTAP2_InvalidCredential)) else
          d <- store_info ;;
          let cred_props :=
            match opt_bind ext_request we_cred_props with
            | Some true => Some (Some (is_discoverable d rk))
            | _ => None
            end in
          let prf := option_map (fun p => {| po_enabled := Some (pm_enabled p);
                                             po_results := option_map values_out (pm_results p) |})
                                (mr_prf resp) in
          Ret (Ok {| cr_id := b64url_encode (acd_cred_id a); cr_raw_id := acd_cred_id a;
                     cr_client_data_json := json; cr_auth_data := adb;
                     cr_public_key := Some (spki_der (acd_x a) (acd_y a)); cr_alg := acd_alg a;
                     cr_att_obj := attestation_object adb;
                     cr_cred_props := cred_props; cr_prf := prf |})
        end
      end
    end
  end.

(** [Client::authenticate] *)
Definition authenticate (domain : result bytes werr) (origin : bytes) (q : auth_request) (cd : cd_mode)
  : prog (result authenticated werr) :=
  info <- get_info c ;;
  match domain with
  | Err e => Ret (Err e)
  | Ok rp =>
    let json := client_data_json T_GET (aq_challenge q) origin cd in
    let cdh := client_data_hash json cd in
    match authentication_ext (aq_allow q) (aq_ext q) (i_prf_ext info) with
    | Err e => Ret (Err e)
    | Ok ctap_ext =>
      let uv := uv_option (Some (aq_uv q)) in
      r <- get_assertion (ad_bytes sha256) c
             {| ga_rp_id := rp; ga_cdh := cdh; ga_allow := aq_allow q; ga_ext := ctap_ext;
                ga_opts := {| o_rk := false; o_up := true; o_uv := uv |}; ga_pin_auth := false |} ;;
      match r with
      | Err s => Ret (Err (werr_of_status s))
      | Ok resp =>
        Ret (Ok {| au_id := b64url_encode (gr_cred_id resp); au_raw_id := gr_cred_id resp;
                   au_client_data_json := json; au_auth_data := ad_bytes sha256 (gr_auth_data resp);
                   au_signature := gr_signature resp; au_user_handle := gr_user_handle resp;
                   au_prf := option_map (fun v => {| po_enabled := None; po_results := Some (values_out v) |})
                                        (gr_prf resp) |})
      end
    end
  end.
End Client.
