(** A refused (origin, RP ID) pair never reaches the authenticator: whatever the request, client-data mode,
    configuration and answers, the client ceremony performs exactly the calls of [get_info] (the capability questions
    the client asks before it looks at the request) - no credential lookup, no user interaction, no key material, no
    store write - and returns the verifier's error. Stated on the model alone (no source skeleton involved). *)
From PK Require Import Auth.Client.

Lemma interp_bind_const {A B} (p : prog A) (x : B) : forall s,
  interp (bind p (fun _ => Ret x)) s = (fst (interp p s), option_map (fun _ => x) (snd (interp p s))).
Proof.
  induction p as [r|e k IH|]; intros s; cbn [bind interp fst snd option_map]; try reflexivity.
  destruct s as [|a s']; cbn [fst snd option_map]; [reflexivity|].
  rewrite IH. destruct (interp (k a) s') as [tr r]. reflexivity.
Qed.

Definition is_query (e : eff) : bool :=
  match e with EStoreInfo | EVerifEnabled | EPresenceEnabled => true | _ => false end.

Lemma get_info_only_queries c : forall script, forallb (fun ea : eff * answer => is_query (fst ea)) (fst (interp (get_info c) script)) = true.
Proof.
  intros script. unfold get_info, store_info, verif_enabled, presence_enabled. cbn [bind].
  destruct script as [|a1 s1]; cbn [interp fst forallb]; [reflexivity|].
  destruct a1; cbn [bind interp fst forallb is_query andb]; try reflexivity;
  destruct s1 as [|a2 s2]; cbn [interp fst forallb]; try reflexivity;
  destruct a2; cbn [bind interp fst forallb is_query andb]; try reflexivity;
  destruct s2 as [|a3 s3]; cbn [interp fst forallb]; try reflexivity;
  destruct a3; cbn [bind interp fst forallb is_query andb]; reflexivity.
Qed.

Theorem refused_domain_register c e origin q cd script :
  interp (register c (Err e) origin q cd) script
  = (fst (interp (get_info c) script), option_map (fun _ => Err e) (snd (interp (get_info c) script))).
Proof. unfold register. apply interp_bind_const. Qed.

Theorem refused_domain_authenticate c e origin (q : auth_request) cd script :
  interp (authenticate c (Err e) origin q cd) script
  = (fst (interp (get_info c) script), option_map (fun _ => Err e) (snd (interp (get_info c) script))).
Proof. unfold authenticate. apply interp_bind_const. Qed.

(** so: only capability queries are performed, and a result, if any, is the verifier's error *)
Theorem refused_domain_never_reaches_the_authenticator c e origin (q : reg_request) (q2 : auth_request) cd script :
  forallb (fun ea : eff * answer => is_query (fst ea)) (fst (interp (register c (Err e) origin q cd) script)) = true
  /\ forallb (fun ea : eff * answer => is_query (fst ea)) (fst (interp (authenticate c (Err e) origin q2 cd) script)) = true
  /\ (forall r, snd (interp (register c (Err e) origin q cd) script) = Some r -> r = Err e)
  /\ (forall r, snd (interp (authenticate c (Err e) origin q2 cd) script) = Some r -> r = Err e).
Proof.
  rewrite refused_domain_register, refused_domain_authenticate. cbn [fst snd].
  repeat split; try apply get_info_only_queries;
    intros r; destruct (snd (interp (get_info c) script)); cbn [option_map]; intros [= <-]; reflexivity.
Qed.

(** an accepted pair: the RP ID the authenticator ceremony runs under is exactly the verifier's answer *)
