(** Source order of the ceremonies (regenerated from passkey-authenticator/src on every run by
    translators/ceremony_skeleton.py into Auth/gen/Skeleton.v) tied to the effect programs of the model:

    (1) the generated lists equal the order the model was transcribed from ([src_*_order], by [reflexivity]:
        a reordering in the source changes the generated file and breaks this file);
    (2) for EVERY request, configuration and answer script, the effects a model ceremony performs occur in
        that order: the sequence of effect kinds of any run is a subsequence of the source skeleton with
        the helper ceremonies expanded ([*_follows_source_order]). *)
From Coq Require Import String.
From PK Require Import Auth.U2f Auth.gen.Skeleton.
From PK Require Export Auth.OrderList.
Open Scope string_scope.
Open Scope list_scope.

(** the order the model was written from *)
Definition EXP_CHECK_USER := ["VerifEnabled"; "Err UnsupportedOption"; "UvCheck"; "Err OperationDenied"; "Err OperationDenied"].
Definition EXP_GET_INFO := ["StoreInfo"; "VerifEnabled"; "PresenceEnabled"].
Definition EXP_MAKE_CREDENTIAL :=
  ["CheckUser"; "Err InvalidOption"; "Find"; "Err CredentialExcluded"; "ChooseAlg"; "GetInfo"; "Err UnsupportedOption";
   "PinAuth"; "Err UnsupportedOption"; "Rand"; "KeyGen"; "MakeExt"; "StoreInfo"; "CounterStart0"; "NewAuthData"; "Save"].
Definition EXP_GET_ASSERTION :=
  ["Find"; "Err NoCredentials"; "PinAuth"; "Err PinAuthInvalid"; "Err UnsupportedOption"; "CheckUser"; "Err NoCredentials";
   "SatAdd1"; "Update"; "GetExt"; "NewAuthData"; "PrivKey"; "Sign"].
Definition EXP_U2F_REGISTER := ["KeyGen"; "Sign"; "Save"; "Err Other"].
Definition EXP_U2F_AUTHENTICATE := ["Find"; "Err Other"; "Err Other"; "Err Other"; "PrivKey"; "Err Other"; "Sign"].

Theorem src_check_user_order : SRC_CHECK_USER = EXP_CHECK_USER. Proof. reflexivity. Qed.
Theorem src_get_info_order : SRC_GET_INFO = EXP_GET_INFO. Proof. reflexivity. Qed.
Theorem src_make_credential_order : SRC_MAKE_CREDENTIAL = EXP_MAKE_CREDENTIAL. Proof. reflexivity. Qed.
Theorem src_get_assertion_order : SRC_GET_ASSERTION = EXP_GET_ASSERTION. Proof. reflexivity. Qed.
Theorem src_u2f_register_order : SRC_U2F_REGISTER = EXP_U2F_REGISTER. Proof. reflexivity. Qed.
Theorem src_u2f_authenticate_order : SRC_U2F_AUTHENTICATE = EXP_U2F_AUTHENTICATE. Proof. reflexivity. Qed.

(** the kind of an effect, named like the marks of the translator *)
Definition kind (e : eff) : string :=
  match e with
  | EFind _ _ => "Find" | ESave _ _ _ _ => "Save" | EUpdate _ => "Update" | EStoreInfo => "StoreInfo"
  | EVerifEnabled => "VerifEnabled" | EPresenceEnabled => "PresenceEnabled" | ECheckUser _ _ _ => "UvCheck"
  | ERand _ => "Rand" | EKeyGen => "KeyGen" | ESign _ _ => "Sign" | EHmac _ _ => "Hmac"
  end.

(** helper ceremonies expanded to the effects they may perform, in their own source order; extension
    processing draws at most two secrets and computes at most two HMACs (make_hmac_secret then
    calculate_hmac_secret in extensions/hmac_secret.rs) *)
Definition expand (m : string) : list string :=
  if m =? "CheckUser" then EXP_CHECK_USER
  else if m =? "GetInfo" then EXP_GET_INFO
  else if m =? "MakeExt" then ["Rand"; "Rand"; "Hmac"; "Hmac"]
  else if m =? "GetExt" then ["Hmac"; "Hmac"]
  else [m].
Definition skeleton (src : list string) : list string := flat_map expand src.

(** [follows sk p]: every call of [p], on every path, finds its kind further down the skeleton *)
Fixpoint drop_until (s : string) (sk : list string) : option (list string) :=
  match sk with
  | [] => None
  | x :: r => if x =? s then Some r else drop_until s r
  end.

Fixpoint follows {R} (sk : list string) (p : prog R) : Prop :=
  match p with
  | Ret _ => True
  | Stuck => True
  | Call e k => match drop_until (kind e) sk with
                | None => False
                | Some sk' => forall a, follows sk' (k a)
                end
  end.

Inductive subseq : list string -> list string -> Prop :=
| sub_nil l : subseq [] l
| sub_take x l1 l2 : subseq l1 l2 -> subseq (x :: l1) (x :: l2)
| sub_skip x l1 l2 : subseq l1 l2 -> subseq l1 (x :: l2).

Lemma drop_until_subseq s : forall sk sk' l, drop_until s sk = Some sk' -> subseq l sk' -> subseq (s :: l) sk.
Proof.
  induction sk as [|x r IH]; cbn [drop_until]; intros sk' l H Hs; [discriminate|].
  destruct (String.eqb_spec x s) as [->|Hne].
  - injection H as <-. apply sub_take. exact Hs.
  - apply sub_skip. eapply IH; eassumption.
Qed.

Theorem follows_trace {R} (p : prog R) : forall sk script,
  follows sk p -> subseq (map (fun ea => kind (fst ea)) (fst (interp p script))) sk.
Proof.
  induction p as [r|e k IH|]; intros sk script H; cbn [interp fst map]; try apply sub_nil.
  destruct script as [|a script']; cbn [fst map]; [apply sub_nil|].
  cbn [follows] in H. destruct (drop_until (kind e) sk) as [sk'|] eqn:E; [|contradiction].
  specialize (IH a sk' script' (H a)).
  destruct (interp (k a) script') as [tr r] eqn:Ei. cbn [fst map] in *.
  eapply drop_until_subseq; eassumption.
Qed.

(** weakening: a program that follows a suffix follows the whole skeleton *)
Lemma drop_until_app s : forall pre sk sk', drop_until s sk = Some sk' ->
  exists sk'', drop_until s (pre ++ sk) = Some sk'' /\ exists mid, sk'' = mid ++ sk' .
Proof.
  induction pre as [|x pre IH]; intros sk sk' H; cbn [app drop_until].
  - exists sk'. split; [exact H|exists []; reflexivity].
  - destruct (x =? s).
    + exists (pre ++ sk). split; [reflexivity|].
      (* sk' is a suffix of sk *)
      assert (Hs : forall l l', drop_until s l = Some l' -> exists m, l = m ++ l').
      { induction l as [|y l IHl]; cbn [drop_until]; intros l' Hl; [discriminate|].
        destruct (y =? s); [injection Hl as <-; exists [y]; reflexivity|].
        destruct (IHl _ Hl) as (m & ->). exists (y :: m). reflexivity. }
      destruct (Hs _ _ H) as (m & ->). exists (pre ++ m). rewrite app_assoc. reflexivity.
    + apply IH. exact H.
Qed.

Lemma follows_weaken {R} (p : prog R) : forall pre sk, follows sk p -> follows (pre ++ sk) p.
Proof.
  induction p as [r|e k IH|]; intros pre sk H; cbn [follows] in *; auto.
  destruct (drop_until (kind e) sk) as [sk'|] eqn:E; [|contradiction].
  destruct (drop_until_app (kind e) pre sk sk' E) as (sk'' & -> & mid & ->).
  intros a. apply IH. apply H.
Qed.

(** sequencing: the first part consumes a prefix of the skeleton, whatever it returns the rest follows the remainder *)
Lemma follows_bind {A B} (p : prog A) (f : A -> prog B) : forall sk1 sk2,
  follows sk1 p -> (forall a, follows sk2 (f a)) -> follows (sk1 ++ sk2) (bind p f).
Proof.
  induction p as [r|e k IH|]; intros sk1 sk2 Hp Hf; cbn [bind follows] in *.
  - apply follows_weaken. apply Hf.
  - destruct (drop_until (kind e) sk1) as [sk'|] eqn:E; [|contradiction].
    assert (E2 : drop_until (kind e) (sk1 ++ sk2) = Some (sk' ++ sk2)).
    { clear -E. revert sk' E. induction sk1 as [|x r IHr]; cbn [drop_until app]; intros sk' E; [discriminate|].
      destruct (x =? kind e); [injection E as <-; reflexivity|apply IHr; exact E]. }
    rewrite E2. intros a. apply IH; [apply Hp|exact Hf].
  - exact I.
Qed.

Ltac calls := unfold find_creds, save, update, store_info, verif_enabled, presence_enabled, ask_user, rand, keygen, sign, hmac.

(** walk a fully unfolded program *)
Ltac walk :=
  repeat first
  [ progress (cbv zeta; cbn [follows bind fst snd])
  | match goal with
    | |- True => exact I
    | |- forall _, _ => intro
    | |- match drop_until ?s ?sk with _ => _ end =>
        let r := eval vm_compute in (drop_until s sk) in change (drop_until s sk) with r; cbv iota
    | |- follows _ (match ?x with _ => _ end) => destruct x
    | |- follows _ (if ?b then _ else _) => destruct b
    | |- follows _ (let '(_, _) := ?x in _) => destruct x
    | |- follows _ (bind (match ?x with _ => _ end) _) => destruct x
    | |- follows _ (bind (if ?b then _ else _) _) => destruct b
    | |- follows _ ?p => match p with context [match ?x with _ => _ end] => destruct x end
    | |- follows _ ?p => match p with context [if ?b then _ else _] => destruct b end
    end ].

Lemma check_user_follows o cred : follows (skeleton ["CheckUser"]) (check_user o cred).
Proof.
  unfold check_user. calls.
  walk.
Qed.

Lemma get_info_follows c : follows (skeleton ["GetInfo"]) (get_info c).
Proof. unfold get_info. calls. walk. Qed.

Lemma make_extensions_follows c rq uv : follows (skeleton ["MakeExt"]) (make_extensions c rq uv).
Proof.
  unfold make_extensions, make_hmac_secret, make_prf, calculate_hmac_secret. calls.
  destruct (c_hmac c) as [hc|]; walk.
Qed.

Lemma get_extensions_follows c pk rq uv : follows (skeleton ["GetExt"]) (get_extensions c pk rq uv).
Proof.
  unfold get_extensions, get_prf, calculate_hmac_secret. calls.
  destruct (c_hmac c) as [hc|]; walk.
Qed.

(** *** the theorems: every run of every model ceremony performs its effects in source order *)

Theorem make_credential_follows_source_order c q :
  follows (skeleton SRC_MAKE_CREDENTIAL) (make_credential c q).
Proof.
  rewrite src_make_credential_order.
  unfold make_credential. destruct (negb (o_up (mc_opts q))); [exact I|].
  change (skeleton EXP_MAKE_CREDENTIAL) with (skeleton ["CheckUser"] ++ skeleton (tl EXP_MAKE_CREDENTIAL)).
  apply follows_bind; [apply check_user_follows|]. intros [flags|e]; [|exact I].
  unfold mc_after_consent.
  assert (AE : follows (skeleton (skipn 4 EXP_MAKE_CREDENTIAL)) (mc_after_exclude c q flags)).
  { unfold mc_after_exclude. destruct (choose_algorithm c (mc_params q)) as [alg|]; [|exact I].
    assert (AR : follows (skeleton (skipn 7 EXP_MAKE_CREDENTIAL)) (mc_after_rk c q flags alg)).
    { unfold mc_after_rk. destruct (mc_pin_auth q); [exact I|].
      change (skeleton (skipn 7 EXP_MAKE_CREDENTIAL))
        with (["PinAuth"; "Err UnsupportedOption"; "Rand"; "KeyGen"] ++ (skeleton ["MakeExt"] ++ ["StoreInfo"; "CounterStart0"; "NewAuthData"; "Save"])).
      unfold rand at 1. cbn [bind follows]. 
      let r := eval vm_compute in (drop_until (kind (ERand (c_id_len c))) (["PinAuth"; "Err UnsupportedOption"; "Rand"; "KeyGen"] ++ (skeleton ["MakeExt"] ++ ["StoreInfo"; "CounterStart0"; "NewAuthData"; "Save"]))) in
        change (drop_until (kind (ERand (c_id_len c))) (["PinAuth"; "Err UnsupportedOption"; "Rand"; "KeyGen"] ++ (skeleton ["MakeExt"] ++ ["StoreInfo"; "CounterStart0"; "NewAuthData"; "Save"]))) with r.
      cbv iota. intros a1. destruct a1; try exact I. cbn [bind].
      unfold keygen at 1. cbn [bind follows].
      match goal with |- match drop_until ?s ?sk with _ => _ end =>
        let r := eval vm_compute in (drop_until s sk) in change (drop_until s sk) with r end.
      cbv iota. intros a2. destruct a2; try exact I. cbn [bind].
      change (["Hmac"; "Hmac"; "Rand"; "Rand"; "Hmac"; "Hmac"; "StoreInfo"; "Save"]) with (["Hmac"; "Hmac"] ++ (skeleton ["MakeExt"] ++ ["StoreInfo"; "CounterStart0"; "NewAuthData"; "Save"])) || idtac.
      match goal with |- follows ?sk _ => change sk with (skeleton ["MakeExt"] ++ ["StoreInfo"; "CounterStart0"; "NewAuthData"; "Save"]) end.
      apply follows_bind; [apply make_extensions_follows|].
      intros [[cred_ext unsigned]|e]; [|exact I]. calls. walk. }
    destruct (o_rk (mc_opts q)).
    - change (skeleton (skipn 4 EXP_MAKE_CREDENTIAL)) with (["ChooseAlg"] ++ skeleton ["GetInfo"] ++ skeleton (skipn 6 EXP_MAKE_CREDENTIAL)).
      apply (follows_weaken _ ["ChooseAlg"]). apply follows_bind; [apply get_info_follows|].
      intros info. destruct (negb (i_rk info)); [exact I|].
      apply (follows_weaken _ ["Err UnsupportedOption"]). exact AR.
    - apply (follows_weaken _ (skeleton (firstn 3 (skipn 4 EXP_MAKE_CREDENTIAL)))). exact AR. }
  assert (AE' : follows (skeleton (tl EXP_MAKE_CREDENTIAL)) (mc_after_exclude c q flags)).
  { apply (follows_weaken _ (skeleton (firstn 3 (tl EXP_MAKE_CREDENTIAL)))). exact AE. }
  destruct (mc_exclude q) as [[|x l]|]; try exact AE'.
  unfold find_creds. cbn [bind follows].
  match goal with |- match drop_until ?s ?sk with _ => _ end =>
    let r := eval vm_compute in (drop_until s sk) in change (drop_until s sk) with r end.
  cbv iota. intros a. destruct a as [r| | | | | | |]; try exact I. cbn [bind].
  destruct r as [[|p ps]|e]; try exact I;
    match goal with |- follows ?sk _ => change sk with (["Err CredentialExcluded"] ++ skeleton (skipn 4 EXP_MAKE_CREDENTIAL)) end;
    apply follows_weaken; exact AE.
Qed.

Theorem get_assertion_follows_source_order adb c q :
  follows (skeleton SRC_GET_ASSERTION) (get_assertion adb c q).
Proof.
  rewrite src_get_assertion_order.
  unfold get_assertion, ga_after_consent, ga_finish, get_extensions, get_prf, calculate_hmac_secret, check_user, first_credential.
  calls. destruct (c_hmac c) as [hc|]; walk.
Qed.

Theorem check_user_follows_source_order o cred : follows (skeleton SRC_CHECK_USER) (check_user o cred).
Proof. rewrite src_check_user_order. unfold check_user. calls. walk. Qed.

Theorem get_info_follows_source_order c : follows (skeleton SRC_GET_INFO) (get_info c).
Proof. rewrite src_get_info_order. unfold get_info. calls. walk. Qed.

Theorem u2f_register_follows_source_order app chal h : follows (skeleton SRC_U2F_REGISTER) (u2f_register app chal h).
Proof. rewrite src_u2f_register_order. unfold u2f_register. calls. walk. Qed.

Theorem u2f_authenticate_follows_source_order app chal kh ctr pres :
  follows (skeleton SRC_U2F_AUTHENTICATE) (u2f_authenticate app chal kh ctr pres).
Proof. rewrite src_u2f_authenticate_order. unfold u2f_authenticate, private_key. calls. walk. Qed.

(** what [follows] gives on executions: the kinds of the effects of any run, in order, are a subsequence of the
    source skeleton *)
Corollary make_credential_effects_in_source_order c q script :
  subseq (map (fun ea => kind (fst ea)) (fst (interp (make_credential c q) script))) (skeleton SRC_MAKE_CREDENTIAL).
Proof. apply follows_trace. apply make_credential_follows_source_order. Qed.

Corollary get_assertion_effects_in_source_order adb c q script :
  subseq (map (fun ea => kind (fst ea)) (fst (interp (get_assertion adb c q) script))) (skeleton SRC_GET_ASSERTION).
Proof. apply follows_trace. apply get_assertion_follows_source_order. Qed.

(** the skeleton is not slack: a run that takes every branch performs exactly the skeleton's effects
    (all marks that are effects, in order) *)
Definition is_effect_mark (m : string) : bool :=
  existsb (String.eqb m) ["Find"; "Save"; "Update"; "StoreInfo"; "VerifEnabled"; "PresenceEnabled"; "UvCheck"; "Rand"; "KeyGen"; "Sign"; "Hmac"].

Definition full_cfg : config :=
  {| c_aaguid := []; c_algs := [ES256]; c_counter := true; c_id_len := 16; c_hmac := Some {| h_without_uv := true; h_on_mc := true |} |}.
Definition full_prf : prf_inputs := {| pi_eval := Some {| pv_first := [1]; pv_second := Some [2] |}; pi_by_cred := None |}.
Definition full_mc : mc_request :=
  {| mc_cdh := []; mc_rp := {| rp_id := [114]; rp_name := None |}; mc_user := {| u_id := [1]; u_name := None; u_display := None |};
     mc_params := [ES256]; mc_exclude := Some [[9]];
     mc_ext := Some {| me_hmac_secret := None; me_hmac_secret_mc := false; me_prf := Some full_prf |};
     mc_opts := {| o_rk := true; o_up := true; o_uv := true |}; mc_pin_auth := false |}.
Definition full_mc_script : list answer :=
  [AOptBool (Some true); ACheck (Ok (true, true)); AFind (Ok []); AInfo Full; AOptBool (Some true); ABool true;
   ABytes [7]; AKey [1] [2] [3]; ABytes [4]; ABytes [5]; ABytes [6]; ABytes [8]; AInfo Full; AUnit (Ok tt)].

Example make_credential_full_run_is_the_skeleton :
  map (fun ea => kind (fst ea)) (fst (interp (make_credential full_cfg full_mc) full_mc_script))
  = filter is_effect_mark (skeleton SRC_MAKE_CREDENTIAL)
  /\ exists r, snd (interp (make_credential full_cfg full_mc) full_mc_script) = Some (Ok r).
Proof. split; [vm_compute; reflexivity|eexists; vm_compute; reflexivity]. Qed.

Definition full_cred : passkey :=
  {| pk_key := {| k_es256 := true; k_ec2 := true; k_d := Some [1]; k_x := [2]; k_y := [3] |}; pk_cred_id := [9]; pk_rp_id := [114];
     pk_user_handle := None; pk_counter := Some 3; pk_hmac := Some ([4], Some [5]) |}.
Definition full_ga : ga_request :=
  {| ga_rp_id := [114]; ga_cdh := []; ga_allow := Some [[9]];
     ga_ext := Some {| ge_hmac_secret := false; ge_prf := Some full_prf |};
     ga_opts := {| o_rk := false; o_up := true; o_uv := true |}; ga_pin_auth := false |}.
Definition full_ga_script : list answer :=
  [AFind (Ok [full_cred]); AOptBool (Some true); ACheck (Ok (true, true)); AUnit (Ok tt); ABytes [6]; ABytes [7]; ABytes [8]].

Example get_assertion_full_run_is_the_skeleton :
  map (fun ea => kind (fst ea)) (fst (interp (get_assertion (fun _ => []) full_cfg full_ga) full_ga_script))
  = filter is_effect_mark (skeleton SRC_GET_ASSERTION)
  /\ exists r, snd (interp (get_assertion (fun _ => []) full_cfg full_ga) full_ga_script) = Some (Ok r).
Proof. split; [vm_compute; reflexivity|eexists; vm_compute; reflexivity]. Qed.

(** *** order facts of the source text itself (recomputed from the generated lists on every run) *)
Theorem source_consent_precedes_effects :
  (* registration: user check, then exclude lookup, then key material, then the save *)
  before "CheckUser" "Find" SRC_MAKE_CREDENTIAL = true
  /\ before "CheckUser" "Rand" SRC_MAKE_CREDENTIAL = true
  /\ before "CheckUser" "KeyGen" SRC_MAKE_CREDENTIAL = true
  /\ before "CheckUser" "Save" SRC_MAKE_CREDENTIAL = true
  (* assertion: user check before the counter update and the signature; the "no credentials" answer that can reach the
     caller ([ok_or]) comes after the user check *)
  /\ before "CheckUser" "Update" SRC_GET_ASSERTION = true
  /\ before "CheckUser" "Sign" SRC_GET_ASSERTION = true
  /\ before "Update" "Sign" SRC_GET_ASSERTION = true
  (* the user-validation call itself comes after the capability test *)
  /\ before "VerifEnabled" "UvCheck" SRC_CHECK_USER = true.
Proof. vm_compute. repeat split. Qed.

Theorem source_save_is_last :
  last SRC_MAKE_CREDENTIAL "" = "Save"
  /\ before "MakeExt" "Save" SRC_MAKE_CREDENTIAL = true
  /\ before "ChooseAlg" "Save" SRC_MAKE_CREDENTIAL = true
  /\ before "GetInfo" "Save" SRC_MAKE_CREDENTIAL = true
  /\ before "Sign" "Save" SRC_U2F_REGISTER = true
  /\ first_pos "Save" SRC_GET_ASSERTION = None
  /\ first_pos "Save" SRC_U2F_AUTHENTICATE = None /\ first_pos "Update" SRC_U2F_AUTHENTICATE = None.
Proof. vm_compute. repeat split. Qed.

(** *** where the per-credential PRF secrets come from (extensions/hmac_secret.rs, regenerated on every run)

    The model draws the stored secrets with [ERand] (two draws when the non-gated secret is configured) and computes
    PRF results with [EHmac] (at most two per ceremony); [expand "MakeExt"] / [expand "GetExt"] above are exactly the
    effect marks of the source functions, and the secrets are assigned from [random_vec] and from nothing else: no
    hash, no HMAC and no other secret is mentioned where a secret is made. *)
Definition EXP_MAKE_HMAC_SECRET := ["CredWithUv"; "Rand"; "CredWithoutUv"; "WithoutUvCfg"; "Rand"].
Definition EXP_MAKE_PRF := ["OnMcCfg"; "CalcHmac"].
Definition EXP_GET_PRF := ["Err InvalidParameter"; "SelectSalts"; "CalcHmac"].
Definition EXP_CALCULATE_HMAC_SECRET := ["CredWithUv"; "CredWithoutUv"; "Err UserVerificationBlocked"; "Hmac"; "SupportsNoUv"; "Hmac"].
Definition EXP_SELECT_SALTS := ["EvalByCred"].

Theorem src_make_hmac_secret_order : SRC_MAKE_HMAC_SECRET = EXP_MAKE_HMAC_SECRET. Proof. reflexivity. Qed.
Theorem src_make_prf_order : SRC_MAKE_PRF = EXP_MAKE_PRF. Proof. reflexivity. Qed.
Theorem src_get_prf_order : SRC_GET_PRF = EXP_GET_PRF. Proof. reflexivity. Qed.
Theorem src_calculate_hmac_secret_order : SRC_CALCULATE_HMAC_SECRET = EXP_CALCULATE_HMAC_SECRET. Proof. reflexivity. Qed.
Theorem src_select_salts_order : SRC_SELECT_SALTS = EXP_SELECT_SALTS. Proof. reflexivity. Qed.

Theorem source_secret_provenance :
  (* the helper expansions used by [skeleton] are the effect marks of the source *)
  filter is_effect_mark (SRC_MAKE_HMAC_SECRET ++ SRC_CALCULATE_HMAC_SECRET) = expand "MakeExt"
  /\ filter is_effect_mark SRC_CALCULATE_HMAC_SECRET = expand "GetExt"
  (* each stored secret is followed by its own random draw; making a secret mentions no HMAC and no hash *)
  /\ before "CredWithUv" "Rand" SRC_MAKE_HMAC_SECRET = true
  /\ before "CredWithoutUv" "WithoutUvCfg" SRC_MAKE_HMAC_SECRET = true
  /\ first_pos "Hmac" SRC_MAKE_HMAC_SECRET = None /\ first_pos "Sha256" SRC_MAKE_HMAC_SECRET = None
  /\ first_pos "CalcHmac" SRC_MAKE_HMAC_SECRET = None
  (* a ceremony that evaluates the PRF draws no new secret and writes none: no random draw, no store call *)
  /\ first_pos "Rand" SRC_CALCULATE_HMAC_SECRET = None /\ first_pos "Rand" SRC_GET_PRF = None /\ first_pos "Rand" SRC_MAKE_PRF = None
  /\ first_pos "Update" SRC_GET_PRF = None /\ first_pos "Save" SRC_GET_PRF = None
  /\ first_pos "Update" SRC_CALCULATE_HMAC_SECRET = None
  (* the missing non-gated secret is an error before any HMAC is computed *)
  /\ before "Err UserVerificationBlocked" "Hmac" SRC_CALCULATE_HMAC_SECRET = true.
Proof. vm_compute. repeat split. Qed.

(** *** counters in the source as it is now: the only arithmetic of the ceremonies is the one saturating increment of an
    assertion, it happens before the store is asked to keep the value and before the authenticator data that reports
    it is built; a registration starts a counter at zero and builds its authenticator data before the save *)
Theorem source_counter_facts :
  before "SatAdd1" "Update" SRC_GET_ASSERTION = true
  /\ before "Update" "NewAuthData" SRC_GET_ASSERTION = true
  /\ before "NewAuthData" "Sign" SRC_GET_ASSERTION = true
  /\ count_occ string_dec SRC_GET_ASSERTION "SatAdd1" = 1%nat
  /\ count_occ string_dec SRC_GET_ASSERTION "Update" = 1%nat
  /\ first_pos "Arith" SRC_GET_ASSERTION = None /\ first_pos "Arith" SRC_MAKE_CREDENTIAL = None
  /\ first_pos "Arith" SRC_U2F_REGISTER = None /\ first_pos "Arith" SRC_U2F_AUTHENTICATE = None
  /\ first_pos "Arith" SRC_CHECK_USER = None
  /\ first_pos "SatAdd1" SRC_MAKE_CREDENTIAL = None /\ first_pos "SatAdd1" SRC_U2F_AUTHENTICATE = None
  /\ before "CounterStart0" "NewAuthData" SRC_MAKE_CREDENTIAL = true
  /\ before "NewAuthData" "Save" SRC_MAKE_CREDENTIAL = true.
Proof. vm_compute. repeat split. Qed.
