(** The correspondence for all ceremony properties: a generic replay checker that walks a model
    program along the call log recorded from the real run.  At each trait call the model's call
    (callee and every argument) must equal the logged one; the logged answer is fed to the
    continuation.  Internal events take their answers from per-kind queues filled by the driver from
    where the values surface in the real run (empty queue = the value never surfaced: any default). *)
From PK Require Import Lib.Check.
From PK Require Export Auth.Authenticator.
Open Scope N_scope.

Definition bool_eqb := Bool.eqb.
Definition ob_eqb := opt_eqb beq.

Definition keymat_eqb (a b : keymat) : bool :=
  bool_eqb (k_es256 a) (k_es256 b) && bool_eqb (k_ec2 a) (k_ec2 b) && ob_eqb (k_d a) (k_d b)
  && beq (k_x a) (k_x b) && beq (k_y a) (k_y b).

Definition hmac_eqb (a b : option (bytes * option bytes)) : bool :=
  opt_eqb (fun x y => beq (fst x) (fst y) && ob_eqb (snd x) (snd y)) a b.

Definition passkey_eqb (a b : passkey) : bool :=
  keymat_eqb (pk_key a) (pk_key b) && beq (pk_cred_id a) (pk_cred_id b) && beq (pk_rp_id a) (pk_rp_id b)
  && ob_eqb (pk_user_handle a) (pk_user_handle b) && opt_eqb N.eqb (pk_counter a) (pk_counter b)
  && hmac_eqb (pk_hmac a) (pk_hmac b).

Definition user_eqb (a b : user_entity) : bool :=
  beq (u_id a) (u_id b) && ob_eqb (u_name a) (u_name b) && ob_eqb (u_display a) (u_display b).
Definition rp_eqb (a b : rp_entity) : bool := beq (rp_id a) (rp_id b) && ob_eqb (rp_name a) (rp_name b).
Definition options_eqb (a b : options) : bool :=
  bool_eqb (o_rk a) (o_rk b) && bool_eqb (o_up a) (o_up b) && bool_eqb (o_uv a) (o_uv b).

Definition eff_eqb (a b : eff) : bool :=
  match a, b with
  | EFind i r, EFind i' r' => opt_eqb (list_eqb beq) i i' && beq r r'
  | ESave p u r o, ESave p' u' r' o' => passkey_eqb p p' && user_eqb u u' && rp_eqb r r' && options_eqb o o'
  | EUpdate p, EUpdate p' => passkey_eqb p p'
  | EStoreInfo, EStoreInfo | EVerifEnabled, EVerifEnabled | EPresenceEnabled, EPresenceEnabled => true
  | ECheckUser c up uv, ECheckUser c' up' uv' => opt_eqb passkey_eqb c c' && bool_eqb up up' && bool_eqb uv uv'
  | ERand n, ERand n' => n =? n'
  | EKeyGen, EKeyGen => true
  | ESign k m, ESign k' m' => beq k k' && beq m m'
  | EHmac k s, EHmac k' s' => beq k k' && beq s s'
  | _, _ => false
  end.

Definition internal (e : eff) : bool :=
  match e with ERand _ | EKeyGen | ESign _ _ | EHmac _ _ => true | _ => false end.

(** queues of answers for the internal events *)
Record queues := { q_rand : list bytes; q_key : list (bytes * bytes * bytes); q_sig : list bytes; q_hmac : list bytes }.

Definition pop {A} (d : A) (l : list A) : A * list A :=
  match l with [] => (d, []) | x :: r => (x, r) end.

Inductive replayed (R : Type) :=
| RDone (r : R) (events : list (eff * answer))   (* finished; the internal events it performed *)
| RMismatch (pos : nat) (model : eff)            (* the model's call differs from the logged one *)
| RLogShort (pos : nat) (model : eff)            (* the model makes a call the log does not have *)
| RLogLong (pos : nat)                           (* the real run made more calls *)
| RStuck (pos : nat).
Arguments RDone {R}. Arguments RMismatch {R}. Arguments RLogShort {R}. Arguments RLogLong {R}. Arguments RStuck {R}.

Fixpoint replay {R} (p : prog R) (log : list (eff * answer)) (q : queues) (pos : nat)
  : replayed R :=
  match p with
  | Ret r => match log with [] => RDone r [] | _ => RLogLong pos end
  | Stuck => RStuck pos
  | Call e k =>
      if internal e then
        let '(a, q') :=
          match e with
          | ERand _ => let '(b, r) := pop [] (q_rand q) in (ABytes b, {| q_rand := r; q_key := q_key q; q_sig := q_sig q; q_hmac := q_hmac q |})
          | EKeyGen => let '(kk, r) := pop ([], [], []) (q_key q) in
                       (AKey (fst (fst kk)) (snd (fst kk)) (snd kk), {| q_rand := q_rand q; q_key := r; q_sig := q_sig q; q_hmac := q_hmac q |})
          | ESign _ _ => let '(b, r) := pop [] (q_sig q) in (ABytes b, {| q_rand := q_rand q; q_key := q_key q; q_sig := r; q_hmac := q_hmac q |})
          | _ => let '(b, r) := pop [] (q_hmac q) in (ABytes b, {| q_rand := q_rand q; q_key := q_key q; q_sig := q_sig q; q_hmac := r |})
          end in
        match replay (k a) log q' pos with
        | RDone r ev => RDone r ((e, a) :: ev)
        | other => other
        end
      else
        match log with
        | [] => RLogShort pos e
        | (e', a) :: log' =>
            if eff_eqb e e' then replay (k a) log' q (S pos) else RMismatch pos e
        end
  end.

(** *** authenticator data bytes as the ceremonies produce them (no extensions: [signed] outputs
    are always absent in this code base) *)
Section AdBytes.
Variable sha256 : bytes -> bytes.

Definition cbor_head (major n : N) : bytes :=
  if n <? 24 then [major * 32 + n]
  else if n <? 256 then [major * 32 + 24; n]
  else if n <? 65536 then (major * 32 + 25) :: be16 n
  else (major * 32 + 26) :: be32 n.

Definition cbor_int (z : Z) : bytes :=
  if (0 <=? z)%Z then cbor_head 0 (Z.to_N z) else cbor_head 1 (Z.to_N (-1 - z)%Z).

(** coset's encoding of an EC2 P-256 public key with an algorithm *)
Definition cose_pub_bytes (x y : bytes) (alg : Z) : bytes :=
  [165; 1; 2; 3] ++ cbor_int alg ++ [32; 1; 33] ++ cbor_head 2 (N.of_nat (length x)) ++ x
  ++ [34] ++ cbor_head 2 (N.of_nat (length y)) ++ y.

Definition ad_bytes (ad : auth_data) : bytes :=
  sha256 (ad_rp_id ad)
  ++ [match ad_acd ad with Some _ => N.lor (ad_flags ad) F_AT | None => ad_flags ad end]
  ++ be32 (match ad_counter ad with Some c => c | None => 0 end)
  ++ match ad_acd ad with
     | Some a => acd_aaguid a ++ be16 (N.of_nat (length (acd_cred_id a))) ++ acd_cred_id a
                 ++ cose_pub_bytes (acd_x a) (acd_y a) (acd_alg a)
     | None => []
     end.
End AdBytes.
