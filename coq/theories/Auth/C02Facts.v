(** C02: a successful registration returns a credential a standard relying party can verify.

    Theorems about the model programs [Client.register] / [Authenticator.make_credential] for EVERY
    request, configuration, client-data mode and answer script:
    - a structural reading of any successful run ([make_credential_ok_inv], [register_ok_inv]): which
      events the trace consists of, in which order, and how every field of the result is made of the
      request and of the answers of [ERand] / [EKeyGen];
    - what a relying party reads back from the returned bytes ([cd_view], [cbor_decode],
      [parse_authdata_spec]: the independent decoders);
    - the store before/after under the reference store ([History.exec]). *)
From Coq Require Import ZArith ZifyBool ZifyNat ZifyN Lia.
From PK Require Import Lib.Check Lib.Sha256 Lib.Base64 Lib.Base64Facts Lib.Cbor Lib.CborFacts Wire.AuthDataSpec.
From PK Require Wire.AuthData Wire.AuthDataFacts.
From PK Require Export Auth.C0203Check Auth.History.
Open Scope N_scope.

(** * Running sequenced programs *)
Lemma interp_bind {A B} (p : prog A) (f : A -> prog B) : forall script,
  interp (bind p f) script =
  let '(tr1, r1) := interp p script in
  match r1 with
  | None => (tr1, None)
  | Some a => let '(tr2, r2) := interp (f a) (skipn (length tr1) script) in (tr1 ++ tr2, r2)
  end.
Proof.
  induction p as [a|e k IH|]; intros script; cbn [bind interp].
  - cbn [length skipn app]. destruct (interp (f a) script). reflexivity.
  - destruct script as [|x script]; [reflexivity|]. rewrite IH.
    destruct (interp (k x) script) as [tr1 [a|]]; [|reflexivity].
    cbn [length skipn]. destruct (interp (f a) (skipn (length tr1) script)). reflexivity.
  - reflexivity.
Qed.

Lemma interp_bind_some {A B} (p : prog A) (f : A -> prog B) script tr r :
  interp (bind p f) script = (tr, Some r) ->
  exists tr1 a tr2, interp p script = (tr1, Some a)
    /\ interp (f a) (skipn (length tr1) script) = (tr2, Some r) /\ tr = tr1 ++ tr2.
Proof.
  rewrite interp_bind. destruct (interp p script) as [tr1 [a|]]; [|discriminate].
  destruct (interp (f a) (skipn (length tr1) script)) as [tr2 r2] eqn:E. intros [= <- ->].
  exists tr1, a, tr2. auto.
Qed.

Lemma interp_ret {A} (a r : A) script tr : interp (Ret a) script = (tr, Some r) -> tr = [] /\ r = a.
Proof. cbn. intros [= <- <-]. auto. Qed.

Lemma interp_call {A} e (k : answer -> prog A) script tr r :
  interp (Call e k) script = (tr, Some r) ->
  exists a tr', interp (k a) (tl script) = (tr', Some r) /\ tr = (e, a) :: tr' /\ hd_error script = Some a.
Proof.
  cbn [interp]. destruct script as [|a script]; [discriminate|].
  destruct (interp (k a) script) as [tr' r'] eqn:E. intros [= <- ->]. exists a, tr'. auto.
Qed.

(** the typed calls: a finished call received an answer of the right shape *)
Ltac typed_inv :=
  let a := fresh "a" in let tr' := fresh "tr'" in let H1 := fresh in let H2 := fresh in
  intros H; apply interp_call in H; destruct H as (a & tr' & H1 & H2 & _);
  destruct a; try discriminate H1; apply interp_ret in H1; destruct H1 as [-> ->]; subst; reflexivity.

Lemma rand_inv n script tr b : interp (rand n) script = (tr, Some b) -> tr = [(ERand n, ABytes b)].
Proof. unfold rand. typed_inv. Qed.
Lemma keygen_inv script tr kp : interp keygen script = (tr, Some kp) -> tr = [(EKeyGen, AKey (fst (fst kp)) (snd (fst kp)) (snd kp))].
Proof. unfold keygen. typed_inv. Qed.
Lemma store_info_inv script tr d : interp store_info script = (tr, Some d) -> tr = [(EStoreInfo, AInfo d)].
Proof. unfold store_info. typed_inv. Qed.
Lemma save_inv p u rp o script tr r : interp (save p u rp o) script = (tr, Some r) -> tr = [(ESave p u rp o, AUnit r)].
Proof. unfold save. typed_inv. Qed.
Lemma update_inv p script tr r : interp (update p) script = (tr, Some r) -> tr = [(EUpdate p, AUnit r)].
Proof. unfold update. typed_inv. Qed.
Lemma find_inv ids rp script tr r : interp (find_creds ids rp) script = (tr, Some r) -> tr = [(EFind ids rp, AFind r)].
Proof. unfold find_creds. typed_inv. Qed.
Lemma sign_inv k m script tr sg : interp (sign k m) script = (tr, Some sg) -> tr = [(ESign k m, ABytes sg)].
Proof. unfold sign. typed_inv. Qed.
Lemma verif_inv script tr v : interp verif_enabled script = (tr, Some v) -> tr = [(EVerifEnabled, AOptBool v)].
Proof. unfold verif_enabled. typed_inv. Qed.
Lemma ask_user_inv cred up uv script tr r : interp (ask_user cred up uv) script = (tr, Some r) -> tr = [(ECheckUser cred up uv, ACheck r)].
Proof. unfold ask_user. typed_inv. Qed.

(** a program that performs only effects of a class leaves only such events in the trace *)
Definition all_in (al : eff -> bool) (tr : trace) : Prop := Forall (fun ea => al (fst ea) = true) tr.

Lemma only_trace {A} al (p : prog A) : only al p -> forall script, all_in al (fst (interp p script)).
Proof.
  induction p as [a|e k IH|]; intros Ho script; cbn [interp fst]; try constructor.
  destruct Ho as [He Hk]. destruct script as [|x script]; [constructor|].
  specialize (IH x (Hk x) script). destruct (interp (k x) script) as [tr r]. cbn [fst] in *.
  constructor; assumption.
Qed.

Lemma only_trace' {A} al (p : prog A) script tr r : only al p -> interp p script = (tr, r) -> all_in al tr.
Proof. intros Ho E. pose proof (only_trace al p Ho script) as H. rewrite E in H. exact H. Qed.

Lemma all_in_app al a b : all_in al (a ++ b) <-> all_in al a /\ all_in al b.
Proof. apply Forall_app. Qed.

Lemma all_in_weaken (al al' : eff -> bool) tr : (forall e, al e = true -> al' e = true) -> all_in al tr -> all_in al' tr.
Proof. intros H F. eapply Forall_impl; [|exact F]. intros ea. apply H. Qed.

(** * The user check *)
Lemma ret_err_not_ok {A E} (e : E) (r : A) script (tr : trace) :
  interp (Ret (@Err A E e)) script = (tr, Some (Ok r)) -> False.
Proof. intros H. apply interp_ret in H. destruct H as [_ H]. discriminate H. Qed.

Definition user_flags (p v : bool) : N := N.lor (if p then F_UP else 0) (if v then F_UV else 0).

(** a successful user check: the capability was Some(true) when verification was required, the user
    reported presence / verification as required, and the flags say exactly what was reported *)
Lemma check_user_ok_inv o cred script tr fl :
  interp (check_user o cred) script = (tr, Some (Ok fl)) ->
  exists p v, fl = user_flags p v /\ (o_up o = true -> p = true) /\ (o_uv o = true -> v = true)
    /\ tr = (if o_uv o then [(EVerifEnabled, AOptBool (Some true))] else [])
            ++ [(ECheckUser cred (o_up o) (o_uv o), ACheck (Ok (p, v)))].
Proof.
  assert (K : forall script tr,
    interp (r <- ask_user cred (o_up o) (o_uv o) ;;
            match r with
            | Err e => Ret (Err e)
            | Ok (presence, verification) =>
                if o_up o && negb presence then Ret (Err CTAP2_OperationDenied)
                else if o_uv o && negb verification then Ret (Err CTAP2_OperationDenied)
                else Ret (Ok (N.lor (if presence then F_UP else 0) (if verification then F_UV else 0)))
            end) script = (tr, Some (Ok fl)) ->
    exists p v, fl = user_flags p v /\ (o_up o = true -> p = true) /\ (o_uv o = true -> v = true)
      /\ tr = [(ECheckUser cred (o_up o) (o_uv o), ACheck (Ok (p, v)))]).
  { intros s t H. apply interp_bind_some in H as (t1 & r & t2 & H1 & H2 & ->).
    apply ask_user_inv in H1. subst t1. destruct r as [[p v]|e]; [|exfalso; eapply ret_err_not_ok; exact H2].
    destruct (o_up o && negb p) eqn:E1; [exfalso; eapply ret_err_not_ok; exact H2|].
    destruct (o_uv o && negb v) eqn:E2; [exfalso; eapply ret_err_not_ok; exact H2|].
    apply interp_ret in H2 as [-> H2]. injection H2 as ->. exists p, v. repeat split.
    - intros Hu. rewrite Hu in E1. destruct p; [reflexivity|discriminate].
    - intros Hu. rewrite Hu in E2. destruct v; [reflexivity|discriminate]. }
  unfold check_user. destruct (o_uv o) eqn:Huv.
  - intros H. apply interp_bind_some in H as (t1 & cap & t2 & H1 & H2 & ->).
    apply verif_inv in H1. subst t1. destruct cap as [[|]|]; cbn [opt_is_true negb] in H2;
      try (exfalso; eapply ret_err_not_ok; exact H2).
    apply K in H2 as (p & v & A & B & C & ->). exists p, v. auto.
  - intros H. apply K in H as (p & v & A & B & C & ->). exists p, v. auto.
Qed.

Lemma get_info_inv c script tr info :
  interp (get_info c) script = (tr, Some info) ->
  exists d uv up, tr = [(EStoreInfo, AInfo d); (EVerifEnabled, AOptBool uv); (EPresenceEnabled, ABool up)]
    /\ info = {| i_prf_ext := match c_hmac c with Some _ => true | None => false end; i_aaguid := c_aaguid c;
                 i_rk := negb (disc_eqb d OnlyNonDiscoverable); i_uv := uv; i_up := up |}.
Proof.
  unfold get_info. intros H.
  apply interp_bind_some in H as (t1 & d & t2 & H1 & H & ->). apply store_info_inv in H1. subst t1.
  apply interp_bind_some in H as (t1 & uv & t2' & H1 & H & ->). apply verif_inv in H1. subst t1.
  apply interp_bind_some in H as (t1 & up & t2'' & H1 & H & ->).
  unfold presence_enabled in H1. apply interp_call in H1 as (a & tr' & H1 & -> & _).
  destruct a; try discriminate H1. apply interp_ret in H1 as [-> <-].
  apply interp_ret in H as [-> ->]. exists d, uv, up. split; reflexivity.
Qed.

(** * Registration at the authenticator: reading a successful run *)

(** the passkey handed to the store and the authenticator data returned *)
Definition mc_passkey (c : config) (q : mc_request) (cred_id d x y : bytes) (alg : Z)
  (cred_ext : option (bytes * option bytes)) (disc : discoverability) : passkey :=
  {| pk_key := {| k_es256 := Z.eqb alg ES256; k_ec2 := true; k_d := Some d; k_x := x; k_y := y |};
     pk_cred_id := cred_id;
     pk_rp_id := rp_id (mc_rp q);
     pk_user_handle := if is_discoverable disc (o_rk (mc_opts q)) then Some (u_id (mc_user q)) else None;
     pk_counter := if c_counter c then Some 0 else None;
     pk_hmac := cred_ext |}.

Definition mc_auth_data (c : config) (q : mc_request) (flags : N) (cred_id x y : bytes) (alg : Z) : auth_data :=
  {| ad_rp_id := rp_id (mc_rp q);
     ad_flags := N.lor (N.lor F_DEFAULT flags) F_AT;
     ad_counter := if c_counter c then Some 0 else None;
     ad_acd := Some {| acd_aaguid := c_aaguid c; acd_cred_id := cred_id; acd_x := x; acd_y := y; acd_alg := alg |} |}.

(** events that create nothing, change nothing and sign nothing: capability queries, the user check,
    lookups *)
Definition quiet (e : eff) : bool :=
  match e with
  | EStoreInfo | EVerifEnabled | EPresenceEnabled | ECheckUser _ _ _ | EFind _ _ => true
  | _ => false
  end.

Lemma mc_after_rk_ok_inv c q flags alg script tr resp :
  interp (mc_after_rk c q flags alg) script = (tr, Some (Ok resp)) ->
  exists cred_id d x y t_ext cred_ext unsigned disc,
    tr = [(ERand (c_id_len c), ABytes cred_id); (EKeyGen, AKey d x y)] ++ t_ext
         ++ [(EStoreInfo, AInfo disc);
             (ESave (mc_passkey c q cred_id d x y alg cred_ext disc) (mc_user q) (mc_rp q) (mc_opts q), AUnit (Ok tt))]
    /\ all_in is_rand_or_hmac t_ext
    /\ resp = {| mr_auth_data := mc_auth_data c q flags cred_id x y alg; mr_prf := unsigned |}.
Proof.
  unfold mc_after_rk. intros H.
  destruct (mc_pin_auth q); [exfalso; eapply ret_err_not_ok; exact H|].
  apply interp_bind_some in H as (t1 & cred_id & t2 & H1 & H & ->). apply rand_inv in H1. subst t1.
  apply interp_bind_some in H as (t1 & kp & t2' & H1 & H & ->). apply keygen_inv in H1. subst t1.
  destruct kp as [[d x] y]. cbn [fst snd] in *.
  apply interp_bind_some in H as (t_ext & ex & t3 & H1 & H & ->).
  pose proof (only_trace' _ _ _ _ _ (make_extensions_only c (mc_ext q) (o_uv (mc_opts q))) H1) as Hext.
  destruct ex as [[cred_ext unsigned]|e]; [|exfalso; eapply ret_err_not_ok; exact H].
  apply interp_bind_some in H as (t1 & disc & t4 & H2 & H & ->). apply store_info_inv in H2. subst t1.
  apply interp_bind_some in H as (t1 & s & t5 & H2 & H & ->). apply save_inv in H2. subst t1.
  destruct s as [[]|e]; [|exfalso; eapply ret_err_not_ok; exact H].
  apply interp_ret in H as [-> H]. injection H as ->.
  exists cred_id, d, x, y, t_ext, cred_ext, unsigned, disc. split; [|split; [exact Hext|reflexivity]].
  rewrite app_nil_r. reflexivity.
Qed.

Lemma mc_after_exclude_ok_inv c q flags script tr resp :
  interp (mc_after_exclude c q flags) script = (tr, Some (Ok resp)) ->
  exists alg t_rk cred_id d x y t_ext cred_ext unsigned disc,
    choose_algorithm c (mc_params q) = Some alg
    /\ tr = t_rk ++ [(ERand (c_id_len c), ABytes cred_id); (EKeyGen, AKey d x y)] ++ t_ext
            ++ [(EStoreInfo, AInfo disc);
                (ESave (mc_passkey c q cred_id d x y alg cred_ext disc) (mc_user q) (mc_rp q) (mc_opts q), AUnit (Ok tt))]
    /\ all_in quiet t_rk /\ all_in is_rand_or_hmac t_ext
    /\ resp = {| mr_auth_data := mc_auth_data c q flags cred_id x y alg; mr_prf := unsigned |}.
Proof.
  unfold mc_after_exclude. intros H.
  destruct (choose_algorithm c (mc_params q)) as [alg|]; [|exfalso; eapply ret_err_not_ok; exact H].
  destruct (o_rk (mc_opts q)).
  - apply interp_bind_some in H as (t1 & info & t2 & H1 & H & ->).
    apply get_info_inv in H1 as (d0 & uv & up & -> & ->). cbn [i_rk] in H.
    destruct (negb (negb (disc_eqb d0 OnlyNonDiscoverable))); [exfalso; eapply ret_err_not_ok; exact H|].
    apply mc_after_rk_ok_inv in H as (cred_id & d & x & y & t_ext & ce & un & disc & -> & Hext & ->).
    exists alg, [(EStoreInfo, AInfo d0); (EVerifEnabled, AOptBool uv); (EPresenceEnabled, ABool up)],
      cred_id, d, x, y, t_ext, ce, un, disc.
    repeat split; auto. repeat constructor.
  - apply mc_after_rk_ok_inv in H as (cred_id & d & x & y & t_ext & ce & un & disc & -> & Hext & ->).
    exists alg, [], cred_id, d, x, y, t_ext, ce, un, disc. repeat split; auto. constructor.
Qed.

Theorem make_credential_ok_inv c q script tr resp :
  interp (make_credential c q) script = (tr, Some (Ok resp)) ->
  exists p v alg t_pre cred_id d x y t_ext cred_ext unsigned disc,
    o_up (mc_opts q) = true /\ (o_uv (mc_opts q) = true -> v = true) /\ p = true
    /\ choose_algorithm c (mc_params q) = Some alg
    /\ tr = t_pre ++ [(ERand (c_id_len c), ABytes cred_id); (EKeyGen, AKey d x y)] ++ t_ext
            ++ [(EStoreInfo, AInfo disc);
                (ESave (mc_passkey c q cred_id d x y alg cred_ext disc) (mc_user q) (mc_rp q) (mc_opts q), AUnit (Ok tt))]
    /\ all_in quiet t_pre /\ all_in is_rand_or_hmac t_ext
    /\ resp = {| mr_auth_data := mc_auth_data c q (user_flags p v) cred_id x y alg; mr_prf := unsigned |}.
Proof.
  unfold make_credential. intros H.
  destruct (o_up (mc_opts q)) eqn:Hup; cbn [negb] in H; [|exfalso; eapply ret_err_not_ok; exact H].
  apply interp_bind_some in H as (t1 & fl & t2 & H1 & H & ->).
  destruct fl as [flags|e]; [|exfalso; eapply ret_err_not_ok; exact H].
  apply check_user_ok_inv in H1 as (p & v & -> & Hp & Hv & ->). rewrite Hup in *. specialize (Hp eq_refl).
  assert (Q1 : all_in quiet ((if o_uv (mc_opts q) then [(EVerifEnabled, AOptBool (Some true))] else [])
                            ++ [(ECheckUser None true (o_uv (mc_opts q)), ACheck (Ok (p, v)))])).
  { destruct (o_uv (mc_opts q)); repeat constructor. }
  set (t_cu := (if o_uv (mc_opts q) then [(EVerifEnabled, AOptBool (Some true))] else []) ++ _) in *.
  assert (FIN : forall s t, interp (mc_after_exclude c q (user_flags p v)) s = (t, Some (Ok resp)) ->
     forall t0, all_in quiet t0 ->
     exists alg t_pre cred_id d x y t_ext cred_ext unsigned disc,
       choose_algorithm c (mc_params q) = Some alg
       /\ (t_cu ++ t0) ++ t = t_pre ++ [(ERand (c_id_len c), ABytes cred_id); (EKeyGen, AKey d x y)] ++ t_ext
            ++ [(EStoreInfo, AInfo disc);
                (ESave (mc_passkey c q cred_id d x y alg cred_ext disc) (mc_user q) (mc_rp q) (mc_opts q), AUnit (Ok tt))]
       /\ all_in quiet t_pre /\ all_in is_rand_or_hmac t_ext
       /\ resp = {| mr_auth_data := mc_auth_data c q (user_flags p v) cred_id x y alg; mr_prf := unsigned |}).
  { intros s t G t0 Q0.
    apply mc_after_exclude_ok_inv in G as (alg & t_rk & cred_id & d & x & y & t_ext & ce & un & disc & Ha & -> & Qrk & Hext & ->).
    exists alg, ((t_cu ++ t0) ++ t_rk), cred_id, d, x, y, t_ext, ce, un, disc.
    repeat split; auto.
    - rewrite <- !app_assoc. reflexivity.
    - apply all_in_app. split; [apply all_in_app; split; assumption|exact Qrk]. }
  unfold mc_after_consent in H.
  destruct (mc_exclude q) as [[|id ids]|].
  - destruct (FIN _ _ H [] ltac:(constructor)) as (alg & t_pre & cid & d & x & y & te & ce & un & disc & A & B & C & D & E).
    rewrite app_nil_r in B. exists p, v, alg, t_pre, cid, d, x, y, te, ce, un, disc. repeat split; auto.
  - apply interp_bind_some in H as (t1 & r & t3 & H1 & H & ->). apply find_inv in H1. subst t1.
    assert (Qf : all_in quiet [(EFind (Some (id :: ids)) (rp_id (mc_rp q)), AFind r)]) by (repeat constructor).
    destruct r as [[|x0 l]|e].
    + destruct (FIN _ _ H _ Qf) as (alg & t_pre & cid & d & x & y & te & ce & un & disc & A & B & C & D & E).
      rewrite <- app_assoc in B. exists p, v, alg, t_pre, cid, d, x, y, te, ce, un, disc. repeat split; auto.
    + exfalso. eapply ret_err_not_ok. exact H.
    + destruct (FIN _ _ H _ Qf) as (alg & t_pre & cid & d & x & y & te & ce & un & disc & A & B & C & D & E).
      rewrite <- app_assoc in B. exists p, v, alg, t_pre, cid, d, x, y, te, ce, un, disc. repeat split; auto.
  - destruct (FIN _ _ H [] ltac:(constructor)) as (alg & t_pre & cid & d & x & y & te & ce & un & disc & A & B & C & D & E).
    rewrite app_nil_r in B. exists p, v, alg, t_pre, cid, d, x, y, te, ce, un, disc. repeat split; auto.
Qed.

(** * Registration at the client: reading a successful run *)
Definition reg_params (q : reg_request) : list Z := match rq_params q with [] => [ES256; (-257)%Z] | l => l end.

Definition reg_passkey (c : config) (rp : bytes) (q : reg_request) (rk : bool) (cred_id d x y : bytes)
  (cred_ext : option (bytes * option bytes)) (disc : discoverability) : passkey :=
  {| pk_key := {| k_es256 := true; k_ec2 := true; k_d := Some d; k_x := x; k_y := y |};
     pk_cred_id := cred_id;
     pk_rp_id := rp;
     pk_user_handle := if is_discoverable disc rk then Some (u_id (rq_user q)) else None;
     pk_counter := if c_counter c then Some 0 else None;
     pk_hmac := cred_ext |}.

Definition reg_auth_data (c : config) (rp : bytes) (p v : bool) (cred_id x y : bytes) : auth_data :=
  {| ad_rp_id := rp;
     ad_flags := N.lor (N.lor F_DEFAULT (user_flags p v)) F_AT;
     ad_counter := if c_counter c then Some 0 else None;
     ad_acd := Some {| acd_aaguid := c_aaguid c; acd_cred_id := cred_id; acd_x := x; acd_y := y; acd_alg := ES256 |} |}.

(** everything a successful registration consists of *)
Definition RegistrationRun (c : config) (rp origin : bytes) (q : reg_request) (cd : cd_mode) (tr : trace) (cr : created)
  (cred_id d x y : bytes) (pk : passkey) : Prop :=
  exists (p v rk : bool) t_pre t_ext cred_ext disc dlast u rpe opts,
    tr = t_pre ++ [(ERand (c_id_len c), ABytes cred_id); (EKeyGen, AKey d x y)] ++ t_ext
         ++ [(EStoreInfo, AInfo disc); (ESave pk u rpe opts, AUnit (Ok tt)); (EStoreInfo, AInfo dlast)]
    /\ all_in quiet t_pre /\ all_in is_rand_or_hmac t_ext
    /\ pk = reg_passkey c rp q rk cred_id d x y cred_ext disc
    /\ choose_algorithm c (reg_params q) = Some ES256
    /\ length x = 32%nat /\ length y = 32%nat
    /\ cr_raw_id cr = cred_id
    /\ cr_id cr = b64url_encode cred_id
    /\ cr_client_data_json cr = client_data_json T_CREATE (rq_challenge q) origin cd
    /\ cr_auth_data cr = ad_bytes sha256 (reg_auth_data c rp p v cred_id x y)
    /\ cr_att_obj cr = attestation_object (cr_auth_data cr)
    /\ cr_public_key cr = Some (spki_der x y)
    /\ cr_alg cr = ES256.

Theorem register_ok_inv c rp origin q cd script tr cr :
  interp (register c (Ok rp) origin q cd) script = (tr, Some (Ok cr)) ->
  exists cred_id d x y pk, RegistrationRun c rp origin q cd tr cr cred_id d x y pk.
Proof.
  unfold register. intros H.
  apply interp_bind_some in H as (t1 & info & t2 & H1 & H & ->).
  apply get_info_inv in H1 as (d0 & uv0 & up0 & -> & ->). cbn [i_prf_ext i_rk] in H.
  destruct (registration_ext _ _) as [ctap_ext|e]; [|exfalso; eapply ret_err_not_ok; exact H].
  apply interp_bind_some in H as (t_mc & r & t3 & H1 & H & ->).
  destruct r as [resp|s]; [|exfalso; eapply ret_err_not_ok; exact H].
  apply make_credential_ok_inv in H1
    as (p & v & alg & t_pre & cred_id & d & x & y & t_ext & ce & un & disc & _ & _ & _ & Halg & -> & Qpre & Qext & ->).
  cbn [mr_auth_data mc_auth_data ad_acd mc_params] in H. cbn [acd_alg acd_x acd_y acd_cred_id] in H.
  destruct (Z.eqb_spec alg ES256) as [->|Hne]; cbn [negb] in H; [|exfalso; eapply ret_err_not_ok; exact H].
  destruct (Nat.eqb_spec (length x) 32) as [Hx|Hx]; cbn [andb negb] in H; [|exfalso; eapply ret_err_not_ok; exact H].
  destruct (Nat.eqb_spec (length y) 32) as [Hy|Hy]; cbn [andb negb] in H; [|exfalso; eapply ret_err_not_ok; exact H].
  apply interp_bind_some in H as (t4 & dlast & t5 & H2 & H & ->). apply store_info_inv in H2. subst t4.
  apply interp_ret in H as [-> H]. injection H as ->.
  eexists cred_id, d, x, y, _.
  exists p, v, (map_rk (rq_selection q) (negb (disc_eqb d0 OnlyNonDiscoverable))),
    ([(EStoreInfo, AInfo d0); (EVerifEnabled, AOptBool uv0); (EPresenceEnabled, ABool up0)] ++ t_pre),
    t_ext, ce, disc, dlast.
  eexists _, _, _. split; [|split; [|split; [exact Qext|split; [reflexivity|]]]].
  - rewrite app_nil_r. rewrite <- !app_assoc. cbn [app]. reflexivity.
  - apply all_in_app. split; [repeat constructor|exact Qpre].
  - repeat split; auto.
Qed.

(** * What a relying party reads back: client data *)
Lemma expect_app p : forall s, expect p (p ++ s) = Some s.
Proof. induction p as [|x p IH]; intros s; cbn [expect app]; [reflexivity|]. rewrite N.eqb_refl. apply IH. Qed.

Definition plain (c : N) : bool := (32 <=? c) && negb (c =? 34) && negb (c =? 92).

Lemma read_plain s : forall X, forallb plain s = true -> read_jstring (s ++ 34 :: X) = Some (s, X).
Proof.
  induction s as [|c s IH]; intros X H; cbn [app read_jstring forallb] in *; [reflexivity|].
  apply andb_true_iff in H as [Hc Hs]. unfold plain in Hc.
  replace (c =? 34) with false by lia. replace (c =? 92) with false by lia. replace (c <? 32) with false by lia.
  rewrite (IH X Hs). reflexivity.
Qed.

Lemma lt32_cases c : c < 32 -> In c (map N.of_nat (seq 0 32)).
Proof. intros H. replace c with (N.of_nat (N.to_nat c)) by lia. apply in_map, in_seq. lia. Qed.

(** serde_json's escaping of one byte is read back as that byte *)
Lemma read_escaped_char c r t rest :
  read_jstring r = Some (t, rest) ->
  read_jstring ((if c =? 34 then [92; 34] else if c =? 92 then [92; 92]
                 else if c =? 8 then [92; 98] else if c =? 9 then [92; 116] else if c =? 10 then [92; 110]
                 else if c =? 12 then [92; 102] else if c =? 13 then [92; 114]
                 else if c <? 32 then [92; 117; 48; 48; hexdig (c / 16); hexdig (c mod 16)]
                 else [c]) ++ r) = Some (c :: t, rest).
Proof.
  intros H. destruct (N.ltb_spec c 32) as [L|L].
  - apply lt32_cases in L. cbn [seq map N.of_nat Pos.of_succ_nat Pos.succ] in L.
    repeat (destruct L as [<-|L]; [vm_compute hexdig; cbn [N.eqb Pos.eqb app read_jstring]; cbv beta iota; cbn; rewrite H; reflexivity|]).
    destruct L.
  - destruct (N.eqb_spec c 34) as [->|N1]; [cbn; rewrite H; reflexivity|].
    destruct (N.eqb_spec c 92) as [->|N2]; [cbn; rewrite H; reflexivity|].
    replace (c =? 8) with false by lia. replace (c =? 9) with false by lia. replace (c =? 10) with false by lia.
    replace (c =? 12) with false by lia. replace (c =? 13) with false by lia.
    cbn [app read_jstring].
    replace (c =? 34) with false by lia. replace (c =? 92) with false by lia. replace (c <? 32) with false by lia.
    rewrite H. reflexivity.
Qed.

Theorem read_json_escape s : forall X, read_jstring (json_escape s ++ 34 :: X) = Some (s, X).
Proof.
  induction s as [|c s IH]; intros X; [reflexivity|].
  cbn [json_escape]. rewrite <- app_assoc. apply read_escaped_char. apply IH.
Qed.

Lemma url_alpha_plain c : url_alpha c = true -> plain c = true.
Proof. unfold url_alpha, plain. lia. Qed.

Lemma url_alpha_b64 c : b64_alpha true c = url_alpha c.
Proof. reflexivity. Qed.

Lemma b64url_chars b : bytes_ok b -> forallb url_alpha (b64url_encode b) = true.
Proof.
  intros H. apply forallb_forall. intros c Hc.
  pose proof (b64url_encode_alphabet b H) as F. rewrite Forall_forall in F. rewrite <- url_alpha_b64. apply F, Hc.
Qed.

Definition P_CROSS : bytes := [44;34;99;114;111;115;115;79;114;105;103;105;110;34;58;102;97;108;115;101].

(** the client data JSON of the model, read member by member: type, the challenge in unpadded
    base64url, the origin exactly as the caller gave it (whatever bytes it has: escaping is undone by
    any JSON reader), then crossOrigin false, the caller's extra members, the closing brace *)
Theorem client_data_view ty challenge origin cd :
  forallb plain ty = true -> bytes_ok challenge ->
  cd_view (client_data_json ty challenge origin cd)
  = Some (ty, b64url_encode challenge, origin,
          P_CROSS ++ (match cd with CdExtra tail => tail | _ => [] end) ++ [125]).
Proof.
  intros Hty Hch.
  assert (E : client_data_json ty challenge origin cd =
              P_TYPE ++ (ty ++ 34 :: (P_CHALLENGE ++ (b64url_encode challenge ++ 34 :: (P_ORIGIN
                ++ (json_escape origin ++ 34 :: (P_CROSS ++ (match cd with CdExtra tail => tail | _ => [] end) ++ [125]))))))).
  { unfold client_data_json. change J_TYPE with P_TYPE. change J_CHALLENGE with (34 :: P_CHALLENGE).
    change J_ORIGIN with (34 :: P_ORIGIN). change J_CROSS with P_CROSS.
    rewrite <- ?app_assoc. cbn [app]. reflexivity. }
  rewrite E. unfold cd_view. rewrite expect_app, (read_plain ty _ Hty), expect_app.
  rewrite read_plain.
  2:{ apply forallb_forall. intros c Hc. apply url_alpha_plain.
      pose proof (b64url_chars challenge Hch) as F. rewrite forallb_forall in F. apply F, Hc. }
  rewrite expect_app, read_json_escape. reflexivity.
Qed.

Theorem cd_ok_model ty challenge origin cd :
  forallb plain ty = true -> bytes_ok challenge ->
  cd_ok ty challenge origin (client_data_json ty challenge origin cd) = true.
Proof.
  intros Hty Hch. unfold cd_ok. rewrite client_data_view by assumption.
  rewrite !beq_refl, (b64url_chars _ Hch), (b64url_round _ Hch). cbn [opt_eqb]. rewrite beq_refl. reflexivity.
Qed.

Lemma plain_create : forallb plain T_CREATE = true. Proof. reflexivity. Qed.
Lemma plain_get : forallb plain T_GET = true. Proof. reflexivity. Qed.

(** * What a relying party reads back: authenticator data and the attestation object *)
Notation ec2_es256 x y := (AuthData.ec2_pub_key 1 x y (Some ES256)).

Lemma cose_shape x y : length x = 32%nat -> length y = 32%nat ->
  cose_pub_bytes x y ES256 = [165;1;2;3;38;32;1;33;88;32] ++ x ++ [34;88;32] ++ y.
Proof.
  intros Hx Hy. unfold cose_pub_bytes. rewrite Hx, Hy.
  change (cbor_int ES256) with [38]. change (cbor_head 2 (N.of_nat 32)) with [88; 32].
  cbn [app]. rewrite <- ?app_assoc. reflexivity.
Qed.

Lemma cose_bytes_encode x y : length x = 32%nat -> length y = 32%nat ->
  cose_pub_bytes x y ES256 = cbor_encode (ec2_es256 x y).
Proof.
  intros Hx Hy. rewrite cose_shape by assumption.
  unfold AuthData.ec2_pub_key. cbn [app cbor_encode flat_map length]. rewrite Hx, Hy.
  change (head_encode 5 (N.of_nat 5)) with [165]. change (head_encode 2 (N.of_nat 32)) with [88; 32].
  change (head_encode 0 (Z.to_N 1)) with [1]. change (head_encode 0 (Z.to_N 2)) with [2].
  change (head_encode 0 (Z.to_N 3)) with [3].
  change (head_encode 1 (Z.to_N (-1 - ES256))) with [38].
  change (head_encode 1 (Z.to_N (-1 - -1))) with [32]. change (head_encode 1 (Z.to_N (-1 - -2))) with [33].
  change (head_encode 1 (Z.to_N (-1 - -3))) with [34].
  cbn [app]. rewrite <- ?app_assoc. cbn [app]. rewrite app_nil_r. reflexivity.
Qed.

Lemma cose_key_wf x y : bytes_ok x -> bytes_ok y -> length x = 32%nat -> length y = 32%nat ->
  cbor_wf (ec2_es256 x y) = true /\ (depth (ec2_es256 x y) < cbor_fuel)%nat /\ is_map (ec2_es256 x y) = true.
Proof.
  intros Bx By Hx Hy. split; [|split; [|reflexivity]].
  - unfold AuthData.ec2_pub_key. cbn [app cbor_wf forallb]. unfold len_ok. cbn [length]. rewrite Hx, Hy.
    rewrite (proj2 (bytes_okb_spec x) Bx), (proj2 (bytes_okb_spec y) By). reflexivity.
  - cbn. unfold cbor_fuel. lia.
Qed.

Lemma es256_key_model x y : es256_key (ec2_es256 x y) = Some (x, y).
Proof. reflexivity. Qed.

Lemma reg_flags_facts p v :
  let f := N.lor (N.lor F_DEFAULT (user_flags p v)) F_AT in
  N.lor f F_AT = f /\ N.testbit f 6 = true /\ N.testbit f 7 = false /\ f < 256
  /\ N.testbit f 0 = p /\ N.testbit f 2 = v.
Proof. destruct p, v; vm_compute; repeat split; reflexivity. Qed.

(** the authenticator data of a registration, read with the layout decoder written from the
    specification: SHA-256 of the effective RP ID, AT set, signature counter zero, and attested
    credential data with the configured AAGUID, the credential id and an ES256 COSE key with the
    coordinates of the key pair; no extension data, nothing after it *)
Theorem reg_authdata_parse c rp p v cred_id x y :
  length (c_aaguid c) = 16%nat -> N.of_nat (length cred_id) <= 65535 ->
  bytes_ok x -> bytes_ok y -> length x = 32%nat -> length y = 32%nat ->
  parse_authdata_spec (ad_bytes sha256 (reg_auth_data c rp p v cred_id x y)) =
  Some {| f_rp_id_hash := sha256 rp; f_flags := N.lor (N.lor F_DEFAULT (user_flags p v)) F_AT; f_sign_count := 0;
          f_acd := Some (c_aaguid c, cred_id, ec2_es256 x y); f_ext := None |}.
Proof.
  intros Hg Hl Bx By Hx Hy. unfold ad_bytes, reg_auth_data.
  cbn [ad_rp_id ad_flags ad_counter ad_acd acd_aaguid acd_cred_id acd_x acd_y acd_alg].
  destruct (reg_flags_facts p v) as (F1 & F6 & F7 & _). cbv zeta in F1, F6, F7.
  set (f := N.lor (N.lor F_DEFAULT (user_flags p v)) F_AT) in *. rewrite F1.
  replace (be32 (match (if c_counter c then Some 0 else None) with Some c0 => c0 | None => 0 end)) with [0;0;0;0]
    by (destruct (c_counter c); reflexivity).
  unfold be16. cbn [app].
  rewrite (AuthDataFacts.parse_authdata_spec_eq (sha256 rp) f 0 0 0 0 _ (sha256_length rp)).
  unfold AuthDataFacts.spec_body. rewrite F6, F7.
  rewrite AuthDataFacts.spec_acd_eq; [|exact Hg|].
  2:{ pose proof (be16_round (N.of_nat (length cred_id)) ltac:(lia)) as E. unfold be16_dec in E. rewrite E. apply Nat2N.id. }
  rewrite cose_bytes_encode by assumption.
  destruct (cose_key_wf x y Bx By Hx Hy) as (W & D & M).
  rewrite <- (app_nil_r (cbor_encode _)). rewrite AuthDataFacts.spec_map_item_encode by assumption.
  reflexivity.
Qed.

Lemma reg_authdata_bytes_ok c rp p v cred_id x y :
  bytes_ok (c_aaguid c) -> bytes_ok cred_id -> bytes_ok x -> bytes_ok y -> length x = 32%nat -> length y = 32%nat ->
  bytes_ok (ad_bytes sha256 (reg_auth_data c rp p v cred_id x y)).
Proof.
  intros Bg Bi Bx By Hx Hy. unfold ad_bytes, reg_auth_data.
  cbn [ad_rp_id ad_flags ad_counter ad_acd acd_aaguid acd_cred_id acd_x acd_y acd_alg].
  destruct (reg_flags_facts p v) as (F1 & _ & _ & Flt & _). cbv zeta in F1, Flt. rewrite F1.
  apply bytes_ok_app. split; [apply sha256_ok|].
  apply bytes_ok_app. split; [constructor; [exact Flt|constructor]|].
  apply bytes_ok_app. split; [apply be32_ok|].
  apply bytes_ok_app. split; [exact Bg|].
  apply bytes_ok_app. split; [unfold be16; repeat (constructor; [apply mod256_ok|]); constructor|].
  apply bytes_ok_app. split; [exact Bi|].
  rewrite cose_bytes_encode by assumption. apply encode_ok. apply (cose_key_wf x y Bx By Hx Hy).
Qed.

Lemma reg_authdata_length c rp p v cred_id x y :
  length (c_aaguid c) = 16%nat -> length x = 32%nat -> length y = 32%nat ->
  length (ad_bytes sha256 (reg_auth_data c rp p v cred_id x y)) = (132 + length cred_id)%nat.
Proof.
  intros Hg Hx Hy. unfold ad_bytes, reg_auth_data.
  cbn [ad_rp_id ad_flags ad_counter ad_acd acd_aaguid acd_cred_id acd_x acd_y acd_alg].
  rewrite cose_shape by assumption. rewrite !app_length, sha256_length, Hg, Hx, Hy. cbn [length be32 be16]. lia.
Qed.

(** the attestation object decodes to the three-member map fmt "none", attStmt {}, authData = the very
    bytes given *)
Theorem att_obj_decode adb : bytes_ok adb -> N.of_nat (length adb) < TWO64 ->
  cbor_decode cbor_fuel (attestation_object adb)
  = Some (CMap [(CText T_FMT, CText T_NONE); (CText T_ATTSTMT, CMap []); (CText T_AUTHDATA, CBytes adb)], []).
Proof.
  intros B L. unfold attestation_object. apply AuthDataFacts.decode_encode_nil.
  - assert (LA : len_ok adb = true) by (unfold len_ok; apply N.ltb_lt; exact L).
    cbn [cbor_wf forallb]. rewrite (proj2 (bytes_okb_spec adb) B), LA. reflexivity.
  - cbn. unfold cbor_fuel. lia.
Qed.

Theorem att_obj_ok_model adb : bytes_ok adb -> N.of_nat (length adb) < TWO64 ->
  att_obj_ok (attestation_object adb) adb = true.
Proof.
  intros B L. unfold att_obj_ok. rewrite att_obj_decode by assumption.
  change (beq T_FMT T_fmt) with true. change (beq T_NONE T_none) with true.
  change (beq T_ATTSTMT T_attStmt) with true. change (beq T_AUTHDATA T_authData) with true.
  rewrite beq_refl. reflexivity.
Qed.

(** * The statements of C02 *)

(** side conditions that are Rust types: an AAGUID is [u8; 16], the configured credential-id length went
    through [CredentialIdLength::from], [random_vec(n)] returns n bytes, key material is bytes *)
Definition config_wf (c : config) : Prop :=
  length (c_aaguid c) = 16%nat /\ bytes_ok (c_aaguid c) /\ 16 <= c_id_len c <= 64.

Definition answers_wf (tr : trace) : Prop :=
  forall e a, In (e, a) tr ->
    match e, a with
    | ERand n, ABytes b => N.of_nat (length b) = n /\ bytes_ok b
    | EKeyGen, AKey d x y => bytes_ok d /\ bytes_ok x /\ bytes_ok y
    | _, _ => True
    end.

Lemma clamp_id_len_range n : 16 <= clamp_id_len n <= 64 /\ (16 <= n <= 64 -> clamp_id_len n = n).
Proof. unfold clamp_id_len. lia. Qed.

(** ** the algorithm *)
Lemma find_first {A} (f : A -> bool) l a :
  List.find f l = Some a <-> exists pre post, l = pre ++ a :: post /\ f a = true /\ Forall (fun b => f b = false) pre.
Proof.
  induction l as [|x l IH]; cbn [List.find].
  - split; [discriminate|]. intros (pre & post & E & _). destruct pre; discriminate.
  - destruct (f x) eqn:Fx.
    + split.
      * intros [= ->]. exists [], l. repeat split; auto.
      * intros (pre & post & E & Fa & Fp). destruct pre as [|y pre]; cbn [app] in E.
        -- congruence.
        -- injection E as -> _. inversion Fp; congruence.
    + rewrite IH. split.
      * intros (pre & post & -> & Fa & Fp). exists (x :: pre), post. repeat split; auto.
      * intros (pre & post & E & Fa & Fp). destruct pre as [|y pre]; cbn [app] in E.
        -- injection E as -> _. congruence.
        -- injection E as -> ->. inversion Fp; subst. exists pre, post. auto.
Qed.

(** [choose_algorithm] returns the first entry of the list that the authenticator supports *)
Theorem choose_algorithm_first c params a :
  choose_algorithm c params = Some a <->
  exists pre post, params = pre ++ a :: post /\ existsb (Z.eqb a) (c_algs c) = true
                   /\ Forall (fun b => existsb (Z.eqb b) (c_algs c) = false) pre.
Proof. exact (find_first (fun a0 => existsb (Z.eqb a0) (c_algs c)) params a). Qed.

Theorem choose_algorithm_none c params :
  choose_algorithm c params = None <-> Forall (fun b => existsb (Z.eqb b) (c_algs c) = false) params.
Proof.
  unfold choose_algorithm. induction params as [|x l IH]; cbn [List.find].
  - split; constructor.
  - destruct (existsb (Z.eqb x) (c_algs c)) eqn:E.
    + split; [discriminate|]. intros F. inversion F; congruence.
    + rewrite IH. split; [intros F; constructor; assumption|intros F; inversion F; assumption].
Qed.

Lemma first_supported_choose c params : first_supported (c_algs c) params = choose_algorithm c params.
Proof.
  unfold choose_algorithm. induction params as [|x l IH]; cbn [first_supported List.find]; [reflexivity|].
  rewrite IH. reflexivity.
Qed.

Lemma reg_params_effective q : reg_params q = effective_params (rq_params q).
Proof. unfold reg_params, effective_params. destruct (rq_params q); reflexivity. Qed.

(** ** the events of a successful registration *)
Lemma filter_none {al f : eff -> bool} (tr : trace) :
  all_in al tr -> (forall e, al e = true -> f e = false) -> filter (fun ea => f (fst ea)) tr = [].
Proof.
  intros F H. induction tr as [|x tr IH]; [reflexivity|]. inversion F; subst. cbn [filter].
  rewrite (H _ H2). apply IH. assumption.
Qed.

Lemma quiet_facts e : quiet e = true ->
  is_save e = false /\ is_keygen e = false /\ is_rand e = false /\ is_sign e = false /\ is_update e = false /\ mutates e = false.
Proof. destruct e; cbn; intros H; try discriminate H; repeat split. Qed.

Lemma rand_hmac_facts e : is_rand_or_hmac e = true ->
  is_save e = false /\ is_keygen e = false /\ is_sign e = false /\ is_update e = false /\ mutates e = false.
Proof. destruct e; cbn; intros H; try discriminate H; repeat split. Qed.

Section Run.
Variables (c : config) (rp origin : bytes) (q : reg_request) (cd : cd_mode) (tr : trace) (cr : created).
Variables (cred_id d x y : bytes) (pk : passkey).
Hypothesis R : RegistrationRun c rp origin q cd tr cr cred_id d x y pk.

(** exactly one credential is handed to the store, answered Ok; exactly one key pair is generated;
    nothing is updated or signed *)
Theorem run_one_save :
  exists u rpe opts,
    filter (fun ea => is_save (fst ea)) tr = [(ESave pk u rpe opts, AUnit (Ok tt))]
    /\ filter (fun ea => is_keygen (fst ea)) tr = [(EKeyGen, AKey d x y)]
    /\ filter (fun ea => is_update (fst ea)) tr = [] /\ filter (fun ea => is_sign (fst ea)) tr = [].
Proof.
  destruct R as (p & v & rk & t_pre & t_ext & ce & disc & dlast & u & rpe & opts & -> & Qp & Qe & _).
  exists u, rpe, opts.
  repeat split; rewrite !filter_app;
    rewrite (filter_none t_pre Qp) by (intros e He; apply quiet_facts in He; tauto);
    rewrite (filter_none t_ext Qe) by (intros e He; apply rand_hmac_facts in He; tauto); reflexivity.
Qed.

(** the save comes after every step that can fail: what follows it is one capability query of the
    store (which cannot fail), and the result is then assembled without further calls *)
Theorem run_save_last :
  exists pre u rpe opts dlast,
    tr = pre ++ [(ESave pk u rpe opts, AUnit (Ok tt)); (EStoreInfo, AInfo dlast)]
    /\ filter (fun ea => mutates (fst ea)) pre = [].
Proof.
  destruct R as (p & v & rk & t_pre & t_ext & ce & disc & dlast & u & rpe & opts & -> & Qp & Qe & _).
  exists (t_pre ++ [(ERand (c_id_len c), ABytes cred_id); (EKeyGen, AKey d x y)] ++ t_ext ++ [(EStoreInfo, AInfo disc)]),
    u, rpe, opts, dlast. split.
  - rewrite <- !app_assoc. cbn [app]. reflexivity.
  - rewrite !filter_app.
    rewrite (filter_none t_pre Qp) by (intros e He; apply quiet_facts in He; tauto).
    rewrite (filter_none t_ext Qe) by (intros e He; apply rand_hmac_facts in He; tauto). reflexivity.
Qed.

(** the credential: private half of the generated key pair, the effective RP ID, the returned id *)
Theorem run_passkey :
  k_d (pk_key pk) = Some d /\ k_x (pk_key pk) = x /\ k_y (pk_key pk) = y
  /\ k_es256 (pk_key pk) = true /\ k_ec2 (pk_key pk) = true
  /\ pk_rp_id pk = rp /\ pk_cred_id pk = cr_raw_id cr /\ private_key (pk_key pk) = Ok d.
Proof.
  destruct R as (p & v & rk & t_pre & t_ext & ce & disc & dlast & u & rpe & opts & _ & _ & _ & -> & _ & _ & _ & -> & _).
  repeat split.
Qed.

(** the credential id is the answer of the one request for [c_id_len c] random bytes and the key pair
    the answer of the one key generation *)
Theorem run_randomness :
  In (ERand (c_id_len c), ABytes (cr_raw_id cr)) tr /\ In (EKeyGen, AKey d x y) tr.
Proof.
  destruct R as (p & v & rk & t_pre & t_ext & ce & disc & dlast & u & rpe & opts & -> & _ & _ & _ & _ & _ & _ & -> & _).
  split; apply in_or_app; right; [left|right; left]; reflexivity.
Qed.

Theorem run_ids :
  cr_id cr = b64url_encode (cr_raw_id cr) /\ cr_public_key cr = Some (SPKI_PREFIX ++ x ++ y)
  /\ length x = 32%nat /\ length y = 32%nat /\ cr_alg cr = ES256.
Proof.
  destruct R as (p & v & rk & t_pre & t_ext & ce & disc & dlast & u & rpe & opts & _ & _ & _ & _ & _ & Hx & Hy & -> & -> & _ & _ & _ & -> & ->).
  repeat split; auto.
Qed.

Theorem run_algorithm :
  choose_algorithm c (reg_params q) = Some (cr_alg cr).
Proof.
  destruct R as (p & v & rk & t_pre & t_ext & ce & disc & dlast & u & rpe & opts & _ & _ & _ & _ & Ha & _ & _ & _ & _ & _ & _ & _ & _ & ->).
  exact Ha.
Qed.

Theorem run_client_data :
  cr_client_data_json cr = client_data_json T_CREATE (rq_challenge q) origin cd.
Proof.
  destruct R as (p & v & rk & t_pre & t_ext & ce & disc & dlast & u & rpe & opts & _ & _ & _ & _ & _ & _ & _ & _ & _ & -> & _).
  reflexivity.
Qed.

Hypothesis CW : config_wf c.
Hypothesis AW : answers_wf tr.

Lemma run_answers : N.of_nat (length cred_id) = c_id_len c /\ bytes_ok cred_id /\ bytes_ok d /\ bytes_ok x /\ bytes_ok y.
Proof.
  destruct run_randomness as [H1 H2].
  destruct R as (p & v & rk & t_pre & t_ext & ce & disc & dlast & u & rpe & opts & _ & _ & _ & _ & _ & _ & _ & E & _).
  rewrite E in H1. pose proof (AW _ _ H1) as A1. pose proof (AW _ _ H2) as A2. cbn in A1, A2. tauto.
Qed.

(** the length of the credential id is the configured one (16..64) *)
Theorem run_id_length : N.of_nat (length (cr_raw_id cr)) = c_id_len c /\ 16 <= N.of_nat (length (cr_raw_id cr)) <= 64.
Proof.
  destruct run_answers as (L & _). destruct CW as (_ & _ & Hr).
  destruct R as (p & v & rk & t_pre & t_ext & ce & disc & dlast & u & rpe & opts & _ & _ & _ & _ & _ & _ & _ & -> & _).
  split; [exact L|lia].
Qed.

(** authenticator data, read with the layout decoder of the specification *)
Theorem run_authdata :
  exists flags,
    parse_authdata_spec (cr_auth_data cr) =
    Some {| f_rp_id_hash := sha256 rp; f_flags := flags; f_sign_count := 0;
            f_acd := Some (c_aaguid c, cr_raw_id cr, ec2_es256 x y); f_ext := None |}
    /\ N.testbit flags 6 = true /\ N.testbit flags 7 = false.
Proof.
  destruct run_answers as (L & Bi & Bd & Bx & By). destruct CW as (Hg & Bg & Hr).
  destruct R as (p & v & rk & t_pre & t_ext & ce & disc & dlast & u & rpe & opts & _ & _ & _ & _ & _ & Hx & Hy & -> & _ & _ & -> & _).
  exists (N.lor (N.lor F_DEFAULT (user_flags p v)) F_AT).
  destruct (reg_flags_facts p v) as (_ & F6 & F7 & _). split; [|split; assumption].
  apply reg_authdata_parse; auto. lia.
Qed.

(** the attestation object: format "none", empty statement, and the same authenticator data bytes *)
Theorem run_attestation_object :
  cbor_decode cbor_fuel (cr_att_obj cr)
  = Some (CMap [(CText T_FMT, CText T_NONE); (CText T_ATTSTMT, CMap []); (CText T_AUTHDATA, CBytes (cr_auth_data cr))], []).
Proof.
  destruct run_answers as (L & Bi & Bd & Bx & By). destruct CW as (Hg & Bg & Hr).
  destruct R as (p & v & rk & t_pre & t_ext & ce & disc & dlast & u & rpe & opts & _ & _ & _ & _ & _ & Hx & Hy & _ & _ & _ & Ea & -> & _).
  rewrite Ea. apply att_obj_decode.
  - apply reg_authdata_bytes_ok; auto.
  - rewrite reg_authdata_length by assumption. unfold TWO64. lia.
Qed.

(** client data, read member by member *)
Theorem run_client_data_view : bytes_ok (rq_challenge q) ->
  cd_view (cr_client_data_json cr)
  = Some (T_CREATE, b64url_encode (rq_challenge q), origin,
          P_CROSS ++ (match cd with CdExtra tail => tail | _ => [] end) ++ [125])
  /\ b64url_decode (b64url_encode (rq_challenge q)) = Some (rq_challenge q)
  /\ ~ In 61 (b64url_encode (rq_challenge q)).
Proof.
  intros Hc. rewrite run_client_data. split; [apply client_data_view; [reflexivity|exact Hc]|].
  split; [apply b64url_round; exact Hc|apply b64url_encode_no_pad; exact Hc].
Qed.
End Run.

(** ** the store before and after (reference store) *)
Lemma fold_no_mut {al : eff -> bool} (tr : trace) st :
  all_in al tr -> (forall e, al e = true -> mutates e = false) -> fold_left apply_mut tr st = st.
Proof.
  intros F H. revert st. induction tr as [|[e a] tr IH]; intros st; [reflexivity|].
  inversion F as [|? ? He Ft]; subst. cbn [fold_left]. cbn [fst] in He.
  replace (apply_mut st (e, a)) with st; [apply IH; exact Ft|].
  unfold apply_mut. cbn [fst]. specialize (H e He). destruct e; try reflexivity; discriminate H.
Qed.

Lemma put_fresh st p : get_by_id st (pk_cred_id p) = None -> put st p = st ++ [p].
Proof.
  induction st as [|x st IH]; cbn [get_by_id put app]; [reflexivity|].
  destruct (beq (pk_cred_id x) (pk_cred_id p)); [discriminate|]. intros H. rewrite IH by exact H. reflexivity.
Qed.

(** a successful registration against the reference store: the store afterwards is the store before
    with exactly that passkey put in (appended when its id is fresh); the trace is a run of the
    ceremony for the answers the store and the script gave *)
Theorem register_store_step c rp origin q cd st disc script st' tr cr :
  exec (register c (Ok rp) origin q cd) st disc script = (st', tr, Some (Ok cr)) ->
  exists cred_id d x y pk,
    RegistrationRun c rp origin q cd tr cr cred_id d x y pk
    /\ st' = put st pk
    /\ (get_by_id st (cr_raw_id cr) = None -> st' = st ++ [pk]).
Proof.
  intros E. pose proof (exec_spec (register c (Ok rp) origin q cd) st disc script) as S. rewrite E in S.
  destruct S as (SI & SS & _).
  destruct (register_ok_inv _ _ _ _ _ _ _ _ SI) as (cred_id & d & x & y & pk & R).
  exists cred_id, d, x, y, pk. split; [exact R|].
  assert (P : st' = put st pk).
  { destruct R as (p & v & rk & t_pre & t_ext & ce & dsc & dlast & u & rpe & opts & Htr & Qp & Qe & _).
    rewrite SS, Htr. rewrite !fold_left_app.
    rewrite (fold_no_mut t_pre st Qp) by (intros e He; apply quiet_facts in He; tauto).
    cbn [fold_left apply_mut fst].
    rewrite (fold_no_mut t_ext st Qe) by (intros e He; apply rand_hmac_facts in He; tauto). reflexivity. }
  split; [exact P|]. intros Hf. rewrite P. apply put_fresh.
  destruct (run_passkey _ _ _ _ _ _ _ _ _ _ _ _ R) as (_ & _ & _ & _ & _ & _ & -> & _). exact Hf.
Qed.

(** any other outcome of a registration (error, cancellation) against the reference store leaves the
    store as it was *)
Definition creates (e : eff) : bool :=
  match e with ERand _ | EKeyGen | ESave _ _ _ _ | EUpdate _ | ESign _ _ => true | _ => false end.
Definition nocreate (e : eff) : bool := negb (creates e).

(** ** no supported algorithm *)
Lemma mc_after_exclude_noalg c q flags :
  choose_algorithm c (mc_params q) = None -> mc_after_exclude c q flags = Ret (Err CTAP2_UnsupportedAlgorithm).
Proof. intros H. unfold mc_after_exclude. rewrite H. reflexivity. Qed.

Lemma make_credential_noalg_only c q :
  choose_algorithm c (mc_params q) = None -> only nocreate (make_credential c q).
Proof.
  intros H. unfold make_credential. destruct (negb (o_up (mc_opts q))); [exact I|].
  apply only_bind; [apply only_check_user; incl|].
  intros [flags|e]; [|exact I]. unfold mc_after_consent.
  destruct (mc_exclude q) as [[|id ids]|]; try (rewrite mc_after_exclude_noalg by exact H; exact I).
  apply only_bind; [apply only_find; incl|].
  intros [[|x l]|e]; try (rewrite mc_after_exclude_noalg by exact H; exact I). exact I.
Qed.

Lemma register_noalg_only c domain origin q cd :
  choose_algorithm c (reg_params q) = None -> only nocreate (register c domain origin q cd).
Proof.
  intros H. unfold register.
  apply only_bind; [apply only_get_info; incl|]. intros info.
  destruct domain as [rp|e]; [|exact I].
  destruct (registration_ext _ _) as [ext|e]; [|exact I].
  apply only_bind; [apply make_credential_noalg_only; exact H|].
  intros [resp|s]; [|exact I].
  destruct (ad_acd (mr_auth_data resp)) as [a|]; [|exact I].
  destruct (negb (acd_alg a =? ES256)%Z); [exact I|].
  destruct (negb _); [exact I|].
  apply only_bind; [apply only_store_info; incl|]. intros d. exact I.
Qed.

(** a preference list without a supported entry: for every script (every user answer, store answer,
    cancellation point) nothing random is drawn, no key is generated, nothing is saved, updated or
    signed, and the registration does not succeed; once the user has consented and no excluded
    credential is found the authenticator's answer is UnsupportedAlgorithm ([mc_after_exclude_noalg]) *)
Theorem register_no_supported_algorithm c domain origin q cd script :
  choose_algorithm c (reg_params q) = None ->
  all_in nocreate (fst (interp (register c domain origin q cd) script))
  /\ forall cr, snd (interp (register c domain origin q cd) script) <> Some (Ok cr).
Proof.
  intros H. split; [apply only_trace, register_noalg_only; exact H|].
  intros cr E. destruct domain as [rp|e].
  - destruct (interp (register c (Ok rp) origin q cd) script) as [tr res] eqn:EI. cbn [snd] in E. subst res.
    destruct (register_ok_inv _ _ _ _ _ _ _ _ EI) as (cred_id & d & x & y & pk & R).
    pose proof (run_algorithm _ _ _ _ _ _ _ _ _ _ _ _ R) as A. congruence.
  - unfold register in E. rewrite interp_bind in E.
    destruct (interp (get_info c) script) as [t1 [info|]]; [|discriminate E].
    cbn in E. discriminate E.
Qed.

(** with the reference store: the store is unchanged *)
Theorem register_no_supported_algorithm_store c domain origin q cd st disc script :
  choose_algorithm c (reg_params q) = None ->
  fst (fst (exec (register c domain origin q cd) st disc script)) = st.
Proof.
  intros H. pose proof (exec_spec (register c domain origin q cd) st disc script) as S.
  destruct (exec (register c domain origin q cd) st disc script) as [[st' tr] res]. destruct S as (SI & SS & _).
  cbn [fst]. rewrite SS.
  pose proof (register_no_supported_algorithm c domain origin q cd (map snd tr) H) as [A _]. rewrite SI in A. cbn [fst] in A.
  apply (fold_no_mut tr st A). intros e He. unfold nocreate in He. destruct e; try reflexivity; discriminate He.
Qed.

(** ** registrations that end in an error, and sequences of registrations *)

(** the authenticator supports ES256 only (what [Authenticator::new] configures) and generated keys have
    32-byte coordinates (what p256 produces): then the client's own checks after [make_credential]
    ([public_key_der_from_cose_key]) cannot fail *)
Definition es256_only (c : config) : Prop := forall a, In a (c_algs c) -> a = ES256.
Definition keys32 (tr : trace) : Prop := forall d x y, In (EKeyGen, AKey d x y) tr -> length x = 32%nat /\ length y = 32%nat.

Lemma choose_supported c l a : es256_only c -> choose_algorithm c l = Some a -> a = ES256.
Proof.
  intros H E. apply choose_algorithm_first in E as (_ & _ & _ & E & _).
  apply existsb_exists in E as (b & Hb & E). apply Z.eqb_eq in E. subst b. apply H, Hb.
Qed.

Lemma fold_mutates_filter (t : trace) : forall s,
  fold_left apply_mut t s = fold_left apply_mut (filter (fun ea : eff * answer => mutates (fst ea)) t) s.
Proof.
  induction t as [|[e a] t IH]; intros s; cbn [fold_left filter fst]; [reflexivity|].
  destruct e; cbn [mutates fold_left]; rewrite IH; reflexivity.
Qed.

(** a registration that ends in an error leaves the reference store as it was *)
Theorem register_store_err c domain origin q cd st disc script st' tr e :
  exec (register c domain origin q cd) st disc script = (st', tr, Some (Err e)) ->
  es256_only c -> keys32 tr -> st' = st.
Proof.
  intros E ES K. pose proof (exec_spec (register c domain origin q cd) st disc script) as S. rewrite E in S.
  destruct S as (SI & SS & _).
  pose proof (exec_answers (register c domain origin q cd) st disc script) as A. rewrite E in A. cbn [fst snd] in A.
  unfold register in SI.
  apply interp_bind_some in SI as (t1 & info & t2 & H1 & SI & Htr).
  pose proof (only_trace' _ _ _ _ _ (get_info_only c) H1) as Q1.
  assert (M1 : forall s, fold_left apply_mut t1 s = s).
  { intros s. apply (fold_no_mut t1 s Q1). intros e0 He. destruct e0; try reflexivity; discriminate He. }
  destruct domain as [rp|e0].
  2:{ apply interp_ret in SI as [-> _]. rewrite SS, Htr, app_nil_r. apply M1. }
  destruct (registration_ext _ _) as [ext|e0].
  2:{ apply interp_ret in SI as [-> _]. rewrite SS, Htr, app_nil_r. apply M1. }
  apply interp_bind_some in SI as (t_mc & r2 & t3 & H2 & SI & ->).
  destruct r2 as [resp|s].
  - exfalso.
    apply make_credential_ok_inv in H2
      as (p & v & alg & t_pre & cid & d & x & y & te & ce & un & dsc & _ & _ & _ & Halg & Ht & _ & _ & ->).
    cbn [mc_params] in Halg. apply (choose_supported _ _ _ ES) in Halg. subst alg.
    assert (Hk : In (EKeyGen, AKey d x y) tr).
    { rewrite Htr, Ht. apply in_or_app. right. apply in_or_app. left. apply in_or_app. right. right. left. reflexivity. }
    destruct (K _ _ _ Hk) as [Hx Hy].
    cbn [mr_auth_data mc_auth_data ad_acd acd_alg acd_x acd_y] in SI.
    change ((ES256 =? ES256)%Z) with true in SI. rewrite Hx, Hy in SI. cbn [Nat.eqb andb negb] in SI.
    apply interp_bind_some in SI as (t4 & dl & t5 & _ & SI & _). apply interp_ret in SI as [_ SI]. discriminate SI.
  - apply interp_ret in SI as [-> _]. rewrite SS, Htr, app_nil_r, fold_left_app, M1.
    match type of H2 with interp (make_credential c ?mq) ?sc = _ => pose proof (make_credential_store_all c mq sc) as J end.
    rewrite H2 in J. cbn [fst snd] in J.
    rewrite fold_mutates_filter.
    assert (MF : filter (fun ea : eff * answer => mutates (fst ea)) t_mc =
            filter (fun ea : eff * answer => mutates (fst ea)) (filter (fun ea : eff * answer => storeI (fst ea)) t_mc)).
    { clear. induction t_mc as [|[e x] t IH]; cbn; [reflexivity|]. destruct e; cbn; rewrite IH; reflexivity. }
    destruct (j_make_mutations _ _ _ _ J) as [Hn|(pre & p & u & rpe & o & a & Hevs & Hpre & Hok)].
    + rewrite MF, Hn. reflexivity.
    + exfalso.
      assert (Hin : In (ESave p u rpe o, a) tr).
      { rewrite Htr. apply in_or_app. right. apply in_or_app. left.
        eapply proj1. apply filter_In. rewrite Hevs. apply in_or_app. right. left. reflexivity. }
      rewrite Forall_forall in A. specialize (A _ Hin). unfold store_answer_ok in A. cbn in A.
      destruct (Hok A) as [r Hr]. discriminate Hr.
Qed.

(** sequences of registrations into the same store *)
Record reg_op := { ro_c : config; ro_domain : result bytes werr; ro_origin : bytes; ro_q : reg_request; ro_cd : cd_mode;
                   ro_script : list answer }.

Definition run_reg (o : reg_op) (st : content) (disc : discoverability) :=
  exec (register (ro_c o) (ro_domain o) (ro_origin o) (ro_q o) (ro_cd o)) st disc (ro_script o).

Definition saved_passkeys (tr : trace) : list passkey :=
  flat_map (fun ea => match fst ea with ESave p _ _ _ => [p] | _ => [] end) tr.

(** the store after the sequence and the passkeys of the successful registrations, in order *)
Fixpoint run_regs (h : list reg_op) (st : content) (disc : discoverability) : content * list passkey :=
  match h with
  | [] => (st, [])
  | o :: r =>
      let '(st1, tr, res) := run_reg o st disc in
      let '(st2, pks) := run_regs r st1 disc in
      (st2, match res with Some (Ok _) => saved_passkeys tr ++ pks | _ => pks end)
  end.

(** every ceremony of the sequence ran to completion, on an ES256 authenticator with 32-byte keys *)
Fixpoint regs_complete (h : list reg_op) (st : content) (disc : discoverability) : Prop :=
  match h with
  | [] => True
  | o :: r =>
      let '(st1, tr, res) := run_reg o st disc in
      res <> None /\ es256_only (ro_c o) /\ keys32 tr /\ regs_complete r st1 disc
  end.

Lemma saved_passkeys_none {al : eff -> bool} (tr : trace) :
  all_in al tr -> (forall e, al e = true -> is_save e = false) -> saved_passkeys tr = [].
Proof.
  intros F H. induction tr as [|[e a] tr IH]; [reflexivity|]. inversion F as [|? ? He Ft]; subst.
  unfold saved_passkeys in *. cbn [flat_map fst]. rewrite (IH Ft). cbn [fst] in He. specialize (H e He).
  destruct e; try reflexivity; discriminate H.
Qed.

Lemma run_saved_passkeys c rp origin q cd tr cr cred_id d x y pk :
  RegistrationRun c rp origin q cd tr cr cred_id d x y pk -> saved_passkeys tr = [pk].
Proof.
  intros (p & v & rk & t_pre & t_ext & ce & disc & dlast & u & rpe & opts & -> & Qp & Qe & _).
  unfold saved_passkeys. rewrite !flat_map_app.
  fold (saved_passkeys t_pre). fold (saved_passkeys t_ext).
  rewrite (saved_passkeys_none t_pre Qp) by (intros e He; apply quiet_facts in He; tauto).
  rewrite (saved_passkeys_none t_ext Qe) by (intros e He; apply rand_hmac_facts in He; tauto). reflexivity.
Qed.

Theorem run_regs_store h disc : forall st,
  regs_complete h st disc ->
  fst (run_regs h st disc) = fold_left put (snd (run_regs h st disc)) st.
Proof.
  induction h as [|o h IH]; intros st C; [reflexivity|]. cbn [run_regs regs_complete] in *.
  unfold run_reg in *.
  destruct (exec (register (ro_c o) (ro_domain o) (ro_origin o) (ro_q o) (ro_cd o)) st disc (ro_script o))
    as [[st1 tr] res] eqn:E.
  destruct C as (Hres & ES & K & C). specialize (IH st1 C).
  destruct (run_regs h st1 disc) as [st2 pks]. cbn [fst snd] in *.
  destruct res as [[cr|e]|]; [| |congruence].
  - destruct (ro_domain o) as [rp|e0] eqn:Ed.
    + destruct (register_store_step _ _ _ _ _ _ _ _ _ _ _ E) as (cid & d & x & y & pk & R & -> & _).
      rewrite (run_saved_passkeys _ _ _ _ _ _ _ _ _ _ _ _ R). cbn [app fold_left]. exact IH.
    + exfalso. pose proof (exec_spec (register (ro_c o) (Err e0) (ro_origin o) (ro_q o) (ro_cd o)) st disc (ro_script o)) as S.
      rewrite E in S. destruct S as (SI & _). unfold register in SI.
      apply interp_bind_some in SI as (t1 & info & t2 & _ & SI & _). apply interp_ret in SI as [_ SI]. discriminate SI.
  - rewrite (register_store_err _ _ _ _ _ _ _ _ _ _ _ E ES K) in IH. exact IH.
Qed.
