(** C06: private keys and PRF secrets never appear in anything handed back to callers.

    Noninterference for the ceremony models.  Two runs of a ceremony that are given the same request
    and configuration but whose environments may differ ARBITRARILY in the secrets -
      - the private scalar [d] of the key-generation answer [AKey d x y],
      - the answers to the random draws made after key generation (these are exactly the two
        per-credential PRF secrets of [make_hmac_secret]; the credential id is drawn before),
      - the [k_d] and [pk_hmac] contents of the passkeys a store lookup returns
        (their presence/absence agrees; their bytes need not) -
    make the same calls up to the secret positions ([eff_sim]) and return EQUAL results.
    The only answers through which a secret can influence a result are those of [ESign] and [EHmac]
    (the signature and the PRF output): they are required equal in the two runs, and that is the
    permitted dependence.

    [prelS] is the relation between the two runs (a bisimulation up to secrets); [prelR] is the same
    with "secret random draw" as a free constructor; [prelS_interp] is the statement on [interp]. *)
From Coq Require Import Lia.
From PK Require Import Lib.Check Lib.Base64 Lib.Sha256 Lib.Cbor Wire.AuthData.
From PK Require Export Auth.Monitor Auth.Authenticator Auth.Effects Auth.Client Auth.U2f Auth.C06Model.
Open Scope N_scope.

(** *** equal up to secrets *)
Definition same_shape {A B} (a : option A) (b : option B) : Prop :=
  match a, b with Some _, Some _ | None, None => True | _, _ => False end.

Definition keymat_sim (k1 k2 : keymat) : Prop :=
  k_es256 k1 = k_es256 k2 /\ k_ec2 k1 = k_ec2 k2 /\ same_shape (k_d k1) (k_d k2)
  /\ k_x k1 = k_x k2 /\ k_y k1 = k_y k2.

Definition hmac_sim (h1 h2 : option (bytes * option bytes)) : Prop :=
  match h1, h2 with
  | None, None => True
  | Some c1, Some c2 => same_shape (snd c1) (snd c2)
  | _, _ => False
  end.

Definition passkey_sim (p1 p2 : passkey) : Prop :=
  keymat_sim (pk_key p1) (pk_key p2) /\ pk_cred_id p1 = pk_cred_id p2 /\ pk_rp_id p1 = pk_rp_id p2
  /\ pk_user_handle p1 = pk_user_handle p2 /\ pk_counter p1 = pk_counter p2
  /\ hmac_sim (pk_hmac p1) (pk_hmac p2).

Definition opt_rel {A B} (R : A -> B -> Prop) (a : option A) (b : option B) : Prop :=
  match a, b with Some x, Some y => R x y | None, None => True | _, _ => False end.

Definition res_rel {A B E} (R : A -> B -> Prop) (a : result A E) (b : result B E) : Prop :=
  match a, b with Ok x, Ok y => R x y | Err e, Err e' => e = e' | _, _ => False end.

(** calls: equal except in the secret positions *)
Definition eff_sim (e1 e2 : eff) : Prop :=
  match e1, e2 with
  | ESave p1 u1 r1 o1, ESave p2 u2 r2 o2 => passkey_sim p1 p2 /\ u1 = u2 /\ r1 = r2 /\ o1 = o2
  | EUpdate p1, EUpdate p2 => passkey_sim p1 p2
  | ECheckUser c1 up1 uv1, ECheckUser c2 up2 uv2 => opt_rel passkey_sim c1 c2 /\ up1 = up2 /\ uv1 = uv2
  | ESign _ m1, ESign _ m2 => m1 = m2
  | EHmac _ s1, EHmac _ s2 => s1 = s2
  | _, _ => e1 = e2
  end.

(** answers: equal except the scalar of a generated key and the secrets inside looked-up passkeys;
    in particular byte answers (signatures, PRF outputs, public random draws) are EQUAL *)
Definition ans_sim (a1 a2 : answer) : Prop :=
  match a1 with
  | AFind (Ok l1) => exists l2, a2 = AFind (Ok l2) /\ Forall2 passkey_sim l1 l2
  | AKey _ x y => exists d2, a2 = AKey d2 x y
  | _ => a2 = a1
  end.

(** the answer to a secret random draw: any two byte strings *)
Definition secret_draw_sim (a1 a2 : answer) : Prop :=
  match a1 with
  | ABytes _ => exists b2, a2 = ABytes b2
  | _ => a2 = a1
  end.

(** [after_keygen]: a key pair has been generated earlier in this ceremony.  Random draws after that
    point are the per-credential PRF secrets. *)
Definition ans_simS (after_keygen : bool) (e : eff) (a1 a2 : answer) : Prop :=
  if is_rand e && after_keygen then secret_draw_sim a1 a2 else ans_sim a1 a2.

Inductive prelS {R1 R2} (RR : bool -> R1 -> R2 -> Prop) : bool -> prog R1 -> prog R2 -> Prop :=
| ps_ret b r1 r2 : RR b r1 r2 -> prelS RR b (Ret r1) (Ret r2)
| ps_stuck b : prelS RR b Stuck Stuck
| ps_call b e1 e2 k1 k2 :
    eff_sim e1 e2 ->
    (forall a1 a2, ans_simS b e1 a1 a2 -> prelS RR (is_keygen e1 || b) (k1 a1) (k2 a2)) ->
    prelS RR b (Call e1 k1) (Call e2 k2).

(** the same relation with "this random draw is a secret" as a free choice of the prover *)
Inductive prelR {R1 R2} (RR : R1 -> R2 -> Prop) : prog R1 -> prog R2 -> Prop :=
| prel_ret r1 r2 : RR r1 r2 -> prelR RR (Ret r1) (Ret r2)
| prel_stuck : prelR RR Stuck Stuck
| prel_call e1 e2 k1 k2 :
    eff_sim e1 e2 -> (forall a1 a2, ans_sim a1 a2 -> prelR RR (k1 a1) (k2 a2)) ->
    prelR RR (Call e1 k1) (Call e2 k2)
| prel_secret_rand n k1 k2 :
    (forall a1 a2, secret_draw_sim a1 a2 -> prelR RR (k1 a1) (k2 a2)) ->
    prelR RR (Call (ERand n) k1) (Call (ERand n) k2).

Lemma prelS_prelR {R1 R2} (RR : bool -> R1 -> R2 -> Prop) b p1 p2 :
  prelS RR b p1 p2 -> prelR (fun r1 r2 => exists b', RR b' r1 r2) p1 p2.
Proof.
  intros H. induction H as [b r1 r2 H|b|b e1 e2 k1 k2 He Hk IH].
  - apply prel_ret. exists b. exact H.
  - apply prel_stuck.
  - unfold ans_simS in IH. destruct (is_rand e1 && b) eqn:E.
    + destruct e1; try discriminate E. cbn in He. subst e2. apply prel_secret_rand. exact IH.
    + apply prel_call; [exact He|exact IH].
Qed.

Lemma prelS_bind {A1 A2 B1 B2} (RA : bool -> A1 -> A2 -> Prop) (RB : bool -> B1 -> B2 -> Prop)
      b p1 p2 (f1 : A1 -> prog B1) (f2 : A2 -> prog B2) :
  prelS RA b p1 p2 ->
  (forall b' a1 a2, RA b' a1 a2 -> prelS RB b' (f1 a1) (f2 a2)) ->
  prelS RB b (bind p1 f1) (bind p2 f2).
Proof.
  intros H Hf. induction H as [b r1 r2 H|b|b e1 e2 k1 k2 He Hk IH]; cbn [bind].
  - apply Hf. exact H.
  - apply ps_stuck.
  - apply ps_call; [exact He|]. intros a1 a2 Ha. apply IH. exact Ha.
Qed.

Lemma prelS_weaken {R1 R2} (RR RR' : bool -> R1 -> R2 -> Prop) b p1 p2 :
  (forall b' r1 r2, RR b' r1 r2 -> RR' b' r1 r2) -> prelS RR b p1 p2 -> prelS RR' b p1 p2.
Proof.
  intros HR H. induction H as [b r1 r2 H|b|b e1 e2 k1 k2 He Hk IH].
  - apply ps_ret. apply HR. exact H.
  - apply ps_stuck.
  - apply ps_call; [exact He|exact IH].
Qed.

(** *** the statement on [interp]: the two scripts, read along the first run, agree up to secrets *)
Fixpoint scripts_sim {R} (after_keygen : bool) (p : prog R) (s1 s2 : list answer) : Prop :=
  match p with
  | Call e k =>
      match s1, s2 with
      | a1 :: s1', a2 :: s2' => ans_simS after_keygen e a1 a2 /\ scripts_sim (is_keygen e || after_keygen) (k a1) s1' s2'
      | [], [] => True
      | _, _ => False
      end
  | _ => True
  end.

Definition event_sim (ea1 ea2 : eff * answer) : Prop := eff_sim (fst ea1) (fst ea2).

Theorem prelS_interp {R1 R2} (RR : bool -> R1 -> R2 -> Prop) b p1 p2 :
  prelS RR b p1 p2 -> forall s1 s2, scripts_sim b p1 s1 s2 ->
  opt_rel (fun r1 r2 => exists b', RR b' r1 r2) (snd (interp p1 s1)) (snd (interp p2 s2))
  /\ Forall2 event_sim (fst (interp p1 s1)) (fst (interp p2 s2)).
Proof.
  intros H. induction H as [b r1 r2 H|b|b e1 e2 k1 k2 He Hk IH]; intros s1 s2 Hs; cbn [interp fst snd opt_rel].
  - split; [exists b; exact H|constructor].
  - split; [exact I|constructor].
  - cbn [scripts_sim] in Hs. destruct s1 as [|a1 s1], s2 as [|a2 s2]; try contradiction.
    + cbn [fst snd opt_rel]. split; [exact I|constructor].
    + destruct Hs as [Ha Hs]. specialize (IH a1 a2 Ha s1 s2 Hs).
      destruct (interp (k1 a1) s1) as [tr1 res1], (interp (k2 a2) s2) as [tr2 res2].
      cbn [fst snd] in *. destruct IH as [IHr IHt]. split; [exact IHr|].
      constructor; [exact He|exact IHt].
Qed.

Corollary prelS_interp_eq {R} b (p : prog R) :
  prelS (fun _ r1 r2 => r1 = r2) b p p -> forall s1 s2, scripts_sim b p s1 s2 ->
  snd (interp p s1) = snd (interp p s2).
Proof.
  intros H s1 s2 Hs. destruct (prelS_interp _ b p p H s1 s2 Hs) as [Hr _].
  destruct (snd (interp p s1)), (snd (interp p s2)); cbn [opt_rel] in Hr; try contradiction.
  - destruct Hr as [_ ->]. reflexivity.
  - reflexivity.
Qed.

(** *** typed calls *)
Ltac ans_cases a1 Ha :=
  unfold ans_simS in Ha; cbn [is_rand andb] in Ha;
  destruct a1 as [[?|?]| | | | | | |]; cbn [ans_sim] in Ha;
  [ destruct Ha as (? & -> & ?) | subst .. | destruct Ha as (? & ->) ].

Definition same {A} (b : bool) : bool -> A -> A -> Prop := fun b' r1 r2 => b' = b /\ r1 = r2.

Lemma prel_find b ids rp :
  prelS (fun b' r1 r2 => b' = b /\ res_rel (Forall2 passkey_sim) r1 r2) b (find_creds ids rp) (find_creds ids rp).
Proof.
  unfold find_creds. apply ps_call; [reflexivity|]. intros a1 a2 Ha. cbn [is_keygen orb].
  ans_cases a1 Ha; try apply ps_stuck.
  - apply ps_ret. split; [reflexivity|assumption].
  - apply ps_ret. split; reflexivity.
Qed.

Lemma prel_save b p1 p2 u rp o :
  passkey_sim p1 p2 -> prelS (same b) b (save p1 u rp o) (save p2 u rp o).
Proof.
  intros Hp. unfold save. apply ps_call; [cbn; auto|]. intros a1 a2 Ha. cbn [is_keygen orb].
  ans_cases a1 Ha; try apply ps_stuck. apply ps_ret. split; reflexivity.
Qed.

Lemma prel_update b p1 p2 : passkey_sim p1 p2 -> prelS (same b) b (update p1) (update p2).
Proof.
  intros Hp. unfold update. apply ps_call; [exact Hp|]. intros a1 a2 Ha. cbn [is_keygen orb].
  ans_cases a1 Ha; try apply ps_stuck. apply ps_ret. split; reflexivity.
Qed.

Lemma prel_store_info b : prelS (same b) b store_info store_info.
Proof.
  unfold store_info. apply ps_call; [reflexivity|]. intros a1 a2 Ha. cbn [is_keygen orb].
  ans_cases a1 Ha; try apply ps_stuck. apply ps_ret. split; reflexivity.
Qed.

Lemma prel_verif b : prelS (same b) b verif_enabled verif_enabled.
Proof.
  unfold verif_enabled. apply ps_call; [reflexivity|]. intros a1 a2 Ha. cbn [is_keygen orb].
  ans_cases a1 Ha; try apply ps_stuck. apply ps_ret. split; reflexivity.
Qed.

Lemma prel_presence b : prelS (same b) b presence_enabled presence_enabled.
Proof.
  unfold presence_enabled. apply ps_call; [reflexivity|]. intros a1 a2 Ha. cbn [is_keygen orb].
  ans_cases a1 Ha; try apply ps_stuck. apply ps_ret. split; reflexivity.
Qed.

Lemma prel_ask_user b c1 c2 up uv :
  opt_rel passkey_sim c1 c2 -> prelS (same b) b (ask_user c1 up uv) (ask_user c2 up uv).
Proof.
  intros Hc. unfold ask_user. apply ps_call; [cbn; auto|]. intros a1 a2 Ha. cbn [is_keygen orb].
  ans_cases a1 Ha; try apply ps_stuck. apply ps_ret. split; reflexivity.
Qed.

(** a random draw before key generation is public: equal in both runs *)
Lemma prel_rand_public n : prelS (same false) false (rand n) (rand n).
Proof.
  unfold rand. apply ps_call; [reflexivity|]. intros a1 a2 Ha. cbn [is_keygen orb].
  ans_cases a1 Ha; try apply ps_stuck. apply ps_ret. split; reflexivity.
Qed.

(** a random draw after key generation is a secret: the two runs may receive anything *)
Lemma prel_rand_secret n : prelS (fun b' _ _ => b' = true) true (rand n) (rand n).
Proof.
  unfold rand. apply ps_call; [reflexivity|]. intros a1 a2 Ha. cbn [is_keygen orb].
  unfold ans_simS in Ha. cbn [is_rand andb] in Ha.
  destruct a1; cbn [secret_draw_sim] in Ha; try (subst a2; apply ps_stuck).
  destruct Ha as (b2 & ->). apply ps_ret. reflexivity.
Qed.

(** key generation: the public point is equal, the scalar is not related *)
Lemma prel_keygen b :
  prelS (fun b' r1 r2 => b' = true /\ snd (fst r1) = snd (fst r2) /\ snd r1 = snd r2) b keygen keygen.
Proof.
  unfold keygen. apply ps_call; [reflexivity|]. intros a1 a2 Ha. cbn [is_keygen orb].
  ans_cases a1 Ha; try apply ps_stuck. apply ps_ret. cbn. auto.
Qed.

(** signing: any two keys, the same message; the signature is the permitted dependence *)
Lemma prel_sign b k1 k2 m : prelS (same b) b (sign k1 m) (sign k2 m).
Proof.
  unfold sign. apply ps_call; [reflexivity|]. intros a1 a2 Ha. cbn [is_keygen orb].
  ans_cases a1 Ha; try apply ps_stuck. apply ps_ret. split; reflexivity.
Qed.

(** the PRF: any two secrets, the same salt; the output is the permitted dependence *)
Lemma prel_hmac b k1 k2 s : prelS (same b) b (hmac k1 s) (hmac k2 s).
Proof.
  unfold hmac. apply ps_call; [reflexivity|]. intros a1 a2 Ha. cbn [is_keygen orb].
  ans_cases a1 Ha; try apply ps_stuck. apply ps_ret. split; reflexivity.
Qed.

Ltac bind_same L := eapply prelS_bind; [apply L|]; intros ? ? ? [-> ->].

(** *** authenticator sub-programs *)
Lemma prel_check_user b o c1 c2 :
  opt_rel passkey_sim c1 c2 -> prelS (same b) b (check_user o c1) (check_user o c2).
Proof.
  intros Hc. unfold check_user.
  assert (K : prelS (same b) b
     (r <- ask_user c1 (o_up o) (o_uv o);;
      match r with
      | Ok (presence, verification) =>
          if o_up o && negb presence then Ret (Err CTAP2_OperationDenied)
          else if o_uv o && negb verification then Ret (Err CTAP2_OperationDenied)
          else Ret (Ok (N.lor (if presence then F_UP else 0) (if verification then F_UV else 0)))
      | Err e => Ret (Err e)
      end)
     (r <- ask_user c2 (o_up o) (o_uv o);;
      match r with
      | Ok (presence, verification) =>
          if o_up o && negb presence then Ret (Err CTAP2_OperationDenied)
          else if o_uv o && negb verification then Ret (Err CTAP2_OperationDenied)
          else Ret (Ok (N.lor (if presence then F_UP else 0) (if verification then F_UV else 0)))
      | Err e => Ret (Err e)
      end)).
  { eapply prelS_bind; [apply prel_ask_user; exact Hc|]. intros b' r1 r2 [-> ->].
    destruct r2 as [[p v]|e]; [|apply ps_ret; split; reflexivity].
    destruct (o_up o && negb p); [apply ps_ret; split; reflexivity|].
    destruct (o_uv o && negb v); apply ps_ret; split; reflexivity. }
  destruct (o_uv o); [|exact K].
  bind_same prel_verif. destruct (negb (opt_is_true a2)); [apply ps_ret; split; reflexivity|exact K].
Qed.

Lemma prel_get_info b c : prelS (same b) b (get_info c) (get_info c).
Proof.
  unfold get_info. bind_same prel_store_info. bind_same prel_verif. bind_same prel_presence.
  apply ps_ret. split; reflexivity.
Qed.

(** [make_hmac_secret] runs after key generation: its draws are secrets, its result is related by
    [hmac_sim] only (presence and shape, not content) *)
Lemma prel_make_hmac_secret c rq :
  prelS (fun b' r1 r2 => b' = true /\ hmac_sim r1 r2) true (make_hmac_secret c rq) (make_hmac_secret c rq).
Proof.
  unfold make_hmac_secret. destruct (c_hmac c) as [hc|]; [|apply ps_ret; cbn; auto].
  destruct (negb (opt_is_true rq)); [apply ps_ret; cbn; auto|].
  eapply prelS_bind; [apply prel_rand_secret|]. intros b' w1 w2 ->.
  destruct (h_without_uv hc); [|apply ps_ret; cbn; auto].
  eapply prelS_bind; [apply prel_rand_secret|]. intros b' wo1 wo2 ->.
  apply ps_ret. cbn. auto.
Qed.

Lemma prel_calculate_hmac b cr1 cr2 salts hc uv :
  same_shape (snd cr1) (snd cr2) ->
  prelS (same b) b (calculate_hmac_secret cr1 salts hc uv) (calculate_hmac_secret cr2 salts hc uv).
Proof.
  intros Hs. unfold calculate_hmac_secret.
  assert (GO : forall k1 k2, @prelS (result prf_values N) (result prf_values N) (same b) b
     (o1 <- hmac k1 (pv_first salts);;
      match pv_second salts with
      | Some s2 =>
          if h_without_uv hc
          then o2 <- hmac k1 s2;; Ret (Ok {| pv_first := o1; pv_second := Some o2 |})
          else Ret (Ok {| pv_first := o1; pv_second := None |})
      | None => Ret (Ok {| pv_first := o1; pv_second := None |})
      end)
     (o1 <- hmac k2 (pv_first salts);;
      match pv_second salts with
      | Some s2 =>
          if h_without_uv hc
          then o2 <- hmac k2 s2;; Ret (Ok {| pv_first := o1; pv_second := Some o2 |})
          else Ret (Ok {| pv_first := o1; pv_second := None |})
      | None => Ret (Ok {| pv_first := o1; pv_second := None |})
      end)).
  { intros k1 k2. bind_same prel_hmac.
    destruct (pv_second salts) as [s2|]; [|apply ps_ret; split; reflexivity].
    destruct (h_without_uv hc); [|apply ps_ret; split; reflexivity].
    bind_same prel_hmac. apply ps_ret; split; reflexivity. }
  destruct uv; [apply GO|].
  destruct (snd cr1) as [wo1|], (snd cr2) as [wo2|]; cbn [same_shape] in Hs; try contradiction.
  - apply GO.
  - apply ps_ret; split; reflexivity.
Qed.

Lemma prel_make_prf b c e1 e2 rq uv :
  hmac_sim e1 e2 -> prelS (same b) b (make_prf c e1 rq uv) (make_prf c e2 rq uv).
Proof.
  intros He. unfold make_prf. destruct (c_hmac c) as [hc|]; [|apply ps_ret; split; reflexivity].
  destruct e1 as [cr1|], e2 as [cr2|]; cbn [hmac_sim] in He; try contradiction;
    [|apply ps_ret; split; reflexivity].
  destruct (if h_on_mc hc then pi_eval rq else None) as [ev|]; [|apply ps_ret; split; reflexivity].
  eapply prelS_bind; [apply prel_calculate_hmac; exact He|]. intros b' r1 r2 [-> ->].
  destruct r2; apply ps_ret; split; reflexivity.
Qed.

Definition ext_sim (r1 r2 : result (option (bytes * option bytes) * option prf_make_out) N) : Prop :=
  res_rel (fun x y => hmac_sim (fst x) (fst y) /\ snd x = snd y) r1 r2.

Lemma prel_make_extensions c rq uv :
  prelS (fun b' r1 r2 => b' = true /\ ext_sim r1 r2) true (make_extensions c rq uv) (make_extensions c rq uv).
Proof.
  unfold make_extensions.
  eapply prelS_bind; [apply prel_make_hmac_secret|]. intros b' hs1 hs2 [-> Hh].
  destruct (opt_bind (opt_bind rq mc_ext_zip) me_prf) as [input|]; [|apply ps_ret; cbn; auto].
  eapply prelS_bind; [apply prel_make_prf; exact Hh|]. intros b' r1 r2 [-> ->].
  destruct r2; apply ps_ret; cbn; auto.
Qed.

Lemma prel_get_extensions b c p1 p2 rq uv :
  passkey_sim p1 p2 -> prelS (same b) b (get_extensions c p1 rq uv) (get_extensions c p2 rq uv).
Proof.
  intros (_ & Hid & _ & _ & _ & Hh). unfold get_extensions.
  destruct (opt_bind rq ga_ext_zip) as [ext|]; [|apply ps_ret; split; reflexivity].
  destruct (ge_prf ext) as [salts|]; [|apply ps_ret; split; reflexivity].
  unfold get_prf. rewrite Hid. destruct (c_hmac c) as [hc|]; [|apply ps_ret; split; reflexivity].
  destruct (pk_hmac p1) as [cr1|], (pk_hmac p2) as [cr2|]; cbn [hmac_sim] in Hh; try contradiction;
    [|apply ps_ret; split; reflexivity].
  destruct (select_salts (pk_cred_id p2) salts) as [request|]; [|apply ps_ret; split; reflexivity].
  eapply prelS_bind; [apply prel_calculate_hmac; exact Hh|]. intros b' r1 r2 [-> ->].
  destruct r2; apply ps_ret; split; reflexivity.
Qed.

(** *** make_credential *)
Definition public_result {R} : bool -> R -> R -> Prop := fun _ r1 r2 => r1 = r2.

Lemma prel_mc_after_rk c q flags alg :
  prelS public_result false (mc_after_rk c q flags alg) (mc_after_rk c q flags alg).
Proof.
  unfold mc_after_rk. destruct (mc_pin_auth q); [apply ps_ret; reflexivity|].
  bind_same prel_rand_public. rename a2 into cred_id.
  eapply prelS_bind; [apply prel_keygen|]. intros b' [[d1 x1] y1] [[d2 x2] y2] (-> & Hx & Hy).
  cbn [fst snd] in Hx, Hy. subst x2 y2.
  eapply prelS_bind; [apply prel_make_extensions|]. intros b' ex1 ex2 [-> Hex].
  destruct ex1 as [[ce1 un1]|e1], ex2 as [[ce2 un2]|e2]; cbn in Hex; try contradiction;
    [|subst e2; apply ps_ret; reflexivity].
  destruct Hex as [Hce ->].
  bind_same prel_store_info. rename a2 into disc.
  eapply prelS_bind.
  { apply prel_save. unfold passkey_sim, keymat_sim. cbn. repeat split; auto. }
  intros b' s1 s2 [-> ->]. destruct s2; apply ps_ret; reflexivity.
Qed.

Lemma prel_mc_after_exclude c q flags :
  prelS public_result false (mc_after_exclude c q flags) (mc_after_exclude c q flags).
Proof.
  unfold mc_after_exclude. destruct (choose_algorithm c (mc_params q)) as [alg|]; [|apply ps_ret; reflexivity].
  destruct (o_rk (mc_opts q)); [|apply prel_mc_after_rk].
  bind_same prel_get_info. destruct (negb (i_rk a2)); [apply ps_ret; reflexivity|apply prel_mc_after_rk].
Qed.

Lemma prel_mc_after_consent c q flags :
  prelS public_result false (mc_after_consent c q flags) (mc_after_consent c q flags).
Proof.
  unfold mc_after_consent. destruct (mc_exclude q) as [[|id ids]|]; try apply prel_mc_after_exclude.
  eapply prelS_bind; [apply prel_find|]. intros b' r1 r2 [-> Hr].
  destruct r1 as [[|p1 l1]|e1], r2 as [[|p2 l2]|e2]; cbn in Hr; try contradiction;
    try (inversion Hr; fail); try apply prel_mc_after_exclude.
  apply ps_ret; reflexivity.
Qed.

Theorem prel_make_credential c q :
  prelS public_result false (make_credential c q) (make_credential c q).
Proof.
  unfold make_credential. destruct (negb (o_up (mc_opts q))); [apply ps_ret; reflexivity|].
  eapply prelS_bind; [apply prel_check_user; exact I|]. intros b' r1 r2 [-> ->].
  destruct r2; [apply prel_mc_after_consent|apply ps_ret; reflexivity].
Qed.

(** *** get_assertion (no key generation and no random draw: any state) *)
Section GetAssertion.
Variable adb : auth_data -> bytes.

Lemma private_key_shape k1 k2 :
  keymat_sim k1 k2 -> res_rel (fun _ _ => True) (private_key k1) (private_key k2).
Proof.
  intros (H1 & H2 & H3 & _). unfold private_key. rewrite H1, H2.
  destruct (negb (k_es256 k2)); [reflexivity|]. destruct (negb (k_ec2 k2)); [reflexivity|].
  destruct (k_d k1), (k_d k2); cbn in *; try contradiction; auto.
Qed.

Lemma prel_ga_finish b c q flags p1 p2 :
  passkey_sim p1 p2 -> prelS (same b) b (ga_finish adb c q flags p1) (ga_finish adb c q flags p2).
Proof.
  intros Hp. unfold ga_finish.
  eapply prelS_bind; [apply prel_get_extensions; exact Hp|]. intros b' r1 r2 [-> ->].
  destruct r2 as [prf|e]; [|apply ps_ret; split; reflexivity].
  destruct Hp as (Hk & Hid & Hrp & Huh & Hctr & Hh).
  pose proof (private_key_shape _ _ Hk) as Hpk. rewrite Hctr.
  destruct (private_key (pk_key p1)) as [d1|e1], (private_key (pk_key p2)) as [d2|e2];
    cbn in Hpk; try contradiction; [|subst e2; apply ps_ret; split; reflexivity].
  bind_same prel_sign. apply ps_ret. rewrite Hid, Huh. split; reflexivity.
Qed.

Lemma bump_sim p1 p2 n : passkey_sim p1 p2 -> passkey_sim (bump_counter p1 n) (bump_counter p2 n).
Proof. intros (Hk & Hid & Hrp & Huh & Hctr & Hh). unfold passkey_sim, bump_counter. cbn. auto 10. Qed.

Lemma prel_ga_after_consent b c q flags m1 m2 :
  res_rel passkey_sim m1 m2 ->
  prelS (same b) b (ga_after_consent adb c q flags m1) (ga_after_consent adb c q flags m2).
Proof.
  intros Hm. unfold ga_after_consent.
  destruct m1 as [p1|e1], m2 as [p2|e2]; cbn in Hm; try contradiction; [|subst e2; apply ps_ret; split; reflexivity].
  pose proof Hm as (_ & _ & _ & _ & Hctr & _). rewrite Hctr.
  destruct (pk_counter p2) as [n|]; [|apply prel_ga_finish; exact Hm].
  eapply prelS_bind; [apply prel_update; apply bump_sim; exact Hm|]. intros b' u1 u2 [-> ->].
  destruct u2; [apply prel_ga_finish; apply bump_sim; exact Hm|apply ps_ret; split; reflexivity].
Qed.

Lemma first_credential_sim r1 r2 :
  res_rel (Forall2 passkey_sim) r1 r2 -> res_rel passkey_sim (first_credential r1) (first_credential r2).
Proof.
  intros H. destruct r1 as [[|p1 l1]|e1], r2 as [[|p2 l2]|e2]; cbn in *; try contradiction; auto;
    inversion H; auto.
Qed.

Theorem prel_get_assertion b c q :
  prelS public_result b (get_assertion adb c q) (get_assertion adb c q).
Proof.
  unfold get_assertion.
  eapply prelS_bind; [apply prel_find|]. intros b' r1 r2 [-> Hr].
  apply first_credential_sim in Hr.
  destruct (ga_pin_auth q); [apply ps_ret; reflexivity|].
  destruct (o_rk (ga_opts q)); [apply ps_ret; reflexivity|].
  eapply prelS_bind.
  { apply prel_check_user. destruct (first_credential r1), (first_credential r2); cbn in *; auto. }
  intros b' f1 f2 [-> ->]. destruct f2 as [flags|e]; [|apply ps_ret; reflexivity].
  eapply prelS_weaken; [|apply prel_ga_after_consent; exact Hr]. intros b' x y [_ ->]. reflexivity.
Qed.
End GetAssertion.

Theorem prel_get_info_public b c : prelS public_result b (get_info c) (get_info c).
Proof. eapply prelS_weaken; [|apply prel_get_info]. intros b' x y [_ ->]. reflexivity. Qed.

(** *** WebAuthn client *)
Theorem prel_register c domain origin q cd :
  prelS public_result false (register c domain origin q cd) (register c domain origin q cd).
Proof.
  unfold register. bind_same prel_get_info. rename a2 into info.
  destruct domain as [rp|e]; [|apply ps_ret; reflexivity].
  destruct (registration_ext (opt_bind (rq_ext q) wext_zip) (i_prf_ext info)) as [ctap_ext|e];
    [|apply ps_ret; reflexivity].
  eapply prelS_bind; [apply prel_make_credential|]. intros b' r1 r2 ->.
  destruct r2 as [resp|s]; [|apply ps_ret; reflexivity].
  destruct (ad_acd (mr_auth_data resp)) as [a|]; [|apply ps_stuck].
  destruct (negb (Z.eqb (acd_alg a) ES256)); [apply ps_ret; reflexivity|].
  destruct (negb (Nat.eqb (length (acd_x a)) 32 && Nat.eqb (length (acd_y a)) 32)); [apply ps_ret; reflexivity|].
  bind_same prel_store_info. apply ps_ret; reflexivity.
Qed.

Theorem prel_authenticate b c domain origin q cd :
  prelS public_result b (authenticate c domain origin q cd) (authenticate c domain origin q cd).
Proof.
  unfold authenticate. bind_same prel_get_info. rename a2 into info.
  destruct domain as [rp|e]; [|apply ps_ret; reflexivity].
  destruct (authentication_ext (aq_allow q) (aq_ext q) (i_prf_ext info)) as [ctap_ext|e];
    [|apply ps_ret; reflexivity].
  eapply prelS_bind; [apply prel_get_assertion|]. intros b' r1 r2 ->.
  destruct r2; apply ps_ret; reflexivity.
Qed.

(** *** U2F *)
Theorem prel_u2f_register b app chal handle :
  prelS public_result b (u2f_register app chal handle) (u2f_register app chal handle).
Proof.
  unfold u2f_register.
  eapply prelS_bind; [apply prel_keygen|]. intros b' [[d1 x1] y1] [[d2 x2] y2] (-> & Hx & Hy).
  cbn [fst snd] in Hx, Hy. subst x2 y2.
  bind_same prel_sign. rename a2 into sg.
  eapply prelS_bind.
  { apply prel_save. unfold passkey_sim, keymat_sim, u2f_passkey. cbn. repeat split; auto. }
  intros b' s1 s2 [-> ->]. destruct s2; apply ps_ret; reflexivity.
Qed.

Theorem prel_u2f_authenticate b app chal kh counter presence :
  prelS public_result b (u2f_authenticate app chal kh counter presence) (u2f_authenticate app chal kh counter presence).
Proof.
  unfold u2f_authenticate.
  eapply prelS_bind; [apply prel_find|]. intros b' r1 r2 [-> Hr].
  destruct r1 as [[|p1 l1]|e1], r2 as [[|p2 l2]|e2]; cbn in Hr; try contradiction;
    try (inversion Hr; fail); try (apply ps_ret; reflexivity).
  assert (Hp : passkey_sim p1 p2) by (inversion Hr; assumption).
  destruct Hp as (Hk & _). pose proof (private_key_shape _ _ Hk) as Hpk.
  destruct (private_key (pk_key p1)) as [d1|e1], (private_key (pk_key p2)) as [d2|e2];
    cbn in Hpk; try contradiction; [|apply ps_ret; reflexivity].
  bind_same prel_sign. apply ps_ret; reflexivity.
Qed.

(** *** the statements on [interp] *)
Section Runs.
Variables (s1 s2 : list answer).

Theorem c06_get_info c :
  scripts_sim false (get_info c) s1 s2 -> snd (interp (get_info c) s1) = snd (interp (get_info c) s2).
Proof. apply prelS_interp_eq, prel_get_info_public. Qed.

Theorem c06_make_credential c q :
  scripts_sim false (make_credential c q) s1 s2 ->
  snd (interp (make_credential c q) s1) = snd (interp (make_credential c q) s2).
Proof. apply prelS_interp_eq, prel_make_credential. Qed.

Theorem c06_get_assertion adb c q :
  scripts_sim false (get_assertion adb c q) s1 s2 ->
  snd (interp (get_assertion adb c q) s1) = snd (interp (get_assertion adb c q) s2).
Proof. apply prelS_interp_eq, prel_get_assertion. Qed.

Theorem c06_register c domain origin q cd :
  scripts_sim false (register c domain origin q cd) s1 s2 ->
  snd (interp (register c domain origin q cd) s1) = snd (interp (register c domain origin q cd) s2).
Proof. apply prelS_interp_eq, prel_register. Qed.

Theorem c06_authenticate c domain origin q cd :
  scripts_sim false (authenticate c domain origin q cd) s1 s2 ->
  snd (interp (authenticate c domain origin q cd) s1) = snd (interp (authenticate c domain origin q cd) s2).
Proof. apply prelS_interp_eq, prel_authenticate. Qed.

Theorem c06_u2f_register app chal handle :
  scripts_sim false (u2f_register app chal handle) s1 s2 ->
  snd (interp (u2f_register app chal handle) s1) = snd (interp (u2f_register app chal handle) s2).
Proof. apply prelS_interp_eq, prel_u2f_register. Qed.

Theorem c06_u2f_authenticate app chal kh counter presence :
  scripts_sim false (u2f_authenticate app chal kh counter presence) s1 s2 ->
  snd (interp (u2f_authenticate app chal kh counter presence) s1)
  = snd (interp (u2f_authenticate app chal kh counter presence) s2).
Proof. apply prelS_interp_eq, prel_u2f_authenticate. Qed.
End Runs.

(** the calls made by the two runs are equal up to the secret positions (so whatever the store or
    the user-validation object is handed is the only place a secret travels to) *)
Theorem c06_calls_make_credential c q s1 s2 :
  scripts_sim false (make_credential c q) s1 s2 ->
  Forall2 event_sim (fst (interp (make_credential c q) s1)) (fst (interp (make_credential c q) s2)).
Proof. intros H. apply (prelS_interp _ _ _ _ (prel_make_credential c q) s1 s2 H). Qed.

Theorem c06_calls_get_assertion adb c q s1 s2 :
  scripts_sim false (get_assertion adb c q) s1 s2 ->
  Forall2 event_sim (fst (interp (get_assertion adb c q) s1)) (fst (interp (get_assertion adb c q) s2)).
Proof. intros H. apply (prelS_interp _ _ _ _ (prel_get_assertion adb false c q) s1 s2 H). Qed.

(** *** the debug rendering of a stored passkey reads public fields only *)
Theorem debug_passkey_public p1 p2 :
  passkey_sim p1 p2 ->
  debug_passkey p1 = debug_passkey p2 /\ debug_passkey_pretty p1 = debug_passkey_pretty p2.
Proof.
  intros ((_ & Hec & _) & _ & _ & _ & Hctr & _). unfold debug_passkey, debug_passkey_pretty.
  rewrite Hec, Hctr. split; reflexivity.
Qed.

(** *** the attested public key is the public point of the generated key pair *)
Definition kg_step (s : option (bytes * bytes)) (e : eff) (a : answer) : option (bytes * bytes) :=
  match e, a with
  | EKeyGen, AKey _ x y => Some (x, y)
  | _, _ => s
  end.

Definition kg_judge (c : config) (s : option (bytes * bytes)) (res : option (result mc_response N)) : Prop :=
  match res with
  | Some (Ok r) =>
      exists a, ad_acd (mr_auth_data r) = Some a /\ s = Some (acd_x a, acd_y a) /\ acd_aaguid a = c_aaguid c
  | _ => True
  end.

Definition not_keygen (e : eff) : bool := negb (is_keygen e).

Lemma kg_boring s e a : not_keygen e = true -> kg_step s e a = s.
Proof. destruct e; cbn; try discriminate; reflexivity. Qed.

Section Attested.
Variables (c : config) (q : mc_request).
Let Q := kg_judge c.

Ltac skip := apply holdsK_bind; apply (holdsK_stutter kg_step Q not_keygen kg_boring); [only_seg|exact I|].

Lemma mc_after_rk_attested flags alg s :
  holdsK kg_step Q (mc_after_rk c q flags alg) s (fun s r => Q s (Some r)).
Proof.
  unfold mc_after_rk. destruct (mc_pin_auth q); [exact I|].
  skip. intros cred_id.
  apply holdsK_bind. unfold keygen. cbn [holdsK]. split; [exact I|]. intros a.
  destruct a; cbn [holdsK kg_step]; try exact I.
  apply holdsK_bind; apply (holdsK_stutter kg_step Q not_keygen kg_boring); [only_seg|exact I|].
  intros [[cred_ext unsigned]|e]; [|exact I].
  skip. intros disc. skip. intros [[]|e]; cbn [holdsK]; [|exact I].
  unfold Q, kg_judge. cbn [mr_auth_data ad_acd]. eexists. split; [reflexivity|]. cbn. auto.
Qed.

Theorem make_credential_attested : holds kg_step Q (make_credential c q) None.
Proof.
  unfold holds, make_credential. destruct (negb (o_up (mc_opts q))); [exact I|].
  skip. intros [flags|e]; [|exact I].
  assert (AE : forall s, holdsK kg_step Q (mc_after_exclude c q flags) s (fun s r => Q s (Some r))).
  { intros s. unfold mc_after_exclude. destruct (choose_algorithm c (mc_params q)); [|exact I].
    destruct (o_rk (mc_opts q)); [|apply mc_after_rk_attested].
    skip. intros info. destruct (negb (i_rk info)); [exact I|apply mc_after_rk_attested]. }
  unfold mc_after_consent. destruct (mc_exclude q) as [[|id ids]|]; try apply AE.
  skip. intros [[|p l]|e]; try apply AE. exact I.
Qed.
End Attested.

Theorem c06_attested_key c q script r :
  snd (interp (make_credential c q) script) = Some (Ok r) ->
  exists a, ad_acd (mr_auth_data r) = Some a
            /\ run_monitor kg_step None (fst (interp (make_credential c q) script)) = Some (acd_x a, acd_y a)
            /\ acd_aaguid a = c_aaguid c.
Proof.
  intros H. pose proof (holds_sound kg_step (kg_judge c) _ None script (make_credential_attested c q)) as G.
  rewrite H in G. exact G.
Qed.

(** the COSE key inside the attested credential data, as encoded by the ceremonies
    ([ad_bytes], Auth/Replay.v), is the CBOR map with exactly the labels 1 (kty), 3 (alg), -1 (crv),
    -2 (x), -3 (y): there is no label -4 (the private scalar) *)
Definition cose_labels (v : cbor) : list cbor := match v with CMap l => map fst l | _ => [] end.

Theorem attested_cose_labels x y alg :
  cose_labels (ec2_pub_key 1 x y (Some alg)) = [CInt 1; CInt 3; CInt (-1); CInt (-2); CInt (-3)].
Proof. reflexivity. Qed.

(** and its byte encoding inside the authenticator data is the CBOR encoding of that map *)
Theorem attested_cose_bytes x y :
  length x = 32%nat -> length y = 32%nat ->
  cose_pub_bytes x y ES256 = cbor_encode (ec2_pub_key 1 x y (Some ES256)).
Proof.
  intros Hx Hy. unfold cose_pub_bytes, ec2_pub_key, cbor_head, ES256.
  cbn [cbor_encode flat_map app length]. rewrite Hx, Hy.
  rewrite app_nil_r. vm_compute. reflexivity.
Qed.

(** *** the same theorems in the [prelR] form (secret draws as a free constructor) *)
Lemma prelR_weaken {R1 R2} (RR RR' : R1 -> R2 -> Prop) p1 p2 :
  (forall r1 r2, RR r1 r2 -> RR' r1 r2) -> prelR RR p1 p2 -> prelR RR' p1 p2.
Proof.
  intros HR H. induction H as [r1 r2 H| |e1 e2 k1 k2 He Hk IH|n k1 k2 Hk IH].
  - apply prel_ret. apply HR. exact H.
  - apply prel_stuck.
  - apply prel_call; [exact He|exact IH].
  - apply prel_secret_rand. exact IH.
Qed.

Lemma prelS_public_prelR {R} b (p1 p2 : prog R) : prelS public_result b p1 p2 -> prelR eq p1 p2.
Proof.
  intros H. eapply prelR_weaken; [|eapply prelS_prelR; exact H].
  intros r1 r2 [b' E]. exact E.
Qed.

Theorem prelR_get_info c : prelR eq (get_info c) (get_info c).
Proof. eapply prelS_public_prelR. apply (prel_get_info_public false). Qed.
Theorem prelR_make_credential c q : prelR eq (make_credential c q) (make_credential c q).
Proof. eapply prelS_public_prelR. apply prel_make_credential. Qed.
Theorem prelR_get_assertion adb c q : prelR eq (get_assertion adb c q) (get_assertion adb c q).
Proof. eapply prelS_public_prelR. apply (prel_get_assertion adb false). Qed.
Theorem prelR_register c domain origin q cd : prelR eq (register c domain origin q cd) (register c domain origin q cd).
Proof. eapply prelS_public_prelR. apply prel_register. Qed.
Theorem prelR_authenticate c domain origin q cd :
  prelR eq (authenticate c domain origin q cd) (authenticate c domain origin q cd).
Proof. eapply prelS_public_prelR. apply (prel_authenticate false). Qed.
Theorem prelR_u2f_register app chal handle :
  prelR eq (u2f_register app chal handle) (u2f_register app chal handle).
Proof. eapply prelS_public_prelR. apply (prel_u2f_register false). Qed.
Theorem prelR_u2f_authenticate app chal kh counter presence :
  prelR eq (u2f_authenticate app chal kh counter presence) (u2f_authenticate app chal kh counter presence).
Proof. eapply prelS_public_prelR. apply (prel_u2f_authenticate false). Qed.
