(** C03: a successful authentication returns a signature that verifies and is bound to the ceremony.

    - a structural reading of any successful run of [Authenticator.get_assertion] /
      [Client.authenticate] ([get_assertion_ok_inv], [authenticate_ok_inv]): WHICH key signs WHICH
      message, and how every field of the result is made;
    - what a relying party reads back from the returned bytes ([cd_view], [parse_authdata_spec]);
    - "verifies": ECDSA is not modelled arithmetically.  The signature is the answer of the [ESign]
      event; the theorems say that its key is the private scalar stored under the returned credential
      id and its message the returned authenticator data followed by the client data hash.  For an
      abstract scheme whose signer is correct ([Section Scheme]) the signature then verifies under the
      public key registered for that id;
    - histories: the invariant [Registry] (every stored passkey holds the key material generated at the
      registration of its id, and that registration's effective RP ID) over every sequence of completed
      registrations and authentications on the reference store. *)
From Coq Require Import ZArith ZifyBool ZifyNat ZifyN Lia.
From PK Require Import Lib.Check Lib.Sha256 Lib.Base64 Lib.Base64Facts Lib.Cbor Wire.AuthDataSpec.
From PK Require Wire.AuthDataFacts.
From PK Require Export Auth.C02Facts.
Open Scope N_scope.

(** * Assertion at the authenticator: reading a successful run *)
Definition ga_auth_data (rp : bytes) (p v : bool) (counter : option N) : auth_data :=
  {| ad_rp_id := rp; ad_flags := N.lor F_DEFAULT (user_flags p v); ad_counter := counter; ad_acd := None |}.

(** events that neither sign nor create: what may happen between the lookup and the signature *)
Definition between (e : eff) : bool := is_user e || is_update e || is_rand_or_hmac e.

Section Encoders.
Variable adb : auth_data -> bytes.

Lemma ga_finish_ok_inv c q flags cred script tr r :
  interp (ga_finish adb c q flags cred) script = (tr, Some (Ok r)) ->
  exists d sg t_ext prf,
    private_key (pk_key cred) = Ok d
    /\ tr = t_ext ++ [(ESign d (adb {| ad_rp_id := ga_rp_id q; ad_flags := N.lor F_DEFAULT flags;
                                      ad_counter := pk_counter cred; ad_acd := None |} ++ ga_cdh q), ABytes sg)]
    /\ all_in is_rand_or_hmac t_ext
    /\ r = {| gr_cred_id := pk_cred_id cred;
              gr_auth_data := {| ad_rp_id := ga_rp_id q; ad_flags := N.lor F_DEFAULT flags;
                                 ad_counter := pk_counter cred; ad_acd := None |};
              gr_signature := sg; gr_user_handle := pk_user_handle cred; gr_prf := prf |}.
Proof.
  unfold ga_finish. intros H.
  apply interp_bind_some in H as (t_ext & ex & t2 & H1 & H & ->).
  pose proof (only_trace' _ _ _ _ _ (get_extensions_only c cred (ga_ext q) _) H1) as Qe.
  destruct ex as [prf|e]; [|exfalso; eapply ret_err_not_ok; exact H].
  destruct (private_key (pk_key cred)) as [d|e]; [|exfalso; eapply ret_err_not_ok; exact H].
  apply interp_bind_some in H as (t1 & sg & t3 & H2 & H & ->). apply sign_inv in H2. subst t1.
  apply interp_ret in H as [-> H]. injection H as ->.
  exists d, sg, t_ext, prf. rewrite app_nil_r. auto.
Qed.

Definition allow_ids (allow : option (list bytes)) : option (list bytes) :=
  match allow with Some ((_ :: _) as l) => Some l | _ => None end.

Theorem get_assertion_ok_inv c q script tr r :
  interp (get_assertion adb c q) script = (tr, Some (Ok r)) ->
  exists r0 cred0 p v d sg t_mid prf counter,
    first_credential r0 = Ok cred0
    /\ private_key (pk_key cred0) = Ok d
    /\ (o_up (ga_opts q) = true -> p = true) /\ (o_uv (ga_opts q) = true -> v = true)
    /\ counter = match pk_counter cred0 with Some n => Some (counter_next n) | None => None end
    /\ tr = [(EFind (allow_ids (ga_allow q)) (ga_rp_id q), AFind r0)] ++ t_mid
            ++ [(ESign d (adb (ga_auth_data (ga_rp_id q) p v counter) ++ ga_cdh q), ABytes sg)]
    /\ all_in between t_mid
    /\ filter (fun ea => mutates (fst ea)) t_mid
       = match pk_counter cred0 with Some n => [(EUpdate (bump_counter cred0 n), AUnit (Ok tt))] | None => [] end
    /\ In (ECheckUser (Some cred0) (o_up (ga_opts q)) (o_uv (ga_opts q)), ACheck (Ok (p, v))) t_mid
    /\ r = {| gr_cred_id := pk_cred_id cred0; gr_auth_data := ga_auth_data (ga_rp_id q) p v counter;
              gr_signature := sg; gr_user_handle := pk_user_handle cred0; gr_prf := prf |}.
Proof.
  unfold get_assertion. intros H.
  apply interp_bind_some in H as (t1 & r0 & t2 & H1 & H & ->). apply find_inv in H1. subst t1.
  destruct (ga_pin_auth q); [exfalso; eapply ret_err_not_ok; exact H|].
  destruct (o_rk (ga_opts q)); [exfalso; eapply ret_err_not_ok; exact H|].
  apply interp_bind_some in H as (t_cu & fl & t3 & H1 & H & ->).
  destruct fl as [flags|e]; [|exfalso; eapply ret_err_not_ok; exact H].
  apply check_user_ok_inv in H1 as (p & v & -> & Hp & Hv & ->).
  unfold ga_after_consent in H.
  destruct (first_credential r0) as [cred0|e] eqn:Hfc; [|exfalso; eapply ret_err_not_ok; exact H].
  set (t_cu := (if o_uv (ga_opts q) then [(EVerifEnabled, AOptBool (Some true))] else [])
               ++ [(ECheckUser (Some cred0) (o_up (ga_opts q)) (o_uv (ga_opts q)), ACheck (Ok (p, v)))]) in *.
  assert (Qcu : all_in between t_cu) by (unfold t_cu; destruct (o_uv (ga_opts q)); repeat constructor).
  assert (Icu : forall X, In (ECheckUser (Some cred0) (o_up (ga_opts q)) (o_uv (ga_opts q)), ACheck (Ok (p, v))) (t_cu ++ X)).
  { intros X. apply in_or_app. left. unfold t_cu. apply in_or_app. right. left. reflexivity. }
  assert (Qe : forall t, all_in is_rand_or_hmac t -> all_in between t).
  { intros t. apply all_in_weaken. intros e He. unfold between. rewrite He. apply orb_true_r. }
  assert (Mcu : filter (fun ea => mutates (fst ea)) t_cu = []) by (unfold t_cu; destruct (o_uv (ga_opts q)); reflexivity).
  assert (Me : forall t, all_in is_rand_or_hmac t -> filter (fun ea => mutates (fst ea)) t = []).
  { intros t Qt. apply (filter_none t Qt). intros e He. apply rand_hmac_facts in He. tauto. }
  destruct (pk_counter cred0) as [n|] eqn:Hctr.
  - apply interp_bind_some in H as (t1 & u & t4 & H1 & H & ->). apply update_inv in H1. subst t1.
    destruct u as [[]|e]; [|exfalso; eapply ret_err_not_ok; exact H].
    apply ga_finish_ok_inv in H as (d & sg & t_ext & prf & Hpk & -> & Qx & ->).
    cbn [bump_counter pk_key pk_counter pk_cred_id pk_user_handle] in *.
    exists r0, cred0, p, v, d, sg, (t_cu ++ [(EUpdate (bump_counter cred0 n), AUnit (Ok tt))] ++ t_ext), prf, (Some (counter_next n)).
    repeat split; auto; try (rewrite Hctr; reflexivity).
    + rewrite <- !app_assoc. reflexivity.
    + apply all_in_app. split; [exact Qcu|]. apply all_in_app. split; [repeat constructor|apply Qe, Qx].
    + rewrite !filter_app, Mcu, (Me _ Qx), Hctr. reflexivity.
  - apply ga_finish_ok_inv in H as (d & sg & t_ext & prf & Hpk & -> & Qx & ->). rewrite Hctr.
    exists r0, cred0, p, v, d, sg, (t_cu ++ t_ext), prf, None.
    repeat split; auto; try (rewrite Hctr; reflexivity).
    + rewrite <- !app_assoc. reflexivity.
    + apply all_in_app. split; [exact Qcu|apply Qe, Qx].
    + rewrite !filter_app, Mcu, (Me _ Qx), Hctr. reflexivity.
Qed.
End Encoders.

(** * Authentication at the client: reading a successful run *)
Definition AuthenticationRun (c : config) (rp origin : bytes) (q : auth_request) (cd : cd_mode) (tr : trace)
  (au : authenticated) (r0 : result (list passkey) N) (cred0 : passkey) (d : bytes) : Prop :=
  exists (p v : bool) t_pre t_mid counter,
    first_credential r0 = Ok cred0
    /\ private_key (pk_key cred0) = Ok d
    /\ (aq_uv q <> UvDiscouraged -> v = true) /\ p = true
    /\ tr = t_pre ++ [(EFind (allow_ids (aq_allow q)) rp, AFind r0)] ++ t_mid
            ++ [(ESign d (au_auth_data au ++ client_data_hash (au_client_data_json au) cd), ABytes (au_signature au))]
    /\ all_in is_info t_pre /\ all_in between t_mid
    /\ filter (fun ea => mutates (fst ea)) t_mid
       = match pk_counter cred0 with Some n => [(EUpdate (bump_counter cred0 n), AUnit (Ok tt))] | None => [] end
    /\ (exists uv, In (ECheckUser (Some cred0) true uv, ACheck (Ok (p, v))) t_mid)
    /\ au_raw_id au = pk_cred_id cred0
    /\ au_id au = b64url_encode (pk_cred_id cred0)
    /\ au_user_handle au = pk_user_handle cred0
    /\ au_client_data_json au = client_data_json T_GET (aq_challenge q) origin cd
    /\ au_auth_data au = ad_bytes sha256 (ga_auth_data rp p v counter).

Theorem authenticate_ok_inv c rp origin q cd script tr au :
  interp (authenticate c (Ok rp) origin q cd) script = (tr, Some (Ok au)) ->
  exists r0 cred0 d, AuthenticationRun c rp origin q cd tr au r0 cred0 d.
Proof.
  unfold authenticate. intros H.
  apply interp_bind_some in H as (t1 & info & t2 & H1 & H & ->).
  apply get_info_inv in H1 as (d0 & uv0 & up0 & -> & ->). cbn [i_prf_ext] in H.
  destruct (authentication_ext _ _ _) as [ctap_ext|e]; [|exfalso; eapply ret_err_not_ok; exact H].
  apply interp_bind_some in H as (t_ga & r & t3 & H1 & H & ->).
  destruct r as [resp|s]; [|exfalso; eapply ret_err_not_ok; exact H].
  apply get_assertion_ok_inv in H1
    as (r0 & cred0 & p & v & d & sg & t_mid & prf & counter & Hfc & Hpk & Hp & Hv & _ & -> & Qm & Mm & Icu & ->).
  cbn [ga_opts o_up o_uv ga_rp_id ga_cdh ga_allow] in *.
  apply interp_ret in H as [-> H]. injection H as ->.
  exists r0, cred0, d. exists p, v, [(EStoreInfo, AInfo d0); (EVerifEnabled, AOptBool uv0); (EPresenceEnabled, ABool up0)], t_mid, counter.
  cbn [au_auth_data au_client_data_json au_signature au_raw_id au_id au_user_handle gr_auth_data gr_signature gr_cred_id gr_user_handle].
  repeat split; auto.
  - intros Hd. apply Hv. destruct (aq_uv q); try reflexivity. congruence.
  - rewrite app_nil_r. reflexivity.
  - repeat constructor.
  - eexists. exact Icu.
Qed.

(** * What a relying party reads back: authenticator data of an assertion *)
Lemma auth_flags_facts p v :
  let f := N.lor F_DEFAULT (user_flags p v) in
  N.testbit f 6 = false /\ N.testbit f 7 = false /\ f < 256 /\ N.testbit f 0 = p /\ N.testbit f 2 = v.
Proof. destruct p, v; vm_compute; repeat split; reflexivity. Qed.

(** SHA-256 of the effective RP ID, AT and ED clear, no attested credential data, no extensions,
    nothing after the counter *)
Theorem auth_authdata_parse rp p v counter :
  exists n,
    parse_authdata_spec (ad_bytes sha256 (ga_auth_data rp p v counter)) =
    Some {| f_rp_id_hash := sha256 rp; f_flags := N.lor F_DEFAULT (user_flags p v); f_sign_count := n;
            f_acd := None; f_ext := None |}.
Proof.
  unfold ad_bytes, ga_auth_data. cbn [ad_rp_id ad_flags ad_counter ad_acd].
  destruct (auth_flags_facts p v) as (F6 & F7 & _). cbv zeta in F6, F7.
  set (f := N.lor F_DEFAULT (user_flags p v)) in *.
  set (k := match counter with Some c => c | None => 0 end).
  unfold be32. cbn [app].
  rewrite (AuthDataFacts.parse_authdata_spec_eq (sha256 rp) f _ _ _ _ [] (sha256_length rp)).
  unfold AuthDataFacts.spec_body. rewrite F6, F7. eexists. reflexivity.
Qed.

(** * The statements of C03 about one successful authentication *)
Lemma info_facts e : is_info e = true ->
  is_find e = false /\ is_sign e = false /\ is_save e = false /\ is_keygen e = false /\ mutates e = false.
Proof. destruct e; cbn; intros H; try discriminate H; repeat split. Qed.

Lemma between_facts e : between e = true ->
  is_find e = false /\ is_sign e = false /\ is_save e = false /\ is_keygen e = false.
Proof. destruct e; cbn; intros H; try discriminate H; repeat split. Qed.

Section ARun.
Variables (c : config) (rp origin : bytes) (q : auth_request) (cd : cd_mode) (tr : trace) (au : authenticated).
Variables (r0 : result (list passkey) N) (cred0 : passkey) (d : bytes).
Hypothesis R : AuthenticationRun c rp origin q cd tr au r0 cred0 d.

(** the one lookup of the ceremony: made for the effective RP ID, with the allow list when non-empty;
    the credential used is the first it returned *)
Theorem arun_lookup :
  filter (fun ea => is_find (fst ea)) tr = [(EFind (allow_ids (aq_allow q)) rp, AFind r0)]
  /\ first_credential r0 = Ok cred0.
Proof.
  destruct R as (p & v & t_pre & t_mid & cnt & Hfc & _ & _ & _ & -> & Qp & Qm & _).
  split; [|exact Hfc]. rewrite !filter_app.
  rewrite (filter_none t_pre Qp) by (intros e He; apply info_facts in He; tauto).
  rewrite (filter_none t_mid Qm) by (intros e He; apply between_facts in He; tauto). reflexivity.
Qed.

(** exactly one signature is made, as the last event: with the private scalar of the selected
    credential, over the returned authenticator data followed by the client data hash (SHA-256 of the
    returned client data JSON, or the caller-supplied hash); the returned signature is its answer *)
Theorem arun_signature :
  filter (fun ea => is_sign (fst ea)) tr
  = [(ESign d (au_auth_data au ++ client_data_hash (au_client_data_json au) cd), ABytes (au_signature au))]
  /\ private_key (pk_key cred0) = Ok d
  /\ k_d (pk_key cred0) = Some d
  /\ (exists pre, tr = pre ++ [(ESign d (au_auth_data au ++ client_data_hash (au_client_data_json au) cd), ABytes (au_signature au))])
  /\ filter (fun ea => is_save (fst ea)) tr = [] /\ filter (fun ea => is_keygen (fst ea)) tr = [].
Proof.
  destruct R as (p & v & t_pre & t_mid & cnt & Hfc & Hpk & _ & _ & -> & Qp & Qm & _).
  repeat split.
  - rewrite !filter_app.
    rewrite (filter_none t_pre Qp) by (intros e He; apply info_facts in He; tauto).
    rewrite (filter_none t_mid Qm) by (intros e He; apply between_facts in He; tauto). reflexivity.
  - exact Hpk.
  - unfold private_key in Hpk. destruct (negb (k_es256 (pk_key cred0))); [discriminate|].
    destruct (negb (k_ec2 (pk_key cred0))); [discriminate|]. destruct (k_d (pk_key cred0)); congruence.
  - eexists (t_pre ++ [_] ++ t_mid). rewrite <- !app_assoc. reflexivity.
  - rewrite !filter_app.
    rewrite (filter_none t_pre Qp) by (intros e He; apply info_facts in He; tauto).
    rewrite (filter_none t_mid Qm) by (intros e He; apply between_facts in He; tauto). reflexivity.
  - rewrite !filter_app.
    rewrite (filter_none t_pre Qp) by (intros e He; apply info_facts in He; tauto).
    rewrite (filter_none t_mid Qm) by (intros e He; apply between_facts in He; tauto). reflexivity.
Qed.

(** id and raw id agree and name the selected credential; the user handle is the one stored in it; the
    user was shown that credential and consented *)
Theorem arun_ids :
  au_raw_id au = pk_cred_id cred0 /\ au_id au = b64url_encode (au_raw_id au)
  /\ au_user_handle au = pk_user_handle cred0
  /\ exists uv p v, In (ECheckUser (Some cred0) true uv, ACheck (Ok (p, v))) tr /\ p = true /\ (aq_uv q <> UvDiscouraged -> v = true).
Proof.
  destruct R as (p & v & t_pre & t_mid & cnt & _ & _ & Hv & Hp & -> & _ & _ & _ & (uv & Icu) & -> & -> & -> & _).
  repeat split. exists uv, p, v. repeat split; auto.
  apply in_or_app. right. apply in_or_app. right. apply in_or_app. left. exact Icu.
Qed.

Theorem arun_client_data :
  au_client_data_json au = client_data_json T_GET (aq_challenge q) origin cd.
Proof. destruct R as (p & v & t_pre & t_mid & cnt & _ & _ & _ & _ & _ & _ & _ & _ & _ & _ & _ & _ & -> & _). reflexivity. Qed.

Theorem arun_client_data_view : bytes_ok (aq_challenge q) ->
  cd_view (au_client_data_json au)
  = Some (T_GET, b64url_encode (aq_challenge q), origin,
          P_CROSS ++ (match cd with CdExtra tail => tail | _ => [] end) ++ [125])
  /\ b64url_decode (b64url_encode (aq_challenge q)) = Some (aq_challenge q)
  /\ ~ In 61 (b64url_encode (aq_challenge q)).
Proof.
  intros Hc. rewrite arun_client_data. split; [apply client_data_view; [reflexivity|exact Hc]|].
  split; [apply b64url_round; exact Hc|apply b64url_encode_no_pad; exact Hc].
Qed.

(** authenticator data: the hash of the effective RP ID, no attested credential data; UP and UV say
    what the user check reported *)
Theorem arun_authdata :
  exists flags n,
    parse_authdata_spec (au_auth_data au) =
    Some {| f_rp_id_hash := sha256 rp; f_flags := flags; f_sign_count := n; f_acd := None; f_ext := None |}
    /\ N.testbit flags 6 = false /\ N.testbit flags 7 = false /\ N.testbit flags 0 = true.
Proof.
  destruct R as (p & v & t_pre & t_mid & cnt & _ & _ & _ & Hp & _ & _ & _ & _ & _ & _ & _ & _ & _ & ->).
  destruct (auth_authdata_parse rp p v cnt) as (n & E).
  destruct (auth_flags_facts p v) as (F6 & F7 & _ & F0 & _).
  exists (N.lor F_DEFAULT (user_flags p v)), n. subst p. auto.
Qed.

(** given a store that follows the lookup contract: the credential is one the store holds for the
    effective RP ID, and an id of the allow list when one was given *)
Theorem arun_registered_for_rp st :
  lookups_follow_contract st tr ->
  In cred0 st /\ pk_rp_id cred0 = rp
  /\ (forall l, aq_allow q = Some l -> l <> [] -> In (au_raw_id au) l).
Proof.
  intros C. destruct arun_ids as (Hid & _).
  destruct R as (p & v & t_pre & t_mid & cnt & Hfc & _ & _ & _ & Htr & _).
  assert (Hin : In (EFind (allow_ids (aq_allow q)) rp, AFind r0) tr).
  { rewrite Htr. apply in_or_app. right. left. reflexivity. }
  apply C in Hin. destruct (contract_first _ _ _ _ _ Hin Hfc) as (Hst & Hrp & Hl).
  repeat split; auto.
  intros l Hal Hne. rewrite Hal in Hl. destruct l as [|x l]; [congruence|].
  cbn [allow_ids id_listed] in Hl. rewrite Hid. apply existsb_beq_In. exact Hl.
Qed.
End ARun.

(** * "verifies": an abstract signature scheme with a correct signer *)
Section Scheme.
Variable pub_of : bytes -> bytes * bytes.                        (* private scalar -> public point *)
Variable verify : bytes * bytes -> bytes -> bytes -> bool.       (* public point, message, signature *)

(** the answers of the signing events of a trace are signatures of a correct signer *)
Definition signer_correct (tr : trace) : Prop :=
  forall k m sg, In (ESign k m, ABytes sg) tr -> verify (pub_of k) m sg = true.

Theorem arun_verifies c rp origin q cd tr au r0 cred0 d :
  AuthenticationRun c rp origin q cd tr au r0 cred0 d -> signer_correct tr ->
  verify (pub_of d) (au_auth_data au ++ client_data_hash (au_client_data_json au) cd) (au_signature au) = true.
Proof.
  intros R S. destruct (arun_signature _ _ _ _ _ _ _ _ _ _ R) as (_ & _ & _ & (pre & ->) & _).
  apply S. apply in_or_app. right. left. reflexivity.
Qed.
End Scheme.

(** * No eligible credential *)
Definition no_cred (r0 : result (list passkey) N) : Prop := r0 = Ok [] \/ r0 = Err CTAP2_NoCredentials.

Lemma no_cred_first r0 : no_cred r0 -> first_credential r0 = Err CTAP2_NoCredentials.
Proof. intros [-> | ->]; reflexivity. Qed.

(** a finished user check: only capability / user events; and if the user's answer reported presence
    when required and verification when required, the check succeeded *)
Lemma check_user_result o cred script tr fl :
  interp (check_user o cred) script = (tr, Some fl) ->
  all_in is_user tr
  /\ (forall cred' up uv p v, In (ECheckUser cred' up uv, ACheck (Ok (p, v))) tr ->
        implb up p && implb uv v = true -> exists flags, fl = Ok flags).
Proof.
  intros H. split.
  { eapply only_trace'; [|exact H]. apply only_check_user. intros e He; exact He. }
  assert (K : forall script tr,
    interp (r <- ask_user cred (o_up o) (o_uv o) ;;
            match r with
            | Err e => Ret (Err e)
            | Ok (presence, verification) =>
                if o_up o && negb presence then Ret (Err CTAP2_OperationDenied)
                else if o_uv o && negb verification then Ret (Err CTAP2_OperationDenied)
                else Ret (Ok (N.lor (if presence then F_UP else 0) (if verification then F_UV else 0)))
            end) script = (tr, Some fl) ->
    forall cred' up uv p v, In (ECheckUser cred' up uv, ACheck (Ok (p, v))) tr ->
        implb up p && implb uv v = true -> exists flags, fl = Ok flags).
  { intros s t G cred' up uv p v Hin Hs.
    apply interp_bind_some in G as (t1 & r & t2 & G1 & G2 & ->). apply ask_user_inv in G1. subst t1.
    assert (t2 = []) as ->.
    { destruct r as [[p' v']|e]; [destruct (o_up o && negb p'); [|destruct (o_uv o && negb v')]|];
        apply interp_ret in G2; tauto. }
    destruct Hin as [Hin|[]]. injection Hin as <- <- <- ->.
    apply andb_true_iff in Hs as [Hs1 Hs2].
    destruct (o_up o), (o_uv o), p, v; try discriminate; cbn in G2; injection G2 as <-; eauto. }
  unfold check_user in H. destruct (o_uv o) eqn:Huv.
  - apply interp_bind_some in H as (t1 & cap & t2 & H1 & H & ->). apply verif_inv in H1. subst t1.
    intros cred' up uv p v Hin Hs. destruct Hin as [Hin|Hin]; [discriminate Hin|].
    destruct (negb (opt_is_true cap)).
    + apply interp_ret in H as [-> _]. destruct Hin.
    + eapply K; eassumption.
  - eapply K; eassumption.
Qed.

(** every finished authentication whose lookup found no eligible credential: an error, nothing signed,
    nothing written; and if the user consented the error is CredentialNotFound *)
Theorem authenticate_no_credential c rp origin q cd script tr res :
  interp (authenticate c (Ok rp) origin q cd) script = (tr, Some res) ->
  (forall ids rp' r0, In (EFind ids rp', AFind r0) tr -> no_cred r0) ->
  (exists e, res = Err e)
  /\ filter (fun ea => is_sign (fst ea)) tr = [] /\ filter (fun ea => mutates (fst ea)) tr = []
  /\ (forall cred up uv p v, In (ECheckUser cred up uv, ACheck (Ok (p, v))) tr ->
        implb up p && implb uv v = true -> res = Err WCredentialNotFound).
Proof.
  unfold authenticate. intros H NC.
  apply interp_bind_some in H as (t1 & info & t2 & H1 & H & ->).
  apply get_info_inv in H1 as (d0 & uv0 & up0 & -> & ->). cbn [i_prf_ext] in H.
  set (t_info := [(EStoreInfo, AInfo d0); (EVerifEnabled, AOptBool uv0); (EPresenceEnabled, ABool up0)]) in *.
  assert (NI : forall cred up uv p v, ~ In (ECheckUser cred up uv, ACheck (Ok (p, v))) t_info).
  { intros cred up uv p v [G|[G|[G|[]]]]; discriminate G. }
  destruct (authentication_ext _ _ _) as [ctap_ext|e].
  2:{ apply interp_ret in H as [-> ->]. rewrite app_nil_r. split; [eauto|]. split; [reflexivity|]. split; [reflexivity|].
      intros cred up uv p v Hin. exfalso. eapply NI. exact Hin. }
  apply interp_bind_some in H as (t_ga & r & t3 & H1 & H & ->).
  unfold get_assertion in H1.
  apply interp_bind_some in H1 as (tf & r0 & t4 & Hf & H1 & ->). apply find_inv in Hf. subst tf.
  assert (N0 : no_cred r0). { eapply NC. apply in_or_app. right. apply in_or_app. left. left. reflexivity. }
  rewrite (no_cred_first _ N0) in H1. cbn [ga_pin_auth ga_opts o_rk] in H1.
  apply interp_bind_some in H1 as (t_cu & fl & t5 & Hc & H1 & ->).
  destruct (check_user_result _ _ _ _ _ Hc) as (Qcu & Hcons).
  assert (t5 = [] /\ r = match fl with Ok _ => Err CTAP2_NoCredentials | Err e => Err e end) as [-> ->].
  { destruct fl as [flags|e]; apply interp_ret in H1; tauto. }
  assert (t3 = [] /\ res = Err (werr_of_status match fl with Ok _ => CTAP2_NoCredentials | Err e => e end)) as [-> ->].
  { destruct fl as [flags|e]; apply interp_ret in H; tauto. }
  rewrite !app_nil_r.
  assert (FS : forall f : eff -> bool, f EStoreInfo = false -> f EVerifEnabled = false -> f EPresenceEnabled = false ->
                 (forall ids rp', f (EFind ids rp') = false) -> (forall e, is_user e = true -> f e = false) ->
                 filter (fun ea => f (fst ea)) (t_info ++ [(EFind (allow_ids (aq_allow q)) rp, AFind r0)] ++ t_cu) = []).
  { intros f F1 F2 F3 F4 F5. rewrite !filter_app. cbn [filter fst t_info]. rewrite F1, F2, F3, F4.
    rewrite (filter_none t_cu Qcu) by exact F5. reflexivity. }
  split; [eauto|].
  split; [apply FS; try reflexivity; intros e He; destruct e; try discriminate He; reflexivity|].
  split; [apply FS; try reflexivity; intros e He; destruct e; try discriminate He; reflexivity|].
  intros cred up uv p v Hin Hs.
  apply in_app_or in Hin as [Hin|Hin]; [exfalso; eapply NI; exact Hin|].
  destruct Hin as [Hin|Hin]; [discriminate Hin|].
  destruct (Hcons _ _ _ _ _ Hin Hs) as (flags & ->). reflexivity.
Qed.

(** * Against the reference store *)
Lemma info_no_mut (t : trace) : all_in is_info t -> forall s, fold_left apply_mut t s = s.
Proof. intros Q s. apply (fold_no_mut t s Q). intros e He. apply info_facts in He. tauto. Qed.

(** a successful authentication against the reference store *)
Theorem authenticate_store_step c rp origin q cd st disc script st' tr au :
  exec (authenticate c (Ok rp) origin q cd) st disc script = (st', tr, Some (Ok au)) ->
  exists r0 cred0 d,
    AuthenticationRun c rp origin q cd tr au r0 cred0 d
    /\ In cred0 st /\ pk_rp_id cred0 = rp
    /\ (forall l, aq_allow q = Some l -> l <> [] -> In (au_raw_id au) l)
    /\ st' = match pk_counter cred0 with Some n => put st (bump_counter cred0 n) | None => st end.
Proof.
  intros E. pose proof (exec_spec (authenticate c (Ok rp) origin q cd) st disc script) as S. rewrite E in S.
  destruct S as (SI & SS & SF).
  destruct (authenticate_ok_inv _ _ _ _ _ _ _ _ SI) as (r0 & cred0 & d & R).
  exists r0, cred0, d. split; [exact R|].
  pose proof R as (p & v & t_pre & t_mid & cnt & Hfc & _ & _ & _ & Htr & Qp & Qm & Mm & _).
  assert (C : lookups_follow_contract st tr).
  { (* the only lookup is answered by the store as it was before the ceremony *)
    intros ids rp' r1 Hin.
    destruct (arun_lookup _ _ _ _ _ _ _ _ _ _ R) as (Hf & _).
    assert (Hin' : In (EFind ids rp', AFind r1) (filter (fun ea => is_find (fst ea)) tr)) by (apply filter_In; split; [exact Hin|reflexivity]).
    rewrite Hf in Hin'. destruct Hin' as [Hin'|[]]. injection Hin' as <- <- <-.
    rewrite (SF _ _ _ t_pre _ Htr). rewrite (info_no_mut _ Qp). apply ref_store_contract. }
  destruct (arun_registered_for_rp _ _ _ _ _ _ _ _ _ _ R st C) as (Hin & Hrp & Hal).
  repeat split; auto.
  rewrite SS, fold_mutates_filter, Htr, !filter_app.
  rewrite (filter_none t_pre Qp) by (intros e He; apply info_facts in He; tauto).
  rewrite Mm. cbn [filter fst mutates app]. rewrite app_nil_r. destruct (pk_counter cred0); reflexivity.
Qed.

(** any finished authentication against the reference store: the store is unchanged, or the counter
    of one stored credential moved one step *)
Theorem authenticate_store_any c domain origin q cd st disc script st' tr res :
  exec (authenticate c domain origin q cd) st disc script = (st', tr, Some res) ->
  st' = st \/ exists cred0 n, In cred0 st /\ pk_counter cred0 = Some n /\ st' = put st (bump_counter cred0 n).
Proof.
  intros E. pose proof (exec_spec (authenticate c domain origin q cd) st disc script) as S. rewrite E in S.
  destruct S as (SI & SS & SF).
  unfold authenticate in SI.
  apply interp_bind_some in SI as (t1 & info & t2 & H1 & SI & Htr).
  pose proof (only_trace' _ _ _ _ _ (get_info_only c) H1) as Q1.
  destruct domain as [rp|e0].
  2:{ left. apply interp_ret in SI as [-> _]. rewrite SS, Htr, app_nil_r. apply info_no_mut, Q1. }
  destruct (authentication_ext _ _ _) as [ext|e0].
  2:{ left. apply interp_ret in SI as [-> _]. rewrite SS, Htr, app_nil_r. apply info_no_mut, Q1. }
  apply interp_bind_some in SI as (t_ga & r2 & t3 & H2 & SI & ->).
  assert (t3 = []) as -> by (destruct r2; apply interp_ret in SI; tauto).
  rewrite app_nil_r in Htr.
  match type of H2 with interp (get_assertion ?adb c ?gq) ?sc = _ => pose proof (get_assertion_store_all adb c gq sc) as J end.
  rewrite H2 in J. cbn [fst snd] in J.
  assert (MF : filter (fun ea : eff * answer => mutates (fst ea)) t_ga =
          filter (fun ea : eff * answer => mutates (fst ea)) (filter (fun ea : eff * answer => storeI (fst ea)) t_ga)).
  { clear. induction t_ga as [|[e x] t IH]; cbn; [reflexivity|]. destruct e; cbn; rewrite IH; reflexivity. }
  assert (ST : st' = fold_left apply_mut (filter (fun ea : eff * answer => mutates (fst ea)) t_ga) st).
  { rewrite SS, Htr, fold_left_app, (info_no_mut _ Q1). apply fold_mutates_filter. }
  destruct (j_get_mutations _ _ _ _ J) as [Hn|(ids & rp' & r0 & rest & cred0 & n & a & rest' & Hevs & Hfc & Hctr & Hrest & Hnomut)].
  - left. rewrite ST, MF, Hn. reflexivity.
  - right. exists cred0, n.
    destruct (filter_head_split _ _ _ Hevs) as (pre & post & Htga & Hpre & Hpost).
    assert (Hst0 : fold_left apply_mut (t1 ++ pre) st = st).
    { rewrite fold_left_app, (info_no_mut _ Q1), fold_apply_filter, Hpre. reflexivity. }
    assert (Hr0 : r0 = ref_find st ids rp').
    { rewrite <- Hst0. eapply SF. rewrite Htr, Htga, <- app_assoc. reflexivity. }
    assert (C : contract_answer st ids rp' r0) by (rewrite Hr0; apply ref_store_contract).
    destruct (contract_first _ _ _ _ _ C Hfc) as (Hin & _ & _).
    repeat split; auto.
    rewrite ST, MF, Hevs, Hrest. cbn [filter fst mutates]. rewrite Hnomut. reflexivity.
Qed.

(** * The registry: which key material and RP ID belong to a credential id *)
Definition key_of (d x y : bytes) : keymat := {| k_es256 := true; k_ec2 := true; k_d := Some d; k_x := x; k_y := y |}.
Definition registry := list (bytes * (keymat * bytes)).

Fixpoint reg_lookup (reg : registry) (id : bytes) : option (keymat * bytes) :=
  match reg with
  | [] => None
  | (k, v) :: r => if beq k id then Some v else reg_lookup r id
  end.

(** every stored passkey holds the key material and the RP ID the registry records for its id *)
Definition Registry (st : content) (reg : registry) : Prop :=
  forall p, In p st -> reg_lookup reg (pk_cred_id p) = Some (pk_key p, pk_rp_id p).

Definition registry_of_store (st : content) : registry := map (fun p => (pk_cred_id p, (pk_key p, pk_rp_id p))) st.

Lemma registry_of_store_ok st : unique_ids st -> Registry st (registry_of_store st).
Proof.
  unfold unique_ids, Registry. induction st as [|x st IH]; intros U p Hin; [destruct Hin|].
  cbn [registry_of_store map reg_lookup]. inversion U as [|? ? Hx U']; subst.
  destruct Hin as [->|Hin]; [rewrite beq_refl; reflexivity|].
  destruct (beq (pk_cred_id x) (pk_cred_id p)) eqn:E.
  - exfalso. apply beq_eq in E. apply Hx. rewrite E. apply in_map. exact Hin.
  - apply IH; assumption.
Qed.

Lemma In_put st pk p : unique_ids st -> In p (put st pk) -> p = pk \/ (In p st /\ pk_cred_id p <> pk_cred_id pk).
Proof.
  unfold unique_ids. induction st as [|x st IH]; cbn [put]; intros U Hin.
  - destruct Hin as [<-|[]]. left. reflexivity.
  - inversion U as [|? ? Hx U']; subst. destruct (beq (pk_cred_id x) (pk_cred_id pk)) eqn:E.
    + apply beq_eq in E. destruct Hin as [<-|Hin]; [left; reflexivity|]. right. split; [right; exact Hin|].
      intros Eq. apply Hx. rewrite E, <- Eq. apply in_map. exact Hin.
    + destruct Hin as [<-|Hin].
      * right. split; [left; reflexivity|]. intros Eq. rewrite Eq, beq_refl in E. discriminate.
      * destruct (IH U' Hin) as [->|[H1 H2]]; [left; reflexivity|right; split; [right; exact H1|exact H2]].
Qed.

Lemma Registry_put_new st reg pk : unique_ids st -> Registry st reg ->
  Registry (put st pk) ((pk_cred_id pk, (pk_key pk, pk_rp_id pk)) :: reg).
Proof.
  intros U G p Hin. cbn [reg_lookup]. destruct (In_put _ _ _ U Hin) as [->|[H1 H2]]; [rewrite beq_refl; reflexivity|].
  destruct (beq (pk_cred_id pk) (pk_cred_id p)) eqn:E; [apply beq_eq in E; congruence|]. apply G, H1.
Qed.

Lemma Registry_bump st reg cred0 n : unique_ids st -> Registry st reg -> In cred0 st ->
  Registry (put st (bump_counter cred0 n)) reg.
Proof.
  intros U G H0 p Hin. destruct (In_put _ _ _ U Hin) as [->|[H1 H2]]; [|apply G, H1].
  cbn [bump_counter pk_cred_id pk_key pk_rp_id]. apply G, H0.
Qed.

(** * Histories of completed registrations and authentications on the reference store *)
Inductive wop :=
| WRegister (c : config) (domain : result bytes werr) (origin : bytes) (q : reg_request) (cd : cd_mode)
| WAuthenticate (c : config) (domain : result bytes werr) (origin : bytes) (q : auth_request) (cd : cd_mode).

Definition first_keygen (tr : trace) : option (bytes * bytes * bytes) :=
  match filter (fun ea => is_keygen (fst ea)) tr with
  | (_, AKey d x y) :: _ => Some (d, x, y)
  | _ => None
  end.

(** the registry entry a successful registration creates: the returned raw id is bound to the key
    pair that the ceremony's key generation answered and to the effective RP ID *)
Definition registered_entry (domain : result bytes werr) (tr : trace) (res : option (result created werr))
  : option (bytes * (keymat * bytes)) :=
  match res, domain, first_keygen tr with
  | Some (Ok cr), Ok rp, Some (d, x, y) => Some (cr_raw_id cr, (key_of d x y, rp))
  | _, _, _ => None
  end.

Definition run_wop (o : wop) (script : list answer) (st : content) (reg : registry) (disc : discoverability)
  : content * registry :=
  match o with
  | WRegister c domain origin q cd =>
      let '(st', tr, res) := exec (register c domain origin q cd) st disc script in
      (st', match registered_entry domain tr res with Some e => e :: reg | None => reg end)
  | WAuthenticate c domain origin q cd =>
      let '(st', tr, res) := exec (authenticate c domain origin q cd) st disc script in (st', reg)
  end.

(** the ceremony ran to completion (was not cancelled); registrations on an ES256 authenticator whose
    key generation yields 32-byte coordinates *)
Definition wop_complete (o : wop) (script : list answer) (st : content) (disc : discoverability) : Prop :=
  match o with
  | WRegister c domain origin q cd =>
      let '(st', tr, res) := exec (register c domain origin q cd) st disc script in
      res <> None /\ es256_only c /\ keys32 tr
  | WAuthenticate c domain origin q cd =>
      let '(st', tr, res) := exec (authenticate c domain origin q cd) st disc script in res <> None
  end.

Fixpoint wrun (h : list (wop * list answer)) (st : content) (reg : registry) (disc : discoverability) : content * registry :=
  match h with
  | [] => (st, reg)
  | (o, script) :: r => let '(st1, reg1) := run_wop o script st reg disc in wrun r st1 reg1 disc
  end.

Fixpoint wcomplete (h : list (wop * list answer)) (st : content) (reg : registry) (disc : discoverability) : Prop :=
  match h with
  | [] => True
  | (o, script) :: r =>
      wop_complete o script st disc /\ let '(st1, reg1) := run_wop o script st reg disc in wcomplete r st1 reg1 disc
  end.

Lemma register_err_domain c e0 origin q cd script tr cr :
  interp (register c (Err e0) origin q cd) script = (tr, Some (Ok cr)) -> False.
Proof.
  unfold register. intros SI. apply interp_bind_some in SI as (t1 & info & t2 & _ & SI & _).
  apply interp_ret in SI as [_ SI]. discriminate SI.
Qed.

Theorem wop_step_invariant o script st reg disc :
  wop_complete o script st disc -> unique_ids st -> Registry st reg ->
  unique_ids (fst (run_wop o script st reg disc)) /\ Registry (fst (run_wop o script st reg disc)) (snd (run_wop o script st reg disc)).
Proof.
  intros C U G. destruct o as [c domain origin q cd|c domain origin q cd]; cbn [run_wop wop_complete] in *.
  - destruct (exec (register c domain origin q cd) st disc script) as [[st' tr] res] eqn:E.
    destruct C as (Hres & ES & K). cbn [fst snd].
    destruct res as [[cr|e]|]; [| |congruence].
    + destruct domain as [rp|e0].
      2:{ exfalso. pose proof (exec_spec (register c (Err e0) origin q cd) st disc script) as S. rewrite E in S.
          destruct S as (SI & _). eapply register_err_domain. exact SI. }
      destruct (register_store_step _ _ _ _ _ _ _ _ _ _ _ E) as (cid & d & x & y & pk & R & -> & _).
      destruct (run_one_save _ _ _ _ _ _ _ _ _ _ _ _ R) as (u & rpe & opts & _ & Hk & _).
      unfold registered_entry, first_keygen. rewrite Hk.
      destruct (run_passkey _ _ _ _ _ _ _ _ _ _ _ _ R) as (_ & _ & _ & _ & _ & Hrp & Hid & _).
      assert (Hkey : pk_key pk = key_of d x y).
      { destruct R as (p & v & rk & t_pre & t_ext & ce & dsc & dlast & u' & rpe' & opts' & _ & _ & _ & -> & _). reflexivity. }
      split; [apply put_unique; exact U|].
      rewrite <- Hid, <- Hkey, <- Hrp. apply Registry_put_new; assumption.
    + rewrite (register_store_err _ _ _ _ _ _ _ _ _ _ _ E ES K). unfold registered_entry. auto.
  - destruct (exec (authenticate c domain origin q cd) st disc script) as [[st' tr] res] eqn:E. cbn [fst snd].
    destruct res as [res|]; [|congruence].
    destruct (authenticate_store_any _ _ _ _ _ _ _ _ _ _ _ E) as [->|(cred0 & n & Hin & _ & ->)]; [auto|].
    split; [apply put_unique; exact U|apply Registry_bump; assumption].
Qed.

(** along any history of completed registrations and authentications, credential ids stay unique and
    every stored passkey holds the key material and RP ID that its registration recorded *)
Theorem registry_invariant h disc : forall st reg,
  wcomplete h st reg disc -> unique_ids st -> Registry st reg ->
  unique_ids (fst (wrun h st reg disc)) /\ Registry (fst (wrun h st reg disc)) (snd (wrun h st reg disc)).
Proof.
  induction h as [|[o script] h IH]; intros st reg C U G; cbn [wrun wcomplete] in *; [auto|].
  destruct C as (C1 & C2). pose proof (wop_step_invariant o script st reg disc C1 U G) as (U1 & G1).
  destruct (run_wop o script st reg disc) as [st1 reg1]. cbn [fst snd] in *. apply IH; assumption.
Qed.

(** a successful authentication in a state that satisfies the invariant: the one signature of the
    ceremony is made with the private scalar that the registry holds for the returned id, over the
    returned authenticator data followed by the client data hash; the registry's RP ID for that id is
    the effective RP ID; the user handle is the one of the passkey stored under that id *)
Theorem authenticate_in_registry c rp origin q cd st reg disc script st' tr au :
  unique_ids st -> Registry st reg ->
  exec (authenticate c (Ok rp) origin q cd) st disc script = (st', tr, Some (Ok au)) ->
  exists key d stored,
    reg_lookup reg (au_raw_id au) = Some (key, rp)
    /\ private_key key = Ok d
    /\ filter (fun ea => is_sign (fst ea)) tr
       = [(ESign d (au_auth_data au ++ client_data_hash (au_client_data_json au) cd), ABytes (au_signature au))]
    /\ get_by_id st (au_raw_id au) = Some stored
    /\ pk_key stored = key /\ pk_rp_id stored = rp /\ au_user_handle au = pk_user_handle stored.
Proof.
  intros U G E.
  destruct (authenticate_store_step _ _ _ _ _ _ _ _ _ _ _ E) as (r0 & cred0 & d & R & Hin & Hrp & _ & _).
  destruct (arun_signature _ _ _ _ _ _ _ _ _ _ R) as (Hs & Hpk & _).
  destruct (arun_ids _ _ _ _ _ _ _ _ _ _ R) as (Hid & _ & Huh & _).
  exists (pk_key cred0), d, cred0. rewrite Hid. repeat split; auto.
  - rewrite <- Hrp. apply G, Hin.
  - apply In_get_by_id; assumption.
Qed.

(** with an abstract scheme whose signer is correct, the returned signature verifies under the public
    point of the scalar the registry holds for the returned id; for a credential registered in the
    history that point is the (x, y) returned at its registration whenever key generation is
    consistent ([pub_of d = (x, y)] for every generated key) *)
Section SchemeHistory.
Variable pub_of : bytes -> bytes * bytes.
Variable verify : bytes * bytes -> bytes -> bytes -> bool.

Theorem authenticate_verifies c rp origin q cd st reg disc script st' tr au :
  unique_ids st -> Registry st reg ->
  exec (authenticate c (Ok rp) origin q cd) st disc script = (st', tr, Some (Ok au)) ->
  signer_correct pub_of verify tr ->
  exists key d, reg_lookup reg (au_raw_id au) = Some (key, rp) /\ k_d key = Some d
    /\ verify (pub_of d) (au_auth_data au ++ client_data_hash (au_client_data_json au) cd) (au_signature au) = true.
Proof.
  intros U G E S.
  destruct (authenticate_store_step _ _ _ _ _ _ _ _ _ _ _ E) as (r0 & cred0 & d & R & Hin & Hrp & _ & _).
  destruct (arun_signature _ _ _ _ _ _ _ _ _ _ R) as (_ & _ & Hd & _).
  destruct (arun_ids _ _ _ _ _ _ _ _ _ _ R) as (Hid & _).
  exists (pk_key cred0), d. rewrite Hid. split; [rewrite <- Hrp; apply G, Hin|]. split; [exact Hd|].
  eapply arun_verifies; eassumption.
Qed.
End SchemeHistory.

Lemma registered_entry_def domain tr res :
  registered_entry domain tr res =
  match res, domain, first_keygen tr with
  | Some (Ok cr), Ok rp, Some (d, x, y) =>
      Some (cr_raw_id cr, ({| k_es256 := true; k_ec2 := true; k_d := Some d; k_x := x; k_y := y |}, rp))
  | _, _, _ => None
  end.
Proof. reflexivity. Qed.
