(** Store models: the documented lookup contract, a reference store that implements it, and
    faithful models of the stores shipped with the library (MemoryStore = HashMap keyed by
    credential id; Option<Passkey> = one slot), as they are in the current source. *)
From PK Require Import Lib.Check.
From PK Require Export Auth.Replay.
Open Scope N_scope.

Definition content := list passkey.

Definition id_listed (ids : option (list bytes)) (p : passkey) : bool :=
  match ids with None => true | Some l => existsb (beq (pk_cred_id p)) l end.
Definition matches (ids : option (list bytes)) (rp : bytes) (p : passkey) : bool :=
  beq (pk_rp_id p) rp && id_listed ids p.

(** the documented contract of [find_credentials]: the credentials returned are exactly the stored
    ones bound to [rp] and, when an id list is given, named in it; "nothing found" may be reported
    as an empty list or as NoCredentials *)
Definition contract_answer (st : content) (ids : option (list bytes)) (rp : bytes)
  (r : result (list passkey) N) : Prop :=
  match r with
  | Ok l => forall p, In p l <-> In p st /\ matches ids rp p = true
  | Err e => e = CTAP2_NoCredentials /\ forall p, In p st -> matches ids rp p = false
  end.

(** *** reference store: insertion order, unique credential ids *)
Definition ref_find (st : content) (ids : option (list bytes)) (rp : bytes) : result (list passkey) N :=
  Ok (filter (matches ids rp) st).

Fixpoint put (st : content) (p : passkey) : content :=
  match st with
  | [] => [p]
  | x :: r => if beq (pk_cred_id x) (pk_cred_id p) then p :: r else x :: put r p
  end.

Theorem ref_store_contract st ids rp : contract_answer st ids rp (ref_find st ids rp).
Proof. unfold ref_find, contract_answer. intros p. apply filter_In. Qed.

(** *** MemoryStore: HashMap<Vec<u8>, Passkey>.  [find_credentials] ignores the RP ID and answers
    NoCredentials when no id list is given (source as it is). The map is modelled as a list with
    unique keys; the answer lists the hits in the order of the id list. *)
Fixpoint get_by_id (st : content) (id : bytes) : option passkey :=
  match st with
  | [] => None
  | x :: r => if beq (pk_cred_id x) id then Some x else get_by_id r id
  end.

Fixpoint filter_map {A B} (f : A -> option B) (l : list A) : list B :=
  match l with
  | [] => []
  | x :: r => match f x with Some y => y :: filter_map f r | None => filter_map f r end
  end.

Definition mem_find (st : content) (ids : option (list bytes)) (rp : bytes) : result (list passkey) N :=
  match filter_map (get_by_id st) (match ids with Some l => l | None => [] end) with
  | [] => Err CTAP2_NoCredentials
  | l => Ok l
  end.

(** the two ways MemoryStore departs from the contract (known findings): a lookup without an id
    list, and an id that names a credential stored for another RP *)
Definition mem_known_class (st : content) (ids : option (list bytes)) (rp : bytes) : Prop :=
  match ids with
  | None => exists p, In p st /\ beq (pk_rp_id p) rp = true
  | Some l => exists id p, In id l /\ get_by_id st id = Some p /\ beq (pk_rp_id p) rp = false
  end.

Definition unique_ids (st : content) : Prop := NoDup (map pk_cred_id st).

Lemma get_by_id_In st id p : get_by_id st id = Some p -> In p st /\ pk_cred_id p = id.
Proof.
  induction st as [|x r IH]; cbn; [discriminate|].
  destruct (beq (pk_cred_id x) id) eqn:E.
  - intros [= <-]. split; [left; reflexivity|apply beq_eq; exact E].
  - intros H. destruct (IH H). split; [right; assumption|assumption].
Qed.

Lemma In_get_by_id st p : unique_ids st -> In p st -> get_by_id st (pk_cred_id p) = Some p.
Proof.
  unfold unique_ids. induction st as [|x r IH]; cbn; [tauto|].
  intros ND [->|Hin].
  - rewrite beq_refl. reflexivity.
  - inversion ND as [|? ? Hnot ND']; subst.
    destruct (beq (pk_cred_id x) (pk_cred_id p)) eqn:E.
    + apply beq_eq in E. exfalso. apply Hnot. rewrite E. apply in_map. exact Hin.
    + apply IH; assumption.
Qed.

Lemma filter_map_In {A B} (f : A -> option B) l y : In y (filter_map f l) <-> exists x, In x l /\ f x = Some y.
Proof.
  induction l as [|x r IH]; cbn.
  - split; [tauto|intros (x & [] & _)].
  - destruct (f x) as [z|] eqn:E; cbn; rewrite IH; split.
    + intros [<-|(x' & H1 & H2)]; [exists x; auto|exists x'; auto].
    + intros (x' & [<-|H1] & H2); [left; congruence|right; eauto].
    + intros (x' & H1 & H2); eauto.
    + intros (x' & [<-|H1] & H2); [congruence|eauto].
Qed.

Lemma existsb_beq_In id l : existsb (beq id) l = true <-> In id l.
Proof.
  rewrite existsb_exists. split.
  - intros (x & Hx & E). apply beq_eq in E. subst. exact Hx.
  - intros H. exists id. split; [exact H|apply beq_refl].
Qed.

Theorem memory_store_contract st ids rp :
  unique_ids st -> ~ mem_known_class st ids rp -> contract_answer st ids rp (mem_find st ids rp).
Proof.
  intros U NK. unfold mem_find. destruct ids as [l|]; cbn [mem_known_class] in NK.
  - assert (HIn : forall p, In p (filter_map (get_by_id st) l) <-> In p st /\ matches (Some l) rp p = true).
    { intros p. rewrite filter_map_In. unfold matches, id_listed. split.
      - intros (id & Hid & Hg). destruct (get_by_id_In _ _ _ Hg) as [Hin <-]. split; [exact Hin|].
        apply andb_true_iff. split; [|apply existsb_beq_In; exact Hid].
        destruct (beq (pk_rp_id p) rp) eqn:E; [reflexivity|]. exfalso. apply NK. eauto.
      - intros (Hin & Hm). apply andb_true_iff in Hm as [_ Hm]. apply existsb_beq_In in Hm.
        exists (pk_cred_id p). split; [exact Hm|apply In_get_by_id; assumption]. }
    destruct (filter_map (get_by_id st) l) as [|x xs] eqn:E.
    + cbn. split; [reflexivity|]. intros p Hin. destruct (matches (Some l) rp p) eqn:M; [|reflexivity].
      exfalso. apply (proj2 (HIn p)). auto.
    + exact HIn.
  - cbn. split; [reflexivity|]. intros p Hin. unfold matches, id_listed. rewrite andb_true_r.
    destruct (beq (pk_rp_id p) rp) eqn:E; [|reflexivity]. exfalso. apply NK. eauto.
Qed.

(** the known class is not empty: a credential of another RP is returned *)
Example memory_store_known_witness :
  let p := {| pk_key := {| k_es256 := true; k_ec2 := true; k_d := None; k_x := []; k_y := [] |};
              pk_cred_id := [1]; pk_rp_id := [97]; pk_user_handle := None; pk_counter := None; pk_hmac := None |} in
  mem_known_class [p] (Some [[1]]) [98] /\ ~ contract_answer [p] (Some [[1]]) [98] (mem_find [p] (Some [[1]]) [98]).
Proof.
  cbn zeta. split.
  - cbn. eexists [1], _. split; [left; reflexivity|]. split; reflexivity.
  - cbn. intros H. match type of H with forall p, ?x = p \/ False <-> _ => destruct (proj1 (H x) (or_introl eq_refl)) as [_ M] end. discriminate M.
Qed.

(** *** Option<Passkey>: one slot *)
Definition opt_find (slot : option passkey) (ids : option (list bytes)) (rp : bytes) : result (list passkey) N :=
  match slot with
  | None => Err CTAP2_NoCredentials
  | Some pk =>
      match ids with
      | Some l =>
          if existsb (fun id => beq (pk_cred_id pk) id && beq (pk_rp_id pk) rp) l then Ok [pk] else Err CTAP2_NoCredentials
      | None => if beq (pk_rp_id pk) rp then Ok [pk] else Err CTAP2_NoCredentials
      end
  end.

Definition slot_content (slot : option passkey) : content := match slot with Some p => [p] | None => [] end.

Theorem option_store_contract slot ids rp :
  contract_answer (slot_content slot) ids rp (opt_find slot ids rp).
Proof.
  unfold opt_find. destruct slot as [pk|]; cbn [slot_content].
  2:{ cbn. split; [reflexivity|intros p []]. }
  assert (M : matches ids rp pk =
              match ids with
              | Some l => existsb (fun id => beq (pk_cred_id pk) id && beq (pk_rp_id pk) rp) l
              | None => beq (pk_rp_id pk) rp
              end).
  { unfold matches, id_listed. destruct ids as [l|]; [|apply andb_true_r].
    induction l as [|id l IH]; cbn; [apply andb_false_r|].
    rewrite <- IH. destruct (beq (pk_rp_id pk) rp), (beq (pk_cred_id pk) id); reflexivity. }
  destruct ids as [l|]; rewrite <- M; destruct (matches _ rp pk) eqn:E; cbn.
  all: try (split; [reflexivity|intros p [<-|[]]; exact E]).
  all: intros p; split; [intros [<-|[]]; auto|intros [[<-|[]] _]; left; reflexivity].
Qed.

(** *** what the contract gives the ceremonies *)
Lemma contract_first st ids rp r cred0 :
  contract_answer st ids rp r -> first_credential r = Ok cred0 ->
  In cred0 st /\ pk_rp_id cred0 = rp /\ id_listed ids cred0 = true.
Proof.
  intros C F. destruct r as [[|p l]|e]; cbn in F; try discriminate. injection F as <-.
  destruct (proj1 (C p) (or_introl eq_refl)) as [Hin M]. unfold matches in M.
  apply andb_true_iff in M as [M1 M2]. apply beq_eq in M1. auto.
Qed.

Lemma contract_excluded st l rp r :
  contract_answer st (Some l) rp r ->
  (match r with Ok (_ :: _) => True | _ => False end
   <-> exists p, In p st /\ pk_rp_id p = rp /\ In (pk_cred_id p) l).
Proof.
  intros C. split.
  - destruct r as [[|p l']|e]; try tauto. intros _.
    destruct (proj1 (C p) (or_introl eq_refl)) as [Hin M]. unfold matches, id_listed in M.
    apply andb_true_iff in M as [M1 M2]. apply beq_eq in M1. apply existsb_beq_In in M2. eauto.
  - intros (p & Hin & Hrp & Hid).
    assert (M : matches (Some l) rp p = true).
    { unfold matches, id_listed. rewrite Hrp, beq_refl. apply existsb_beq_In. exact Hid. }
    destruct r as [[|p' l']|e]; [|exact I|].
    + destruct (proj2 (C p) (conj Hin M)).
    + destruct C as [_ C]. rewrite (C p Hin) in M. discriminate.
Qed.
