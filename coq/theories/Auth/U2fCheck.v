(** Case type, correspondence check and property oracle for the U2F ceremony domain (ceremony half of C17). *)
From PK Require Import Lib.Check Lib.Base64.
From PK Require Export Auth.U2f Auth.Replay.
Open Scope N_scope.

Definition regresp_eqb (a b : register_response) : bool :=
  beq (pk_x (rs_public_key a)) (pk_x (rs_public_key b)) && beq (pk_y (rs_public_key a)) (pk_y (rs_public_key b))
  && beq (rs_key_handle a) (rs_key_handle b) && beq (rs_attestation_certificate a) (rs_attestation_certificate b)
  && beq (rs_signature a) (rs_signature b).
Definition authresp_eqb (a b : authentication_response) : bool :=
  (as_user_presence a =? as_user_presence b) && (as_counter a =? as_counter b) && beq (as_signature a) (as_signature b).

(** [impl]: the structured response and the bytes of its [encode()] as the real code produced them
    (register: [None] when the key handle is longer than 255 bytes and the harness did not encode) *)
Inductive ucase :=
| CUReg (application challenge handle : bytes) (log : list (eff * answer)) (qs : queues)
        (impl : result (register_response * option bytes) N)
| CUAuth (application challenge key_handle : bytes) (counter presence : N) (log : list (eff * answer)) (qs : queues)
        (impl : result (authentication_response * bytes) N).

(** model = implementation: same trait calls with the same arguments in the same order (replay), same
    result, and the encoded bytes are the wire model's encoding of that result *)
Definition uagree (c : ucase) : bool :=
  match c with
  | CUReg app chal h log qs impl =>
      match replay (u2f_register app chal h) log qs 0, impl with
      | RDone (Ok r) _, Ok (o, enc) => regresp_eqb r o && opt_eqb beq (option_map (fun _ => register_response_encode r) enc) enc
      | RDone (Err e) _, Err e' => e =? e'
      | _, _ => false
      end
  | CUAuth app chal kh ctr pres log qs impl =>
      match replay (u2f_authenticate app chal kh ctr pres) log qs 0, impl with
      | RDone (Ok r) _, Ok (o, enc) => authresp_eqb r o && beq (authentication_response_encode r) enc
      | RDone (Err e) _, Err e' => e =? e'
      | _, _ => false
      end
  end.

(** *** the property on one observation, stated on the implementation's call log and result alone
    (no model program involved).  The signatures themselves are verified by the driver's independent
    P-256 code over the byte strings [u2f_register_target] / [u2f_authenticate_target] rebuilt there. *)
Definition is_ok_unit (a : answer) : bool := match a with AUnit (Ok _) => true | _ => false end.

Definition uoracle (c : ucase) : bool :=
  match c with
  | CUReg app chal h log _ impl =>
      match impl with
      | Ok (o, enc) =>
          (* exactly one store call: a successful save of a credential for this application and key handle,
             holding a private key for the returned public key *)
          match log with
          | [(ESave p _ rp _, a)] =>
              is_ok_unit a && beq (pk_cred_id p) h && beq (pk_rp_id p) (b64url_encode app) && beq (rp_id rp) (b64url_encode app)
              && beq (k_x (pk_key p)) (pk_x (rs_public_key o)) && beq (k_y (pk_key p)) (pk_y (rs_public_key o))
              && k_es256 (pk_key p) && k_ec2 (pk_key p) && match k_d (pk_key p) with Some _ => true | None => false end
              && opt_eqb N.eqb (pk_counter p) (Some 0)
          | _ => false
          end
          && beq (rs_key_handle o) h
          && (length (pk_x (rs_public_key o)) =? 32)%nat && (length (pk_y (rs_public_key o)) =? 32)%nat
          (* reserved byte, public key, one-byte key-handle length, key handle, certificate, signature, status word *)
          && match enc with
             | Some e => beq e ([5; 4] ++ pk_x (rs_public_key o) ++ pk_y (rs_public_key o) ++ [N.of_nat (length h)] ++ h
                                ++ rs_attestation_certificate o ++ rs_signature o ++ [144; 0])
             | None => (255 <? length h)%nat
             end
      | Err _ =>
          (* nothing was stored successfully *)
          forallb (fun ea => match ea with (ESave _ _ _ _, a) | (EUpdate _, a) => negb (is_ok_unit a) | _ => true end) log
      end
  | CUAuth app chal kh ctr pres log _ impl =>
      (* never a mutating call *)
      forallb (fun ea => negb (mutates (fst ea))) log
      && match impl with
         | Ok (o, enc) =>
             match log with
             | [(EFind (Some [k]) rp, AFind (Ok (p :: _)))] =>
                 beq k kh && beq rp (b64url_encode app) && beq (pk_cred_id p) kh && beq (pk_rp_id p) (b64url_encode app)
             | _ => false
             end
             && (as_user_presence o =? pres) && (as_counter o =? ctr)
             (* presence byte, big-endian counter, signature, status word *)
             && beq enc ([pres] ++ be32 ctr ++ as_signature o ++ [144; 0])
         | Err _ => true
         end
  end.
