(** The client model (Auth/Client.v) performs its effects in the order of the client's source, with the
    authenticator ceremonies expanded to their own source skeletons (Auth/gen/Skeleton.v): for EVERY request, origin
    verdict, client-data mode, configuration and answer script ([client_*_follows_source_order]). *)
From Coq Require Import String.
From PK Require Import Auth.Client Auth.SkeletonFacts Auth.gen.Skeleton Auth.gen.ClientSkeleton Auth.ClientSource.
Open Scope string_scope.
Open Scope list_scope.

(** the authenticator ceremonies a client ceremony calls, expanded to the authenticator's own source skeleton *)
Definition cexpand (m : string) : list string :=
  if m =? "AuthGetInfo" then skeleton SRC_GET_INFO
  else if m =? "MakeCredential" then skeleton SRC_MAKE_CREDENTIAL
  else if m =? "GetAssertion" then skeleton SRC_GET_ASSERTION
  else [m].
Definition cskeleton (src : list string) : list string := flat_map cexpand src.

Lemma cskeleton_app a b : cskeleton (a ++ b) = cskeleton a ++ cskeleton b.
Proof. unfold cskeleton. apply flat_map_app. Qed.

Theorem client_register_follows_source_order c domain origin q cd :
  follows (cskeleton SRC_CLIENT_REGISTER) (register c domain origin q cd).
Proof.
  rewrite src_client_register_order.
  change EXP_CLIENT_REGISTER with (["AuthGetInfo"] ++ firstn 9 (tl EXP_CLIENT_REGISTER) ++ ["MakeCredential"] ++ skipn 11 EXP_CLIENT_REGISTER).
  rewrite !cskeleton_app.
  unfold register.
  apply follows_bind.
  { change (cskeleton ["AuthGetInfo"]) with (skeleton SRC_GET_INFO ++ []). rewrite app_nil_r. apply get_info_follows_source_order. }
  intros info. destruct domain as [rp|e]; [|exact I].
  destruct (registration_ext _ _) as [ctap_ext|e]; [|exact I].
  apply follows_weaken.
  apply follows_bind.
  { change (cskeleton ["MakeCredential"]) with (skeleton SRC_MAKE_CREDENTIAL ++ []). rewrite app_nil_r. apply make_credential_follows_source_order. }
  intros [resp|s]; [|exact I].
  destruct (ad_acd (mr_auth_data resp)) as [a|]; [|exact I].
  destruct (negb _); [exact I|]. destruct (negb _); [exact I|].
  unfold store_info. cbn [bind follows].
  match goal with |- match drop_until ?s ?sk with _ => _ end =>
    let r := eval vm_compute in (drop_until s sk) in change (drop_until s sk) with r end.
  cbv iota. intros ans. destruct ans; exact I.
Qed.

Theorem client_authenticate_follows_source_order c domain origin q cd :
  follows (cskeleton SRC_CLIENT_AUTHENTICATE) (authenticate c domain origin q cd).
Proof.
  rewrite src_client_authenticate_order.
  change EXP_CLIENT_AUTHENTICATE with (["AuthGetInfo"] ++ firstn 7 (tl EXP_CLIENT_AUTHENTICATE) ++ ["GetAssertion"] ++ skipn 9 EXP_CLIENT_AUTHENTICATE).
  rewrite !cskeleton_app.
  unfold authenticate.
  apply follows_bind.
  { change (cskeleton ["AuthGetInfo"]) with (skeleton SRC_GET_INFO ++ []). rewrite app_nil_r. apply get_info_follows_source_order. }
  intros info. destruct domain as [rp|e]; [|exact I].
  destruct (authentication_ext _ _ _) as [ctap_ext|e]; [|exact I].
  apply follows_weaken.
  apply follows_bind.
  { change (cskeleton ["GetAssertion"]) with (skeleton SRC_GET_ASSERTION ++ []). rewrite app_nil_r. apply get_assertion_follows_source_order. }
  intros [resp|s]; exact I.
Qed.

(** on executions *)
Corollary client_register_effects_in_source_order c domain origin q cd script :
  subseq (map (fun ea => kind (fst ea)) (fst (interp (register c domain origin q cd) script))) (cskeleton SRC_CLIENT_REGISTER).
Proof. apply follows_trace. apply client_register_follows_source_order. Qed.

Corollary client_authenticate_effects_in_source_order c domain origin q cd script :
  subseq (map (fun ea => kind (fst ea)) (fst (interp (authenticate c domain origin q cd) script))) (cskeleton SRC_CLIENT_AUTHENTICATE).
Proof. apply follows_trace. apply client_authenticate_follows_source_order. Qed.

