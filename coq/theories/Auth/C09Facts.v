(** C09: PRF results are the specified HMAC, per credential, gated on verification.

    HMAC-SHA-256 is the effect [EHmac key salt] of the ceremony programs.  The theorems here say, for
    every request, configuration and answer script (including wrong-shaped answers and scripts that
    end early), WHICH (key, salt) pairs a ceremony asks for, that the reported PRF results are exactly
    the answers, which secrets are generated and saved, what is reported as "enabled", and that the
    client rejects malformed requests before any effect other than the three capability queries of
    get_info.  The concrete function is tied by the oracle of the check, which recomputes
    [Lib/Hmac.hmac_sha256] on the observed secrets and salts ([c09_ok] below, [wprf_ok]). *)
From Coq Require Import Lia.
From PK Require Import Lib.Check Lib.Sha256 Lib.Hmac Lib.Base64.
From PK Require Export Auth.Monitor Auth.Authenticator Auth.Effects Auth.Client Auth.ClientCheck.
From PK Require Import Auth.StoreFacts.
Open Scope N_scope.

(** * 1. Judgements over the interesting events of a ceremony *)

(** what a result reports about PRF: nothing, or (enabled, results) *)
Definition report := option (option bool * option prf_values).

Definition report_eqb (a b : report) : bool :=
  opt_eqb (fun x y => opt_eqb Bool.eqb (fst x) (fst y) && opt_eqb prf_values_eqb (snd x) (snd y)) a b.

(** the events the judgements speak about: registration / assertion *)
Definition mcI (e : eff) : bool :=
  match e with ECheckUser _ _ _ | ERand _ | EHmac _ _ | ESave _ _ _ _ => true | _ => false end.
Definition gaI (e : eff) : bool :=
  match e with EFind _ _ | ECheckUser _ _ _ | EUpdate _ | EHmac _ _ => true | _ => false end.

Definition is_some {A} (o : option A) : bool := match o with Some _ => true | None => false end.

(** the user check suffices for the request: presence if asked for, verification if asked for *)
Definition enough (up uv p v : bool) : bool := implb up p && implb uv v.

(** the secret selected by the verification flag: the gated one iff verified, else the other (if any) *)
Definition select_key (creds : bytes * option bytes) (uv : bool) : option bytes :=
  if uv then Some (fst creds) else snd creds.

Section Judge.
Context {R E : Type}.
Variable view : R -> report.            (* the PRF output a successful result reports *)
Variable is_status : E -> N -> bool.    (* the error stands for this authenticator status code *)
Notation J := (@judgement (result R E)).

Definition g_not_ok (res : option (result R E)) : bool := match res with Some (Ok _) => false | _ => true end.
Definition g_is_cut (res : option (result R E)) : bool := match res with None => true | Some _ => false end.
Definition g_err_or_cut (n : N) (res : option (result R E)) : bool :=
  match res with Some (Err e) => is_status e n | None => true | Some (Ok _) => false end.

(** the ceremony has failed (or was cut) and nothing more happens *)
Definition j_failed : J := fun evs res => is_nil evs && g_not_ok res.
(** the ceremony fails with this status (or was cut) and nothing more happens *)
Definition j_status (n : N) : J := fun evs res => is_nil evs && g_err_or_cut n res.

(** ** the HMAC evaluations of one PRF request: first salt, then the second one if present and the
    configuration has the non-gated secret ([two]); same key for both; the outputs are the answers *)
Definition j_hmac2 (k : bytes) (ev : prf_values) (two : bool) (o1 : bytes) (next : option prf_values -> J) : J :=
  fun evs res =>
  match pv_second ev, two with
  | Some s2, true =>
      match evs with
      | [] => g_is_cut res
      | (EHmac k' s, a) :: rest =>
          beq k' k && beq s s2
          && match a with
             | ABytes o2 => next (Some {| pv_first := o1; pv_second := Some o2 |}) rest res
             | _ => is_nil rest && g_is_cut res
             end
      | _ => false
      end
  | _, _ => next (Some {| pv_first := o1; pv_second := None |}) evs res
  end.

Definition j_hmac1 (k : bytes) (ev : prf_values) (two : bool) (next : option prf_values -> J) : J :=
  fun evs res =>
  match evs with
  | [] => g_is_cut res
  | (EHmac k' s, a) :: rest =>
      beq k' k && beq s (pv_first ev)
      && match a with
         | ABytes o1 => j_hmac2 k ev two o1 next rest res
         | _ => is_nil rest && g_is_cut res
         end
  | _ => false
  end.

(** one PRF evaluation with the credential's secrets [creds] under verification flag [uv]: the key is
    [select_key creds uv]; without a usable secret there is NO HMAC event and the ceremony ends with
    UserVerificationBlocked *)
Definition j_eval (creds : bytes * option bytes) (uv : bool) (ev : prf_values) (two : bool)
                  (next : option prf_values -> J) : J :=
  match select_key creds uv with
  | None => j_status CTAP2_UserVerificationBlocked
  | Some k => j_hmac1 k ev two next
  end.

(** ** the user check: the first interesting event after which anything else may happen *)
Definition j_user (up uv : bool) (next : bool -> J) : J := fun evs res =>
  match evs with
  | [] => g_not_ok res
  | (ECheckUser _ _ _, a) :: rest =>
      match a with
      | ACheck (Ok (p, v)) => if enough up uv p v then next v rest res else j_failed rest res
      | _ => j_failed rest res
      end
  | _ => false
  end.

(** ** Registration *)
Section Registration.
Variable c : config.
Variables up uv : bool.                 (* the options passed to the authenticator *)
Variable ext : option mc_ext_in.        (* the extension inputs passed to the authenticator *)

Definition zipped : option mc_ext_in := opt_bind ext mc_ext_zip.
(** the PRF inputs of the request *)
Definition prf_request : option prf_inputs := opt_bind zipped me_prf.
(** secrets are wanted: hmac-secret asked for, or not mentioned while prf is *)
Definition secrets_wanted : bool :=
  match zipped with
  | Some r => match me_hmac_secret r with Some b => b | None => is_some (me_prf r) end
  | None => false
  end.

(** the report of a successful registration: present exactly when the capability is there and prf was
    requested; then "enabled" = secrets were generated, and the results are the HMAC answers *)
Definition reg_report_ok (secrets : option (bytes * option bytes)) (results : option prf_values) (rep : report) : bool :=
  if is_some (c_hmac c) && is_some prf_request
  then report_eqb rep (Some (Some (is_some secrets), results))
  else report_eqb rep None.

(** the save: the passkey carries exactly the generated secrets (none if none were generated) *)
Definition j_reg_save (secrets : option (bytes * option bytes)) (results : option prf_values) : J := fun evs res =>
  match evs with
  | [] => g_is_cut res
  | [(ESave p _ _ _, a)] =>
      hmac_eqb (pk_hmac p) secrets
      && match a with
         | AUnit (Ok _) => match res with Some (Ok r) => reg_report_ok secrets results (view r) | _ => true end
         | AUnit (Err _) => g_not_ok res
         | _ => g_is_cut res
         end
  | _ => false
  end.

(** evaluation at creation: only with the capability, a prf request with default inputs, evaluation
    at creation switched on, and secrets generated; the flag is the REQUESTED uv option *)
Definition j_reg_prf (secrets : option (bytes * option bytes)) : J :=
  match c_hmac c, prf_request, secrets with
  | Some hc, Some rq, Some creds =>
      match (if h_on_mc hc then pi_eval rq else None) with
      | Some ev => j_eval creds uv ev (h_without_uv hc) (j_reg_save secrets)
      | None => j_reg_save secrets None
      end
  | _, _, _ => j_reg_save secrets None
  end.

(** the secrets: generated (32 random bytes each; the second one iff the configuration has the
    non-gated secret) exactly when the capability is there and they are wanted *)
Definition j_reg_secrets : J := fun evs res =>
  match c_hmac c with
  | Some hc =>
      if secrets_wanted then
        match evs with
        | [] => g_is_cut res
        | (ERand n, a) :: rest =>
            (n =? 32)
            && match a with
               | ABytes w =>
                   if h_without_uv hc then
                     match rest with
                     | [] => g_is_cut res
                     | (ERand n2, a2) :: rest2 =>
                         (n2 =? 32)
                         && match a2 with
                            | ABytes wo => j_reg_prf (Some (w, Some wo)) rest2 res
                            | _ => is_nil rest2 && g_is_cut res
                            end
                     | _ => false
                     end
                   else j_reg_prf (Some (w, None)) rest res
               | _ => is_nil rest && g_is_cut res
               end
        | _ => false
        end
      else j_reg_prf None evs res
  | None => j_reg_prf None evs res
  end.

(** the credential id *)
Definition j_reg_id : J := fun evs res =>
  match evs with
  | [] => g_not_ok res
  | (ERand n, a) :: rest =>
      (n =? c_id_len c) && match a with ABytes _ => j_reg_secrets rest res | _ => is_nil rest && g_is_cut res end
  | _ => false
  end.

Definition j_reg : J := if up then j_user up uv (fun _ => j_reg_id) else j_failed.
End Registration.
End Judge.

(** * 2. Every execution of the model ceremonies satisfies the judgements *)

Lemma report_eqb_refl r : report_eqb r r = true.
Proof.
  destruct r as [[en rs]|]; [|reflexivity]. unfold report_eqb. cbn [opt_eqb fst snd].
  destruct en as [b|]; cbn [opt_eqb]; [rewrite Bool.eqb_reflx|]; (destruct rs as [v|]; cbn [opt_eqb andb]; [|reflexivity]);
    unfold prf_values_eqb; rewrite beq_refl; (destruct (pv_second v); cbn [opt_eqb]; [apply beq_refl|reflexivity]).
Qed.

Lemma hmac_eqb_refl h : hmac_eqb h h = true.
Proof. destruct h as [[w wo]|]; cbn; [rewrite beq_refl; destruct wo; cbn; [apply beq_refl|reflexivity]|reflexivity]. Qed.

Section Walk.
Context {R E : Type}.
Variable view : R -> report.
Variable is_status : E -> N -> bool.
Variable I : eff -> bool.
Notation J := (@judgement (result R E)).
Notation stp := (@dstep I (result R E)).
Notation Qd := (@dQ (result R E)).

Definition jeq (jk jk' : J) : Prop := forall evs res, jk evs res = jk' evs res.

(** one interesting call: the remaining judgement is the old one applied after the event *)
Lemma call_K {A} (e : eff) (k : answer -> prog A) (jk : J) (K : J -> A -> Prop) :
  I e = true -> jk [] None = true ->
  (forall a, holdsK stp Qd (k a) (fun evs res => jk ((e, a) :: evs) res) K) ->
  holdsK stp Qd (Call e k) jk K.
Proof. intros HI H0 H. cbn [holdsK]. split; [exact H0|]. intros a. unfold dstep. rewrite HI. apply H. Qed.

Hypothesis I_hmac : forall k s, I (EHmac k s) = true.

Lemma hmacs_K k salts (two : bool) (jk : J) next (K : J -> result prf_values N -> Prop) :
  jeq jk (j_hmac1 k salts two next) ->
  (forall jk' v, jeq jk' (next (Some v)) -> K jk' (Ok v)) ->
  holdsK stp Qd
    (o1 <- hmac k (pv_first salts) ;;
     match pv_second salts with
     | Some s2 =>
         if two then (o2 <- hmac k s2 ;; Ret (Ok {| pv_first := o1; pv_second := Some o2 |}))
         else Ret (Ok {| pv_first := o1; pv_second := None |})
     | None => Ret (Ok {| pv_first := o1; pv_second := None |})
     end) jk K.
Proof.
  intros Hjk HK. apply holdsK_bind. unfold hmac.
  apply call_K; [apply I_hmac|rewrite Hjk; reflexivity|].
  intros a.
  assert (PK : forall rest res, jk ((EHmac k (pv_first salts), a) :: rest) res =
             match a with
             | ABytes o1 => j_hmac2 k salts two o1 next rest res
             | _ => is_nil rest && g_is_cut res
             end).
  { intros. rewrite Hjk. unfold j_hmac1. rewrite !beq_refl. reflexivity. }
  destruct a; cbn [holdsK]; try (unfold dQ; cbn beta; rewrite PK; reflexivity).
  destruct (pv_second salts) as [s2|] eqn:E2; [destruct two|].
  - apply holdsK_bind. apply call_K; [apply I_hmac|rewrite PK; unfold j_hmac2; rewrite E2; reflexivity|].
    intros a2.
    assert (PK2 : forall rest res, jk ((EHmac k (pv_first salts), ABytes b) :: (EHmac k s2, a2) :: rest) res =
               match a2 with
               | ABytes o2 => next (Some {| pv_first := b; pv_second := Some o2 |}) rest res
               | _ => is_nil rest && g_is_cut res
               end).
    { intros. rewrite PK. unfold j_hmac2. rewrite E2, !beq_refl. reflexivity. }
    destruct a2; cbn [holdsK]; try (unfold dQ; cbn beta; rewrite PK2; reflexivity).
    apply HK. intros evs res. apply PK2.
  - cbn [holdsK]. apply HK. intros evs res. rewrite PK. unfold j_hmac2. rewrite E2. reflexivity.
  - cbn [holdsK]. apply HK. intros evs res. rewrite PK. unfold j_hmac2. rewrite E2. reflexivity.
Qed.

Lemma calculate_K creds salts hc uv (jk : J) next (K : J -> result prf_values N -> Prop) :
  jeq jk (j_eval is_status creds uv salts (h_without_uv hc) next) ->
  (forall jk', jeq jk' (j_status is_status CTAP2_UserVerificationBlocked) -> K jk' (Err CTAP2_UserVerificationBlocked)) ->
  (forall jk' v, jeq jk' (next (Some v)) -> K jk' (Ok v)) ->
  holdsK stp Qd (calculate_hmac_secret creds salts hc uv) jk K.
Proof.
  intros Hjk HB HK. unfold calculate_hmac_secret. cbv zeta.
  unfold j_eval, select_key in Hjk. destruct uv.
  - apply (hmacs_K _ _ _ _ next); assumption.
  - destruct (snd creds) as [wo|].
    + apply (hmacs_K _ _ _ _ next); assumption.
    + cbn [holdsK]. apply HB. exact Hjk.
Qed.

Hypothesis I_check : forall cred up uv, I (ECheckUser cred up uv) = true.
Hypothesis I_verif : I EVerifEnabled = false.

Lemma failed_nil (res : option (result R E)) : @j_failed R E [] res = g_not_ok res.
Proof. reflexivity. Qed.

(** [check_user]: Ok exactly when the answer suffices; the flags carry what was reported *)
Lemma check_user_K o cred (jk : J) (next : bool -> J) (K : J -> result N N -> Prop) :
  jeq jk (j_user (o_up o) (o_uv o) next) ->
  (forall jk' p v, enough (o_up o) (o_uv o) p v = true -> jeq jk' (next v) ->
                   K jk' (Ok (N.lor (if p then F_UP else 0) (if v then F_UV else 0)))) ->
  (forall jk' e, (forall res, g_not_ok res = true -> jk' [] res = true) -> K jk' (Err e)) ->
  holdsK stp Qd (check_user o cred) jk K.
Proof.
  intros Hjk HOk HErr. unfold check_user.
  assert (Q0 : forall res, g_not_ok res = true -> jk [] res = true).
  { intros res Hres. rewrite Hjk. exact Hres. }
  assert (ASK : holdsK stp Qd
       (r <- ask_user cred (o_up o) (o_uv o);;
        match r with
        | Ok (presence, verification) =>
            if o_up o && negb presence then Ret (Err CTAP2_OperationDenied)
            else if o_uv o && negb verification then Ret (Err CTAP2_OperationDenied)
            else Ret (Ok (N.lor (if presence then F_UP else 0) (if verification then F_UV else 0)))
        | Err e => Ret (Err e)
        end) jk K).
  { apply holdsK_bind. unfold ask_user. apply call_K; [apply I_check|apply Q0; reflexivity|].
    intros a.
    assert (PK : forall rest res, jk ((ECheckUser cred (o_up o) (o_uv o), a) :: rest) res =
               match a with
               | ACheck (Ok (p, v)) => if enough (o_up o) (o_uv o) p v then next v rest res else j_failed rest res
               | _ => j_failed rest res
               end) by (intros; rewrite Hjk; reflexivity).
    destruct a; cbn [holdsK]; try (unfold dQ; cbn beta; rewrite PK; reflexivity).
    destruct r as [[p v]|e]; cbn [holdsK].
    2:{ apply HErr. intros res Hres. rewrite PK. exact Hres. }
    remember (o_up o) as up eqn:Hup in *. remember (o_uv o) as uv eqn:Huv in *.
    specialize (HOk (fun evs res => jk ((ECheckUser cred up uv, ACheck (Ok (p, v))) :: evs) res) p v).
    destruct up, p, uv, v; cbn [negb andb holdsK];
      first [ apply HOk; [reflexivity|intros evs res; rewrite PK; reflexivity]
            | apply HErr; intros res Hres; rewrite PK; exact Hres ]. }
  destruct (o_uv o) eqn:Huv; [|exact ASK].
  apply holdsK_bind. unfold verif_enabled. cbn [holdsK]. split; [apply Q0; reflexivity|].
  intros a. rewrite dstep_boring by (rewrite I_verif; reflexivity).
  destruct a; cbn [holdsK]; try (apply Q0; reflexivity).
  destruct (negb (opt_is_true o0)); [|exact ASK].
  cbn [holdsK]. apply HErr. exact Q0.
Qed.
End Walk.

(** ** Registration *)
Definition view_mc (r : mc_response) : report :=
  option_map (fun o => (Some (pm_enabled o), pm_results o)) (mr_prf r).

(** the unsigned PRF output the authenticator builds from the generated secrets and the HMAC answers *)
Definition expected_out (c : config) (ext : option mc_ext_in) (hs : option (bytes * option bytes))
                        (results : option prf_values) : option prf_make_out :=
  if is_some (c_hmac c) && is_some (prf_request ext)
  then Some {| pm_enabled := is_some hs; pm_results := results |} else None.


Section WalkReg.
Context {R E : Type}.
Variable view : R -> report.
Variable is_status : E -> N -> bool.
Notation J := (@judgement (result R E)).
Notation stp := (@dstep mcI (result R E)).
Notation Qd := (@dQ (result R E)).
Notation jeq := (@jeq R E).

Ltac skip := apply holdsK_bind; apply (holdsK_dskip mcI); [only_seg | | ].

Variable c : config.
Variables up uv : bool.
Variable ext : option mc_ext_in.

Lemma wanted_model :
  opt_is_true (opt_bind (opt_bind ext mc_ext_zip)
                 (fun r => match me_hmac_secret r with
                           | Some b => Some b
                           | None => Some (match me_prf r with Some _ => true | None => false end)
                           end)) = secrets_wanted ext.
Proof.
  unfold secrets_wanted, zipped. destruct (opt_bind ext mc_ext_zip) as [r|]; [|reflexivity].
  cbn [opt_bind]. destruct (me_hmac_secret r) as [[|]|]; try reflexivity. destruct (me_prf r); reflexivity.
Qed.

Section Ext.
Variable K : J -> result (option (bytes * option bytes) * option prf_make_out) N -> Prop.
Hypothesis HB : forall jk', jeq jk' (j_status is_status CTAP2_UserVerificationBlocked) ->
                            K jk' (Err CTAP2_UserVerificationBlocked).
Hypothesis HK : forall jk' hs results out,
  jeq jk' (j_reg_save view c ext hs results) -> out = expected_out c ext hs results -> K jk' (Ok (hs, out)).

Lemma make_prf_part_K hs (jk : J) :
  jeq jk (j_reg_prf view is_status c uv ext hs) ->
  holdsK stp Qd
    (match opt_bind (opt_bind ext mc_ext_zip) me_prf with
     | None => Ret (Ok (hs, None))
     | Some input =>
         r <- make_prf c hs input uv ;;
         match r with
         | Err e => Ret (Err e)
         | Ok out => Ret (Ok (hs, out))
         end
     end) jk K.
Proof.
  intros Hjk. unfold j_reg_prf, prf_request, zipped in Hjk.
  destruct (opt_bind (opt_bind ext mc_ext_zip) me_prf) as [input|] eqn:Hp.
  2:{ cbn [holdsK]. eapply HK.
      - intros evs res. rewrite Hjk. destruct (c_hmac c); reflexivity.
      - unfold expected_out, prf_request, zipped. rewrite Hp, andb_false_r. reflexivity. }
  apply holdsK_bind. unfold make_prf. destruct (c_hmac c) as [hc|] eqn:Hc.
  2:{ cbn [holdsK]. eapply HK; [exact Hjk|].
      unfold expected_out. rewrite Hc. reflexivity. }
  destruct hs as [creds|].
  2:{ cbn [holdsK]. eapply HK; [exact Hjk|].
      unfold expected_out, prf_request, zipped. rewrite Hc, Hp. reflexivity. }
  destruct (if h_on_mc hc then pi_eval input else None) as [ev|].
  2:{ cbn [holdsK]. eapply HK; [exact Hjk|].
      unfold expected_out, prf_request, zipped. rewrite Hc, Hp. reflexivity. }
  apply holdsK_bind.
  apply (calculate_K is_status mcI (fun _ _ => eq_refl) creds ev hc uv jk (j_reg_save view c ext (Some creds))); [exact Hjk| |].
  - intros jk' Hjk'. cbn [holdsK]. apply HB. exact Hjk'.
  - intros jk' v Hjk'. cbn [holdsK]. eapply HK; [exact Hjk'|].
    unfold expected_out, prf_request, zipped. rewrite Hc, Hp. reflexivity.
Qed.

Lemma make_extensions_K (jk : J) :
  jeq jk (j_reg_secrets view is_status c uv ext) ->
  holdsK stp Qd (make_extensions c ext uv) jk K.
Proof.
  intros Hjk. unfold make_extensions. cbv zeta. apply holdsK_bind. unfold make_hmac_secret.
  rewrite wanted_model. unfold j_reg_secrets in Hjk.
  destruct (c_hmac c) as [hc|] eqn:Hc.
  2:{ cbn [holdsK]. apply make_prf_part_K. exact Hjk. }
  destruct (secrets_wanted ext); cbn [negb].
  2:{ cbn [holdsK]. apply make_prf_part_K. exact Hjk. }
  apply holdsK_bind. unfold rand. apply call_K; [reflexivity|rewrite Hjk; reflexivity|].
  intros a.
  assert (PK : forall rest res, jk ((ERand 32, a) :: rest) res =
     match a with
     | ABytes w =>
         if h_without_uv hc then
           match rest with
           | [] => g_is_cut res
           | (ERand n2, a2) :: rest2 =>
               (n2 =? 32)
               && match a2 with
                  | ABytes wo => j_reg_prf view is_status c uv ext (Some (w, Some wo)) rest2 res
                  | _ => is_nil rest2 && g_is_cut res
                  end
           | _ => false
           end
         else j_reg_prf view is_status c uv ext (Some (w, None)) rest res
     | _ => is_nil rest && g_is_cut res
     end) by (intros; rewrite Hjk; reflexivity).
  destruct a; cbn [holdsK]; try (unfold dQ; cbn beta; rewrite PK; reflexivity).
  destruct (h_without_uv hc).
  2:{ cbn [holdsK]. apply make_prf_part_K. intros evs res. apply PK. }
  apply holdsK_bind. apply call_K; [reflexivity|rewrite PK; reflexivity|].
  intros a2.
  assert (PK2 : forall rest res, jk ((ERand 32, ABytes b) :: (ERand 32, a2) :: rest) res =
     match a2 with
     | ABytes wo => j_reg_prf view is_status c uv ext (Some (b, Some wo)) rest res
     | _ => is_nil rest && g_is_cut res
     end) by (intros; rewrite PK; reflexivity).
  destruct a2; cbn [holdsK]; try (unfold dQ; cbn beta; rewrite PK2; reflexivity).
  apply make_prf_part_K. intros evs res. apply PK2.
Qed.
End Ext.

(** the whole authenticator ceremony, for any continuation (so that the client ceremony can reuse it) *)
Section MakeCredential.
Variable q : mc_request.
Hypothesis Hup : up = o_up (mc_opts q).
Hypothesis Huv : uv = o_uv (mc_opts q).
Hypothesis Hext : ext = mc_ext q.
Variable K : J -> result mc_response N -> Prop.
Hypothesis HKerr : forall (jk' : J) s,
  jk' [] None = true -> (forall e', is_status e' s = true -> jk' [] (Some (Err e')) = true) -> K jk' (Err s).
Hypothesis HKok : forall (jk' : J) resp,
  jk' [] None = true -> (forall e, jk' [] (Some (Err e)) = true) ->
  (forall r, view r = view_mc resp -> jk' [] (Some (Ok r)) = true) -> K jk' (Ok resp).

Lemma exit_failed (jk : J) s : (forall res, g_not_ok res = true -> jk [] res = true) -> K jk (Err s).
Proof. intros H. apply HKerr; [apply H; reflexivity|intros e' _; apply H; reflexivity]. Qed.

Lemma mc_after_rk_K flags alg (jk : J) :
  jeq jk (j_reg_id view is_status c uv ext) ->
  holdsK stp Qd (mc_after_rk c q flags alg) jk K.
Proof.
  intros Hjk. unfold mc_after_rk.
  assert (Q0 : forall res, g_not_ok res = true -> jk [] res = true) by (intros res Hr; rewrite Hjk; exact Hr).
  destruct (mc_pin_auth q); [cbn [holdsK]; apply exit_failed; exact Q0|].
  apply holdsK_bind. unfold rand. apply call_K; [reflexivity|apply Q0; reflexivity|].
  intros a.
  assert (PK : forall rest res, jk ((ERand (c_id_len c), a) :: rest) res =
     match a with
     | ABytes _ => j_reg_secrets view is_status c uv ext rest res
     | _ => is_nil rest && g_is_cut res
     end) by (intros; rewrite Hjk; unfold j_reg_id; rewrite N.eqb_refl; reflexivity).
  destruct a; cbn [holdsK]; try (unfold dQ; cbn beta; rewrite PK; reflexivity).
  set (jk1 := fun evs res => jk ((ERand (c_id_len c), ABytes b) :: evs) res).
  assert (Q1 : Qd jk1 None).
  { unfold dQ, jk1. rewrite PK. unfold j_reg_secrets, j_reg_prf.
    destruct (c_hmac c); [destruct (secrets_wanted ext)|]; try reflexivity;
      destruct (prf_request ext); reflexivity. }
  skip; [exact Q1|]. intros [[d x] y].
  apply holdsK_bind. rewrite <- Huv, <- Hext.
  apply (make_extensions_K).
  - intros jk' Hjk'. cbn [holdsK]. apply HKerr; [rewrite Hjk'; reflexivity|].
    intros e' He'. rewrite Hjk'. exact He'.
  - intros jk' hs results out Hjk' Hout. cbn [holdsK].
    assert (Q2 : Qd jk' None) by (unfold dQ; rewrite Hjk'; reflexivity).
    skip; [exact Q2|]. intros disc.
    apply holdsK_bind. unfold save. apply call_K; [reflexivity|exact Q2|].
    intros a.
    match goal with |- holdsK _ _ _ (fun evs res => jk' ((ESave ?p ?u ?rp ?o, a) :: evs) res) _ =>
      assert (PK3 : forall rest res, jk' ((ESave p u rp o, a) :: rest) res =
         is_nil rest &&
         match a with
         | AUnit (Ok _) => match res with Some (Ok r) => reg_report_ok c ext hs results (view r) | _ => true end
         | AUnit (Err _) => g_not_ok res
         | _ => g_is_cut res
         end)
    end.
    { intros rest res. rewrite Hjk'. unfold j_reg_save. cbn [pk_hmac]. rewrite hmac_eqb_refl.
      destruct rest; reflexivity. }
    destruct a; cbn [holdsK]; try (unfold dQ; cbn beta; rewrite PK3; reflexivity).
    destruct r as [[]|e]; cbn [holdsK].
    + apply HKok; [rewrite PK3; reflexivity|intros e; rewrite PK3; reflexivity|].
      intros r Hr. rewrite PK3. cbn [is_nil andb]. rewrite Hr. unfold view_mc. cbn [mr_prf].
      rewrite Hout. unfold reg_report_ok, expected_out.
      destruct (is_some (c_hmac c) && is_some (prf_request ext)); cbn [option_map pm_enabled pm_results].
      * apply report_eqb_refl.
      * reflexivity.
    + apply exit_failed. intros res Hres. rewrite PK3. exact Hres.
  - intros evs res. apply PK.
Qed.

Lemma mc_after_consent_K flags (jk : J) :
  jeq jk (j_reg_id view is_status c uv ext) ->
  holdsK stp Qd (mc_after_consent c q flags) jk K.
Proof.
  intros Hjk.
  assert (Q0 : forall res, g_not_ok res = true -> jk [] res = true) by (intros res Hr; rewrite Hjk; exact Hr).
  assert (AE : holdsK stp Qd (mc_after_exclude c q flags) jk K).
  { unfold mc_after_exclude.
    destruct (choose_algorithm c (mc_params q)) as [alg|]; [|cbn [holdsK]; apply exit_failed; exact Q0].
    destruct (o_rk (mc_opts q)); [|apply mc_after_rk_K; exact Hjk].
    skip; [apply Q0; reflexivity|]. intros info.
    destruct (negb (i_rk info)); [cbn [holdsK]; apply exit_failed; exact Q0|].
    apply mc_after_rk_K; exact Hjk. }
  unfold mc_after_consent. destruct (mc_exclude q) as [[|id ids]|]; try exact AE.
  skip; [apply Q0; reflexivity|]. intros [[|pk pks]|e]; try exact AE.
  cbn [holdsK]. apply exit_failed. exact Q0.
Qed.

Lemma make_credential_K (jk : J) :
  jeq jk (j_reg view is_status c up uv ext) ->
  holdsK stp Qd (make_credential c q) jk K.
Proof.
  intros Hjk. unfold make_credential. unfold j_reg in Hjk. rewrite <- Hup.
  destruct up; cbn [negb].
  2:{ cbn [holdsK]. apply exit_failed. intros res Hr. rewrite Hjk. exact Hr. }
  apply holdsK_bind.
  apply (check_user_K mcI (fun _ _ _ => eq_refl) eq_refl (mc_opts q) None jk (fun _ => j_reg_id view is_status c uv ext)).
  - rewrite <- Hup, <- Huv. exact Hjk.
  - intros jk' p v _ Hjk'. apply mc_after_consent_K. exact Hjk'.
  - intros jk' e H. cbn [holdsK]. apply exit_failed. exact H.
Qed.
End MakeCredential.
End WalkReg.

(** *** Theorem: registration at the CTAP2 level, every answer script *)
Theorem make_credential_c09 c q script :
  j_reg view_mc N.eqb c (o_up (mc_opts q)) (o_uv (mc_opts q)) (mc_ext q)
        (filter (fun ea => mcI (fst ea)) (fst (interp (make_credential c q) script)))
        (snd (interp (make_credential c q) script)) = true.
Proof.
  apply derivative_sound. unfold holds.
  apply (make_credential_K view_mc N.eqb c _ _ _ q eq_refl eq_refl eq_refl).
  - intros jk' s H0 HE. unfold dQ. apply HE. apply N.eqb_refl.
  - intros jk' resp H0 HE HO. unfold dQ. apply HO. reflexivity.
  - intros evs res. reflexivity.
Qed.

(** ** Assertion *)
Section JudgeGa.
Context {R E : Type}.
Variable view : R -> report.            (* the PRF output a successful result reports *)
Variable used : R -> bytes.             (* the credential id a successful result names *)
Variable is_status : E -> N -> bool.
Notation J := (@judgement (result R E)).
Variable c : config.
Variables up uv : bool.                 (* the options passed to the authenticator *)
Variable ext : option ga_ext_in.        (* the extension inputs passed to the authenticator *)

Definition ga_prf_request : option prf_inputs := opt_bind (opt_bind ext ga_ext_zip) ge_prf.

(** the end: a successful result names the credential that was looked up and reports exactly the
    HMAC answers (nothing if there was no evaluation) *)
Definition j_auth_end (cred : passkey) (results : option prf_values) : J := fun evs res =>
  is_nil evs
  && match res with
     | Some (Ok r) => report_eqb (view r) (option_map (fun v => (None, Some v)) results)
                      && beq (used r) (pk_cred_id cred)
     | _ => true
     end.

(** the evaluation: only with the capability and a prf request; a credential without secrets is an
    error; the salts are those selected for THIS credential ([select_salts]); the flag [v] is the
    verification the user check REPORTED *)
Definition j_auth_prf (cred : passkey) (v : bool) : J :=
  match c_hmac c, ga_prf_request with
  | Some hc, Some rq =>
      match pk_hmac cred with
      | None => j_status is_status U2F_InvalidParameter
      | Some creds =>
          match select_salts (pk_cred_id cred) rq with
          | Some salts => j_eval is_status creds v salts (h_without_uv hc) (j_auth_end cred)
          | None => j_auth_end cred None
          end
      end
  | _, _ => j_auth_end cred None
  end.

(** the counter update of a credential that has a counter comes first; its failure ends the ceremony *)
Definition j_auth_update (cred : passkey) (v : bool) : J := fun evs res =>
  match pk_counter cred with
  | Some _ =>
      match evs with
      | [] => g_is_cut res
      | (EUpdate _, a) :: rest =>
          match a with
          | AUnit (Ok _) => j_auth_prf cred v rest res
          | _ => j_failed rest res
          end
      | _ => false
      end
  | None => j_auth_prf cred v evs res
  end.

(** the lookup: the credential used is the first one of its answer *)
Definition j_auth : J := fun evs res =>
  match evs with
  | [] => g_is_cut res
  | (EFind _ _, a) :: rest =>
      match a with
      | AFind r =>
          match first_credential r with
          | Ok cred => j_user up uv (j_auth_update cred) rest res
          | Err _ => j_user up uv (fun _ => j_failed) rest res
          end
      | _ => is_nil rest && g_is_cut res
      end
  | _ => false
  end.
End JudgeGa.

Definition view_ga (r : ga_response) : report := option_map (fun v => (None, Some v)) (gr_prf r).

Lemma uv_flag (p v : bool) : negb (N.land (N.lor (if p then F_UP else 0) (if v then F_UV else 0)) F_UV =? 0) = v.
Proof. destruct p, v; reflexivity. Qed.

Section WalkGa.
Context {R E : Type}.
Variable view : R -> report.
Variable used : R -> bytes.
Variable is_status : E -> N -> bool.
Notation J := (@judgement (result R E)).
Notation stp := (@dstep gaI (result R E)).
Notation Qd := (@dQ (result R E)).
Notation jeq := (@jeq R E).
Ltac skip := apply holdsK_bind; apply (holdsK_dskip gaI); [only_seg | | ].

Variable adb : auth_data -> bytes.
Variable c : config.
Variable q : ga_request.
Let up := o_up (ga_opts q).
Let uv := o_uv (ga_opts q).
Let ext := ga_ext q.

Lemma get_extensions_K cred cred0 v (jk : J) (K' : J -> result (option prf_values) N -> Prop) :
  pk_cred_id cred = pk_cred_id cred0 -> pk_hmac cred = pk_hmac cred0 ->
  jeq jk (j_auth_prf view used is_status c ext cred0 v) ->
  (forall (jk' : J) s, jk' [] None = true -> (forall e', is_status e' s = true -> jk' [] (Some (Err e')) = true) ->
                       K' jk' (Err s)) ->
  (forall jk' results, jeq jk' (j_auth_end view used cred0 results) -> K' jk' (Ok results)) ->
  holdsK stp Qd (get_extensions c cred ext v) jk K'.
Proof.
  intros Hid Hhm Hjk HErr HOk. unfold get_extensions. unfold j_auth_prf, ga_prf_request in Hjk.
  destruct (opt_bind ext ga_ext_zip) as [e|]; cbn [opt_bind] in Hjk.
  2:{ cbn [holdsK]. apply HOk. intros evs res. rewrite Hjk. destruct (c_hmac c); reflexivity. }
  destruct (ge_prf e) as [salts|].
  2:{ cbn [holdsK]. apply HOk. intros evs res. rewrite Hjk. destruct (c_hmac c); reflexivity. }
  unfold get_prf. rewrite Hid, Hhm.
  destruct (c_hmac c) as [hc|]; [|cbn [holdsK]; apply HOk; exact Hjk].
  destruct (pk_hmac cred0) as [creds|].
  2:{ cbn [holdsK]. apply HErr; [rewrite Hjk; reflexivity|]. intros e' He'. rewrite Hjk. exact He'. }
  destruct (select_salts (pk_cred_id cred0) salts) as [rq|]; [|cbn [holdsK]; apply HOk; exact Hjk].
  apply holdsK_bind.
  apply (calculate_K is_status gaI (fun _ _ => eq_refl) creds rq hc v jk (j_auth_end view used cred0)); [exact Hjk| |].
  - intros jk' Hjk'. cbn [holdsK]. apply HErr; [rewrite Hjk'; reflexivity|]. intros e' He'. rewrite Hjk'. exact He'.
  - intros jk' r Hjk'. cbn [holdsK]. apply HOk. exact Hjk'.
Qed.

Variable K : J -> result ga_response N -> Prop.
Hypothesis HKerr : forall (jk' : J) s,
  jk' [] None = true -> (forall e', is_status e' s = true -> jk' [] (Some (Err e')) = true) -> K jk' (Err s).
Hypothesis HKok : forall (jk' : J) resp,
  (forall r, view r = view_ga resp -> used r = gr_cred_id resp -> jk' [] (Some (Ok r)) = true) -> K jk' (Ok resp).

Lemma ga_exit_failed (jk : J) s : (forall res, g_not_ok res = true -> jk [] res = true) -> K jk (Err s).
Proof. intros H. apply HKerr; [apply H; reflexivity|intros e' _; apply H; reflexivity]. Qed.

Lemma ga_finish_K (p v : bool) cred cred0 (jk : J) :
  pk_cred_id cred = pk_cred_id cred0 -> pk_hmac cred = pk_hmac cred0 ->
  jeq jk (j_auth_prf view used is_status c ext cred0 v) ->
  holdsK stp Qd (ga_finish adb c q (N.lor (if p then F_UP else 0) (if v then F_UV else 0)) cred) jk K.
Proof.
  intros Hid Hhm Hjk. unfold ga_finish. rewrite uv_flag. apply holdsK_bind.
  apply (get_extensions_K cred cred0 v jk); try assumption.
  - intros jk' results Hjk'. cbn [holdsK]. cbv zeta.
    destruct (private_key (pk_key cred)) as [d|e].
    2:{ cbn [holdsK]. apply ga_exit_failed. intros res Hr. rewrite Hjk'. unfold j_auth_end. destruct res as [[r|e']|]; [discriminate|reflexivity|reflexivity]. }
    skip; [unfold dQ; rewrite Hjk'; reflexivity|]. intros sg. cbn [holdsK].
    apply HKok. intros r Hv Hu. rewrite Hjk'. unfold j_auth_end. cbn [is_nil andb].
    rewrite Hv, Hu. unfold view_ga. cbn [gr_prf gr_cred_id]. rewrite report_eqb_refl, Hid, beq_refl. reflexivity.
Qed.

Lemma get_assertion_K (jk : J) :
  jeq jk (j_auth view used is_status c up uv ext) ->
  holdsK stp Qd (get_assertion adb c q) jk K.
Proof.
  intros Hjk. unfold get_assertion. cbv zeta. apply holdsK_bind. unfold find_creds.
  apply call_K; [reflexivity|rewrite Hjk; reflexivity|].
  intros a.
  match goal with |- holdsK _ _ _ (fun evs res => jk ((?e, a) :: evs) res) _ =>
    assert (PK : forall rest res, jk ((e, a) :: rest) res =
       match a with
       | AFind r =>
           match first_credential r with
           | Ok cred => j_user up uv (j_auth_update view used is_status c ext cred) rest res
           | Err _ => j_user up uv (fun _ => j_failed) rest res
           end
       | _ => is_nil rest && g_is_cut res
       end) by (intros; rewrite Hjk; reflexivity)
  end.
  destruct a; cbn [holdsK]; try (unfold dQ; cbn beta; rewrite PK; reflexivity).
  match goal with |- holdsK _ _ _ ?j _ => set (jk1 := j) end.
  set (nextj := match first_credential r with
                | Ok cred => j_auth_update view used is_status c ext cred
                | Err _ => fun _ => j_failed
                end).
  assert (Hjk1 : jeq jk1 (j_user up uv nextj)).
  { intros evs res. unfold jk1, nextj. rewrite PK. destruct (first_credential r); reflexivity. }
  assert (Q1 : forall res, g_not_ok res = true -> jk1 [] res = true) by (intros res Hr; rewrite Hjk1; exact Hr).
  destruct (ga_pin_auth q); [cbn [holdsK]; apply ga_exit_failed; exact Q1|].
  destruct (o_rk (ga_opts q)); [cbn [holdsK]; apply ga_exit_failed; exact Q1|].
  apply holdsK_bind.
  apply (check_user_K gaI (fun _ _ _ => eq_refl) eq_refl (ga_opts q) _ jk1 nextj); [exact Hjk1| |].
  2:{ intros jk' e H. cbn [holdsK]. apply ga_exit_failed. exact H. }
  intros jk' p v _ Hjk'. unfold ga_after_consent. unfold nextj in Hjk'.
  destruct (first_credential r) as [cred0|e].
  2:{ cbn [holdsK]. apply ga_exit_failed. intros res Hr. rewrite Hjk'. exact Hr. }
  unfold j_auth_update in Hjk'.
  destruct (pk_counter cred0) as [n|].
  2:{ apply (ga_finish_K p v cred0 cred0); try reflexivity. exact Hjk'. }
  apply holdsK_bind. unfold update. apply call_K; [reflexivity|rewrite Hjk'; reflexivity|].
  intros a.
  assert (PK2 : forall rest res, jk' ((EUpdate (bump_counter cred0 n), a) :: rest) res =
     match a with
     | AUnit (Ok _) => j_auth_prf view used is_status c ext cred0 v rest res
     | _ => j_failed rest res
     end) by (intros; rewrite Hjk'; reflexivity).
  destruct a; cbn [holdsK]; try (unfold dQ; cbn beta; rewrite PK2; reflexivity).
  destruct r0 as [[]|e]; cbn [holdsK].
  - apply (ga_finish_K p v (bump_counter cred0 n) cred0); try reflexivity. intros evs res. apply PK2.
  - apply ga_exit_failed. intros res Hr. rewrite PK2. exact Hr.
Qed.
End WalkGa.

(** *** Theorem: assertion at the CTAP2 level, every answer script *)
Theorem get_assertion_c09 adb c q script :
  j_auth view_ga gr_cred_id N.eqb c (o_up (ga_opts q)) (o_uv (ga_opts q)) (ga_ext q)
         (filter (fun ea => gaI (fst ea)) (fst (interp (get_assertion adb c q) script)))
         (snd (interp (get_assertion adb c q) script)) = true.
Proof.
  apply derivative_sound. unfold holds.
  apply (get_assertion_K view_ga gr_cred_id N.eqb adb c q).
  - intros jk' s H0 HE. unfold dQ. apply HE. apply N.eqb_refl.
  - intros jk' resp HO. unfold dQ. apply HO; reflexivity.
  - intros evs res. reflexivity.
Qed.

(** * 3. The WebAuthn client level *)
Definition unvalues (v : wprf_values) : prf_values := {| pv_first := wv_first v; pv_second := wv_second v |}.
Definition view_client (p : option prf_client_out) : report :=
  option_map (fun p => (po_enabled p, option_map unvalues (po_results p))) p.
Definition view_reg (r : created) : report := view_client (cr_prf r).
Definition view_auth (r : authenticated) : report := view_client (au_prf r).
Definition reg_status (e : werr) (n : N) : bool := werr_eqb e (WAuthenticatorError n).
Definition auth_status (e : werr) (n : N) : bool := werr_eqb e (werr_of_status n).

(** the authenticator lists the prf extension *)
Definition capable (c : config) : bool := is_some (c_hmac c).

(** the request was refused by the client with this error (or the ceremony was cut) and none of the
    interesting events happened *)
Definition j_rejected {A} (e : werr) : @judgement (result A werr) := fun evs res =>
  is_nil evs && match res with None => true | Some (Err e') => werr_eqb e e' | Some (Ok _) => false end.

Definition reg_uv (q : reg_request) : bool := uv_option (option_map sel_uv (rq_selection q)).

Definition j_register (c : config) (domain : result bytes werr) (q : reg_request) : @judgement (result created werr) :=
  match domain with
  | Err e => j_rejected e
  | Ok _ =>
      match registration_ext (opt_bind (rq_ext q) wext_zip) (capable c) with
      | Err e => j_rejected e
      | Ok ext => j_reg view_reg reg_status c true (reg_uv q) ext
      end
  end.

Definition j_authenticate (c : config) (domain : result bytes werr) (q : auth_request) : @judgement (result authenticated werr) :=
  match domain with
  | Err e => j_rejected e
  | Ok _ =>
      match authentication_ext (aq_allow q) (aq_ext q) (capable c) with
      | Err e => j_rejected e
      | Ok ext => j_auth view_auth au_raw_id auth_status c true (uv_option (Some (aq_uv q))) ext
      end
  end.

Lemma werr_eqb_refl e : werr_eqb e e = true.
Proof. destruct e; cbn; try reflexivity. apply N.eqb_refl. Qed.

Lemma werr_eqb_eq e e' : werr_eqb e e' = true -> e = e'.
Proof. destruct e, e'; cbn; try discriminate; try reflexivity. intros H. apply N.eqb_eq in H. congruence. Qed.

Lemma j_register_cut c domain q : j_register c domain q [] None = true.
Proof.
  unfold j_register. destruct domain; [|reflexivity].
  destruct (registration_ext _ _); reflexivity.
Qed.

Lemma j_authenticate_cut c domain q : j_authenticate c domain q [] None = true.
Proof.
  unfold j_authenticate. destruct domain; [|reflexivity].
  destruct (authentication_ext _ _ _); reflexivity.
Qed.

Lemma view_created (o : option prf_make_out) :
  view_client (option_map (fun p => {| po_enabled := Some (pm_enabled p);
                                       po_results := option_map values_out (pm_results p) |}) o)
  = option_map (fun o => (Some (pm_enabled o), pm_results o)) o.
Proof. destruct o as [[en [[f s]|]]|]; reflexivity. Qed.

Lemma view_authenticated (o : option prf_values) :
  view_client (option_map (fun v => {| po_enabled := None; po_results := Some (values_out v) |}) o)
  = option_map (fun v => (None, Some v)) o.
Proof. destruct o as [[f s]|]; reflexivity. Qed.

Theorem register_c09 c domain origin q cd script :
  j_register c domain q
     (filter (fun ea => mcI (fst ea)) (fst (interp (register c domain origin q cd) script)))
     (snd (interp (register c domain origin q cd) script)) = true.
Proof.
  apply derivative_sound. unfold holds, register.
  pose proof (j_register_cut c domain q) as Q0.
  apply holdsK_bind. unfold get_info.
  apply holdsK_bind; apply (holdsK_dskip mcI); [only_seg|exact Q0|]. intros d.
  apply holdsK_bind; apply (holdsK_dskip mcI); [only_seg|exact Q0|]. intros v.
  apply holdsK_bind; apply (holdsK_dskip mcI); [only_seg|exact Q0|]. intros p.
  cbn [holdsK i_prf_ext i_rk]. cbv zeta.
  unfold j_register in *. fold (is_some (c_hmac c)). fold (capable c).
  destruct domain as [rp|e]; [|cbn [holdsK]; unfold dQ, j_rejected; cbn; apply werr_eqb_refl].
  destruct (registration_ext (opt_bind (rq_ext q) wext_zip) (capable c)) as [ext|e];
    [|cbn [holdsK]; unfold dQ, j_rejected; cbn; apply werr_eqb_refl].
  apply holdsK_bind.
  match goal with |- holdsK _ _ (make_credential c ?rq) _ _ =>
    apply (make_credential_K view_reg reg_status c true (reg_uv q) ext rq eq_refl eq_refl eq_refl)
  end.
  - intros jk' s H0 HE. cbn [holdsK]. unfold dQ. apply HE. unfold reg_status. apply werr_eqb_refl.
  - intros jk' resp H0 HE HO.
    destruct (ad_acd (mr_auth_data resp)) as [a|]; [|exact H0].
    destruct (negb (acd_alg a =? ES256)%Z); [cbn [holdsK]; apply HE|].
    destruct (negb _); [cbn [holdsK]; apply HE|].
    apply holdsK_bind; apply (holdsK_dskip mcI); [only_seg|exact H0|]. intros disc.
    cbn [holdsK]. unfold dQ. apply HO. unfold view_reg. cbn [cr_prf]. apply view_created.
  - intros evs res. reflexivity.
Qed.

Theorem authenticate_c09 c domain origin q cd script :
  j_authenticate c domain q
     (filter (fun ea => gaI (fst ea)) (fst (interp (authenticate c domain origin q cd) script)))
     (snd (interp (authenticate c domain origin q cd) script)) = true.
Proof.
  apply derivative_sound. unfold holds, authenticate.
  pose proof (j_authenticate_cut c domain q) as Q0.
  apply holdsK_bind. unfold get_info.
  apply holdsK_bind; apply (holdsK_dskip gaI); [only_seg|exact Q0|]. intros d.
  apply holdsK_bind; apply (holdsK_dskip gaI); [only_seg|exact Q0|]. intros v.
  apply holdsK_bind; apply (holdsK_dskip gaI); [only_seg|exact Q0|]. intros p.
  cbn [holdsK i_prf_ext i_rk]. cbv zeta.
  unfold j_authenticate in *. fold (is_some (c_hmac c)). fold (capable c).
  destruct domain as [rp|e]; [|cbn [holdsK]; unfold dQ, j_rejected; cbn; apply werr_eqb_refl].
  destruct (authentication_ext (aq_allow q) (aq_ext q) (capable c)) as [ext|e];
    [|cbn [holdsK]; unfold dQ, j_rejected; cbn; apply werr_eqb_refl].
  apply holdsK_bind.
  match goal with |- holdsK _ _ (get_assertion _ c ?rq) _ _ =>
    apply (get_assertion_K view_auth au_raw_id auth_status (ad_bytes sha256) c rq)
  end.
  - intros jk' s H0 HE. cbn [holdsK]. unfold dQ. apply HE. unfold auth_status. apply werr_eqb_refl.
  - intros jk' resp HO. cbn [holdsK]. unfold dQ. apply HO; [|reflexivity].
    unfold view_auth. cbn [au_prf]. apply view_authenticated.
  - intros evs res. reflexivity.
Qed.

(** * 4. Salts, precedence, and the shapes the client refuses (pure functions) *)
Require Coq.Strings.String Coq.Strings.Ascii.
Module PrfLabel.
  Import Coq.Strings.String.
  Definition label : string := "WebAuthn PRF".
End PrfLabel.

Definition bytes_of_string (s : String.string) : bytes := map Ascii.N_of_ascii (String.list_ascii_of_string s).

(** the salt of a (not pre-hashed) input: SHA-256("WebAuthn PRF" || 0x00 || input) *)
Lemma make_salt_spec v : make_salt v = sha256 (bytes_of_string PrfLabel.label ++ [0] ++ v).
Proof. reflexivity. Qed.

Lemma convert_eval_hashed e :
  convert_eval e true = Ok {| pv_first := make_salt (wv_first e); pv_second := option_map make_salt (wv_second e) |}.
Proof. reflexivity. Qed.

Definition len32 (b : bytes) : bool := Nat.eqb (length b) 32.
Definition values_len32 (e : wprf_values) : bool :=
  len32 (wv_first e) && match wv_second e with Some s => len32 s | None => true end.

(** pre-hashed inputs are used as they are, and only if every one of them is 32 bytes long *)
Lemma convert_eval_prehashed e :
  convert_eval e false = if values_len32 e then Ok (unvalues e) else Err WValidationError.
Proof.
  unfold convert_eval, values_len32, len32, unvalues.
  destruct (Nat.eqb (length (wv_first e)) 32); cbn [negb andb]; [|reflexivity].
  destruct (wv_second e) as [s|]; [|reflexivity].
  destruct (Nat.eqb (length s) 32); reflexivity.
Qed.

Lemma convert_eval_err e sh x : convert_eval e sh = Err x -> sh = false /\ values_len32 e = false /\ x = WValidationError.
Proof.
  destruct sh; [discriminate|]. rewrite convert_eval_prehashed.
  destruct (values_len32 e); [discriminate|]. intros [= <-]. auto.
Qed.

(** ** precedence: the entry listed under the credential's id, else the default inputs *)
Lemma select_salts_listed id rq l v :
  pi_by_cred rq = Some l -> In (id, v) l -> (forall v', In (id, v') l -> v' = v) ->
  select_salts id rq = Some v.
Proof.
  intros Hl Hin Huniq. unfold select_salts. rewrite Hl. cbn [opt_bind].
  destruct (find (fun kv => beq (fst kv) id) l) as [[k v0]|] eqn:F.
  - apply find_some in F as [Hin0 Hk]. cbn [fst] in Hk. apply beq_eq in Hk. subst k.
    f_equal. apply Huniq. exact Hin0.
  - exfalso. pose proof (find_none _ _ F _ Hin) as H. cbn [fst] in H. rewrite beq_refl in H. discriminate.
Qed.

Lemma select_salts_unlisted id rq :
  (forall l v, pi_by_cred rq = Some l -> ~ In (id, v) l) -> select_salts id rq = pi_eval rq.
Proof.
  intros H. unfold select_salts. destruct (pi_by_cred rq) as [l|]; [|reflexivity]. cbn [opt_bind].
  destruct (find (fun kv => beq (fst kv) id) l) as [[k v0]|] eqn:F; [|reflexivity].
  apply find_some in F as [Hin0 Hk]. cbn [fst] in Hk. apply beq_eq in Hk. subst k.
  exfalso. exact (H l v0 eq_refl Hin0).
Qed.

(** ** registration: per-credential inputs are refused, whatever the authenticator supports *)
Lemma make_ctap_extension_by_cred p sup sh :
  wp_by_cred p <> None -> make_ctap_extension (Some p) sup sh = Err WNotSupportedError.
Proof. unfold make_ctap_extension. destruct (wp_by_cred p); [reflexivity|congruence]. Qed.

Lemma make_ctap_extension_none sup sh : make_ctap_extension None sup sh = Ok None.
Proof. reflexivity. Qed.

Lemma make_ctap_extension_unsupported p sh : wp_by_cred p = None -> make_ctap_extension (Some p) false sh = Ok None.
Proof. unfold make_ctap_extension. intros ->. reflexivity. Qed.

Lemma registration_by_cred_prf ext sup p :
  opt_bind ext we_prf = Some p -> wp_by_cred p <> None -> registration_ext ext sup = Err WNotSupportedError.
Proof. intros Hp Hb. unfold registration_ext. rewrite Hp, make_ctap_extension_by_cred by exact Hb. reflexivity. Qed.

Lemma registration_by_cred_hashed ext sup p :
  opt_bind ext we_prf = None -> opt_bind ext we_prf_hashed = Some p -> wp_by_cred p <> None ->
  registration_ext ext sup = Err WNotSupportedError.
Proof.
  intros Hn Hp Hb. unfold registration_ext. rewrite Hn, Hp. cbn [make_ctap_extension].
  apply make_ctap_extension_by_cred. exact Hb.
Qed.

(** registration: pre-hashed inputs that are not 32 bytes are refused (capability present) *)
Lemma registration_bad_length ext p v :
  opt_bind ext we_prf = None -> opt_bind ext we_prf_hashed = Some p -> wp_by_cred p = None ->
  wp_eval p = Some v -> values_len32 v = false ->
  registration_ext ext true = Err WValidationError.
Proof.
  intros Hn Hp Hb Hv Hl. unfold registration_ext. rewrite Hn, Hp. cbn [make_ctap_extension].
  rewrite Hb, Hv, convert_eval_prehashed, Hl. reflexivity.
Qed.

(** a request that asks for PRF is always passed on to a capable authenticator *)
Lemma registration_requests_prf ext p sh :
  (sh = true /\ opt_bind ext we_prf = Some p \/ sh = false /\ opt_bind ext we_prf = None /\ opt_bind ext we_prf_hashed = Some p) ->
  forall x, registration_ext ext true = Ok x -> exists m rq, x = Some m /\ me_prf m = Some rq /\ me_hmac_secret m = None
            /\ pi_by_cred rq = None
            /\ match wp_eval p with Some v => exists cv, convert_eval v sh = Ok cv /\ pi_eval rq = Some cv | None => pi_eval rq = None end.
Proof.
  intros H x. unfold registration_ext.
  assert (G : forall x, make_ctap_extension (Some p) true sh = Ok x ->
     exists m rq, x = Some m /\ me_prf m = Some rq /\ me_hmac_secret m = None /\ pi_by_cred rq = None
       /\ match wp_eval p with Some v => exists cv, convert_eval v sh = Ok cv /\ pi_eval rq = Some cv | None => pi_eval rq = None end).
  { clear. intros x. unfold make_ctap_extension. destruct (wp_by_cred p); [discriminate|].
    destruct (wp_eval p) as [v|].
    - destruct (convert_eval v sh) as [cv|e]; [|discriminate]. intros [= <-]. cbn.
      eexists _, _. repeat split. exists cv. split; reflexivity.
    - intros [= <-]. cbn. eexists _, _. repeat split. }
  destruct H as [[-> Hp]|(-> & Hn & Hp)].
  - rewrite Hp. destruct (make_ctap_extension (Some p) true true) as [[m|]|e] eqn:M; try discriminate.
    + intros [= <-]. apply G. reflexivity.
    + destruct (G _ eq_refl) as (m & rq & Hx & _). discriminate.
  - rewrite Hn, Hp. cbn [make_ctap_extension]. apply G.
Qed.

(** ** authentication *)
Definition allow_empty (allow : option (list bytes)) : bool :=
  match allow with None | Some [] => true | _ => false end.

(** a key of evalByCredential that is no good: undecodable, empty, or not an id of the allow list *)
Definition bad_key (allow : option (list bytes)) (k : bytes) : bool :=
  match bytes_try_from_str k with
  | None => true
  | Some [] => true
  | Some kb => match allow with Some al => negb (existsb (beq kb) al) | None => false end
  end.

Lemma decode_keys_none l : existsb (fun kv => negb (is_some (bytes_try_from_str (fst kv)))) l = true <-> decode_keys l = None.
Proof.
  induction l as [|[k v] l IH]; cbn [existsb decode_keys fst]; [split; discriminate|].
  destruct (bytes_try_from_str k) as [kb|]; cbn [is_some negb orb]; [|split; reflexivity].
  rewrite IH. destruct (decode_keys l); split; congruence.
Qed.

Lemma decode_keys_some l dl : decode_keys l = Some dl ->
  map fst dl = map (fun kv => match bytes_try_from_str (fst kv) with Some b => b | None => [] end) l
  /\ map snd dl = map snd l.
Proof.
  revert dl. induction l as [|[k v] l IH]; intros dl; cbn [decode_keys map fst snd].
  - intros [= <-]. split; reflexivity.
  - destruct (bytes_try_from_str k) as [kb|]; [|discriminate].
    destruct (decode_keys l) as [dl'|]; [|discriminate]. intros [= <-].
    destruct (IH dl' eq_refl) as [H1 H2]. cbn [map fst snd]. rewrite H1, H2. split; reflexivity.
Qed.

Lemma decode_keys_in l dl k v id :
  decode_keys l = Some dl -> In (k, v) l -> bytes_try_from_str k = Some id -> In (id, v) dl.
Proof.
  revert dl. induction l as [|[k0 v0] l IH]; intros dl; cbn [decode_keys]; [intros _ []|].
  destruct (bytes_try_from_str k0) as [kb|] eqn:K0; [|discriminate].
  destruct (decode_keys l) as [dl'|]; [|discriminate]. intros [= <-] [H|H] Hk.
  - injection H as -> ->. rewrite K0 in Hk. injection Hk as ->. left. reflexivity.
  - right. eapply IH; eauto.
Qed.

Lemma decode_keys_in_inv l dl id v :
  decode_keys l = Some dl -> In (id, v) dl -> exists k, In (k, v) l /\ bytes_try_from_str k = Some id.
Proof.
  revert dl. induction l as [|[k0 v0] l IH]; intros dl; cbn [decode_keys].
  - intros [= <-] [].
  - destruct (bytes_try_from_str k0) as [kb|] eqn:K0; [|discriminate].
    destruct (decode_keys l) as [dl'|]; [|discriminate]. intros [= <-] [H|H].
    + injection H as -> ->. exists k0. split; [left; reflexivity|exact K0].
    + destruct (IH dl' eq_refl H) as (k & Hin & Hk). exists k. split; [right; exact Hin|exact Hk].
Qed.

Lemma convert_all_in dl sh l' id v :
  convert_all dl sh = Ok l' -> In (id, v) dl -> exists cv, convert_eval v sh = Ok cv /\ In (id, cv) l'.
Proof.
  revert l'. induction dl as [|[k0 v0] dl IH]; intros l'; cbn [convert_all]; [intros _ []|].
  destruct (convert_eval v0 sh) as [cv0|e] eqn:C0; [|discriminate].
  destruct (convert_all dl sh) as [r'|e]; [|discriminate]. intros [= <-] [H|H].
  - injection H as -> ->. exists cv0. split; [exact C0|left; reflexivity].
  - destruct (IH r' eq_refl H) as (cv & Hc & Hi). exists cv. split; [exact Hc|right; exact Hi].
Qed.

Lemma convert_all_in_inv dl sh l' id cv :
  convert_all dl sh = Ok l' -> In (id, cv) l' -> exists v, In (id, v) dl /\ convert_eval v sh = Ok cv.
Proof.
  revert l'. induction dl as [|[k0 v0] dl IH]; intros l'; cbn [convert_all].
  - intros [= <-] [].
  - destruct (convert_eval v0 sh) as [cv0|e] eqn:C0; [|discriminate].
    destruct (convert_all dl sh) as [r'|e]; [|discriminate]. intros [= <-] [H|H].
    + injection H as -> ->. exists v0. split; [left; reflexivity|exact C0].
    + destruct (IH r' eq_refl H) as (v & Hi & Hc). exists v. split; [right; exact Hi|exact Hc].
Qed.

Lemma convert_all_err dl sh x : convert_all dl sh = Err x ->
  sh = false /\ x = WValidationError /\ exists id v, In (id, v) dl /\ values_len32 v = false.
Proof.
  induction dl as [|[k0 v0] dl IH]; cbn [convert_all]; [discriminate|].
  destruct (convert_eval v0 sh) as [cv0|e] eqn:C0.
  - destruct (convert_all dl sh) as [r'|e]; [discriminate|]. intros [= <-].
    destruct (IH eq_refl) as (H1 & H2 & id & v & Hin & Hl). repeat split; auto. exists id, v. split; [right; exact Hin|exact Hl].
  - intros [= <-]. destruct (convert_eval_err _ _ _ C0) as (H1 & H2 & H3). repeat split; auto.
    exists k0, v0. split; [left; reflexivity|exact H2].
Qed.

Lemma convert_all_bad dl sh id v : In (id, v) dl -> sh = false -> values_len32 v = false ->
  convert_all dl sh = Err WValidationError.
Proof.
  intros Hin -> Hl. induction dl as [|[k0 v0] dl IH]; [destruct Hin|]. cbn [convert_all].
  rewrite convert_eval_prehashed. destruct (values_len32 v0) eqn:L0; [|reflexivity].
  destruct Hin as [H|H]; [injection H as -> ->; congruence|]. rewrite (IH H). reflexivity.
Qed.

Section GetCtap.
Variables (allow : option (list bytes)) (p : wprf_inputs) (sh : bool).

(** per-credential inputs without an allow list *)
Lemma get_ctap_no_allow_list l :
  wp_by_cred p = Some l -> l <> [] -> allow_empty allow = true ->
  get_ctap_extension allow (Some p) true sh = Err WNotSupportedError.
Proof.
  intros Hl Hne Ha. unfold get_ctap_extension. cbn [negb opt_bind]. rewrite Hl.
  destruct l; [congruence|]. unfold allow_empty in Ha. destruct allow as [[|]|]; try discriminate; reflexivity.
Qed.

(** an undecodable, empty or unlisted key *)
Lemma get_ctap_bad_key l k v :
  wp_by_cred p = Some l -> allow_empty allow = false -> In (k, v) l -> bad_key allow k = true ->
  get_ctap_extension allow (Some p) true sh = Err WSyntaxError.
Proof.
  intros Hl Ha Hin Hbad. unfold get_ctap_extension. cbn [negb opt_bind]. rewrite Hl.
  replace (match allow with None | Some [] => true | _ => false end) with false
    by (unfold allow_empty in Ha; destruct allow as [[|]|]; congruence).
  rewrite andb_false_r.
  destruct (decode_keys l) as [dl|] eqn:D; cbn [option_map]; [|reflexivity].
  match goal with |- (if ?b then _ else _) = _ => assert (Hb : b = true); [|rewrite Hb; reflexivity] end.
  apply existsb_exists. unfold bad_key in Hbad.
  destruct (bytes_try_from_str k) as [kb|] eqn:K.
  2:{ exfalso. assert (X : decode_keys l = None); [|congruence].
      apply decode_keys_none. apply existsb_exists. exists (k, v). split; [exact Hin|]. cbn [fst]. rewrite K. reflexivity. }
  exists (kb, v). split; [eapply decode_keys_in; eauto|]. cbn [fst].
  destruct kb as [|b kb]; [reflexivity|]. cbn [orb]. destruct allow; [exact Hbad|discriminate].
Qed.

(** keys all good, some pre-hashed value (per credential or default) not 32 bytes long *)
Lemma get_ctap_bad_length l :
  wp_by_cred p = Some l -> allow_empty allow = false ->
  (forall k v, In (k, v) l -> bad_key allow k = false) ->
  sh = false ->
  ((exists k v, In (k, v) l /\ values_len32 v = false) \/ (exists v, wp_eval p = Some v /\ values_len32 v = false)) ->
  get_ctap_extension allow (Some p) true sh = Err WValidationError.
Proof.
  intros Hl Ha Hgood -> Hbad. unfold get_ctap_extension. cbn [negb opt_bind]. rewrite Hl.
  replace (match allow with None | Some [] => true | _ => false end) with false
    by (unfold allow_empty in Ha; destruct allow as [[|]|]; congruence).
  rewrite andb_false_r.
  destruct (decode_keys l) as [dl|] eqn:D; cbn [option_map].
  2:{ exfalso. apply decode_keys_none in D. apply existsb_exists in D as ([k v] & Hin & Hk). cbn [fst] in Hk.
      specialize (Hgood k v Hin). unfold bad_key in Hgood. destruct (bytes_try_from_str k); discriminate. }
  match goal with |- (if ?b then _ else _) = _ => assert (Hb : b = false); [|rewrite Hb] end.
  { apply Bool.not_true_is_false. intros Hx. apply existsb_exists in Hx as ([id v] & Hin & Hk). cbn [fst] in Hk.
    destruct (decode_keys_in_inv _ _ _ _ D Hin) as (k & Hin' & Hdec).
    specialize (Hgood k v Hin'). unfold bad_key in Hgood. rewrite Hdec in Hgood.
    destruct id as [|b id]; [discriminate|]. cbn [orb] in Hk. destruct allow; congruence. }
  destruct Hbad as [(k & v & Hin & Hlen)|(v & Hv & Hlen)].
  - assert (exists id, In (id, v) dl) as [id Hid].
    { specialize (Hgood k v Hin). unfold bad_key in Hgood. destruct (bytes_try_from_str k) as [id|] eqn:K; [|discriminate].
      exists id. eapply decode_keys_in; eauto. }
    rewrite (convert_all_bad dl false id v Hid eq_refl Hlen). reflexivity.
  - destruct (convert_all dl false) as [l'|e] eqn:C.
    + rewrite Hv, convert_eval_prehashed, Hlen. reflexivity.
    + destruct (convert_all_err _ _ _ C) as (_ & -> & _). reflexivity.
Qed.

(** what a request that passes validation hands to the authenticator: the default inputs converted,
    and one entry per evalByCredential entry, under the decoded key, converted *)
Lemma get_ctap_ok x :
  get_ctap_extension allow (Some p) true sh = Ok x ->
  exists e rq, x = Some e /\ ge_prf e = Some rq
    /\ match wp_eval p with
       | Some v => exists cv, convert_eval v sh = Ok cv /\ pi_eval rq = Some cv
       | None => pi_eval rq = None
       end
    /\ match wp_by_cred p with
       | None => pi_by_cred rq = None
       | Some l => exists dl l', decode_keys l = Some dl /\ convert_all dl sh = Ok l' /\ pi_by_cred rq = Some l'
       end.
Proof.
  unfold get_ctap_extension. cbn [negb opt_bind].
  destruct (_ && _); [discriminate|].
  destruct (wp_by_cred p) as [l|].
  - destruct (decode_keys l) as [dl|] eqn:D; cbn [option_map]; [|discriminate].
    match goal with |- context [existsb ?f dl] => destruct (existsb f dl); [discriminate|] end.
    destruct (convert_all dl sh) as [l'|e] eqn:C; [|discriminate].
    destruct (wp_eval p) as [v|].
    + destruct (convert_eval v sh) as [cv|e] eqn:CV; [|discriminate]. intros [= <-]. cbn.
      eexists _, _. split; [reflexivity|]. split; [reflexivity|]. split.
      * exists cv. split; reflexivity.
      * exists dl, l'. repeat split. exact C.
    + intros [= <-]. cbn. eexists _, _. split; [reflexivity|]. split; [reflexivity|]. split; [reflexivity|].
      exists dl, l'. repeat split. exact C.
  - destruct (wp_eval p) as [v|].
    + destruct (convert_eval v sh) as [cv|e] eqn:CV; [|discriminate]. intros [= <-]. cbn.
      eexists _, _. split; [reflexivity|]. split; [reflexivity|]. split; [|reflexivity].
      exists cv. split; reflexivity.
    + intros [= <-]. cbn. eexists _, _. repeat split.
Qed.
End GetCtap.

(** precedence in terms of the WebAuthn request: the entry whose key decodes to the credential's id
    (the only such entry) supplies the salts; with no such entry the default inputs do *)
Lemma auth_precedence_listed allow p sh x l k wv id :
  get_ctap_extension allow (Some p) true sh = Ok x ->
  wp_by_cred p = Some l -> In (k, wv) l -> bytes_try_from_str k = Some id ->
  (forall k' wv', In (k', wv') l -> bytes_try_from_str k' = Some id -> wv' = wv) ->
  exists e rq cv, x = Some e /\ ge_prf e = Some rq /\ convert_eval wv sh = Ok cv /\ select_salts id rq = Some cv.
Proof.
  intros Hx Hl Hin Hk Huniq. destruct (get_ctap_ok _ _ _ _ Hx) as (e & rq & -> & Hrq & _ & Hby).
  rewrite Hl in Hby. destruct Hby as (dl & l' & Hd & Hc & Hl').
  pose proof (decode_keys_in _ _ _ _ _ Hd Hin Hk) as Hin1.
  destruct (convert_all_in _ _ _ _ _ Hc Hin1) as (cv & Hcv & Hin2).
  exists e, rq, cv. repeat split; auto.
  apply (select_salts_listed id rq l' cv Hl' Hin2).
  intros cv' Hin3. destruct (convert_all_in_inv _ _ _ _ _ Hc Hin3) as (wv' & Hin4 & Hcv').
  destruct (decode_keys_in_inv _ _ _ _ Hd Hin4) as (k' & Hin5 & Hk').
  rewrite (Huniq k' wv' Hin5 Hk') in Hcv'. congruence.
Qed.

Lemma auth_precedence_default allow p sh x id :
  get_ctap_extension allow (Some p) true sh = Ok x ->
  (forall l k wv, wp_by_cred p = Some l -> In (k, wv) l -> bytes_try_from_str k <> Some id) ->
  exists e rq, x = Some e /\ ge_prf e = Some rq /\ select_salts id rq = pi_eval rq
    /\ match wp_eval p with
       | Some v => exists cv, convert_eval v sh = Ok cv /\ pi_eval rq = Some cv
       | None => pi_eval rq = None
       end.
Proof.
  intros Hx Hno. destruct (get_ctap_ok _ _ _ _ Hx) as (e & rq & -> & Hrq & Hev & Hby).
  exists e, rq. repeat split; auto.
  apply select_salts_unlisted. intros l' cv Hl' Hin.
  destruct (wp_by_cred p) as [l|]; [|congruence]. destruct Hby as (dl & l'' & Hd & Hc & Hl''). rewrite Hl'' in Hl'. injection Hl' as <-.
  destruct (convert_all_in_inv _ _ _ _ _ Hc Hin) as (wv & Hin1 & _).
  destruct (decode_keys_in_inv _ _ _ _ Hd Hin1) as (k & Hin2 & Hk).
  exact (Hno l k wv eq_refl Hin2 Hk).
Qed.

(** which of the two client inputs is used: [prf] when present (and the authenticator capable), else
    [prfAlreadyHashed] *)
Lemma authentication_ext_prf allow ext p :
  opt_bind ext we_prf = Some p ->
  authentication_ext allow ext true = match get_ctap_extension allow (Some p) true true with
                                      | Ok None => get_ctap_extension allow (opt_bind ext we_prf_hashed) true false
                                      | other => other
                                      end.
Proof. intros H. unfold authentication_ext. rewrite H. destruct (get_ctap_extension _ _ _ _) as [[x|]|e]; reflexivity. Qed.

Lemma get_ctap_some_not_none allow p sh : get_ctap_extension allow (Some p) true sh <> Ok None.
Proof. intros H. destruct (get_ctap_ok _ _ _ _ H) as (e & rq & Hx & _). discriminate. Qed.

Lemma authentication_ext_uses_prf allow ext p :
  opt_bind ext we_prf = Some p -> authentication_ext allow ext true = get_ctap_extension allow (Some p) true true.
Proof.
  intros H. rewrite (authentication_ext_prf _ _ _ H).
  destruct (get_ctap_extension allow (Some p) true true) as [[x|]|e] eqn:G; try reflexivity.
  exfalso. exact (get_ctap_some_not_none _ _ _ G).
Qed.

Lemma authentication_ext_uses_hashed allow ext :
  opt_bind ext we_prf = None ->
  authentication_ext allow ext true = get_ctap_extension allow (opt_bind ext we_prf_hashed) true false.
Proof. intros H. unfold authentication_ext. rewrite H. reflexivity. Qed.

Lemma authentication_ext_incapable allow ext : authentication_ext allow ext false = Ok None.
Proof. reflexivity. Qed.

(** * 5. Rejected before the authenticator is invoked *)
Definition notInfo (e : eff) : bool := negb (is_info e).

(** why (if at all) the client refuses a request before calling the authenticator *)
Definition reg_rejection (c : config) (domain : result bytes werr) (q : reg_request) : option werr :=
  match domain with
  | Err e => Some e
  | Ok _ => match registration_ext (opt_bind (rq_ext q) wext_zip) (capable c) with Err e => Some e | Ok _ => None end
  end.
Definition auth_rejection (c : config) (domain : result bytes werr) (q : auth_request) : option werr :=
  match domain with
  | Err e => Some e
  | Ok _ => match authentication_ext (aq_allow q) (aq_ext q) (capable c) with Err e => Some e | Ok _ => None end
  end.

Lemma filter_nil_forall {A} (f : A -> bool) l : is_nil (filter f l) = true -> Forall (fun x => f x = false) l.
Proof.
  induction l as [|x l IH]; cbn [filter]; [constructor|].
  destruct (f x) eqn:F; [discriminate|]. intros H. constructor; [exact F|apply IH; exact H].
Qed.

Lemma j_rejected_inv {A} e evs (res : option (result A werr)) :
  j_rejected e evs res = true -> evs = [] /\ (res = None \/ res = Some (Err e)).
Proof.
  unfold j_rejected. destruct evs; [|discriminate]. cbn [is_nil andb].
  destruct res as [[r|e']|]; try discriminate; auto.
  intros H. apply werr_eqb_eq in H. subst. auto.
Qed.

Theorem register_rejected c domain origin q cd e script :
  reg_rejection c domain q = Some e ->
  Forall (fun ea => is_info (fst ea) = true) (fst (interp (register c domain origin q cd) script))
  /\ (snd (interp (register c domain origin q cd) script) = None
      \/ snd (interp (register c domain origin q cd) script) = Some (Err e)).
Proof.
  intros Hrej.
  assert (H : j_rejected e (filter (fun ea => notInfo (fst ea)) (fst (interp (register c domain origin q cd) script)))
                         (snd (interp (register c domain origin q cd) script)) = true).
  { apply derivative_sound. unfold holds, register.
    apply holdsK_bind. unfold get_info.
    apply holdsK_bind; apply (holdsK_dskip notInfo); [only_seg|reflexivity|]. intros d.
    apply holdsK_bind; apply (holdsK_dskip notInfo); [only_seg|reflexivity|]. intros v.
    apply holdsK_bind; apply (holdsK_dskip notInfo); [only_seg|reflexivity|]. intros p.
    cbn [holdsK i_prf_ext i_rk]. cbv zeta. unfold reg_rejection in Hrej.
    fold (is_some (c_hmac c)). fold (capable c).
    destruct domain as [rp|e0]; [|injection Hrej as ->; cbn [holdsK]; unfold dQ, j_rejected; cbn; apply werr_eqb_refl].
    destruct (registration_ext (opt_bind (rq_ext q) wext_zip) (capable c)) as [x|e0]; [discriminate|].
    injection Hrej as ->. cbn [holdsK]. unfold dQ, j_rejected. cbn. apply werr_eqb_refl. }
  apply j_rejected_inv in H as [H1 H2]. split; [|exact H2].
  assert (H3 : is_nil (filter (fun ea => notInfo (fst ea)) (fst (interp (register c domain origin q cd) script))) = true)
    by (rewrite H1; reflexivity).
  apply filter_nil_forall in H3. eapply Forall_impl; [|exact H3].
  intros [e' a]. unfold notInfo. cbn [fst]. destruct (is_info e'); [reflexivity|discriminate].
Qed.

Theorem authenticate_rejected c domain origin q cd e script :
  auth_rejection c domain q = Some e ->
  Forall (fun ea => is_info (fst ea) = true) (fst (interp (authenticate c domain origin q cd) script))
  /\ (snd (interp (authenticate c domain origin q cd) script) = None
      \/ snd (interp (authenticate c domain origin q cd) script) = Some (Err e)).
Proof.
  intros Hrej.
  assert (H : j_rejected e (filter (fun ea => notInfo (fst ea)) (fst (interp (authenticate c domain origin q cd) script)))
                         (snd (interp (authenticate c domain origin q cd) script)) = true).
  { apply derivative_sound. unfold holds, authenticate.
    apply holdsK_bind. unfold get_info.
    apply holdsK_bind; apply (holdsK_dskip notInfo); [only_seg|reflexivity|]. intros d.
    apply holdsK_bind; apply (holdsK_dskip notInfo); [only_seg|reflexivity|]. intros v.
    apply holdsK_bind; apply (holdsK_dskip notInfo); [only_seg|reflexivity|]. intros p.
    cbn [holdsK i_prf_ext i_rk]. cbv zeta. unfold auth_rejection in Hrej.
    fold (is_some (c_hmac c)). fold (capable c).
    destruct domain as [rp|e0]; [|injection Hrej as ->; cbn [holdsK]; unfold dQ, j_rejected; cbn; apply werr_eqb_refl].
    destruct (authentication_ext (aq_allow q) (aq_ext q) (capable c)) as [x|e0]; [discriminate|].
    injection Hrej as ->. cbn [holdsK]. unfold dQ, j_rejected. cbn. apply werr_eqb_refl. }
  apply j_rejected_inv in H as [H1 H2]. split; [|exact H2].
  assert (H3 : is_nil (filter (fun ea => notInfo (fst ea)) (fst (interp (authenticate c domain origin q cd) script))) = true)
    by (rewrite H1; reflexivity).
  apply filter_nil_forall in H3. eapply Forall_impl; [|exact H3].
  intros [e' a]. unfold notInfo. cbn [fst]. destruct (is_info e'); [reflexivity|discriminate].
Qed.

(** the same in the vocabulary of Auth/Monitor.v: the whole client program performs only the three
    capability queries *)
Theorem register_rejected_only c domain origin q cd e :
  reg_rejection c domain q = Some e -> only is_info (register c domain origin q cd).
Proof.
  intros Hrej. unfold register, get_info. typed_calls. cbn [bind only].
  split; [reflexivity|]. intros [ | |d| | | | | ]; try exact I. cbn [bind only].
  split; [reflexivity|]. intros [ | | |v| | | | ]; try exact I. cbn [bind only].
  split; [reflexivity|]. intros [ | | | |p| | | ]; try exact I. cbn [bind only i_prf_ext].
  unfold reg_rejection, capable, is_some in Hrej.
  destruct domain as [rp|e0]; [|exact I].
  destruct (registration_ext _ _); [discriminate|exact I].
Qed.

Theorem authenticate_rejected_only c domain origin q cd e :
  auth_rejection c domain q = Some e -> only is_info (authenticate c domain origin q cd).
Proof.
  intros Hrej. unfold authenticate, get_info. typed_calls. cbn [bind only].
  split; [reflexivity|]. intros [ | |d| | | | | ]; try exact I. cbn [bind only].
  split; [reflexivity|]. intros [ | | |v| | | | ]; try exact I. cbn [bind only].
  split; [reflexivity|]. intros [ | | | |p| | | ]; try exact I. cbn [bind only i_prf_ext].
  unfold auth_rejection, capable, is_some in Hrej.
  destruct domain as [rp|e0]; [|exact I].
  destruct (authentication_ext _ _ _); [discriminate|exact I].
Qed.

(** * 6. Reading the judgements: what a successful result implies, in plain terms *)

(** the HMAC events behind reported results [rs] (key [k], salts [ev]) *)
Definition hmac_events (k : bytes) (ev rs : prf_values) : trace :=
  (EHmac k (pv_first ev), ABytes (pv_first rs))
  :: match pv_second rs, pv_second ev with
     | Some o2, Some s2 => [(EHmac k s2, ABytes o2)]
     | _, _ => []
     end.

Definition secret_events (secrets : option (bytes * option bytes)) : trace :=
  match secrets with
  | None => []
  | Some (w, None) => [(ERand 32, ABytes w)]
  | Some (w, Some wo) => [(ERand 32, ABytes w); (ERand 32, ABytes wo)]
  end.

Ltac kill_cut H :=
  try discriminate H;
  try (rewrite andb_false_r in H; discriminate H).

Section Readings.
Context {R E : Type}.
Variable view : R -> report.
Variable is_status : E -> N -> bool.
Notation J := (@judgement (result R E)).

Lemma j_hmac1_ok_inv k ev two (next : option prf_values -> J) evs r :
  j_hmac1 k ev two next evs (Some (Ok r)) = true ->
  exists rs rest, evs = hmac_events k ev rs ++ rest /\ next (Some rs) rest (Some (Ok r)) = true
                  /\ (forall o2, pv_second rs = Some o2 -> exists s2, pv_second ev = Some s2).
Proof.
  unfold j_hmac1. destruct evs as [|[e a] rest]; [discriminate|].
  destruct e as [| | | | | | | | | |k1 s1]; try discriminate. intros H.
  apply andb_true_iff in H as [H Ha]. apply andb_true_iff in H as [Hk Hs].
  apply beq_eq in Hk. apply beq_eq in Hs. subst k1 s1.
  destruct a as [?|?|?|?|?|?|o1|? ? ?]; cbn [g_is_cut] in Ha; kill_cut Ha.
  unfold j_hmac2 in Ha. destruct (pv_second ev) as [s2|] eqn:E2; [destruct two|].
  - destruct rest as [|[e a] rest]; [discriminate|].
    destruct e as [| | | | | | | | | |k2 s3]; try discriminate.
    apply andb_true_iff in Ha as [H Ha]. apply andb_true_iff in H as [Hk Hs].
    apply beq_eq in Hk. apply beq_eq in Hs. subst k2 s3.
    destruct a as [?|?|?|?|?|?|o2|? ? ?]; cbn [g_is_cut] in Ha; kill_cut Ha.
    exists {| pv_first := o1; pv_second := Some o2 |}, rest. unfold hmac_events. cbn [pv_first pv_second]. rewrite E2.
    split; [reflexivity|]. split; [exact Ha|]. intros o _. eauto.
  - exists {| pv_first := o1; pv_second := None |}, rest. unfold hmac_events. cbn [pv_first pv_second].
    split; [reflexivity|]. split; [exact Ha|]. intros o [=].
  - exists {| pv_first := o1; pv_second := None |}, rest. unfold hmac_events. cbn [pv_first pv_second].
    split; [reflexivity|]. split; [exact Ha|]. intros o [=].
Qed.

Lemma j_eval_ok_inv creds uv ev two (next : option prf_values -> J) evs r :
  j_eval is_status creds uv ev two next evs (Some (Ok r)) = true ->
  exists k rs rest, select_key creds uv = Some k /\ evs = hmac_events k ev rs ++ rest
                    /\ next (Some rs) rest (Some (Ok r)) = true
                    /\ (forall o2, pv_second rs = Some o2 -> exists s2, pv_second ev = Some s2).
Proof.
  unfold j_eval. destruct (select_key creds uv) as [k|].
  - intros H. destruct (j_hmac1_ok_inv _ _ _ _ _ _ H) as (rs & rest & H1 & H2 & H3). exists k, rs, rest. auto.
  - unfold j_status. cbn [g_err_or_cut]. intros H. kill_cut H.
Qed.

Lemma j_user_ok_inv up uv (next : bool -> J) evs r :
  j_user up uv next evs (Some (Ok r)) = true ->
  exists cred up' uv' p v rest, evs = (ECheckUser cred up' uv', ACheck (Ok (p, v))) :: rest
                                /\ enough up uv p v = true /\ next v rest (Some (Ok r)) = true.
Proof.
  unfold j_user. destruct evs as [|[e a] rest]; [discriminate|].
  destruct e as [| | | | | |cred up' uv'| | | |]; try discriminate.
  unfold j_failed. cbn [g_not_ok]. destruct a as [?|?|?|?|?|rc|?|? ? ?]; intros H; kill_cut H.
  destruct rc as [[p v]|]; kill_cut H. destruct (enough up uv p v) eqn:En; kill_cut H.
  exists cred, up', uv', p, v, rest. auto.
Qed.

(** ** a successful registration *)
Section Reg.
Variables (c : config) (up uv : bool) (ext : option mc_ext_in).
Notation OkR r := (Some (@Ok R E r)).

Lemma j_reg_save_ok_inv secrets results evs r :
  j_reg_save view c ext secrets results evs (OkR r) = true ->
  exists p u rp o, evs = [(ESave p u rp o, AUnit (Ok tt))] /\ pk_hmac p = secrets
                   /\ reg_report_ok c ext secrets results (view r) = true.
Proof.
  unfold j_reg_save. destruct evs as [|[e a] [|x rest]]; try discriminate;
    destruct e as [|p u rp o| | | | | | | | |]; try discriminate.
  intros H. apply andb_true_iff in H as [Hh Ha]. apply hmac_eqb_eq in Hh.
  destruct a as [?|ru|?|?|?|?|?|? ? ?]; try discriminate. destruct ru as [[]|]; try discriminate.
  exists p, u, rp, o. auto.
Qed.

(** the evaluation behind the results of a successful registration *)
Definition reg_evaluation (secrets : option (bytes * option bytes)) (results : option prf_values) (hm : trace) : Prop :=
  match results with
  | None => hm = []
  | Some rs => exists hc rq creds ev k,
      c_hmac c = Some hc /\ h_on_mc hc = true /\ prf_request ext = Some rq /\ pi_eval rq = Some ev
      /\ secrets = Some creds /\ select_key creds uv = Some k /\ hm = hmac_events k ev rs
      /\ (forall o2, pv_second rs = Some o2 -> exists s2, pv_second ev = Some s2)
  end.

Lemma j_reg_prf_ok_inv secrets evs r :
  j_reg_prf view is_status c uv ext secrets evs (OkR r) = true ->
  exists results hm p u rp o,
    evs = hm ++ [(ESave p u rp o, AUnit (Ok tt))] /\ pk_hmac p = secrets
    /\ reg_report_ok c ext secrets results (view r) = true /\ reg_evaluation secrets results hm.
Proof.
  unfold j_reg_prf.
  assert (G : j_reg_save view c ext secrets None evs (OkR r) = true ->
     exists results hm p u rp o,
       evs = hm ++ [(ESave p u rp o, AUnit (Ok tt))] /\ pk_hmac p = secrets
       /\ reg_report_ok c ext secrets results (view r) = true /\ reg_evaluation secrets results hm).
  { intros H. destruct (j_reg_save_ok_inv _ _ _ _ H) as (p & u & rp & o & H1 & H2 & H3).
    exists None, [], p, u, rp, o. repeat split; auto. }
  destruct (c_hmac c) as [hc|] eqn:Hc; [|exact G].
  destruct (prf_request ext) as [rq|] eqn:Hrq; [|exact G].
  destruct secrets as [creds|]; [|exact G].
  destruct (h_on_mc hc) eqn:Hon; [|exact G].
  destruct (pi_eval rq) as [ev|] eqn:Hev; [|exact G].
  intros H. destruct (j_eval_ok_inv _ _ _ _ _ _ _ H) as (k & rs & rest & Hk & Hevs & Hnext & Hsec).
  destruct (j_reg_save_ok_inv _ _ _ _ Hnext) as (p & u & rp & o & H1 & H2 & H3).
  exists (Some rs), (hmac_events k ev rs), p, u, rp, o. subst rest. repeat split; auto.
  exists hc, rq, creds, ev, k. repeat split; auto.
Qed.

Lemma j_reg_secrets_ok_inv evs r :
  j_reg_secrets view is_status c uv ext evs (OkR r) = true ->
  exists secrets rest, evs = secret_events secrets ++ rest
    /\ (c_hmac c = None -> secrets = None)
    /\ j_reg_prf view is_status c uv ext secrets rest (OkR r) = true.
Proof.
  unfold j_reg_secrets.
  assert (G : j_reg_prf view is_status c uv ext None evs (OkR r) = true ->
     exists secrets rest, evs = secret_events secrets ++ rest /\ (c_hmac c = None -> secrets = None)
       /\ j_reg_prf view is_status c uv ext secrets rest (OkR r) = true).
  { intros H. exists None, evs. auto. }
  destruct (c_hmac c) as [hc|]; [|exact G].
  destruct (secrets_wanted ext); [|exact G].
  destruct evs as [|[e a] rest]; [discriminate|].
  destruct e as [| | | | | | |n| | |]; try discriminate. intros H.
  apply andb_true_iff in H as [Hn Ha]. apply N.eqb_eq in Hn. subst n.
  destruct a as [?|?|?|?|?|?|w|? ? ?]; cbn [g_is_cut] in Ha; kill_cut Ha.
  destruct (h_without_uv hc).
  - destruct rest as [|[e a] rest]; [discriminate|].
    destruct e as [| | | | | | |n| | |]; try discriminate.
    apply andb_true_iff in Ha as [Hn Ha]. apply N.eqb_eq in Hn. subst n.
    destruct a as [?|?|?|?|?|?|wo|? ? ?]; cbn [g_is_cut] in Ha; kill_cut Ha.
    exists (Some (w, Some wo)), rest. repeat split; auto. discriminate.
  - exists (Some (w, None)), rest. repeat split; auto. discriminate.
Qed.

Theorem j_reg_ok_inv evs r :
  j_reg view is_status c up uv ext evs (OkR r) = true ->
  exists cred up' uv' p v id secrets results hm psave u rp o,
    evs = (ECheckUser cred up' uv', ACheck (Ok (p, v))) :: (ERand (c_id_len c), ABytes id)
          :: secret_events secrets ++ hm ++ [(ESave psave u rp o, AUnit (Ok tt))]
    /\ up = true /\ enough up uv p v = true
    /\ pk_hmac psave = secrets /\ (c_hmac c = None -> secrets = None)
    /\ reg_report_ok c ext secrets results (view r) = true
    /\ reg_evaluation secrets results hm.
Proof.
  unfold j_reg. destruct up; [|unfold j_failed; cbn [g_not_ok]; intros H; kill_cut H].
  intros H. destruct (j_user_ok_inv _ _ _ _ _ H) as (cred & up' & uv' & p & v & rest & -> & Hen & Hid).
  unfold j_reg_id in Hid. destruct rest as [|[e a] rest]; [discriminate|].
  destruct e as [| | | | | | |n| | |]; try discriminate.
  apply andb_true_iff in Hid as [Hn Ha]. apply N.eqb_eq in Hn. subst n.
  destruct a as [?|?|?|?|?|?|id|? ? ?]; cbn [g_is_cut] in Ha; kill_cut Ha.
  destruct (j_reg_secrets_ok_inv _ _ Ha) as (secrets & rest' & -> & Hcap & Hprf).
  destruct (j_reg_prf_ok_inv _ _ _ Hprf) as (results & hm & psave & u & rp & o & -> & Hs & Hrep & Hev).
  exists cred, up', uv', p, v, id, secrets, results, hm, psave, u, rp, o. repeat split; auto.
Qed.
End Reg.

(** ** a successful assertion *)
Section Auth.
Variable used : R -> bytes.
Variables (c : config) (up uv : bool) (ext : option ga_ext_in).
Notation OkR r := (Some (@Ok R E r)).

Definition auth_evaluation (cred : passkey) (v : bool) (results : option prf_values) (hm : trace) : Prop :=
  match results with
  | None => hm = []
  | Some rs => exists hc rq creds salts k,
      c_hmac c = Some hc /\ ga_prf_request ext = Some rq /\ pk_hmac cred = Some creds
      /\ select_salts (pk_cred_id cred) rq = Some salts /\ select_key creds v = Some k
      /\ hm = hmac_events k salts rs
      /\ (forall o2, pv_second rs = Some o2 -> exists s2, pv_second salts = Some s2)
  end.

Lemma j_auth_end_ok_inv cred results evs r :
  j_auth_end view used cred results evs (OkR r) = true ->
  evs = [] /\ report_eqb (view r) (option_map (fun v => (None, Some v)) results) = true /\ used r = pk_cred_id cred.
Proof.
  unfold j_auth_end. destruct evs; [|discriminate]. cbn [is_nil andb]. intros H.
  apply andb_true_iff in H as [H1 H2]. apply beq_eq in H2. auto.
Qed.

Lemma j_auth_prf_ok_inv cred v evs r :
  j_auth_prf view used is_status c ext cred v evs (OkR r) = true ->
  exists results, report_eqb (view r) (option_map (fun v => (None, Some v)) results) = true
                  /\ used r = pk_cred_id cred /\ auth_evaluation cred v results evs.
Proof.
  unfold j_auth_prf.
  assert (G : j_auth_end view used cred None evs (OkR r) = true ->
     exists results, report_eqb (view r) (option_map (fun v => (None, Some v)) results) = true
                     /\ used r = pk_cred_id cred /\ auth_evaluation cred v results evs).
  { intros H. apply j_auth_end_ok_inv in H as (-> & H1 & H2). exists None. repeat split; auto. }
  destruct (c_hmac c) as [hc|] eqn:Hc; [|exact G].
  destruct (ga_prf_request ext) as [rq|] eqn:Hrq; [|exact G].
  destruct (pk_hmac cred) as [creds|] eqn:Hh.
  2:{ unfold j_status. cbn [g_err_or_cut]. intros H. kill_cut H. }
  destruct (select_salts (pk_cred_id cred) rq) as [salts|] eqn:Hs; [|exact G].
  intros H. destruct (j_eval_ok_inv _ _ _ _ _ _ _ H) as (k & rs & rest & Hk & Hevs & Hnext & Hsec).
  apply j_auth_end_ok_inv in Hnext as (-> & H1 & H2).
  exists (Some rs). repeat split; auto. rewrite app_nil_r in Hevs.
  exists hc, rq, creds, salts, k. repeat split; auto.
Qed.

Theorem j_auth_ok_inv evs r :
  j_auth view used is_status c up uv ext evs (OkR r) = true ->
  exists ids rp fr cred shown up' uv' p v upd results hm,
    evs = (EFind ids rp, AFind fr) :: (ECheckUser shown up' uv', ACheck (Ok (p, v))) :: upd ++ hm
    /\ first_credential fr = Ok cred /\ enough up uv p v = true
    /\ (upd = [] \/ exists p', upd = [(EUpdate p', AUnit (Ok tt))])
    /\ used r = pk_cred_id cred
    /\ report_eqb (view r) (option_map (fun v => (None, Some v)) results) = true
    /\ auth_evaluation cred v results hm.
Proof.
  unfold j_auth. destruct evs as [|[e a] rest]; [discriminate|].
  destruct e as [ids rp| | | | | | | | | |]; try discriminate.
  destruct a as [fr|?|?|?|?|?|?|? ? ?]; cbn [g_is_cut]; try (intros H0; solve [kill_cut H0]).
  destruct (first_credential fr) as [cred|e] eqn:Hfc; intros H.
  2:{ destruct (j_user_ok_inv _ _ _ _ _ H) as (? & ? & ? & ? & ? & rest' & _ & _ & Hf).
      unfold j_failed in Hf. cbn [g_not_ok] in Hf. kill_cut Hf. }
  destruct (j_user_ok_inv _ _ _ _ _ H) as (shown & up' & uv' & p & v & rest' & -> & Hen & Hupd).
  unfold j_auth_update in Hupd.
  destruct (pk_counter cred).
  - destruct rest' as [|[e a] rest']; [discriminate|].
    destruct e as [| |p'| | | | | | | |]; try discriminate.
    destruct a as [?|ru|?|?|?|?|?|? ? ?]; try (unfold j_failed in Hupd; cbn [g_not_ok] in Hupd; kill_cut Hupd).
    destruct ru as [[]|]; [|unfold j_failed in Hupd; cbn [g_not_ok] in Hupd; kill_cut Hupd].
    destruct (j_auth_prf_ok_inv _ _ _ _ Hupd) as (results & H1 & H2 & H3).
    exists ids, rp, fr, cred, shown, up', uv', p, v, [(EUpdate p', AUnit (Ok tt))], results, rest'.
    repeat split; auto. right. eauto.
  - destruct (j_auth_prf_ok_inv _ _ _ _ Hupd) as (results & H1 & H2 & H3).
    exists ids, rp, fr, cred, shown, up', uv', p, v, [], results, rest'. repeat split; auto.
Qed.
End Auth.
End Readings.

(** * 7. The property in plain terms, for executions in which every HMAC event is answered by
    HMAC-SHA-256 (what the oracle of the check establishes on the observed values) *)
Definition hmac_honest (tr : trace) : Prop :=
  forall k s a, In (EHmac k s, a) tr -> a = ABytes (hmac_sha256 k s).

Lemma prf_values_eqb_eq a b : prf_values_eqb a b = true -> a = b.
Proof.
  destruct a as [f s], b as [f' s']. unfold prf_values_eqb. cbn [pv_first pv_second]. intros H.
  apply andb_true_iff in H as [H1 H2]. apply beq_eq in H1. subst f'.
  destruct s, s'; cbn in H2; try discriminate; [apply beq_eq in H2; subst|]; reflexivity.
Qed.

Lemma report_eqb_eq (a b : report) : report_eqb a b = true -> a = b.
Proof.
  destruct a as [[en rs]|], b as [[en' rs']|]; cbn; try discriminate; [|reflexivity].
  intros H. apply andb_true_iff in H as [H1 H2].
  assert (en = en') by (destruct en, en'; cbn in H1; try discriminate; [apply Bool.eqb_prop in H1; subst|]; reflexivity).
  assert (rs = rs') by (destruct rs, rs'; cbn in H2; try discriminate; [apply prf_values_eqb_eq in H2; subst|]; reflexivity).
  subst. reflexivity.
Qed.

Lemma in_filter_trace (f : eff -> bool) (tr : trace) x : In x (filter (fun ea => f (fst ea)) tr) -> In x tr.
Proof. intros H. apply filter_In in H. apply H. Qed.

(** the HMAC answers behind reported results, when the answers are honest *)
Lemma honest_results tr k ev rs :
  hmac_honest tr -> (forall x, In x (hmac_events k ev rs) -> In x tr) ->
  (forall o2, pv_second rs = Some o2 -> exists s2, pv_second ev = Some s2) ->
  pv_first rs = hmac_sha256 k (pv_first ev)
  /\ (forall o2, pv_second rs = Some o2 -> exists s2, pv_second ev = Some s2 /\ o2 = hmac_sha256 k s2).
Proof.
  intros Hh Hin Hsec. split.
  - assert (H : In (EHmac k (pv_first ev), ABytes (pv_first rs)) tr) by (apply Hin; left; reflexivity).
    apply Hh in H. congruence.
  - intros o2 Ho. destruct (Hsec o2 Ho) as [s2 Hs]. exists s2. split; [exact Hs|].
    assert (H : In (EHmac k s2, ABytes o2) tr).
    { apply Hin. unfold hmac_events. rewrite Ho, Hs. right. left. reflexivity. }
    apply Hh in H. congruence.
Qed.

(** what a registration that reports a PRF output did, stated on the events of the trace *)
Record registration_facts (c : config) (uv : bool) (ext : option mc_ext_in) (tr : trace)
                          (enabled : option bool) (results : option prf_values) : Prop := {
  rf_capable : c_hmac c <> None;
  (* the passkey handed to the store, and "enabled" = it carries secrets *)
  rf_saved : exists p u rp o, In (ESave p u rp o, AUnit (Ok tt)) tr /\ enabled = Some (is_some (pk_hmac p))
     (* its secrets are fresh random 32-byte strings *)
     /\ (forall w wo, pk_hmac p = Some (w, wo) ->
           In (ERand 32, ABytes w) tr /\ (forall x, wo = Some x -> In (ERand 32, ABytes x) tr))
     (* every result is HMAC-SHA-256 under the secret selected by the requested uv option, over the salts of the request *)
     /\ (forall rs, results = Some rs ->
           exists creds rq ev k, pk_hmac p = Some creds /\ prf_request ext = Some rq /\ pi_eval rq = Some ev
             /\ select_key creds uv = Some k
             /\ pv_first rs = hmac_sha256 k (pv_first ev)
             /\ (forall o2, pv_second rs = Some o2 -> exists s2, pv_second ev = Some s2 /\ o2 = hmac_sha256 k s2));
  (* the gated secret only with a verified user *)
  rf_verified : uv = true -> exists cred up' uv' p, In (ECheckUser cred up' uv', ACheck (Ok (p, true))) tr
}.

Lemma reg_facts_of_judgement {R E} (view : R -> report) (is_status : E -> N -> bool) c up uv ext tr (r : R) en results :
  hmac_honest tr ->
  j_reg view is_status c up uv ext (filter (fun ea => mcI (fst ea)) tr) (Some (Ok r)) = true ->
  view r = Some (en, results) ->
  registration_facts c uv ext tr en results.
Proof.
  intros Hh Hj Hview.
  destruct (j_reg_ok_inv _ _ _ _ _ _ _ _ Hj)
    as (cred & up' & uv' & p & v & id & secrets & res' & hm & psave & u & rp & o & Hevs & Hup & Hen & Hs & Hcap & Hrep & Hev).
  assert (IN : forall x, In x (filter (fun ea => mcI (fst ea)) tr) -> In x tr) by (intros x; apply in_filter_trace).
  rewrite Hevs in IN.
  unfold reg_report_ok in Hrep. rewrite Hview in Hrep.
  destruct (is_some (c_hmac c) && is_some (prf_request ext)) eqn:Hcp; [|discriminate].
  apply report_eqb_eq in Hrep. injection Hrep as -> ->.
  apply andb_true_iff in Hcp as [Hc Hp].
  constructor.
  - destruct (c_hmac c); [discriminate|discriminate].
  - exists psave, u, rp, o. split; [apply IN; right; right; apply in_or_app; right; apply in_or_app; right; left; reflexivity|].
    split; [rewrite Hs; reflexivity|]. split.
    + intros w wo Hw. subst secrets. rewrite Hw in IN.
      destruct wo as [x|]; cbn [secret_events app] in IN.
      * split; [apply IN; right; right; left; reflexivity|]. intros y [= <-]. apply IN. right; right; right; left. reflexivity.
      * split; [apply IN; right; right; left; reflexivity|]. intros y [=].
    + intros rs ->. cbn [reg_evaluation] in Hev.
      destruct Hev as (hc & rq & creds & ev & k & Hhc & Hon & Hrq & Hevl & Hsec & Hk & Hhm & Hs2).
      exists creds, rq, ev, k. rewrite Hs. repeat split; auto.
      * apply (honest_results tr k ev rs Hh); [|exact Hs2]. intros x Hx. apply IN. right; right. apply in_or_app; right.
        apply in_or_app; left. rewrite Hhm. exact Hx.
      * apply (honest_results tr k ev rs Hh); [|exact Hs2]. intros x Hx. apply IN. right; right. apply in_or_app; right.
        apply in_or_app; left. rewrite Hhm. exact Hx.
  - intros Huv. subst uv. unfold enough in Hen. destruct v; [|rewrite andb_false_r in Hen; discriminate].
    exists cred, up', uv', p. apply IN. left. reflexivity.
Qed.

Theorem make_credential_plain c q script r out :
  hmac_honest (fst (interp (make_credential c q) script)) ->
  snd (interp (make_credential c q) script) = Some (Ok r) -> mr_prf r = Some out ->
  registration_facts c (o_uv (mc_opts q)) (mc_ext q) (fst (interp (make_credential c q) script))
                     (Some (pm_enabled out)) (pm_results out).
Proof.
  intros Hh Hres Hout. pose proof (make_credential_c09 c q script) as Hj. rewrite Hres in Hj.
  eapply reg_facts_of_judgement; [exact Hh|exact Hj|]. unfold view_mc. rewrite Hout. reflexivity.
Qed.

(** the same for an assertion *)
Record assertion_facts (c : config) (ext : option ga_ext_in) (tr : trace) (used_id : bytes)
                       (rs : prf_values) : Prop := {
  af_facts : exists ids rp fr cred shown up' uv' p v rest,
     (* the interesting events start with the lookup and the user check *)
     filter (fun ea => gaI (fst ea)) tr = (EFind ids rp, AFind fr) :: (ECheckUser shown up' uv', ACheck (Ok (p, v))) :: rest
     (* the credential used is the first one found, and the one the result names *)
     /\ first_credential fr = Ok cred /\ used_id = pk_cred_id cred
     (* the results are HMAC-SHA-256 under the secret of THAT credential selected by the REPORTED
        verification, over the salts selected for that credential's id *)
     /\ exists creds rq salts k, c_hmac c <> None /\ pk_hmac cred = Some creds /\ ga_prf_request ext = Some rq
          /\ select_salts (pk_cred_id cred) rq = Some salts /\ select_key creds v = Some k
          /\ pv_first rs = hmac_sha256 k (pv_first salts)
          /\ (forall o2, pv_second rs = Some o2 -> exists s2, pv_second salts = Some s2 /\ o2 = hmac_sha256 k s2)
}.

Lemma auth_facts_of_judgement {R E} (view : R -> report) (used : R -> bytes) (is_status : E -> N -> bool)
      c up uv ext tr (r : R) en rs :
  hmac_honest tr ->
  j_auth view used is_status c up uv ext (filter (fun ea => gaI (fst ea)) tr) (Some (Ok r)) = true ->
  view r = Some (en, Some rs) ->
  assertion_facts c ext tr (used r) rs.
Proof.
  intros Hh Hj Hview.
  destruct (j_auth_ok_inv _ _ _ _ _ _ _ _ _ Hj)
    as (ids & rp & fr & cred & shown & up' & uv' & p & v & upd & results & hm & Hevs & Hfc & Hen & Hupd & Hused & Hrep & Hev).
  assert (IN : forall x, In x (filter (fun ea => gaI (fst ea)) tr) -> In x tr) by (intros x; apply in_filter_trace).
  rewrite Hevs in IN. rewrite Hview in Hrep. apply report_eqb_eq in Hrep.
  destruct results as [rs'|]; [|discriminate]. injection Hrep as _ <-.
  cbn [auth_evaluation] in Hev. destruct Hev as (hc & rq & creds & salts & k & Hhc & Hrq & Hh' & Hsel & Hk & Hhm & Hs2).
  constructor. exists ids, rp, fr, cred, shown, up', uv', p, v, (upd ++ hm). repeat split; auto.
  exists creds, rq, salts, k. repeat split; auto; try congruence.
  - apply (honest_results tr k salts rs Hh); [|exact Hs2]. intros x Hx. apply IN. right; right. apply in_or_app; right. rewrite Hhm. exact Hx.
  - apply (honest_results tr k salts rs Hh); [|exact Hs2]. intros x Hx. apply IN. right; right. apply in_or_app; right. rewrite Hhm. exact Hx.
Qed.

Theorem get_assertion_plain adb c q script r rs :
  hmac_honest (fst (interp (get_assertion adb c q) script)) ->
  snd (interp (get_assertion adb c q) script) = Some (Ok r) -> gr_prf r = Some rs ->
  assertion_facts c (ga_ext q) (fst (interp (get_assertion adb c q) script)) (gr_cred_id r) rs.
Proof.
  intros Hh Hres Hout. pose proof (get_assertion_c09 adb c q script) as Hj. rewrite Hres in Hj.
  eapply (auth_facts_of_judgement view_ga gr_cred_id); [exact Hh|exact Hj|]. unfold view_ga. rewrite Hout. reflexivity.
Qed.

(** ** the WebAuthn client level *)
Definition salt_of (should_hash : bool) (input : bytes) : bytes := if should_hash then make_salt input else input.

Lemma convert_eval_ok v sh ev : convert_eval v sh = Ok ev ->
  pv_first ev = salt_of sh (wv_first v) /\ pv_second ev = option_map (salt_of sh) (wv_second v)
  /\ (sh = false -> values_len32 v = true).
Proof.
  destruct sh.
  - rewrite convert_eval_hashed. intros [= <-]. cbn. repeat split. discriminate.
  - rewrite convert_eval_prehashed. destruct (values_len32 v); [|discriminate]. intros [= <-]. cbn.
    repeat split. destruct (wv_second v); reflexivity.
Qed.

(** the client inputs that count: [prf] (hashed) when present, else [prfAlreadyHashed] (used as is) *)
Definition client_inputs (ext : option wext) : option (wprf_inputs * bool) :=
  match opt_bind ext we_prf with
  | Some p => Some (p, true)
  | None => match opt_bind ext we_prf_hashed with Some p => Some (p, false) | None => None end
  end.

Lemma registration_ext_salts ext x rq ev :
  registration_ext ext true = Ok x -> prf_request x = Some rq -> pi_eval rq = Some ev ->
  exists p sh v, client_inputs ext = Some (p, sh) /\ wp_eval p = Some v
    /\ pv_first ev = salt_of sh (wv_first v) /\ pv_second ev = option_map (salt_of sh) (wv_second v)
    /\ (sh = false -> values_len32 v = true).
Proof.
  intros Hx Hrq Hev. unfold client_inputs.
  assert (G : forall p sh,
     (sh = true /\ opt_bind ext we_prf = Some p \/ sh = false /\ opt_bind ext we_prf = None /\ opt_bind ext we_prf_hashed = Some p) ->
     exists v, wp_eval p = Some v /\ pv_first ev = salt_of sh (wv_first v)
               /\ pv_second ev = option_map (salt_of sh) (wv_second v) /\ (sh = false -> values_len32 v = true)).
  { intros p sh Hc. destruct (registration_requests_prf ext p sh Hc x Hx) as (m & rq' & -> & Hm & _ & _ & Hv).
    unfold prf_request, zipped in Hrq. cbn [opt_bind] in Hrq.
    assert (Hz : mc_ext_zip m = Some m) by (unfold mc_ext_zip; rewrite Hm; destruct (me_hmac_secret m), (me_hmac_secret_mc m); reflexivity).
    rewrite Hz in Hrq. cbn [opt_bind] in Hrq. rewrite Hm in Hrq. injection Hrq as ->.
    destruct (wp_eval p) as [v|]; [|congruence]. destruct Hv as (cv & Hcv & Hpe). rewrite Hpe in Hev. injection Hev as ->.
    exists v. split; [reflexivity|]. apply convert_eval_ok. exact Hcv. }
  destruct (opt_bind ext we_prf) as [p|] eqn:P1.
  - destruct (G p true (or_introl (conj eq_refl eq_refl))) as (v & H). exists p, true, v. split; [reflexivity|exact H].
  - destruct (opt_bind ext we_prf_hashed) as [p|] eqn:P2.
    + destruct (G p false (or_intror (conj eq_refl (conj eq_refl eq_refl)))) as (v & H). exists p, false, v. split; [reflexivity|exact H].
    + exfalso. unfold registration_ext in Hx. rewrite P1, P2 in Hx. cbn in Hx. injection Hx as <-. discriminate.
Qed.

Lemma j_rejected_ok {A} e evs (r : A) : j_rejected e evs (Some (Ok r)) = false.
Proof. unfold j_rejected. apply andb_false_r. Qed.

Theorem register_plain c domain origin q cd script cr out :
  hmac_honest (fst (interp (register c domain origin q cd) script)) ->
  snd (interp (register c domain origin q cd) script) = Some (Ok cr) -> cr_prf cr = Some out ->
  exists ext, registration_ext (opt_bind (rq_ext q) wext_zip) (capable c) = Ok ext
    /\ registration_facts c (reg_uv q) ext (fst (interp (register c domain origin q cd) script))
                          (po_enabled out) (option_map unvalues (po_results out)).
Proof.
  intros Hh Hres Hout. pose proof (register_c09 c domain origin q cd script) as Hj. rewrite Hres in Hj.
  unfold j_register in Hj. destruct domain as [rp|e]; [|rewrite j_rejected_ok in Hj; discriminate].
  destruct (registration_ext (opt_bind (rq_ext q) wext_zip) (capable c)) as [ext|e]; [|rewrite j_rejected_ok in Hj; discriminate].
  exists ext. split; [reflexivity|].
  eapply (reg_facts_of_judgement view_reg reg_status); [exact Hh|exact Hj|]. unfold view_reg, view_client. rewrite Hout. reflexivity.
Qed.

Lemma select_salts_inv id rq salts : select_salts id rq = Some salts ->
  (exists l, pi_by_cred rq = Some l /\ In (id, salts) l)
  \/ ((forall l v, pi_by_cred rq = Some l -> ~ In (id, v) l) /\ pi_eval rq = Some salts).
Proof.
  unfold select_salts. destruct (pi_by_cred rq) as [l|]; cbn [opt_bind].
  - destruct (find (fun kv => beq (fst kv) id) l) as [[k v]|] eqn:F.
    + intros [= <-]. apply find_some in F as [Hin Hk]. cbn [fst] in Hk. apply beq_eq in Hk. subst k. left. eauto.
    + intros H. right. split; [|exact H]. intros l' v [= <-] Hin.
      pose proof (find_none _ _ F _ Hin) as X. cbn [fst] in X. rewrite beq_refl in X. discriminate.
  - intros H. right. split; [|exact H]. intros l v [=].
Qed.

(** where the salts of an assertion come from, in terms of the WebAuthn request: an evalByCredential
    entry whose key decodes to the credential's id when there is one, else the default inputs *)
Lemma authentication_ext_salts allow ext x rq id salts :
  authentication_ext allow ext true = Ok x -> ga_prf_request x = Some rq -> select_salts id rq = Some salts ->
  exists p sh wv, client_inputs ext = Some (p, sh)
    /\ pv_first salts = salt_of sh (wv_first wv) /\ pv_second salts = option_map (salt_of sh) (wv_second wv)
    /\ (sh = false -> values_len32 wv = true)
    /\ ((exists l k, wp_by_cred p = Some l /\ In (k, wv) l /\ bytes_try_from_str k = Some id)
        \/ ((forall l k wv', wp_by_cred p = Some l -> In (k, wv') l -> bytes_try_from_str k <> Some id)
            /\ wp_eval p = Some wv)).
Proof.
  intros Hx Hrq Hsel. unfold client_inputs.
  assert (G : forall p sh, get_ctap_extension allow (Some p) true sh = Ok x ->
     exists wv, pv_first salts = salt_of sh (wv_first wv) /\ pv_second salts = option_map (salt_of sh) (wv_second wv)
       /\ (sh = false -> values_len32 wv = true)
       /\ ((exists l k, wp_by_cred p = Some l /\ In (k, wv) l /\ bytes_try_from_str k = Some id)
           \/ ((forall l k wv', wp_by_cred p = Some l -> In (k, wv') l -> bytes_try_from_str k <> Some id)
               /\ wp_eval p = Some wv))).
  { intros p sh Hg. destruct (get_ctap_ok _ _ _ _ Hg) as (e & rq' & -> & Hge & Hev & Hby).
    unfold ga_prf_request in Hrq. cbn [opt_bind] in Hrq.
    assert (Hz : ga_ext_zip e = Some e) by (unfold ga_ext_zip; rewrite Hge; destruct (ge_hmac_secret e); reflexivity).
    rewrite Hz in Hrq. cbn [opt_bind] in Hrq. rewrite Hge in Hrq. injection Hrq as ->.
    destruct (select_salts_inv _ _ _ Hsel) as [(l' & Hl' & Hin)|(Hno & Hpe)].
    - destruct (wp_by_cred p) as [l|] eqn:Hl; [|congruence].
      destruct Hby as (dl & l'' & Hd & Hc & Hl''). rewrite Hl'' in Hl'. injection Hl' as <-.
      destruct (convert_all_in_inv _ _ _ _ _ Hc Hin) as (wv & Hin1 & Hcv).
      destruct (decode_keys_in_inv _ _ _ _ Hd Hin1) as (k & Hin2 & Hk).
      exists wv. destruct (convert_eval_ok _ _ _ Hcv) as (H1 & H2 & H3). repeat split; auto. left. exists l, k. auto.
    - destruct (wp_eval p) as [v|]; [|congruence]. destruct Hev as (cv & Hcv & Hpe'). rewrite Hpe' in Hpe. injection Hpe as ->.
      exists v. destruct (convert_eval_ok _ _ _ Hcv) as (H1 & H2 & H3). repeat split; auto. right. split; [|reflexivity].
      intros l k wv' Hl Hin Hk. rewrite Hl in Hby. destruct Hby as (dl & l' & Hd & Hc & Hl').
      pose proof (decode_keys_in _ _ _ _ _ Hd Hin Hk) as Hin1.
      destruct (convert_all_in _ _ _ _ _ Hc Hin1) as (cv' & _ & Hin2).
      exact (Hno l' cv' Hl' Hin2). }
  destruct (opt_bind ext we_prf) as [p|] eqn:P1.
  - rewrite (authentication_ext_uses_prf _ _ _ P1) in Hx. destruct (G p true Hx) as (wv & H). exists p, true, wv. split; [reflexivity|exact H].
  - rewrite (authentication_ext_uses_hashed _ _ P1) in Hx.
    destruct (opt_bind ext we_prf_hashed) as [p|] eqn:P2.
    + destruct (G p false Hx) as (wv & H). exists p, false, wv. split; [reflexivity|exact H].
    + exfalso. cbn in Hx. injection Hx as <-. discriminate.
Qed.

Theorem authenticate_plain c domain origin q cd script au out ws :
  hmac_honest (fst (interp (authenticate c domain origin q cd) script)) ->
  snd (interp (authenticate c domain origin q cd) script) = Some (Ok au) ->
  au_prf au = Some out -> po_results out = Some ws ->
  exists ext, authentication_ext (aq_allow q) (aq_ext q) (capable c) = Ok ext
    /\ assertion_facts c ext (fst (interp (authenticate c domain origin q cd) script)) (au_raw_id au) (unvalues ws).
Proof.
  intros Hh Hres Hout Hws. pose proof (authenticate_c09 c domain origin q cd script) as Hj. rewrite Hres in Hj.
  unfold j_authenticate in Hj. destruct domain as [rp|e]; [|rewrite j_rejected_ok in Hj; discriminate].
  destruct (authentication_ext (aq_allow q) (aq_ext q) (capable c)) as [ext|e]; [|rewrite j_rejected_ok in Hj; discriminate].
  exists ext. split; [reflexivity|].
  eapply (auth_facts_of_judgement view_auth au_raw_id auth_status); [exact Hh|exact Hj|].
  unfold view_auth, view_client. rewrite Hout. cbn [option_map]. rewrite Hws. reflexivity.
Qed.

(** no capability: no PRF output, no HMAC, no secret stored - at both levels (a reading of the
    judgements: [reg_report_ok] and [j_reg_secrets]/[j_reg_prf]/[j_auth_prf] with [c_hmac c = None]) *)
Theorem incapable_registration {R E} (view : R -> report) (is_status : E -> N -> bool) c up uv ext evs (r : R) :
  c_hmac c = None ->
  j_reg view is_status c up uv ext evs (Some (Ok r)) = true ->
  view r = None
  /\ (forall k s a, ~ In (EHmac k s, a) evs)
  /\ (forall p u rp o a, In (ESave p u rp o, a) evs -> pk_hmac p = None).
Proof.
  intros Hc Hj.
  destruct (j_reg_ok_inv _ _ _ _ _ _ _ _ Hj)
    as (cred & up' & uv' & p & v & id & secrets & res' & hm & psave & u & rp & o & Hevs & Hup & Hen & Hs & Hcap & Hrep & Hev).
  specialize (Hcap Hc). subst secrets. unfold reg_report_ok in Hrep. rewrite Hc in Hrep. cbn [is_some andb] in Hrep.
  apply report_eqb_eq in Hrep.
  assert (hm = []).
  { destruct res' as [rs|]; [|exact Hev]. cbn [reg_evaluation] in Hev. destruct Hev as (hc & ? & ? & ? & ? & Hhc & _). congruence. }
  subst hm. rewrite Hcap in Hevs. cbn [secret_events app] in Hevs. subst evs.
  split; [exact Hrep|]. split.
  - intros k s a [H|[H|[H|[]]]]; discriminate.
  - intros p0 u0 rp0 o0 a [H|[H|[H|[]]]]; try discriminate. injection H as -> _ _ _ _. exact Hcap.
Qed.

Theorem incapable_assertion {R E} (view : R -> report) (used : R -> bytes) (is_status : E -> N -> bool) c up uv ext evs (r : R) :
  c_hmac c = None ->
  j_auth view used is_status c up uv ext evs (Some (Ok r)) = true ->
  view r = None /\ (forall k s a, ~ In (EHmac k s, a) evs).
Proof.
  intros Hc Hj.
  destruct (j_auth_ok_inv _ _ _ _ _ _ _ _ _ Hj)
    as (ids & rp & fr & cred & shown & up' & uv' & p & v & upd & results & hm & Hevs & Hfc & Hen & Hupd & Hused & Hrep & Hev).
  assert (results = None /\ hm = []) as [-> ->].
  { destruct results as [rs|]; [|split; [reflexivity|exact Hev]]. cbn [auth_evaluation] in Hev.
    destruct Hev as (hc & ? & ? & ? & ? & Hhc & _). congruence. }
  apply report_eqb_eq in Hrep. split; [exact Hrep|].
  intros k s a Hin. rewrite Hevs, app_nil_r in Hin.
  destruct Hin as [H|[H|Hin]]; try discriminate.
  destruct Hupd as [->|[p' ->]]; [destruct Hin|]. destruct Hin as [H|[]]. discriminate.
Qed.

(** at the WebAuthn level a PRF request to a capable authenticator is always answered: a successful
    registration reports a PRF output (with "enabled" as above) *)
Theorem register_always_reports c domain origin q cd script cr p sh :
  c_hmac c <> None -> client_inputs (opt_bind (rq_ext q) wext_zip) = Some (p, sh) ->
  snd (interp (register c domain origin q cd) script) = Some (Ok cr) ->
  exists out en, cr_prf cr = Some out /\ po_enabled out = Some en.
Proof.
  intros Hcap Hin Hres. pose proof (register_c09 c domain origin q cd script) as Hj. rewrite Hres in Hj.
  unfold j_register in Hj. destruct domain as [rp|e]; [|rewrite j_rejected_ok in Hj; discriminate].
  assert (Hc : capable c = true) by (unfold capable; destruct (c_hmac c); [reflexivity|congruence]).
  rewrite Hc in Hj.
  destruct (registration_ext (opt_bind (rq_ext q) wext_zip) true) as [ext|e] eqn:Hx; [|rewrite j_rejected_ok in Hj; discriminate].
  assert (Hrq : is_some (prf_request ext) = true).
  { unfold client_inputs in Hin.
    assert (G : exists m rq, ext = Some m /\ me_prf m = Some rq).
    { destruct (opt_bind (opt_bind (rq_ext q) wext_zip) we_prf) as [p1|] eqn:P1.
      - injection Hin as <- <-.
        destruct (registration_requests_prf _ p1 true (or_introl (conj eq_refl P1)) _ Hx) as (m & rq & H1 & H2 & _). eauto.
      - destruct (opt_bind (opt_bind (rq_ext q) wext_zip) we_prf_hashed) as [p2|] eqn:P2; [|discriminate]. injection Hin as <- <-.
        destruct (registration_requests_prf _ p2 false (or_intror (conj eq_refl (conj P1 P2))) _ Hx) as (m & rq & H1 & H2 & _). eauto. }
    destruct G as (m & rq & -> & Hm). unfold prf_request, zipped. cbn [opt_bind].
    assert (Hz : mc_ext_zip m = Some m) by (unfold mc_ext_zip; rewrite Hm; destruct (me_hmac_secret m), (me_hmac_secret_mc m); reflexivity).
    rewrite Hz. cbn [opt_bind]. rewrite Hm. reflexivity. }
  destruct (j_reg_ok_inv _ _ _ _ _ _ _ _ Hj)
    as (? & ? & ? & ? & ? & ? & secrets & results & ? & ? & ? & ? & ? & _ & _ & _ & _ & _ & Hrep & _).
  unfold reg_report_ok in Hrep. rewrite Hrq in Hrep.
  replace (is_some (c_hmac c)) with true in Hrep by (destruct (c_hmac c); [reflexivity|congruence]).
  cbn [andb] in Hrep. apply report_eqb_eq in Hrep. unfold view_reg, view_client in Hrep.
  destruct (cr_prf cr) as [out|]; [|discriminate]. cbn [option_map] in Hrep. injection Hrep as He _.
  exists out, (is_some secrets). split; [reflexivity|exact He].
Qed.

(** * 8. The property evaluated on the implementation's observation alone (oracle of the check)
    Written against the request and the recorded call log, not against the model ceremonies: the
    secrets are read back from the log (the passkey handed to [save] / the first credential the lookup
    returned), the verification flag from the logged user check, and every reported result is
    recomputed with the Gallina HMAC-SHA-256 and SHA-256. *)
Definition logged_save (log : trace) : option passkey :=
  match filter (fun ea => is_save (fst ea)) log with
  | (ESave p _ _ _, _) :: _ => Some p
  | _ => None
  end.
Definition logged_found (log : trace) : option passkey :=
  match filter (fun ea => is_find (fst ea)) log with
  | (EFind _ _, AFind r) :: _ => match first_credential r with Ok p => Some p | Err _ => None end
  | _ => None
  end.
(** the verification the LAST user check reported *)
Definition logged_verification (log : trace) : option bool :=
  fold_left (fun acc ea => match ea with (ECheckUser _ _ _, ACheck (Ok (_, v))) => Some v | _ => acc end) log None.

(** expected results: HMAC-SHA-256 of each salt under the key; the second one only when reported *)
Definition results_match (key : bytes) (s1 : bytes) (s2 : option bytes) (first : bytes) (second : option bytes) : bool :=
  beq first (hmac_sha256 key s1)
  && match second, s2 with
     | None, _ => true
     | Some o2, Some x => beq o2 (hmac_sha256 key x)
     | Some _, None => false
     end.

(** the secrets the statement allows: the gated one only for a verified user - and then always at an
    assertion - otherwise the non-gated one (if the credential has it) *)
Definition allowed_keys (creds : bytes * option bytes) (verified registration : bool) : list bytes :=
  (if verified then [fst creds] else [])
  ++ (if negb verified || registration then match snd creds with Some wo => [wo] | None => [] end else []).

Definition was_verified (log : trace) : bool :=
  match logged_verification log with Some true => true | _ => false end.

Definition spec_salts (sh : bool) (v : wprf_values) : option (bytes * option bytes) :=
  if sh || values_len32 v then Some (salt_of sh (wv_first v), option_map (salt_of sh) (wv_second v)) else None.

Definition c09_ok (cs : wcase) : bool :=
  match cs with
  | CRegister c domain origin q cd log qs (Ok cr) =>
      let inputs := client_inputs (opt_bind (rq_ext q) wext_zip) in
      match cr_prf cr with
      | None => negb (capable c && is_some inputs)          (* a capable authenticator always reports *)
                && match logged_save log, c_hmac c with Some p, None => negb (is_some (pk_hmac p)) | _, _ => true end
      | Some out =>
          capable c
          && match logged_save log with
             | None => false
             | Some p =>
                 opt_eqb Bool.eqb (po_enabled out) (Some (is_some (pk_hmac p)))
                 && match po_results out with
                    | None => true
                    | Some ws =>
                        match pk_hmac p, inputs with
                        | Some creds, Some (pi, sh) =>
                            match opt_bind (wp_eval pi) (spec_salts sh) with
                            | Some (s1, s2) =>
                                existsb (fun key => results_match key s1 s2 (wv_first ws) (wv_second ws))
                                        (allowed_keys creds (was_verified log) true)
                            | None => false
                            end
                        | _, _ => false
                        end
                    end
             end
      end
  | CAuthenticate c domain origin q cd log qs (Ok au) =>
      match au_prf au with
      | None => true
      | Some out =>
          capable c
          && match po_results out, logged_found log, client_inputs (aq_ext q) with
             | Some ws, Some cred, Some (pi, sh) =>
                 beq (au_raw_id au) (pk_cred_id cred)
                 && let listed := opt_bind (wp_by_cred pi)
                                    (find (fun kv => match bytes_try_from_str (fst kv) with
                                                     | Some id => beq id (pk_cred_id cred)
                                                     | None => false
                                                     end)) in
                    let chosen := match listed with Some (_, wv) => Some wv | None => wp_eval pi end in
                    match pk_hmac cred with
                    | Some creds =>
                        match opt_bind chosen (spec_salts sh) with
                        | Some (s1, s2) =>
                            existsb (fun key => results_match key s1 s2 (wv_first ws) (wv_second ws))
                                    (allowed_keys creds (was_verified log) false)
                        | None => false
                        end
                    | None => false
                    end
             | _, _, _ => false
             end
      end
  | _ => true
  end.

(** the same at the CTAP2 level (salts are given) *)
Definition c09_ctap_ok (cs : ccase) : bool :=
  match cs with
  | CMake c q log _ _ (Finished (Ok o)) =>
      match mr_prf (mo_fields o) with
      | None => match logged_save log, c_hmac c with Some p, None => negb (is_some (pk_hmac p)) | _, _ => true end
      | Some out =>
          capable c
          && match logged_save log with
             | None => false
             | Some p =>
                 Bool.eqb (pm_enabled out) (is_some (pk_hmac p))
                 && match pm_results out with
                    | None => true
                    | Some rs =>
                        match pk_hmac p, opt_bind (opt_bind (mc_ext q) me_prf) pi_eval with
                        | Some creds, Some ev =>
                            existsb (fun key => results_match key (pv_first ev) (pv_second ev) (pv_first rs) (pv_second rs))
                                    (allowed_keys creds (was_verified log) true)
                        | _, _ => false
                        end
                    end
             end
      end
  | CGet c q log _ _ (Finished (Ok o)) =>
      match gr_prf (go_fields o) with
      | None => true
      | Some rs =>
          capable c
          && match logged_found log, opt_bind (ga_ext q) ge_prf with
             | Some cred, Some rq =>
                 beq (gr_cred_id (go_fields o)) (pk_cred_id cred)
                 && let listed := opt_bind (pi_by_cred rq) (find (fun kv => beq (fst kv) (pk_cred_id cred))) in
                    let chosen := match listed with Some (_, sv) => Some sv | None => pi_eval rq end in
                    match pk_hmac cred, chosen with
                    | Some creds, Some ev =>
                        existsb (fun key => results_match key (pv_first ev) (pv_second ev) (pv_first rs) (pv_second rs))
                                (allowed_keys creds (was_verified log) false)
                    | _, _ => false
                    end
             | _, _ => false
             end
      end
  | _ => true
  end.
