(** Executable model of passkey-authenticator: [Authenticator::{check_user, get_info,
    make_credential, get_assertion}] and the extension processing, transcribed in source order as
    programs over effects.  Status codes are the bytes of the generated table (Wire/gen/Status.v). *)
From PK Require Export Auth.Prog.
From PK Require Export Wire.gen.Status.
Open Scope N_scope.

(** authenticator configuration *)
Record hmac_cfg := { h_without_uv : bool; h_on_mc : bool }.
Record config := {
  c_aaguid : bytes;
  c_algs : list Z;               (* [ES256] *)
  c_counter : bool;              (* make_credentials_with_signature_counter *)
  c_id_len : N;                  (* CredentialIdLength, already clamped by [clamp_id_len] *)
  c_hmac : option hmac_cfg }.

(** [CredentialIdLength::from(u8)] *)
Definition clamp_id_len (v : N) : N := N.max 16 (N.min 64 v).

Definition ES256 : Z := (-7)%Z.

(** flags *)
Definition F_UP : N := 1.
Definition F_UV : N := 4.
Definition F_BE : N := 8.
Definition F_BS : N := 16.
Definition F_AT : N := 64.
Definition F_ED : N := 128.
Definition F_DEFAULT : N := N.lor F_BE F_BS.

(** PRF values *)
Record prf_values := { pv_first : bytes; pv_second : option bytes }.     (* 32-byte salts / outputs *)
Record prf_inputs := { pi_eval : option prf_values; pi_by_cred : option (list (bytes * prf_values)) }.

Record mc_ext_in := { me_hmac_secret : option bool; me_hmac_secret_mc : bool (* is_some *); me_prf : option prf_inputs }.
Record ga_ext_in := { ge_hmac_secret : bool (* is_some *); ge_prf : option prf_inputs }.

Record mc_request := {
  mc_cdh : bytes;
  mc_rp : rp_entity;
  mc_user : user_entity;
  mc_params : list Z;                       (* algorithm identifiers, in order *)
  mc_exclude : option (list bytes);         (* credential ids of the descriptors *)
  mc_ext : option mc_ext_in;
  mc_opts : options;
  mc_pin_auth : bool }.                     (* is_some *)

Record ga_request := {
  ga_rp_id : bytes;
  ga_cdh : bytes;
  ga_allow : option (list bytes);
  ga_ext : option ga_ext_in;
  ga_opts : options;
  ga_pin_auth : bool }.

(** authenticator data as built by the ceremonies (its byte encoding is Wire/AuthData) *)
Record acd := { acd_aaguid : bytes; acd_cred_id : bytes; acd_x : bytes; acd_y : bytes; acd_alg : Z }.
Record auth_data := { ad_rp_id : bytes; ad_flags : N; ad_counter : option N; ad_acd : option acd }.

Record prf_make_out := { pm_enabled : bool; pm_results : option prf_values }.

Record mc_response := { mr_auth_data : auth_data; mr_prf : option prf_make_out }.
Record ga_response := {
  gr_cred_id : bytes;
  gr_auth_data : auth_data;
  gr_signature : bytes;
  gr_user_handle : option bytes;
  gr_prf : option prf_values }.

Record info_response := { i_prf_ext : bool; i_aaguid : bytes; i_rk : bool; i_uv : option bool; i_up : bool }.

Definition is_discoverable (d : discoverability) (rk : bool) : bool :=
  match d with Full => rk | OnlyNonDiscoverable => false | ForcedDiscoverable => true end.

Definition disc_eqb (a b : discoverability) : bool :=
  match a, b with Full, Full | OnlyNonDiscoverable, OnlyNonDiscoverable | ForcedDiscoverable, ForcedDiscoverable => true | _, _ => false end.

Definition opt_is_true (o : option bool) : bool := match o with Some true => true | _ => false end.

(** [Authenticator::check_user] *)
Definition check_user (o : options) (cred : option passkey) : prog (result N N) :=
  let k :=
    r <- ask_user cred (o_up o) (o_uv o) ;;
    match r with
    | Err e => Ret (Err e)
    | Ok (presence, verification) =>
        if o_up o && negb presence then Ret (Err CTAP2_OperationDenied)
        else if o_uv o && negb verification then Ret (Err CTAP2_OperationDenied)
        else Ret (Ok (N.lor (if presence then F_UP else 0) (if verification then F_UV else 0)))
    end in
  if o_uv o then
    v <- verif_enabled ;;
    if negb (opt_is_true v) then Ret (Err CTAP2_UnsupportedOption) else k
  else k.

(** [Authenticator::get_info]: the struct literal evaluates store info, then verification, then
    presence capability *)
Definition get_info (c : config) : prog info_response :=
  d <- store_info ;;
  uv <- verif_enabled ;;
  up <- presence_enabled ;;
  Ret {| i_prf_ext := match c_hmac c with Some _ => true | None => false end;
         i_aaguid := c_aaguid c;
         i_rk := negb (disc_eqb d OnlyNonDiscoverable);
         i_uv := uv; i_up := up |}.

(** [choose_algorithm] *)
Definition choose_algorithm (c : config) (params : list Z) : option Z :=
  List.find (fun a => existsb (Z.eqb a) (c_algs c)) params.

(** [ExtensionInputs::zip_contents] *)
Definition mc_ext_zip (e : mc_ext_in) : option mc_ext_in :=
  match me_hmac_secret e, me_hmac_secret_mc e, me_prf e with
  | None, false, None => None
  | _, _, _ => Some e
  end.
Definition ga_ext_zip (e : ga_ext_in) : option ga_ext_in :=
  match ge_hmac_secret e, ge_prf e with
  | false, None => None
  | _, _ => Some e
  end.

Definition opt_bind {A B} (o : option A) (f : A -> option B) : option B :=
  match o with Some a => f a | None => None end.

(** [make_hmac_secret] *)
Definition make_hmac_secret (c : config) (request : option bool) : prog (option (bytes * option bytes)) :=
  match c_hmac c with
  | None => Ret None
  | Some hc =>
      if negb (opt_is_true request) then Ret None
      else
        w <- rand 32 ;;
        if h_without_uv hc then (wo <- rand 32 ;; Ret (Some (w, Some wo)))
        else Ret (Some (w, None))
  end.

(** [calculate_hmac_secret] *)
Definition calculate_hmac_secret (creds : bytes * option bytes) (salts : prf_values) (hc : hmac_cfg) (uv : bool)
  : prog (result prf_values N) :=
  let go (cred_random : bytes) :=
    o1 <- hmac cred_random (pv_first salts) ;;
    match pv_second salts with
    | Some s2 =>
        if h_without_uv hc then (o2 <- hmac cred_random s2 ;; Ret (Ok {| pv_first := o1; pv_second := Some o2 |}))
        else Ret (Ok {| pv_first := o1; pv_second := None |})
    | None => Ret (Ok {| pv_first := o1; pv_second := None |})
    end in
  if uv then go (fst creds)
  else match snd creds with
       | Some wo => go wo
       | None => Ret (Err CTAP2_UserVerificationBlocked)
       end.

(** [make_prf] *)
Definition make_prf (c : config) (pk_ext : option (bytes * option bytes)) (request : prf_inputs) (uv : bool)
  : prog (result (option prf_make_out) N) :=
  match c_hmac c with
  | None => Ret (Ok None)
  | Some hc =>
      match pk_ext with
      | None => Ret (Ok (Some {| pm_enabled := false; pm_results := None |}))
      | Some creds =>
          match (if h_on_mc hc then pi_eval request else None) with
          | None => Ret (Ok (Some {| pm_enabled := true; pm_results := None |}))
          | Some eval =>
              r <- calculate_hmac_secret creds eval hc uv ;;
              match r with
              | Err e => Ret (Err e)
              | Ok v => Ret (Ok (Some {| pm_enabled := true; pm_results := Some v |}))
              end
          end
      end
  end.

(** [make_extensions]: (credential extensions, unsigned prf output) *)
Definition make_extensions (c : config) (request : option mc_ext_in) (uv : bool)
  : prog (result (option (bytes * option bytes) * option prf_make_out) N) :=
  let request := opt_bind request mc_ext_zip in
  let should_build :=
    opt_bind request (fun r => match me_hmac_secret r with
                               | Some b => Some b
                               | None => Some (match me_prf r with Some _ => true | None => false end)
                               end) in
  hs <- make_hmac_secret c should_build ;;
  match opt_bind request me_prf with
  | None => Ret (Ok (hs, None))
  | Some input =>
      r <- make_prf c hs input uv ;;
      match r with
      | Err e => Ret (Err e)
      | Ok out => Ret (Ok (hs, out))
      end
  end.

(** [Authenticator::make_credential], in three pieces (source order): everything after the rk
    check, everything after the exclude-list check, and the whole ceremony *)
Definition mc_after_rk (c : config) (q : mc_request) (flags : N) (alg : Z) : prog (result mc_response N) :=
  if mc_pin_auth q then Ret (Err CTAP2_UnsupportedOption) else
  cred_id <- rand (c_id_len c) ;;
  kp <- keygen ;;
  let '(d, x, y) := kp in
  ex <- make_extensions c (mc_ext q) (o_uv (mc_opts q)) ;;
  match ex with
  | Err e => Ret (Err e)
  | Ok (cred_ext, unsigned) =>
    disc <- store_info ;;
    let is_rk := is_discoverable disc (o_rk (mc_opts q)) in
    let pk := {| pk_key := {| k_es256 := Z.eqb alg ES256; k_ec2 := true; k_d := Some d; k_x := x; k_y := y |};
                 pk_cred_id := cred_id;
                 pk_rp_id := rp_id (mc_rp q);
                 pk_user_handle := if is_rk then Some (u_id (mc_user q)) else None;
                 pk_counter := if c_counter c then Some 0 else None;
                 pk_hmac := cred_ext |} in
    let ad := {| ad_rp_id := rp_id (mc_rp q);
                 ad_flags := N.lor (N.lor F_DEFAULT flags) F_AT;
                 ad_counter := pk_counter pk;
                 ad_acd := Some {| acd_aaguid := c_aaguid c; acd_cred_id := cred_id;
                                   acd_x := x; acd_y := y; acd_alg := alg |} |} in
    s <- save pk (mc_user q) (mc_rp q) (mc_opts q) ;;
    match s with
    | Err e => Ret (Err e)
    | Ok _ => Ret (Ok {| mr_auth_data := ad; mr_prf := unsigned |})
    end
  end.

Definition mc_after_exclude (c : config) (q : mc_request) (flags : N) : prog (result mc_response N) :=
  (* 2. algorithm *)
  match choose_algorithm c (mc_params q) with
  | None => Ret (Err CTAP2_UnsupportedAlgorithm)
  | Some alg =>
    (* 3.4 rk support *)
    if o_rk (mc_opts q) then
      info <- get_info c ;;
      if negb (i_rk info) then Ret (Err CTAP2_UnsupportedOption) else mc_after_rk c q flags alg
    else mc_after_rk c q flags alg
  end.

Definition mc_after_consent (c : config) (q : mc_request) (flags : N) : prog (result mc_response N) :=
  (* 1. exclude list *)
  match mc_exclude q with
  | Some ((_ :: _) as l) =>
      r <- find_creds (Some l) (rp_id (mc_rp q)) ;;
      match r with
      | Ok (_ :: _) => Ret (Err CTAP2_CredentialExcluded)
      | _ => mc_after_exclude c q flags
      end
  | _ => mc_after_exclude c q flags
  end.

Definition make_credential (c : config) (q : mc_request) : prog (result mc_response N) :=
  if negb (o_up (mc_opts q)) then Ret (Err CTAP2_InvalidOption) else
  fl <- check_user (mc_opts q) None ;;
  match fl with
  | Err e => Ret (Err e)
  | Ok flags => mc_after_consent c q flags
  end.

(** [select_salts] *)
Definition select_salts (cred_id : bytes) (request : prf_inputs) : option prf_values :=
  match opt_bind (pi_by_cred request) (fun l => List.find (fun kv => beq (fst kv) cred_id) l) with
  | Some (_, v) => Some v
  | None => pi_eval request
  end.

(** [get_prf] *)
Definition get_prf (c : config) (cred_id : bytes) (pk_ext : option (bytes * option bytes)) (salts : prf_inputs) (uv : bool)
  : prog (result (option prf_values) N) :=
  match c_hmac c with
  | None => Ret (Ok None)
  | Some hc =>
      match pk_ext with
      | None => Ret (Err U2F_InvalidParameter)
      | Some creds =>
          match select_salts cred_id salts with
          | None => Ret (Ok None)
          | Some request =>
              r <- calculate_hmac_secret creds request hc uv ;;
              match r with
              | Err e => Ret (Err e)
              | Ok v => Ret (Ok (Some v))
              end
          end
      end
  end.

(** [get_extensions] *)
Definition get_extensions (c : config) (pk : passkey) (request : option ga_ext_in) (uv : bool)
  : prog (result (option prf_values) N) :=
  match opt_bind request ga_ext_zip with
  | None => Ret (Ok None)
  | Some ext =>
      match ge_prf ext with
      | None => Ret (Ok None)
      | Some salts => get_prf c (pk_cred_id pk) (pk_hmac pk) salts uv
      end
  end.

(** [private_key_from_cose_key] *)
Definition private_key (k : keymat) : result bytes N :=
  if negb (k_es256 k) then Err CTAP2_UnsupportedAlgorithm
  else if negb (k_ec2 k) then Err CTAP2_InvalidCredential
  else match k_d k with Some d => Ok d | None => Err CTAP2_InvalidCredential end.

(** [u32::saturating_add(1)]; counters are u32, so at the maximum the value stays what it is *)
Definition counter_next (n : N) : N := if n <? 4294967295 then n + 1 else n.

Section Encoders.
(** the byte encoding of authenticator data (Wire/AuthData.v), needed for the signed message *)
Variable ad_bytes : auth_data -> bytes.

(** [Authenticator::get_assertion], in pieces: signing with the (possibly updated) credential,
    everything after consent, the whole ceremony *)
Definition ga_finish (c : config) (q : ga_request) (flags : N) (cred : passkey) : prog (result ga_response N) :=
  ex <- get_extensions c cred (ga_ext q) (negb (N.land flags F_UV =? 0)) ;;
  match ex with
  | Err e => Ret (Err e)
  | Ok prf =>
    let ad := {| ad_rp_id := ga_rp_id q; ad_flags := N.lor F_DEFAULT flags;
                 ad_counter := pk_counter cred; ad_acd := None |} in
    match private_key (pk_key cred) with
    | Err e => Ret (Err e)
    | Ok d =>
        sg <- sign d (ad_bytes ad ++ ga_cdh q) ;;
        Ret (Ok {| gr_cred_id := pk_cred_id cred; gr_auth_data := ad; gr_signature := sg;
                   gr_user_handle := pk_user_handle cred; gr_prf := prf |})
    end
  end.

Definition bump_counter (cred0 : passkey) (n : N) : passkey :=
  {| pk_key := pk_key cred0; pk_cred_id := pk_cred_id cred0; pk_rp_id := pk_rp_id cred0;
     pk_user_handle := pk_user_handle cred0; pk_counter := Some (counter_next n);
     pk_hmac := pk_hmac cred0 |}.

Definition ga_after_consent (c : config) (q : ga_request) (flags : N) (maybe : result passkey N)
  : prog (result ga_response N) :=
  match maybe with
  | Err e => Ret (Err e)
  | Ok cred0 =>
    match pk_counter cred0 with
    | Some n =>
        u <- update (bump_counter cred0 n) ;;
        match u with
        | Err e => Ret (Err e)
        | Ok _ => ga_finish c q flags (bump_counter cred0 n)
        end
    | None => ga_finish c q flags cred0
    end
  end.

Definition first_credential (r : result (list passkey) N) : result passkey N :=
  match r with
  | Err e => Err e
  | Ok [] => Err CTAP2_NoCredentials
  | Ok (p :: _) => Ok p
  end.

Definition get_assertion (c : config) (q : ga_request) : prog (result ga_response N) :=
  let ids := match ga_allow q with Some ((_ :: _) as l) => Some l | _ => None end in
  r <- find_creds ids (ga_rp_id q) ;;
  let maybe := first_credential r in
  if ga_pin_auth q then Ret (Err CTAP2_PinAuthInvalid) else
  if o_rk (ga_opts q) then Ret (Err CTAP2_UnsupportedOption) else
  fl <- check_user (ga_opts q) (match maybe with Ok p => Some p | Err _ => None end) ;;
  match fl with
  | Err e => Ret (Err e)
  | Ok flags => ga_after_consent c q flags maybe
  end.
End Encoders.
