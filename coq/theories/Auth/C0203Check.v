(** C02 / C03: the properties as boolean oracles over ONE observation of the implementation (the
    request, the recorded call log and the returned credential), written from the WebAuthn
    specification's point of view - what a relying party does with the response - and not from the
    model programs of [Client.v]:

    - client data: a reader for the JSON text as far as the property speaks about it
      ([cd_view]: the members type, challenge, origin in that order, strings unescaped per RFC 8259);
    - attestation object: decoded with the CBOR decoder; authenticator data: decoded with the
      independent layout decoder of [Wire/AuthDataSpec.v];
    - "valid P-256 point": the curve equation over [Z].

    Definitions only (they must evaluate when a proof breaks); the theorems that every successful run
    of the model satisfies them are in [C02Facts.v] / [C03Facts.v]. *)
From Coq Require Import ZArith.
From PK Require Import Lib.Check Lib.Sha256 Lib.Base64 Lib.Cbor Wire.AuthDataSpec.
From PK Require Export Auth.ClientCheck.
Open Scope N_scope.

(** *** reading client data JSON *)
Definition hexval (c : N) : option N :=
  if (48 <=? c) && (c <=? 57) then Some (c - 48)
  else if (97 <=? c) && (c <=? 102) then Some (c - 87)
  else if (65 <=? c) && (c <=? 70) then Some (c - 55)
  else None.

(** the character after a backslash (RFC 8259 section 7), except [u] *)
Definition unesc (e : N) : option N :=
  if e =? 34 then Some 34 else if e =? 92 then Some 92 else if e =? 47 then Some 47
  else if e =? 98 then Some 8 else if e =? 102 then Some 12 else if e =? 110 then Some 10
  else if e =? 114 then Some 13 else if e =? 116 then Some 9 else None.

(** the body of a JSON string: the input starts after the opening quote; returns the unescaped
    bytes and what follows the closing quote.  Unescaped control characters are an error; \u escapes
    are read for code points below 128 only (serde_json emits no others; anything else is [None]). *)
Fixpoint read_jstring (s : bytes) : option (bytes * bytes) :=
  match s with
  | [] => None
  | c :: r =>
      if c =? 34 then Some ([], r)
      else if c =? 92 then
        match r with
        | [] => None
        | e :: r1 =>
            if e =? 117 then
              match r1 with
              | h1 :: h2 :: h3 :: h4 :: r2 =>
                  match hexval h1, hexval h2, hexval h3, hexval h4 with
                  | Some a, Some b, Some c', Some d =>
                      let v := ((a * 16 + b) * 16 + c') * 16 + d in
                      if v <? 128 then
                        match read_jstring r2 with Some (t, rest) => Some (v :: t, rest) | None => None end
                      else None
                  | _, _, _, _ => None
                  end
              | _ => None
              end
            else
              match unesc e with
              | Some v => match read_jstring r1 with Some (t, rest) => Some (v :: t, rest) | None => None end
              | None => None
              end
        end
      else if c <? 32 then None
      else match read_jstring r with Some (t, rest) => Some (c :: t, rest) | None => None end
  end.

(** strip a literal prefix *)
Fixpoint expect (p s : bytes) : option bytes :=
  match p with
  | [] => Some s
  | x :: p' => match s with
               | y :: s' => if x =? y then expect p' s' else None
               | [] => None
               end
  end.

(* brace quote type quote colon quote *)
Definition P_TYPE : bytes := [123;34;116;121;112;101;34;58;34].
(* comma quote challenge quote colon quote *)
Definition P_CHALLENGE : bytes := [44;34;99;104;97;108;108;101;110;103;101;34;58;34].
(* comma quote origin quote colon quote *)
Definition P_ORIGIN : bytes := [44;34;111;114;105;103;105;110;34;58;34].
Definition S_CREATE : bytes := [119;101;98;97;117;116;104;110;46;99;114;101;97;116;101].  (* webauthn.create *)
Definition S_GET : bytes := [119;101;98;97;117;116;104;110;46;103;101;116].               (* webauthn.get *)

(** the three members every relying party reads, in the order WebAuthn's serialisation fixes:
    (type, challenge text, origin, rest of the document) *)
Definition cd_view (json : bytes) : option (bytes * bytes * bytes * bytes) :=
  match expect P_TYPE json with
  | None => None
  | Some s1 =>
    match read_jstring s1 with
    | None => None
    | Some (ty, s2) =>
      match expect P_CHALLENGE s2 with
      | None => None
      | Some s3 =>
        match read_jstring s3 with
        | None => None
        | Some (ch, s4) =>
          match expect P_ORIGIN s4 with
          | None => None
          | Some s5 =>
            match read_jstring s5 with
            | None => None
            | Some (og, rest) => Some (ty, ch, og, rest)
            end
          end
        end
      end
    end
  end.

Definition url_alpha (c : N) : bool :=
  ((65 <=? c) && (c <=? 90)) || ((97 <=? c) && (c <=? 122)) || ((48 <=? c) && (c <=? 57)) || (c =? 45) || (c =? 95).

(** type, challenge (unpadded base64url: alphabet only, no '=', decodes to the request's challenge and
    is the canonical encoding of it) and origin *)
Definition cd_ok (ty challenge origin json : bytes) : bool :=
  match cd_view json with
  | Some (t, ch, og, _) =>
      beq t ty && forallb url_alpha ch && opt_eqb beq (b64url_decode ch) (Some challenge)
      && beq ch (b64url_encode challenge) && beq og origin
  | None => false
  end.

(** *** P-256: y^2 = x^3 - 3x + b (mod p), coordinates big-endian *)
Definition P256_P : Z := 0xffffffff00000001000000000000000000000000ffffffffffffffffffffffff%Z.
Definition P256_B : Z := 0x5ac635d8aa3a93e7b3ebbd55769886bc651d06b0cc53b0f63bce3c3e27d2604b%Z.
Definition on_p256 (x y : bytes) : bool :=
  let X := Z.of_N (be_val 0 x) in
  let Y := Z.of_N (be_val 0 y) in
  ((X <? P256_P) && (Y <? P256_P) && (((Y * Y - (X * X * X - 3 * X + P256_B)) mod P256_P) =? 0))%Z.

(** *** pieces of the call log *)
Definition saves (log : list (eff * answer)) : list (passkey * answer) :=
  flat_map (fun ea => match fst ea with ESave p _ _ _ => [(p, snd ea)] | _ => [] end) log.

Fixpoint after_first_save (log : list (eff * answer)) : list (eff * answer) :=
  match log with
  | [] => []
  | (ESave _ _ _ _, _) :: r => r
  | _ :: r => after_first_save r
  end.

(** the trait calls that cannot fail (capability queries) *)
Definition infallible (e : eff) : bool :=
  match e with EStoreInfo | EVerifEnabled | EPresenceEnabled => true | _ => false end.

Fixpoint first_supported (supported params : list Z) : option Z :=
  match params with
  | [] => None
  | a :: r => if existsb (Z.eqb a) supported then Some a else first_supported supported r
  end.

(** WebAuthn's defaults when the relying party sends no list: ES256 then RS256 *)
Definition effective_params (l : list Z) : list Z := match l with [] => [(-7)%Z; (-257)%Z] | _ => l end.

Definition T_fmt : bytes := [102;109;116].
Definition T_none : bytes := [110;111;110;101].
Definition T_attStmt : bytes := [97;116;116;83;116;109;116].
Definition T_authData : bytes := [97;117;116;104;68;97;116;97].

(** the "none" attestation object whose authData is byte-identical to [ad] *)
Definition att_obj_ok (obj ad : bytes) : bool :=
  match cbor_decode cbor_fuel obj with
  | Some (CMap [(CText k1, CText v1); (CText k2, CMap []); (CText k3, CBytes v3)], []) =>
      beq k1 T_fmt && beq v1 T_none && beq k2 T_attStmt && beq k3 T_authData && beq v3 ad
  | _ => false
  end.

(** an ES256 COSE_Key: kty EC2, alg -7, crv P-256 and the two coordinates, nothing else *)
Definition es256_key (key : cbor) : option (bytes * bytes) :=
  match key with
  | CMap [(CInt 1, CInt 2); (CInt 3, CInt (-7)); (CInt (-1), CInt 1); (CInt (-2), CBytes x); (CInt (-3), CBytes y)] =>
      Some (x, y)
  | _ => None
  end.

Definition SPKI_P256 : bytes :=
  [48;89;48;19;6;7;42;134;72;206;61;2;1;6;8;42;134;72;206;61;3;1;7;3;66;0;4].

Definition is_none {A} (o : option A) : bool := match o with None => true | Some _ => false end.

(** *** C02 on one registration *)
Definition c02_created_ok (c : config) (rp origin : bytes) (q : reg_request) (log : list (eff * answer)) (cr : created) : bool :=
  cd_ok S_CREATE (rq_challenge q) origin (cr_client_data_json cr)
  && att_obj_ok (cr_att_obj cr) (cr_auth_data cr)
  && beq (cr_id cr) (b64url_encode (cr_raw_id cr))
  && opt_eqb Z.eqb (first_supported (c_algs c) (effective_params (rq_params q))) (Some (cr_alg cr))
  && match parse_authdata_spec (cr_auth_data cr) with
     | Some f =>
         beq (f_rp_id_hash f) (sha256 rp) && N.testbit (f_flags f) 6
         && match f_acd f with
            | Some (_, id, key) =>
                beq id (cr_raw_id cr)
                && match es256_key key with
                   | Some (x, y) =>
                       Nat.eqb (length x) 32 && Nat.eqb (length y) 32 && on_p256 x y
                       && opt_eqb beq (cr_public_key cr) (Some (SPKI_P256 ++ x ++ y))
                       && Z.eqb (cr_alg cr) (-7)
                       (* exactly one credential handed to the store: the private half of that key, the
                          effective RP ID, the returned id, of the configured length; nothing fallible after it *)
                       && match saves log with
                          | [(p, AUnit (Ok _))] =>
                              beq (pk_cred_id p) (cr_raw_id cr) && beq (pk_rp_id p) rp
                              && beq (k_x (pk_key p)) x && beq (k_y (pk_key p)) y
                              && k_es256 (pk_key p) && k_ec2 (pk_key p)
                              && match k_d (pk_key p) with Some d => Nat.eqb (length d) 32 | None => false end
                              && (N.of_nat (length (cr_raw_id cr)) =? c_id_len c)
                              && forallb (fun ea => infallible (fst ea)) (after_first_save log)
                          | _ => false
                          end
                   | None => false
                   end
            | None => false
            end
     | None => false
     end.

Definition c02_ok (cs : wcase) : bool :=
  match cs with
  | CRegister c domain origin q cd log qs impl =>
      match impl with
      | Ok cr => match domain with Ok rp => c02_created_ok c rp origin q log cr | Err _ => false end
      | Err _ =>
          (* no supported algorithm: nothing is created (a failing registration was required anyway) *)
          match first_supported (c_algs c) (effective_params (rq_params q)) with
          | None => match saves log with [] => true | _ => false end
          | Some _ => true
          end
      end
      && match first_supported (c_algs c) (effective_params (rq_params q)), impl with
         | None, Ok _ => false
         | _, _ => true
         end
  | CAuthenticate _ _ _ _ _ _ _ _ => true
  end.

(** *** C03 on one authentication *)
Definition finds (log : list (eff * answer)) : list (option (list bytes) * bytes * answer) :=
  flat_map (fun ea => match fst ea with EFind ids rp => [(ids, rp, snd ea)] | _ => [] end) log.

(** a user check that reported presence, and verification when it was required *)
Definition consent_given (log : list (eff * answer)) : bool :=
  existsb (fun ea => match ea with
                     | (ECheckUser _ up uv, ACheck (Ok (p, v))) => implb up p && implb uv v
                     | _ => false
                     end) log.

Definition no_credential (a : answer) : bool :=
  match a with
  | AFind (Ok []) => true
  | AFind (Err e) => e =? CTAP2_NoCredentials
  | _ => false
  end.

Definition c03_authenticated_ok (rp origin : bytes) (q : auth_request) (log : list (eff * answer)) (au : authenticated) : bool :=
  cd_ok S_GET (aq_challenge q) origin (au_client_data_json au)
  && beq (au_id au) (b64url_encode (au_raw_id au))
  && match parse_authdata_spec (au_auth_data au) with
     | Some f => beq (f_rp_id_hash f) (sha256 rp) && negb (N.testbit (f_flags f) 6) && is_none (f_acd f)
     | None => false
     end
  (* the lookup was made for the effective RP ID and the credential named is one it returned, whose
     stored user handle is the one reported; with an allow list the id is on it *)
  && match finds log with
     | [(ids, rp', AFind (Ok l))] =>
         beq rp' rp
         && existsb (fun p => beq (pk_cred_id p) (au_raw_id au) && opt_eqb beq (au_user_handle au) (pk_user_handle p)) l
         && match aq_allow q with
            | Some ((_ :: _) as al) => existsb (beq (au_raw_id au)) al
            | _ => true
            end
     | _ => false
     end.

Definition c03_ok (cs : wcase) : bool :=
  match cs with
  | CAuthenticate c domain origin q cd log qs impl =>
      match impl with
      | Ok au => match domain with Ok rp => c03_authenticated_ok rp origin q log au | Err _ => false end
      | Err e =>
          match finds log with
          | [(_, _, a)] => if consent_given log && no_credential a then werr_eqb e WCredentialNotFound else true
          | _ => true
          end
      end
  | CRegister _ _ _ _ _ _ _ _ => true
  end.
