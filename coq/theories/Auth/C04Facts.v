(** C04: no credential is created or used without user consent; flags are truthful.
    The property as a trace monitor ([c04_step], [c04_judge_*]) - which is also the oracle evaluated
    on the implementation's call logs - and the proof that every execution of the model ceremonies,
    for every request, configuration and answer script, satisfies it. *)
From PK Require Import Lib.Check.
From PK Require Export Auth.Monitor Auth.Authenticator Auth.Effects.
Open Scope N_scope.

Record c04s := {
  s_consent : option (bool * bool);        (* presence/verification of a sufficient user check *)
  s_shown : option passkey;                (* credential shown at that check *)
  s_cap : option (option bool);            (* first verification-capability answer *)
  s_checks : nat;                          (* user checks seen *)
  s_viol : bool }.                         (* a mutation or signature before consent *)

Definition c04_init : c04s :=
  {| s_consent := None; s_shown := None; s_cap := None; s_checks := 0; s_viol := false |}.

Definition sufficient (o : options) (p v : bool) : bool := implb (o_up o) p && implb (o_uv o) v.

Definition c04_step (o : options) (s : c04s) (e : eff) (a : answer) : c04s :=
  match e, a with
  | ECheckUser cred _ _, ACheck (Ok (p, v)) =>
      if sufficient o p v
      then {| s_consent := Some (p, v); s_shown := cred; s_cap := s_cap s; s_checks := S (s_checks s); s_viol := s_viol s |}
      else {| s_consent := s_consent s; s_shown := s_shown s; s_cap := s_cap s; s_checks := S (s_checks s); s_viol := s_viol s |}
  | ECheckUser _ _ _, _ =>
      {| s_consent := s_consent s; s_shown := s_shown s; s_cap := s_cap s; s_checks := S (s_checks s); s_viol := s_viol s |}
  | EVerifEnabled, AOptBool c =>
      match s_cap s with
      | None => {| s_consent := s_consent s; s_shown := s_shown s; s_cap := Some c; s_checks := s_checks s; s_viol := s_viol s |}
      | Some _ => s
      end
  | ESave _ _ _ _, _ | EUpdate _, _ | ESign _ _, _ =>
      match s_consent s with
      | Some _ => s
      | None => {| s_consent := None; s_shown := s_shown s; s_cap := s_cap s; s_checks := s_checks s; s_viol := true |}
      end
  | _, _ => s
  end.

(** UP and UV bits set exactly when presence / verification were reported *)
Definition flags_truthful (flags : N) (p v : bool) : bool :=
  Bool.eqb (N.testbit flags 0) p && Bool.eqb (N.testbit flags 2) v.

Definition capability_ok (o : options) (s : c04s) : bool :=
  implb (o_uv o) (match s_cap s with Some (Some true) => true | _ => false end).

Definition c04_judge_mc (o : options) (s : c04s) (res : option (result mc_response N)) : bool :=
  negb (s_viol s) &&
  match res with
  | Some (Ok r) =>
      o_up o && capability_ok o s &&
      match s_consent s with
      | Some (p, v) => flags_truthful (ad_flags (mr_auth_data r)) p v
      | None => false
      end
  | _ => true
  end.

Definition c04_judge_ga (o : options) (s : c04s) (res : option (result ga_response N)) : bool :=
  negb (s_viol s) &&
  match res with
  | Some (Ok r) =>
      capability_ok o s &&
      match s_consent s, s_shown s with
      | Some (p, v), Some c => flags_truthful (ad_flags (gr_auth_data r)) p v && beq (pk_cred_id c) (gr_cred_id r)
      | _, _ => false
      end
  | _ => true
  end.

Arguments N.lor : simpl never.
Arguments N.land : simpl never.
Arguments N.testbit : simpl never.

(** *** Proofs *)

Definition nocheck (e : eff) : bool := match e with ECheckUser _ _ _ => false | _ => true end.

(** the monitor state once a sufficient user check has been answered *)
Definition Consented (o : options) (p v : bool) (shown : option passkey) (s : c04s) : Prop :=
  s_consent s = Some (p, v) /\ s_viol s = false /\ capability_ok o s = true /\ s_shown s = shown.

Lemma Consented_step o p v shown s e a :
  Consented o p v shown s -> nocheck e = true -> Consented o p v shown (c04_step o s e a).
Proof.
  intros (Hc & Hv & Hcap & Hs) He. unfold Consented.
  destruct e; try discriminate He; cbn [c04_step]; try rewrite Hc; auto.
  destruct a; auto. destruct (s_cap s) eqn:Ecap; auto.
  cbn [s_consent s_viol s_shown]. repeat split; auto.
  unfold capability_ok in *. rewrite Ecap in Hcap. cbn [s_cap]. destruct (o_uv o); [discriminate|reflexivity].
Qed.

Lemma nocheck_info e : is_info e = true -> nocheck e = true.
Proof. destruct e; cbn; auto; discriminate. Qed.
Lemma nocheck_rand_hmac e : is_rand_or_hmac e = true -> nocheck e = true.
Proof. destruct e; cbn; auto; discriminate. Qed.

Lemma mc_flags_shape (p v : bool) :
  flags_truthful (N.lor (N.lor F_DEFAULT (N.lor (if p then F_UP else 0) (if v then F_UV else 0))) F_AT) p v = true.
Proof. destruct p, v; reflexivity. Qed.

Lemma ga_flags_shape (p v : bool) :
  flags_truthful (N.lor F_DEFAULT (N.lor (if p then F_UP else 0) (if v then F_UV else 0))) p v = true.
Proof. destruct p, v; reflexivity. Qed.

Section MakeCredential.
Variables (c : config) (q : mc_request).
Let o := mc_opts q.
Let Qmc := fun s res => c04_judge_mc o s res = true.

Lemma mc_cut p v shown s : Consented o p v shown s -> Qmc s None.
Proof. intros (_ & Hv & _). unfold Qmc, c04_judge_mc. rewrite Hv. reflexivity. Qed.

Lemma mc_err p v shown s e : Consented o p v shown s -> Qmc s (Some (Err e)).
Proof. intros (_ & Hv & _). unfold Qmc, c04_judge_mc. rewrite Hv. reflexivity. Qed.

(** a segment that performs no user check, from a consented state *)
Ltac seg p v :=
  apply holdsK_bind;
  apply (holdsK_frame (c04_step o) Qmc (Consented o p v None) nocheck
           (fun s e a => Consented_step o p v None s e a) (mc_cut p v None));
  [ | assumption | ].



Lemma mc_after_rk_ok p v s alg :
  o_up o = true -> Consented o p v None s ->
  holdsK (c04_step o) Qmc (mc_after_rk c q (N.lor (if p then F_UP else 0) (if v then F_UV else 0)) alg) s
         (fun s r => Qmc s (Some r)).
Proof.
  intros Hup Hs. unfold mc_after_rk.
  destruct (mc_pin_auth q); [cbn [holdsK]; eapply mc_err; eassumption|].
  seg p v; [unfold rand; cbn [only nocheck]; split; [reflexivity|intros []; exact I]|].
  intros s1 cred_id Hs1.
  seg p v; [unfold keygen; cbn [only nocheck]; split; [reflexivity|intros []; exact I]|].
  intros s2 [[d x] y] Hs2.
  seg p v; [eapply only_weaken; [apply nocheck_rand_hmac|apply make_extensions_only]|].
  intros s3 [[cred_ext unsigned]|e] Hs3; [|cbn [holdsK]; eapply mc_err; eassumption].
  seg p v; [unfold store_info; cbn [only nocheck]; split; [reflexivity|intros []; exact I]|].
  intros s4 disc Hs4.
  seg p v; [unfold save; cbn [only nocheck]; split; [reflexivity|intros []; exact I]|].
  intros s5 [[]|e] Hs5; cbn [holdsK]; [|eapply mc_err; eassumption].
  destruct Hs5 as (Hc & Hv & Hcap & _).
  unfold Qmc, c04_judge_mc. rewrite Hv, Hc, Hcap, Hup. cbn [negb andb mr_auth_data ad_flags].
  apply mc_flags_shape.
Qed.

Lemma mc_after_consent_ok p v s :
  o_up o = true -> Consented o p v None s ->
  holdsK (c04_step o) Qmc (mc_after_consent c q (N.lor (if p then F_UP else 0) (if v then F_UV else 0))) s
         (fun s r => Qmc s (Some r)).
Proof.
  intros Hup Hs.
  assert (AE : forall s, Consented o p v None s ->
     holdsK (c04_step o) Qmc (mc_after_exclude c q (N.lor (if p then F_UP else 0) (if v then F_UV else 0))) s
            (fun s r => Qmc s (Some r))).
  { clear s Hs. intros s Hs. unfold mc_after_exclude.
    destruct (choose_algorithm c (mc_params q)) as [alg|]; [|cbn [holdsK]; eapply mc_err; eassumption].
    destruct (o_rk (mc_opts q)); [|apply mc_after_rk_ok; assumption].
    seg p v; [eapply only_weaken; [apply nocheck_info|apply get_info_only]|].
    intros s1 info Hs1. destruct (negb (i_rk info)); [cbn [holdsK]; eapply mc_err; eassumption|].
    apply mc_after_rk_ok; assumption. }
  unfold mc_after_consent. destruct (mc_exclude q) as [[|id ids]|]; try (apply AE; assumption).
  seg p v; [unfold find_creds; cbn [only nocheck]; split; [reflexivity|intros []; exact I]|].
  intros s1 r Hs1. destruct r as [[|pk pks]|e]; try (apply AE; assumption).
  cbn [holdsK]. eapply mc_err; eassumption.
Qed.

Theorem make_credential_c04 : holds (c04_step o) Qmc (make_credential c q) c04_init.
Proof.
  unfold holds, make_credential. fold o.
  destruct (o_up o) eqn:Hup; cbn [negb]; [|reflexivity].
  apply holdsK_bind. unfold check_user.
  assert (ASK : forall s, s_consent s = None -> s_viol s = false -> s_shown s = None ->
                 capability_ok o s = true ->
     holdsK (c04_step o) Qmc
       (r <- ask_user None (o_up o) (o_uv o);;
        match r with
        | Ok (presence, verification) =>
            if o_up o && negb presence then Ret (Err CTAP2_OperationDenied)
            else if o_uv o && negb verification then Ret (Err CTAP2_OperationDenied)
            else Ret (Ok (N.lor (if presence then F_UP else 0) (if verification then F_UV else 0)))
        | Err e => Ret (Err e)
        end) s
       (fun s' a => holdsK (c04_step o) Qmc
          match a with Ok flags => mc_after_consent c q flags | Err e => Ret (Err e) end s'
          (fun s r => Qmc s (Some r)))).
  { intros s Hc Hv Hsh Hcap. unfold ask_user. cbn [bind holdsK]. rewrite Hup.
    split; [unfold Qmc, c04_judge_mc; rewrite Hv; reflexivity|].
    intros a. destruct a; cbn [holdsK]; try (unfold Qmc, c04_judge_mc; cbn [c04_step]; rewrite Hv; reflexivity).
    destruct r as [[p v]|e]; cbn [holdsK andb].
    2:{ unfold Qmc, c04_judge_mc. cbn [c04_step s_viol]. rewrite Hv. reflexivity. }
    destruct p; cbn [negb andb holdsK].
    2:{ unfold Qmc, c04_judge_mc. cbn [c04_step]; unfold sufficient. rewrite Hup. cbn [implb andb s_viol]. rewrite Hv. reflexivity. }
    destruct (o_uv o) eqn:Huv, v; cbn [negb andb holdsK].
    2:{ unfold Qmc, c04_judge_mc. cbn [c04_step]; unfold sufficient. rewrite Hup, Huv. cbn [implb andb s_viol]. rewrite Hv. reflexivity. }
    all: apply mc_after_consent_ok; [exact Hup|].
    all: unfold Consented; cbn [c04_step]; unfold sufficient; rewrite Hup, Huv; cbn [implb andb s_consent s_viol s_shown s_cap].
    all: repeat split; auto.
    all: unfold capability_ok in *; rewrite Huv in *; cbn [s_cap]; auto. }
  destruct (o_uv o) eqn:Huv.
  - unfold verif_enabled. cbn [bind holdsK]. split; [reflexivity|].
    intros a. destruct a; cbn [holdsK]; try reflexivity.
    destruct o0 as [[|]|]; cbn [opt_is_true negb holdsK]; try reflexivity.
    apply ASK; try reflexivity. unfold capability_ok. rewrite Huv. reflexivity.
  - apply ASK; try reflexivity. unfold capability_ok. rewrite Huv. reflexivity.
Qed.

End MakeCredential.

(** the consent step itself, for any ceremony (any result type and judgement that accepts errors and
    cuts as long as no violation was recorded) *)
Section CheckUser.
Context {R : Type}.
Variable o : options.
Variable Qr : c04s -> option (result R N) -> Prop.
Hypothesis Qr_cut : forall s, s_viol s = false -> Qr s None.

Lemma check_user_c04 cred s (K : c04s -> result N N -> Prop) :
  s_consent s = None -> s_viol s = false -> s_cap s = None ->
  (forall s' p v, Consented o p v cred s' ->
        K s' (Ok (N.lor (if p then F_UP else 0) (if v then F_UV else 0)))) ->
  (forall s' e, s_viol s' = false -> K s' (Err e)) ->
  holdsK (c04_step o) Qr (check_user o cred) s K.
Proof.
  intros Hc Hv Hcap KOk KErr. unfold check_user.
  assert (ASK : forall s, s_consent s = None -> s_viol s = false -> capability_ok o s = true ->
     holdsK (c04_step o) Qr
       (r <- ask_user cred (o_up o) (o_uv o);;
        match r with
        | Ok (presence, verification) =>
            if o_up o && negb presence then Ret (Err CTAP2_OperationDenied)
            else if o_uv o && negb verification then Ret (Err CTAP2_OperationDenied)
            else Ret (Ok (N.lor (if presence then F_UP else 0) (if verification then F_UV else 0)))
        | Err e => Ret (Err e)
        end) s K).
  { clear s Hc Hv Hcap. intros s Hc Hv Hcap. unfold ask_user. cbn [bind holdsK].
    split; [apply Qr_cut; exact Hv|].
    intros a. destruct a; cbn [holdsK]; try (apply Qr_cut; cbn [c04_step]; exact Hv).
    destruct r as [[p v]|e]; cbn [holdsK].
    2:{ apply KErr. cbn [c04_step s_viol]. exact Hv. }
    destruct (o_up o) eqn:Hup, p; cbn [negb andb holdsK];
      try (apply KErr; cbn [c04_step]; unfold sufficient; rewrite Hup;
           destruct (implb false false && implb (o_uv o) v), (implb true false && implb (o_uv o) v); cbn [s_viol]; exact Hv).
    all: destruct (o_uv o) eqn:Huv, v; cbn [negb andb holdsK];
      try (apply KErr; cbn [c04_step]; unfold sufficient; rewrite Hup, Huv; cbn [implb andb s_viol]; exact Hv).
    all: apply KOk; unfold Consented; cbn [c04_step]; unfold sufficient; rewrite Hup, Huv;
      cbn [implb andb s_consent s_viol s_shown s_cap]; repeat split; auto.
    all: unfold capability_ok in *; rewrite Huv in *; cbn [s_cap]; auto. }
  destruct (o_uv o) eqn:Huv.
  - unfold verif_enabled. cbn [bind holdsK]. split; [apply Qr_cut; exact Hv|].
    intros a. destruct a; cbn [holdsK]; try (apply Qr_cut; cbn [c04_step]; try rewrite Hcap; exact Hv).
    assert (Hv' : s_viol (c04_step o s EVerifEnabled (AOptBool o0)) = false)
      by (cbn [c04_step]; rewrite Hcap; exact Hv).
    destruct o0 as [[|]|]; cbn [opt_is_true negb holdsK]; try (apply KErr; exact Hv').
    apply ASK; [cbn [c04_step]; rewrite Hcap; exact Hc|exact Hv'|].
    unfold capability_ok. rewrite Huv. cbn [c04_step]. rewrite Hcap. reflexivity.
  - apply ASK; try assumption. unfold capability_ok. rewrite Huv. reflexivity.
Qed.
End CheckUser.

Section GetAssertion.
Variable ad_bytes : auth_data -> bytes.
Variables (c : config) (q : ga_request).
Let o := ga_opts q.
Let Qga := fun s res => c04_judge_ga o s res = true.

Lemma ga_cut s : s_viol s = false -> Qga s None.
Proof. intros Hv. unfold Qga, c04_judge_ga. rewrite Hv. reflexivity. Qed.
Lemma ga_err s e : s_viol s = false -> Qga s (Some (Err e)).
Proof. intros Hv. unfold Qga, c04_judge_ga. rewrite Hv. reflexivity. Qed.

Ltac gseg p v sh :=
  apply holdsK_bind;
  apply (holdsK_frame (c04_step o) Qga (Consented o p v sh) nocheck
           (fun s e a => Consented_step o p v sh s e a)
           (fun s (H : Consented o p v sh s) => ga_cut s (proj1 (proj2 H))));
  [ | assumption | ].

Lemma ga_finish_ok p v cred0 cred s :
  pk_cred_id cred = pk_cred_id cred0 -> Consented o p v (Some cred0) s ->
  holdsK (c04_step o) Qga (ga_finish ad_bytes c q (N.lor (if p then F_UP else 0) (if v then F_UV else 0)) cred) s
         (fun s r => Qga s (Some r)).
Proof.
  intros Hid Hs. unfold ga_finish.
  gseg p v (Some cred0); [eapply only_weaken; [apply nocheck_rand_hmac|apply get_extensions_only]|].
  intros s1 [prf|e] Hs1; [|cbn [holdsK]; apply ga_err; apply Hs1].
  destruct (private_key (pk_key cred)) as [d|e]; [|cbn [holdsK]; apply ga_err; apply Hs1].
  gseg p v (Some cred0); [unfold sign; cbn [only nocheck]; split; [reflexivity|intros []; exact I]|].
  intros s2 sg (Hc & Hv & Hcap & Hsh). cbn [holdsK].
  unfold Qga, c04_judge_ga. rewrite Hv, Hc, Hcap, Hsh. cbn [negb andb gr_auth_data ad_flags gr_cred_id].
  rewrite ga_flags_shape, Hid, beq_refl. reflexivity.
Qed.

Theorem get_assertion_c04 : holds (c04_step o) Qga (get_assertion ad_bytes c q) c04_init.
Proof.
  unfold holds, get_assertion. fold o.
  apply holdsK_bind. unfold find_creds. cbn [holdsK]. split; [reflexivity|].
  intros a. destruct a; cbn [holdsK]; try reflexivity.
  destruct (ga_pin_auth q); [cbn [holdsK]; reflexivity|].
  destruct (o_rk o); [cbn [holdsK]; reflexivity|].
  apply holdsK_bind.
  apply (check_user_c04 o Qga ga_cut); try reflexivity.
  - intros s p v Hs. unfold ga_after_consent.
    destruct (first_credential r) as [cred0|e]; [|cbn [holdsK]; apply ga_err; apply Hs].
    destruct (pk_counter cred0) as [n|]; [|apply (ga_finish_ok p v cred0); [reflexivity|exact Hs]].
    gseg p v (Some cred0); [unfold update; cbn [only nocheck]; split; [reflexivity|intros []; exact I]|].
    intros s1 [[]|e] Hs1; [|cbn [holdsK]; apply ga_err; apply Hs1].
    apply (ga_finish_ok p v cred0); [reflexivity|exact Hs1].
  - intros s e Hv. cbn [holdsK]. apply ga_err. exact Hv.
Qed.
End GetAssertion.

(** *** The theorems for all answer scripts *)
Theorem c04_make_credential c q script :
  c04_judge_mc (mc_opts q)
    (run_monitor (c04_step (mc_opts q)) c04_init (fst (interp (make_credential c q) script)))
    (snd (interp (make_credential c q) script)) = true.
Proof. apply (holds_sound (c04_step (mc_opts q)) (fun s r => c04_judge_mc (mc_opts q) s r = true)). apply make_credential_c04. Qed.

Theorem c04_get_assertion ad_bytes c q script :
  c04_judge_ga (ga_opts q)
    (run_monitor (c04_step (ga_opts q)) c04_init (fst (interp (get_assertion ad_bytes c q) script)))
    (snd (interp (get_assertion ad_bytes c q) script)) = true.
Proof. apply (holds_sound (c04_step (ga_opts q)) (fun s r => c04_judge_ga (ga_opts q) s r = true)). apply get_assertion_c04. Qed.

(** what the monitor's violation bit means, in plain terms: it stays clear iff every store
    mutation and every signature in the trace comes after a sufficient user check *)
Definition consent_event (o : options) (ea : eff * answer) : bool :=
  match ea with
  | (ECheckUser _ _ _, ACheck (Ok (p, v))) => sufficient o p v
  | _ => false
  end.
Definition guarded_event (ea : eff * answer) : bool :=
  match fst ea with ESave _ _ _ _ | EUpdate _ | ESign _ _ => true | _ => false end.

Fixpoint consent_first (o : options) (consented : bool) (tr : trace) : bool :=
  match tr with
  | [] => true
  | ea :: r => (negb (guarded_event ea) || consented) && consent_first o (consented || consent_event o ea) r
  end.

Lemma viol_meaning o tr : forall s,
  s_viol (run_monitor (c04_step o) s tr) = false <->
  s_viol s = false /\ consent_first o (match s_consent s with Some _ => true | None => false end) tr = true.
Proof.
  induction tr as [|[e a] tr IH]; intros s; cbn [run_monitor fold_left consent_first fst snd].
  - tauto.
  - fold (run_monitor (c04_step o) (c04_step o s e a) tr). rewrite IH. clear IH.
    destruct s as [cons sh cap chk viol].
    assert (G : forall b, consent_first o (b || false) tr = consent_first o b tr) by (intros []; reflexivity).
    assert (G' : forall b, consent_first o (b || true) tr = consent_first o true tr) by (intros []; reflexivity).
    Ltac fin := cbn [negb orb andb s_viol s_consent];
                solve [ split; intros [H1 H2]; try discriminate H1; try discriminate H2; split; assumption ].
    destruct e; cbn [c04_step guarded_event consent_event fst negb orb andb s_viol s_consent s_cap s_shown s_checks];
      rewrite ?G; try (destruct cons; fin).
    + (* EVerifEnabled *)
      destruct a; try (destruct cons; fin).
      destruct cap; cbn [s_viol s_consent]; destruct cons; fin.
    + (* ECheckUser *)
      destruct a; rewrite ?G; try (destruct cons; fin).
      destruct r as [[p v]|]; rewrite ?G; [|destruct cons; fin].
      destruct (sufficient o p v); rewrite ?G, ?G'; destruct cons; fin.
Qed.
