(** Case type and correspondence checks for the WebAuthn client level (Client::register /
    Client::authenticate). *)
From PK Require Import Lib.Check Lib.Sha256 Lib.Hmac.
From PK Require Export Auth.Client Auth.CeremonyCheck.
Open Scope N_scope.

Definition werr_eqb (a b : werr) : bool :=
  match a, b with
  | WCredentialIdTooLong, WCredentialIdTooLong | WOriginMissingDomain, WOriginMissingDomain
  | WOriginRpMissmatch, WOriginRpMissmatch | WUnprotectedOrigin, WUnprotectedOrigin
  | WInsecureLocalhostNotAllowed, WInsecureLocalhostNotAllowed | WCredentialNotFound, WCredentialNotFound
  | WInvalidRpId, WInvalidRpId | WNotSupportedError, WNotSupportedError | WSyntaxError, WSyntaxError
  | WValidationError, WValidationError => true
  | WAuthenticatorError x, WAuthenticatorError y => x =? y
  | _, _ => false
  end.

Definition wvalues_eqb (a b : wprf_values) : bool :=
  beq (wv_first a) (wv_first b) && opt_eqb beq (wv_second a) (wv_second b).
Definition prf_out_eqb (a b : prf_client_out) : bool :=
  opt_eqb Bool.eqb (po_enabled a) (po_enabled b) && opt_eqb wvalues_eqb (po_results a) (po_results b).

Definition created_eqb (a b : created) : bool :=
  beq (cr_id a) (cr_id b) && beq (cr_raw_id a) (cr_raw_id b)
  && beq (cr_client_data_json a) (cr_client_data_json b) && beq (cr_auth_data a) (cr_auth_data b)
  && opt_eqb beq (cr_public_key a) (cr_public_key b) && Z.eqb (cr_alg a) (cr_alg b)
  && beq (cr_att_obj a) (cr_att_obj b)
  && opt_eqb (opt_eqb Bool.eqb) (cr_cred_props a) (cr_cred_props b)
  && opt_eqb prf_out_eqb (cr_prf a) (cr_prf b).

Definition authenticated_eqb (a b : authenticated) : bool :=
  beq (au_id a) (au_id b) && beq (au_raw_id a) (au_raw_id b)
  && beq (au_client_data_json a) (au_client_data_json b) && beq (au_auth_data a) (au_auth_data b)
  && beq (au_signature a) (au_signature b) && opt_eqb beq (au_user_handle a) (au_user_handle b)
  && opt_eqb prf_out_eqb (au_prf a) (au_prf b).

Inductive wcase :=
| CRegister (c : config) (domain : result bytes werr) (origin : bytes) (q : reg_request) (cd : cd_mode)
            (log : list (eff * answer)) (qs : queues) (impl : result created werr)
| CAuthenticate (c : config) (domain : result bytes werr) (origin : bytes) (q : auth_request) (cd : cd_mode)
            (log : list (eff * answer)) (qs : queues) (impl : result authenticated werr).

Definition wagree (cs : wcase) : bool :=
  match cs with
  | CRegister c domain origin q cd log qs impl =>
      match replay (register c domain origin q cd) log qs 0, impl with
      | RDone (Ok r) _, Ok o => created_eqb r o
      | RDone (Err e) _, Err e' => werr_eqb e e'
      | _, _ => false
      end
  | CAuthenticate c domain origin q cd log qs impl =>
      match replay (authenticate c domain origin q cd) log qs 0, impl with
      | RDone (Ok r) _, Ok o => authenticated_eqb r o
      | RDone (Err e) _, Err e' => werr_eqb e e'
      | _, _ => false
      end
  end.

(** every HMAC the model asks for was answered with HMAC-SHA-256 of the secret and salt the model selects *)
Definition wprf_ok (cs : wcase) : bool :=
  match cs with
  | CRegister c domain origin q cd log qs (Ok _) =>
      match replay (register c domain origin q cd) log qs 0 with RDone _ ev => hmac_events_ok ev | _ => true end
  | CAuthenticate c domain origin q cd log qs (Ok _) =>
      match replay (authenticate c domain origin q cd) log qs 0 with RDone _ ev => hmac_events_ok ev | _ => true end
  | _ => true
  end.
