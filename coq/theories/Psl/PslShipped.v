(** The shipped table (generated from tld_list.rs) as a [table] of the model, and the shipped rules. *)
From PK Require Import Lib.Bytes Psl.PslSpec Psl.PslModel.
From PK Require Psl.gen.PslTable Psl.gen.PslRules.

Definition TABLE : table := {|
  NODES_BITS_CHILDREN := PslTable.NODES_BITS_CHILDREN;
  NODES_BITS_ICANN := PslTable.NODES_BITS_ICANN;
  NODES_BITS_TEXT_OFFSET := PslTable.NODES_BITS_TEXT_OFFSET;
  NODES_BITS_TEXT_LENGTH := PslTable.NODES_BITS_TEXT_LENGTH;
  CHILDREN_BITS_WILDCARD := PslTable.CHILDREN_BITS_WILDCARD;
  CHILDREN_BITS_NODE_TYPE := PslTable.CHILDREN_BITS_NODE_TYPE;
  CHILDREN_BITS_HI := PslTable.CHILDREN_BITS_HI;
  CHILDREN_BITS_LO := PslTable.CHILDREN_BITS_LO;
  NODE_TYPE_NORMAL := PslTable.NODE_TYPE_NORMAL;
  NODE_TYPE_EXCEPTION := PslTable.NODE_TYPE_EXCEPTION;
  NUM_TLD := PslTable.NUM_TLD;
  TEXT := arr_of_list PslTable.TEXT;
  NODES := arr_of_list PslTable.NODES;
  CHILDREN := arr_of_list PslTable.CHILDREN
|}.

Definition RULES : list rule := PslRules.RULES.
