(** Proofs about the model of public-suffix/src/lib.rs (Psl/PslModel.v):
    A. the trie-backed constant arrays index and slice like the list they were built from;
    B. [find] (binary search) on a strictly sorted range;
    C. strings and labels: [split_dot], [join_dot], [rfind_dot];
    D. [string_label_refinement]: the index/slice loop = the label-level loop on [split '.'];
    E. the label-level loop on the table = the abstract trie walk of PslWalk.v on the decoded table;
    F. the theorems for any table that passes the boolean check [table_ok] against a rule list. *)
From Coq Require Import FMapPositive ZArith ZifyBool ZifyNat ZifyN Lia.
From PK Require Import Lib.Bytes Psl.PslSpec Psl.PslModel Psl.PslWalk.
Open Scope N_scope.
Ltac Zify.zify_post_hook ::= Z.div_mod_to_equations.

(** * A. arrays *)
Lemma fill_find {A} (l : list A) : forall i m k,
  PositiveMap.find k (fill l i m) =
    if (k <? i)%positive then PositiveMap.find k m
    else match nth_error l (Pos.to_nat k - Pos.to_nat i) with
         | Some x => Some x
         | None => PositiveMap.find k m
         end.
Proof.
  induction l as [|x r IH]; intros i m k; cbn [fill].
  - destruct (k <? i)%positive; [reflexivity|]. destruct (Pos.to_nat k - Pos.to_nat i)%nat; reflexivity.
  - rewrite IH. destruct (Pos.ltb_spec k i) as [Hlt|Hge].
    + replace (k <? Pos.succ i)%positive with true by (symmetry; apply Pos.ltb_lt; lia).
      apply PositiveMap.gso. lia.
    + destruct (Pos.eq_dec k i) as [->|Hne].
      * replace (i <? Pos.succ i)%positive with true by (symmetry; apply Pos.ltb_lt; lia).
        rewrite PositiveMap.gss. replace (Pos.to_nat i - Pos.to_nat i)%nat with O by lia. reflexivity.
      * replace (k <? Pos.succ i)%positive with false by (symmetry; apply Pos.ltb_ge; lia).
        replace (Pos.to_nat k - Pos.to_nat i)%nat with (S (Pos.to_nat k - Pos.to_nat (Pos.succ i))) by lia.
        cbn [nth_error]. rewrite PositiveMap.gso by exact Hne. reflexivity.
Qed.

Lemma find_of_list {A} (l : list A) i :
  PositiveMap.find (N.succ_pos i) (a_map (arr_of_list l)) = nth_error l (N.to_nat i).
Proof.
  unfold arr_of_list; cbn [a_map]. rewrite fill_find.
  replace (N.succ_pos i <? 1)%positive with false by (symmetry; apply Pos.ltb_ge; lia).
  replace (Pos.to_nat (N.succ_pos i) - Pos.to_nat 1)%nat with (N.to_nat i) by (rewrite N.succ_pos_spec; lia).
  rewrite PositiveMap.gempty. destruct (nth_error l (N.to_nat i)); reflexivity.
Qed.

(** [a[i]] on the array is [a[i]] on the list: the element if [i < len], a panic otherwise *)
Theorem index_of_list {A} (l : list A) i :
  index (arr_of_list l) i = match nth_error l (N.to_nat i) with Some x => Val x | None => Panic end.
Proof. unfold index. rewrite find_of_list. reflexivity. Qed.

Lemma skipn_nth_error {A} (l : list A) : forall i,
  skipn i l = match nth_error l i with Some x => x :: skipn (S i) l | None => [] end.
Proof.
  induction l as [|y l IH]; intros [|i]; try reflexivity.
  cbn [nth_error]. rewrite <- IH. reflexivity.
Qed.

Lemma read_of_list {A} (l : list A) : forall n i,
  read (arr_of_list l) i n = firstn n (skipn (N.to_nat i) l).
Proof.
  induction n as [|n IH]; intros i; cbn [read]; [reflexivity|].
  rewrite find_of_list, (skipn_nth_error l (N.to_nat i)).
  destruct (nth_error l (N.to_nat i)); [|reflexivity].
  cbn [firstn]. rewrite IH. replace (N.to_nat (i + 1)) with (S (N.to_nat i)) by lia. reflexivity.
Qed.

(** [&a[offset..][..length]] on the array is the same slicing of the list, with the same panics *)
Theorem slice_of_list (l : bytes) offset length :
  slice (arr_of_list l) offset length =
    match slice_from l (N.to_nat offset) with
    | Val t => slice_to t (N.to_nat length)
    | Panic => Panic
    end.
Proof.
  unfold slice, slice_from, slice_to. cbn [a_len arr_of_list].
  destruct (N.leb_spec offset (N.of_nat (List.length l))) as [H1|H1].
  - replace (N.to_nat offset <=? List.length l)%nat with true by (symmetry; apply Nat.leb_le; lia).
    rewrite skipn_length.
    destruct (N.leb_spec length (N.of_nat (List.length l) - offset)) as [H2|H2].
    + replace (N.to_nat length <=? List.length l - N.to_nat offset)%nat with true by (symmetry; apply Nat.leb_le; lia).
      rewrite read_of_list. reflexivity.
    + replace (N.to_nat length <=? List.length l - N.to_nat offset)%nat with false by (symmetry; apply Nat.leb_gt; lia).
      reflexivity.
  - replace (N.to_nat offset <=? List.length l)%nat with false by (symmetry; apply Nat.leb_gt; lia).
    reflexivity.
Qed.

(** * B. the order on strings and the binary search *)
Lemma beq_spec a b : reflect (a = b) (beq a b).
Proof. apply iff_reflect. symmetry. apply beq_eq. Qed.

Lemma blt_irrefl a : blt a a = false.
Proof.
  induction a as [|x a IH]; cbn [blt]; [reflexivity|].
  rewrite N.ltb_irrefl, N.eqb_refl, IH. reflexivity.
Qed.

Lemma blt_trans a : forall b c, blt a b = true -> blt b c = true -> blt a c = true.
Proof.
  induction a as [|x a IH]; intros [|y b] [|z c]; cbn [blt]; try congruence; intros H1 H2.
  apply orb_true_iff in H1. apply orb_true_iff in H2. apply orb_true_iff.
  destruct H1 as [H1|H1], H2 as [H2|H2].
  - left. lia.
  - apply andb_true_iff in H2 as [H2 _]. left. lia.
  - apply andb_true_iff in H1 as [H1 _]. left. lia.
  - apply andb_true_iff in H1 as [H1 H1']. apply andb_true_iff in H2 as [H2 H2'].
    right. apply andb_true_iff. split; [lia|]. eapply IH; eauto.
Qed.

Lemma blt_total a : forall b, blt a b = false -> beq a b = false -> blt b a = true.
Proof.
  induction a as [|x a IH]; intros [|y b]; cbn [blt beq]; try congruence; intros H1 H2.
  apply orb_false_iff in H1 as [H1 H1'].
  destruct (N.eqb_spec x y) as [->|Hne].
  - cbn [andb] in *. rewrite N.ltb_irrefl, N.eqb_refl. cbn [orb andb]. apply IH; assumption.
  - apply orb_true_iff. left. lia.
Qed.

Lemma blt_neq a b : blt a b = true -> a <> b.
Proof. intros H ->. rewrite blt_irrefl in H. discriminate. Qed.

(** The loop of [find] on a range whose labels are readable and strictly increasing: it returns the
    (unique) index carrying the label, or [None] when there is none; it never panics. *)
Lemma find_loop_spec T (lab : N -> bytes) label : forall fuel lo hi,
  (forall i, lo <= i < hi -> node_label T i = Val (lab i)) ->
  (forall i j, lo <= i -> i < j -> j < hi -> blt (lab i) (lab j) = true) ->
  (N.to_nat (hi - lo) < fuel)%nat ->
  (exists f, find_loop T fuel label lo hi = Val (Some f) /\ lo <= f < hi /\ lab f = label)
  \/ (find_loop T fuel label lo hi = Val None /\ forall i, lo <= i < hi -> lab i <> label).
Proof.
  induction fuel as [|fuel IH]; intros lo hi Hlab Hsorted Hfuel; [lia|].
  cbn [find_loop]. destruct (N.ltb_spec lo hi) as [Hlt|Hge].
  2:{ right. split; [reflexivity|]. intros i Hi. lia. }
  set (mid := lo + (hi - lo) / 2).
  assert (Hmid : lo <= mid < hi) by (unfold mid; lia).
  rewrite (Hlab mid Hmid).
  destruct (blt (lab mid) label) eqn:Hb.
  - destruct (IH (mid + 1) hi) as [(f & Hf & Hr & Hl)|(Hf & Hn)].
    + intros i Hi. apply Hlab. lia.
    + intros i j H1 H2 H3. apply Hsorted; lia.
    + lia.
    + left. exists f. split; [exact Hf|]. split; [lia|exact Hl].
    + right. split; [exact Hf|]. intros i Hi.
      destruct (N.ltb_spec mid i) as [Hmi|Hmi]; [apply Hn; lia|].
      intros E. destruct (N.eq_dec i mid) as [->|Hne].
      * rewrite E, blt_irrefl in Hb. discriminate.
      * assert (Hlt' : blt (lab i) (lab mid) = true) by (apply Hsorted; lia).
        rewrite E in Hlt'. pose proof (blt_trans _ _ _ Hlt' Hb) as Hc. rewrite blt_irrefl in Hc. discriminate.
  - destruct (beq_spec (lab mid) label) as [He|Hne].
    + left. exists mid. split; [reflexivity|]. split; [exact Hmid|exact He].
    + assert (Hgt : blt label (lab mid) = true).
      { apply blt_total; [exact Hb|]. destruct (beq_spec (lab mid) label); congruence. }
      destruct (IH lo mid) as [(f & Hf & Hr & Hl)|(Hf & Hn)].
      * intros i Hi. apply Hlab. lia.
      * intros i j H1 H2 H3. apply Hsorted; lia.
      * lia.
      * left. exists f. split; [exact Hf|]. split; [lia|exact Hl].
      * right. split; [exact Hf|]. intros i Hi.
        destruct (N.ltb_spec i mid) as [Hmi|Hmi]; [apply Hn; lia|].
        intros E. destruct (N.eq_dec i mid) as [->|Hne'].
        -- congruence.
        -- assert (Hlt' : blt (lab mid) (lab i) = true) by (apply Hsorted; lia).
           rewrite E in Hlt'. pose proof (blt_trans _ _ _ Hgt Hlt') as Hc. rewrite blt_irrefl in Hc. discriminate.
Qed.

(** * C. strings and labels *)
Definition nodot (l : bytes) : Prop := ~ In DOT l.

Lemma split_dot_cons_nodot c r : (c =? DOT) = false ->
  exists l ls, split_dot r = l :: ls /\ split_dot (c :: r) = (c :: l) :: ls.
Proof.
  intros Hc. cbn [split_dot]. rewrite Hc.
  assert (H : split_dot r <> []) by (destruct r as [|c' r']; cbn [split_dot]; [discriminate|];
    destruct (c' =? DOT); [discriminate|]; destruct (split_dot r'); discriminate).
  destruct (split_dot r) as [|l ls]; [congruence|]. exists l, ls. split; reflexivity.
Qed.

Lemma split_dot_nonempty s : split_dot s <> [].
Proof.
  destruct s as [|c r]; cbn [split_dot]; [discriminate|].
  destruct (c =? DOT); [discriminate|]. destruct (split_dot r); discriminate.
Qed.

Lemma split_dot_nodot s : Forall nodot (split_dot s).
Proof.
  induction s as [|c r IH]; [repeat constructor; intros []|].
  destruct (N.eqb_spec c DOT) as [->|Hne].
  - cbn [split_dot]. rewrite N.eqb_refl. constructor; [intros []|exact IH].
  - destruct (split_dot_cons_nodot c r) as (l & ls & E1 & E2); [now apply N.eqb_neq|].
    rewrite E2. rewrite E1 in IH. inversion IH as [|? ? Hl Hls]; subst.
    constructor; [|exact Hls]. intros [E|Hin]; [congruence|exact (Hl Hin)].
Qed.

Lemma join_split s : join_dot (split_dot s) = s.
Proof.
  induction s as [|c r IH]; [reflexivity|].
  destruct (N.eqb_spec c DOT) as [->|Hne].
  - cbn [split_dot]. rewrite N.eqb_refl. pose proof (split_dot_nonempty r) as Hn.
    destruct (split_dot r) as [|l ls] eqn:E; [congruence|]. cbn [join_dot app]. cbn [join_dot] in IH.
    rewrite IH. reflexivity.
  - destruct (split_dot_cons_nodot c r) as (l & ls & E1 & E2); [now apply N.eqb_neq|].
    rewrite E2. rewrite E1 in IH. destruct ls as [|l2 ls]; cbn [join_dot] in *; [congruence|].
    rewrite <- IH. reflexivity.
Qed.

Lemma join_dot_cons l ls : ls <> [] -> join_dot (l :: ls) = l ++ DOT :: join_dot ls.
Proof. destruct ls; [congruence|reflexivity]. Qed.

Lemma join_dot_app a : forall b, a <> [] -> b <> [] ->
  join_dot (a ++ b) = join_dot a ++ DOT :: join_dot b.
Proof.
  induction a as [|x a IH]; intros b Ha Hb; [congruence|].
  destruct a as [|y a].
  - cbn [app]. rewrite join_dot_cons by exact Hb. reflexivity.
  - change ((x :: y :: a) ++ b) with (x :: ((y :: a) ++ b)).
    rewrite join_dot_cons by (cbn; discriminate). rewrite IH by (auto; discriminate).
    rewrite (join_dot_cons x (y :: a)) by discriminate. rewrite <- app_assoc. reflexivity.
Qed.

Lemma rfind_nodot l : nodot l -> rfind_dot l = None.
Proof.
  induction l as [|c r IH]; intros H; [reflexivity|]. cbn [rfind_dot].
  rewrite IH by (intros Hin; apply H; now right).
  destruct (N.eqb_spec c DOT) as [E|_]; [|reflexivity]. exfalso. apply H. now left.
Qed.

Lemma rfind_app a : forall l, nodot l -> rfind_dot (a ++ DOT :: l) = Some (length a).
Proof.
  induction a as [|c a IH]; intros l H.
  - cbn [app rfind_dot length]. rewrite rfind_nodot by exact H. rewrite N.eqb_refl. reflexivity.
  - cbn [app rfind_dot length]. rewrite IH by exact H. reflexivity.
Qed.

Lemma skipn_app_exact {A} (a b : list A) : skipn (length a) (a ++ b) = b.
Proof. induction a; cbn; auto. Qed.
Lemma firstn_app_exact {A} (a b : list A) : firstn (length a) (a ++ b) = a.
Proof. induction a; cbn; congruence. Qed.
