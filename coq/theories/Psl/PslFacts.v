(** Proofs about the model of public-suffix/src/lib.rs (Psl/PslModel.v):
    A. the trie-backed constant arrays index and slice like the list they were built from;
    B. [find] (binary search) on a strictly sorted range;
    C. strings and labels: [split_dot], [join_dot], [rfind_dot];
    D. [string_label_refinement]: the index/slice loop = the label-level loop on [split '.'];
    E. the label-level loop on the table = the abstract trie walk of PslWalk.v on the decoded table;
    F. the theorems for any table that passes the boolean check [table_ok] against a rule list. *)
From Coq Require Import FMapPositive ZArith ZifyBool ZifyNat ZifyN Lia.
From PK Require Import Lib.Bytes Lib.Check Psl.PslSpec Psl.PslModel Psl.PslWalk.
Open Scope N_scope.
Ltac Zify.zify_post_hook ::= Z.div_mod_to_equations.

(** * A. arrays *)
Lemma fill_find {A} (l : list A) : forall i m k,
  PositiveMap.find k (fill l i m) =
    if (k <? i)%positive then PositiveMap.find k m
    else match nth_error l (Pos.to_nat k - Pos.to_nat i) with
         | Some x => Some x
         | None => PositiveMap.find k m
         end.
Proof.
  induction l as [|x r IH]; intros i m k; cbn [fill].
  - destruct (k <? i)%positive; [reflexivity|]. destruct (Pos.to_nat k - Pos.to_nat i)%nat; reflexivity.
  - rewrite IH. destruct (Pos.ltb_spec k i) as [Hlt|Hge].
    + replace (k <? Pos.succ i)%positive with true by (symmetry; apply Pos.ltb_lt; lia).
      apply PositiveMap.gso. lia.
    + destruct (Pos.eq_dec k i) as [->|Hne].
      * replace (i <? Pos.succ i)%positive with true by (symmetry; apply Pos.ltb_lt; lia).
        rewrite PositiveMap.gss. replace (Pos.to_nat i - Pos.to_nat i)%nat with O by lia. reflexivity.
      * replace (k <? Pos.succ i)%positive with false by (symmetry; apply Pos.ltb_ge; lia).
        replace (Pos.to_nat k - Pos.to_nat i)%nat with (S (Pos.to_nat k - Pos.to_nat (Pos.succ i))) by lia.
        cbn [nth_error]. rewrite PositiveMap.gso by exact Hne. reflexivity.
Qed.

Lemma find_of_list {A} (l : list A) i :
  PositiveMap.find (N.succ_pos i) (a_map (arr_of_list l)) = nth_error l (N.to_nat i).
Proof.
  unfold arr_of_list; cbn [a_map]. rewrite fill_find.
  replace (N.succ_pos i <? 1)%positive with false by (symmetry; apply Pos.ltb_ge; lia).
  replace (Pos.to_nat (N.succ_pos i) - Pos.to_nat 1)%nat with (N.to_nat i) by (pose proof (N.succ_pos_spec i); lia).
  rewrite PositiveMap.gempty. destruct (nth_error l (N.to_nat i)); reflexivity.
Qed.

(** [a[i]] on the array is [a[i]] on the list: the element if [i < len], a panic otherwise *)
Theorem index_of_list {A} (l : list A) i :
  index (arr_of_list l) i = match nth_error l (N.to_nat i) with Some x => Val x | None => Panic end.
Proof. unfold index. rewrite find_of_list. reflexivity. Qed.

Lemma skipn_nth_error {A} (l : list A) : forall i,
  skipn i l = match nth_error l i with Some x => x :: skipn (S i) l | None => [] end.
Proof.
  induction l as [|y l IH]; intros [|i]; try reflexivity.
  cbn [nth_error]. rewrite <- IH. reflexivity.
Qed.

Lemma read_of_list {A} (l : list A) : forall n i,
  read (arr_of_list l) i n = firstn n (skipn (N.to_nat i) l).
Proof.
  induction n as [|n IH]; intros i; cbn [read]; [reflexivity|].
  rewrite find_of_list, (skipn_nth_error l (N.to_nat i)).
  destruct (nth_error l (N.to_nat i)); [|reflexivity].
  cbn [firstn]. rewrite IH. replace (N.to_nat (i + 1)) with (S (N.to_nat i)) by lia. reflexivity.
Qed.

(** [&a[offset..][..length]] on the array is the same slicing of the list, with the same panics *)
Theorem slice_of_list (l : bytes) offset length :
  slice (arr_of_list l) offset length =
    match slice_from l (N.to_nat offset) with
    | Val t => slice_to t (N.to_nat length)
    | Panic => Panic
    end.
Proof.
  unfold slice, slice_from, slice_to. cbn [a_len arr_of_list].
  destruct (N.leb_spec offset (N.of_nat (List.length l))) as [H1|H1].
  - replace (N.to_nat offset <=? List.length l)%nat with true by (symmetry; apply Nat.leb_le; lia).
    rewrite skipn_length.
    destruct (N.leb_spec length (N.of_nat (List.length l) - offset)) as [H2|H2].
    + replace (N.to_nat length <=? List.length l - N.to_nat offset)%nat with true by (symmetry; apply Nat.leb_le; lia).
      rewrite read_of_list. reflexivity.
    + replace (N.to_nat length <=? List.length l - N.to_nat offset)%nat with false by (symmetry; apply Nat.leb_gt; lia).
      reflexivity.
  - replace (N.to_nat offset <=? List.length l)%nat with false by (symmetry; apply Nat.leb_gt; lia).
    reflexivity.
Qed.

(** * B. the order on strings and the binary search *)
Lemma beq_spec a b : reflect (a = b) (beq a b).
Proof. apply iff_reflect. symmetry. apply beq_eq. Qed.

Lemma blt_irrefl a : blt a a = false.
Proof.
  induction a as [|x a IH]; cbn [blt]; [reflexivity|].
  rewrite N.ltb_irrefl, N.eqb_refl, IH. reflexivity.
Qed.

Lemma blt_trans a : forall b c, blt a b = true -> blt b c = true -> blt a c = true.
Proof.
  induction a as [|x a IH]; intros [|y b] [|z c]; cbn [blt]; try congruence; intros H1 H2.
  apply orb_true_iff in H1. apply orb_true_iff in H2. apply orb_true_iff.
  destruct H1 as [H1|H1], H2 as [H2|H2].
  - left. lia.
  - apply andb_true_iff in H2 as [H2 _]. left. lia.
  - apply andb_true_iff in H1 as [H1 _]. left. lia.
  - apply andb_true_iff in H1 as [H1 H1']. apply andb_true_iff in H2 as [H2 H2'].
    right. apply andb_true_iff. split; [lia|]. eapply IH; eauto.
Qed.

Lemma blt_total a : forall b, blt a b = false -> beq a b = false -> blt b a = true.
Proof.
  induction a as [|x a IH]; intros [|y b]; cbn [blt beq]; try congruence; intros H1 H2.
  apply orb_false_iff in H1 as [H1 H1'].
  destruct (N.eqb_spec x y) as [->|Hne].
  - cbn [andb] in *. rewrite N.ltb_irrefl, N.eqb_refl. cbn [orb andb]. apply IH; assumption.
  - apply orb_true_iff. left. lia.
Qed.

Lemma blt_neq a b : blt a b = true -> a <> b.
Proof. intros H ->. rewrite blt_irrefl in H. discriminate. Qed.

(** The loop of [find] on a range whose labels are readable and strictly increasing: it returns the
    (unique) index carrying the label, or [None] when there is none; it never panics. *)
Lemma find_loop_spec T (lab : N -> bytes) label : forall fuel lo hi,
  (forall i, lo <= i < hi -> node_label T i = Val (lab i)) ->
  (forall i j, lo <= i -> i < j -> j < hi -> blt (lab i) (lab j) = true) ->
  (N.to_nat (hi - lo) < fuel)%nat ->
  (exists f, find_loop T fuel label lo hi = Val (Some f) /\ lo <= f < hi /\ lab f = label)
  \/ (find_loop T fuel label lo hi = Val None /\ forall i, lo <= i < hi -> lab i <> label).
Proof.
  induction fuel as [|fuel IH]; intros lo hi Hlab Hsorted Hfuel; [lia|].
  cbn [find_loop]. destruct (N.ltb_spec lo hi) as [Hlt|Hge].
  2:{ right. split; [reflexivity|]. intros i Hi. lia. }
  set (mid := lo + (hi - lo) / 2).
  assert (Hmid : lo <= mid < hi) by (unfold mid; lia).
  rewrite (Hlab mid Hmid).
  destruct (blt (lab mid) label) eqn:Hb.
  - destruct (IH (mid + 1) hi) as [(f & Hf & Hr & Hl)|(Hf & Hn)].
    + intros i Hi. apply Hlab. lia.
    + intros i j H1 H2 H3. apply Hsorted; lia.
    + lia.
    + left. exists f. split; [exact Hf|]. split; [lia|exact Hl].
    + right. split; [exact Hf|]. intros i Hi.
      destruct (N.ltb_spec mid i) as [Hmi|Hmi]; [apply Hn; lia|].
      intros E. destruct (N.eq_dec i mid) as [->|Hne].
      * rewrite E, blt_irrefl in Hb. discriminate.
      * assert (Hlt' : blt (lab i) (lab mid) = true) by (apply Hsorted; lia).
        rewrite E in Hlt'. pose proof (blt_trans _ _ _ Hlt' Hb) as Hc. rewrite blt_irrefl in Hc. discriminate.
  - destruct (beq_spec (lab mid) label) as [He|Hne].
    + left. exists mid. split; [reflexivity|]. split; [exact Hmid|exact He].
    + assert (Hgt : blt label (lab mid) = true).
      { apply blt_total; [exact Hb|]. destruct (beq_spec (lab mid) label); congruence. }
      destruct (IH lo mid) as [(f & Hf & Hr & Hl)|(Hf & Hn)].
      * intros i Hi. apply Hlab. lia.
      * intros i j H1 H2 H3. apply Hsorted; lia.
      * lia.
      * left. exists f. split; [exact Hf|]. split; [lia|exact Hl].
      * right. split; [exact Hf|]. intros i Hi.
        destruct (N.ltb_spec i mid) as [Hmi|Hmi]; [apply Hn; lia|].
        intros E. destruct (N.eq_dec i mid) as [->|Hne'].
        -- congruence.
        -- assert (Hlt' : blt (lab mid) (lab i) = true) by (apply Hsorted; lia).
           rewrite E in Hlt'. pose proof (blt_trans _ _ _ Hgt Hlt') as Hc. rewrite blt_irrefl in Hc. discriminate.
Qed.

(** * C. strings and labels *)
Definition nodot (l : bytes) : Prop := ~ In DOT l.

Lemma split_dot_cons_nodot c r : (c =? DOT) = false ->
  exists l ls, split_dot r = l :: ls /\ split_dot (c :: r) = (c :: l) :: ls.
Proof.
  intros Hc. cbn [split_dot]. rewrite Hc.
  assert (H : split_dot r <> []) by (destruct r as [|c' r']; cbn [split_dot]; [discriminate|];
    destruct (c' =? DOT); [discriminate|]; destruct (split_dot r'); discriminate).
  destruct (split_dot r) as [|l ls]; [congruence|]. exists l, ls. split; reflexivity.
Qed.

Lemma split_dot_nonempty s : split_dot s <> [].
Proof.
  destruct s as [|c r]; cbn [split_dot]; [discriminate|].
  destruct (c =? DOT); [discriminate|]. destruct (split_dot r); discriminate.
Qed.

Lemma split_dot_nodot s : Forall nodot (split_dot s).
Proof.
  induction s as [|c r IH]; [repeat constructor; intros []|].
  destruct (N.eqb_spec c DOT) as [->|Hne].
  - cbn [split_dot]. rewrite N.eqb_refl. constructor; [intros []|exact IH].
  - destruct (split_dot_cons_nodot c r) as (l & ls & E1 & E2); [now apply N.eqb_neq|].
    rewrite E2. rewrite E1 in IH. inversion IH as [|? ? Hl Hls]; subst.
    constructor; [|exact Hls]. intros [E|Hin]; [congruence|exact (Hl Hin)].
Qed.

Lemma join_split s : join_dot (split_dot s) = s.
Proof.
  induction s as [|c r IH]; [reflexivity|].
  destruct (N.eqb_spec c DOT) as [->|Hne].
  - cbn [split_dot]. rewrite N.eqb_refl. pose proof (split_dot_nonempty r) as Hn.
    destruct (split_dot r) as [|l ls] eqn:E; [congruence|]. cbn [join_dot app]. cbn [join_dot] in IH.
    rewrite IH. reflexivity.
  - destruct (split_dot_cons_nodot c r) as (l & ls & E1 & E2); [now apply N.eqb_neq|].
    rewrite E2. rewrite E1 in IH. destruct ls as [|l2 ls]; cbn [join_dot] in *; [congruence|].
    rewrite <- IH. reflexivity.
Qed.

Lemma join_dot_cons l ls : ls <> [] -> join_dot (l :: ls) = l ++ DOT :: join_dot ls.
Proof. destruct ls; [congruence|reflexivity]. Qed.

Lemma join_dot_app a : forall b, a <> [] -> b <> [] ->
  join_dot (a ++ b) = join_dot a ++ DOT :: join_dot b.
Proof.
  induction a as [|x a IH]; intros b Ha Hb; [congruence|].
  destruct a as [|y a].
  - cbn [app]. rewrite join_dot_cons by exact Hb. reflexivity.
  - change ((x :: y :: a) ++ b) with (x :: ((y :: a) ++ b)).
    rewrite join_dot_cons by (cbn; discriminate). rewrite IH by (auto; discriminate).
    rewrite (join_dot_cons x (y :: a)) by discriminate. rewrite <- app_assoc. reflexivity.
Qed.

Lemma rfind_nodot l : nodot l -> rfind_dot l = None.
Proof.
  induction l as [|c r IH]; intros H; [reflexivity|]. cbn [rfind_dot].
  rewrite IH by (intros Hin; apply H; now right).
  destruct (N.eqb_spec c DOT) as [E|_]; [|reflexivity]. exfalso. apply H. now left.
Qed.

Lemma rfind_app a : forall l, nodot l -> rfind_dot (a ++ DOT :: l) = Some (length a).
Proof.
  induction a as [|c a IH]; intros l H.
  - cbn [app rfind_dot length]. rewrite rfind_nodot by exact H. rewrite N.eqb_refl. reflexivity.
  - cbn [app rfind_dot length]. rewrite IH by exact H. reflexivity.
Qed.

Lemma skipn_app_exact {A} (a b : list A) : skipn (length a) (a ++ b) = b.
Proof. induction a; cbn; auto. Qed.
Lemma firstn_app_exact {A} (a b : list A) : firstn (length a) (a ++ b) = a.
Proof. induction a; cbn; congruence. Qed.

(** * D. the index/slice loop is the label-level loop *)

(** The loop of [public_suffix] at the level of labels: [rest] are the labels still to be looked at
    (from the right), [i] how many were consumed, [suf] the number of labels of the suffix found so
    far ([None]: the initial [domain.len()..]).  Same table accesses as [ps_loop]. *)
Fixpoint walk_tab (T : table) (lo hi : N) (w : bool) (rest : list bytes) (i : nat) (suf : option nat)
  : res (option nat) :=
  match rest with
  | [] => Val suf
  | l :: rest' =>
      let suf1 := if w then Some (S i) else suf in
      if lo =? hi then Val suf1 else
      match find T l lo hi with
      | Panic => Panic
      | Val None => Val suf1
      | Val (Some f) =>
          match node_info T f with
          | Panic => Panic
          | Val (lo', hi', ty, w') =>
              if ty =? NODE_TYPE_NORMAL T then walk_tab T lo' hi' w' rest' (S i) (Some (S i))
              else if ty =? NODE_TYPE_EXCEPTION T then Val (Some i)
              else walk_tab T lo' hi' w' rest' (S i) suf1
          end
      end
  end.

(** start of the last [k] labels in the name whose labels (from the right) are [ls];
    [k = 0] gives one past the end: the exception branch's [1 + s.len()] at the first label *)
Definition pos (ls : list bytes) (k : nat) : nat :=
  match skipn k ls with
  | [] => O
  | r => S (length (join_dot (rev r)))
  end.
Definition spos (X : nat) (ls : list bytes) (o : option nat) : nat :=
  match o with None => X | Some k => pos ls k end.

Lemma rev_cons_nonempty {A} (x : A) l : rev (x :: l) <> [].
Proof. cbn [rev]. destruct (rev l); discriminate. Qed.

Lemma join_rev_cons l rest : rest <> [] ->
  join_dot (rev (l :: rest)) = join_dot (rev rest) ++ DOT :: l.
Proof.
  intros H. cbn [rev]. rewrite join_dot_app; [reflexivity| |discriminate].
  destruct rest; [congruence|apply rev_cons_nonempty].
Qed.

(** [s.rfind('.')] on the name with labels [l :: rest] (from the right) *)
Lemma rfind_join l rest : nodot l ->
  rfind_dot (join_dot (rev (l :: rest))) =
    match rest with [] => None | _ => Some (length (join_dot (rev rest))) end.
Proof.
  intros Hl. destruct rest as [|l2 rest].
  - cbn [rev app join_dot]. apply rfind_nodot, Hl.
  - rewrite join_rev_cons by discriminate. apply rfind_app, Hl.
Qed.

Lemma pos_after pre l rest :
  pos (pre ++ l :: rest) (S (length pre)) = match rest with [] => O | _ => S (length (join_dot (rev rest))) end.
Proof.
  unfold pos. replace (S (length pre)) with (length (pre ++ [l])) by (rewrite app_length; cbn; lia).
  replace (pre ++ l :: rest) with ((pre ++ [l]) ++ rest) by (rewrite <- app_assoc; reflexivity).
  rewrite skipn_app_exact. destruct rest; reflexivity.
Qed.

Lemma pos_here pre l rest : pos (pre ++ l :: rest) (length pre) = S (length (join_dot (rev (l :: rest)))).
Proof. unfold pos. rewrite skipn_app_exact. reflexivity. Qed.

Lemma after_rfind pre l rest : nodot l ->
  after_or_all (rfind_dot (join_dot (rev (l :: rest)))) = pos (pre ++ l :: rest) (S (length pre)).
Proof.
  intros Hl. rewrite rfind_join by exact Hl. rewrite pos_after.
  destruct rest; cbn [after_or_all]; [reflexivity|lia].
Qed.

Lemma slice_label pre l rest : nodot l ->
  slice_from (join_dot (rev (l :: rest))) (pos (pre ++ l :: rest) (S (length pre))) = Val l.
Proof.
  intros Hl. rewrite pos_after. unfold slice_from. destruct rest as [|l2 rest].
  - cbn [rev app join_dot Nat.leb skipn]. reflexivity.
  - rewrite (join_rev_cons l (l2 :: rest)) by discriminate.
    set (a := join_dot (rev (l2 :: rest))).
    replace (S (length a) <=? length (a ++ DOT :: l))%nat with true
      by (symmetry; apply Nat.leb_le; rewrite app_length; cbn [length]; lia).
    replace (S (length a)) with (length (a ++ [DOT])) by (rewrite app_length; cbn; lia).
    replace (a ++ DOT :: l) with ((a ++ [DOT]) ++ l) by (rewrite <- app_assoc; reflexivity).
    rewrite skipn_app_exact. reflexivity.
Qed.

Lemma slice_to_dot l l2 rest :
  slice_to (join_dot (rev (l :: l2 :: rest))) (length (join_dot (rev (l2 :: rest)))) = Val (join_dot (rev (l2 :: rest))).
Proof.
  rewrite (join_rev_cons l (l2 :: rest)) by discriminate. unfold slice_to.
  set (a := join_dot (rev (l2 :: rest))).
  replace (length a <=? length (a ++ DOT :: l))%nat with true
    by (symmetry; apply Nat.leb_le; rewrite app_length; lia).
  rewrite firstn_app_exact. reflexivity.
Qed.

Lemma ps_loop_walk T X ls : Forall nodot ls -> forall rest pre fuel lo hi w suf,
  ls = pre ++ rest -> rest <> [] -> (length (join_dot (rev rest)) < fuel)%nat ->
  ps_loop T fuel lo hi (join_dot (rev rest)) (spos X ls suf) w =
    match walk_tab T lo hi w rest (length pre) suf with
    | Val o => Val (spos X ls o)
    | Panic => Panic
    end.
Proof.
  intros Hnd. induction rest as [|l rest IH]; intros pre fuel lo hi w suf Els Hne Hfuel; [congruence|].
  assert (Hl : nodot l).
  { rewrite Forall_forall in Hnd. apply Hnd. rewrite Els. apply in_or_app. right. now left. }
  destruct fuel as [|fuel]; [lia|].
  cbn [ps_loop walk_tab].
  set (s := join_dot (rev (l :: rest))) in *.
  set (i := length pre).
  assert (Ha : after_or_all (rfind_dot s) = pos ls (S i)) by (unfold s, i; rewrite Els; apply after_rfind, Hl).
  assert (Hs : slice_from s (pos ls (S i)) = Val l) by (unfold s, i; rewrite Els; apply slice_label, Hl).
  rewrite !Ha, Hs.
  assert (Esuf : (if w then pos ls (S i) else spos X ls suf) = spos X ls (if w then Some (S i) else suf))
    by (destruct w; reflexivity).
  rewrite !Esuf. set (suf1 := if w then Some (S i) else suf).
  destruct (lo =? hi); [reflexivity|].
  destruct (find T l lo hi) as [[f|]|]; [|reflexivity|reflexivity].
  destruct (node_info T f) as [[[[lo' hi'] ty] w']|]; [|reflexivity].
  assert (Hrec : forall sfx o, sfx = spos X ls o ->
    match rfind_dot s with
    | Some d => match slice_to s d with
                | Val s' => ps_loop T fuel lo' hi' s' sfx w'
                | Panic => Panic
                end
    | None => Val sfx
    end = match walk_tab T lo' hi' w' rest (S i) o with
          | Val o' => Val (spos X ls o')
          | Panic => Panic
          end).
  { intros sfx o ->. unfold s. rewrite (rfind_join l rest Hl).
    destruct rest as [|l2 rest]; [reflexivity|].
    rewrite slice_to_dot.
    replace (S i) with (length (pre ++ [l])) by (rewrite app_length; cbn; unfold i; lia).
    apply IH.
    - rewrite Els, <- app_assoc. reflexivity.
    - discriminate.
    - unfold s in Hfuel. rewrite (join_rev_cons l (l2 :: rest)) in Hfuel by discriminate.
      rewrite app_length in Hfuel. cbn [length] in Hfuel. lia. }
  destruct (ty =? NODE_TYPE_NORMAL T).
  - apply (Hrec _ (Some (S i))). reflexivity.
  - destruct (ty =? NODE_TYPE_EXCEPTION T).
    + cbn [spos]. rewrite Els. unfold i. rewrite pos_here. reflexivity.
    + apply (Hrec _ suf1). reflexivity.
Qed.

(** the last [k] labels start at [pos ls k] *)
Lemma slice_pos ls k : ls <> [] -> (1 <= k)%nat ->
  slice_from (join_dot (rev ls)) (pos ls k) = Val (join_dot (rev (firstn k ls))).
Proof.
  intros Hne Hk. unfold pos, slice_from.
  destruct (skipn k ls) as [|x r] eqn:E.
  - cbn [Nat.leb skipn]. f_equal. f_equal. f_equal.
    rewrite <- (firstn_skipn k ls) at 1. rewrite E, app_nil_r. reflexivity.
  - assert (Hf : firstn k ls <> []) by (destruct ls; [congruence|]; destruct k; [lia|discriminate]).
    assert (Els : ls = firstn k ls ++ x :: r) by (rewrite <- E; symmetry; apply firstn_skipn).
    set (f := firstn k ls) in *. clearbody f. subst ls. rewrite rev_app_distr.
    rewrite join_dot_app; [|apply rev_cons_nonempty|destruct f; [congruence|apply rev_cons_nonempty]].
    set (a := join_dot (rev (x :: r))). set (b := join_dot (rev f)).
    replace (S (length a) <=? length (a ++ DOT :: b))%nat with true
      by (symmetry; apply Nat.leb_le; rewrite app_length; cbn [length]; lia).
    replace (S (length a)) with (length (a ++ [DOT])) by (rewrite app_length; cbn; lia).
    replace (a ++ DOT :: b) with ((a ++ [DOT]) ++ b) by (rewrite <- app_assoc; reflexivity).
    rewrite skipn_app_exact. reflexivity.
Qed.

Lemma join_dot_nil ls : join_dot ls = [] -> ls = [] \/ ls = [[]].
Proof.
  destruct ls as [|l [|l2 ls]]; cbn [join_dot]; intros H.
  - left. reflexivity.
  - right. rewrite H. reflexivity.
  - apply app_eq_nil in H as [_ H]. discriminate.
Qed.

Lemma dom_labels_nonempty d : dom_labels d <> [].
Proof.
  unfold dom_labels. pose proof (split_dot_nonempty d) as H. destruct (split_dot d); [congruence|apply rev_cons_nonempty].
Qed.

Lemma dom_labels_nodot d : Forall nodot (dom_labels d).
Proof. unfold dom_labels. apply Forall_rev, split_dot_nodot. Qed.

Lemma join_dom_labels d : join_dot (rev (dom_labels d)) = d.
Proof. unfold dom_labels. rewrite rev_involutive. apply join_split. Qed.

(** [string_label_refinement]: for EVERY table and EVERY byte string, the index/slice model of
    [public_suffix] is the label-level loop on the labels of [domain.split('.')]: it panics exactly
    when that loop panics (a table index out of range) or ends in an exception node at the very first
    label ([suffix = domain.len() + 1 ..]), and otherwise returns the last [k] labels of the name,
    cut at a label boundary, where [k] is the loop's answer (1 if it found nothing). *)
Theorem string_label_refinement T d :
  public_suffix T d =
    match walk_tab T 0 (NUM_TLD T) false (dom_labels d) 0 None with
    | Panic => Panic
    | Val (Some O) => Panic
    | Val o => Val (last_labels (olen o) d)
    end.
Proof.
  unfold public_suffix.
  pose proof (ps_loop_walk T (length d) (dom_labels d) (dom_labels_nodot d) (dom_labels d) []
                (S (length d)) 0 (NUM_TLD T) false None eq_refl (dom_labels_nonempty d)) as H.
  rewrite join_dom_labels in H. cbn [spos length] in H. rewrite H by lia. clear H.
  destruct (walk_tab T 0 (NUM_TLD T) false (dom_labels d) 0 None) as [o|]; [|reflexivity].
  pose proof (dom_labels_nonempty d) as Hne.
  assert (Hafter : after_or_all (rfind_dot d) = pos (dom_labels d) 1).
  { destruct (dom_labels d) as [|l rest] eqn:E; [congruence|].
    pose proof (dom_labels_nodot d) as Hnd. rewrite E in Hnd. inversion Hnd as [|? ? Hl _]; subst.
    pose proof (after_rfind [] l rest Hl) as H. cbn [app length] in H. rewrite <- H.
    rewrite <- E, join_dom_labels. reflexivity. }
  assert (Hslice : forall k, (1 <= k)%nat -> slice_from d (pos (dom_labels d) k) = Val (last_labels k d)).
  { intros k Hk. pose proof (slice_pos (dom_labels d) k Hne Hk) as H. rewrite join_dom_labels in H. exact H. }
  destruct o as [[|k]|]; cbn [spos olen].
  - (* exception node at the first label *)
    assert (Hp : pos (dom_labels d) 0 = S (length d)).
    { unfold pos. cbn [skipn]. destruct (dom_labels d) eqn:E; [congruence|]. rewrite <- E, join_dom_labels. reflexivity. }
    rewrite Hp. replace (S (length d) =? length d)%nat with false by (symmetry; apply Nat.eqb_neq; lia).
    unfold slice_from. replace (S (length d) <=? length d)%nat with false by (symmetry; apply Nat.leb_gt; lia).
    reflexivity.
  - destruct (Nat.eqb_spec (pos (dom_labels d) (S k)) (length d)) as [E|E].
    + (* the suffix found is the empty last label: the fall-back computes the same thing *)
      rewrite Hafter, (Hslice 1%nat) by lia.
      pose proof (Hslice (S k) ltac:(lia)) as H. rewrite E in H.
      unfold slice_from in H. rewrite Nat.leb_refl, skipn_all in H. injection H as H.
      f_equal. rewrite <- H. unfold last_labels in *. symmetry in H.
      apply join_dot_nil in H. destruct (dom_labels d) as [|l rest]; [congruence|].
      cbn [firstn] in *. destruct H as [H|H].
      * exfalso. revert H. apply rev_cons_nonempty.
      * assert (H' : rev (rev (l :: firstn k rest)) = rev [[]]) by (f_equal; exact H).
        rewrite rev_involutive in H'. cbn [rev app] in H'. injection H' as -> _.
        destruct rest; reflexivity.
    + apply Hslice. lia.
  - rewrite Nat.eqb_refl, Hafter. apply Hslice. lia.
Qed.

(** * E. the label-level loop on the table is the abstract walk on the decoded trie *)
Notation trie := (@PslWalk.trie bytes).
Notation lookup := (PslWalk.lookup beq).
Notation walk := (PslWalk.walk beq).

Definition ntype_of (T : table) (ty : N) : ntype :=
  if ty =? NODE_TYPE_NORMAL T then TNormal
  else if ty =? NODE_TYPE_EXCEPTION T then TExc
  else TParent.

(** [cs] is what the table says about the nodes [lo, hi) and, recursively, their children *)
Inductive repr (T : table) : list trie -> N -> N -> Prop :=
| repr_nil lo hi : hi <= lo -> repr T [] lo hi
| repr_cons l ty w cs' cs lo hi lo' hi' tyN :
    lo < hi ->
    node_label T lo = Val l ->
    node_info T lo = Val (lo', hi', tyN, w) ->
    ty = ntype_of T tyN ->
    repr T cs' lo' hi' ->
    repr T cs (lo + 1) hi ->
    repr T (Node l ty w cs' :: cs) lo hi.

(** siblings strictly increasing (in the order [find] uses), recursively *)
Inductive swf : list trie -> Prop :=
| swf_nil : swf []
| swf_cons l ty w cs' cs :
    (forall c, In c cs -> blt l (tlabel c) = true) -> swf cs' -> swf cs -> swf (Node l ty w cs' :: cs).

(** the table as a trie; [fuel] bounds siblings + depth *)
Fixpoint decode (T : table) (fuel : nat) (lo : N) (cnt : nat) : option (list trie) :=
  match cnt with
  | O => Some []
  | S cnt' =>
      match fuel with
      | O => None
      | S fuel' =>
          match node_label T lo, node_info T lo with
          | Val l, Val (lo', hi', ty, w) =>
              match decode T fuel' lo' (N.to_nat (hi' - lo')), decode T fuel' (lo + 1) cnt' with
              | Some cs', Some cs => Some (Node l (ntype_of T ty) w cs' :: cs)
              | _, _ => None
              end
          | _, _ => None
          end
      end
  end.

Lemma decode_repr T : forall fuel lo cnt cs,
  decode T fuel lo cnt = Some cs -> repr T cs lo (lo + N.of_nat cnt).
Proof.
  induction fuel as [|fuel IH]; intros lo [|cnt] cs H; cbn [decode] in H.
  - injection H as <-. apply repr_nil. lia.
  - discriminate.
  - injection H as <-. apply repr_nil. lia.
  - destruct (node_label T lo) as [l|] eqn:El; [|discriminate].
    destruct (node_info T lo) as [[[[lo' hi'] ty] w]|] eqn:Ei; [|discriminate].
    destruct (decode T fuel lo' (N.to_nat (hi' - lo'))) as [cs'|] eqn:E1; [|discriminate].
    destruct (decode T fuel (lo + 1) cnt) as [cs0|] eqn:E2; [|discriminate].
    injection H as <-.
    eapply repr_cons; [lia|exact El|exact Ei|reflexivity| |].
    + destruct (N.leb_spec hi' lo') as [Hle|Hgt].
      * replace (N.to_nat (hi' - lo')) with O in E1 by lia.
        destruct fuel; cbn [decode] in E1; injection E1 as <-; apply repr_nil; exact Hle.
      * apply IH in E1. replace (lo' + N.of_nat (N.to_nat (hi' - lo'))) with hi' in E1 by lia. exact E1.
    + apply IH in E2. replace (lo + N.of_nat (S cnt)) with (lo + 1 + N.of_nat cnt) by lia. exact E2.
Qed.

(** boolean check of [swf]: adjacent siblings compared, [fuel] as for [decode] *)
Fixpoint swf_b (fuel : nat) (cs : list trie) : bool :=
  match cs with
  | [] => true
  | Node l _ _ cs' :: r =>
      match fuel with
      | O => false
      | S fuel' =>
          match r with [] => true | c :: _ => blt l (tlabel c) end && swf_b fuel' cs' && swf_b fuel' r
      end
  end.

Lemma swf_b_head fuel : forall cs, swf_b fuel cs = true -> swf cs /\
  forall l0, match cs with [] => True | c :: _ => blt l0 (tlabel c) = true end ->
             forall c, In c cs -> blt l0 (tlabel c) = true.
Proof.
  induction fuel as [|fuel IH]; intros [|[l ty w cs'] r] H; cbn [swf_b] in H.
  - split; [constructor|intros l0 _ c []].
  - discriminate.
  - split; [constructor|intros l0 _ c []].
  - apply andb_true_iff in H as [H H3]. apply andb_true_iff in H as [H1 H2].
    destruct (IH _ H2) as [Hs' _]. destruct (IH _ H3) as [Hs Hall].
    assert (Hhead : forall c, In c r -> blt l (tlabel c) = true).
    { apply Hall. destruct r; [exact I|exact H1]. }
    split; [constructor; assumption|].
    intros l0 Hl0 c [<-|Hin]; [exact Hl0|]. cbn [tlabel] in Hl0.
    eapply blt_trans; [exact Hl0|]. apply Hhead, Hin.
Qed.

Lemma swf_b_sound fuel cs : swf_b fuel cs = true -> swf cs.
Proof. intros H. apply (swf_b_head fuel cs H). Qed.

Lemma swf_wf cs : swf cs -> wf cs.
Proof.
  induction 1 as [|l ty w cs' cs Hlt _ IH' _ IH]; constructor; auto.
  intros Hin. apply in_map_iff in Hin as (c & Ec & Hc). specialize (Hlt c Hc).
  rewrite Ec, blt_irrefl in Hlt. discriminate.
Qed.

Lemma swf_children l ty w cs' cs : swf cs -> In (Node l ty w cs') cs -> swf cs'.
Proof. induction 1; cbn; [easy|]. intros [E|Hin]; [inversion E; subst; assumption|auto]. Qed.

Lemma repr_length T cs lo hi : repr T cs lo hi -> length cs = N.to_nat (hi - lo).
Proof.
  induction 1 as [lo hi H|l ty w cs' cs lo hi lo' hi' tyN Hlt _ _ _ _ _ _ IH]; [cbn; lia|].
  cbn [length]. rewrite IH. lia.
Qed.

Definition dflt : trie := Node [] TParent false [].

Lemma repr_nth T cs lo hi : repr T cs lo hi -> forall i, lo <= i < hi ->
  exists l ty w cs' lo' hi' tyN,
    nth (N.to_nat (i - lo)) cs dflt = Node l ty w cs' /\ In (Node l ty w cs') cs /\
    node_label T i = Val l /\ node_info T i = Val (lo', hi', tyN, w) /\
    ty = ntype_of T tyN /\ repr T cs' lo' hi'.
Proof.
  induction 1 as [lo hi H|l ty w cs' cs lo hi lo' hi' tyN Hlt Hl Hi Hty Hr' _ _ IH]; intros i Hrange; [lia|].
  destruct (N.eq_dec i lo) as [->|Hne].
  - exists l, ty, w, cs', lo', hi', tyN. replace (N.to_nat (lo - lo)) with O by lia.
    repeat split; auto. now left.
  - destruct (IH i ltac:(lia)) as (l1 & ty1 & w1 & cs1 & lo1 & hi1 & tyN1 & Hn & Hin & H1 & H2 & H3 & H4).
    exists l1, ty1, w1, cs1, lo1, hi1, tyN1.
    replace (N.to_nat (i - lo)) with (S (N.to_nat (i - (lo + 1)))) by lia.
    repeat split; auto. now right.
Qed.

Lemma swf_nth cs : swf cs -> forall a b, (a < b)%nat -> (b < length cs)%nat ->
  blt (tlabel (nth a cs dflt)) (tlabel (nth b cs dflt)) = true.
Proof.
  induction 1 as [|l ty w cs' cs Hlt _ _ _ IH]; intros a b Hab Hb; cbn [length] in Hb; [lia|].
  destruct b as [|b]; [lia|]. destruct a as [|a].
  - cbn [nth tlabel]. apply Hlt. apply nth_In. lia.
  - cbn [nth]. apply IH; lia.
Qed.

Lemma lookup_in l cs c : wf cs -> In c cs -> tlabel c = l -> lookup l cs = Some c.
Proof.
  intros Hwf Hin Hl. destruct (lookup l cs) as [c'|] eqn:E.
  - destruct (lookup_some beq beq_spec _ _ _ Hwf E) as (_ & _ & Hu). f_equal. symmetry. apply Hu; assumption.
  - exfalso. exact (lookup_none beq beq_spec _ _ E c Hin Hl).
Qed.

Lemma lookup_absent l cs : (forall c, In c cs -> tlabel c <> l) -> lookup l cs = None.
Proof.
  induction cs as [|c cs IH]; intros H; cbn [PslWalk.lookup]; [reflexivity|].
  destruct (beq_spec (tlabel c) l) as [E|_]; [exfalso; apply (H c); [now left|exact E]|].
  apply IH. intros c' Hc'. apply H. now right.
Qed.

(** [find_correct]: on a range that the trie [cs] represents, with strictly increasing labels, the
    binary search never panics and finds exactly what a linear search for the label finds: nothing,
    or the index of the one node carrying it (whose decoded fields are those of the trie node). *)
Theorem find_correct T cs lo hi l : repr T cs lo hi -> swf cs ->
  (find T l lo hi = Val None /\ lookup l cs = None)
  \/ (exists f ty w cs' lo' hi' tyN,
        find T l lo hi = Val (Some f) /\ lookup l cs = Some (Node l ty w cs') /\
        node_info T f = Val (lo', hi', tyN, w) /\ ty = ntype_of T tyN /\ repr T cs' lo' hi' /\ swf cs').
Proof.
  intros Hr Hs. pose proof (repr_length T cs lo hi Hr) as Hlen.
  set (lab := fun i => tlabel (nth (N.to_nat (i - lo)) cs dflt)).
  destruct (find_loop_spec T lab l (S (N.to_nat (hi - lo))) lo hi) as [(f & Hf & Hrange & Hl)|(Hf & Hn)].
  - intros i Hi. destruct (repr_nth T cs lo hi Hr i Hi) as (l1 & ty1 & w1 & cs1 & lo1 & hi1 & tyN1 & Hn & _ & H1 & _).
    unfold lab. rewrite Hn. exact H1.
  - intros i j H1 H2 H3. unfold lab. apply swf_nth; [exact Hs|lia|lia].
  - lia.
  - right. destruct (repr_nth T cs lo hi Hr f Hrange) as (l1 & ty1 & w1 & cs1 & lo1 & hi1 & tyN1 & Hn & Hin & H1 & H2 & H3 & H4).
    unfold lab in Hl. rewrite Hn in Hl. cbn [tlabel] in Hl. subst l1.
    exists f, ty1, w1, cs1, lo1, hi1, tyN1. split; [exact Hf|]. split.
    + apply lookup_in; [apply swf_wf, Hs|exact Hin|reflexivity].
    + split; [exact H2|]. split; [exact H3|]. split; [exact H4|]. eapply swf_children; eauto.
  - left. split; [exact Hf|]. apply lookup_absent. intros c Hc E.
    apply (In_nth _ _ dflt) in Hc as (k & Hk & Ek).
    apply (Hn (lo + N.of_nat k)); [lia|]. unfold lab.
    replace (N.to_nat (lo + N.of_nat k - lo)) with k by lia. rewrite Ek. exact E.
Qed.

Theorem walk_tab_walk T : forall rest cs lo hi w i suf, repr T cs lo hi -> swf cs ->
  walk_tab T lo hi w rest i suf = Val (walk cs w rest i suf).
Proof.
  induction rest as [|l rest IH]; intros cs lo hi w i suf Hr Hs; [reflexivity|].
  cbn [walk_tab PslWalk.walk].
  destruct (N.eqb_spec lo hi) as [E|E].
  - pose proof (repr_length T cs lo hi Hr) as Hlen. destruct cs; [reflexivity|cbn [length] in Hlen; lia].
  - destruct (find_correct T cs lo hi l Hr Hs) as [(Hf & Hl)|(f & ty & w' & cs' & lo' & hi' & tyN & Hf & Hl & Hi & Hty & Hr' & Hs')].
    + rewrite Hf, Hl. reflexivity.
    + rewrite Hf, Hl, Hi. subst ty. unfold ntype_of.
      destruct (tyN =? NODE_TYPE_NORMAL T); [apply IH; assumption|].
      destruct (tyN =? NODE_TYPE_EXCEPTION T); [reflexivity|apply IH; assumption].
Qed.

(** * F. any table that passes [table_ok] against a rule list *)
Definition no_top_exc (cs : list trie) : bool :=
  forallb (fun c => match c with Node _ TExc _ _ => false | _ => true end) cs.

Definition kind_eqb (a b : kind) : bool :=
  match a, b with KNormal, KNormal | KWild, KWild | KExc, KExc => true | _, _ => false end.
Definition rule_eqb (a b : rule) : bool := kind_eqb (fst a) (fst b) && Check.list_eqb beq (snd a) (snd b).

(** The decidable well-formedness of a table against a rule list: every node reachable from the
    top-level range decodes without an out-of-range access; siblings are strictly increasing; no
    top-level node is an exception node (there [public_suffix] would slice past the end); and the rules
    the table represents are exactly [R], in trie order. *)
Definition table_ok (fuel : nat) (T : table) (R : list rule) : bool :=
  match decode T fuel 0 (N.to_nat (NUM_TLD T)) with
  | None => false
  | Some cs => swf_b fuel cs && no_top_exc cs && Check.list_eqb rule_eqb (forest_rules cs) R
  end.

Lemma list_eqb_eq {A} (e : A -> A -> bool) : (forall x y, e x y = true -> x = y) ->
  forall a b, Check.list_eqb e a b = true -> a = b.
Proof.
  intros He. induction a as [|x a IH]; intros [|y b] H; cbn [Check.list_eqb] in H; try discriminate; [reflexivity|].
  apply andb_true_iff in H as [H1 H2]. f_equal; [apply He, H1|apply IH, H2].
Qed.

Lemma rule_eqb_eq (a b : rule) : rule_eqb a b = true -> a = b.
Proof.
  destruct a as [ka la], b as [kb lb]. unfold rule_eqb. cbn [fst snd]. intros H.
  apply andb_true_iff in H as [H1 H2]. f_equal.
  - destruct ka, kb; cbn in H1; congruence.
  - apply (list_eqb_eq beq); [intros x y; apply beq_eq|exact H2].
Qed.

Lemma lookup_In l (cs : list trie) c : lookup l cs = Some c -> In c cs.
Proof.
  induction cs as [|c0 cs IH]; cbn [PslWalk.lookup]; [discriminate|].
  destruct (beq (tlabel c0) l); [intros H; injection H as <-; now left|intros H; right; auto].
Qed.

Lemma walk_nonzero : forall rest (cs : list trie) w i suf, (1 <= i)%nat -> suf <> Some O ->
  walk cs w rest i suf <> Some O.
Proof.
  induction rest as [|l rest IH]; intros cs w i suf Hi Hs; cbn [PslWalk.walk]; [exact Hs|].
  assert (H1 : (if w then Some (S i) else suf) <> Some O) by (destruct w; [discriminate|exact Hs]).
  destruct (lookup l cs) as [[lc ty w' cs']|]; [|exact H1].
  destruct ty; [apply IH; [lia|discriminate]|intros E; injection E as E; lia|apply IH; [lia|exact H1]].
Qed.

Lemma walk_top_nonzero (cs : list trie) rest : no_top_exc cs = true -> walk cs false rest 0 None <> Some O.
Proof.
  intros Hn. destruct rest as [|l rest]; cbn [PslWalk.walk]; [discriminate|].
  destruct (lookup l cs) as [[lc ty w' cs']|] eqn:E; [|discriminate].
  destruct ty.
  - apply walk_nonzero; [lia|discriminate].
  - apply lookup_In in E. unfold no_top_exc in Hn. rewrite forallb_forall in Hn. specialize (Hn _ E). discriminate.
  - apply walk_nonzero; [lia|discriminate].
Qed.

(** the empty-label guard of [effective_tld_plus_one] / [is_effective_tld] *)
Lemma tl_split_empty r :
  existsb is_nil (tl (split_dot r)) = ends_with_dot r || contains_dotdot r.
Proof.
  induction r as [|c r IH]; [reflexivity|].
  destruct (N.eqb_spec c DOT) as [->|Hne].
  - cbn [split_dot]. rewrite N.eqb_refl. cbn [tl].
    pose proof (split_dot_nonempty r) as Hn.
    destruct r as [|c' r'].
    + reflexivity.
    + destruct (split_dot (c' :: r')) as [|h t] eqn:E; [congruence|].
      cbn [existsb]. cbn [tl] in IH. rewrite IH.
      assert (Hh : is_nil h = (c' =? DOT)).
      { revert E. cbn [split_dot]. destruct (c' =? DOT); [intros E; injection E as <- _; reflexivity|].
        destruct (split_dot r'); intros E; injection E as <- _; reflexivity. }
      rewrite Hh.
      change (ends_with_dot (DOT :: c' :: r')) with (ends_with_dot (c' :: r')).
      change (contains_dotdot (DOT :: c' :: r')) with (((DOT =? DOT) && (c' =? DOT)) || contains_dotdot (c' :: r')).
      rewrite N.eqb_refl. cbn [andb].
      destruct (c' =? DOT), (ends_with_dot (c' :: r')), (contains_dotdot (c' :: r')); reflexivity.
  - destruct (split_dot_cons_nodot c r) as (l & ls & E1 & E2); [now apply N.eqb_neq|].
    rewrite E2. rewrite E1 in IH. cbn [tl] in *. rewrite IH.
    apply N.eqb_neq in Hne. destruct r as [|c' r']; cbn [ends_with_dot contains_dotdot]; rewrite Hne; reflexivity.
Qed.

Lemma has_empty_label_spec d :
  has_empty_label d = match d with [] => true | _ => empty_label_guard d end.
Proof.
  unfold has_empty_label, empty_label_guard. destruct d as [|c r]; [reflexivity|].
  destruct (N.eqb_spec c DOT) as [->|Hne].
  - cbn [split_dot starts_with_dot]. rewrite N.eqb_refl. reflexivity.
  - destruct (split_dot_cons_nodot c r) as (l & ls & E1 & E2); [now apply N.eqb_neq|].
    pose proof (tl_split_empty (c :: r)) as H. rewrite E2 in *. cbn [tl] in H. cbn [existsb is_nil orb].
    rewrite H. cbn [starts_with_dot]. apply N.eqb_neq in Hne. rewrite Hne. reflexivity.
Qed.

Lemma beq_length a b : beq a b = true -> length a = length b.
Proof. intros H. apply beq_eq in H. congruence. Qed.

(** the name as  (labels left of the suffix) . (last [k] labels) *)
Lemma split_at_suffix d k : (k < length (dom_labels d))%nat -> (1 <= k)%nat ->
  exists x r, skipn k (dom_labels d) = x :: r /\ nodot x /\
    d = join_dot (rev (x :: r)) ++ DOT :: last_labels k d /\
    dom_labels d = firstn k (dom_labels d) ++ x :: r /\ length (firstn k (dom_labels d)) = k.
Proof.
  intros Hk H1. set (ls := dom_labels d) in *.
  destruct (skipn k ls) as [|x r] eqn:E.
  - exfalso. pose proof (skipn_length k ls) as H. rewrite E in H. cbn [length] in H. lia.
  - exists x, r. split; [reflexivity|].
    assert (Els : ls = firstn k ls ++ x :: r) by (rewrite <- E; symmetry; apply firstn_skipn).
    split.
    + pose proof (dom_labels_nodot d) as Hnd. fold ls in Hnd. rewrite Forall_forall in Hnd. apply Hnd.
      rewrite Els. apply in_or_app. right. now left.
    + split; [|split; [exact Els|apply firstn_length_le; lia]].
      rewrite <- (join_dom_labels d) at 1. fold ls. rewrite Els at 1. rewrite rev_app_distr.
      unfold last_labels. fold ls. apply join_dot_app; [apply rev_cons_nonempty|].
      destruct ls as [|y ls']; [cbn in Hk; lia|]. destruct k; [lia|]. cbn [firstn]. apply rev_cons_nonempty.
Qed.

Lemma last_labels_all d k : (length (dom_labels d) <= k)%nat -> last_labels k d = d.
Proof. intros H. unfold last_labels. rewrite firstn_all2 by exact H. apply join_dom_labels. Qed.

Lemma etld1_of_suffix T d k : (1 <= k)%nat -> public_suffix T d = Val (last_labels k d) ->
  effective_tld_plus_one T d =
    Val (if empty_label_guard d then inr EmptyLabel
         else if (length (dom_labels d) <=? k)%nat then inr CannotDeriveETldPlus1
         else inl (last_labels (S k) d)).
Proof.
  intros Hk Hps. unfold effective_tld_plus_one. destruct (empty_label_guard d); [reflexivity|].
  rewrite Hps. destruct (Nat.leb_spec (length (dom_labels d)) k) as [Hm|Hm].
  - rewrite last_labels_all by exact Hm. rewrite Nat.leb_refl. reflexivity.
  - destruct (split_at_suffix d k Hm Hk) as (x & r & E & Hx & Ed & Els & Hlen).
    set (a := join_dot (rev (x :: r))) in *. set (b := last_labels k d) in *.
    assert (Hlen_d : length d = (length a + 1 + length b)%nat) by (rewrite Ed at 1; rewrite app_length; cbn [length]; lia).
    replace (length d <=? length b)%nat with false by (symmetry; apply Nat.leb_gt; lia).
    replace (length d - length b - 1)%nat with (length a) by lia.
    assert (Hnth : nth_error d (length a) = Some DOT).
    { rewrite Ed at 1. rewrite nth_error_app2 by lia. rewrite Nat.sub_diag. reflexivity. }
    rewrite Hnth, N.eqb_refl. cbn [negb].
    assert (Hto : slice_to d (length a) = Val a).
    { unfold slice_to. replace (length a <=? length d)%nat with true by (symmetry; apply Nat.leb_le; lia).
      rewrite Ed at 1. rewrite firstn_app_exact. reflexivity. }
    rewrite Hto. unfold a.
    rewrite (after_rfind (firstn k (dom_labels d)) x r Hx), <- Els, Hlen.
    pose proof (slice_pos (dom_labels d) (S k) (dom_labels_nonempty d) ltac:(lia)) as Hsl.
    rewrite join_dom_labels in Hsl. rewrite Hsl. reflexivity.
Qed.

Lemma is_etld_of_suffix T d k : (1 <= k)%nat -> public_suffix T d = Val (last_labels k d) ->
  is_effective_tld T d =
    Val (if empty_label_guard d then false else (length (dom_labels d) <=? k)%nat).
Proof.
  intros Hk Hps. unfold is_effective_tld. destruct (empty_label_guard d); [reflexivity|].
  rewrite Hps. f_equal. destruct (Nat.leb_spec (length (dom_labels d)) k) as [Hm|Hm].
  - rewrite last_labels_all by exact Hm. apply beq_refl.
  - destruct (split_at_suffix d k Hm Hk) as (x & r & E & Hx & Ed & Els & Hlen).
    destruct (beq (last_labels k d) d) eqn:Eb; [|reflexivity].
    apply beq_length in Eb. rewrite Ed in Eb at 2. rewrite app_length in Eb. cbn [length] in Eb. lia.
Qed.

Section Generic.
  Variables (fuel : nat) (T : table) (R : list rule).
  Hypothesis Hok : table_ok fuel T R = true.

  Lemma ok_suffix d : (1 <= psl_len beq R (dom_labels d))%nat /\
    public_suffix T d = Val (last_labels (psl_len beq R (dom_labels d)) d).
  Proof.
    unfold table_ok in Hok.
    destruct (decode T fuel 0 (N.to_nat (NUM_TLD T))) as [cs|] eqn:Ed; [|discriminate].
    apply andb_true_iff in Hok as [H12 H3]. apply andb_true_iff in H12 as [H1 H2].
    apply decode_repr in Ed. replace (0 + N.of_nat (N.to_nat (NUM_TLD T))) with (NUM_TLD T) in Ed by lia.
    apply swf_b_sound in H1.
    apply (list_eqb_eq rule_eqb rule_eqb_eq) in H3.
    pose proof (walk_tab_walk T (dom_labels d) cs 0 (NUM_TLD T) false O None Ed H1) as Hw.
    pose proof (walk_top_nonzero cs (dom_labels d) H2) as Hnz.
    pose proof (walk_correct beq beq_spec cs (dom_labels d) (swf_wf cs H1)) as Hc.
    rewrite H3 in Hc. rewrite <- Hc.
    rewrite string_label_refinement, Hw.
    destruct (walk cs false (dom_labels d) 0 None) as [[|k]|]; [congruence| |]; cbn [olen]; split; (lia || reflexivity).
  Qed.

  Theorem public_suffix_correct_gen d : public_suffix T d = Val (psl_suffix R d).
  Proof. apply ok_suffix. Qed.

  (** the eTLD+1 is the spec's; the error kind is [EmptyLabel] exactly for the guard *)
  Theorem etld1_correct_gen d :
    effective_tld_plus_one T d =
      Val (match psl_etld1 R d with
           | Some r => inl r
           | None => inr (if empty_label_guard d then EmptyLabel else CannotDeriveETldPlus1)
           end).
  Proof.
    destruct (ok_suffix d) as [Hk Hps]. rewrite (etld1_of_suffix T d _ Hk Hps).
    unfold psl_etld1. rewrite has_empty_label_spec.
    destruct d as [|c r] eqn:Ed.
    - change (dom_labels []) with [@nil N] in *. cbn [length empty_label_guard starts_with_dot ends_with_dot contains_dotdot orb].
      replace (1 <=? psl_len beq R [[]])%nat with true by (symmetry; apply Nat.leb_le; exact Hk). reflexivity.
    - rewrite <- Ed in *. destruct (empty_label_guard d); [reflexivity|].
      destruct (Nat.leb_spec (length (dom_labels d)) (psl_len beq R (dom_labels d))) as [H|H].
      + replace (psl_len beq R (dom_labels d) <? length (dom_labels d))%nat with false by (symmetry; apply Nat.ltb_ge; lia).
        reflexivity.
      + replace (psl_len beq R (dom_labels d) <? length (dom_labels d))%nat with true by (symmetry; apply Nat.ltb_lt; lia).
        reflexivity.
  Qed.

  Theorem is_etld_correct_gen d : d <> [] -> is_effective_tld T d = Val (psl_is_suffix R d).
  Proof.
    intros Hd. destruct (ok_suffix d) as [Hk Hps]. rewrite (is_etld_of_suffix T d _ Hk Hps).
    unfold psl_is_suffix. rewrite has_empty_label_spec. destruct d as [|c r]; [congruence|].
    destruct (empty_label_guard (c :: r)); reflexivity.
  Qed.

  (** the empty name: [is_effective_tld("")] answers [true] (its only label is empty, but none of the
      three textual tests of the guard sees it) *)
  Theorem is_etld_empty : is_effective_tld T [] = Val true.
  Proof.
    destruct (ok_suffix []) as [Hk Hps]. rewrite (is_etld_of_suffix T [] _ Hk Hps).
    cbn [empty_label_guard starts_with_dot ends_with_dot contains_dotdot orb].
    f_equal. apply Nat.leb_le. exact Hk.
  Qed.

  Theorem no_panic_gen d :
    public_suffix T d <> Panic /\ effective_tld_plus_one T d <> Panic /\ is_effective_tld T d <> Panic.
  Proof.
    destruct (ok_suffix d) as [Hk Hps].
    rewrite Hps, (etld1_of_suffix T d _ Hk Hps), (is_etld_of_suffix T d _ Hk Hps). repeat split; discriminate.
  Qed.
End Generic.

(** * G. what the spec's answers look like: cut at label boundaries, one label more *)
Lemma split_dot_nodot_one l : nodot l -> split_dot l = [l].
Proof.
  induction l as [|c l IH]; intros H; [reflexivity|].
  assert (Hc : (c =? DOT) = false) by (apply N.eqb_neq; intros E; apply H; now left).
  destruct (split_dot_cons_nodot c l Hc) as (l0 & ls & E1 & E2). rewrite E2.
  rewrite IH in E1 by (intros Hin; apply H; now right). injection E1 as <- <-. reflexivity.
Qed.

Lemma split_dot_app_dot l r : nodot l -> split_dot (l ++ DOT :: r) = l :: split_dot r.
Proof.
  induction l as [|c l IH]; intros H.
  - cbn [app split_dot]. rewrite N.eqb_refl. reflexivity.
  - assert (Hc : (c =? DOT) = false) by (apply N.eqb_neq; intros E; apply H; now left).
    change ((c :: l) ++ DOT :: r) with (c :: (l ++ DOT :: r)).
    destruct (split_dot_cons_nodot c (l ++ DOT :: r) Hc) as (l0 & ls & E1 & E2). rewrite E2.
    rewrite IH in E1 by (intros Hin; apply H; now right). injection E1 as <- <-. reflexivity.
Qed.

Lemma split_join ls : ls <> [] -> Forall nodot ls -> split_dot (join_dot ls) = ls.
Proof.
  induction ls as [|l ls IH]; intros Hne Hnd; [congruence|].
  inversion Hnd as [|? ? Hl Hls]; subst. destruct ls as [|l2 ls].
  - cbn [join_dot]. apply split_dot_nodot_one, Hl.
  - rewrite join_dot_cons by discriminate. rewrite split_dot_app_dot by exact Hl.
    rewrite IH; [reflexivity|discriminate|exact Hls].
Qed.

Lemma firstn_nonempty {A} k (l : list A) : (1 <= k)%nat -> l <> [] -> firstn k l <> [].
Proof. destruct k; [lia|]. destruct l; [congruence|discriminate]. Qed.

(** the labels of the last [k] labels of [d] are the last [k] labels of [d] *)
Theorem labels_last_labels k d : (1 <= k)%nat -> dom_labels (last_labels k d) = firstn k (dom_labels d).
Proof.
  intros Hk. unfold last_labels. unfold dom_labels at 1. rewrite split_join.
  - apply rev_involutive.
  - pose proof (firstn_nonempty k (dom_labels d) Hk (dom_labels_nonempty d)) as H.
    destruct (firstn k (dom_labels d)); [congruence|apply rev_cons_nonempty].
  - apply Forall_rev. pose proof (dom_labels_nodot d) as H. rewrite Forall_forall in *.
    intros x Hx. apply H. rewrite <- (firstn_skipn k (dom_labels d)). apply in_or_app. now left.
Qed.

(** the last [k] labels are the whole name or what follows one of its dots *)
Theorem last_labels_boundary k d : (1 <= k)%nat ->
  last_labels k d = d \/ exists p, d = p ++ DOT :: last_labels k d.
Proof.
  intros Hk. destruct (Nat.leb_spec (length (dom_labels d)) k) as [Hm|Hm].
  - left. apply last_labels_all, Hm.
  - right. destruct (split_at_suffix d k Hm Hk) as (x & r & _ & _ & Ed & _). eexists. exact Ed.
Qed.

Lemma psl_etld1_some R d r : psl_etld1 R d = Some r ->
  has_empty_label d = false /\ (psl_len beq R (dom_labels d) < length (dom_labels d))%nat /\
  r = last_labels (S (psl_len beq R (dom_labels d))) d.
Proof.
  unfold psl_etld1. destruct (has_empty_label d); [discriminate|].
  destruct (Nat.ltb_spec (psl_len beq R (dom_labels d)) (length (dom_labels d))) as [Hlt|Hge]; [|discriminate].
  intros H. injection H as <-. auto.
Qed.
