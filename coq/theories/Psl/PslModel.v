(** Executable model of public-suffix/src/lib.rs: [ListProvider::public_suffix], [find], [node_label],
    [EffectiveTLDProvider::effective_tld_plus_one], [is_effective_tld], [after_or_all], over byte
    strings with explicit indices.  Every Rust operation that can panic (array index, slice bound) is
    an explicit [Panic].  Definitions only; the generated table is in Psl/gen/PslTable.v.

    Not modelled: u32 overflow of the shifts (all shift amounts of the shipped table are < 32, checked
    by [PslData.table_consts_ok]) and the UTF-8 character-boundary check of [&str] slicing (strings are
    bytes here; every cut is at 0, at the end, or next to an ASCII '.'). *)
From Coq Require Import FMapPositive.
From PK Require Import Lib.Bytes Psl.PslSpec.
Open Scope N_scope.

Inductive res (A : Type) := Val (a : A) | Panic.
Arguments Val {A} a.
Arguments Panic {A}.

(** A constant array / string: its length and its elements in a binary trie keyed by index + 1, so that
    a 10 000-element table can be indexed quickly when the model is evaluated.  [arr_of_list] builds
    it from the list literal of the generated file; [PslFacts.index_of_list] and
    [PslFacts.slice_of_list] show that indexing and slicing it are indexing and slicing that list. *)
Record arr (A : Type) := { a_len : N; a_map : PositiveMap.t A }.
Arguments a_len {A} a.
Arguments a_map {A} a.

Fixpoint fill {A} (l : list A) (i : positive) (m : PositiveMap.t A) : PositiveMap.t A :=
  match l with
  | [] => m
  | x :: r => fill r (Pos.succ i) (PositiveMap.add i x m)
  end.
Definition arr_of_list {A} (l : list A) : arr A :=
  {| a_len := N.of_nat (length l); a_map := fill l 1%positive (PositiveMap.empty A) |}.

(** [a[i]] *)
Definition index {A} (a : arr A) (i : N) : res A :=
  match PositiveMap.find (N.succ_pos i) (a_map a) with Some x => Val x | None => Panic end.

(** [&a[offset..][..length]] *)
Fixpoint read {A} (a : arr A) (i : N) (n : nat) : list A :=
  match n with
  | O => []
  | S n' => match PositiveMap.find (N.succ_pos i) (a_map a) with
            | Some x => x :: read a (i + 1) n'
            | None => []
            end
  end.
Definition slice {A} (a : arr A) (offset length : N) : res (list A) :=
  if offset <=? a_len a then                       (* &a[offset..] *)
    if length <=? a_len a - offset                 (*             [..length] *)
    then Val (read a offset (N.to_nat length))
    else Panic
  else Panic.

(** [trait Table]: the associated constants *)
Record table := {
  NODES_BITS_CHILDREN : N;
  NODES_BITS_ICANN : N;
  NODES_BITS_TEXT_OFFSET : N;
  NODES_BITS_TEXT_LENGTH : N;
  CHILDREN_BITS_WILDCARD : N;
  CHILDREN_BITS_NODE_TYPE : N;
  CHILDREN_BITS_HI : N;
  CHILDREN_BITS_LO : N;
  NODE_TYPE_NORMAL : N;
  NODE_TYPE_EXCEPTION : N;
  NUM_TLD : N;
  TEXT : arr N;
  NODES : arr N;
  CHILDREN : arr N
}.
(** [&s[a..]] and [&s[..b]] *)
Definition slice_from (s : bytes) (a : nat) : res bytes :=
  if (a <=? length s)%nat then Val (skipn a s) else Panic.
Definition slice_to (s : bytes) (b : nat) : res bytes :=
  if (b <=? length s)%nat then Val (firstn b s) else Panic.

(** [(1 << k) - 1] *)
Definition mask (k : N) : N := N.shiftl 1 k - 1.

(** [str < str]: lexicographic on bytes *)
Fixpoint blt (a b : bytes) : bool :=
  match a, b with
  | _, [] => false
  | [], _ :: _ => true
  | x :: a', y :: b' => (x <? y) || ((x =? y) && blt a' b')
  end.

(** [s.rfind('.')] *)
Fixpoint rfind_dot (s : bytes) : option nat :=
  match s with
  | [] => None
  | c :: r =>
      match rfind_dot r with
      | Some k => Some (S k)
      | None => if c =? DOT then Some O else None
      end
  end.

(** [fn after_or_all(dot: Option<usize>) -> RangeFrom<usize>]; a [RangeFrom] is its start *)
Definition after_or_all (dot : option nat) : nat :=
  match dot with Some d => (d + 1)%nat | None => O end.

(** [domain.starts_with('.') || domain.ends_with('.') || domain.contains("..")] *)
Definition starts_with_dot (s : bytes) : bool :=
  match s with c :: _ => c =? DOT | [] => false end.
Fixpoint ends_with_dot (s : bytes) : bool :=
  match s with [] => false | [c] => c =? DOT | _ :: r => ends_with_dot r end.
Fixpoint contains_dotdot (s : bytes) : bool :=
  match s with
  | c :: ((c' :: _) as r) => ((c =? DOT) && (c' =? DOT)) || contains_dotdot r
  | _ => false
  end.
Definition empty_label_guard (s : bytes) : bool :=
  starts_with_dot s || ends_with_dot s || contains_dotdot s.

Inductive error := CannotDeriveETldPlus1 | EmptyLabel | InvalidPublicSuffix.

Section WithTable.
  Variable T : table.

  (** [fn node_label(&self, i: u32) -> &'static str] *)
  Definition node_label (i : N) : res bytes :=
    match index (NODES T) i with                                          (* let mut x = T::NODES[i as usize]; *)
    | Panic => Panic
    | Val x =>
        let length := N.land x (mask (NODES_BITS_TEXT_LENGTH T)) in       (* let length = (x & ((1 << ..) - 1)) as usize; *)
        let x := N.shiftr x (NODES_BITS_TEXT_LENGTH T) in                 (* x >>= T::NODES_BITS_TEXT_LENGTH; *)
        let offset := N.land x (mask (NODES_BITS_TEXT_OFFSET T)) in       (* let offset = (x & ((1 << ..) - 1)) as usize; *)
        slice (TEXT T) offset length                                      (* &T::TEXT[offset..][..length] *)
    end.

  (** [fn find(&self, label: &str, mut lo: u32, mut hi: u32) -> Option<usize>]; the [while] loop runs
      at most [hi - lo] times, which is the fuel given by [find] below *)
  Fixpoint find_loop (fuel : nat) (label : bytes) (lo hi : N) : res (option N) :=
    match fuel with
    | O => Panic                                                          (* unreachable, see PslFacts.find_loop_spec *)
    | S fuel' =>
        if lo <? hi then                                                  (* while lo < hi { *)
          let mid := lo + (hi - lo) / 2 in                                (*   let mid = lo + (hi - lo) / 2; *)
          match node_label mid with                                       (*   match self.node_label(mid) { *)
          | Panic => Panic
          | Val s =>
              if blt s label then find_loop fuel' label (mid + 1) hi      (*     s if s < label => lo = mid + 1, *)
              else if beq s label then Val (Some mid)                     (*     s if s == label => return Some(mid), *)
              else find_loop fuel' label lo mid                           (*     _ => hi = mid, *)
          end
        else Val None                                                     (* } None *)
    end.
  Definition find (label : bytes) (lo hi : N) : res (option N) :=
    find_loop (S (N.to_nat (hi - lo))) label lo hi.

  (** the bit-field decoding in the middle of [public_suffix]'s loop body: from the node index [f] to
      [(lo, hi, node type, wildcard)] of its children entry *)
  Definition node_info (f : N) : res (N * N * N * bool) :=
    match index (NODES T) f with
    | Panic => Panic
    | Val nf =>
        let u := N.shiftr nf (NODES_BITS_TEXT_OFFSET T + NODES_BITS_TEXT_LENGTH T) in   (* let mut u = T::NODES[f] >> (.. + ..); *)
        let u := N.shiftr u (NODES_BITS_ICANN T) in                                    (* u >>= T::NODES_BITS_ICANN; *)
        match index (CHILDREN T) (N.land u (mask (NODES_BITS_CHILDREN T))) with         (* u = T::CHILDREN[(u & ..) as usize]; *)
        | Panic => Panic
        | Val u =>
            let lo := N.land u (mask (CHILDREN_BITS_LO T)) in                           (* lo = u & ((1 << T::CHILDREN_BITS_LO) - 1); *)
            let u := N.shiftr u (CHILDREN_BITS_LO T) in                                 (* u >>= T::CHILDREN_BITS_LO; *)
            let hi := N.land u (mask (CHILDREN_BITS_HI T)) in                           (* hi = u & ((1 << T::CHILDREN_BITS_HI) - 1); *)
            let u := N.shiftr u (CHILDREN_BITS_HI T) in                                 (* u >>= T::CHILDREN_BITS_HI; *)
            let ty := N.land u (mask (CHILDREN_BITS_NODE_TYPE T)) in                    (* match u & ((1 << T::CHILDREN_BITS_NODE_TYPE) - 1) *)
            let u := N.shiftr u (CHILDREN_BITS_NODE_TYPE T) in                          (* u >>= T::CHILDREN_BITS_NODE_TYPE; *)
            let wildcard := negb (N.land u (mask (CHILDREN_BITS_WILDCARD T)) =? 0) in   (* wildcard = (u & ..) != 0; *)
            Val (lo, hi, ty, wildcard)
        end
    end.

  (** the ['start: loop] of [public_suffix]; the result is the final [suffix.start].
      [s] loses at least one byte per iteration, which bounds the fuel. *)
  Fixpoint ps_loop (fuel : nat) (lo hi : N) (s : bytes) (suffix : nat) (wildcard : bool) : res nat :=
    match fuel with
    | O => Panic                                                          (* unreachable, see PslFacts.ps_loop_walk *)
    | S fuel' =>
        let dot := rfind_dot s in                                         (* let dot = s.rfind('.'); *)
        let suffix := if wildcard then after_or_all dot else suffix in    (* if wildcard { suffix = after_or_all(dot); } *)
        if lo =? hi then Val suffix else                                  (* if lo == hi { break; } *)
        match slice_from s (after_or_all dot) with                        (* &s[after_or_all(dot)] *)
        | Panic => Panic
        | Val lbl =>
            match find lbl lo hi with                                     (* match self.find(.., lo, hi) *)
            | Panic => Panic
            | Val None => Val suffix                                      (* None => break *)
            | Val (Some f) =>
                match node_info f with
                | Panic => Panic
                | Val (lo', hi', ty, wildcard') =>
                    let continue (suffix : nat) :=                       (* u >>= ..; wildcard = ..; (done in node_info) *)
                      match dot with                                      (* match dot { *)
                      | Some d =>
                          match slice_to s d with                         (*   Some(dot) => s = &s[..dot], *)
                          | Panic => Panic
                          | Val s' => ps_loop fuel' lo' hi' s' suffix wildcard'
                          end
                      | None => Val suffix                                (*   None => break, } *)
                      end in
                    if ty =? NODE_TYPE_NORMAL T then                      (* x if x == T::NODE_TYPE_NORMAL => *)
                      continue (after_or_all dot)                         (*   suffix = after_or_all(dot); *)
                    else if ty =? NODE_TYPE_EXCEPTION T then              (* x if x == T::NODE_TYPE_EXCEPTION => *)
                      Val (1 + length s)%nat                              (*   suffix = (1 + s.len()).. ; break 'start; *)
                    else continue suffix                                  (* _ => keep going *)
                end
            end
        end
    end.

  (** [pub fn public_suffix<'a>(&self, domain: &'a str) -> &'a str] *)
  Definition public_suffix (domain : bytes) : res bytes :=
    match ps_loop (S (length domain)) 0 (NUM_TLD T) domain (length domain) false with
    | Panic => Panic
    | Val suffix =>
        let suffix :=
          if (suffix =? length domain)%nat                                (* if suffix.start == domain.len() { *)
          then after_or_all (rfind_dot domain)                            (*   suffix = after_or_all(domain.rfind('.')); } *)
          else suffix in
        slice_from domain suffix                                          (* &domain[suffix] *)
    end.

  (** [fn effective_tld_plus_one<'a>(&self, domain: &'a str) -> Result<&'a str, Error>] *)
  Definition effective_tld_plus_one (domain : bytes) : res (bytes + error) :=
    if empty_label_guard domain then Val (inr EmptyLabel) else
    match public_suffix domain with                                       (* let response = self.public_suffix(domain); *)
    | Panic => Panic
    | Val response =>
        if (length domain <=? length response)%nat                        (* if domain.len() <= response.len() *)
        then Val (inr CannotDeriveETldPlus1) else
        let i := (length domain - length response - 1)%nat in             (* let i = domain.len() - response.len() - 1; *)
        match nth_error domain i with                                     (* domain.as_bytes()[i] *)
        | None => Panic
        | Some c =>
            if negb (c =? DOT) then Val (inr InvalidPublicSuffix) else    (* != b'.' *)
            match slice_to domain i with                                  (* domain[..i] *)
            | Panic => Panic
            | Val pre =>
                match slice_from domain (after_or_all (rfind_dot pre)) with   (* &domain[after_or_all(..rfind('.'))] *)
                | Panic => Panic
                | Val r => Val (inl r)
                end
            end
        end
    end.

  (** [pub fn is_effective_tld(&self, domain: &str) -> bool] *)
  Definition is_effective_tld (domain : bytes) : res bool :=
    if empty_label_guard domain then Val false else
    match public_suffix domain with
    | Panic => Panic
    | Val response => Val (beq response domain)                           (* response == domain *)
    end.
End WithTable.
