(** The label-level table walk of public-suffix/src/lib.rs over an abstract trie, and the theorem that
    it computes the publicsuffix.org algorithm (Psl/PslSpec.v) on the rules the trie represents:
    for EVERY trie whose siblings have distinct labels and EVERY list of labels.
    (Grown from design-notes/PslWalk_prototype.v.)

    The correspondence between loop and algorithm: the walk applies the parent's wildcard bit before
    looking the label up, and only when a further label exists - the "domain has more labels than the
    rule" side condition of "*." rules; normal nodes on the path overwrite the suffix with strictly
    growing depths ("most labels wins"); an exception node overwrites whatever was found and stops
    ("exception prevails", minus its left-most label). *)
From Coq Require Import List Arith Lia Bool.
From PK Require Import Psl.PslSpec.
Import ListNotations.
Close Scope N_scope.

Section PSL.
Context {L : Type} (eqb : L -> L -> bool) (eqb_spec : forall a b, reflect (a = b) (eqb a b)).

Notation Rule := (@grule L).
Notation prefix := (prefix eqb).
Notation matches := (matches eqb).
Notation rule_labels := (@rule_labels L).

Inductive ntype := TNormal | TExc | TParent.
Inductive trie := Node (l : L) (ty : ntype) (w : bool) (cs : list trie).
Definition tlabel t := match t with Node l _ _ _ => l end.

Definition own (ty : ntype) : list Rule :=
  match ty with TNormal => [(KNormal, [])] | TExc => [(KExc, [])] | TParent => [] end.
Definition wild (w : bool) : list Rule := if w then [(KWild, [])] else [].
Definition shift (l : L) (r : Rule) : Rule := (fst r, l :: snd r).

Fixpoint rules_of (t : trie) : list Rule :=
  match t with Node l ty w cs => map (shift l) (own ty ++ wild w ++ flat_map rules_of cs) end.
Definition forest_rules (cs : list trie) := flat_map rules_of cs.


Definition exc_match (R : list Rule) d r := In r R /\ fst r = KExc /\ matches r d = true.
Definition nonexc_match (R : list Rule) d r := In r R /\ fst r <> KExc /\ matches r d = true.

(* relational outcome, relative to depth i and incoming suffix *)
Definition out_of (R : list Rule) (rest : list L) (i : nat) (suf o : option nat) : Prop :=
  (exists r, exc_match R rest r /\ (forall r', exc_match R rest r' -> length (snd r) <= length (snd r'))
             /\ o = Some (i + length (snd r) - 1))
  \/ ((forall r, ~ exc_match R rest r) /\
      exists r, nonexc_match R rest r /\ (forall r', nonexc_match R rest r' -> rule_labels r' <= rule_labels r)
                /\ o = Some (i + rule_labels r))
  \/ ((forall r, ~ exc_match R rest r) /\ (forall r, ~ nonexc_match R rest r) /\ o = suf).

Fixpoint lookup (l : L) (cs : list trie) : option trie :=
  match cs with [] => None | c :: cs' => if eqb (tlabel c) l then Some c else lookup l cs' end.

Fixpoint walk (cs : list trie) (w : bool) (rest : list L) (i : nat) (suf : option nat) : option nat :=
  match rest with
  | [] => suf
  | l :: rest' =>
    let suf1 := if w then Some (S i) else suf in
    match lookup l cs with
    | None => suf1
    | Some (Node _ ty w' cs') =>
      match ty with
      | TExc => Some i
      | TNormal => walk cs' w' rest' (S i) (Some (S i))
      | TParent => walk cs' w' rest' (S i) suf1
      end
    end
  end.

(* well-formedness: labels of siblings pairwise distinct, recursively *)
Inductive wf : list trie -> Prop :=
| wf_nil : wf []
| wf_cons l ty w cs' cs : ~ In l (map tlabel cs) -> wf cs' -> wf cs -> wf (Node l ty w cs' :: cs).

Lemma eqb_refl a : eqb a a = true.
Proof. destruct (eqb_spec a a); congruence. Qed.
Lemma eqb_neq a b : a <> b -> eqb a b = false.
Proof. destruct (eqb_spec a b); congruence. Qed.

Lemma matches_shift l l' r d : matches (shift l r) (l' :: d) = eqb l l' && matches r d.
Proof.
  destruct r as [k p]; unfold matches, shift; cbn [fst snd prefix length].
  destruct k; try reflexivity.
  change (S (length p) <? S (length d)) with (length p <? length d).
  now rewrite andb_assoc.
Qed.
Lemma matches_nil r : matches r [] = true -> snd r = [] /\ fst r <> KWild.
Proof.
  destruct r as [k p]; unfold matches; cbn [fst snd]. destruct k, p; cbn; try discriminate; intuition congruence.
Qed.
Lemma rlen_shift l r : rule_labels (shift l r) = S (rule_labels r).
Proof. destruct r as [k p]; unfold rule_labels, shift; cbn. destruct k; reflexivity. Qed.
Lemma fst_shift l r : fst (shift l r) = fst r. Proof. reflexivity. Qed.
Lemma len_shift l r : length (snd (shift l r)) = S (length (snd r)). Proof. reflexivity. Qed.

Lemma in_forest r cs : In r (forest_rules cs) <-> exists c, In c cs /\ In r (rules_of c).
Proof. unfold forest_rules. rewrite in_flat_map. reflexivity. Qed.

Lemma in_rules_of r l ty w cs :
  In r (rules_of (Node l ty w cs)) <-> exists r0, r = shift l r0 /\ In r0 (own ty ++ wild w ++ forest_rules cs).
Proof. cbn [rules_of]. rewrite in_map_iff. split; intros [r0 [H1 H2]]; exists r0; split; auto. Qed.

Lemma rules_of_head r c : In r (rules_of c) -> exists r0, r = shift (tlabel c) r0.
Proof. destruct c as [l ty w cs]. rewrite in_rules_of. intros [r0 [-> _]]. now exists r0. Qed.

Lemma lookup_none l cs : lookup l cs = None -> forall c, In c cs -> tlabel c <> l.
Proof.
  induction cs as [|c cs IH]; cbn; intros H c' Hin; [easy|].
  destruct (eqb_spec (tlabel c) l) as [E|E]; [discriminate|].
  destruct Hin as [<-|Hin]; auto.
Qed.
Lemma lookup_some l cs c : wf cs -> lookup l cs = Some c ->
  In c cs /\ tlabel c = l /\ forall c', In c' cs -> tlabel c' = l -> c' = c.
Proof.
  induction 1 as [|l0 ty w cs' cs Hn Hw' _ Hw IH]; cbn; [discriminate|].
  destruct (eqb_spec l0 l) as [E|E]; intros H.
  - inversion H; subst; clear H. split; [now left|]. split; [reflexivity|].
    intros c' [<-|Hin] Hl; [reflexivity|]. exfalso. apply Hn. rewrite <- Hl. now apply in_map.
  - destruct (IH H) as (Hin & Hl & Hu). split; [now right|]. split; [exact Hl|].
    intros c' [<-|Hin'] Hl'; [cbn in Hl'; congruence|]. now apply Hu.
Qed.
Lemma wf_children l ty w cs' cs : wf cs -> In (Node l ty w cs') cs -> wf cs'.
Proof. induction 1; cbn; [easy|]. intros [E|Hin]; [inversion E; subst; assumption|auto]. Qed.

(* matching rules of R = wild w ++ forest cs against l :: rest' *)
Lemma wild_match w l rest r : In r (wild w) -> matches r (l :: rest) = true /\ fst r = KWild /\ rule_labels r = 1 /\ w = true.
Proof. destruct w; cbn; [intros [<-|[]]; cbn; auto | easy]. Qed.

Lemma forest_match_none l cs rest r :
  lookup l cs = None -> In r (forest_rules cs) -> matches r (l :: rest) = false.
Proof.
  intros Hl Hin. apply in_forest in Hin as [c [Hc Hr]].
  destruct (rules_of_head _ _ Hr) as [r0 ->]. rewrite matches_shift.
  rewrite eqb_neq; [reflexivity|]. now apply (lookup_none _ _ Hl).
Qed.

Lemma forest_match_some l cs rest r lc ty w' cs' :
  wf cs -> lookup l cs = Some (Node lc ty w' cs') ->
  (In r (forest_rules cs) /\ matches r (l :: rest) = true) <->
  (exists r0, r = shift l r0 /\ In r0 (own ty ++ wild w' ++ forest_rules cs') /\ matches r0 rest = true).
Proof.
  intros Hwf Hl. destruct (lookup_some _ _ _ Hwf Hl) as (Hin & Hlab & Huniq). cbn in Hlab; subst lc.
  split.
  - intros [Hr Hm]. apply in_forest in Hr as [c [Hc Hr]].
    destruct (rules_of_head _ _ Hr) as [r0 E]. subst r. rewrite matches_shift in Hm.
    apply andb_true_iff in Hm as [He Hm]. destruct (eqb_spec (tlabel c) l) as [E|]; [|discriminate].
    specialize (Huniq c Hc E). subst c. apply in_rules_of in Hr as [r1 [E1 Hr1]].
    cbn [tlabel] in E1. assert (r1 = r0) by (destruct r0, r1; unfold shift in E1; cbn in E1; congruence). subst r1.
    exists r0. auto.
  - intros [r0 (-> & Hr0 & Hm)]. split.
    + apply in_forest. eexists; split; [exact Hin|]. apply in_rules_of. eauto.
    + now rewrite matches_shift, eqb_refl.
Qed.

Lemma own_cases ty r : In r (own ty) -> snd r = [] /\ ((ty = TNormal /\ fst r = KNormal) \/ (ty = TExc /\ fst r = KExc)).
Proof. destruct ty; cbn; [intros [<-|[]]|intros [<-|[]]|easy]; cbn; auto. Qed.


Lemma own_facts ty r : In r (own ty) ->
  snd r = [] /\ rule_labels r = 0 /\ forall d, matches r d = true.
Proof. destruct ty; cbn; [intros [<-|[]]|intros [<-|[]]|easy]; cbn; auto. Qed.
Lemma own_kind ty r : In r (own ty) -> (ty = TNormal /\ fst r = KNormal) \/ (ty = TExc /\ fst r = KExc).
Proof. destruct ty; cbn; [intros [<-|[]]|intros [<-|[]]|easy]; cbn; auto. Qed.

Lemma deep_len r0 w' cs' rest : In r0 (wild w' ++ forest_rules cs') -> matches r0 rest = true -> 1 <= rule_labels r0.
Proof.
  intros Hin Hm. apply in_app_or in Hin as [H|H].
  - destruct w'; cbn in H; [destruct H as [<-|[]]; cbn; lia|easy].
  - apply in_forest in H as [c [_ Hr]]. destruct (rules_of_head _ _ Hr) as [r1 ->]. rewrite rlen_shift. lia.
Qed.
Lemma deep_exc_len r0 w' cs' : In r0 (wild w' ++ forest_rules cs') -> fst r0 = KExc -> 1 <= length (snd r0).
Proof.
  intros Hin Hk. apply in_app_or in Hin as [H|H].
  - destruct w'; cbn in H; [destruct H as [<-|[]]; discriminate|easy].
  - apply in_forest in H as [c [_ Hr]]. destruct (rules_of_head _ _ Hr) as [r1 ->]. cbn. lia.
Qed.

Lemma split_matches l cs rest w lc ty w' cs' :
  wf cs -> lookup l cs = Some (Node lc ty w' cs') ->
  forall r, (In r (wild w ++ forest_rules cs) /\ matches r (l :: rest) = true) <->
     (In r (wild w)
      \/ (exists r1, r = shift l r1 /\ In r1 (own ty))
      \/ (exists r0, r = shift l r0 /\ In r0 (wild w' ++ forest_rules cs') /\ matches r0 rest = true)).
Proof.
  intros Hwf Hl r. rewrite in_app_iff. split.
  - intros [[H|H] Hm]; [now left|right].
    destruct (proj1 (forest_match_some l cs rest r lc ty w' cs' Hwf Hl) (conj H Hm)) as (r0 & -> & Hin & Hm0).
    apply in_app_or in Hin as [Hin|Hin]; [left|right]; exists r0; auto.
  - intros [H|[(r1 & -> & H)|(r0 & -> & H & Hm)]].
    + split; [now left|apply (wild_match _ _ _ _ H)].
    + destruct (proj2 (forest_match_some l cs rest (shift l r1) lc ty w' cs' Hwf Hl)) as [A B]; [|split; [now right|exact B]].
      exists r1. repeat split; [apply in_or_app; now left| apply (own_facts _ _ H)].
    + destruct (proj2 (forest_match_some l cs rest (shift l r0) lc ty w' cs' Hwf Hl)) as [A B]; [|split; [now right|exact B]].
      exists r0. repeat split; [apply in_or_app; now right|exact Hm].
Qed.


Lemma kind_exc_dec (r : Rule) : fst r = KExc \/ fst r <> KExc.
Proof. destruct (fst r); [right|right|left]; congruence. Qed.

Lemma wild_facts w r : In r (wild w) -> r = (KWild, []) /\ w = true.
Proof. destruct w; cbn; [intros [<-|[]]; auto|easy]. Qed.

Lemma nat1 i n : i + S n - 1 = S i + n - 1. Proof. lia. Qed.

Theorem walk_out : forall rest cs w i suf, wf cs ->
  out_of (wild w ++ forest_rules cs) rest i suf (walk cs w rest i suf).
Proof.
  induction rest as [|l rest IH]; intros cs w i suf Hwf.
  - cbn [walk]. right; right. repeat split; auto.
    + intros r (Hin & Hk & Hm). apply matches_nil in Hm as [Hs Hw]. apply in_app_or in Hin as [Hin|Hin].
      * destruct w; cbn in Hin; [destruct Hin as [<-|[]]; cbn in Hk; discriminate|easy].
      * apply in_forest in Hin as [c [_ Hr]]. destruct (rules_of_head _ _ Hr) as [r0 ->]. discriminate.
    + intros r (Hin & Hk & Hm). apply matches_nil in Hm as [Hs Hw]. apply in_app_or in Hin as [Hin|Hin].
      * destruct w; cbn in Hin; [destruct Hin as [<-|[]]; cbn in Hw; congruence|easy].
      * apply in_forest in Hin as [c [_ Hr]]. destruct (rules_of_head _ _ Hr) as [r0 ->]. discriminate.
  - cbn [walk]. set (suf1 := if w then Some (S i) else suf).
    set (R := wild w ++ forest_rules cs).
    destruct (lookup l cs) as [[lc ty w' cs']|] eqn:Hl.
    + assert (Hwf' : wf cs') by (destruct (lookup_some _ _ _ Hwf Hl) as (Hin & _ & _); eapply wf_children; eauto).
      pose proof (split_matches l cs rest w lc ty w' cs' Hwf Hl) as SM. fold R in SM.
      set (R' := wild w' ++ forest_rules cs') in *.
      assert (Hdeep_in : forall r0, In r0 R' -> matches r0 rest = true -> In (shift l r0) R /\ matches (shift l r0) (l :: rest) = true).
      { intros r0 H1 H2. apply SM. right; right. eauto. }
      assert (Hown_in : forall r1, In r1 (own ty) -> In (shift l r1) R /\ matches (shift l r1) (l :: rest) = true).
      { intros r1 H1. apply SM. right; left. eauto. }
      assert (Hwild_in : forall r1, In r1 (wild w) -> In r1 R /\ matches r1 (l :: rest) = true).
      { intros r1 H1. apply SM. now left. }
      (* the two inherited cases (exception below / best below) do not depend on the node type,
         except that own rules are never longer/better *)
      assert (CaseExc : forall r0 sufx, exc_match R' rest r0 ->
                 (forall r', exc_match R' rest r' -> length (snd r0) <= length (snd r')) ->
                 ty <> TExc ->
                 out_of R (l :: rest) i sufx (Some (S i + length (snd r0) - 1))).
      { intros r0 sufx (Hin0 & Hk0 & Hm0) Hmin Hty. left. exists (shift l r0).
        destruct (Hdeep_in r0 Hin0 Hm0) as [A B]. split; [repeat split; auto|]. split.
        - intros r' (Hin' & Hk' & Hm').
          destruct (proj1 (SM r') (conj Hin' Hm')) as [X|[(r1 & E & X)|(r2 & E & X & Hm2)]].
          + apply wild_facts in X as [-> _]. discriminate.
          + subst r'. destruct (own_kind _ _ X) as [[_ Hf]|[Hf _]]; [cbn in Hk'; congruence|contradiction].
          + subst r'. rewrite !len_shift. apply le_n_S. apply Hmin. repeat split; auto.
        - rewrite len_shift. f_equal. symmetry. apply nat1. }
      assert (CaseBest : forall r0 sufx, (forall r, ~ exc_match R' rest r) -> nonexc_match R' rest r0 ->
                 (forall r', nonexc_match R' rest r' -> rule_labels r' <= rule_labels r0) ->
                 ty <> TExc ->
                 out_of R (l :: rest) i sufx (Some (S i + rule_labels r0))).
      { intros r0 sufx Hne (Hin0 & Hk0 & Hm0) Hmax Hty. right; left. split.
        - intros r' (Hin' & Hk' & Hm').
          destruct (proj1 (SM r') (conj Hin' Hm')) as [X|[(r1 & E & X)|(r2 & E & X & Hm2)]].
          + apply wild_facts in X as [-> _]. discriminate.
          + subst r'. destruct (own_kind _ _ X) as [[_ Hf]|[Hf _]]; [cbn in Hk'; congruence|contradiction].
          + subst r'. apply (Hne r2). repeat split; auto.
        - exists (shift l r0). destruct (Hdeep_in r0 Hin0 Hm0) as [A B]. split; [repeat split; auto|]. split.
          + intros r' (Hin' & Hk' & Hm'). pose proof (deep_len r0 w' cs' rest Hin0 Hm0) as Hge.
            destruct (proj1 (SM r') (conj Hin' Hm')) as [X|[(r1 & E & X)|(r2 & E & X & Hm2)]].
            * apply wild_facts in X as [-> _]. rewrite rlen_shift. cbn. lia.
            * subst r'. rewrite !rlen_shift. destruct (own_facts _ _ X) as (_ & -> & _). lia.
            * subst r'. rewrite !rlen_shift. apply le_n_S. apply Hmax. repeat split; auto.
          + rewrite rlen_shift. f_equal. lia. }
      destruct ty.
      * (* TNormal *)
        specialize (IH cs' w' (S i) (Some (S i)) Hwf'). fold R' in IH. destruct IH as [IH|[IH|IH]].
        -- destruct IH as (r0 & Hex & Hmin & ->). apply CaseExc; auto; discriminate.
        -- destruct IH as (Hne & r0 & Hnm & Hmax & ->). apply CaseBest; auto; discriminate.
        -- destruct IH as (Hne & Hnn & ->). right; left. split.
           ++ intros r' (Hin' & Hk' & Hm').
              destruct (proj1 (SM r') (conj Hin' Hm')) as [X|[(r1 & E & X)|(r2 & E & X & Hm2)]].
              ** apply wild_facts in X as [-> _]. discriminate.
              ** subst r'. destruct (own_kind _ _ X) as [[_ Hf]|[Hf _]]; [cbn in Hk'; congruence|discriminate].
              ** subst r'. apply (Hne r2). repeat split; auto.
           ++ exists (shift l (KNormal, [])). destruct (Hown_in (KNormal, [])) as [A B]; [cbn; now left|].
              split; [repeat split; auto; cbn; discriminate|]. split.
              ** intros r' (Hin' & Hk' & Hm').
                 destruct (proj1 (SM r') (conj Hin' Hm')) as [X|[(r1 & E & X)|(r2 & E & X & Hm2)]].
                 --- apply wild_facts in X as [-> _]. cbn. lia.
                 --- subst r'. rewrite !rlen_shift. destruct (own_facts _ _ X) as (_ & -> & _). cbn. lia.
                 --- subst r'. exfalso. destruct (kind_exc_dec r2) as [Hk2|Hk2].
                     +++ apply (Hne r2). repeat split; auto.
                     +++ apply (Hnn r2). repeat split; auto.
              ** cbn. f_equal. lia.
      * (* TExc *)
        left. exists (shift l (KExc, [])). destruct (Hown_in (KExc, [])) as [A B]; [cbn; now left|].
        split; [repeat split; auto|]. split.
        -- intros r' (Hin' & Hk' & Hm').
           destruct (proj1 (SM r') (conj Hin' Hm')) as [X|[(r1 & E & X)|(r2 & E & X & Hm2)]].
           ++ apply wild_facts in X as [-> _]. discriminate.
           ++ subst r'. rewrite !len_shift. destruct (own_facts _ _ X) as (-> & _ & _). cbn. lia.
           ++ subst r'. rewrite !len_shift. cbn. lia.
        -- cbn. f_equal. lia.
      * (* TParent *)
        specialize (IH cs' w' (S i) suf1 Hwf'). fold R' in IH. destruct IH as [IH|[IH|IH]].
        -- destruct IH as (r0 & Hex & Hmin & ->). apply CaseExc; auto; discriminate.
        -- destruct IH as (Hne & r0 & Hnm & Hmax & ->). apply CaseBest; auto; discriminate.
        -- destruct IH as (Hne & Hnn & ->).
           assert (NoExc : forall r, ~ exc_match R (l :: rest) r).
           { intros r' (Hin' & Hk' & Hm').
             destruct (proj1 (SM r') (conj Hin' Hm')) as [X|[(r1 & E & X)|(r2 & E & X & Hm2)]].
             - apply wild_facts in X as [-> _]. discriminate.
             - destruct X.
             - subst r'. apply (Hne r2). repeat split; auto. }
           assert (OnlyWild : forall r', In r' R -> matches r' (l :: rest) = true -> r' = (KWild, []) /\ w = true).
           { intros r' Hin' Hm'.
             destruct (proj1 (SM r') (conj Hin' Hm')) as [X|[(r1 & E & X)|(r2 & E & X & Hm2)]].
             - now apply wild_facts.
             - destruct X.
             - exfalso. destruct (kind_exc_dec r2) as [Hk2|Hk2]; [apply (Hne r2)|apply (Hnn r2)]; repeat split; auto. }
           destruct w eqn:Ew.
           ++ right; left. split; [exact NoExc|]. exists (KWild, []).
              destruct (Hwild_in (KWild, [])) as [A B]; [cbn; now left|].
              split; [repeat split; auto; cbn; discriminate|]. split.
              ** intros r' (Hin' & _ & Hm'). destruct (OnlyWild r' Hin' Hm') as [-> _]. lia.
              ** subst suf1. cbn. f_equal. lia.
           ++ right; right. split; [exact NoExc|]. split; [|reflexivity].
              intros r' (Hin' & _ & Hm'). destruct (OnlyWild r' Hin' Hm') as [_ ?]. discriminate.
    + (* label not found among the children *)
      assert (OnlyWild : forall r', In r' R -> matches r' (l :: rest) = true -> r' = (KWild, []) /\ w = true).
      { intros r' Hin' Hm'. apply in_app_or in Hin' as [X|X]; [now apply wild_facts|].
        rewrite (forest_match_none l cs rest r' Hl X) in Hm'. discriminate. }
      assert (NoExc : forall r, ~ exc_match R (l :: rest) r).
      { intros r' (Hin' & Hk' & Hm'). destruct (OnlyWild r' Hin' Hm') as [-> _]. discriminate. }
      destruct w eqn:Ew.
      * right; left. split; [exact NoExc|]. exists (KWild, []). split.
        -- split; [apply in_or_app; left; cbn; now left|]. split; [cbn; discriminate | reflexivity].
        -- split; [|subst suf1; cbn; f_equal; lia].
           intros r' (Hin' & _ & Hm'). destruct (OnlyWild r' Hin' Hm') as [-> _]. lia.
      * right; right. split; [exact NoExc|]. split; [|reflexivity].
        intros r' (Hin' & _ & Hm'). destruct (OnlyWild r' Hin' Hm') as [_ ?]. discriminate.
Qed.


(** *** The algorithm of PslSpec as a relation (so that it does not depend on the order or the
    multiplicity of the rules), and the executable [psl_len] satisfies it. *)
Definition psl_rel (R : list Rule) (d : list L) (k : nat) : Prop :=
  (exists r, exc_match R d r /\ (forall r', exc_match R d r' -> length (snd r) <= length (snd r'))
             /\ k = length (snd r) - 1)
  \/ ((forall r, ~ exc_match R d r) /\
      exists r, nonexc_match R d r /\ (forall r', nonexc_match R d r' -> rule_labels r' <= rule_labels r)
                /\ k = rule_labels r)
  \/ ((forall r, ~ exc_match R d r) /\ (forall r, ~ nonexc_match R d r) /\ k = 1).

Definition olen (o : option nat) : nat := match o with Some k => k | None => 1 end.

Lemma out_of_rel R d o : out_of R d 0 None o -> psl_rel R d (olen o).
Proof.
  intros [H|[H|H]].
  - destruct H as (r & He & Hmin & ->). left. exists r. split; [exact He|]. split; [exact Hmin|reflexivity].
  - destruct H as (Hne & r & Hn & Hmax & ->). right; left. split; [exact Hne|]. exists r.
    split; [exact Hn|]. split; [exact Hmax|reflexivity].
  - destruct H as (Hne & Hnn & ->). right; right. split; [exact Hne|]. split; [exact Hnn|reflexivity].
Qed.

Lemma psl_rel_fun R d k k' : psl_rel R d k -> psl_rel R d k' -> k = k'.
Proof.
  intros [H|[H|H]] [H'|[H'|H']].
  - destruct H as (r & He & Hmin & ->), H' as (r' & He' & Hmin' & ->).
    pose proof (Hmin _ He'). pose proof (Hmin' _ He). lia.
  - destruct H as (r & He & _), H' as (Hne & _). destruct (Hne _ He).
  - destruct H as (r & He & _), H' as (Hne & _). destruct (Hne _ He).
  - destruct H' as (r & He & _), H as (Hne & _). destruct (Hne _ He).
  - destruct H as (_ & r & Hn & Hmax & ->), H' as (_ & r' & Hn' & Hmax' & ->).
    pose proof (Hmax _ Hn'). pose proof (Hmax' _ Hn). lia.
  - destruct H as (_ & r & Hn & _), H' as (_ & Hnn & _). destruct (Hnn _ Hn).
  - destruct H' as (r & He & _), H as (Hne & _). destruct (Hne _ He).
  - destruct H' as (_ & r & Hn & _), H as (_ & Hnn & _). destruct (Hnn _ Hn).
  - destruct H as (_ & _ & ->), H' as (_ & _ & ->). reflexivity.
Qed.

Lemma psl_rel_ext R R' d k : (forall r, In r R <-> In r R') -> psl_rel R d k -> psl_rel R' d k.
Proof.
  intros E.
  assert (Ee : forall r, exc_match R d r <-> exc_match R' d r) by (intros r; unfold exc_match; rewrite E; tauto).
  assert (En : forall r, nonexc_match R d r <-> nonexc_match R' d r) by (intros r; unfold nonexc_match; rewrite E; tauto).
  intros [H|[H|H]].
  - destruct H as (r & He & Hmin & ->). left. exists r. split; [now apply Ee|]. split; [|reflexivity].
    intros r' Hr'. apply Hmin. now apply Ee.
  - destruct H as (Hne & r & Hn & Hmax & ->). right; left. split; [intros r' Hr'; apply (Hne r'); now apply Ee|].
    exists r. split; [now apply En|]. split; [|reflexivity]. intros r' Hr'. apply Hmax. now apply En.
  - destruct H as (Hne & Hnn & ->). right; right. split; [intros r' Hr'; apply (Hne r'); now apply Ee|].
    split; [intros r' Hr'; apply (Hnn r'); now apply En|reflexivity].
Qed.

Lemma fold_min_spec {A} (f : A -> nat) e es :
  (exists x, In x (e :: es) /\ f x = fold_right Nat.min (f e) (map f es))
  /\ forall y, In y (e :: es) -> fold_right Nat.min (f e) (map f es) <= f y.
Proof.
  induction es as [|a es [(x & Hx & Ex) IH]]; cbn [map fold_right].
  - split; [exists e; split; [now left|reflexivity]|]. intros y [<-|[]]. lia.
  - split.
    + destruct (Nat.le_ge_cases (f a) (fold_right Nat.min (f e) (map f es))) as [Hle|Hle].
      * exists a. split; [right; now left|]. rewrite Nat.min_l; auto.
      * exists x. split; [destruct Hx as [<-|Hx]; [now left|right; now right]|]. rewrite Nat.min_r; auto.
    + intros y [<-|[<-|Hy]].
      * etransitivity; [apply Nat.le_min_r|]. apply IH. now left.
      * apply Nat.le_min_l.
      * etransitivity; [apply Nat.le_min_r|]. apply IH. now right.
Qed.

Lemma fold_max_spec {A} (f : A -> nat) e es :
  (exists x, In x (e :: es) /\ f x = fold_right Nat.max (f e) (map f es))
  /\ forall y, In y (e :: es) -> f y <= fold_right Nat.max (f e) (map f es).
Proof.
  induction es as [|a es [(x & Hx & Ex) IH]]; cbn [map fold_right].
  - split; [exists e; split; [now left|reflexivity]|]. intros y [<-|[]]. lia.
  - split.
    + destruct (Nat.le_ge_cases (f a) (fold_right Nat.max (f e) (map f es))) as [Hle|Hle].
      * exists x. split; [destruct Hx as [<-|Hx]; [now left|right; now right]|]. rewrite Nat.max_r; auto.
      * exists a. split; [right; now left|]. rewrite Nat.max_l; auto.
    + intros y [<-|[<-|Hy]].
      * etransitivity; [|apply Nat.le_max_r]. apply IH. now left.
      * apply Nat.le_max_l.
      * etransitivity; [|apply Nat.le_max_r]. apply IH. now right.
Qed.

Lemma is_exc_iff (r : Rule) : is_exc r = true <-> fst r = KExc.
Proof. unfold is_exc. destruct (fst r); split; congruence. Qed.

Lemma exc_labels (r : Rule) : fst r = KExc -> rule_labels r = length (snd r).
Proof. unfold PslSpec.rule_labels. intros ->. reflexivity. Qed.

Theorem psl_len_rel R d : psl_rel R d (psl_len eqb R d).
Proof.
  unfold psl_len. set (ms := filter (fun r => matches r d) R).
  assert (Hms : forall r, In r ms <-> In r R /\ matches r d = true) by (intros r; unfold ms; apply filter_In).
  assert (Hex : forall r, In r (filter is_exc ms) <-> exc_match R d r).
  { intros r. rewrite filter_In, Hms, is_exc_iff. unfold exc_match. tauto. }
  destruct (filter is_exc ms) as [|e es] eqn:Eex.
  - assert (Hne : forall r, ~ exc_match R d r) by (intros r Hr; apply Hex in Hr; destruct Hr).
    assert (Hnn : forall r, In r ms <-> nonexc_match R d r).
    { intros r. rewrite Hms. unfold nonexc_match. split; [|tauto]. intros [Hin Hm]. repeat split; auto.
      intros Hk. apply (Hne r). repeat split; auto. }
    destruct ms as [|m ms'] eqn:Ems.
    + right; right. repeat split; auto. intros r Hr. apply Hnn in Hr. destruct Hr.
    + right; left. split; [exact Hne|].
      destruct (fold_max_spec rule_labels m ms') as [(x & Hx & Ex) Hmax].
      exists x. split; [now apply Hnn|]. split; [|now rewrite Ex].
      intros r' Hr'. rewrite Ex. apply Hmax. now apply Hnn.
  - left. destruct (fold_min_spec rule_labels e es) as [(x & Hx & Ex) Hmin].
    assert (Hxe : exc_match R d x) by now apply Hex.
    exists x. split; [exact Hxe|]. split.
    + intros r' Hr'. pose proof Hr' as Hr''. apply Hex in Hr'. apply Hmin in Hr'.
      rewrite <- Ex in Hr'. rewrite !exc_labels in Hr'; [exact Hr'|apply Hr''|apply Hxe].
    + rewrite <- Ex. rewrite exc_labels; [reflexivity|apply Hxe].
Qed.

(** the spec does not depend on the order or multiplicity of the rules *)
Theorem psl_len_ext R R' d : (forall r, In r R <-> In r R') -> psl_len eqb R d = psl_len eqb R' d.
Proof.
  intros E. apply (psl_rel_fun R' d); [|apply psl_len_rel].
  apply (psl_rel_ext R R'); [exact E|apply psl_len_rel].
Qed.

(** *** walk = spec *)
Theorem walk_correct : forall cs d, wf cs ->
  olen (walk cs false d 0 None) = psl_len eqb (forest_rules cs) d.
Proof.
  intros cs d Hwf. apply (psl_rel_fun (forest_rules cs) d); [|apply psl_len_rel].
  apply out_of_rel. exact (walk_out d cs false 0 None Hwf).
Qed.

End PSL.
