(** Correspondence checks and the property oracle for the public-suffix domain (C10).
    Everything here is executable and is evaluated by generated case files. *)
From PK Require Import Lib.Bytes Lib.Check Psl.PslSpec Psl.PslModel Psl.PslShipped.
Open Scope N_scope.

(** One case: a name (UTF-8 bytes of the Rust [&str]) and what the real crate answered.
    [ps]: [Some suffix], [None] if the call panicked.
    [etld1]: [Some (inl r)] for [Ok(r)], [Some (inr e)] for [Err] with [e] = 0 CannotDeriveETldPlus1,
             1 EmptyLabel, 2 InvalidPublicSuffix; [None] if the call panicked.
    [tld]: [is_effective_tld]. *)
Inductive pcase := CPsl (d : bytes) (ps : option bytes) (etld1 : option (bytes + N)) (tld : option bool).

Definition err_code (e : error) : N :=
  match e with CannotDeriveETldPlus1 => 0 | EmptyLabel => 1 | InvalidPublicSuffix => 2 end.

Definition res_opt {A} (r : res A) : option A := match r with Val a => Some a | Panic => None end.

Definition sum_eqb (a b : bytes + N) : bool :=
  match a, b with
  | inl x, inl y => beq x y
  | inr x, inr y => x =? y
  | _, _ => false
  end.

(** model = implementation *)
Definition agree (c : pcase) : bool :=
  match c with
  | CPsl d ps etld1 tld =>
      opt_eqb beq (res_opt (public_suffix TABLE d)) ps
      && opt_eqb sum_eqb
           (res_opt (match effective_tld_plus_one TABLE d with
                     | Val (inl r) => Val (inl r)
                     | Val (inr e) => Val (inr (err_code e))
                     | Panic => Panic
                     end)) etld1
      && opt_eqb Bool.eqb (res_opt (is_effective_tld TABLE d)) tld
  end.

(** the three answers of the spec with the rule matching done once: by definition
    [(psl_suffix R d, psl_etld1 R d, psl_is_suffix R d)] ([spec3_eq], by reflexivity) *)
Definition spec3 (R : list rule) (d : bytes) : bytes * option bytes * bool :=
  let ls := dom_labels d in
  let k := psl_len beq R ls in
  let e := has_empty_label d in
  (last_labels k d,
   if e then None else if (k <? length ls)%nat then Some (last_labels (S k) d) else None,
   negb e && (length ls <=? k)%nat).
Lemma spec3_eq R d : spec3 R d = (psl_suffix R d, psl_etld1 R d, psl_is_suffix R d).
Proof. reflexivity. Qed.

(** the property on the implementation's answers alone: they are the answers of the publicsuffix.org
    algorithm (Psl/PslSpec.v) on the shipped rule file; nothing of the model is used.
    [is_effective_tld("")] is left open (the statement does not speak about it; [agree] pins it). *)
Definition oracle (c : pcase) : bool :=
  match c with
  | CPsl d ps etld1 tld =>
      let '(s_suffix, s_etld1, s_is_suffix) := spec3 RULES d in
      opt_eqb beq ps (Some s_suffix)
      && match etld1, s_etld1 with
         | Some (inl r), Some r' => beq r r'
         | Some (inr _), None => true
         | _, _ => false
         end
      && match d with
         | [] => match tld with Some _ => true | None => false end
         | _ => opt_eqb Bool.eqb tld (Some s_is_suffix)
         end
  end.
