(** The publicsuffix.org algorithm (https://github.com/publicsuffix/list/wiki/Format#algorithm),
    written from that text, independently of the table walk of public-suffix/src/lib.rs.
    Definitions only.

      1. Match domain against all rules and take note of the matching ones.
      2. If no rules match, the prevailing rule is "*".
      3. If more than one rule matches, the prevailing rule is the one which is an exception rule.
      4. If there is no matching exception rule, the prevailing rule is the one with the most labels.
      5. If the prevailing rule is a exception rule, modify it by removing the leftmost label.
      6. The public suffix is the set of labels from the domain which match the labels of the
         prevailing rule, using the matching algorithm above.
      7. The registered or registrable domain is the public suffix plus one additional label.

    A domain matches a rule when it has at least as many labels as the rule and, from the right-most
    label on, every label of the rule is identical to the domain's label or is "*".

    Representation.  A domain name and a rule are lists of labels read from the RIGHT (the TLD first),
    which is the order in which they are matched.  The list format only allows "*" as the left-most
    label of a rule and "!" in front of a rule, so a rule is a kind and its remaining labels:
        com        (KNormal, [com])
        *.ck       (KWild,   [ck])          two labels, the left-most one matches anything
        !www.ck    (KExc,    [ck; www])
    If several exception rules match (the shipped list never has one exception rule below another) the
    shortest one prevails. *)
From PK Require Import Lib.Bytes.
Open Scope N_scope.

Inductive kind := KNormal | KWild | KExc.

Section Algorithm.
  Context {L : Type} (eqb : L -> L -> bool).

  Definition grule := (kind * list L)%type.

  (** [p] is a prefix of [d] (both read from the right-most label) *)
  Fixpoint prefix (p d : list L) : bool :=
    match p, d with
    | [], _ => true
    | a :: p', b :: d' => eqb a b && prefix p' d'
    | _ :: _, [] => false
    end.

  Definition matches (r : grule) (d : list L) : bool :=
    match fst r with
    | KWild => prefix (snd r) d && (length (snd r) <? length d)%nat
    | _ => prefix (snd r) d
    end.

  (** number of labels of the rule as written in the list *)
  Definition rule_labels (r : grule) : nat :=
    match fst r with KWild => S (length (snd r)) | _ => length (snd r) end.

  Definition is_exc (r : grule) : bool := match fst r with KExc => true | _ => false end.

  (** number of labels of the public suffix of the domain with labels [d] (steps 1 - 6) *)
  Definition psl_len (R : list grule) (d : list L) : nat :=
    let ms := filter (fun r => matches r d) R in                                     (* 1 *)
    match filter is_exc ms with
    | e :: es => fold_right Nat.min (rule_labels e) (map rule_labels es) - 1         (* 3, 5 *)
    | [] =>
        match ms with
        | [] => 1%nat                                                               (* 2 *)
        | m :: ms' => fold_right Nat.max (rule_labels m) (map rule_labels ms')       (* 4 *)
        end
    end.
End Algorithm.

(** *** Names as byte strings *)
Definition DOT : N := 46.
Notation label := bytes (only parsing).
Notation rule := (@grule bytes) (only parsing).

(** labels of a name, left to right; never the empty list ("" has the one label "") *)
Fixpoint split_dot (s : bytes) : list label :=
  match s with
  | [] => [[]]
  | c :: r =>
      if c =? DOT then [] :: split_dot r
      else match split_dot r with
           | l :: ls => (c :: l) :: ls
           | [] => [[c]]
           end
  end.

Fixpoint join_dot (ls : list label) : bytes :=
  match ls with
  | [] => []
  | [l] => l
  | l :: r => l ++ DOT :: join_dot r
  end.

(** labels from the right *)
Definition dom_labels (d : bytes) : list label := rev (split_dot d).

(** the last [k] labels of [d], as a name *)
Definition last_labels (k : nat) (d : bytes) : bytes := join_dot (rev (firstn k (dom_labels d))).

Definition is_nil (l : label) : bool := match l with [] => true | _ => false end.
Definition has_empty_label (d : bytes) : bool := existsb is_nil (split_dot d).

(** the public suffix of the name [d] under the rules [R] *)
Definition psl_suffix (R : list rule) (d : bytes) : bytes :=
  last_labels (psl_len beq R (dom_labels d)) d.

(** the registrable domain (eTLD+1): none for a name with an empty label, or with no label left of
    its public suffix (step 7) *)
Definition psl_etld1 (R : list rule) (d : bytes) : option bytes :=
  if has_empty_label d then None
  else let k := psl_len beq R (dom_labels d) in
       if (k <? length (dom_labels d))%nat then Some (last_labels (S k) d) else None.

(** [d] is itself a public suffix *)
Definition psl_is_suffix (R : list rule) (d : bytes) : bool :=
  negb (has_empty_label d) && (length (dom_labels d) <=? psl_len beq R (dom_labels d))%nat.
