(** Correspondence checks and the property oracle for the RP ID domain (C01).
    Everything here is executable and is evaluated by generated case files. *)
From PK Require Import Lib.Bytes Lib.Check Psl.PslSpec Psl.PslModel Psl.PslShipped RpId.RpIdModel.
Open Scope N_scope.

(** the providers of the correspondence run *)
Inductive pkind := PDefault | PErr | POk | PCustom.

(** the harness's small custom provider (its Rust twin is in harness/src/bin/rpid.rs): the suffixes
    "co.test", "test", "corp.internal" tried in this order; a name with an empty label, a name that is
    itself a listed suffix or that ends in none of them is refused *)
Definition CUSTOM_SUFFIXES : list (list bytes) :=
  [ [[116;101;115;116]; [99;111]];                                    (* co.test *)
    [[116;101;115;116]];                                              (* test *)
    [[105;110;116;101;114;110;97;108]; [99;111;114;112]] ].           (* corp.internal *)
Fixpoint custom_first (sufs : list (list bytes)) (ls : list bytes) : bool :=
  match sufs with
  | [] => false
  | s :: rest => if prefix beq s ls then (length s <? length ls)%nat else custom_first rest ls
  end.
Definition custom_ok (d : bytes) : bool :=
  negb (has_empty_label d) && custom_first CUSTOM_SUFFIXES (dom_labels d).
Definition custom_provider (d : bytes) : option bytes := if custom_ok d then Some d else None.

Definition provider_of (pk : pkind) : bytes -> option bytes :=
  match pk with
  | PDefault => provider_of_table TABLE
  | PErr => fun _ => None
  | POk => fun d => Some d
  | PCustom => custom_provider
  end.

Definition err_code (e : werr) : N :=
  match e with
  | OriginMissingDomain => 0 | OriginRpMissmatch => 1 | UnprotectedOrigin => 2
  | InsecureLocalhostNotAllowed => 3 | InvalidRpId => 4
  end.
Definition res_code (r : bytes + werr) : bytes + N :=
  match r with inl x => inl x | inr e => inr (err_code e) end.

(** One case: the verifier's configuration, the origin as the harness saw it through [url] (or the
    Android host), the RP ID, the answers of the [idna] crate on the effective RP ID
    ([puny]: verdict of [domain_to_unicode]; [ascii]: [domain_to_ascii(..).ok()]), the canonical ASCII
    form [canon] of the effective RP ID computed independently by the driver (Python's IDNA codec,
    lower-casing) for the oracle, and what the real code answered:
    [impl]: [assert_domain] ([None]: it panicked); [impl_valid]: [is_valid_rp_id] on the effective RP ID;
    [e2e]: [Client::register] was run on the pair: did it succeed, and the RP IDs of the passkeys in the
    store afterwards. *)
Inductive rcase :=
  CRp (allow : bool) (pk : pkind) (o : origin) (rp : option bytes) (puny : bool) (ascii : option bytes) (canon : bytes)
      (impl : option (bytes + N)) (impl_valid : option bool) (e2e : option (bool * list bytes)).

Definition sum_eqb (a b : bytes + N) : bool :=
  match a, b with
  | inl x, inl y => beq x y
  | inr x, inr y => x =? y
  | _, _ => false
  end.

(** model = implementation *)
Definition agree (c : rcase) : bool :=
  match c with
  | CRp allow pk o rp puny ascii _ impl impl_valid _ =>
      opt_eqb sum_eqb (Some (res_code (assert_domain allow (provider_of pk) (fun _ => puny) (fun _ => ascii) o rp))) impl
      && opt_eqb Bool.eqb
           (match effective o rp with
            | Some x => Some (is_valid_rp_id allow (provider_of pk) (fun _ => puny) (fun _ => ascii) x)
            | None => None
            end) impl_valid
  end.

(** *** the property on one observation (the right-hand side of [assert_domain_sound] as a boolean) *)

(** [r] is registrable according to the provider's specification; for the default provider this is the
    publicsuffix.org algorithm on the shipped rule file (Psl/PslSpec.v), not the table model *)
Definition registrable (pk : pkind) (r : bytes) : bool :=
  match pk with
  | PDefault => match psl_etld1 RULES r with Some _ => true | None => false end
  | PErr => false
  | POk => true
  | PCustom => custom_ok r
  end.

(** [r] is a string suffix of [h] *)
Definition str_suffix (r h : bytes) : bool :=
  (length r <=? length h)%nat && beq (skipn (length h - length r) h) r.

(** label boundary, on labels: the labels of [r] are the last labels of [h].  For the provider that
    accepts everything the code only promises the weaker form that also lets a suffix starting with
    "." through (it relies on the provider to refuse it). *)
Definition boundary_b (pk : pkind) (h r : bytes) : bool :=
  prefix beq (dom_labels r) (dom_labels h)
  || match pk with POk => starts_with_dot r && str_suffix r h | _ => false end.

(** [canon]: the canonical ASCII form of the effective RP ID; "registrable" is decided on it, so that an
    upper-case or Unicode spelling of a public suffix is a public suffix *)
Definition c01_ok (allow : bool) (pk : pkind) (o : origin) (rp : option bytes) (canon : bytes) (res : bytes + N) : bool :=
  match res with
  | inr _ => true                                   (* the property is an "only if": refusing is allowed *)
  | inl r =>
      match host_of o with
      | None => false                               (* no DNS host name *)
      | Some h =>
          opt_eqb beq (effective o rp) (Some r)     (* exactly the effective RP ID *)
          && boundary_b pk h r
          && ((allow && is_web o && beq r LOCALHOST && beq h LOCALHOST)
              || ((negb (is_web o) || eq_ignore_ascii_case (scheme_of o) HTTPS) && registrable pk canon))
      end
  end.

(** [is_valid_rp_id(x) = true] only for the enabled literal "localhost" or a registrable name *)
Definition valid_ok (allow : bool) (pk : pkind) (x canon : bytes) (v : bool) : bool :=
  negb v || (allow && beq x LOCALHOST) || registrable pk canon.

Fixpoint bytes_list_eqb (a b : list bytes) : bool :=
  match a, b with
  | [], [] => true
  | x :: a', y :: b' => beq x y && bytes_list_eqb a' b'
  | _, _ => false
  end.

Definition oracle (c : rcase) : bool :=
  match c with
  | CRp allow pk o rp puny ascii canon impl impl_valid e2e =>
      match impl with
      | None => false                               (* a panic *)
      | Some res =>
          c01_ok allow pk o rp canon res
          && match effective o rp, impl_valid with
             | Some x, Some v => valid_ok allow pk x canon v
             | None, None => true
             | _, _ => false                        (* is_valid_rp_id panicked *)
             end
          && match e2e with
             | None => true
             | Some (ok, stored) =>
                 match res with
                 | inl r => ok && bytes_list_eqb stored [r]   (* the credential is created for exactly [r] *)
                 | inr _ => negb ok && bytes_list_eqb stored []   (* a rejected pair never reaches the store *)
                 end
             end
      end
  end.
